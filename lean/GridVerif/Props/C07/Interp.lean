/-
  C07, round 3 — `MolGrid.interpolate` and its inner `interpolate_low` as *generated* code
  (`Gen.MolGrid.interpolate`, `Gen.MolGrid.interpolate_low`, translated statement by statement from the
  current molgrid.py) against the hand model of `Model/MolGrid.lean`, and the MolGrid side of the
  interpolation clause: atom `A` interpolates `(func_vals · aim_weights)[indices[A]:indices[A+1]]` on its
  stored atomic grid, the callable handed back is the sum over the atoms.

  `AtomGrid.interpolate` is a given component (C09): an abstract function of the atomic grid and the
  values, returning a callable of `(points, deriv, deriv_spherical, only_radial_derivs)`.
-/
import GridVerif.Props.C07.GenInit

namespace GridVerif.C07
open GridVerif.MolGrid List

variable {P K Q : Type}

/-! ### list / loop lemmas -/

theorem allOk_cons_ok {α β : Type} (f : α → Py β) (a : α) (r : List α) (b : β) (h : f a = .ok b) :
    allOk f (a :: r) = (allOk f r).map (b :: ·) := by
  rw [allOk.eq_2]
  simp only [h]
  cases allOk f r <;> rfl

theorem allOk_cons_error {α β : Type} (f : α → Py β) (a : α) (r : List α) (e : PyErr)
    (h : f a = .error e) : allOk f (a :: r) = .error e := by
  rw [allOk.eq_2]
  simp only [h]

theorem foldlM_append_eq_allOk {β : Type} (g : Nat → Py β) (l : List Nat) (init : List β) :
    l.foldlM (fun acc i => do let x ← g i; pure (acc ++ [x])) init =
      (allOk g l).map (init ++ ·) := by
  induction l generalizing init with
  | nil => simp [allOk, Except.map, pure, Except.pure]
  | cons a r ih =>
    rw [List.foldlM_cons]
    cases hg : g a with
    | error e => rw [allOk_cons_error g a r e hg]; rfl
    | ok b =>
      rw [allOk_cons_ok g a r b hg]
      simp only [ok_bind]
      show (Except.ok (init ++ [b]) >>= fun s => r.foldlM _ s) = _
      rw [ok_bind, ih]
      cases allOk g r with
      | error e => rfl
      | ok bs => simp [Except.map]

/-- `out += b` on arrays of one shape: entry by entry. -/
theorem npIAdd_same_shape [Add K] (shape : List Nat) (a b : List K) :
    npIAdd ⟨shape, a⟩ ⟨shape, b⟩ = .ok ⟨shape, zipWith (· + ·) a b⟩ := by
  unfold npIAdd; simp only [↓reduceIte]; rfl

/-! ### generated = hand model -/

/-- **The generated inner function `interpolate_low` is the hand model** `sumInterp`: the first atom's
array, then `output += …` for the others in order (every exception included: no atom at all is the
`IndexError` of `interpolate_funcs[0]`). -/
theorem gen_interpolate_low_eq_model [Add K] (fs : List (Interp Q K)) (pts : Q) (d : Int)
    (ds ord : Bool) :
    Gen.MolGrid.interpolate_low fs pts d ds ord = sumInterp fs pts d ds ord := by
  unfold Gen.MolGrid.interpolate_low sumInterp
  cases fs with
  | nil => rfl
  | cons f0 r =>
    have h0 : pyGet (f0 :: r) 0 = .ok f0 := rfl
    simp only [h0, ok_bind, pySliceFrom, List.drop_succ_cons, List.drop_zero, pyForEach]

/-- The defaults of the inner function's signature, as generated: `deriv=0`, `deriv_spherical=False`,
`only_radial_derivs=False`. -/
theorem interpolate_low_defaults [Add K] (fs : List (Interp Q K)) (pts : Q) :
    Gen.MolGrid.interpolate_low fs pts = Gen.MolGrid.interpolate_low fs pts 0 false false ∧
    (∀ d : Int, Gen.MolGrid.interpolate_low fs pts d = Gen.MolGrid.interpolate_low fs pts d false false) ∧
    (∀ (d : Int) (ds : Bool),
      Gen.MolGrid.interpolate_low fs pts d ds = Gen.MolGrid.interpolate_low fs pts d ds false) :=
  ⟨rfl, fun _ => rfl, fun _ _ => rfl⟩

/-- **The generated `MolGrid.interpolate` is the hand model**, for every molecular grid value, every
`AtomGrid.interpolate` and every array of function values: the `ValueError` without stored grids, the
broadcasting product with the aim weights, the per-atom loop (two index look-ups, `self[i]` — the
generated `__getitem__` —, the slice, the atomic interpolation), the closure handed back. -/
theorem gen_interpolate_eq_model [Add K] [Mul K] (atInterp : AtGrid P K → List K → Py (Interp Q K))
    (m : MolGrid P K) (f : List K) :
    Gen.MolGrid.interpolate atInterp m f = m.interpolate atInterp f := by
  unfold Gen.MolGrid.interpolate MolGrid.interpolate
  cases hst : m.atgrids with
  | none => rfl
  | some gs =>
    simp only
    cases npMul1 f m.aimWeights with
    | error e => rfl
    | ok fa =>
      simp only [ok_bind]
      have hbody : ∀ (acc : List (Interp Q K)) (i : Nat),
          (do
            let a ← pyGet m.indices (i : Int)
            let b ← pyGet m.indices ((i : Int) + 1)
            let g ← Gen.MolGrid.getItem m (i : Int)
            let x ← subInterpolate atInterp g (pySlice fa a b)
            pure (acc ++ [x]) : Py (List (Interp Q K))) =
          (do
            let x ← (do
              let a ← pyGet m.indices (i : Int)
              let b ← pyGet m.indices ((i : Int) + 1)
              let g ← pyGet gs (i : Int)
              atInterp g (pySlice fa a b))
            pure (acc ++ [x])) := by
        intro acc i
        rw [gen_getItem_eq_model]
        unfold MolGrid.getItem
        rw [hst]
        dsimp only
        cases pyGet m.indices (i : Int) with
        | error e => rfl
        | ok a =>
          cases pyGet m.indices ((i : Int) + 1) with
          | error e => rfl
          | ok b =>
            cases pyGet gs (i : Int) with
            | error e => rfl
            | ok g => rfl
      unfold pyForRange
      simp only [hbody]
      rw [foldlM_append_eq_allOk]
      cases allOk (fun i : Nat => do
          let a ← pyGet m.indices (i : Int)
          let b ← pyGet m.indices ((i : Int) + 1)
          let g ← pyGet gs (i : Int)
          atInterp g (pySlice fa a b)) (List.range m.atcoords.length) with
      | error e => rfl
      | ok fs =>
        simp only [Except.map, List.nil_append, ok_bind]
        show Except.ok _ = Except.ok _
        congr 1
        funext pts d ds ord
        exact gen_interpolate_low_eq_model fs pts d ds ord

/-- Non-vacuity on numbers: two atoms (1 and 2 points), aim weights `[1, 2, 3]`, values `[5, 6, 7]`; the
"atomic interpolant" returns the sum of the values it was given times the derivative order plus one, for
every query point. -/
example :
    let m : MolGrid Nat Nat := ⟨[7, 7, 8], [1, 2, 9], [1, 1, 3], [1, 2, 3], [0, 1], [0, 1, 3],
      some [⟨[7], [1], 0⟩, ⟨[7, 8], [1, 3], 1⟩]⟩
    let ati : AtGrid Nat Nat → List Nat → Py (Interp (List Nat) Nat) := fun _ vals =>
      .ok fun pts d _ _ => .ok ⟨[pts.length], pts.map fun _ => vals.sum * (d.toNat + 1)⟩
    ((Gen.MolGrid.interpolate ati m [5, 6, 7]).toOption.map fun I =>
      ((I [0, 0] 0 false false).toOption, (I [0, 0] 1 false false).toOption)) =
    some (some ⟨[2], [5 + (12 + 21), 5 + (12 + 21)]⟩, some ⟨[2], [2 * 5 + 2 * (12 + 21), 76]⟩) := by
  decide

/-! ### the clause: slices, aim weights, the sum over atoms -/

/-- `interpolate` needs the stored atomic grids: `ValueError` after a construction with `store=False`
(whatever `AtomGrid.interpolate` is). -/
theorem interpolate_needs_store [Add K] [Mul K] [NatCast K] {atnums : List Nat}
    {atgrids : List (AtGrid P K)} {aim : AimArg P K} {m : MolGrid P K}
    (h : MolGrid.init atnums atgrids aim false = .ok m)
    (atInterp : AtGrid P K → List K → Py (Interp Q K)) (f : List K) :
    Gen.MolGrid.interpolate atInterp m f = .error .valueError := by
  have sp := init_spec h
  have hst : m.atgrids = none := by simpa using sp.stored
  rw [gen_interpolate_eq_model]
  unfold MolGrid.interpolate
  rw [hst]
  rfl

/-- **The MolGrid side of the interpolation clause.** After `MolGrid(atnums, atgrids, aim, store=True)`,
for function values `f` of the grid's size: if `AtomGrid.interpolate` of atom `k`, given
`(f · aim_weights)[indices[k]:indices[k+1]]` — entry by entry `f[j] · aim_weights[j]` on atom `k`'s
segment —, hands back `F[k]`, then `interpolate(f)` (the generated text) succeeds and hands back the
callable that evaluates `F[0]` and adds `F[1]`, `F[2]`, … in order (`sumInterp`; entry by entry the sum
over the atoms: `sumInterp_same_shape`). -/
theorem interpolate_sum_over_atoms [CommSemiring K] {atnums : List Nat}
    {atgrids : List (AtGrid P K)} {aim : AimArg P K} {m : MolGrid P K}
    (h : MolGrid.init atnums atgrids aim true = .ok m) (hwf : ∀ g ∈ atgrids, g.WF)
    (haim : m.aimWeights.length = m.size)
    (atInterp : AtGrid P K → List K → Py (Interp Q K)) (f : List K) (hf : f.length = m.size)
    (F : List (Interp Q K)) (hF : F.length = atgrids.length)
    (hat : ∀ k (hk : k < atgrids.length) (a b : Nat), m.indices[k]? = some a →
      m.indices[k + 1]? = some b →
      atInterp atgrids[k] (zipWith (· * ·) (pySlice f a b) (pySlice m.aimWeights a b)) =
        .ok (F[k]'(by omega))) :
    Gen.MolGrid.interpolate atInterp m f = .ok (sumInterp F) := by
  have sp := init_spec h
  obtain ⟨hlen, -, -, -, -, -, hcl, hsl⟩ := molgrid_slices h hwf
  have hst : m.atgrids = some atgrids := by simpa using sp.stored
  rw [gen_interpolate_eq_model]
  unfold MolGrid.interpolate
  rw [hst]
  have hmul : npMul1 f m.aimWeights = .ok (zipWith (· * ·) f m.aimWeights) := by
    unfold npMul1; rw [if_pos (by rw [hf, haim])]; rfl
  simp only [hmul, ok_bind]
  have hall : allOk (fun i : Nat => do
      let a ← pyGet m.indices (i : Int)
      let b ← pyGet m.indices ((i : Int) + 1)
      let g ← pyGet atgrids (i : Int)
      atInterp g (pySlice (zipWith (· * ·) f m.aimWeights) a b)) (List.range m.atcoords.length) = .ok F := by
    rw [allOk_eq_ok_iff, hcl]
    apply forall₂_range_of_index _ _ _ hF
    intro k hk
    obtain ⟨a, b, ha, hb, -, -, -, -, -⟩ := hsl k hk
    simp only [pyGet_succ, pyGet_nat, ha, hb, ok_bind, List.getElem?_eq_getElem hk, pySlice_zipWith]
    exact hat k hk a b ha hb
  rw [hall]
  rfl

/-- **Entry by entry, the callable handed back is the sum over the atoms**: if for the given arguments
every atomic interpolant returns an array of one shape, atom `k`'s with entries `v k j`, then the
molecular one returns that shape with entries `Σ_k v k j` (added in the order of the atoms). -/
theorem sumInterp_same_shape [AddCommMonoid K] (f0 : Interp Q K) (r : List (Interp Q K)) (pts : Q)
    (d : Int) (ds ord : Bool) (shape : List Nat) (n : Nat) (v : Nat → Nat → K)
    (hv : ∀ k (hk : k < (f0 :: r).length), (f0 :: r)[k] pts d ds ord =
      .ok ⟨shape, (List.range n).map (v k)⟩) :
    sumInterp (f0 :: r) pts d ds ord =
      .ok ⟨shape, (List.range n).map fun j => ((List.range (r.length + 1)).map fun k => v k j).sum⟩ := by
  unfold sumInterp
  have h0 := hv 0 (by simp)
  simp only [List.getElem_cons_zero] at h0
  simp only [h0, ok_bind]
  have key : ∀ (r : List (Interp Q K)) (acc : Nat → K) (w : Nat → Nat → K),
      (∀ k (hk : k < r.length), r[k] pts d ds ord = .ok ⟨shape, (List.range n).map (w k)⟩) →
      r.foldlM (fun out f => do npIAdd out (← f pts d ds ord)) (⟨shape, (List.range n).map acc⟩ : NdArr K) =
        .ok ⟨shape, (List.range n).map fun j => acc j + ((List.range r.length).map fun k => w k j).sum⟩ := by
    intro r
    induction r with
    | nil => intro acc w _; simp [pure, Except.pure]
    | cons g r ih =>
      intro acc w hw
      have hg := hw 0 (by simp)
      simp only [List.getElem_cons_zero] at hg
      rw [List.foldlM_cons]
      simp only [hg, ok_bind, npIAdd_same_shape, List.zipWith_map_left, List.zipWith_map_right,
        List.zipWith_self]
      have := ih (fun j => acc j + w 0 j) (fun k => w (k + 1)) (fun k hk => by
        have := hw (k + 1) (by simpa using hk)
        simpa using this)
      rw [this]
      congr 2
      apply List.map_congr_left
      intro j _
      rw [List.length_cons, List.range_succ_eq_map, List.map_cons, List.sum_cons, List.map_map, add_assoc]
      rfl
  have := key r (v 0) (fun k => v (k + 1)) (fun k hk => by
    have := hv (k + 1) (by simpa using hk)
    simpa using this)
  rw [this]
  congr 2
  apply List.map_congr_left
  intro j _
  rw [List.range_succ_eq_map, List.map_cons, List.sum_cons, List.map_map]
  rfl

/-- Non-vacuity: three atomic interpolants of shape `[2]`. -/
example : sumInterp (Q := Unit) (K := Nat)
    [fun _ _ _ _ => .ok ⟨[2], [1, 2]⟩, fun _ _ _ _ => .ok ⟨[2], [10, 20]⟩, fun _ _ _ _ => .ok ⟨[2], [100, 200]⟩]
    () 0 false false = .ok ⟨[2], [111, 222]⟩ := by
  decide

/-- The broadcasting branch of `+=` as modelled (NumPy's rule, exercised against NumPy by the
correspondence): a `(3,)` row into an `(M, 3)` array, an `(M, 1)` column, a scalar; a longer array or
more axes are rejected. -/
example :
    npIAdd (K := Nat) ⟨[2, 3], [1, 2, 3, 4, 5, 6]⟩ ⟨[3], [10, 20, 30]⟩ = .ok ⟨[2, 3], [11, 22, 33, 14, 25, 36]⟩ ∧
    npIAdd (K := Nat) ⟨[2, 3], [1, 2, 3, 4, 5, 6]⟩ ⟨[2, 1], [10, 20]⟩ = .ok ⟨[2, 3], [11, 12, 13, 24, 25, 26]⟩ ∧
    npIAdd (K := Nat) ⟨[2, 3], [1, 2, 3, 4, 5, 6]⟩ ⟨[1], [7]⟩ = .ok ⟨[2, 3], [8, 9, 10, 11, 12, 13]⟩ ∧
    npIAdd (K := Nat) ⟨[2], [1, 2]⟩ ⟨[3], [1, 2, 3]⟩ = .error .valueError ∧
    npIAdd (K := Nat) ⟨[2], [1, 2]⟩ ⟨[2, 2], [1, 2, 3, 4]⟩ = .error .valueError := by
  decide

end GridVerif.C07

/-
  C18 — multi-domain integration equals the iterated product quadrature.

  Model: `Model/NGrid.lean` (hand-written, tied by correspondence, harness/props/c18.py).
  All theorems: any commutative semiring `K` of values, any point type `α` (mixed 1-D / 3-D
  points are just different `α`-values), any number and sizes of domains, list mode and
  repeated-grid mode (`g.domains`), every chunk size `c ≥ 1`.
  Helper lemmas: `Lemmas/NGrid.lean`.
-/
import GridVerif.Lemmas.NGrid

namespace GridVerif.C18
open GridVerif.NGrid

variable {α β K : Type}

/-- **The iterated product quadrature**: the sum over all combinations of one node per
domain of (product of the weights) · f(points of the combination). -/
def productSum [CommSemiring K] (gs : List (Grid α K)) (f : List α → K) : K :=
  ((product (gs.map Grid.nodes)).map fun combo =>
    (combo.map Prod.snd).prod * f (combo.map Prod.fst)).sum

/-- The single-grid quadrature `Σ w·h(p)`. -/
def gridSum [CommSemiring K] (g : Grid α K) (h : α → K) : K :=
  (g.nodes.map fun xw => xw.2 * h xw.1).sum

/-! ### the product set -/

/-- (order 1) `product` is exactly the set of tuples with one element of each factor. -/
theorem mem_product (ls : List (List β)) (c : List β) :
    c ∈ product ls ↔ List.Forall₂ (· ∈ ·) c ls := by
  induction ls generalizing c with
  | nil => simp [product_nil]
  | cons xs rest ih =>
    rw [product_cons, List.forall₂_cons_right_iff]
    simp only [List.mem_flatMap, List.mem_map, ih]
    constructor
    · rintro ⟨x, hx, t, ht, rfl⟩; exact ⟨x, t, hx, ht, rfl⟩
    · rintro ⟨x, t, hx, ht, rfl⟩; exact ⟨x, hx, t, ht, rfl⟩

/-- (order 2) … enumerated in `itertools.product` order: the first factor is the slowest
index, i.e. entry `i·|product rest| + j` is `xs[i] :: (product rest)[j]`; equivalently the
last factor is the fastest one. Number of combinations = product of the sizes. -/
theorem product_order (xs : List β) (rest : List (List β)) :
    (product (xs :: rest)).length = xs.length * (product rest).length ∧
    (∀ ls : List (List β), (product ls).length = (ls.map List.length).prod) ∧
    (∀ i j (hi : i < xs.length) (hj : j < (product rest).length),
      (product (xs :: rest))[i * (product rest).length + j]? = some (xs[i] :: (product rest)[j])) ∧
    (∀ (ls : List (List β)) (l : List β),
      product (ls ++ [l]) = (product ls).flatMap fun pre => l.map fun x => pre ++ [x]) := by
  refine ⟨?_, length_product, fun i j hi hj => product_cons_getElem xs rest i j hi hj,
    product_append_singleton⟩
  simp [length_product]

/-! ### domains, constructor -/

/-- The constructor's guards give `WF`; it rejects the empty list, `num_domains` together
with several grids, and `num_domains < 1`. -/
theorem constructor_spec (gl : List (Grid α K)) (nd : Option Nat) :
    (∀ g, MGrid.mk? gl nd = .ok g → (∀ x ∈ gl, Grid.WF x) →
        g.WF ∧ g.gridList = gl ∧ g.numDomainsArg = nd) ∧
    (gl = [] → MGrid.mk? gl nd = .error .valueError) ∧
    (∀ n, nd = some n → (gl.length ≠ 1 ∨ n < 1) → MGrid.mk? gl nd = .error .valueError) := by
  refine ⟨?_, ?_, ?_⟩
  · intro g hg hwf
    unfold MGrid.mk? at hg
    by_cases hlen : gl.length = 0
    · simp [hlen] at hg
    · have hne : gl ≠ [] := fun h => hlen (by simp [h])
      cases nd with
      | none =>
        simp only [hlen, if_false, Except.ok.injEq] at hg
        subst hg
        exact ⟨⟨hne, by simp, hwf⟩, rfl, rfl⟩
      | some n =>
        by_cases h1 : gl.length ≠ 1
        · simp [hlen, h1] at hg
        · by_cases h2 : n < 1
          · simp [hlen, h1, h2] at hg
          · simp only [hlen, h1, h2, if_false, Except.ok.injEq] at hg
            subst hg
            refine ⟨⟨hne, ?_, hwf⟩, rfl, rfl⟩
            intro m hm
            simp only [Option.some.injEq] at hm
            subst hm
            exact ⟨Decidable.not_not.mp h1, by omega⟩
  · intro h; subst h; simp [MGrid.mk?]
  · intro n hn h
    subst hn
    unfold MGrid.mk?
    split
    · rfl
    · rcases h with h | h
      · simp [h]
      · simp only
        split
        · rfl
        · simp

/-- List mode: one domain per listed grid; repeated-grid mode: the one grid
`num_domains` times. -/
theorem domains_spec (g : MGrid α K) (hwf : g.WF) :
    (g.numDomainsArg = none → g.domains = g.gridList) ∧
    (∀ n g0, g.numDomainsArg = some n → g.gridList = [g0] → g.domains = List.replicate n g0) ∧
    g.domains.length = g.numDomains ∧ (∀ x ∈ g.domains, Grid.WF x) ∧ g.domains ≠ [] := by
  obtain ⟨hne, hnd, hgw⟩ := hwf
  unfold MGrid.domains MGrid.numDomains
  refine ⟨?_, ?_, ?_, ?_, ?_⟩
  · intro h; rw [h]; split
    · rename_i g0 hg; simp [hg]
    · rfl
  · intro n g0 h hg; rw [h, hg]
  · split
    · simp
    · rename_i hns
      cases h : g.numDomainsArg with
      | none => rfl
      | some n =>
        obtain ⟨h1, _⟩ := hnd n h
        match hg : g.gridList, h1 with
        | [g0], _ => exact absurd hg (hns g0)
  · split
    · rename_i g0 hg
      intro x hx
      rw [List.mem_replicate] at hx
      exact hgw x (by rw [hg, hx.2]; simp)
    · exact hgw
  · split
    · rename_i g0 hg
      cases h : g.numDomainsArg with
      | none => simp [hg]
      | some n =>
        obtain ⟨_, h2⟩ := hnd n h
        simp only [ne_eq, List.replicate_eq_nil_iff]; omega
    · exact hne

theorem factors_eq (g : MGrid α K) (sel : Grid α K → List β) :
    g.factors sel = g.domains.map sel := by
  unfold MGrid.factors MGrid.domains
  split <;> simp

theorem map_weights_eq_nodes (gs : List (Grid α K)) (h : ∀ x ∈ gs, Grid.WF x) :
    gs.map Grid.weights = (gs.map Grid.nodes).map (List.map Prod.snd) := by
  rw [List.map_map]
  apply List.map_congr_left
  intro x hx
  have := h x hx
  unfold Grid.WF at this
  simp only [Function.comp, Grid.nodes]
  rw [List.map_snd_zip (by omega)]

theorem map_points_eq_nodes (gs : List (Grid α K)) (h : ∀ x ∈ gs, Grid.WF x) :
    gs.map Grid.points = (gs.map Grid.nodes).map (List.map Prod.fst) := by
  rw [List.map_map]
  apply List.map_congr_left
  intro x hx
  have := h x hx
  unfold Grid.WF at this
  simp only [Function.comp, Grid.nodes]
  rw [List.map_fst_zip (by omega)]

section semiring
variable [CommSemiring K]

/-! ### points, weights, size -/

/-- **Points and weights enumerate the same product set in the same order**: both are the
image of the one enumeration `product (nodes of the domains)` — entry `k` of `points` is the
tuple of points and entry `k` of `weights` the product of the weights of the *same*
combination of nodes. -/
theorem points_weights_enumerate (g : MGrid α K) (hwf : g.WF) :
    g.points = (product (g.domains.map Grid.nodes)).map (List.map Prod.fst) ∧
    g.weights = (product (g.domains.map Grid.nodes)).map (fun c => (c.map Prod.snd).prod) ∧
    g.points.zip g.weights = (product (g.domains.map Grid.nodes)).map
      (fun c => (c.map Prod.fst, (c.map Prod.snd).prod)) := by
  have hd := (domains_spec g hwf).2.2.2.1
  have hp : g.points = (product (g.domains.map Grid.nodes)).map (List.map Prod.fst) := by
    unfold MGrid.points
    rw [factors_eq, map_points_eq_nodes _ hd, product_map]
  have hw : g.weights = (product (g.domains.map Grid.nodes)).map (fun c => (c.map Prod.snd).prod) := by
    unfold MGrid.weights
    rw [factors_eq, map_weights_eq_nodes _ hd, product_map, List.map_map]
    apply List.map_congr_left
    intro c _
    simp [prodK_eq]
  refine ⟨hp, hw, ?_⟩
  rw [hp, hw, List.zip_map']

/-- **Reported size** = number of enumerated points = number of enumerated weights
= product of the sizes of the domains. -/
theorem size_eq (g : MGrid α K) (hwf : g.WF) :
    g.size = g.points.length ∧ g.size = g.weights.length ∧
    g.size = (g.domains.map Grid.size).prod := by
  have hsz : g.size = (g.domains.map Grid.size).prod := by
    unfold MGrid.size MGrid.domains
    split
    · simp [List.prod_replicate]
    · simp [List.prod_eq_foldr]
  have hd := (domains_spec g hwf).2.2.2.1
  have hl : (product (g.domains.map Grid.nodes)).length = (g.domains.map Grid.size).prod := by
    rw [length_product, List.map_map]
    congr 1
    apply List.map_congr_left
    intro x hx
    have := hd x hx
    unfold Grid.WF at this
    simp [Grid.nodes, Grid.size, this]
  obtain ⟨hp, hw, _⟩ := points_weights_enumerate g hwf
  refine ⟨?_, ?_, hsz⟩
  · rw [hp, List.length_map, hl, hsz]
  · rw [hw, List.length_map, hl, hsz]

/-! ### the integration routes -/

/-- **Point-by-point route, every chunk size `c ≥ 1`** (dividing the total or not):
`integrate(f, non_vectorized=True, integration_chunk_size=c)` is the iterated product
quadrature. -/
theorem integrate_nonvec_eq (g : MGrid α K) (hwf : g.WF) (f : List α → K) (c : Nat) (hc : 1 ≤ c) :
    g.integrateNonVec f c = productSum g.domains f := by
  obtain ⟨hp, hw, _⟩ := points_weights_enumerate g hwf
  unfold MGrid.integrateNonVec
  simp only
  rw [chunk_fold c hc _ _ (by rw [hp, hw]; simp)]
  rw [hp, hw, List.map_map, List.zipWith_map_left, List.zipWith_map_right, List.zipWith_self]
  simp only [Nat.cast_zero, zero_add, productSum, Function.comp]
  congr 1
  apply List.map_congr_left
  intro c _
  ring

/-- **Independence of the chunk size**: any two chunk sizes `≥ 1` give the same integral
(1, sizes not dividing the total, the total ± 1, 6000, …). -/
theorem integrate_chunk_independent (g : MGrid α K) (hwf : g.WF) (f : List α → K)
    (c c' : Nat) (hc : 1 ≤ c) (hc' : 1 ≤ c') :
    g.integrateNonVec f c = g.integrateNonVec f c' := by
  rw [integrate_nonvec_eq g hwf f c hc, integrate_nonvec_eq g hwf f c' hc']

/-- Recorded, outside the property ("chunk sizes incl. 1"): `integration_chunk_size = 0`
yields no chunk at all and the result 0, whatever the integrand. -/
theorem integrate_chunk_zero (g : MGrid α K) (f : List α → K) : g.integrateNonVec f 0 = 0 := by
  simp [MGrid.integrateNonVec, chunked_zero]

theorem productSum_append_singleton (init : List (Grid α K)) (last : Grid α K) (f : List α → K) :
    productSum (init ++ [last]) f =
      ((product (init.map Grid.nodes)).map fun pre =>
        (pre.map Prod.snd).prod *
          (last.nodes.map fun xw => xw.2 * f (pre.map Prod.fst ++ [xw.1])).sum).sum := by
  unfold productSum
  rw [List.map_append, List.map_singleton, product_append_singleton, List.map_flatMap, sum_flatMap]
  congr 1
  apply List.map_congr_left
  intro pre _
  rw [List.map_map, ← List.sum_map_mul_left]
  congr 1
  apply List.map_congr_left
  intro xw _
  simp [mul_assoc]

omit [CommSemiring K] in
/-- Splitting the domains into all but the last and the last, as the vectorised route does. -/
theorem domains_split (g : MGrid α K) (hwf : g.WF) (_h1 : g.numDomains ≠ 1) :
    ∃ init last, g.gridList.getLast? = some last ∧ g.domains = init ++ [last] ∧
      g.preFactors Grid.weights = init.map Grid.weights ∧
      g.preFactors Grid.points = init.map Grid.points := by
  obtain ⟨hne, hnd, _⟩ := hwf
  unfold MGrid.domains MGrid.preFactors
  match hg : g.gridList with
  | [] => exact absurd hg hne
  | [g0] =>
    have hn : 1 ≤ g.numDomains := by
      unfold MGrid.numDomains
      cases h : g.numDomainsArg with
      | none => simp [hg]
      | some n => exact (hnd n h).2
    refine ⟨List.replicate (g.numDomains - 1) g0, g0, rfl, ?_, by simp, by simp⟩
    simp only
    rw [← List.replicate_succ', show g.numDomains - 1 + 1 = g.numDomains by omega]
  | a :: b :: t =>
    have hl : (a :: b :: t).getLast? = some ((a :: b :: t).getLast (by simp)) :=
      List.getLast?_eq_some_getLast (by simp)
    refine ⟨(a :: b :: t).dropLast, (a :: b :: t).getLast (by simp), hl, ?_, rfl, rfl⟩
    exact (List.dropLast_append_getLast? _ (by rw [hl]; simp)).symm

/-- **Vectorised route** (`non_vectorized=False`), including the single-domain shortcut:
if the vectorised integrand `F` evaluates `f` on every point of the last domain
(`F pre xs = [f(*pre, x) for x in xs]`), the result is the iterated product quadrature. -/
theorem integrate_vec_eq (g : MGrid α K) (hwf : g.WF) (f : List α → K)
    (F : List α → List α → List K)
    (hF : ∀ pre xs, F pre xs = xs.map fun x => f (pre ++ [x])) :
    g.integrateVec F = .ok (productSum g.domains f) := by
  have hdom := domains_spec g hwf
  unfold MGrid.integrateVec
  by_cases h1 : g.numDomains = 1
  · -- single-domain shortcut
    rw [if_pos h1]
    obtain ⟨hne, hnd, hgw⟩ := hwf
    have hlen : g.gridList.length = 1 := by
      unfold MGrid.numDomains at h1
      cases h : g.numDomainsArg with
      | none => rw [h] at h1; exact h1
      | some n => exact (hnd n h).1
    match hg : g.gridList, hlen with
    | [g0], _ =>
      have hd : g.domains = [g0] := by
        unfold MGrid.domains; rw [hg]; simp [h1]
      have hw0 : Grid.WF g0 := hgw g0 (by rw [hg]; simp)
      unfold Grid.WF at hw0
      simp only
      unfold Grid.integrate
      rw [hF, if_neg (by simp [Grid.size, hw0])]
      rw [hd, sumK_eq, sum_zipWith_weights_map]
      have := productSum_append_singleton ([] : List (Grid α K)) g0 f
      simp only [List.nil_append, List.map_nil, product_nil, List.map_cons, List.prod_nil, one_mul,
        List.sum_cons, List.sum_nil, add_zero] at this
      rw [this]
      rfl
  · rw [if_neg h1]
    obtain ⟨init, last, hlast, hd, hpw, hpp⟩ := domains_split g hwf h1
    rw [hlast]
    simp only
    have hwfd := hdom.2.2.2.1
    rw [hd] at hwfd
    have hwl : Grid.WF last := hwfd last (by simp)
    have hwi : ∀ x ∈ init, Grid.WF x := fun x hx => hwfd x (by simp [hx])
    unfold Grid.WF at hwl
    rw [hpw, hpp, map_weights_eq_nodes _ hwi, map_points_eq_nodes _ hwi, product_map, product_map,
      List.map_map, List.zip_map']
    rw [foldlM_ok _ _ (fun pw => pw.2 *
      (last.nodes.map fun xw => xw.2 * f (pw.1 ++ [xw.1])).sum)]
    · rw [hd, productSum_append_singleton, List.map_map]
      simp only [Nat.cast_zero, zero_add, Function.comp_def, prodK_eq]
    · intro acc pw _
      unfold Grid.integrate
      rw [hF, if_neg (by simp [Grid.size, hwl])]
      simp only [bind, Except.bind, pure, Except.pure]
      rw [sumK_eq, sum_zipWith_weights_map]
      rfl

/-- **Same result for vectorised and point-by-point evaluation and for every chunk size.** -/
theorem vectorised_eq_pointwise (g : MGrid α K) (hwf : g.WF) (f : List α → K)
    (F : List α → List α → List K) (hF : ∀ pre xs, F pre xs = xs.map fun x => f (pre ++ [x]))
    (c : Nat) (hc : 1 ≤ c) :
    g.integrateVec F = .ok (g.integrateNonVec f c) := by
  rw [integrate_vec_eq g hwf f F hF, integrate_nonvec_eq g hwf f c hc]

/-! ### nested sums, separable integrands -/

/-- **Nested-sum form** (the iterated quadrature): the product sum over `g :: gs` is the
single-grid quadrature over `g` of the product sum over `gs` with the first argument
fixed; over no domain it is the value of the integrand. -/
theorem productSum_nested (g : Grid α K) (gs : List (Grid α K)) (f : List α → K) :
    productSum ([] : List (Grid α K)) f = f [] ∧
    productSum (g :: gs) f = gridSum g fun x => productSum gs fun c => f (x :: c) := by
  constructor
  · simp [productSum, product_nil]
  · unfold productSum gridSum
    rw [List.map_cons, product_cons, List.map_flatMap, sum_flatMap]
    congr 1
    apply List.map_congr_left
    intro xw _
    rw [List.map_map, ← List.sum_map_mul_left]
    congr 1
    apply List.map_congr_left
    intro c _
    simp [mul_assoc]

/-- **Separable integrands give the product of the single-grid integrals**:
for `f(x₁,…,x_N) = f₁(x₁)·…·f_N(x_N)` the iterated product quadrature is
`Π_k Σ_i w_{k,i} f_k(p_{k,i})`. -/
theorem separable (gs : List (Grid α K)) (fs : List (α → K)) (hl : fs.length = gs.length) :
    productSum gs (fun c => (List.zipWith (fun fk x => fk x) fs c).prod)
      = (List.zipWith (fun fk g => gridSum g fk) fs gs).prod := by
  induction gs generalizing fs with
  | nil =>
    cases fs with
    | nil => simp [productSum, product_nil]
    | cons _ _ => simp at hl
  | cons g gs ih =>
    cases fs with
    | nil => simp at hl
    | cons f1 fs =>
      have hl' : fs.length = gs.length := by simpa using hl
      rw [(productSum_nested g gs _).2]
      simp only [List.zipWith_cons_cons, List.prod_cons]
      unfold gridSum
      have : ∀ x : α, productSum gs (fun c => f1 x * (List.zipWith (fun fk x => fk x) fs c).prod)
          = f1 x * (List.zipWith (fun fk g => gridSum g fk) fs gs).prod := by
        intro x
        rw [← ih fs hl']
        unfold productSum
        rw [← List.sum_map_mul_left]
        congr 1
        apply List.map_congr_left
        intro c _
        ring
      simp only [this]
      rw [← List.sum_map_mul_right]
      congr 1
      apply List.map_congr_left
      intro xw _
      unfold gridSum
      ring

/-- Separable integrand through the code paths: both routes return the product of the
single-grid integrals. -/
theorem integrate_separable (g : MGrid α K) (hwf : g.WF) (fs : List (α → K))
    (hl : fs.length = g.domains.length) (c : Nat) (hc : 1 ≤ c) :
    g.integrateNonVec (fun combo => (List.zipWith (fun fk x => fk x) fs combo).prod) c
      = (List.zipWith (fun fk d => gridSum d fk) fs g.domains).prod := by
  rw [integrate_nonvec_eq g hwf _ c hc, separable _ _ hl]

end semiring

/-! ### non-vacuity: a concrete mixed instance over `ℤ` -/

section examples

/-- two 1-D points, weights 1 and −2 -/
def exG1 : Grid (List Int) Int := ⟨[[10], [20]], [1, -2]⟩
/-- three 3-D points -/
def exG2 : Grid (List Int) Int := ⟨[[1, 0, 0], [0, 2, 0], [1, 1, 3]], [1, 1, 3]⟩
def exM : MGrid (List Int) Int := ⟨[exG1, exG2], none⟩
def exR : MGrid (List Int) Int := ⟨[exG2], some 3⟩
/-- a non-separable integrand: (sum of all coordinates of all arguments)² -/
def exF (c : List (List Int)) : Int := (c.flatten.sum) ^ 2

theorem exM_wf : exM.WF := by
  refine ⟨by simp [exM], by simp [exM], ?_⟩
  intro x hx
  simp only [exM, List.mem_cons, List.not_mem_nil, or_false] at hx
  rcases hx with rfl | rfl <;> simp [Grid.WF, exG1, exG2]

theorem exR_wf : exR.WF := by
  refine ⟨by simp [exR], by simp [exR], ?_⟩
  intro x hx
  simp only [exR, List.mem_cons, List.not_mem_nil, or_false] at hx
  subst hx; simp [Grid.WF, exG2]

/-- The hypotheses of the route theorems hold on a mixed 1-D/3-D two-domain grid, chunk
size 4 (does not divide the total 6), with a non-separable integrand; the common value is
the number computed from the definition of the product sum. -/
example : exM.integrateNonVec exF 4 = productSum exM.domains exF ∧
    productSum exM.domains exF = -4660 ∧ exM.size = 6 ∧ exM.points.length = 6 :=
  ⟨integrate_nonvec_eq exM exM_wf exF 4 (by omega), by decide, by decide, by decide⟩

/-- Repeated-grid mode, three domains, vectorised route. -/
example : exR.integrateVec (fun pre xs => xs.map fun x => exF (pre ++ [x]))
      = .ok (productSum exR.domains exF) ∧ exR.domains = [exG2, exG2, exG2] ∧ exR.size = 27 :=
  ⟨integrate_vec_eq exR exR_wf exF _ (fun _ _ => rfl), rfl, by decide⟩

/-- The enumeration order on the example: last domain fastest. -/
example : exM.points = [[[10], [1, 0, 0]], [[10], [0, 2, 0]], [[10], [1, 1, 3]],
                        [[20], [1, 0, 0]], [[20], [0, 2, 0]], [[20], [1, 1, 3]]] ∧
    exM.weights = [1, 1, 3, -2, -2, -6] := by decide

end examples

end GridVerif.C18

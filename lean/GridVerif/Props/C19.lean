/-
  C19 — caches and remembered parameters never change what a later call returns.

  Model: `Model/Aliasing.lean` (hand-written alias machine), discipline / scale update /
  loader freshness: `Gen/AngularCache.lean` (regenerated from /repo on every run).
-/
import GridVerif.Lemmas.Aliasing
import GridVerif.Gen.AngularCache

namespace GridVerif.C19
open GridVerif.Aliasing

theorem safe_init (sp sw : Key → Nat) : Safe sp sw init :=
  ⟨(by intro k p w h; cases h), (by intro k p w h; cases h), (by intro c h; cases h)⟩

/-- One API call under the copy discipline keeps the invariant, and a construction returns
exactly the shipped data. -/
theorem step_safe (d : Discipline) (hd : d.allFresh = true) (sp sw : Key → Nat) (s : State)
    (hs : Safe sp sw s) (op : Op) :
    Safe sp sw (step d sp sw s op).1 ∧
    (∀ k scaled uc, op = .construct k scaled uc →
      ∃ o, (step d sp sw s op).2 = some o ∧ o.pVal = sp k ∧ o.wVal = sw k) := by
  unfold Discipline.allFresh at hd
  simp only [Bool.and_eq_true] at hd
  obtain ⟨⟨⟨h1, h2⟩, h3⟩, h4⟩ := hd
  cases op with
  | edit c v =>
    refine ⟨?_, by intro k sc uc h; cases h⟩
    unfold step
    by_cases hc : s.handles.contains c = true
    · simp only [hc, ↓reduceIte]
      have hmem : c ∈ s.handles := by simpa using hc
      refine ⟨?_, ?_, ?_⟩
      · intro k p w hm
        obtain ⟨a1, a2, a3, a4⟩ := hs.content k p w hm
        obtain ⟨b1, b2⟩ := hs.private_ k p w hm
        have hp : c ≠ p := fun h => b1 (h ▸ hmem)
        have hw : c ≠ w := fun h => b2 (h ▸ hmem)
        simp only [List.length_set]
        exact ⟨a1, a2, by rw [get_set_ne _ _ _ _ hp]; exact a3, by rw [get_set_ne _ _ _ _ hw]; exact a4⟩
      · exact hs.private_
      · intro c' hc'
        simp only [List.length_set]
        exact hs.alloc c' hc'
    · simp only [hc]
      exact hs
  | construct k scaled uc =>
    have pf : (if scaled then d.pointsFreshScaled else d.pointsFreshPlain) = true := by
      cases scaled <;> simp [h1, h3]
    have wf : (if scaled then d.weightsFreshScaled else d.weightsFreshPlain) = true := by
      cases scaled <;> simp [h2, h4]
    unfold step
    simp only [pf, wf, ↓reduceIte]
    cases hl : lookup s.cache k with
    | some pw =>
      obtain ⟨p0, w0⟩ := pw
      have hm := lookup_some hl
      obtain ⟨a1, a2, a3, a4⟩ := hs.content k p0 w0 hm
      simp only
      have e1 : get (s.heap ++ [get s.heap p0]) w0 = sw k := by
        rw [get_append_left _ _ _ a2]; exact a4
      have e2 : get ((s.heap ++ [get s.heap p0]) ++ [get (s.heap ++ [get s.heap p0]) w0]) s.heap.length = sp k := by
        rw [List.append_assoc, List.singleton_append, get_append_len]; exact a3
      have e3 : get ((s.heap ++ [get s.heap p0]) ++ [get (s.heap ++ [get s.heap p0]) w0])
          (s.heap ++ [get s.heap p0]).length = sw k := by
        rw [get_append_len]; exact e1
      refine ⟨⟨?_, ?_, ?_⟩, ?_⟩
      · intro k' p w hm'
        obtain ⟨c1, c2, c3, c4⟩ := hs.content k' p w hm'
        simp only [List.length_append, List.length_cons, List.length_nil]
        refine ⟨by omega, by omega, ?_, ?_⟩
        · rw [get_append_left _ _ _ (by simp; omega), get_append_left _ _ _ c1]; exact c3
        · rw [get_append_left _ _ _ (by simp; omega), get_append_left _ _ _ c2]; exact c4
      · intro k' p w hm'
        obtain ⟨c1, c2, _, _⟩ := hs.content k' p w hm'
        obtain ⟨b1, b2⟩ := hs.private_ k' p w hm'
        simp only [List.mem_cons, List.length_append, List.length_cons, List.length_nil, not_or]
        exact ⟨⟨by omega, by omega, b1⟩, ⟨by omega, by omega, b2⟩⟩
      · intro c hc
        simp only [List.mem_cons] at hc
        simp only [List.length_append, List.length_cons, List.length_nil]
        rcases hc with rfl | rfl | hc
        · omega
        · simp
        · have := hs.alloc c hc; omega
      · intro k' sc' uc' heq
        cases heq
        exact ⟨_, rfl, e2, e3⟩
    | none =>
      simp only
      -- the state after loading (cached or not) has the same heap and handles
      have key : ∀ (s1 : State), s1.heap = s.heap ++ [sp k, sw k] → s1.handles = s.handles →
          (s1.cache = s.cache ∨ s1.cache = (k, s.heap.length, s.heap.length + 1) :: s.cache) →
          let h2 := s1.heap ++ [get s1.heap s.heap.length]
          let h3 := h2 ++ [get h2 (s.heap.length + 1)]
          Safe sp sw { heap := h3, cache := s1.cache, handles := s1.heap.length :: h2.length :: s1.handles } ∧
          get h3 s1.heap.length = sp k ∧ get h3 h2.length = sw k := by
        intro s1 hh hha hca
        have g1 : get s1.heap s.heap.length = sp k := by rw [hh, get_append_len]
        have g2 : get (s1.heap ++ [get s1.heap s.heap.length]) (s.heap.length + 1) = sw k := by
          rw [get_append_left _ _ _ (by rw [hh]; simp), hh, get_append_len1]
        have l1 : s1.heap.length = s.heap.length + 2 := by rw [hh]; simp
        simp only
        refine ⟨⟨?_, ?_, ?_⟩, ?_, ?_⟩
        · intro k' p w hm'
          simp only [List.length_append, List.length_cons, List.length_nil, l1]
          have old : (k', p, w) ∈ s.cache → p < s.heap.length ∧ w < s.heap.length ∧
              get s1.heap p = sp k' ∧ get s1.heap w = sw k' := by
            intro hm
            obtain ⟨c1, c2, c3, c4⟩ := hs.content k' p w hm
            refine ⟨c1, c2, ?_, ?_⟩
            · rw [hh, get_append_left _ _ _ c1]; exact c3
            · rw [hh, get_append_left _ _ _ c2]; exact c4
          have lift : ∀ c, c < s1.heap.length →
              get ((s1.heap ++ [get s1.heap s.heap.length]) ++
                [get (s1.heap ++ [get s1.heap s.heap.length]) (s.heap.length + 1)]) c = get s1.heap c := by
            intro c hc
            rw [get_append_left _ _ _ (by simp; omega), get_append_left _ _ _ hc]
          rcases hca with hca | hca
          · rw [hca] at hm'
            obtain ⟨c1, c2, c3, c4⟩ := old hm'
            exact ⟨by omega, by omega, by rw [lift _ (by omega)]; exact c3, by rw [lift _ (by omega)]; exact c4⟩
          · rw [hca] at hm'
            rcases List.mem_cons.mp hm' with heq | hm'
            · simp only [Prod.mk.injEq] at heq
              obtain ⟨rfl, rfl, rfl⟩ := heq
              refine ⟨by omega, by omega, ?_, ?_⟩
              · rw [lift _ (by omega)]; exact g1
              · rw [lift _ (by omega), hh, get_append_len1]
            · obtain ⟨c1, c2, c3, c4⟩ := old hm'
              exact ⟨by omega, by omega, by rw [lift _ (by omega)]; exact c3, by rw [lift _ (by omega)]; exact c4⟩
        · intro k' p w hm'
          simp only [List.mem_cons, List.length_append, List.length_cons, List.length_nil, not_or, l1, hha]
          have old : (k', p, w) ∈ s.cache → p < s.heap.length ∧ w < s.heap.length ∧
              p ∉ s.handles ∧ w ∉ s.handles := by
            intro hm
            obtain ⟨c1, c2, _, _⟩ := hs.content k' p w hm
            obtain ⟨b1, b2⟩ := hs.private_ k' p w hm
            exact ⟨c1, c2, b1, b2⟩
          rcases hca with hca | hca
          · rw [hca] at hm'
            obtain ⟨c1, c2, b1, b2⟩ := old hm'
            exact ⟨⟨by omega, by omega, b1⟩, ⟨by omega, by omega, b2⟩⟩
          · rw [hca] at hm'
            rcases List.mem_cons.mp hm' with heq | hm'
            · simp only [Prod.mk.injEq] at heq
              obtain ⟨rfl, rfl, rfl⟩ := heq
              refine ⟨⟨by omega, by omega, ?_⟩, ⟨by omega, by omega, ?_⟩⟩
              · intro hc; have := hs.alloc _ hc; omega
              · intro hc; have := hs.alloc _ hc; omega
            · obtain ⟨c1, c2, b1, b2⟩ := old hm'
              exact ⟨⟨by omega, by omega, b1⟩, ⟨by omega, by omega, b2⟩⟩
        · intro c hc
          simp only [List.mem_cons, hha] at hc
          simp only [List.length_append, List.length_cons, List.length_nil]
          rcases hc with rfl | rfl | hc
          · omega
          · simp
          · have := hs.alloc c hc; omega
        · rw [List.append_assoc, List.singleton_append, get_append_len, g1]
        · rw [get_append_len, g2]
      cases uc with
      | true =>
        have := key ⟨s.heap ++ [sp k, sw k], (k, s.heap.length, s.heap.length + 1) :: s.cache, s.handles⟩ rfl rfl (Or.inr rfl)
        simp only at this
        refine ⟨by simpa using this.1, ?_⟩
        intro k' sc' uc' heq
        cases heq
        exact ⟨_, rfl, by simpa using this.2.1, by simpa using this.2.2⟩
      | false =>
        have := key ⟨s.heap ++ [sp k, sw k], s.cache, s.handles⟩ rfl rfl (Or.inl rfl)
        simp only at this
        refine ⟨by simpa using this.1, ?_⟩
        intro k' sc' uc' heq
        cases heq
        exact ⟨_, rfl, by simpa using this.2.1, by simpa using this.2.2⟩

/-- **Cache safety for every history** (copy discipline): after any sequence of constructions
(cache on or off, any methods/degrees) and in-place edits of previously returned arrays, the
invariant holds and *every* construction in the history returned exactly the shipped data of
its key. -/
theorem cache_safe (d : Discipline) (hd : d.allFresh = true) (sp sw : Key → Nat) :
    ∀ (ops : List Op) (s : State), Safe sp sw s →
      Safe sp sw (run d sp sw s ops).1 ∧
      ∀ (i : Nat) k scaled uc, ops[i]? = some (Op.construct k scaled uc) →
        ∃ o : Out, (run d sp sw s ops).2[i]? = some (some o) ∧ o.pVal = sp k ∧ o.wVal = sw k := by
  intro ops
  induction ops with
  | nil => intro s hs; exact ⟨hs, by intro i k sc uc h; simp at h⟩
  | cons op ops ih =>
    intro s hs
    obtain ⟨hs', hout⟩ := step_safe d hd sp sw s hs op
    obtain ⟨hs'', houts⟩ := ih _ hs'
    unfold run
    refine ⟨hs'', ?_⟩
    intro i k sc uc hi
    cases i with
    | zero =>
      simp only [List.getElem?_cons_zero, Option.some.injEq] at hi
      obtain ⟨o, ho, h1, h2⟩ := hout k sc uc hi
      exact ⟨o, by simp [ho], h1, h2⟩
    | succ i =>
      simp only [List.getElem?_cons_succ] at hi
      obtain ⟨o, ho, h1, h2⟩ := houts i k sc uc hi
      exact ⟨o, by simpa using ho, h1, h2⟩

/-- (1) The discipline found in the current source hands out new arrays everywhere. -/
theorem discipline_all_fresh : Gen.AngularCache.discipline.allFresh = true := by decide

/-- (2) **C19, angular cache, for the library as it is**: from the initial state, for every
history, every angular grid has the points and weights of the shipped data. -/
theorem angular_grids_always_shipped (sp sw : Key → Nat) (ops : List Op) :
    ∀ (i : Nat) k scaled uc, ops[i]? = some (Op.construct k scaled uc) →
      ∃ o : Out, (run Gen.AngularCache.discipline sp sw init ops).2[i]? = some (some o) ∧
        o.pVal = sp k ∧ o.wVal = sw k :=
  (cache_safe _ discipline_all_fresh sp sw ops init (safe_init sp sw)).2

/-- Without the copies the property is false: construct, edit the returned points, construct
again (cache on) returns the edited content.  (This is the behaviour of the library before
repair 1d3e35f; the model is not vacuous.) -/
theorem cache_corruptible :
    let d : Discipline := ⟨false, false, false, true⟩
    let sp : Key → Nat := fun _ => 7
    let sw : Key → Nat := fun _ => 9
    ((run d sp sw init [.construct (0, 5) true true, .edit 0 0, .construct (0, 5) true true]).2)[2]?
      = some (some ⟨0, 3, 0, 9⟩) := by
  decide

/-! ### remembered scale `b` -/

/-- A call of any method of a b-scaled transform: fix the scale from the grid it sees (if not
fixed yet), then compute `f b x`. -/
def bCall {K R : Type} (setB : Option K → K → Option K) (f : K → R) (st : Option K) (mx : K) :
    Option K × Option R :=
  let st' := setB st mx
  (st', st'.map f)

/-- (3) `b` is set once: for each of the three classes, after the scale is fixed (explicitly in the
constructor or by the first call) no later call changes it, whatever grids the later calls see. -/
theorem b_set_once {K : Type} (b : K) (mxs : List K) :
    mxs.foldl Gen.AngularCache.setMaxB_LinearInfiniteRTransform (some b) = some b ∧
    mxs.foldl Gen.AngularCache.setMaxB_ExpRTransform (some b) = some b ∧
    mxs.foldl Gen.AngularCache.setMaxB_PowerRTransform (some b) = some b := by
  refine ⟨?_, ?_, ?_⟩ <;> induction mxs <;> simp_all [List.foldl, Gen.AngularCache.setMaxB_LinearInfiniteRTransform,
    Gen.AngularCache.setMaxB_ExpRTransform, Gen.AngularCache.setMaxB_PowerRTransform]

/-- (3') Consequently the result of a call is a function of its own argument and the fixed scale
only: two histories of earlier calls (any grids, any order) give the same answer. -/
theorem b_results_order_independent {K R : Type} (f : K → R) (b : K) (h1 h2 : List K) (mx : K) :
    (bCall Gen.AngularCache.setMaxB_ExpRTransform f
        (h1.foldl Gen.AngularCache.setMaxB_ExpRTransform (some b)) mx).2 =
    (bCall Gen.AngularCache.setMaxB_ExpRTransform f
        (h2.foldl Gen.AngularCache.setMaxB_ExpRTransform (some b)) mx).2 ∧
    (bCall Gen.AngularCache.setMaxB_PowerRTransform f
        (h1.foldl Gen.AngularCache.setMaxB_PowerRTransform (some b)) mx).2 =
    (bCall Gen.AngularCache.setMaxB_PowerRTransform f
        (h2.foldl Gen.AngularCache.setMaxB_PowerRTransform (some b)) mx).2 ∧
    (bCall Gen.AngularCache.setMaxB_LinearInfiniteRTransform f
        (h1.foldl Gen.AngularCache.setMaxB_LinearInfiniteRTransform (some b)) mx).2 =
    (bCall Gen.AngularCache.setMaxB_LinearInfiniteRTransform f
        (h2.foldl Gen.AngularCache.setMaxB_LinearInfiniteRTransform (some b)) mx).2 := by
  have := b_set_once b h1
  have := b_set_once b h2
  simp_all [bCall]

/-- (3'') Before the scale is fixed, the first call fixes it to the maximum of the grid it sees
(documented behaviour). -/
theorem b_first_call_fixes {K : Type} (mx : K) (mxs : List K) :
    (mx :: mxs).foldl Gen.AngularCache.setMaxB_ExpRTransform none = some mx := by
  simp only [List.foldl_cons, Gen.AngularCache.setMaxB_ExpRTransform]
  exact (b_set_once mx mxs).2.1

open Gen.AngularCache in
/-- (4) No method other than the constructor and the setter assigns the scale, every method that
reads it fixes it first, and the Coulomb loader returns new arrays on every call (decided on the
regenerated facts). -/
theorem b_only_set_by_setter_and_loader_fresh :
    bWriters_LinearInfiniteRTransform = [] ∧ bWriters_ExpRTransform = [] ∧ bWriters_PowerRTransform = [] ∧
    bReadersWithoutSet_LinearInfiniteRTransform = [] ∧ bReadersWithoutSet_ExpRTransform = [] ∧
    bReadersWithoutSet_PowerRTransform = [] ∧
    bClasses = ["LinearInfiniteRTransform", "ExpRTransform", "PowerRTransform"] ∧
    coulombLoaderFresh = true := by
  decide

/-- Non-vacuity: a history with caching on and off, two keys, and edits of every returned array. -/
example :
    let sp : Key → Nat := fun k => 100 + k.2
    let sw : Key → Nat := fun k => 200 + k.2
    ((run Gen.AngularCache.discipline sp sw init
        [.construct (0, 5) true true, .edit 2 0, .edit 3 0, .construct (0, 5) true true,
         .construct (2, 7) false false, .edit 8 1, .construct (2, 7) false true,
         .construct (0, 5) true false]).2).filterMap (fun o => o.bind (fun o => some (o.pVal, o.wVal)))
      = [(105, 205), (105, 205), (107, 207), (107, 207), (105, 205)] := by
  decide

end GridVerif.C19

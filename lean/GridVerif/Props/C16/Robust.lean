/-
  C16 (round 3) — the robust solver, statement by statement.

  All statements are over ℝ and about the text regenerated from *every statement* of
  `robust_poisson.py` (`Gen/PoissonRobust.lean`) assembled by the list plumbing of
  `Model/PoissonRobust.lean`.

  * `robust_gen2_eq`              the generated numeric text at ℝ
  * `robust_structure`            the recorded plumbing (copies, strict zips, call bindings, tuple orders, shapes)
  * `core_step_eq`, `core_density_eq`, `core_density_is_c17`
                                  `_build_core_density` = Σ_k c_k·ρ_s(α_k, |p − c|) (C17's density), and it is the older
                                  fragment-wise generated `coreTerm` / model `coreDensity`
  * `fit_basis_is_c17`            every column of the NNLS design matrix is C17's normalised s density
  * `fit_atom_conserves`, `fit_conserves`
                                  what `_fit_residual_gaussians` subtracts is exactly the density of the Gaussians it returns
  * `fit_mask_drops_zeros`        with `nnls`'s contract `x ≥ 0` the mask drops only zero coefficients
  * `robust_split2`               clause "analytic core potential + numerical potential of the residual", second split included
  * `robust_guards`, `default_basis_admissible`
                                  the guards accept exactly 1-D densities of the grid's length / non-empty 1-D positive
                                  bases / (N, 3) point arrays; the default basis passes its own guards
  * `total_eq`                    `total_potential` = Σ_A V_core,A + V_fit + V_residual, the fit term present iff something was fitted
-/
import GridVerif.Props.C16
import GridVerif.Model.PoissonRobust
import GridVerif.Gen.PoissonRobust

namespace GridVerif.C16
open GridVerif GridVerif.Gen.PoissonRobust GridVerif.PoissonRobust GridVerif.Poisson Real

/-! ### the generated text at `ℝ` -/

theorem coreSqTerm_eq (p c : ℝ) : coreSqTerm p c = (p - c) ^ 2 := by simp only [coreSqTerm, npow_eq_pow]
theorem fitSqTerm_eq (p c : ℝ) : fitSqTerm p c = (p - c) ^ 2 := by simp only [fitSqTerm, npow_eq_pow]
theorem coreInit_eq : (coreInit : ℝ) = 0 := by simp only [coreInit, Nat.cast_zero]
theorem coreStep_eq (ρ a α r : ℝ) : coreStep ρ a α r = ρ + a * (α / π) ^ ((3:ℝ) / 2) * Real.exp (-α * r) := by
  simp only [coreStep, Elem.rpow, Elem.exp, Elem.pi, Nat.cast_ofNat]
theorem fitPrefactor_eq (α : ℝ) : fitPrefactor α = (α / π) ^ ((3:ℝ) / 2) := by
  simp only [fitPrefactor, Elem.rpow, Elem.pi, Nat.cast_ofNat]
theorem fitDesign_eq (x r α : ℝ) : fitDesign x r α = x * Real.exp (-r * α) := by simp only [fitDesign, Elem.exp]
theorem fitKeep_iff (x : ℝ) : fitKeep x ↔ 0 < x := by simp only [fitKeep, Nat.cast_zero]
theorem fitResidualStep_eq (x y : ℝ) : fitResidualStep x y = x - y := rfl
theorem robustCoreStep_eq (x y : ℝ) : robustCoreStep x y = x - y := rfl
theorem totalCoreStep_eq (x y : ℝ) : totalCoreStep x y = x + y := rfl
theorem totalCoreInit_eq : (totalCoreInit : ℝ) = 0 := by simp only [totalCoreInit, Nat.cast_zero]
theorem totalBondingInit_eq : (totalBondingInit : ℝ) = 0 := by simp only [totalBondingInit, Nat.cast_zero]
theorem totalReturn_eq (x y z : ℝ) : totalReturn x y z = x + y + z := rfl
theorem robustAlphaRejects_iff (x : ℝ) : robustAlphaRejects x ↔ x ≤ 0 := by simp only [robustAlphaRejects, Nat.cast_zero]
theorem defaultBasis_consts : (defaultBasisStart : ℝ) = 1 / 20 ∧ (defaultBasisStop : ℝ) = 5000 ∧ defaultBasisNum = 20 := by
  refine ⟨?_, ?_, rfl⟩
  · simp only [defaultBasisStart, Nat.cast_ofNat, Nat.cast_one]
  · simp only [defaultBasisStop, Nat.cast_ofNat]

/-- **Generated numeric text of `robust_poisson.py`** at ℝ: the squared-distance summands, one pass
of the core-density loop, the prefactor and the entry of the NNLS design matrix, the mask, the
three in-place updates, the initial values, the returned sum, the positivity guard of the
exponents and the default basis. -/
theorem robust_gen2_eq (p c ρ a α r x y z : ℝ) :
    coreSqTerm p c = (p - c) ^ 2 ∧ fitSqTerm p c = (p - c) ^ 2 ∧
    (coreInit : ℝ) = 0 ∧
    coreStep ρ a α r = ρ + a * (α / π) ^ ((3:ℝ) / 2) * Real.exp (-α * r) ∧
    fitPrefactor α = (α / π) ^ ((3:ℝ) / 2) ∧
    fitDesign x r α = x * Real.exp (-r * α) ∧
    (fitKeep x ↔ 0 < x) ∧
    fitResidualStep x y = x - y ∧ robustCoreStep x y = x - y ∧ totalCoreStep x y = x + y ∧
    (totalCoreInit : ℝ) = 0 ∧ (totalBondingInit : ℝ) = 0 ∧
    totalReturn x y z = x + y + z ∧
    (robustAlphaRejects x ↔ x ≤ 0) ∧
    ((defaultBasisStart : ℝ) = 1 / 20 ∧ (defaultBasisStop : ℝ) = 5000 ∧ defaultBasisNum = 20) :=
  ⟨coreSqTerm_eq p c, fitSqTerm_eq p c, coreInit_eq, coreStep_eq ρ a α r, fitPrefactor_eq α, fitDesign_eq x r α, fitKeep_iff x,
    rfl, rfl, rfl, totalCoreInit_eq, totalBondingInit_eq, rfl, robustAlphaRejects_iff x, defaultBasis_consts⟩

/-- **Recorded plumbing of `robust_poisson.py`** (every non-numeric statement, as the strict walker of
the translator recorded it): the caller's density and the residual handed to the fit are *copied*
before the in-place updates; both `zip`s are strict; the sums over Cartesian coordinates run over
axis 1; the calls of `_build_core_density` / `_fit_residual_gaussians` give every parameter the
same-named quantity (resolved against the callee's signature); the tuple returned by the fit
`(coeffs, alphas, centers, residual)` is unpacked in that order; the design matrix indexes the
prefactor and the exponent by the basis function and `r²` by the grid point; `nnls(A, residual)`'s
first result is the coefficient vector; the masked selections, the three `extend`s and the
matrix-vector product use the same mask; empty results have shape `(0, 3)`; the numerical solve
gets the residual; both `coulomb_potential` calls ask for normalised s-type Gaussians. -/
theorem robust_structure :
    (robustCopiesDensity = true ∧ fitCopiesResidual = true ∧ coreZipStrict = true ∧ robustZipStrict = true) ∧
    (coreSumAxis = 1 ∧ fitSumAxis = 1 ∧ totalTileCols = 1) ∧
    coreZipArgs = ["coeffs_s", "alphas_s"] ∧ robustParamsZip = ["atnums", "atcoords"] ∧
    robustCoreArgs = [("points", "molgrid.points"), ("center", "center"), ("coeffs_s", "coeffs_s"), ("alphas_s", "alphas_s")] ∧
    robustFitArgs = [("grid_pts", "molgrid.points"), ("residual", "residual"), ("atcoords", "atcoords"),
      ("alphas_basis", "alphas_basis")] ∧
    robustFitTargets = ["fit_coeffs", "fit_alphas", "fit_centers", "residual"] ∧
    fitReturn = ["np.array(all_coeffs)", "np.array(all_alphas)", "np.array(all_centers)", "residual"] ∧
    fitEmptyReturn = ["np.array([])", "np.array([])", "np.empty((0, 3))", "residual"] ∧ fitEmptyTest = "not all_coeffs" ∧
    (fitEmptyCentersShape = (0, 3) ∧ robustFitInitShape = (0, 3)) ∧
    robustFitInit = [("fit_coeffs", "np.array([])"), ("fit_alphas", "np.array([])"), ("fit_centers", "np.empty((0, 3))")] ∧
    fitAccumulators = ["all_coeffs", "all_alphas", "all_centers"] ∧ fitLoop = ("center", "atcoords") ∧
    fitDesignAxes = [("prefactors", "k"), ("r_sq", "n"), ("alphas_basis", "k")] ∧
    (fitNnlsArgs = ["A", "residual"] ∧ fitNnlsTargets = ["coeffs", "_"]) ∧ fitGuard = "np.any(mask)" ∧
    fitSelect = [("c_pos", "coeffs[mask]"), ("a_pos", "alphas_basis[mask]")] ∧
    fitExtend = [("all_coeffs", "c_pos"), ("all_alphas", "a_pos"), ("all_centers", "[center] * len(c_pos)")] ∧
    fitFitted = ("A[:, mask]", "c_pos") ∧
    robustBasisDefault = "_DEFAULT_ALPHAS_BASIS" ∧ robustSplit2Dflt = false ∧
    robustSolveArgs = ["molgrid", "residual", "transform", "**bvp_kwargs"] ∧
    totalCoreKw = [("alphas_s", "alphas_s"), ("centers_s", "centers_rep"), ("coeffs_s", "coeffs_s"), ("normalized", "True")] ∧
    totalBondKw = [("alphas_s", "fit_alphas"), ("centers_s", "fit_centers"), ("coeffs_s", "fit_coeffs"), ("normalized", "True")] := by
  decide

/-! ### `_build_core_density` -/

theorem rowSum_sq3 (x y z a b c : ℝ) :
    coreRSq [x, y, z] [a, b, c] = (x - a) ^ 2 + (y - b) ^ 2 + (z - c) ^ 2 ∧
    fitRSq [x, y, z] [a, b, c] = (x - a) ^ 2 + (y - b) ^ 2 + (z - c) ^ 2 := by
  simp only [coreRSq, fitRSq, rowSum, coreSqTerm_eq, fitSqTerm_eq,
    Nat.cast_zero]
  constructor <;> ring

/-- `r_sq` is a sum of squares. -/
theorem rowSum_nonneg (p c : List ℝ) : 0 ≤ coreRSq p c ∧ 0 ≤ fitRSq p c := by
  constructor
  · unfold coreRSq
    induction p generalizing c with
    | nil => simp [rowSum]
    | cons x xs ih =>
      cases c with
      | nil => simp [rowSum]
      | cons y ys =>
        simp only [rowSum, coreSqTerm_eq]
        have := ih ys
        positivity
  · unfold fitRSq
    induction p generalizing c with
    | nil => simp [rowSum]
    | cons x xs ih =>
      cases c with
      | nil => simp [rowSum]
      | cons y ys =>
        simp only [rowSum, fitSqTerm_eq]
        have := ih ys
        positivity

/-- **One pass of the loop of `_build_core_density`** (statement-wise text) adds the term of the
fragment-wise text `Gen.Poisson.coreTerm` — the two generations of the same source line agree. -/
theorem core_step_eq (ρ c α rSq : ℝ) : coreStep ρ c α rSq = ρ + Gen.Poisson.coreTerm c α rSq := by
  simp only [coreStep, Gen.Poisson.coreTerm]

theorem coreFold_eq_aux (cas : List (ℝ × ℝ)) (rSq ρ0 : ℝ) :
    cas.foldl (fun rho ca => coreStep rho ca.1 ca.2 rSq) ρ0
      = ρ0 + (cas.map fun ca => Gen.Poisson.coreTerm ca.1 ca.2 rSq).sum := by
  induction cas generalizing ρ0 with
  | nil => simp
  | cons ca cas ih => rw [List.foldl_cons, ih, core_step_eq, List.map_cons, List.sum_cons]; ring

/-- **`_build_core_density` at one point** (clause "the density equals the fitted core model"):
with coefficient and exponent lists of equal length (otherwise the strict `zip` raises
`ValueError`: `none`) the statement-wise model returns
`Σ_k c_k (α_k/π)^{3/2} e^{−α_k·r²}`, `r² = Σ_i (p_i − c_i)²`, which is also the value of the
round-2 model `Poisson.coreDensity`. -/
theorem core_density_eq (p c coeffs alphas : List ℝ) :
    (coeffs.length = alphas.length →
      coreDensityAt p c coeffs alphas
        = some (((coeffs.zip alphas).map fun ca => Gen.Poisson.coreTerm ca.1 ca.2 (coreRSq p c)).sum) ∧
      coreDensityAt p c coeffs alphas = some (Poisson.coreDensity coeffs alphas (coreRSq p c))) ∧
    (coeffs.length ≠ alphas.length → coreDensityAt p c coeffs alphas = none) := by
  have hstrict : coreZipStrict = true := robust_structure.1.2.2.1
  constructor
  · intro h
    have hz : zipStrict coreZipStrict coeffs alphas = some (coeffs.zip alphas) := by
      simp [zipStrict, h]
    have h1 : coreFold coeffs alphas (coreRSq p c)
        = ((coeffs.zip alphas).map fun ca => Gen.Poisson.coreTerm ca.1 ca.2 (coreRSq p c)).sum := by
      unfold coreFold
      rw [coreFold_eq_aux, coreInit_eq, zero_add]
    refine ⟨by simp only [coreDensityAt, hz, Option.map_some, h1], ?_⟩
    simp only [coreDensityAt, hz, Option.map_some, h1, Poisson.coreDensity]
    congr 1
    have : ∀ ρ0 : ℝ, (coeffs.zip alphas).foldl (fun rho ca => rho + Gen.Poisson.coreTerm ca.1 ca.2 (coreRSq p c)) ρ0
        = ρ0 + ((coeffs.zip alphas).map fun ca => Gen.Poisson.coreTerm ca.1 ca.2 (coreRSq p c)).sum := by
      intro ρ0
      induction (coeffs.zip alphas) generalizing ρ0 with
      | nil => simp
      | cons ca cas ih => rw [List.foldl_cons, ih, List.map_cons, List.sum_cons]; ring
    rw [this]; simp
  · intro h
    simp [coreDensityAt, zipStrict, hstrict, h]

/-- **The core model is a sum of C17's densities**: at distance `r` from the atom
(`r² = Σ_i (p_i − c_i)²`) every term is `c_k·ρ_s(α_k, r)` with `ρ_s` the normalised s-type density
whose Coulomb potential C17 proves `coulomb_gaussian_s` to be — so the analytic core potential
(`coulomb_potential(..., normalized=True)`) is the exact potential of what split 1 subtracts. -/
theorem core_density_is_c17 (p c coeffs alphas : List ℝ) (h : coeffs.length = alphas.length) :
    coreDensityAt p c coeffs alphas
      = some (((coeffs.zip alphas).map fun ca => ca.1 * C17.rhoS ca.2 (Real.sqrt (coreRSq p c))).sum) := by
  rw [((core_density_eq p c coeffs alphas).1 h).1]
  congr 2
  apply List.map_congr_left
  intro ca _
  have := core_term_is_c17_density ca.1 ca.2 (Real.sqrt (coreRSq p c))
  rw [Real.sq_sqrt (rowSum_nonneg p c).1] at this
  exact this

/-- non-vacuity: two primitives, a point at distance `√3` from the centre. -/
example : coreDensityAt [1, 2, 3] [0, 1, 2] [(1:ℝ), 2] [3, 4] = some (1 * C17.rhoS 3 (Real.sqrt 3) + (2 * C17.rhoS 4 (Real.sqrt 3) + 0)) := by
  rw [core_density_is_c17 [1, 2, 3] [0, 1, 2] [(1:ℝ), 2] [3, 4] (by simp), (rowSum_sq3 1 2 3 0 1 2).1]
  norm_num

/-! ### `_fit_residual_gaussians` -/

/-- **Every column of the design matrix is C17's density**: `A[n, k] = ρ_s(α_k, |p_n − c|)`, the
normalised s-type Gaussian whose potential `coulomb_potential(…, normalized=True)` evaluates, so the
"bonding" potential is the exact potential of the fitted density. -/
theorem fit_basis_is_c17 (α r : ℝ) : fitBasis α (r ^ 2) = C17.rhoS α r := by
  simp only [fitBasis, fitPrefactor_eq, fitDesign_eq,
    C17.rhoS]
  congr 2; ring

theorem dot_select (row coeffs alphas : List ℝ) (rSq : ℝ) (hrow : row = fitRow alphas rSq) (h : coeffs.length = alphas.length) :
    dot (select row (keepMask coeffs)) (select coeffs (keepMask coeffs))
      = ((select (coeffs.zip alphas) (keepMask coeffs)).map fun ca => ca.1 * fitBasis ca.2 rSq).sum := by
  subst hrow
  induction coeffs generalizing alphas with
  | nil => simp [keepMask, select, dot]
  | cons c cs ih =>
    cases alphas with
    | nil => simp at h
    | cons a as =>
      have h' : cs.length = as.length := by simpa using h
      simp only [fitRow, List.map_cons, keepMask, select, List.zip_cons_cons]
      by_cases hk : fitKeep c
      · simp only [hk, decide_true, if_true, dot, List.map_cons, List.sum_cons]
        have := ih as h'
        simp only [fitRow, keepMask] at this
        rw [this]; ring
      · simp only [hk, decide_false, Bool.false_eq_true, if_false]
        have := ih as h'
        simp only [fitRow, keepMask] at this
        exact this

theorem select_any_false {α : Type} (xs : List α) (mask : List Bool) (h : mask.any id = false) : select xs mask = [] := by
  induction xs generalizing mask with
  | nil => cases mask <;> simp [select]
  | cons x xs ih =>
    cases mask with
    | nil => simp [select]
    | cons b bs =>
      simp only [List.any_cons, id, Bool.or_eq_false_iff] at h
      simp [select, h.1, ih bs h.2]

/-- the Gaussians one atom contributes to the accumulators. -/
theorem fitKept_cons (alphas : List ℝ) (s : List ℝ × List ℝ) (steps : List (List ℝ × List ℝ)) :
    fitKept alphas (s :: steps)
      = ((select (s.2.zip alphas) (keepMask s.2)).map fun ca => (ca.1, ca.2, s.1)) ++ fitKept alphas steps := by
  simp only [fitKept, List.flatMap_cons]
  by_cases hm : (keepMask s.2).any id = true
  · simp [hm]
  · have hm' : (keepMask s.2).any id = false := by simpa using hm
    simp [hm', select_any_false _ _ hm']

theorem fittedDensityAt_append (k1 k2 : List (ℝ × ℝ × List ℝ)) (p : List ℝ) :
    fittedDensityAt (k1 ++ k2) p = fittedDensityAt k1 p + fittedDensityAt k2 p := by
  induction k1 with
  | nil => simp [fittedDensityAt]
  | cons t ts ih =>
    simp only [fittedDensityAt, List.cons_append, List.foldr_cons] at ih ⊢
    rw [ih]; ring

theorem fittedDensityAt_map (cas : List (ℝ × ℝ)) (center p : List ℝ) :
    fittedDensityAt (cas.map fun ca => (ca.1, ca.2, center)) p
      = (cas.map fun ca => ca.1 * fitBasis ca.2 (fitRSq p center)).sum := by
  induction cas with
  | nil => simp [fittedDensityAt]
  | cons ca cas ih =>
    simp only [fittedDensityAt, List.map_cons, List.foldr_cons, List.sum_cons] at ih ⊢
    rw [ih]

/-- **One atom's pass conserves the density**: the residual left at a grid point plus the density
of the Gaussians appended for this atom is the residual that went in (`nnls`'s answer has one
coefficient per basis exponent). -/
theorem fit_atom_conserves (alphas coeffs center p : List ℝ) (r : ℝ) (h : coeffs.length = alphas.length) :
    fitAtomResidual alphas coeffs center p r
      + fittedDensityAt ((select (coeffs.zip alphas) (keepMask coeffs)).map fun ca => (ca.1, ca.2, center)) p = r := by
  rw [fittedDensityAt_map]
  unfold fitAtomResidual
  by_cases hm : (keepMask coeffs).any id = true
  · simp only [hm, if_true, fitResidualStep_eq]
    rw [dot_select _ coeffs alphas (fitRSq p center) rfl h]; ring
  · have hm' : (keepMask coeffs).any id = false := by simpa using hm
    simp [hm', select_any_false _ _ hm']

/-- **`_fit_residual_gaussians` conserves the density** (second split of the robust solver): for
any answers of `nnls` (one coefficient vector of the basis' length per atom — `hlen`), at every
grid point the returned residual plus the density of the returned Gaussians
`Σ_t c_t·(α_t/π)^{3/2} e^{−α_t |p − R_t|²}` (accumulators `all_coeffs`, `all_alphas`, `all_centers`,
in the order they are returned) is the residual that was handed in.  Hence potential(residual in) =
potential(returned Gaussians) + potential(residual out) for every linear potential operator
(`robust_split2`). -/
theorem fit_conserves (alphas : List ℝ) (steps : List (List ℝ × List ℝ)) (hlen : ∀ s ∈ steps, s.2.length = alphas.length)
    (p : List ℝ) (r : ℝ) :
    fitResidual alphas steps p r + fittedDensityAt (fitKept alphas steps) p = r := by
  induction steps generalizing r with
  | nil => simp [fitResidual, fitKept, fittedDensityAt]
  | cons s steps ih =>
    have h1 := fit_atom_conserves alphas s.2 s.1 p r (hlen s List.mem_cons_self)
    have h2 := ih (fun t ht => hlen t (List.mem_cons_of_mem _ ht)) (fitAtomResidual alphas s.2 s.1 p r)
    rw [fitKept_cons, fittedDensityAt_append]
    simp only [fitResidual, List.foldl_cons] at h2 ⊢
    linarith

/-- non-vacuity: one atom at the origin, basis `[1, 2]`, `nnls` answered `[3, 0]` (the second
coefficient is dropped by the mask): the residual left at a point at squared distance 4 is
`r − 3·basis(1, 4)`. -/
example (r : ℝ) : fitResidual [1, 2] [([0, 0, 0], [3, 0])] [2, 0, 0] r = r - 3 * fitBasis 1 (fitRSq [2, 0, 0] [0, 0, 0]) := by
  have h := fit_conserves [1, 2] [([0, 0, 0], [3, 0])] (by simp) [2, 0, 0] r
  have hk : fitKept ([1, 2] : List ℝ) [([0, 0, 0], [3, 0])] = [(3, 1, [0, 0, 0])] := by
    simp [fitKept, keepMask, select, fitKeep_iff]
  rw [hk] at h
  simp only [fittedDensityAt, List.foldr_cons, List.foldr_nil, Nat.cast_zero] at h
  linarith

/-- **The mask drops only zeros** under the contract of `scipy.optimize.nnls` (`x ≥ 0`): every
coefficient that is not retained is `0`, so the retained Gaussians carry the whole fitted density. -/
theorem fit_mask_drops_zeros (c : ℝ) (hc : 0 ≤ c) : ¬ fitKeep c → c = 0 := by
  rw [fitKeep_iff]
  intro h
  exact le_antisymm (not_lt.mp h) hc

/-! ### recombination -/

/-- **Robust split with the second split** (clause "the robust solver equals the analytic core
potential plus the numerical potential of the residual").  `P` is the exact Coulomb-potential
operator, of which only additivity/subtractivity is used (`hP`, `hP0`; hypotheses — linearity of
the integral).  `ρc` is the core model (split 1), `ρfit` the density of the Gaussians the fit
returned and `ρres` the residual it returned; by `fit_conserves` they satisfy
`(ρ − ρc) = ρfit + ρres` pointwise (`hcons`).  If the analytic parts are the exact potentials of
`ρc`, `ρfit` (C17: `core_density_is_c17`, `fit_basis_is_c17`) and the numerical solve of `ρres` were
exact, the generated `total_potential` (`totalAt`: core potentials added atom by atom, the fit
term used iff something was fitted) is the exact potential of the full density.  With `nfit = 0`
the fitted density is the empty sum `0`. -/
theorem robust_split2 {X : Type} (P : (X → ℝ) → X → ℝ)
    (hP : ∀ f g : X → ℝ, P (fun x => f x + g x) = fun x => P f x + P g x) (hP0 : P (fun _ => 0) = fun _ => 0)
    (ρ ρc ρfit ρres : X → ℝ) (nfit : ℕ) (hfit : nfit = 0 → ρfit = fun _ => 0)
    (hcons : ∀ y, robustCoreStep (ρ y) (ρc y) = ρfit y + ρres y) (x : X) :
    totalAt [P ρc x] nfit (P ρfit x) (P ρres x) = P ρ x := by
  have hρ : ρ = fun y => ρc y + (ρfit y + ρres y) := by
    funext y
    have := hcons y
    rw [robustCoreStep_eq] at this
    linarith
  have e1 : P ρ x = P ρc x + (P ρfit x + P ρres x) := by
    conv_lhs => rw [hρ]
    rw [hP ρc (fun y => ρfit y + ρres y), hP ρfit ρres]
  unfold totalAt
  simp only [List.foldl_cons, List.foldl_nil, totalCoreStep_eq, totalCoreInit_eq, totalBondingInit_eq, totalReturn_eq,
    totalBondingUsed]
  rw [e1]
  by_cases hn : nfit > 0
  · rw [if_pos hn]; ring
  · rw [if_neg hn]
    have : nfit = 0 := by omega
    rw [hfit this, hP0]; ring

/-- non-vacuity: `X = ℝ`, `P` = multiplication by `2`; `ρ = 5`, core `1`, fit `3`, residual `1`. -/
example : let P : (ℝ → ℝ) → ℝ → ℝ := fun h x => 2 * h x
    totalAt [P (fun _ => 1) 0] 1 (P (fun _ => 3) 0) (P (fun _ => 1) 0) = P (fun _ => 5) 0 := by
  intro P
  exact robust_split2 P (fun f g => by funext x; simp only [P]; ring) (by funext x; simp [P]) (fun _ => 5) (fun _ => 1)
    (fun _ => 3) (fun _ => 1) 1 (by omega) (fun y => by rw [robustCoreStep_eq]; norm_num) 0

/-- **`total_potential` written out**: the sum of the atoms' analytic core potentials, plus the
potential of the fitted Gaussians when at least one was retained (`len(fit_coeffs) > 0`), plus the
numerical potential of the residual. -/
theorem total_eq (pots : List ℝ) (nfit : ℕ) (vFit vRes : ℝ) :
    totalAt pots nfit vFit vRes = pots.sum + (if 0 < nfit then vFit else 0) + vRes := by
  have hfold : ∀ v0 : ℝ, pots.foldl totalCoreStep v0 = v0 + pots.sum := by
    induction pots with
    | nil => simp
    | cons q qs ih => intro v0; rw [List.foldl_cons, ih, totalCoreStep_eq, List.sum_cons]; ring
  unfold totalAt
  rw [hfold, totalCoreInit_eq, totalBondingInit_eq, totalReturn_eq]
  simp only [totalBondingUsed, gt_iff_lt, zero_add]

/-! ### guards -/

/-- **What the guards accept** (generated text): a density is accepted iff it is one-dimensional
with one value per grid point; an exponent basis iff it is one-dimensional, non-empty and every
exponent is strictly positive; evaluation points iff they form an `(N, 3)` array. -/
theorem robust_guards (ndim len npts size cols : ℕ) (a : ℝ) :
    (¬ robustShapeRejects ndim len npts ↔ ndim = 1 ∧ len = npts) ∧
    (¬ robustBasisRejects ndim size ↔ ndim = 1 ∧ size ≠ 0) ∧
    (¬ robustAlphaRejects a ↔ 0 < a) ∧
    (¬ totalPointsRejects ndim cols ↔ ndim = 2 ∧ cols = 3) := by
  refine ⟨?_, ?_, ?_, ?_⟩
  · unfold robustShapeRejects; omega
  · unfold robustBasisRejects; omega
  · rw [robustAlphaRejects_iff]; exact not_le
  · unfold totalPointsRejects; omega

example : ¬ robustShapeRejects 1 302 302 ∧ robustShapeRejects 2 302 302 ∧ robustShapeRejects 1 301 302 := by
  unfold robustShapeRejects; omega

/-- **The default basis passes its own guards**: `_DEFAULT_ALPHAS_BASIS = np.geomspace(0.05, 5000, 20)`
is one-dimensional by construction, has 20 ≠ 0 entries and every entry
`0.05·(5000/0.05)^{i/19}` is strictly positive. -/
theorem default_basis_admissible :
    (defaultBasis : List ℝ).length = 20 ∧ ¬ robustBasisRejects 1 (defaultBasis : List ℝ).length ∧
    ∀ a ∈ (defaultBasis : List ℝ), ¬ robustAlphaRejects a := by
  have hlen : (defaultBasis : List ℝ).length = 20 := by
    simp [defaultBasis, geomspace, defaultBasis_consts.2.2]
  refine ⟨hlen, ?_, ?_⟩
  · rw [hlen, (robust_guards 1 0 0 20 0 0).2.1]; omega
  · intro a ha
    rw [(robust_guards 0 0 0 0 0 a).2.2.1]
    simp only [defaultBasis, geomspace, List.mem_map] at ha
    obtain ⟨i, _, rfl⟩ := ha
    have h1 : (0:ℝ) < defaultBasisStart := by rw [defaultBasis_consts.1]; norm_num
    have h2 : (0:ℝ) < defaultBasisStop := by rw [defaultBasis_consts.2.1]; norm_num
    simp only [Elem.rpow]
    exact mul_pos h1 (Real.rpow_pos_of_pos (div_pos h2 h1) _)

end GridVerif.C16

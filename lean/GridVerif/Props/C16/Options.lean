/-
  C16 (round 3) — options, guards, thresholds and bookkeeping of `poisson.py`, from the statements
  the translator now carries in addition (every statement of `_solve_poisson_bvp_atomgrid`,
  `_solve_poisson_ivp_atomgrid`, `_interpolate_molgrid_helper` and of the public wrappers is
  visited in order by a strict walker).

  * `options_gen_eq`, `options_structure`   the added generated text at ℝ / the recorded plumbing
  * `public_defaults_agree`      the public functions and the per-atom solvers have the same defaults and every option is
                                 forwarded to the parameter of the same name
  * `type_guards_spec`           which kinds of values the three `isinstance` guards accept
  * `bvp_domain_guard`           a transform whose domain starts at `d ≥ 0` is accepted, `d < 0` rejected
  * `rad_points_mem_iff`         which radii are in the mesh handed to `solve_ode_bvp` (threshold `remove_large_pts`: a
                                 point *equal* to it stays; origin prepended iff all points are positive)
  * `bvp_value_window`           the back-substitution returns 0 exactly for |r| < 1e-300 (window of the regenerated constant)
  * `coeff0_origin_window`       the `r == 0` replacement of the zeroth coefficient applies at r = 0 only, value −l(l+1)/(1e-10)²
  * `ivp_interval_spec`          the default `r_interval` is accepted, equal end points are accepted, `r_max` is the first entry
  * `spline_index_position`      problem number k reads radial component k
  * `harm_rows_match`            the harmonics of degree ≤ l_max//2 are as many as the posed problems
  * `mol_atomgrid_route`         an `AtomGrid` argument is solved with unit weights on its own points: one slice, the density itself
-/
import GridVerif.Props.C16
import GridVerif.Model.PoissonRobust

namespace GridVerif.C16
open GridVerif GridVerif.Gen.Poisson GridVerif.Poisson GridVerif.PoissonRobust Real

/-! ### the added generated text -/

/-- **Added generated text of `poisson.py`** at ℝ. -/
theorem options_gen_eq (d : ℝ) :
    (bvpDomainRejects d ↔ d < 0) ∧ bvpDomainIndex = 0 ∧ bvpWhereIndex = 0 ∧
    (molWrapWeight : ℝ) = 1 ∧ (molWrapAtnum : ℝ) = 1 ∧ molWrapStore = true ∧ molRequiresStore = true ∧
    (bvpY00Angles : ℝ × ℝ) = (1 / 10, 1 / 10) ∧ (ivpY00Angles : ℝ × ℝ) = (1 / 10, 1 / 10) ∧
    (bvpSplineStart = 0 ∧ ivpSplineStart = 0 ∧ ∀ i, bvpSplineStep i = i + 1 ∧ ivpSplineStep i = i + 1) ∧
    (∀ lMax : ℕ, bvpHarmDegree lMax = (lMax : ℤ) / 2 ∧ ivpHarmDegree lMax = (lMax : ℤ) / 2) := by
  refine ⟨?_, rfl, rfl, ?_, ?_, rfl, rfl, ?_, ?_, ⟨rfl, rfl, fun i => ⟨rfl, rfl⟩⟩, fun lMax => ⟨rfl, rfl⟩⟩
  · simp only [bvpDomainRejects, Nat.cast_zero]
  · simp only [molWrapWeight, Nat.cast_one]
  · simp only [molWrapAtnum, Nat.cast_one]
  · simp only [bvpY00Angles, Nat.cast_ofNat, Nat.cast_one]
  · simp only [ivpY00Angles, Nat.cast_ofNat, Nat.cast_one]

/-- **Recorded plumbing** (strict walk of the three functions and the two public wrappers): the
`isinstance` tuples of the three type guards; the options whose public default is `None`; the
per-atom call of each public function, resolved against the callee's signature, hands every
parameter the same-named option (`atom_grid` for `atomgrid`); the per-atom term of the molecular
helper is built from `molgrid[i]`. -/
theorem options_structure :
    bvpTypeGuards = [("boundary", ["float", "type(None)"]), ("include_origin", ["bool"]),
      ("remove_large_pts", ["float", "type(None)"])] ∧
    bvpPublicNoneDefaults = ["boundary", "ode_params"] ∧ ivpPublicNoneDefaults = ["ode_params"] ∧
    bvpForward = [("atomgrid", "atom_grid"), ("func_vals", "func_vals"), ("transform", "transform"), ("boundary", "boundary"),
      ("include_origin", "include_origin"), ("remove_large_pts", "remove_large_pts"), ("ode_params", "ode_params")] ∧
    ivpForward = [("atomgrid", "atom_grid"), ("func_vals", "func_vals"), ("transform", "transform"), ("r_interval", "r_interval"),
      ("ode_params", "ode_params")] ∧
    molAtomGrid = "molgrid[i]" := by
  decide

/-- **The public functions and the per-atom solvers agree on their defaults**: `solve_poisson_bvp`
and `_solve_poisson_bvp_atomgrid` both have `include_origin=True`, `remove_large_pts=1e6`;
`solve_poisson_ivp` and `_solve_poisson_ivp_atomgrid` both have `r_interval=(1000, 1e-5)` (the
literals are read from the two signatures independently). -/
theorem public_defaults_agree :
    bvpPublicIncludeOriginDefault = bvpIncludeOriginDefault ∧
    (bvpPublicRemoveLargeDefault : ℝ) = bvpRemoveLargeDefault ∧ (bvpRemoveLargeDefault : ℝ) = 10 ^ 6 ∧
    (ivpPublicIntervalDefault : ℝ × ℝ) = ivpIntervalDefault ∧ (ivpIntervalDefault : ℝ × ℝ) = (1000, 1 / 10 ^ 5) := by
  refine ⟨rfl, rfl, ?_, rfl, ?_⟩
  · simp only [bvpRemoveLargeDefault, Nat.cast_ofNat]; norm_num
  · simp only [ivpIntervalDefault, Nat.cast_ofNat, Nat.cast_one]; norm_num

/-- **What the three type guards accept** (generated tuples, Python's `isinstance`): `boundary` and
`remove_large_pts` accept a Python `float` (hence `numpy.float64`) and `None`, and reject `int`,
`bool`, NumPy integers and single-precision floats; `include_origin` accepts exactly `bool`. -/
theorem type_guards_spec :
    (["float", "np.float64", "none", "int", "bool", "np.int64", "np.float32"].map (typeGuardAccepts bvpTypeGuards "boundary")
      = [some true, some true, some true, some false, some false, some false, some false]) ∧
    (["float", "np.float64", "none", "int", "bool", "np.int64", "np.float32"].map (typeGuardAccepts bvpTypeGuards "remove_large_pts")
      = [some true, some true, some true, some false, some false, some false, some false]) ∧
    (["bool", "int", "float", "none", "np.bool_"].map (typeGuardAccepts bvpTypeGuards "include_origin")
      = [some true, some false, some false, some false, some false]) := by
  decide

/-- **Domain guard**: the boundary-value solver rejects (`ValueError`) exactly the transforms whose
domain starts below zero; `[0, ∞)` and `(r_min, ∞)`, `r_min ≥ 0` (the inverse of every radial
transform with a non-negative `rmin`) are accepted. -/
theorem bvp_domain_guard (d : ℝ) : (0 ≤ d → ¬ bvpDomainRejects d) ∧ (d < 0 → bvpDomainRejects d) := by
  rw [(options_gen_eq d).1]
  exact ⟨fun h => not_lt.mpr h, id⟩

set_option exponentiation.threshold 512 in
example : ¬ bvpDomainRejects (0:ℝ) ∧ bvpDomainRejects (-1 / 10 ^ 300 : ℝ) := by
  constructor
  · exact (bvp_domain_guard 0).1 le_rfl
  · refine (bvp_domain_guard _).2 ?_
    have : (0:ℝ) < 1 / 10 ^ 300 := by positivity
    linarith [show (-1 / 10 ^ 300 : ℝ) = -(1 / 10 ^ 300) by ring]

/-! ### thresholds -/

/-- **The radial mesh handed to `solve_ode_bvp`** (thresholds `> 0.0` and `> remove_large_pts` of
the generated text): a radius is in the mesh iff it is a radial point of the grid — or the origin,
when `include_origin` and every radial point is strictly positive — and, with
`remove_large_pts = t`, it is not larger than `t` (a point *equal* to `t` stays; the prepended
origin is removed when `t < 0`). -/
theorem rad_points_mem_iff (pts : List ℝ) (inc : Bool) (t : ℝ) (p : ℝ) :
    (p ∈ radPoints pts inc (some t) ↔ (p ∈ pts ∨ (inc = true ∧ (∀ q ∈ pts, 0 < q) ∧ p = 0)) ∧ p ≤ t) ∧
    (p ∈ radPoints pts inc none ↔ (p ∈ pts ∨ (inc = true ∧ (∀ q ∈ pts, 0 < q) ∧ p = 0))) := by
  have hall : (pts.all fun q => decide (originAbsent q)) = true ↔ ∀ q ∈ pts, 0 < q := by
    simp only [List.all_eq_true, decide_eq_true_eq, originAbsent, Nat.cast_zero]
  have hmem : ∀ q, q ∈ (if (inc && pts.all fun q => decide (originAbsent q)) = true then (originValue : ℝ) :: pts else pts)
      ↔ (q ∈ pts ∨ (inc = true ∧ (∀ q ∈ pts, 0 < q) ∧ q = 0)) := by
    intro q
    by_cases hc : (inc && pts.all fun q => decide (originAbsent q)) = true
    · rw [if_pos hc]
      rw [Bool.and_eq_true, hall] at hc
      simp only [List.mem_cons, originValue, Nat.cast_zero]
      constructor
      · rintro (h | h)
        · exact Or.inr ⟨hc.1, hc.2, h⟩
        · exact Or.inl h
      · rintro (h | ⟨_, _, h⟩)
        · exact Or.inr h
        · exact Or.inl h
    · rw [if_neg hc]
      rw [Bool.and_eq_true, hall] at hc
      constructor
      · exact Or.inl
      · rintro (h | ⟨h1, h2, _⟩)
        · exact h
        · exact absurd ⟨h1, h2⟩ hc
  constructor
  · have hL : ∀ q : ℝ, (!decide (isLarge q t)) = true ↔ q ≤ t := by
      intro q
      rw [Bool.not_eq_true', decide_eq_false_iff_not]
      unfold isLarge
      exact not_lt
    simp only [radPoints, List.mem_filter, hmem, hL]
  · simp only [radPoints, hmem]

/-- non-vacuity: points `[1/2, 3, 10]`, `remove_large_pts = 3`: the mesh is `[0, 1/2, 3]` — the point
equal to the threshold stays, the origin is added. -/
example : radPoints [(1:ℝ) / 2, 3, 10] true (some 3) = [0, 1 / 2, 3] := by
  have h0 : (0:ℝ) < 1 / 2 := by norm_num
  simp [radPoints, originAbsent, originValue, isLarge]
  norm_num

set_option exponentiation.threshold 512 in
/-- **Window of the `1e-300` mask** (regenerated constant): the back-substitution of the
boundary-value solver returns exactly `0` iff `|r| < 10⁻³⁰⁰` or `u = 0`; for `|r| ≥ 10⁻³⁰⁰` it is `u/r`
(`bvp_value_eq`).  Together: the documented `u(0) = 0` replacement is confined to that window. -/
theorem bvp_value_window (u r : ℝ) :
    (|r| < (1:ℝ) / 10 ^ 300 → bvpValue u r = 0) ∧
    (bvpValue u r = 0 ↔ |r| < (1:ℝ) / 10 ^ 300 ∨ u = 0) := by
  have hlt : |r| < (1:ℝ) / 10 ^ 300 → bvpValue u r = 0 := by
    intro h
    simp only [bvpValue, Elem.abs, Nat.cast_ofNat, Nat.cast_zero, Nat.cast_one]
    exact if_pos (lt_of_lt_of_eq h (by norm_num))
  refine ⟨hlt, ⟨fun h => ?_, fun h => ?_⟩⟩
  · by_cases hr : |r| < (1:ℝ) / 10 ^ 300
    · exact Or.inl hr
    · right
      have hr' : (1:ℝ) / 10 ^ 300 ≤ |r| := not_lt.mp hr
      rw [(bvp_value_eq u r).1 hr'] at h
      have hr0 : r ≠ 0 := by
        intro h0
        rw [h0, abs_zero] at hr'
        have : (0:ℝ) < 1 / 10 ^ 300 := by positivity
        linarith
      rcases div_eq_zero_iff.mp h with h | h
      · exact h
      · exact absurd h hr0
  · rcases h with h | h
    · exact hlt h
    · by_cases hr : |r| < (1:ℝ) / 10 ^ 300
      · exact hlt hr
      · rw [(bvp_value_eq u r).1 (not_lt.mp hr), h, zero_div]

/-- **Window of the `r == 0` replacement** (regenerated constants `0.0`, `1e-10`, exponent `2`): the
zeroth coefficient handed to `solve_ode_bvp` is `−l(l+1)/r²` at every `r ≠ 0` — however small — and
`−l(l+1)·10²⁰` at `r = 0` only. -/
theorem coeff0_origin_window (l : ℕ) (r : ℝ) :
    (r ≠ 0 → bvpCoeff0 l r = -((l:ℝ) * (l + 1)) / r ^ 2) ∧ bvpCoeff0 l 0 = -((l:ℝ) * (l + 1)) * 10 ^ 20 := by
  constructor
  · intro hr
    have := (posed_bvp_eq l r 0).1 hr
    simp only [bvpCoeffs, List.cons.injEq] at this
    exact this.1
  · have := (posed_bvp_eq l 0 0).2.1
    simp only [bvpCoeffs, List.cons.injEq] at this
    rw [this.1]
    field_simp

/-- **`r_interval`** (generated guard, default and `r_max`): the interval is rejected iff its first
entry is smaller than the second — equal entries are accepted; the default `(1000, 1e-5)` is
accepted; the asymptotic initial data are taken at the first entry. -/
theorem ivp_interval_spec (r0 r1 : ℝ) :
    (ivpRejects r0 r1 ↔ r0 < r1) ∧ ¬ ivpRejects r0 r0 ∧
    ¬ ivpRejects (ivpIntervalDefault : ℝ × ℝ).1 (ivpIntervalDefault : ℝ × ℝ).2 ∧ ivpRMax r0 r1 = r0 := by
  refine ⟨Iff.rfl, lt_irrefl r0, ?_, rfl⟩
  rw [public_defaults_agree.2.2.2.2]
  show ¬ ((1000:ℝ) < 1 / 10 ^ 5)
  norm_num

/-! ### bookkeeping -/

theorem splineIndexSeq_succ (start n : ℕ) :
    splineIndexSeq start (fun i => i + 1) n = (List.range n).map (fun k => start + k) := by
  induction n generalizing start with
  | zero => simp [splineIndexSeq]
  | succ n ih =>
    rw [splineIndexSeq, ih, List.range_succ_eq_map, List.map_cons, List.map_map]
    simp only [Nat.add_zero, List.cons.injEq, true_and]
    apply List.map_congr_left
    intro k _
    simp only [Function.comp]
    omega

/-- **Problem number `k` reads radial component `k`**: the generated counter (`i_spline = 0`, then
`i_spline += 1` once per `(l, m)`, bound to `f_x` at definition time by `i_spline=i_spline`) takes
the values `0, 1, …, n − 1` over the `n` problems in call order — the order in which
`radial_component_splines` lists the components (`lap_degrees_spec`, `problems_count`). -/
theorem spline_index_position (n : ℕ) :
    splineIndexSeq bvpSplineStart bvpSplineStep n = List.range n ∧
    splineIndexSeq ivpSplineStart ivpSplineStep n = List.range n := by
  have h : ∀ n, splineIndexSeq 0 (fun i => i + 1) n = List.range n := by
    intro n
    rw [splineIndexSeq_succ]
    simp
  exact ⟨h n, h n⟩

example : splineIndexSeq bvpSplineStart bvpSplineStep 4 = [0, 1, 2, 3] := by decide

theorem ivp_mOrders_length (l : ℕ) : (ivpMOrders l).length = 2 * l + 1 := by
  simp only [ivpMOrders, List.length_append, List.length_map, intRange_length]
  omega

/-- **The harmonics match the posed problems**: `generate_real_spherical_harmonics(l_max // 2, …)`
has `(l_max//2 + 1)²` rows, as many as radial problems were posed (both solvers), so the
contraction `"ij, ij -> j"` pairs spline `i` with harmonic `i`. -/
theorem harm_rows_match (lMax : ℕ) (B rmax : ℝ) :
    ((bvpHarmDegree lMax).toNat + 1) ^ 2 = (bvpProblems lMax B).length ∧
    ((ivpHarmDegree lMax).toNat + 1) ^ 2 = (ivpProblems lMax B rmax).length := by
  have hd : ((lMax : ℤ) / 2).toNat = lMax / 2 := by omega
  constructor
  · rw [problems_count]
    simp only [bvpHarmDegree, hd]
  · simp only [ivpHarmDegree, hd, ivpProblems, lmSeq, List.length_map, List.length_flatMap, ivpLStart, ivpLStop, intRange]
    have h : ((lMax : ℤ) / 2 + 1 - 0).toNat = lMax / 2 + 1 := by omega
    rw [h, List.map_map, ← sum_odd (lMax / 2 + 1)]
    congr 1
    apply List.map_congr_left
    intro k _
    simp [ivp_mOrders_length]

/-- **An `AtomGrid` argument** (generated wrap: weight `1.0` at each of its points, `store=True`, so
the store guard lets it through; `indices = [0, size]` is what `MolGrid` computes for one atom — C07):
the per-atom solver receives exactly one slice, the caller's density itself. -/
theorem mol_atomgrid_route (f : List ℝ) :
    atomSlices f (wrapWeights (molWrapWeight : ℝ) f.length) [0, f.length] = some [f] ∧
    molWrapStore = molRequiresStore := by
  refine ⟨?_, rfl⟩
  have hw : List.zipWith molWeighted f (wrapWeights (molWrapWeight : ℝ) f.length) = f := by
    rw [(options_gen_eq 0).2.2.2.1]
    unfold wrapWeights
    induction f with
    | nil => simp
    | cons x xs ih => simp only [List.length_cons, List.replicate_succ, List.zipWith_cons_cons, ih, molWeighted, mul_one]
  simp [atomSlices, hw, molSliceStart, molSliceEnd, List.range_succ]

example : atomSlices [(2:ℝ), 3, 5] (wrapWeights (molWrapWeight : ℝ) 3) [0, 3] = some [[2, 3, 5]] := (mol_atomgrid_route [2, 3, 5]).1

end GridVerif.C16

/-
  C16 — `interpolate_laplacian`: the Laplacian of the harmonic expansion.

  All statements are over ℝ and about the *generated* text of `interpolate_laplacian`
  (`Gen/Poisson.lean`: `lapClamp`, `lapFirst/Second/Third` with their derivative orders and
  contractions, `lapDegrees`, `lapReturn`, the closure bookkeeping `lapSliceOwner`) assembled by
  the list plumbing `Model/Poisson.lean: laplacianAt`.

  * `lap_gen_eq`, `laplacianAt_eq`   the generated text at ℝ
  * `laplacian_expansion`            = Σ_lm [ρ'' + (2/r)ρ' − l(l+1)/r² ρ]·Y_lm (separated Laplacian summed over the
                                       components) for r ≥ cutoff; for r < cutoff the value at r = cutoff
  * `lap_degrees_spec`               the `degrees` array is l(l+1) repeated 2l+1 times, in the (l, m) order of the solvers
  * `laplacian_expansion_code`       the same with the generated `degrees` array
  * `laplacian_of_potential`         components solving the posed radial equations ⇒ Laplacian = −4π Σ ρ_lm Y_lm
  * `lap_molecular_slice_full`       molecular fan-out: the term of atom i uses the grid and the slice of atom i
                                       (Python closure rules recorded by the translator: a late-bound name breaks it)
-/
import GridVerif.Props.C16

namespace GridVerif.C16
open GridVerif GridVerif.Gen.Poisson GridVerif.Poisson Real

/-- One `(l, m)` component at one point: degree `l`, the radial function and its first and second
derivative at the (clamped) radius, the harmonic `Y` and its angular Laplacian `ΛY` at the angles. -/
structure LapComp where
  l : ℕ
  ρ : ℝ
  ρ1 : ℝ
  ρ2 : ℝ
  Y : ℝ
  LY : ℝ

/-- the entry of the `degrees` array for a component. -/
def LapComp.deg (c : LapComp) : ℝ := (c.l : ℝ) * (c.l + 1)

/-! ### the generated text at `ℝ` -/

/-- **Generated text of `interpolate_laplacian_atom_grid`**: the clamp, which derivative order each
of the three contractions asks for and whether `degrees` enters, what is done to the contracted
values, the return expression and the two cutoff defaults. -/
theorem lap_gen_eq (x y z r c : ℝ) :
    lapClamp r c = (if r < c then c else r) ∧
    (lapFirstOrder, lapSecondOrder, lapThirdOrder) = (2, 1, 0) ∧
    (lapFirstWeighted, lapSecondWeighted, lapThirdWeighted) = (false, false, true) ∧
    lapFirst x r = x ∧ lapSecond x r = x * (2 / r) ∧ lapThird x r = x / r ^ 2 ∧
    lapReturn x y z = x + y - z ∧
    (lapCutoffDefault : ℝ) = 1 / 10 ^ 6 ∧ (lapCutOffDefault : ℝ) = 1 / 10 ^ 6 := by
  refine ⟨rfl, rfl, rfl, rfl, ?_, ?_, rfl, ?_, ?_⟩
  · simp only [lapSecond, Nat.cast_ofNat]
  · simp only [lapThird, Elem.rpow, Nat.cast_ofNat]; rw [Real.rpow_two]
  · simp only [lapCutoffDefault, Nat.cast_ofNat, Nat.cast_one]; norm_num
  · simp only [lapCutOffDefault, Nat.cast_ofNat, Nat.cast_one]; norm_num

/-- `laplacianAt` (plumbing over the generated pieces) written out: second-derivative contraction,
plus `2/r` times the first-derivative contraction, minus the `degrees`-weighted value contraction
over `r²`, at the clamped radius. -/
theorem laplacianAt_eq (ρ ρ1 ρ2 degs Y : List ℝ) (r c : ℝ) :
    laplacianAt ρ ρ1 ρ2 degs Y r c
      = dot ρ2 Y + dot ρ1 Y * (2 / lapClamp r c) - dot3 ρ degs Y / lapClamp r c ^ 2 := by
  have h1 : ∀ x s : ℝ, lapFirst x s = x := fun x s => (lap_gen_eq x 0 0 s 0).2.2.2.1
  have h2 : ∀ x s : ℝ, lapSecond x s = x * (2 / s) := fun x s => (lap_gen_eq x 0 0 s 0).2.2.2.2.1
  have h3 : ∀ x s : ℝ, lapThird x s = x / s ^ 2 := fun x s => (lap_gen_eq x 0 0 s 0).2.2.2.2.2.1
  have h4 : ∀ x y z : ℝ, lapReturn x y z = x + y - z := fun x y z => (lap_gen_eq x y z 0 0).2.2.2.2.2.2.1
  unfold laplacianAt
  simp only [h1, h2, h3, h4, lapFirstOrder, lapSecondOrder, lapThirdOrder, lapFirstWeighted, lapSecondWeighted,
    lapThirdWeighted, lapContract, lapPick, Bool.false_eq_true, if_false, if_true]

theorem dot_map (cs : List LapComp) (f g : LapComp → ℝ) :
    dot (cs.map f) (cs.map g) = (cs.map fun c => f c * g c).sum := by
  induction cs with
  | nil => simp [dot]
  | cons c cs ih => simp only [List.map_cons, dot, ih, List.sum_cons]

theorem dot3_map (cs : List LapComp) (f d g : LapComp → ℝ) :
    dot3 (cs.map f) (cs.map d) (cs.map g) = (cs.map fun c => f c * d c * g c).sum := by
  induction cs with
  | nil => simp [dot3]
  | cons c cs ih => simp only [List.map_cons, dot3, ih, List.sum_cons]

theorem sum_map_add (cs : List LapComp) (f g : LapComp → ℝ) :
    (cs.map fun c => f c + g c).sum = (cs.map f).sum + (cs.map g).sum := by
  induction cs with
  | nil => simp
  | cons c cs ih => simp only [List.map_cons, List.sum_cons, ih]; ring

theorem sum_map_mul_right (cs : List LapComp) (f : LapComp → ℝ) (a : ℝ) :
    (cs.map fun c => f c * a).sum = (cs.map f).sum * a := by
  induction cs with
  | nil => simp
  | cons c cs ih => simp only [List.map_cons, List.sum_cons, ih]; ring

/-- the sum of the separated Laplacians of the components at radius `s`, with the eigenfunction
hypothesis used for every component. -/
theorem sum_separated (cs : List LapComp) (hΛ : ∀ c ∈ cs, c.LY = -((c.l : ℝ) * (c.l + 1)) * c.Y) (s : ℝ) :
    (cs.map fun c => sphLaplacianSeparated s c.ρ c.ρ1 c.ρ2 c.Y c.LY).sum
      = (cs.map fun c => c.ρ2 * c.Y).sum + (cs.map fun c => c.ρ1 * c.Y).sum * (2 / s)
        - (cs.map fun c => c.ρ * c.deg * c.Y).sum / s ^ 2 := by
  induction cs with
  | nil => simp
  | cons c cs ih =>
    have hc := hΛ c (List.mem_cons_self)
    have ih' := ih fun d hd => hΛ d (List.mem_cons_of_mem _ hd)
    rw [List.map_cons, List.sum_cons, ih']
    simp only [List.map_cons, List.sum_cons, sphLaplacianSeparated, hc, LapComp.deg]
    ring

/-- **Laplacian of the harmonic expansion** (anchor "Laplacian of the harmonic expansion",
`interpolate_laplacian`).  For any list of components (one per `(l, m)`; lists of equal length by
construction), with the Laplace-eigenfunction hypothesis `ΛY_lm = −l(l+1)·Y_lm` for every
component (`hΛ`, named hypothesis as in `radial_poisson_of_lm`; not in Mathlib) and the `degrees`
array holding `l(l+1)` for every component (see `lap_degrees_spec` for the generated array), and
`cutoff > 0`:
1. for `r ≥ cutoff` the generated `laplacianAt` is `Σ_lm ∇²(ρ_lm Y_lm)` with the separated Laplacian
   `sphLaplacianSeparated`, i.e. `Σ [ρ'' + (2/r)ρ' − l(l+1)ρ/r²]·Y`;
2. for `r < cutoff` it is the same sum at radius `cutoff` (the component values are those at the
   clamped radius), i.e. it equals `laplacianAt … cutoff cutoff`. -/
theorem laplacian_expansion (cs : List LapComp) (hΛ : ∀ c ∈ cs, c.LY = -((c.l : ℝ) * (c.l + 1)) * c.Y)
    {r cutoff : ℝ} (_hc : 0 < cutoff) :
    (cutoff ≤ r → laplacianAt (cs.map (·.ρ)) (cs.map (·.ρ1)) (cs.map (·.ρ2)) (cs.map (·.deg)) (cs.map (·.Y)) r cutoff
        = (cs.map fun c => sphLaplacianSeparated r c.ρ c.ρ1 c.ρ2 c.Y c.LY).sum) ∧
    (r < cutoff → laplacianAt (cs.map (·.ρ)) (cs.map (·.ρ1)) (cs.map (·.ρ2)) (cs.map (·.deg)) (cs.map (·.Y)) r cutoff
        = (cs.map fun c => sphLaplacianSeparated cutoff c.ρ c.ρ1 c.ρ2 c.Y c.LY).sum ∧
      laplacianAt (cs.map (·.ρ)) (cs.map (·.ρ1)) (cs.map (·.ρ2)) (cs.map (·.deg)) (cs.map (·.Y)) r cutoff
        = laplacianAt (cs.map (·.ρ)) (cs.map (·.ρ1)) (cs.map (·.ρ2)) (cs.map (·.deg)) (cs.map (·.Y)) cutoff cutoff) := by
  have key : ∀ s : ℝ, lapClamp r cutoff = s →
      laplacianAt (cs.map (·.ρ)) (cs.map (·.ρ1)) (cs.map (·.ρ2)) (cs.map (·.deg)) (cs.map (·.Y)) r cutoff
        = (cs.map fun c => sphLaplacianSeparated s c.ρ c.ρ1 c.ρ2 c.Y c.LY).sum := by
    intro s hs
    rw [laplacianAt_eq, hs, sum_separated cs hΛ s, dot_map, dot_map, dot3_map]
  have hcc : lapClamp cutoff cutoff = cutoff := by rw [(lap_gen_eq 0 0 0 _ _).1, if_neg (lt_irrefl _)]
  refine ⟨fun h => key r ?_, fun h => ?_⟩
  · rw [(lap_gen_eq 0 0 0 _ _).1, if_neg (not_lt.mpr h)]
  · have hs : lapClamp r cutoff = cutoff := by rw [(lap_gen_eq 0 0 0 _ _).1, if_pos h]
    refine ⟨key cutoff hs, ?_⟩
    rw [laplacianAt_eq, laplacianAt_eq, hs, hcc]

/-- non-vacuity (`l = 0`): `f = r²·Y` has `∇²f = 6·Y`; at `r = 3` (`ρ = 9, ρ' = 6, ρ'' = 2`), `Y = 1/2`. -/
example : laplacianAt [9] [6] [2] [((0:ℕ):ℝ) * ((0:ℕ) + 1)] [1 / 2] (3:ℝ) (1 / 10 ^ 6) = 6 * (1 / 2) := by
  have h := (laplacian_expansion [⟨0, 9, 6, 2, 1 / 2, 0⟩] (by simp) (r := 3) (cutoff := 1 / 10 ^ 6) (by norm_num)).1 (by norm_num)
  simp only [List.map_cons, List.map_nil, LapComp.deg, List.sum_cons, List.sum_nil, sphLaplacianSeparated] at h
  rw [h]; norm_num

/-- non-vacuity (`l = 1`): the solid harmonic `r·Y_1m` is harmonic; at `r = 3` (`ρ = 3, ρ' = 1, ρ'' = 0`). -/
example : laplacianAt [3] [1] [0] [((1:ℕ):ℝ) * ((1:ℕ) + 1)] [1 / 2] (3:ℝ) (1 / 10 ^ 6) = 0 := by
  have h := (laplacian_expansion [⟨1, 3, 1, 0, 1 / 2, -(((1:ℕ):ℝ) * ((1:ℕ) + 1)) * (1 / 2)⟩] (by simp; norm_num) (r := 3)
    (cutoff := 1 / 10 ^ 6) (by norm_num)).1 (by norm_num)
  simp only [List.map_cons, List.map_nil, LapComp.deg, List.sum_cons, List.sum_nil, sphLaplacianSeparated] at h
  rw [h]; norm_num

/-- non-vacuity of the clamped case: at `r = 0 < cutoff = 1/2` the two components above evaluated
at the clamped radius `1/2` (`r²`: `1/4, 1, 2`; `r`: `1/2, 1, 0`) give `6·Y₀ + 0`. -/
example : laplacianAt [1 / 4, 1 / 2] [1, 1] [2, 0] [((0:ℕ):ℝ) * ((0:ℕ) + 1), ((1:ℕ):ℝ) * ((1:ℕ) + 1)] [1 / 2, 1 / 3] (0:ℝ) (1 / 2)
    = 6 * (1 / 2) := by
  have h := ((laplacian_expansion [⟨0, 1 / 4, 1, 2, 1 / 2, 0⟩, ⟨1, 1 / 2, 1, 0, 1 / 3, -(((1:ℕ):ℝ) * ((1:ℕ) + 1)) * (1 / 3)⟩]
    (by simp; norm_num) (r := 0) (cutoff := 1 / 2) (by norm_num)).2 (by norm_num)).1
  simp only [List.map_cons, List.map_nil, LapComp.deg, List.sum_cons, List.sum_nil, sphLaplacianSeparated] at h
  rw [h]; norm_num

/-! ### the `degrees` array -/

theorem intRange_zero (n : ℕ) : intRange 0 (n : ℤ) = (List.range n).map fun (k : ℕ) => (k : ℤ) := by
  unfold intRange
  simp only [sub_zero, Int.toNat_natCast, zero_add]

/-- **The generated `degrees` array** (`np.hstack([[x(x+1)]·(2x+1) for x in arange(0, l_max//2+1)])`):
1. for each `l ≤ l_max // 2` in order, the value `l(l+1)` repeated `2l + 1` times;
2. its length is `(l_max // 2 + 1)²`, the number of radial components (`problems_count`);
3. it is `l(l+1)` mapped over the `(l, m)` sequence in which the solvers (and
   `radial_component_splines`) enumerate the components (`lmSeq bvpMOrders …`), so entry `i` belongs
   to component `i`. -/
theorem lap_degrees_spec (lMax : ℕ) :
    lapDegrees lMax = (List.range (lMax / 2 + 1)).flatMap (fun l => List.replicate (2 * l + 1) (((l * (l + 1) : ℕ)) : ℤ)) ∧
    (lapDegrees lMax).length = (lMax / 2 + 1) ^ 2 ∧
    lapDegrees lMax = (lmSeq bvpMOrders bvpLStart (bvpLStop lMax)).map (fun lm => (((lm.1 * (lm.1 + 1) : ℕ)) : ℤ)) := by
  have h1 : lapDegrees lMax
      = (List.range (lMax / 2 + 1)).flatMap (fun l => List.replicate (2 * l + 1) (((l * (l + 1) : ℕ)) : ℤ)) := by
    have e : ((lMax : ℤ) / 2 + 1) = ((lMax / 2 + 1 : ℕ) : ℤ) := by push_cast; rfl
    simp only [lapDegrees]
    rw [e, intRange_zero, List.flatMap_map]
    apply List.flatMap_congr
    intro k _
    have : ((2 : ℤ) * (k : ℤ) + 1).toNat = 2 * k + 1 := by omega
    rw [this]; push_cast; rfl
  refine ⟨h1, ?_, ?_⟩
  · rw [h1, List.length_flatMap, ← sum_odd (lMax / 2 + 1)]
    congr 1
    apply List.map_congr_left
    intro k _
    simp
  · rw [h1]
    simp only [lmSeq, bvpLStart, bvpLStop]
    have e : ((lMax : ℤ) / 2 + 1) = ((lMax / 2 + 1 : ℕ) : ℤ) := by push_cast; rfl
    rw [e, intRange_zero, List.flatMap_map, List.map_flatMap]
    apply List.flatMap_congr
    intro k _
    simp only [Int.toNat_natCast, List.map_map]
    rw [← mOrders_length k]
    exact List.map_const'.symm

example : lapDegrees 5 = [0, 2, 2, 2, 6, 6, 6, 6, 6] := by decide

/-- **Laplacian of the harmonic expansion with the generated `degrees` array**: if the components
are listed in the order of the solvers' `(l, m)` sequence for `l_max` (`hl`), then `laplacianAt`
fed with the *generated* array `lapDegreesK l_max` is the sum of the separated Laplacians
(`r ≥ cutoff > 0`). -/
theorem laplacian_expansion_code (lMax : ℕ) (cs : List LapComp)
    (hl : cs.map (·.l) = (lmSeq bvpMOrders bvpLStart (bvpLStop lMax)).map Prod.fst)
    (hΛ : ∀ c ∈ cs, c.LY = -((c.l : ℝ) * (c.l + 1)) * c.Y) {r cutoff : ℝ} (hc : 0 < cutoff) (hr : cutoff ≤ r) :
    laplacianAt (cs.map (·.ρ)) (cs.map (·.ρ1)) (cs.map (·.ρ2)) (lapDegreesK lMax) (cs.map (·.Y)) r cutoff
      = (cs.map fun c => sphLaplacianSeparated r c.ρ c.ρ1 c.ρ2 c.Y c.LY).sum := by
  have hd : (lapDegreesK lMax : List ℝ) = cs.map (·.deg) := by
    unfold lapDegreesK
    rw [(lap_degrees_spec lMax).2.2, List.map_map]
    have : (lmSeq bvpMOrders bvpLStart (bvpLStop lMax)).map
        ((fun d : ℤ => ((d.toNat : ℕ) : ℝ)) ∘ fun lm => (((lm.1 * (lm.1 + 1) : ℕ)) : ℤ))
        = ((lmSeq bvpMOrders bvpLStart (bvpLStop lMax)).map Prod.fst).map fun l : ℕ => (l : ℝ) * (l + 1) := by
      rw [List.map_map]
      apply List.map_congr_left
      intro lm _
      simp only [Function.comp, Int.toNat_natCast]
      push_cast; ring
    rw [this, ← hl, List.map_map]
    apply List.map_congr_left
    intro c _
    simp [LapComp.deg]
  rw [hd]
  exact (laplacian_expansion cs hΛ hc).1 hr

/-- non-vacuity: `l_max = 0` (one component, `degrees = [0]`), `f = r²·Y₀₀`. -/
example : laplacianAt [9] [6] [2] (lapDegreesK 0) [1 / 2] (3:ℝ) (1 / 10 ^ 6) = 6 * (1 / 2) := by
  have h := laplacian_expansion_code 0 [⟨0, 9, 6, 2, 1 / 2, 0⟩] (by decide) (by simp) (r := 3) (cutoff := 1 / 10 ^ 6)
    (by norm_num) (by norm_num)
  simp only [List.map_cons, List.map_nil, List.sum_cons, List.sum_nil, sphLaplacianSeparated] at h
  rw [h]; norm_num

/-! ### tie to the Poisson clause -/

/-- **Laplacian of a potential whose components solve the posed radial problems** (clause "the
per-(l,m) problems are the components of `∇²V = −4πρ`").  `cs` lists the components
`(V_lm, V_lm', V_lm'')` of the potential with their harmonics, paired with the density component
`ρ_lm`.  If every component satisfies the equation the code hands to `solve_ode_ivp` (generated
`ivpCoeffs`, `ivpRhs`; by `u_form_equiv` equivalently `u = rV` satisfies the one handed to
`solve_ode_bvp`), then under the eigenfunction hypothesis the generated `laplacianAt` of the
potential is `−4π Σ ρ_lm Y_lm`, for `r ≥ cutoff > 0`. -/
theorem laplacian_of_potential (cs : List (LapComp × ℝ))
    (hΛ : ∀ c ∈ cs, c.1.LY = -((c.1.l : ℝ) * (c.1.l + 1)) * c.1.Y) {r cutoff : ℝ} (hc : 0 < cutoff) (hr : cutoff ≤ r)
    (hode : ∀ c ∈ cs, odeLhs (ivpCoeffs c.1.l r) [c.1.ρ, c.1.ρ1, c.1.ρ2] = ivpRhs c.2 r) :
    laplacianAt ((cs.map Prod.fst).map (·.ρ)) ((cs.map Prod.fst).map (·.ρ1)) ((cs.map Prod.fst).map (·.ρ2))
        ((cs.map Prod.fst).map (·.deg)) ((cs.map Prod.fst).map (·.Y)) r cutoff
      = -(4 * π) * (cs.map fun c => c.2 * c.1.Y).sum := by
  have hr0 : r ≠ 0 := (lt_of_lt_of_le hc hr).ne'
  rw [(laplacian_expansion (cs.map Prod.fst) (by
    intro c hcm
    obtain ⟨d, hd, rfl⟩ := List.mem_map.mp hcm
    exact hΛ d hd) hc).1 hr, List.map_map]
  clear hc hr
  induction cs with
  | nil => simp
  | cons c cs ih =>
    have h1 := hode c List.mem_cons_self
    have hL := hΛ c List.mem_cons_self
    have ih' := ih (fun d hd => hΛ d (List.mem_cons_of_mem _ hd)) (fun d hd => hode d (List.mem_cons_of_mem _ hd))
    simp only [List.map_cons, List.sum_cons, ih', Function.comp]
    by_cases hY : c.1.Y = 0
    · simp [sphLaplacianSeparated, hL, hY]
    · rw [(radial_poisson_of_lm c.1.l hr0 c.1.ρ c.1.ρ1 c.1.ρ2 c.2 c.1.Y c.1.LY hY hL).mpr h1]; ring

/-- non-vacuity: the monopole `V = 1/r` outside the charge (`ρ = 0`) at `r = 2`. -/
example : odeLhs (ivpCoeffs 0 2) [(1:ℝ) / 2, -1 / 2 ^ 2, 2 / 2 ^ 3] = ivpRhs 0 2 := by
  rw [(posed_ivp_eq 0 2 0).1, (posed_ivp_eq 0 2 0).2, odeLhs3]; norm_num

/-! ### the molecular fan-out -/

/-- The per-atom pieces of the molecular fan-out and the sum are those of the Poisson solvers. -/
theorem lap_fanout_eq (f w o v : ℝ) (i : ℕ) :
    lapWeighted f w = molWeighted f w ∧ lapSliceStart i = molSliceStart i ∧ lapSliceEnd i = molSliceEnd i ∧
    lapSumStep o v = o + v ∧ lapRequiresStore = true :=
  ⟨rfl, rfl, rfl, rfl, rfl⟩

/-- **Molecular clause** (anchor "sum over atoms"): when the returned callable is evaluated, the
term of atom `i` (of `n`) works on the grid of atom `i` *and* on the slice
`func_vals_atom[indices[i] : indices[i+1]]` of atom `i`.  `lapSliceOwner` / `lapGridOwner` are
emitted by the translator from Python's closure rules (a name that is free in the stored lambda and
re-assigned in the loop is looked up at call time, i.e. belongs to the *last* iteration; a default
argument binds at definition time).  The code once called the late-bound
`interpolate_laplacian_atom_grid` (then `lapSliceOwner i n = n − 1`: every atom used the last atom's
slice; repaired in /repo 4a94e3f); a revert changes the generated text and breaks this theorem. -/
theorem lap_molecular_slice_full : ∀ i n : ℕ, i < n → lapSliceOwner i n = i ∧ lapGridOwner i n = i :=
  fun _ _ _ => ⟨rfl, rfl⟩

/-- consequence for the list plumbing: with consistent `indices`, the terms `lapTermSlices` are
`(i, slice i)` in order — checked on a concrete 2-atom instance (3 + 2 points). -/
example : lapTermSlices [1, 2, 3, 4, 5] [1, 1, 1, 2, 2] [0, 3, 5] = some [(0, [(1:ℝ) * 1, 2 * 1, 3 * 1]), (1, [4 * 2, 5 * 2])] := by
  simp [lapTermSlices, lapAtomSlices, lapSliceOwner, lapGridOwner, lapSliceStart, lapSliceEnd, lapWeighted, List.range,
    List.range.loop, List.mapM_cons, List.mapM_nil]

end GridVerif.C16

/-
  C08 — the hard-coded thresholds of the anchored routines as windows of the *regenerated* constants
  (`Gen/Harmonics.lean`): the pole rule `|tan φ| < 1e-10` of the derivative routine, the conventions `|r| < 1e-10`,
  `|φ| < 1e-10` of `convert_derivative_from_spherical_to_cartesian`, and the repair `phi[r == 0.0] = 0.0` of
  `convert_cart_to_sph`.  A changed literal / comparison regenerates another text and these statements fail.
-/
import GridVerif.Props.C08
import GridVerif.Props.C08.Gen

namespace GridVerif.C08
open GridVerif.Harmonics GridVerif.GenBase Real

theorem tol10_eq : (tol10 : ℝ) = 1e-10 := by
  unfold tol10; norm_num

/-- **Threshold windows of the generated text.**
(a) pole rule of `generate_derivative_real_spherical_harmonics`: the cotangent factor is `0` exactly inside
`|tan φ| < 1e-10` and `cos φ / sin φ` from `1e-10` on (so the polar derivative is the true one next to, but not on, the axis);
(b) `convert_derivative_from_spherical_to_cartesian`: for `|r| < 1e-10` only the radial column survives, for
`1e-10 ≤ |r|`, `|φ| < 1e-10` the azimuthal column is zero, and from `1e-10` on in both the full inverse-transpose Jacobian is used;
(c) `convert_cart_to_sph`: the repair of the polar angle applies at the centre only — for every other point, however close,
`r > 0` and the polar angle is `arccos(z/r)`. -/
theorem gen_threshold_windows (r θ φ : ℝ) (p c : P3 ℝ) :
    (|tan φ| < 1e-10 → Gen.Harmonics.cot_tangent φ = 0) ∧
    (1e-10 ≤ |tan φ| → Gen.Harmonics.cot_tangent φ = cos φ / sin φ) ∧
    (|r| < 1e-10 →
      Gen.Harmonics.convJacobian r θ φ = [[cos θ * sin φ, 0, 0], [sin θ * sin φ, 0, 0], [cos φ, 0, 0]]) ∧
    (1e-10 ≤ |r| → |φ| < 1e-10 →
      Gen.Harmonics.convJacobian r θ φ =
        [[cos θ * sin φ, 0, cos θ * cos φ / r], [sin θ * sin φ, 0, sin θ * cos φ / r], [cos φ, 0, -sin φ / r]]) ∧
    (1e-10 ≤ |r| → 1e-10 ≤ |φ| →
      Gen.Harmonics.convJacobian r θ φ =
        [[cos θ * sin φ, -sin θ / (r * sin φ), cos θ * cos φ / r],
          [sin θ * sin φ, cos θ / (r * sin φ), sin θ * cos φ / r],
          [cos φ, 0, -sin φ / r]]) ∧
    Gen.Harmonics.cartToSph c c = (0, 0, 0) ∧
    (p ≠ c → 0 < (Gen.Harmonics.cartToSph p c).1 ∧
      (Gen.Harmonics.cartToSph p c).2.2 = arccos ((p.2.2 - c.2.2) / (Gen.Harmonics.cartToSph p c).1)) := by
  have hc : Gen.Harmonics.cot_tangent φ = cotTangent φ := (gen_deriv_pieces φ [] 0 0 (by simp)).2.1
  have hJ : Gen.Harmonics.convJacobian r θ φ = convJacobian r θ φ := (gen_jacobian_eq_model 0 0 0 r θ φ).1
  rw [hc, hJ, (gen_cart_to_sph_eq_model c c).1, (gen_cart_to_sph_eq_model p c).1, ← tol10_eq]
  refine ⟨cotTangent_pole φ, cotTangent_generic φ, convJacobian_r_small r θ φ, convJacobian_phi_small r θ φ,
    convJacobian_generic r θ φ, cartToSph_center c, fun hne => ?_⟩
  rw [cartToSph_real]
  have hpos : 0 < √((p.1 - c.1) * (p.1 - c.1) + (p.2.1 - c.2.1) * (p.2.1 - c.2.1) + (p.2.2 - c.2.2) * (p.2.2 - c.2.2)) := by
    apply Real.sqrt_pos.mpr
    by_contra hle
    have h0 : (p.1 - c.1) * (p.1 - c.1) + (p.2.1 - c.2.1) * (p.2.1 - c.2.1) + (p.2.2 - c.2.2) * (p.2.2 - c.2.2) = 0 :=
      le_antisymm (not_lt.mp hle)
        (by nlinarith [mul_self_nonneg (p.1 - c.1), mul_self_nonneg (p.2.1 - c.2.1), mul_self_nonneg (p.2.2 - c.2.2)])
    have h1 : p.1 - c.1 = 0 := by nlinarith [mul_self_nonneg (p.1 - c.1), mul_self_nonneg (p.2.1 - c.2.1), mul_self_nonneg (p.2.2 - c.2.2)]
    have h2 : p.2.1 - c.2.1 = 0 := by nlinarith [mul_self_nonneg (p.1 - c.1), mul_self_nonneg (p.2.1 - c.2.1), mul_self_nonneg (p.2.2 - c.2.2)]
    have h3 : p.2.2 - c.2.2 = 0 := by nlinarith [mul_self_nonneg (p.1 - c.1), mul_self_nonneg (p.2.1 - c.2.1), mul_self_nonneg (p.2.2 - c.2.2)]
    apply hne
    obtain ⟨p1, p2, p3⟩ := p
    obtain ⟨c1, c2, c3⟩ := c
    simp only at h1 h2 h3
    have e1 : p1 = c1 := by linarith
    have e2 : p2 = c2 := by linarith
    have e3 : p3 = c3 := by linarith
    rw [e1, e2, e3]
  exact ⟨hpos, by simp only [if_pos hpos]⟩

/-- one ulp-sized step away from the centre is not the centre: `r > 0` and the polar angle of `c + (ε, 0, 0)` is `π/2`. -/
example (ε : ℝ) (hε : 0 < ε) :
    (Gen.Harmonics.cartToSph ((1 : ℝ) + ε, (2 : ℝ), (3 : ℝ)) (1, 2, 3)).2.2 = π / 2 := by
  have h := (gen_threshold_windows 0 0 0 ((1 : ℝ) + ε, (2 : ℝ), (3 : ℝ)) (1, 2, 3)).2.2.2.2.2.2 (by
    intro h; have := congrArg Prod.fst h; simp at this; linarith)
  rw [h.2]; simp

end GridVerif.C08

/-
  C08 — tie of the *generated* definitions `Gen/Harmonics.lean` (written by `harness/translate/harmonics.py`
  from the source of `grid/utils.py` on every run) to the hand model `Model/Harmonics.lean`, about which the
  theorems of `Props/C08.lean` are stated.

  * `gen_ylm_eq_model`     — the statement-by-statement translation of `generate_real_spherical_harmonics`
                             (state `YlmState`: the output array written through the row counter `i_sph`, the two
                             work columns of `p_leg`, the running `factorial`) returns exactly the rows of `ylmCode`,
                             over every scalar type (so also at `Float`, in the driver) and whatever the unbound
                             variable `factorial` contains before its first assignment;
  * `gen_ylm_rows_spec`    — hence `ylm_rows_spec` (what every row is, for every `l_max`) holds for the generated text;
  * `gen_deriv_eq_model`, `gen_deriv_pieces`
                           — the loops, `m_values`, `index_m`, the θ-derivative store and the scalar pieces of the
                             φ-derivative of `generate_derivative_real_spherical_harmonics` (the SciPy part stays `dEntry`);
  * `gen_solid_eq_model`, `gen_cart_to_sph_eq_model`, `gen_jacobian_eq_model`
                           — the same for `solid_harmonics`, `convert_cart_to_sph`,
                             `convert_derivative_from_spherical_to_cartesian`;
  * `accumulator_is_extended_precision`
                           — the recorded `dtype`s: the running factor and the work arrays are `np.longdouble`
                             (a `float64` accumulator overflows beyond `l = 150`; invisible over ℝ).

  A change of the `i_sph` bookkeeping, of a `sqrt(2)` factor, of the sign/assignment of the sine rows, of the
  recursion coefficients, of a threshold or of a `dtype` changes the regenerated text and breaks one of these
  proofs.  The helper lemmas that mention generated names live here (namespace `GenTie`), not in `Lemmas/`.
-/
import GridVerif.Gen.Harmonics
import GridVerif.Lemmas.HarmonicsSpec

set_option linter.unusedSectionVars false

namespace GridVerif.C08.GenTie
open GridVerif.Harmonics GridVerif.GenBase GridVerif.Gen.Harmonics

section generic
variable {K : Type} [Add K] [Sub K] [Mul K] [Div K] [Neg K] [NatCast K] [Elem K]

theorem pyIdx_pred (n m : Nat) (h : 1 ≤ m) : pyIdx n ((m : Int) - (1 : Int)) = m - 1 := by
  unfold pyIdx
  have : ¬ ((m : Int) - 1 < 0) := by omega
  rw [if_neg this]
  omega

omit [Add K] [Sub K] [Mul K] [Div K] [Neg K] [Elem K] in
/-- storing at the first unwritten row of the output array. -/
theorem set_push (A : List K) (N : Nat) (v : K) (h : A.length + 1 ≤ N) :
    (A ++ zerosK (N - A.length)).set A.length v = (A ++ [v]) ++ zerosK (N - (A ++ [v]).length) := by
  obtain ⟨k, hk⟩ : ∃ k, N - A.length = k + 1 := ⟨N - A.length - 1, by omega⟩
  have h2 : N - (A ++ [v]).length = k := by simp; omega
  rw [hk, h2]
  simp [zerosK, List.replicate_succ]

omit [Add K] [Sub K] [Mul K] [Div K] [Neg K] [Elem K] in
theorem set_push1 (rows deg : List K) (N : Nat) (v : K) (h : (rows ++ deg).length + 1 ≤ N) :
    ((rows ++ deg) ++ zerosK (N - (rows ++ deg).length)).set (rows ++ deg).length v =
      (rows ++ (deg ++ [v])) ++ zerosK (N - (rows ++ (deg ++ [v])).length) := by
  rw [set_push _ _ _ h, List.append_assoc rows deg [v]]

omit [Add K] [Sub K] [Mul K] [Div K] [Neg K] [Elem K] in
theorem set_push2 (rows deg : List K) (N : Nat) (v w : K) (h : (rows ++ deg).length + 2 ≤ N) :
    (((rows ++ deg) ++ zerosK (N - (rows ++ deg).length)).set (rows ++ deg).length v).set ((rows ++ deg).length + 1) w =
      (rows ++ (deg ++ [v, w])) ++ zerosK (N - (rows ++ (deg ++ [v, w])).length) := by
  rw [set_push1 _ _ _ _ (by omega)]
  have e : (rows ++ deg).length + 1 = (rows ++ (deg ++ [v])).length := by simp; omega
  rw [e, set_push1 _ _ _ _ (by rw [← e]; omega)]
  simp

theorem fac_sph_eq (l m : Nat) : (fac_sph (l : K) (m : K) : K) = facSph l := rfl
theorem a_k_eq (l m : Nat) : (a_k (l : K) (m : K) : K) = aK l m := rfl
theorem b_k_eq (l m : Nat) : (b_k (l : K) (m : K) : K) = bK l m := rfl

def toGen (N : Nat) (rows : List K) (hs : LegState K) : YlmState K :=
  { spherical_harm := (rows ++ hs.deg) ++ zerosK (N - (rows ++ hs.deg).length),
    p_leg_0 := hs.p0, p_leg_1 := hs.p1, i_sph := (rows ++ hs.deg).length, factorial := hs.fact }

theorem step_m_ord_sim (N : Nat) (rows : List K) (hs : LegState K) (θ s c : K) (l m : Nat) (hl : 1 ≤ l)
    (hroom : (rows ++ hs.deg).length + 2 ≤ N) :
    step_m_ord θ s c l (toGen N rows hs) m = toGen N rows (stepOrder s c θ l hs m) := by
  by_cases hlm : l = m
  · have hm0 : m ≠ 0 := by omega
    subst hlm
    simp only [step_m_ord, stepOrder, toGen, hm0, ↓reduceIte, pyIdx_pred _ _ hl, fac_sph_eq]
    rw [set_push2 _ _ _ _ _ hroom]
    simp; omega
  · by_cases hm0 : m = 0
    · subst hm0
      have h2 : ((0 : Nat) : Int) ≤ (l : Int) - (2 : Int) ↔ 0 + 2 ≤ l := by omega
      simp only [step_m_ord, stepOrder, toGen, hlm, ↓reduceIte, fac_sph_eq, a_k_eq, b_k_eq, h2]
      rw [set_push1 _ _ _ _ (by omega)]
      simp; omega
    · have h2 : ((m : Nat) : Int) ≤ (l : Int) - (2 : Int) ↔ m + 2 ≤ l := by omega
      simp only [step_m_ord, stepOrder, toGen, hlm, hm0, ↓reduceIte, fac_sph_eq, a_k_eq, b_k_eq, h2]
      rw [set_push2 _ _ _ _ _ hroom]
      simp; omega

theorem stepOrder_deg_length (s c θ : K) (l : Nat) (hs : LegState K) (m : Nat) :
    (stepOrder s c θ l hs m).deg.length = hs.deg.length + (if m = 0 then 1 else 2) := by
  unfold stepOrder
  by_cases hm0 : m = 0
  · subst hm0; by_cases hl0 : l = 0 <;> simp [hl0]
  · by_cases hlm : l = m <;> simp [hlm, hm0]

/-- rows of the current degree after the orders `0..k-1`. -/
theorem inner_deg_length (s c θ : K) (l : Nat) (hs : LegState K) (hd : hs.deg = []) (k : Nat) :
    ((List.range k).foldl (stepOrder s c θ l) hs).deg.length = 2 * k - 1 := by
  induction k with
  | zero => simp [hd]
  | succ k ih =>
    rw [List.range_succ, List.foldl_append, List.foldl_cons, List.foldl_nil, stepOrder_deg_length, ih]
    by_cases hk : k = 0 <;> simp [hk]; omega

theorem inner_sim (N : Nat) (rows : List K) (hs : LegState K) (hd : hs.deg = []) (θ s c : K) (l : Nat) (hl : 1 ≤ l)
    (k : Nat) (hk : k ≤ l + 1) (hroom : rows.length + (2 * l + 1) ≤ N) :
    (List.range' 0 k).foldl (step_m_ord θ s c l) (toGen N rows hs) =
      toGen N rows ((List.range k).foldl (stepOrder s c θ l) hs) := by
  induction k with
  | zero => simp
  | succ k ih =>
    rw [List.range'_concat, List.foldl_append, ih (by omega), List.range_succ, List.foldl_append]
    simp only [List.foldl_cons, List.foldl_nil, Nat.zero_add, Nat.one_mul]
    refine step_m_ord_sim N rows _ θ s c l k hl ?_
    rw [List.length_append, inner_deg_length s c θ l hs hd k]
    omega

theorem toGen_flush (N : Nat) (rows : List K) (hs : LegState K) :
    toGen N (rows ++ hs.deg) { hs with deg := [] } = toGen N rows hs := by
  simp [toGen]

theorem stepDegree_deg_length (s c θ : K) (hs : LegState K) (l : Nat) :
    (stepDegree s c θ hs l).deg.length = 2 * l + 1 := by
  unfold stepDegree
  rw [inner_deg_length s c θ l _ rfl (l + 1)]
  omega

theorem degree_sim (N L : Nat) (rows : List K) (hs : LegState K) (θ s c : K) (l : Nat) (hl : 1 ≤ l)
    (hroom : rows.length + (2 * l + 1) ≤ N) :
    step_l_deg L θ s c (toGen N rows { hs with deg := [] }) l = toGen N rows (stepDegree s c θ hs l) := by
  unfold step_l_deg stepDegree
  simp only [Nat.sub_zero]
  exact inner_sim N rows _ rfl θ s c l hl (l + 1) (Nat.le_refl _) hroom

/-- The outer loop of the hand model as a fold over `(state, rows so far)`. -/
def handStep (s c θ : K) (p : LegState K × List K) (l : Nat) : LegState K × List K :=
  ((stepDegree s c θ p.1 l), p.2 ++ (stepDegree s c θ p.1 l).deg)

theorem runDegrees_eq_fold (L : Nat) (θ s c : K) (n : Nat) :
    runDegrees L θ s c n = (List.range' 1 n).foldl (handStep s c θ) (initState L, [facSph (0 : Nat)]) := by
  induction n with
  | zero => rfl
  | succ n ih =>
    rw [List.range'_concat, List.foldl_append, ← ih]
    simp only [List.foldl_cons, List.foldl_nil, Nat.one_mul, Nat.add_comm 1 n]
    rfl

theorem fold_rows_length (s c θ : K) (st0 : LegState K) (y0 : K) (n : Nat) :
    ((List.range' 1 n).foldl (handStep s c θ) (st0, [y0])).2.length = (n + 1) * (n + 1) := by
  induction n with
  | zero => simp
  | succ n ih =>
    rw [List.range'_concat, List.foldl_append]
    simp only [List.foldl_cons, List.foldl_nil, handStep, List.length_append, ih, stepDegree_deg_length]
    ring

theorem outer_sim (L : Nat) (θ s c : K) (st0 : LegState K) (y0 : K) (n : Nat) (hn : n ≤ L) :
    (List.range' 1 n).foldl (step_l_deg L θ s c) (toGen ((L + 1) ^ 2) [y0] { st0 with deg := [] }) =
      toGen ((L + 1) ^ 2) ((List.range' 1 n).foldl (handStep s c θ) (st0, [y0])).2
        { ((List.range' 1 n).foldl (handStep s c θ) (st0, [y0])).1 with deg := [] } := by
  induction n with
  | zero => simp
  | succ n ih =>
    rw [List.range'_concat, List.foldl_append, List.foldl_append, ih (by omega)]
    simp only [List.foldl_cons, List.foldl_nil, Nat.one_mul]
    have hlen := fold_rows_length s c θ st0 y0 n
    rw [degree_sim _ _ _ _ _ _ _ _ (by omega) (by
      rw [hlen]
      have : (n + 2) * (n + 2) ≤ (L + 1) * (L + 1) := Nat.mul_le_mul (by omega) (by omega)
      have e : (L + 1) ^ 2 = (L + 1) * (L + 1) := by ring
      rw [e]
      have e2 : (n + 1) * (n + 1) + (2 * (1 + n) + 1) = (n + 2) * (n + 2) := by ring
      omega)]
    rw [← toGen_flush]
    rfl

theorem stepDegree_fact_irrel (s c θ : K) (st : LegState K) (a : K) (l : Nat) :
    stepDegree s c θ { st with fact := a } l = stepDegree s c θ st l := by
  unfold stepDegree
  rw [List.range_succ_eq_map, List.foldl_cons, List.foldl_cons]
  congr 1
  by_cases hl0 : l = 0 <;> simp [stepOrder, hl0]

theorem fold_fact_irrel (s c θ : K) (st : LegState K) (a y0 : K) (n : Nat) :
    ((List.range' 1 n).foldl (handStep s c θ) ({ st with fact := a }, [y0])).2 =
      ((List.range' 1 n).foldl (handStep s c θ) (st, [y0])).2 := by
  cases n with
  | zero => rfl
  | succ n =>
    rw [List.range'_succ, List.foldl_cons, List.foldl_cons]
    have : handStep s c θ ({ st with fact := a }, [y0]) 1 = handStep s c θ (st, [y0]) 1 := by
      simp only [handStep, stepDegree_fact_irrel]
    rw [this]

theorem init_eq (f0 : K) (L : Nat) :
    ({ spherical_harm := (zerosK ((L + 1) ^ 2)).set 0 (fac_sph ((0 : Nat) : K) ((0 : Nat) : K)),
       p_leg_0 := (zerosK (L + 1)).set 0 ((1 : Nat) : K), p_leg_1 := (zerosK (L + 1)).set 0 ((1 : Nat) : K),
       i_sph := 1, factorial := f0 } : YlmState K) =
      toGen ((L + 1) ^ 2) [facSph (0 : Nat)] { ({ initState L with fact := f0 } : LegState K) with deg := [] } := by
  obtain ⟨k, hk⟩ : ∃ k, (L + 1) ^ 2 = k + 1 := ⟨(L + 1) ^ 2 - 1, by have : 0 < (L + 1) ^ 2 := Nat.pow_pos (Nat.succ_pos L); omega⟩
  simp [toGen, initState, zerosK, List.replicate_succ, hk, fac_sph_eq]

/-- **The generated routine equals the hand model** (any scalar type, any content of the unbound `factorial`). -/
theorem ylm_eq_ylmCode (f0 : K) (L : Nat) (θ φ : K) : ylm f0 L θ φ = ylmCode L θ φ := by
  unfold ylm ylmCode ylmCodeSC
  simp only [Nat.add_sub_cancel]
  rw [init_eq, outer_sim L θ _ _ _ _ L (Nat.le_refl _), runDegrees_eq_fold]
  have hlen := fold_rows_length (Elem.sin φ) (Elem.cos φ) θ ({ initState L with fact := f0 } : LegState K) (facSph (0 : Nat)) L
  have e : (L + 1) ^ 2 = (L + 1) * (L + 1) := by ring
  simp only [toGen, List.append_nil, hlen, e, Nat.sub_self, zerosK, List.replicate_zero]
  exact fold_fact_irrel _ _ _ _ _ _ _


/-! ### `solid_harmonics` -/

theorem solidDegrees_eq (L : Nat) : (solidDegrees L : List K) = (degreeList L).map (fun (l : Nat) => (l : K)) := by
  unfold solidDegrees degreeList
  rw [List.map_flatMap, Nat.sub_zero, List.range_eq_range']
  simp [List.map_replicate]

theorem solid_eq_solidHarmonics (f0 : K) (L : Nat) (r θ φ : K) :
    solid f0 L r θ φ = solidHarmonics L r θ φ := by
  unfold solid solidHarmonics
  rw [ylm_eq_ylmCode, solidDegrees_eq, List.zipWith_map_right]
  rfl

/-! ### `convert_derivative_from_spherical_to_cartesian` -/

theorem convJacobian_eq [LT K] [DecidableLT K] (r θ φ : K) :
    Gen.Harmonics.convJacobian r θ φ = Harmonics.convJacobian r θ φ := by
  unfold Gen.Harmonics.convJacobian Harmonics.convJacobian tol10
  generalize ((1 : Nat) : K) / ((10000000000 : Nat) : K) = tol
  by_cases hr : Elem.abs r < tol <;> by_cases hp : Elem.abs φ < tol <;> simp [hr, hp, setCol]

theorem convDeriv_eq [LT K] [DecidableLT K] (dr dt dp r θ φ : K) :
    Gen.Harmonics.convDeriv dr dt dp r θ φ = Harmonics.convDeriv dr dt dp r θ φ := by
  unfold Gen.Harmonics.convDeriv Harmonics.convDeriv
  rw [convJacobian_eq]
  rfl


/-! ### `generate_derivative_real_spherical_harmonics` -/

theorem m_values_eq (l : Nat) : m_values l = mValues l := by
  simp [m_values, mValues]

theorem index_m_eq (m : Int) : index_m m = (indexM m : Int) := by
  unfold index_m indexM
  by_cases h : 0 < m
  · have h' : m > 0 := h
    simp only [h, h', if_true]
    omega
  · have h' : ¬ m > 0 := h
    simp only [h, h', if_false]
    omega

theorem pyIdx_index_m (n : Nat) (m : Int) : pyIdx n (index_m m) = indexM m := by
  rw [index_m_eq]
  unfold pyIdx
  have : ¬ ((indexM m : Int) < 0) := by omega
  rw [if_neg this]
  omega

theorem indexM_le (l : Nat) (m : Int) (h : m.natAbs ≤ l) : indexM m < 2 * l + 1 := by
  unfold indexM
  split <;> omega

theorem slice_getD (Y : List K) (l : Nat) (i : Nat) (hi : i < 2 * l + 1) (d : K) :
    (sphHarmDegree Y l).getD i d = Y.getD (l * l + i) d := by
  unfold sphHarmDegree
  have e : (l + 1) ^ 2 - l ^ 2 = 2 * l + 1 := by
    have : (l + 1) ^ 2 = l ^ 2 + (2 * l + 1) := by ring
    omega
  rw [e, List.getD_eq_getElem?_getD, List.getD_eq_getElem?_getD, List.getElem?_take, if_pos hi, List.getElem?_drop, Nat.pow_two]

theorem slice_length (Y : List K) (l : Nat) (hY : (l + 1) * (l + 1) ≤ Y.length) :
    (sphHarmDegree Y l).length = 2 * l + 1 := by
  unfold sphHarmDegree
  have e : (l + 1) ^ 2 - l ^ 2 = 2 * l + 1 := by
    have : (l + 1) ^ 2 = l ^ 2 + (2 * l + 1) := by ring
    omega
  have e2 : (l + 1) * (l + 1) = l ^ 2 + (2 * l + 1) := by ring
  rw [e, List.length_take, List.length_drop]
  omega

def toD (N : Nat) (A B : List K) : DerivState K :=
  { output_0 := A ++ zerosK (N - A.length), output_1 := B ++ zerosK (N - B.length), i_output := A.length }

theorem intToK_eq [LT K] [DecidableLT K] (m : Int) : (intToK m : K) = ofInt m := rfl

/-- `output[0]` entry of the hand model. -/
def F0 [LT K] [DecidableLT K] (Y : List K) (l : Nat) (m : Int) : K := -(ofInt m) * Y.getD (rowIndex l (-m)) ((0 : Nat) : K)

theorem deriv_step_m_sim [LT K] [DecidableLT K] (ph : Nat → Int → K) (Y : List K) (N : Nat) (A B : List K) (l : Nat) (m : Int)
    (hAB : A.length = B.length) (hroom : A.length + 1 ≤ N) (hm : m.natAbs ≤ l) (hY : (l + 1) * (l + 1) ≤ Y.length) :
    deriv_step_m ph Y l (toD N A B) m = toD N (A ++ [F0 Y l m]) (B ++ [ph l m]) := by
  have hm' : (-m).natAbs ≤ l := by simpa using hm
  unfold deriv_step_m toD F0
  simp only [pyIdx_index_m, slice_getD Y l _ (indexM_le l (-m) hm'), intToK_eq, rowIndex]
  rw [GenTie.set_push A N _ hroom, hAB, GenTie.set_push B N _ (by omega)]
  simp [hAB]

theorem deriv_inner_sim [LT K] [DecidableLT K] (ph : Nat → Int → K) (Y : List K) (N : Nat) (l : Nat)
    (hY : (l + 1) * (l + 1) ≤ Y.length) (ms : List Int) :
    ∀ (A B : List K), A.length = B.length → A.length + ms.length ≤ N → (∀ m ∈ ms, m.natAbs ≤ l) →
    ms.foldl (deriv_step_m ph Y l) (toD N A B) = toD N (A ++ ms.map (F0 Y l)) (B ++ ms.map (ph l)) := by
  induction ms with
  | nil => intro A B _ _ _; simp
  | cons m ms ih =>
    intro A B hAB hroom hms
    rw [List.foldl_cons, deriv_step_m_sim ph Y N A B l m hAB (by simp at hroom; omega) (hms m (by simp)) hY,
      ih _ _ (by simp [hAB]) (by simp at hroom ⊢; omega) (fun m' h' => hms m' (by simp [h']))]
    simp

/-- `(l, m)` in row order for the degrees `< n`. -/
def pairs (n : Nat) : List (Nat × Int) := (List.range n).flatMap (fun l => (mValues l).map (fun m => (l, m)))

theorem pairs_length (n : Nat) : (pairs n).length = n * n := by
  cases n with
  | zero => rfl
  | succ L => exact lmOrder_length L

theorem pairs_succ (n : Nat) : pairs (n + 1) = pairs n ++ (mValues n).map (fun m => (n, m)) := by
  unfold pairs
  rw [List.range_succ, List.flatMap_append]
  simp

theorem deriv_outer_sim [LT K] [DecidableLT K] (ph : Nat → Int → K) (Y : List K) (L : Nat)
    (hY : (L + 1) * (L + 1) ≤ Y.length) (n : Nat) (hn : n ≤ L + 1) :
    (List.range' 0 n).foldl (deriv_step_l_val ph Y) (toD ((L + 1) ^ 2) [] []) =
      toD ((L + 1) ^ 2) ((pairs n).map (fun lm => F0 Y lm.1 lm.2)) ((pairs n).map (fun lm => ph lm.1 lm.2)) := by
  induction n with
  | zero => simp [pairs]
  | succ n ih =>
    rw [List.range'_concat, List.foldl_append, ih (by omega)]
    simp only [List.foldl_cons, List.foldl_nil, Nat.zero_add, Nat.one_mul, deriv_step_l_val, m_values_eq]
    have hYn : (n + 1) * (n + 1) ≤ Y.length := le_trans (Nat.mul_le_mul (by omega) (by omega)) hY
    have hN : (n + 1) * (n + 1) ≤ (L + 1) ^ 2 := by
      rw [Nat.pow_two]; exact Nat.mul_le_mul (by omega) (by omega)
    rw [deriv_inner_sim ph Y _ n hYn (mValues n) _ _ (by simp) (by
      rw [List.length_map, pairs_length, mValues_length]
      have : n * n + (2 * n + 1) = (n + 1) * (n + 1) := by ring
      omega) (mValues_natAbs_le n)]
    rw [pairs_succ]
    simp [List.map_append, Function.comp_def]

/-- The generated derivative loop writes, in row order, `-m · Y[rowIndex l (-m)]` into `output[0]` and the
φ-entries it is handed into `output[1]`. -/
theorem deriv_eq [LT K] [DecidableLT K] (ph : Nat → Int → K) (Y : List K) (L : Nat) (hY : Y.length = (L + 1) * (L + 1)) :
    derivRows ph Y L = ((lmOrder L).map (fun lm => F0 Y lm.1 lm.2), (lmOrder L).map (fun lm => ph lm.1 lm.2)) := by
  unfold derivRows
  have h0 : ({ output_0 := zerosK ((L + 1) ^ 2), output_1 := zerosK ((L + 1) ^ 2), i_output := 0 } : DerivState K) =
      toD ((L + 1) ^ 2) [] [] := by simp [toD]
  simp only [Nat.sub_zero]
  rw [h0, deriv_outer_sim ph Y L (by omega) (L + 1) (Nat.le_refl _)]
  have hl : (pairs (L + 1)).length = (L + 1) ^ 2 := by rw [pairs_length, Nat.pow_two]
  simp [toD, hl, zerosK]
  exact ⟨rfl, rfl⟩

theorem ylmCode_length_generic (L : Nat) (θ φ : K) : (ylmCode L θ φ).length = (L + 1) * (L + 1) := by
  unfold ylmCode ylmCodeSC
  rw [GenTie.runDegrees_eq_fold, GenTie.fold_rows_length]

theorem dYlm_eq_derivRows [LT K] [DecidableLT K] (f0 : K) (L : Nat) (θ φ : K) :
    dYlm L θ φ =
      derivRows (fun l m => (dEntry (ylmCode L θ φ) (ylmCodeSC L θ (Elem.abs (Elem.sin φ)) (Elem.cos φ)) θ φ l m).2)
        (ylm f0 L θ φ) L := by
  rw [GenTie.ylm_eq_ylmCode, deriv_eq _ _ L (ylmCode_length_generic L θ φ)]
  unfold dYlm
  simp only [List.map_map]
  refine Prod.ext ?_ ?_ <;> simp only <;> apply List.map_congr_left <;> intro lm _ <;> rfl

theorem pieces_eq [LT K] [DecidableLT K] (φ : K) (Y : List K) (l : Nat) (m : Int) (hm : m.natAbs ≤ l) :
    sign_sin_phi φ = signSinPhi φ ∧ cot_tangent φ = cotTangent φ ∧
    dphiFirst (sphHarmDegree Y l) φ m = absK m * cotTangent φ * Y.getD (rowIndex l m) ((0 : Nat) : K) := by
  have hc : (cot_tangent φ : K) = cotTangent φ := rfl
  refine ⟨rfl, hc, ?_⟩
  unfold dphiFirst
  rw [pyIdx_index_m, slice_getD Y l _ (indexM_le l m hm), hc]
  rfl

end generic

/-! ### `convert_cart_to_sph` (over ℝ: `r == 0` is `¬ 0 < r` because `r` is a square root) -/

theorem cartToSph_eq (p c : P3 ℝ) : Gen.Harmonics.cartToSph p c = Harmonics.cartToSph p c := by
  unfold Gen.Harmonics.cartToSph Harmonics.cartToSph
  simp only [Elem.sqrt, Elem.arccos, Elem.arctan2, Nat.cast_zero]
  have h0 := Real.sqrt_nonneg ((p.1 - c.1) * (p.1 - c.1) + (p.2.1 - c.2.1) * (p.2.1 - c.2.1) + (p.2.2 - c.2.2) * (p.2.2 - c.2.2))
  by_cases h : 0 < Real.sqrt ((p.1 - c.1) * (p.1 - c.1) + (p.2.1 - c.2.1) * (p.2.1 - c.2.1) + (p.2.2 - c.2.2) * (p.2.2 - c.2.2))
  · have : ¬ eqK (Real.sqrt ((p.1 - c.1) * (p.1 - c.1) + (p.2.1 - c.2.1) * (p.2.1 - c.2.1) + (p.2.2 - c.2.2) * (p.2.2 - c.2.2))) 0 := by
      unfold eqK; exact fun h' => h' (Or.inr h)
    simp [h, this]
  · have : eqK (Real.sqrt ((p.1 - c.1) * (p.1 - c.1) + (p.2.1 - c.2.1) * (p.2.1 - c.2.1) + (p.2.2 - c.2.2) * (p.2.2 - c.2.2))) 0 := by
      unfold eqK
      rintro (h1 | h1)
      · exact absurd h1 (not_lt.mpr h0)
      · exact h h1
    simp [h, this]


theorem fac_real (l : ℕ) (m : ℤ) :
    (Gen.Harmonics.fac l m : ℝ) = Elem.sqrt (((l : ℝ) - absK m) * ((l : ℝ) + absK m + ((1 : ℕ) : ℝ))) := by
  unfold Gen.Harmonics.fac absK
  congr 1
  push_cast
  ring

end GridVerif.C08.GenTie

namespace GridVerif.C08
open GridVerif.Harmonics GridVerif.GenBase Real

/-- **Tie (i).** The text generated from `generate_real_spherical_harmonics` — in-place update of the two
Legendre columns, running factorial, stores into the output array at the row counter `i_sph`, `sqrt(2)`, cosine
row before sine row — returns the rows of the hand model `ylmCode`, for every `l_max`, all angles, over every scalar
type `K` (ℝ for the theorems, `Float` in the driver), whatever value `factorial0` stands for the not-yet-bound
Python variable `factorial`. -/
theorem gen_ylm_eq_model {K : Type} [Add K] [Sub K] [Mul K] [Div K] [Neg K] [NatCast K] [Elem K]
    (factorial0 : K) (L : ℕ) (θ φ : K) :
    Gen.Harmonics.ylm factorial0 L θ φ = ylmCode L θ φ :=
  GenTie.ylm_eq_ylmCode factorial0 L θ φ

example : Gen.Harmonics.ylm (7 : ℝ) 3 1 2 = ylmCode 3 (1 : ℝ) 2 := gen_ylm_eq_model 7 3 1 2

/-- **Tie (i′): `ylm_rows_spec` restated over the generated text.** For every `l_max = L` the generated routine
returns `(L+1)²` rows and row `rowIndex l m` (`l² + 2m − 1` for `m > 0`, `l² + 2|m|` otherwise — the bookkeeping
of `i_sph`) is `√((2l+1)/4π) · [1 | √2 cos mθ | √2 sin|m|θ] · P_l^{|m|} / F_{l,|m|}`. -/
theorem gen_ylm_rows_spec (factorial0 : ℝ) (L : ℕ) (θ φ : ℝ) :
    (Gen.Harmonics.ylm factorial0 L θ φ).length = (L + 1) * (L + 1) ∧
    ∀ l m, l ≤ L → Int.natAbs m ≤ l →
      (Gen.Harmonics.ylm factorial0 L θ φ)[rowIndex l m]? = some (ylmSpec (sin φ) (cos φ) θ l m) := by
  rw [gen_ylm_eq_model]
  exact ⟨ylmCode_length L θ φ, fun l m hl hm => ylmCode_getElem? L θ φ l m hl hm⟩

example (θ φ : ℝ) : (Gen.Harmonics.ylm 0 4 θ φ).length = 25 := (gen_ylm_rows_spec 0 4 θ φ).1

/-- **Tie (v).** The generated `solid_harmonics` (degree list `[l] * (2l+1)`, scaling `r ** l · sqrt(4π/(2l+1))`)
is the hand model `solidHarmonics`, every scalar type. -/
theorem gen_solid_eq_model {K : Type} [Add K] [Sub K] [Mul K] [Div K] [Neg K] [NatCast K] [Elem K]
    (factorial0 : K) (L : ℕ) (r θ φ : K) :
    Gen.Harmonics.solid factorial0 L r θ φ = solidHarmonics L r θ φ :=
  GenTie.solid_eq_solidHarmonics factorial0 L r θ φ

example : Gen.Harmonics.solid (1 : ℝ) 2 3 1 2 = solidHarmonics 2 (3 : ℝ) 1 2 := gen_solid_eq_model 1 2 3 1 2

/-- **Tie (vi).** The generated `convert_cart_to_sph` (radius by the `np.linalg.norm` contract, `arccos(z/r)` with the
masked repair `phi[r == 0.0] = 0.0`, `arctan2(y, x)`, default centre the origin, shape guards `ndim = 2`,
`shape[1] = 3`, `len(center) = 3`) is the hand model `cartToSph` for every point and centre. -/
theorem gen_cart_to_sph_eq_model (p c : P3 ℝ) :
    Gen.Harmonics.cartToSph p c = cartToSph p c ∧
    Gen.Harmonics.centerOrOrigin (none : Option (P3 ℝ)) = (0, 0, 0) ∧
    Gen.Harmonics.centerOrOrigin (some c) = c ∧
    (∀ ndim shape1 : ℕ, Gen.Harmonics.cartToSphRejectsPoints ndim shape1 = false ↔ ndim = 2 ∧ shape1 = 3) ∧
    (∀ len : ℕ, Gen.Harmonics.cartToSphRejectsCenter len = false ↔ len = 3) := by
  refine ⟨GenTie.cartToSph_eq p c, ?_, rfl, ?_, ?_⟩
  · simp [Gen.Harmonics.centerOrOrigin]
  · intro a b; simp [Gen.Harmonics.cartToSphRejectsPoints]
  · intro a; simp [Gen.Harmonics.cartToSphRejectsCenter]

example : Gen.Harmonics.cartToSph ((1 : ℝ), (2 : ℝ), (3 : ℝ)) (0, 2, 5) = cartToSph (1, 2, 3) (0, 2, 5) :=
  (gen_cart_to_sph_eq_model _ _).1

/-- **Tie (vii).** The nine generated matrix entries of `convert_derivative_from_spherical_to_cartesian`, the two
thresholds `|r| < 1e-10`, `|phi| < 1e-10` with their column assignments in source order, and the final product are
the hand model `convJacobian` / `convDeriv`, every scalar type. -/
theorem gen_jacobian_eq_model {K : Type} [Add K] [Sub K] [Mul K] [Div K] [Neg K] [NatCast K] [Elem K]
    [LT K] [DecidableLT K] (dr dt dp r θ φ : K) :
    Gen.Harmonics.convJacobian r θ φ = convJacobian r θ φ ∧
    Gen.Harmonics.convDeriv dr dt dp r θ φ = convDeriv dr dt dp r θ φ :=
  ⟨GenTie.convJacobian_eq r θ φ, GenTie.convDeriv_eq dr dt dp r θ φ⟩

example (θ : ℝ) : Gen.Harmonics.convJacobian 2 θ (π / 2) = convJacobian 2 θ (π / 2) :=
  (gen_jacobian_eq_model 0 0 0 2 θ (π / 2)).1

/-- **Tie (iv): the derivative routine.** The generated loops of `generate_derivative_real_spherical_harmonics`
(`m_values`, `index_m`, the slice `sph_harm_vals[l² : (l+1)²]`, the store `output[0, i_output] = -float(m) ·
sph_harm_degree[index_m(-m)]`, the counter `i_output`), fed with the generated harmonics and — for `output[1]` — with
the φ-entries of the hand model `dEntry` (the statements with SciPy's complex `sph_harm_y` inside; their text is pinned
by the translator), return exactly `dYlm`; every scalar type.  So `dtheta_spec` is a statement about the generated
loop, and a change of `index_m`, of the order of `m_values` or of the `i_output` bookkeeping breaks this proof. -/
theorem gen_deriv_eq_model {K : Type} [Add K] [Sub K] [Mul K] [Div K] [Neg K] [NatCast K] [Elem K]
    [LT K] [DecidableLT K] (factorial0 : K) (L : ℕ) (θ φ : K) :
    Gen.Harmonics.derivHarmonics factorial0
      (fun l m => (dEntry (ylmCode L θ φ) (ylmCodeSC L θ (Elem.abs (Elem.sin φ)) (Elem.cos φ)) θ φ l m).2) L θ φ =
      dYlm L θ φ ∧
    (∀ l, Gen.Harmonics.m_values l = mValues l) ∧
    (∀ n m, pyIdx n (Gen.Harmonics.index_m m) = indexM m) := by
  refine ⟨?_, GenTie.m_values_eq, GenTie.pyIdx_index_m⟩
  unfold Gen.Harmonics.derivHarmonics
  exact (GenTie.dYlm_eq_derivRows factorial0 L θ φ).symm

example (θ φ : ℝ) : (Gen.Harmonics.derivHarmonics 1
    (fun l m => (dEntry (ylmCode 2 θ φ) (ylmCodeSC 2 θ (Elem.abs (Elem.sin φ)) (Elem.cos φ)) θ φ l m).2) 2 θ φ).1 =
    (dYlm 2 θ φ).1 := by rw [(gen_deriv_eq_model 1 2 θ φ).1]

/-- **Tie (iv′): the scalar pieces of the φ-derivative** as generated — `sign_sin_phi`, the cotangent with its `1e-10`
pole rule, the first term `|m| cot φ · sph_harm_degree[index_m(m)]`, the factor `√((l−|m|)(l+|m|+1))` — are the
corresponding sub-terms of the hand model `dEntry`. -/
theorem gen_deriv_pieces (φ : ℝ) (Y : List ℝ) (l : ℕ) (m : ℤ) (hm : Int.natAbs m ≤ l) :
    Gen.Harmonics.sign_sin_phi φ = signSinPhi φ ∧ Gen.Harmonics.cot_tangent φ = cotTangent φ ∧
    Gen.Harmonics.dphiFirst (Gen.Harmonics.sphHarmDegree Y l) φ m = absK m * cotTangent φ * Y.getD (rowIndex l m) 0 ∧
    (Gen.Harmonics.fac l m : ℝ) = √(((l : ℝ) - absK m) * ((l : ℝ) + absK m + 1)) := by
  obtain ⟨h1, h2, h3⟩ := GenTie.pieces_eq φ Y l m hm
  refine ⟨h1, h2, ?_, ?_⟩
  · rw [h3]; simp
  · rw [GenTie.fac_real]; simp [Elem.sqrt]

example (φ : ℝ) : Gen.Harmonics.cot_tangent φ = cotTangent φ := (gen_deriv_pieces φ [] 0 0 (by simp)).2.1

/-- **Recorded storage types.** In the source as it is, the running factor `factorial` (`√((l+m)!/(l−m)!)`, which
exceeds the float64 range beyond `l = 150`), the work array `p_leg`, the output array and `sin_phi`, `cos_phi` are
created with `dtype=np.longdouble`, and so is the degree array of `solid_harmonics`.  (A Float phenomenon: the
theorems over ℝ cannot see an overflow, the differential runs at `l_max ≥ 151` can.) -/
theorem accumulator_is_extended_precision :
    Gen.Harmonics.dtype .factorial = .longdouble ∧ Gen.Harmonics.dtype .p_leg = .longdouble ∧
    Gen.Harmonics.dtype .spherical_harm = .longdouble ∧ Gen.Harmonics.dtype .sin_phi = .longdouble ∧
    Gen.Harmonics.dtype .cos_phi = .longdouble ∧ Gen.Harmonics.solidDegreesDType = .longdouble ∧
    Gen.Harmonics.derivOutputDType = .longdouble := by
  decide

example : DType.rank .float64 < DType.rank (Gen.Harmonics.dtype .factorial) := by decide

end GridVerif.C08

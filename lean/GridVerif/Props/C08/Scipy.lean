/-
  C08 — `generate_real_spherical_harmonics_scipy`: tie of the *generated* definition
  `Gen/HarmonicsScipy.lean` (written by `harness/translate/harmonics.py` from the source on every run, statement by
  statement: guards, angle reduction, the call of SciPy's `sph_harm_y_all` as a named primitive, the phase array,
  the loop with its three stores into `total_sph`) to the hand model `ylmScipy`, and the clause
  "both implementations agree" over the generated text.
-/
import GridVerif.Gen.HarmonicsScipy
import GridVerif.Props.C08.Gen
import GridVerif.Lemmas.HarmonicsSym
import Mathlib.Analysis.SpecialFunctions.Trigonometric.Inverse

set_option linter.unusedSectionVars false

namespace GridVerif.C08.ScipyTie
open GridVerif.Harmonics GridVerif.GenBase GridVerif.SciPyBase GridVerif.Gen.HarmonicsScipy

/-! ### list lemmas about the slice store -/
section lists
variable {α : Type}

theorem setSlice_set_comm (vs : List α) : ∀ (A : List α) (j : Nat) (v : α) (s stop step : Nat), j < s →
    (setSlice A s stop step vs).set j v = setSlice (A.set j v) s stop step vs := by
  induction vs with
  | nil => intro A j v s stop step _; rfl
  | cons w ws ih =>
    intro A j v s stop step h
    simp only [setSlice]
    split
    · rw [ih _ _ _ _ _ _ (by omega), List.set_comm _ _ (by omega)]
    · rfl

theorem set_append_cons (P T : List α) (t v : α) : (P ++ t :: T).set P.length v = P ++ v :: T := by
  simp

/-- `A[p:stop:1] = vals` where the slice is the whole tail `T`. -/
theorem setSlice_fill (vals : List α) : ∀ (P T : List α) (stop : Nat), vals.length = T.length → stop = P.length + T.length →
    setSlice (P ++ T) P.length stop 1 vals = P ++ vals := by
  induction vals with
  | nil =>
    intro P T stop h _
    have : T = [] := List.length_eq_zero_iff.mp h.symm
    simp [setSlice, this]
  | cons v vs ih =>
    intro P T stop h hs
    obtain ⟨t, T', rfl⟩ : ∃ t T', T = t :: T' := by
      cases T with
      | nil => simp at h
      | cons t T' => exact ⟨t, T', rfl⟩
    simp only [List.length_cons] at h hs
    simp only [setSlice]
    rw [if_pos (by omega), set_append_cons]
    have e : P ++ v :: T' = (P ++ [v]) ++ T' := by simp
    have e2 : P.length + 1 = (P ++ [v]).length := by simp
    rw [e, e2, ih (P ++ [v]) T' stop (by omega) (by simp; omega)]
    simp

/-- the two interleaved stores `A[p:stop:2] = res`, `A[p+1:stop:2] = ims`. -/
theorem setSlice_interleave (res : List α) : ∀ (ims P T : List α) (stop : Nat), res.length = ims.length →
    2 * res.length ≤ T.length → P.length + 2 * res.length ≤ stop →
    setSlice (setSlice (P ++ T) P.length stop 2 res) (P.length + 1) stop 2 ims =
      P ++ (List.zipWith (fun a b => [a, b]) res ims).flatten ++ T.drop (2 * res.length) := by
  induction res with
  | nil =>
    intro ims P T stop h _ _
    have : ims = [] := List.length_eq_zero_iff.mp h.symm
    simp [setSlice, this]
  | cons r rs ih =>
    intro ims P T stop h hT hstop
    obtain ⟨i, is, rfl⟩ : ∃ i is, ims = i :: is := by
      cases ims with
      | nil => simp at h
      | cons i is => exact ⟨i, is, rfl⟩
    obtain ⟨t1, t2, T', rfl⟩ : ∃ t1 t2 T', T = t1 :: t2 :: T' := by
      match T, hT with
      | t1 :: t2 :: T', _ => exact ⟨t1, t2, T', rfl⟩
      | [_], h => simp at h; omega
      | [], h => simp at h
    simp only [List.length_cons] at h hT hstop
    simp only [setSlice]
    rw [if_pos (by omega), if_pos (by omega), setSlice_set_comm _ _ _ _ _ _ _ (by omega), set_append_cons]
    have e : (P ++ r :: t2 :: T').set (P.length + 1) i = (P ++ [r, i]) ++ T' := by
      have : P ++ r :: t2 :: T' = (P ++ [r]) ++ t2 :: T' := by simp
      rw [this]
      have l1 : P.length + 1 = (P ++ [r]).length := by simp
      rw [l1, set_append_cons]
      simp
    have l2 : P.length + 2 = (P ++ [r, i]).length := by simp
    have l3 : P.length + 1 + 2 = (P ++ [r, i]).length + 1 := by simp
    rw [e, l2, l3, ih is (P ++ [r, i]) T' stop (by omega) (by omega) (by simp; omega)]
    have d : (t1 :: t2 :: T').drop (2 * (rs.length + 1)) = T'.drop (2 * rs.length) := by
      have : 2 * (rs.length + 1) = 2 * rs.length + 1 + 1 := by omega
      rw [this, List.drop_succ_cons, List.drop_succ_cons]
    simp only [List.length_cons, d]
    simp

theorem flatten_zipWith_pair {β : Type} (xs : List β) (f g : β → α) :
    (List.zipWith (fun a b => [a, b]) (xs.map f) (xs.map g)).flatten = xs.flatMap (fun k => [f k, g k]) := by
  induction xs with
  | nil => rfl
  | cons x xs ih => simp [List.flatMap_def]

theorem take_eq_map_getD (row : List α) (n : Nat) (d : α) (h : n ≤ row.length) :
    row.take n = (List.range n).map (fun k => row.getD k d) := by
  apply List.ext_getElem
  · simp [h]
  · intro i h1 h2
    simp at h1 h2
    simp [List.getD_eq_getElem?_getD, List.getElem?_eq_getElem (by omega : i < row.length)]

theorem getD_map_range {β : Type} (f : Nat → β) (n l : Nat) (d : β) (h : l < n) :
    ((List.range n).map f).getD l d = f l := by
  simp [List.getD_eq_getElem?_getD, h]

theorem range_succ_eq_cons (l : Nat) : List.range (l + 1) = 0 :: List.range' 1 l := by
  rw [List.range_eq_range', List.range'_succ]

theorem setSlice_length (vs : List α) : ∀ (A : List α) (s stop step : Nat), (setSlice A s stop step vs).length = A.length := by
  induction vs with
  | nil => intro A s stop step; rfl
  | cons w ws ih =>
    intro A s stop step
    simp only [setSlice]
    split
    · rw [ih, List.length_set]
    · rfl

theorem sliceCount_first (N a l : Nat) (h : a + 2 * l + 1 ≤ N) : sliceCount N (a + 1) (a + 2 * l + 1) 2 = l := by
  unfold sliceCount
  simp only [Nat.min_eq_left h]
  split <;> omega

theorem sliceCount_second (N a l : Nat) (h : a + 2 * l + 1 ≤ N) : sliceCount N (a + 2) (a + 2 * l + 1) 2 = l := by
  unfold sliceCount
  simp only [Nat.min_eq_left h]
  split <;> omega

theorem sliceCount_tail (n : Nat) : sliceCount (n + 1) 1 (n + 1) 1 = n := by
  unfold sliceCount
  simp only [Nat.min_self]
  split
  · rw [Nat.div_one]; omega
  · omega

end lists

/-! ### the generated loop (every scalar type) -/
section generic
variable {K : Type} [Add K] [Sub K] [Mul K] [Div K] [Neg K] [NatCast K] [Elem K]

/-- `phase_cor_pos` as a list. -/
def phaseList (L : Nat) : List K := (List.range (L + 1)).map scipyPhase

/-- The generated construction of `phase_cor_pos` (`np.ones`, then the store `[1:] = √2 · (-1.0) ** arange(1, l_max+1)`
under `if l_max > 0`) is `[1, -√2, √2, …]`. -/
theorem gen_phase (L : Nat) :
    (if L > 0 then
        setSlice (onesK (L + 1) : List K) 1 (onesK (L + 1) : List K).length 1
          ((List.range' 1 ((L + 1) - 1)).map
            (fun (i_ : Nat) => ((Elem.sqrt ((2 : Nat) : K)) * (npow (-((1 : Nat) : K)) i_))))
      else onesK (L + 1)) = phaseList L := by
  unfold phaseList
  rw [range_succ_eq_cons, List.map_cons]
  have h0 : (scipyPhase 0 : K) = ((1 : Nat) : K) := by simp [scipyPhase]
  have hk : (List.range' 1 L).map (scipyPhase : Nat → K) =
      (List.range' 1 L).map (fun (i_ : Nat) => ((Elem.sqrt ((2 : Nat) : K)) * (npow (-((1 : Nat) : K)) i_))) := by
    apply List.map_congr_left
    intro k hk
    have : k ≠ 0 := by
      have := (List.mem_range'_1.mp hk).1
      omega
    simp [scipyPhase, this]
  by_cases hL : L > 0
  · rw [if_pos hL, h0, hk, Nat.add_sub_cancel]
    have e : (onesK (L + 1) : List K) = [((1 : Nat) : K)] ++ List.replicate L ((1 : Nat) : K) := by
      simp [onesK, List.replicate_succ]
    rw [e]
    exact setSlice_fill _ [((1 : Nat) : K)] _ _ (by simp) (by simp; omega)
  · have : L = 0 := by omega
    subst this
    simp [onesK, h0]

theorem phaseList_take (L l : Nat) (h : l ≤ L) :
    (phaseList L : List K).take (l + 1) = (List.range (l + 1)).map scipyPhase := by
  unfold phaseList
  rw [← List.map_take, List.take_range, Nat.min_eq_left (by omega)]

/-- `z_k = table[l][k] · phase_k`. -/
def zOf (tbl : List (List (K × K))) (l k : Nat) : K × K :=
  cmulR ((tbl.getD l []).getD k (((0 : Nat) : K), ((0 : Nat) : K))) (scipyPhase k)

theorem scipyDegRows_eq (tbl : List (List (K × K))) (l : Nat) :
    scipyDegRows tbl l = (zOf tbl l 0).1 :: (List.range' 1 l).flatMap (fun k => [(zOf tbl l k).1, (zOf tbl l k).2]) := rfl

theorem scipyDegRows_length (tbl : List (List (K × K))) (l : Nat) : (scipyDegRows tbl l).length = 2 * l + 1 := by
  rw [scipyDegRows_eq, List.length_cons, List.length_flatMap]
  simp
  omega

theorem sdp_eq (tbl : List (List (K × K))) (L l : Nat) (hl : l ≤ L) (hrow : l + 1 ≤ (tbl.getD l []).length) :
    List.zipWith cmulR ((tbl.getD l []).take (l + 1)) ((phaseList L : List K).take (l + 1)) =
      (List.range (l + 1)).map (zOf tbl l) := by
  rw [phaseList_take L l hl, take_eq_map_getD _ _ (((0 : Nat) : K), ((0 : Nat) : K)) hrow, List.zipWith_map,
    List.zipWith_self]
  rfl

/-- One pass of the generated loop body: the rows of degree `l` are appended to the rows written so far. -/
theorem step_eq (tbl : List (List (K × K))) (L l : Nat) (hl : l ≤ L) (hrow : l + 1 ≤ (tbl.getD l []).length)
    (R : List K) (hR : R.length = l ^ 2) (N : Nat) (hN : (l + 1) ^ 2 ≤ N) (junk : K) :
    step_l_val tbl (phaseList L) (R ++ List.replicate (N - l ^ 2) junk) l =
      (R ++ scipyDegRows tbl l) ++ List.replicate (N - (l + 1) ^ 2) junk := by
  have hsq : (l + 1) ^ 2 = l ^ 2 + 2 * l + 1 := by ring
  unfold step_l_val
  simp only [sdp_eq tbl L l hl hrow]
  rw [range_succ_eq_cons]
  simp only [List.map_cons, List.getD_cons_zero, List.drop_succ_cons, List.drop_zero, List.map_map]
  obtain ⟨M, hM⟩ : ∃ M, N - l ^ 2 = (2 * l + M) + 1 := ⟨N - (l + 1) ^ 2, by omega⟩
  have hM' : N - (l + 1) ^ 2 = M := by omega
  rw [hM, hM', List.replicate_succ, ← hR, set_append_cons]
  have e1 : R ++ (zOf tbl l 0).1 :: List.replicate (2 * l + M) junk =
      (R ++ [(zOf tbl l 0).1]) ++ List.replicate (2 * l + M) junk := by simp
  have l1 : R.length + 1 = (R ++ [(zOf tbl l 0).1]).length := by simp
  have l2 : R.length + 2 = (R ++ [(zOf tbl l 0).1]).length + 1 := by simp
  rw [e1, l1, l2, setSlice_interleave _ _ _ _ _ (by simp) (by simp) (by simp; omega)]
  rw [flatten_zipWith_pair, scipyDegRows_eq]
  simp [Function.comp_def, List.drop_replicate]

/-- rows of the degrees `< n`. -/
def rowsUpTo (tbl : List (List (K × K))) (n : Nat) : List K := (List.range n).flatMap (scipyDegRows tbl)

theorem rowsUpTo_length (tbl : List (List (K × K))) (n : Nat) : (rowsUpTo tbl n).length = n ^ 2 := by
  induction n with
  | zero => rfl
  | succ n ih =>
    unfold rowsUpTo at *
    rw [List.range_succ, List.flatMap_append, List.length_append, ih]
    simp [scipyDegRows_length]
    ring

theorem fold_eq (tbl : List (List (K × K))) (L : Nat) (junk : K)
    (htbl : ∀ l, l ≤ L → l + 1 ≤ (tbl.getD l []).length) (n : Nat) (hn : n ≤ L + 1) :
    (List.range' 0 n).foldl (step_l_val tbl (phaseList L)) (emptyK ((L + 1) ^ 2) junk) =
      rowsUpTo tbl n ++ List.replicate ((L + 1) ^ 2 - n ^ 2) junk := by
  induction n with
  | zero => simp [rowsUpTo, emptyK]
  | succ n ih =>
    rw [List.range'_concat, List.foldl_append, ih (by omega)]
    simp only [List.foldl_cons, List.foldl_nil, Nat.zero_add, Nat.one_mul]
    have hN : (n + 1) ^ 2 ≤ (L + 1) ^ 2 := Nat.pow_le_pow_left hn 2
    rw [step_eq tbl L n (by omega) (htbl n (by omega)) _ (rowsUpTo_length tbl n) _ hN]
    unfold rowsUpTo
    rw [List.range_succ, List.flatMap_append]
    simp

theorem sph_harm_y_all_row_length (n m : Nat) (phi theta : K) (l : Nat) (hl : l ≤ n) :
    ((sph_harm_y_all n m phi theta).getD l []).length = 2 * m + 1 := by
  unfold sph_harm_y_all
  simp only []
  rw [getD_map_range _ _ _ _ (by omega)]
  simp
  omega

/-- The shape requirements of the loop body hold whenever the table, the phase array and the output array are large enough. -/
theorem step_fits (tbl : List (List (K × K))) (ph T : List K) (l : Nat) (hl : l < tbl.length)
    (hrow : l + 1 ≤ (tbl.getD l []).length) (hph : l + 1 ≤ ph.length) (hT : (l + 1) ^ 2 ≤ T.length) :
    step_l_val_fits tbl ph T l = true := by
  have hsq : (l + 1) ^ 2 = l ^ 2 + 2 * l + 1 := by ring
  unfold step_l_val_fits
  simp only [Bool.true_and, Bool.and_eq_true, decide_eq_true_eq, List.length_zipWith, List.length_take, List.length_map,
    List.length_drop, List.length_set, setSlice_length, hsq]
  rw [sliceCount_first _ _ _ (by omega), sliceCount_second _ _ _ (by omega)]
  omega

theorem sph_harm_y_all_length (n m : Nat) (phi theta : K) : (sph_harm_y_all n m phi theta).length = n + 1 := by
  simp [sph_harm_y_all]

theorem phaseList_length (L : Nat) : (phaseList L : List K).length = L + 1 := by simp [phaseList]

variable [LT K] [DecidableLT K]

/-- **The generated routine equals the hand model**, every scalar type, whatever `np.empty` contains and
whatever the flag `np.any(outside)` is, as long as it is `True` when the point itself is outside. -/
theorem ylm_scipy_eq (junk : K) (any : Bool) (L : Nat) (θ φ : K)
    (hany : (decide (φ < ((0 : Nat) : K)) || decide (Elem.pi < φ)) = true → any = true) :
    ylm_scipy junk any L θ φ = ylmScipy L θ φ := by
  have hang : (if any = true then
        ((if ((decide (φ < ((0 : Nat) : K)) || decide (Elem.pi < φ)) && decide ((Elem.sin φ) < ((0 : Nat) : K))) = true
            then (θ + Elem.pi) else θ),
          (if (decide (φ < ((0 : Nat) : K)) || decide (Elem.pi < φ)) = true then
            (Elem.arctan2 (Elem.abs (Elem.sin φ)) (Elem.cos φ)) else φ))
      else (θ, φ)) = scipyAngles θ φ := by
    unfold scipyAngles
    cases hA : any
    · have ho : (decide (φ < ((0 : Nat) : K)) || decide (Elem.pi < φ)) = false := by
        cases h : (decide (φ < ((0 : Nat) : K)) || decide (Elem.pi < φ))
        · rfl
        · rw [hany h] at hA; cases hA
      simp [ho]
    · simp
  unfold ylm_scipy ylmScipy
  simp only [hang, gen_phase, Nat.sub_zero]
  rw [fold_eq _ L junk (fun l hl => by rw [sph_harm_y_all_row_length _ _ _ _ _ hl]; omega) (L + 1) (Nat.le_refl _)]
  simp [rowsUpTo]

/-- Every shape requirement of the generated text holds (no store or product relies on a default). -/
theorem ylm_scipy_fits_true (junk : K) (any : Bool) (L : Nat) (θ φ : K) : ylm_scipy_fits junk any L θ φ = true := by
  unfold ylm_scipy_fits
  simp only [gen_phase, Nat.sub_zero, Bool.true_and, ite_self, Bool.and_eq_true, List.all_eq_true]
  refine ⟨?_, ?_⟩
  · split
    · simp only [decide_eq_true_eq, List.length_map, List.length_range', onesK, List.length_replicate,
        Nat.add_sub_cancel]
      exact sliceCount_tail L
    · rfl
  · intro l hl
    have hl' : l ≤ L := by
      have := (List.mem_range'_1.mp hl).2
      omega
    have hN : (l + 1) ^ 2 ≤ (L + 1) ^ 2 := Nat.pow_le_pow_left (by omega) 2
    refine step_fits _ _ _ l ?_ ?_ ?_ ?_
    · rw [sph_harm_y_all_length]; omega
    · rw [sph_harm_y_all_row_length _ _ _ _ _ hl']; omega
    · rw [phaseList_length]; omega
    · simpa [emptyK] using hN

end generic

/-! ### the hand model against the recursion (over ℝ, under the SciPy contract) -/
section real
open Real

theorem negOnePow_real (k : ℕ) : (negOnePow (k : ℤ) : ℝ) = (-1) ^ k := by
  unfold negOnePow
  rcases Nat.even_or_odd k with h | h
  · have : (k : ℤ) % 2 = 0 := by obtain ⟨j, rfl⟩ := h; omega
    rw [if_pos this, h.neg_one_pow]; simp
  · have : ¬ (k : ℤ) % 2 = 0 := by obtain ⟨j, rfl⟩ := h; omega
    rw [if_neg this, h.neg_one_pow]; simp

theorem scipyPhase_real (k : ℕ) (hk : k ≠ 0) : (scipyPhase k : ℝ) = √2 * (-1) ^ k := by
  simp [scipyPhase, hk, Elem.sqrt, npow_eq_pow]

theorem phase_cancel (k : ℕ) (y : ℝ) : (-1 : ℝ) ^ k / √2 * y * (√2 * (-1) ^ k) = y := by
  have h2 : (√2 : ℝ) ≠ 0 := by positivity
  have h1 : ((-1 : ℝ) ^ k) * ((-1) ^ k) = 1 := neg_one_pow_mul_self k
  field_simp
  linear_combination y * h1

/-- table entry `[l][k]`, `k ≤ m`, of the contract. -/
theorem sph_harm_y_all_getD (n m : ℕ) (φ θ : ℝ) (l k : ℕ) (hl : l ≤ n) (hk : k ≤ m) (d : ℝ × ℝ) :
    ((sph_harm_y_all n m φ θ).getD l []).getD k d =
      sphHarmYC (ylmCodeSC n θ (Elem.abs (Elem.sin φ)) (Elem.cos φ)) l k := by
  unfold sph_harm_y_all
  simp only []
  rw [getD_map_range _ _ _ _ (by omega), List.getD_eq_getElem?_getD, List.getElem?_append_left (by simp; omega),
    ← List.getD_eq_getElem?_getD, getD_map_range _ _ _ _ (by omega)]

/-- the rows of one degree of the hand model are the rows of the recursion at `(θ, |sin φ|, cos φ)`. -/
theorem scipyDegRows_real (L : ℕ) (θ φ : ℝ) (l : ℕ) (hl : l ≤ L) :
    scipyDegRows (sph_harm_y_all L L φ θ) l =
      (mValues l).map (fun m => ylmSpec |sin φ| (cos φ) θ l m) := by
  have hY : ∀ m : ℤ, m.natAbs ≤ l →
      (ylmCodeSC L θ (Elem.abs (Elem.sin φ)) (Elem.cos φ)).getD (rowIndex l m) (((0 : ℕ) : ℝ)) =
        ylmSpec |sin φ| (cos φ) θ l m := fun m hm => ylmCodeSC_getD L θ _ _ l m hl hm _
  rw [scipyDegRows_eq]
  unfold mValues
  rw [List.map_cons, List.map_flatMap]
  congr 1
  · unfold zOf
    rw [sph_harm_y_all_getD L L φ θ l 0 hl (Nat.zero_le _)]
    simp only [sphHarmYC, ↓reduceIte, cmulR, scipyPhase, Nat.cast_one, mul_one]
    exact hY 0 (by simp)
  · apply List.flatMap_congr
    intro k hk
    obtain ⟨hk1, hk2⟩ := List.mem_range'_1.mp hk
    have hk0 : k ≠ 0 := by omega
    have hkl : k ≤ l := by omega
    unfold zOf
    rw [sph_harm_y_all_getD L L φ θ l k hl (by omega)]
    simp only [sphHarmYC, hk0, ↓reduceIte, sphHarmY, hkl, cmulR, scipyPhase_real k hk0, negOnePow_real, Elem.sqrt,
      Nat.cast_ofNat, List.map_cons, List.map_nil]
    rw [hY (k : ℤ) (by simpa using hkl), hY (-(k : ℤ)) (by simpa using hkl), phase_cancel, phase_cancel]

theorem ylmScipy_rows (L : ℕ) (θ φ : ℝ) :
    (List.range (L + 1)).flatMap (scipyDegRows (sph_harm_y_all L L φ θ)) = ylmCodeSC L θ |sin φ| (cos φ) := by
  rw [ylmCodeSC_eq]
  unfold lmOrder
  rw [List.map_flatMap]
  apply List.flatMap_congr
  intro l hl
  rw [scipyDegRows_real L θ φ l (by simpa using List.mem_range.mp hl |> Nat.lt_succ_iff.mp), List.map_map]
  rfl

/-- `arctan2(|sin φ|, cos φ) = arccos(cos φ)`: the argument of the point `(cos φ, |sin φ|)` of the upper unit half circle. -/
theorem arctan2_abs_sin_cos (φ : ℝ) : Complex.arg ⟨cos φ, |sin φ|⟩ = arccos (cos φ) := by
  have hn : ‖(⟨cos φ, |sin φ|⟩ : ℂ)‖ = 1 := by
    rw [Complex.norm_def, Complex.normSq_mk, ← sq, ← sq, sq_abs, Real.cos_sq_add_sin_sq, Real.sqrt_one]
  have hz : (⟨cos φ, |sin φ|⟩ : ℂ) ≠ 0 := by
    intro h; rw [h, norm_zero] at hn; exact zero_ne_one hn
  rw [Complex.arg_of_im_nonneg_of_ne_zero (abs_nonneg _) hz, hn, div_one]

/-- the reduced angles address the same point of the sphere: the rows of the recursion do not change. -/
theorem scipyAngles_rows (θ φ : ℝ) (l : ℕ) (m : ℤ) :
    ylmSpec |sin (scipyAngles θ φ).2| (cos (scipyAngles θ φ).2) (scipyAngles θ φ).1 l m =
      ylmSpec (sin φ) (cos φ) θ l m := by
  unfold scipyAngles
  simp only [Elem.pi, Elem.sin, Elem.cos, Elem.arctan2, Elem.abs, Nat.cast_zero, Bool.or_eq_true, decide_eq_true_eq,
    Bool.and_eq_true, arctan2_abs_sin_cos]
  by_cases ho : φ < 0 ∨ π < φ
  · have hc : cos (arccos (cos φ)) = cos φ := Real.cos_arccos (Real.neg_one_le_cos φ) (Real.cos_le_one φ)
    have hs : |sin (arccos (cos φ))| = |sin φ| := by
      rw [Real.sin_arccos, ← Real.sin_sq, Real.sqrt_sq_eq_abs, abs_abs]
    by_cases hsin : sin φ < 0
    · rw [if_pos ho, if_pos ⟨ho, hsin⟩, hc, hs, abs_of_neg hsin]
      exact ylmSpec_reparam _ _ _ _ _
    · rw [if_pos ho, if_neg (fun h => hsin h.2), hc, hs, abs_of_nonneg (not_lt.mp hsin)]
  · have h0 : 0 ≤ φ := by
      by_contra h; exact ho (Or.inl (not_le.mp h))
    have h1 : φ ≤ π := by
      by_contra h; exact ho (Or.inr (not_le.mp h))
    rw [if_neg ho, if_neg (fun h => ho h.1), abs_of_nonneg (Real.sin_nonneg_of_nonneg_of_le_pi h0 h1)]

/-- **Hand model = recursion**, all `l_max`, all angles. -/
theorem ylmScipy_eq_ylmCode (L : ℕ) (θ φ : ℝ) : ylmScipy L θ φ = ylmCode L θ φ := by
  unfold ylmScipy
  simp only []
  rw [ylmScipy_rows, ylmCodeSC_eq, ylmCode_eq]
  apply List.map_congr_left
  intro lm _
  exact scipyAngles_rows θ φ lm.1 lm.2

end real

end GridVerif.C08.ScipyTie

namespace GridVerif.C08
open GridVerif.Harmonics GridVerif.GenBase GridVerif.SciPyBase Real

/-- **Tie (xi): the SciPy-based routine, statement by statement.** The text generated from
`generate_real_spherical_harmonics_scipy` — `outside = (phi < 0) | (phi > np.pi)`, the two `np.where` under
`if np.any(outside)` (the second one `arctan2(|sin φ|, cos φ)`), the call `sph_harm_y_all(l_max, l_max, phi, theta)` (named primitive), `phase_cor_pos = ones`,
`phase_cor_pos[1:] = sqrt(2) · (-1.0) ** arange(1, l_max+1)` under `if l_max > 0`, `total_sph = np.empty(…)`, and the loop
with `row_start = l²`, `row_end = (l+1)²` and the three stores `[row_start] = z₀.real`, `[row_start+1 : row_end : 2] = z[1:].real`,
`[row_start+2 : row_end : 2] = z[1:].imag` — returns the rows of the hand model `ylmScipy` (`Re z₀, Re z₁, Im z₁, …` per
degree), for every `l_max`, every scalar type (`Float` in the driver), whatever `np.empty` contains (`junk`) and whatever the
reduction `np.any(outside)` over the *other* points is (`any`), provided it is `True` when this point is outside. -/
theorem gen_scipy_eq_model {K : Type} [Add K] [Sub K] [Mul K] [Div K] [Neg K] [NatCast K] [Elem K] [LT K] [DecidableLT K]
    (junk : K) (any : Bool) (L : ℕ) (θ φ : K)
    (hany : (decide (φ < ((0 : ℕ) : K)) || decide (Elem.pi < φ)) = true → any = true) :
    Gen.HarmonicsScipy.ylm_scipy junk any L θ φ = ylmScipy L θ φ :=
  ScipyTie.ylm_scipy_eq junk any L θ φ hany

example : Gen.HarmonicsScipy.ylm_scipy (7 : ℝ) true 3 1 2 = ylmScipy 3 (1 : ℝ) 2 :=
  gen_scipy_eq_model 7 true 3 1 2 (fun _ => rfl)

/-- **Tie (xi′): guards, shapes, storage types of the generated text.** The three guards reject exactly `l_max < 0`,
`theta.shape ≠ phi.shape`, `ndim ≠ 1`; every shape requirement NumPy would raise on (the broadcast
`sph_vals[l, :l+1] * phase_cor_pos[:l+1, None]`, the index `[0]`, the row index `row_start`, the two strided stores: the
slice `row_start+1 : row_end : 2` addresses exactly `l` rows, and so does `row_start+2 : row_end : 2`; the store
`phase_cor_pos[1:]` addresses `l_max` entries) holds for every `l_max`, so no store of the model relies on a default;
`phase_cor_pos` and `total_sph` are float64 arrays. -/
theorem gen_scipy_guards_and_shapes {K : Type} [Add K] [Sub K] [Mul K] [Div K] [Neg K] [NatCast K] [Elem K] [LT K]
    [DecidableLT K] (junk : K) (any : Bool) (L : ℕ) (θ φ : K) :
    (∀ l : ℤ, Gen.HarmonicsScipy.rejects_0 l = false ↔ 0 ≤ l) ∧
    (∀ a b : List ℕ, Gen.HarmonicsScipy.rejects_1 a b = false ↔ a = b) ∧
    (∀ a b : ℕ, Gen.HarmonicsScipy.rejects_2 a b = false ↔ a = 1 ∧ b = 1) ∧
    Gen.HarmonicsScipy.ylm_scipy_fits junk any L θ φ = true ∧
    Gen.HarmonicsScipy.dtype .phase_cor_pos = .float64 ∧ Gen.HarmonicsScipy.dtype .total_sph = .float64 := by
  refine ⟨fun l => ?_, fun a b => ?_, fun a b => ?_, ScipyTie.ylm_scipy_fits_true junk any L θ φ, rfl, rfl⟩
  · simp [Gen.HarmonicsScipy.rejects_0]
  · simp [Gen.HarmonicsScipy.rejects_1]
  · simp [Gen.HarmonicsScipy.rejects_2]

example : Gen.HarmonicsScipy.rejects_0 (-1) = true ∧ Gen.HarmonicsScipy.rejects_2 1 1 = false := by decide

/-- **"Both implementations agree", over the two generated texts, all `l_max`, all angles** (polar angles inside or outside
`[0, π]`, azimuth anywhere), under the contract for SciPy's `sph_harm_y_all` (`SciPyBase.sph_harm_y_all`: complex harmonics
with Condon–Shortley phase built from `cos φ`, `|sin φ|`; trusted, compared with SciPy on every run): the SciPy-based
routine returns exactly the rows of the recursion `generate_real_spherical_harmonics` — the phase `√2 (-1)^m` removes the
Condon–Shortley sign, real part ↦ row `(l, m)`, imaginary part ↦ row `(l, −m)`, in Horton-2 order, and the angle reduction
`(θ + π where sin φ < 0, arctan2(|sin φ|, cos φ))` addresses the same point of the sphere.  (A reduction that shifts the azimuth for
*every* outside angle — seeded change C08-b — or a swapped real/imaginary store makes this statement false.) -/
theorem scipy_agrees_with_recursion (junk factorial0 : ℝ) (any : Bool) (L : ℕ) (θ φ : ℝ)
    (hany : (φ < 0 ∨ π < φ) → any = true) :
    Gen.HarmonicsScipy.ylm_scipy junk any L θ φ = ylmCode L θ φ ∧
    Gen.HarmonicsScipy.ylm_scipy junk any L θ φ = Gen.Harmonics.ylm factorial0 L θ φ ∧
    ∀ l m, l ≤ L → Int.natAbs m ≤ l →
      (Gen.HarmonicsScipy.ylm_scipy junk any L θ φ)[rowIndex l m]? = some (ylmSpec (sin φ) (cos φ) θ l m) := by
  have h : Gen.HarmonicsScipy.ylm_scipy junk any L θ φ = ylmCode L θ φ := by
    rw [gen_scipy_eq_model junk any L θ φ (by
      intro ho
      apply hany
      simpa [Elem.pi] using ho), ScipyTie.ylmScipy_eq_ylmCode]
  refine ⟨h, ?_, fun l m hl hm => ?_⟩
  · rw [h, gen_ylm_eq_model]
  · rw [h]; exact ylmCode_getElem? L θ φ l m hl hm

example (θ : ℝ) : Gen.HarmonicsScipy.ylm_scipy 0 true 4 θ (-2) = ylmCode 4 θ (-2) :=
  (scipy_agrees_with_recursion 0 1 true 4 θ (-2) (fun _ => rfl)).1

/-- **The window of the angle reduction** (thresholds `phi < 0`, `phi > np.pi` of the regenerated text): inside `[0, π]`
— both end points included — the angles are passed on unchanged; outside, the polar angle becomes
`arctan2(|sin φ|, cos φ)` (the form of repair c2ff251, well-conditioned at the poles), which is `arccos(cos φ) ∈ [0, π]`,
and the azimuth is shifted by `π` exactly where `sin φ < 0` (so not for `φ ∈ (2π, 3π)`, `(−2π, −π)`, …). -/
theorem scipy_angle_window (θ φ : ℝ) :
    (0 ≤ φ → φ ≤ π → scipyAngles θ φ = (θ, φ)) ∧
    ((φ < 0 ∨ π < φ) → (scipyAngles θ φ).2 = arccos (cos φ) ∧ 0 ≤ (scipyAngles θ φ).2 ∧ (scipyAngles θ φ).2 ≤ π ∧
      (sin φ < 0 → (scipyAngles θ φ).1 = θ + π) ∧ (0 ≤ sin φ → (scipyAngles θ φ).1 = θ)) := by
  unfold scipyAngles
  simp only [Elem.pi, Elem.sin, Elem.cos, Elem.arctan2, Elem.abs, Nat.cast_zero, Bool.or_eq_true, decide_eq_true_eq,
    Bool.and_eq_true, ScipyTie.arctan2_abs_sin_cos]
  refine ⟨fun h0 h1 => ?_, fun ho => ?_⟩
  · have ho : ¬ (φ < 0 ∨ π < φ) := by
      rintro (h | h) <;> linarith
    rw [if_neg ho, if_neg (fun h => ho h.1)]
  · rw [if_pos ho]
    refine ⟨rfl, Real.arccos_nonneg _, Real.arccos_le_pi _, fun hs => ?_, fun hs => ?_⟩
    · rw [if_pos ⟨ho, hs⟩]
    · rw [if_neg (fun h => absurd h.2 (not_lt.mpr hs))]

example : scipyAngles (1 : ℝ) π = (1, π) := (scipy_angle_window 1 π).1 Real.pi_pos.le le_rfl

end GridVerif.C08

/-
  C08 (round 6) — clauses that only the input generators caught so far, as theorems over the *generated* text.

  * `gen_arguments_not_written`, `gen_points_axis_whole` — over `Gen/HarmonicsEffects.lean` (an AST certificate regenerated from
    `utils.py` on every run, written even when the statement-wise translators refuse the source): no routine of C08 writes in place
    through a name that may alias one of its arguments (seeded change C08-g: `r_pow = np.asarray(r, dtype=np.longdouble); r_pow *= r`
    makes `r_pow` both), and no routine reads or stores only a part of the points axis or derives a loop bound from the number of
    points (seeded change C08-h: blocks `phi[pts]`, `total_sph[row, pts]`, `range(n_pts // block)`).
  * `gen_scipy_column_independent`, `gen_scipy_split_additive` — the one cross-point quantity of
    `generate_real_spherical_harmonics_scipy`, the reduction `np.any(outside)`, does not couple the points: column `j` of the result is
    a function of `(θ_j, φ_j)` alone, and the result on a concatenation of two point sets is the concatenation of the results.
  * `gen_solid_rows_spec` — row `(l, m)` of the generated `solid_harmonics` is `√(4π/(2l+1)) r^l Y_lm`, every `l ≤ l_max`.
-/
import GridVerif.Gen.HarmonicsEffects
import GridVerif.Props.C08
import GridVerif.Props.C08.Scipy

namespace GridVerif.C08
open GridVerif.Harmonics GridVerif.GenBase GridVerif.SciPyBase GridVerif.Gen.HarmonicsEffects Real

/-- The certificate lists exactly the six routines the property anchors. -/
theorem gen_effects_routines :
    routines.map Routine.name =
      ["generate_real_spherical_harmonics_scipy", "generate_real_spherical_harmonics", "generate_derivative_real_spherical_harmonics",
        "solid_harmonics", "convert_derivative_from_spherical_to_cartesian", "convert_cart_to_sph"] := by
  decide

/-- **No routine writes through its arguments** (the clause "calls never modify the caller's data" for C08, and with it "a second call
on the same argument object gives the first answer"): in the source as it is, every name written in place (subscript store, augmented
assignment, `out=`, mutating method) is bound to a freshly created array — none of them may refer to an argument or to a view of one
(`.T`, a subscript, `np.asarray` with or without `dtype=`, reshape / ravel …). -/
theorem gen_arguments_not_written : ∀ r ∈ routines, ∀ w ∈ r.writtenInPlace, w ∉ r.mayAliasArgument := by
  decide

/-- **Every access covers the whole points axis**: no routine subscripts the angle arrays, indexes the last axis of an array shaped
`(…, number of points)` with anything but `:`, or uses the number of points outside an array shape.  Together with the per-point
translation (every remaining operation is element-wise in the points) this is "column `j` depends only on point `j`". -/
theorem gen_points_axis_whole : ∀ r ∈ routines, r.partialPointsAccess = [] := by
  decide

example : (routines.map Routine.writtenInPlace).flatten.length = 11 := by decide

section points
variable {K : Type} [Add K] [Sub K] [Mul K] [Div K] [Neg K] [NatCast K] [Elem K] [LT K] [DecidableLT K]

/-- `outside` of the routine at one point. -/
def isOutside (φ : K) : Bool := decide (φ < ((0 : ℕ) : K)) || decide (Elem.pi < φ)

/-- `generate_real_spherical_harmonics_scipy(l_max, theta, phi)` on a whole array of points `(θ_j, φ_j)`: the columns of the result, each
computed by the generated one-point text with the flag `np.any(outside)` of the *whole* array. -/
def scipyOnPoints (junk : K) (L : ℕ) (pts : List (K × K)) : List (List K) :=
  pts.map (fun q => Gen.HarmonicsScipy.ylm_scipy junk (pts.any (fun q' => isOutside q'.2)) L q.1 q.2)

/-- **Independence.** Column `j` of the SciPy-based routine depends on `(θ_j, φ_j)` only — not on the other points, their number or
their order (which enter the source through `np.any(outside)`), nor on the content of `np.empty`. -/
theorem gen_scipy_column_independent (junk : K) (L : ℕ) (pts : List (K × K)) :
    scipyOnPoints junk L pts = pts.map (fun q => ylmScipy L q.1 q.2) := by
  unfold scipyOnPoints
  apply List.map_congr_left
  intro q hq
  refine gen_scipy_eq_model junk _ L q.1 q.2 (fun ho => ?_)
  exact List.any_eq_true.mpr ⟨q, hq, ho⟩

/-- **Additivity over a split of the points**: the answer on `a ++ b` is the answer on `a` followed by the answer on `b` (a loop over
blocks of points that drops a remainder violates this). -/
theorem gen_scipy_split_additive (junk : K) (L : ℕ) (a b : List (K × K)) :
    scipyOnPoints junk L (a ++ b) = scipyOnPoints junk L a ++ scipyOnPoints junk L b := by
  rw [gen_scipy_column_independent, gen_scipy_column_independent, gen_scipy_column_independent, List.map_append]

end points

example : scipyOnPoints (0 : ℝ) 2 [(1, 2), (3, -1)] = scipyOnPoints 0 2 [(1, 2)] ++ scipyOnPoints 0 2 [(3, -1)] :=
  gen_scipy_split_additive 0 2 [(1, 2)] [(3, -1)]

/-- **Solid harmonics, every degree, over the generated text**: row `(l, m)` of `solid_harmonics` is `√(4π/(2l+1)) · r^l · Y_lm` with `Y_lm`
the row of the recursion — for every `l ≤ l_max`, every `r` (also `r = 0`: `r^0 = 1`), all angles, whatever the unbound `factorial` holds. -/
theorem gen_solid_rows_spec (factorial0 : ℝ) (L : ℕ) (r θ φ : ℝ) (l : ℕ) (m : ℤ) (hl : l ≤ L) (hm : Int.natAbs m ≤ l) :
    (Gen.Harmonics.solid factorial0 L r θ φ)[rowIndex l m]? =
      some (√(4 * π / (2 * (l : ℝ) + 1)) * r ^ l * ylmSpec (sin φ) (cos φ) θ l m) := by
  rw [gen_solid_eq_model]
  obtain ⟨_, y, hy, hs⟩ := solid_spec L r θ φ l m hl hm
  rw [ylmCode_getElem? L θ φ l m hl hm] at hy
  rw [hs, ← Option.some.inj hy]

example (θ φ : ℝ) : (Gen.Harmonics.solid 1 4 0 θ φ)[rowIndex 0 0]? = some (√(4 * π / (2 * ((0 : ℕ) : ℝ) + 1)) * 0 ^ 0 * ylmSpec (sin φ) (cos φ) θ 0 0) :=
  gen_solid_rows_spec 1 4 0 θ φ 0 0 (by norm_num) (by decide)

end GridVerif.C08

/-
  C11 — periodic local grids contain every periodic image inside the sphere exactly once.

  Model: `Model/Periodic.lean` (hand-written; `Props/C11/Gen.lean` proves it equal to the
  definitions generated from periodicgrid.py, which differential runs compare with the
  implementation, harness/props/c11.py).  Definitions `Dual`, `PInv`, `IsImage` and helper lemmas:
  `Lemmas/PeriodicGrid.lean`, `Lemmas/Periodic.lean`.

  All statements are over ℝ^d (coordinate lists of length `d`), for any number `K ≤ d` of lattice
  vectors of any orientation or sign; the only assumption about the reciprocal vectors (an SVD
  pseudo-inverse in the code) is the duality contract `aₗ·bₖ = δₗₖ`, which is *proved* for the
  coded 1-D special case (`oned_dual`) and checked numerically on every generated lattice by
  the harness.  Exact arithmetic: ties `distance = radius` under rounding are outside.
-/
import GridVerif.Lemmas.PeriodicGrid
import Mathlib.Tactic.IntervalCases
import Mathlib.Tactic.NormNum
import Mathlib.Tactic.FieldSimp

set_option linter.unusedSectionVars false
set_option linter.unusedSimpArgs false
set_option linter.unnecessarySeqFocus false

namespace GridVerif.C11
open GridVerif.LocalGrid GridVerif.Periodic

/-- **Completeness core** (the box): if the translate `x − ilc@a` of a grid point lies within
`r` of `c`, every coefficient `ilcₖ` lies in the enumerated integer range
`⌈fminₖ − bₖ·c − r/sₖ⌉ … ⌊fmaxₖ − bₖ·c + r/sₖ⌋`
(Cauchy–Schwarz with `bₖ`, duality, `Int.ceil_le`, `Int.le_floor`). -/
theorem ilc_in_box (g : PGrid ℝ) (h : PInv g) (c : Point ℝ) (hc : c.length = g.dim) (r : ℝ)
    (hr : 0 ≤ r) (js : List Int) (hjs : js.length = g.realvecs.length) (x : Point ℝ)
    (hx : x ∈ g.points) (hin : inBall (vsub x (delta g.dim js g.realvecs)) c r) :
    js ∈ product (ilcRanges g c r) := by
  rw [mem_product]
  refine ⟨by rw [ilcRanges_length g h, hjs], ?_⟩
  intro k hk1 hk2
  have hk : k < g.realvecs.length := by rw [← hjs]; exact hk1
  have hkb : k < g.recivecs.length := by rw [h.dual.1]; exact hk
  rw [ilcRanges_getElem g h c r k hk, mem_intRange]
  have hxl := h.plen x hx
  have hdl := delta_length g.dim g.realvecs h.alen js
  have hbl := h.blen _ (List.getElem_mem hkb)
  set b := g.recivecs[k] with hb
  set dl := delta g.dim js g.realvecs with hdl'
  -- w = x − δ − c
  have hw : dot (vsub (vsub x dl) c) (vsub (vsub x dl) c) ≤ r * r := by
    rw [← dist2_eq_dot]; exact hin
  have hcs := abs_dot_le b _ r hr hw
  have hproj : dot (vsub (vsub x dl) c) b = dot x b - (js[k] : ℝ) - dot b c := by
    rw [dot_vsub_left _ _ _ (by simp [hxl, hdl, hc]), dot_vsub_left _ _ _ (by simp [hxl, hdl]),
      dot_delta g.dim g.realvecs g.recivecs h.dual h.alen js hjs k hkb, dot_comm c b]
  rw [hproj] at hcs
  have hbd := h.bounds x hx k (by rw [h.ilen]; exact hk) hkb
  -- r / s = ‖b‖ r  (‖b‖ > 0: `recivec_norm_pos`)
  have hsp : r / g.spacings[k]'(by rw [h.slen]; exact hk) = Real.sqrt (dot b b) * r := by
    rw [h.spacing k (by rw [h.slen]; exact hk) hkb]
    show r / (1 / Real.sqrt (dot b b)) = _
    rw [div_div_eq_mul_div, div_one]; ring
  rw [hsp]
  have habs := abs_le.mp hcs
  constructor
  · apply Int.ceil_le.mpr; linarith [hbd.1, habs.2]
  · apply Int.le_floor.mpr; linarith [hbd.2, habs.1]

/-- (C11, completeness) **Every** pair (grid point, integer lattice translation) whose
translated position lies within the radius is enumerated — for any number of lattice vectors
`K ≤ d` of any orientation or sign, wrapped or not, points inside or outside the cell, any
centre, any radius `r ≥ 0`. -/
theorem periodic_complete (g : PGrid ℝ) (h : PInv g) (c : Point ℝ) (hc : c.length = g.dim)
    (r : ℝ) (hr : 0 ≤ r) (e : List Int × Nat) (he : IsImage g c r e) :
    e ∈ entries g g.points c r := by
  obtain ⟨hlen, x, hx, hin⟩ := he
  rw [mem_entries]
  refine ⟨ilc_in_box g h c hc r hr e.1 hlen x (List.mem_of_getElem? hx) hin, ?_⟩
  rw [mem_ballQuery]
  refine ⟨x, hx, ?_⟩
  unfold inBall at hin ⊢
  rw [dist2_shift]; exact hin

/-- (C11, soundness) Every enumerated pair is such an image: the parent position is valid and
the translated position is within the radius. -/
theorem periodic_sound (g : PGrid ℝ) (h : PInv g) (c : Point ℝ) (r : ℝ) (e : List Int × Nat)
    (he : e ∈ entries g g.points c r) : IsImage g c r e := by
  rw [mem_entries] at he
  obtain ⟨h1, h2⟩ := he
  refine ⟨?_, ?_⟩
  · rw [((mem_product _ _).mp h1).1, ilcRanges_length g h]
  · obtain ⟨x, hx, hin⟩ := (mem_ballQuery _ _ _ _).mp h2
    refine ⟨x, hx, ?_⟩
    unfold inBall at hin ⊢
    rw [← dist2_shift]; exact hin

/-- (C11, each once) No pair (integer combination, parent position) is listed twice — whatever
tree is queried: the product of the integer ranges has no repetition and a ball query returns
each position once. -/
theorem periodic_nodup (g : PGrid ℝ) (tree : List (Point ℝ)) (c : Point ℝ) (r : ℝ) :
    (entries g tree c r).Nodup := by
  unfold entries
  rw [List.nodup_flatMap]
  constructor
  · intro ilc _
    exact List.Nodup.map_on (fun a _ b _ hab => (Prod.mk.inj hab).2) (ballQuery_spec' _ _ _)
  · refine List.Pairwise.imp ?_ (product_nodup _ (ilcRanges_nodup g c r))
    intro a b hab
    simp only [Function.onFun, List.disjoint_left, List.mem_map]
    rintro _ ⟨i, _, rfl⟩ ⟨j, _, h2⟩
    exact hab (Prod.mk.inj h2).1.symm

/-- (constructor) An accepted constructor call whose reciprocal vectors satisfy the duality
contract establishes the invariant — with or without wrapping, for points inside or outside
the cell. -/
theorem construct_inv {oned : Bool} {dim : Nat} {pts : List (Point ℝ)} {w : List ℝ}
    {realvecs reciParam : List (Point ℝ)} {wrap : Bool} {g : PGrid ℝ}
    (hc : construct oned dim pts w realvecs reciParam wrap = .ok g)
    (hd : Dual realvecs (recipOf oned realvecs reciParam))
    (hb : ∀ b ∈ recipOf oned realvecs reciParam, b.length = dim) : PInv g := by
  obtain ⟨ho, ha, _, hp, hw, p0, rest, hpts, hg⟩ := construct_ok hc
  subst hpts
  simp only at hg
  subst hg
  set reci := recipOf oned realvecs reciParam with hreci
  refine ⟨by simp at hw; simp [hw], ?_, ha, hb, by simp [hd.1], by simp [intervalsOf, hd.1], hd, ?_, ?_,
    Or.inl rfl, ho⟩
  · -- lengths of the stored points
    intro p' hp'
    obtain ⟨p, hpm, rfl⟩ := List.mem_map.mp hp'
    by_cases hwr : (wrap && !realvecs.isEmpty) = true
    · simp only [hwr, if_true]
      simp [hp p hpm, lincomb_length dim _ _ ha]
    · simp only [hwr]; exact hp p hpm
  · intro k hk hk'
    simp only [List.getElem_map]
    exact spacingOf_eq oned dim _ (hb _ (List.getElem_mem _)) ho
  · intro p' hp' k hk hk'
    obtain ⟨p, hpm, rfl⟩ := List.mem_map.mp hp'
    have hbd := intervalsOf_bounds reci
      (fun p b => if (wrap && !realvecs.isEmpty) = true then dot p b + shiftOf (dot p b) else dot p b)
      p0 rest p hpm k hk'
    by_cases hwr : (wrap && !realvecs.isEmpty) = true
    · simp only [hwr, if_true] at hbd ⊢
      rw [dot_wrap dim realvecs reci hd ha p (hp p hpm) (fun b => shiftOf (dot p b)) k hk']
      exact hbd
    · simp only [hwr] at hbd ⊢
      exact hbd

/-- (1-D special case) For 1-D array points and one non-zero lattice vector `[a]` the coded
reciprocal vector `1/a` satisfies the duality contract: no hypothesis is needed. -/
theorem oned_dual (a : ℝ) (ha : a ≠ 0) (param : List (Point ℝ)) :
    Dual [[a]] (recipOf true [[a]] param) ∧ ∀ b ∈ recipOf true [[a]] param, b.length = 1 := by
  have hr : recipOf true [[a]] param = [[1 / a]] := by simp [recipOf]
  rw [hr]
  refine ⟨⟨rfl, ?_⟩, by simp⟩
  intro k l hk hl
  have hk0 : k = 0 := by simpa using hk
  have hl0 : l = 0 := by simpa using hl
  subst hk0; subst hl0
  simp [ha]

/-- (C11, wrapping) With `wrap=True` and at least one lattice vector every stored point is the
given point plus an **integer** combination of lattice vectors (`−⌊p·bₖ⌋` along `aₖ`) and all
its fractional coordinates lie in `[0, 1)`; with `wrap=False` (or no lattice vector) the
points are stored unchanged.  (The model is functional: the caller's array is never written;
the harness checks that on the implementation.) -/
theorem wrap_spec {oned : Bool} {dim : Nat} {pts : List (Point ℝ)} {w : List ℝ}
    {realvecs reciParam : List (Point ℝ)} {wrap : Bool} {g : PGrid ℝ}
    (hc : construct oned dim pts w realvecs reciParam wrap = .ok g)
    (hd : Dual realvecs (recipOf oned realvecs reciParam)) :
    ((wrap && !realvecs.isEmpty) = false → g.points = pts) ∧
    ((wrap && !realvecs.isEmpty) = true →
      g.points = pts.map (fun p => vadd p (delta dim
        ((recipOf oned realvecs reciParam).map fun b => -⌊dot p b⌋) realvecs)) ∧
      ∀ p' ∈ g.points, ∀ b ∈ g.recivecs, 0 ≤ dot p' b ∧ dot p' b < 1) := by
  obtain ⟨ho, ha, _, hp, hw, p0, rest, hpts, hg⟩ := construct_ok hc
  subst hpts
  simp only at hg
  subst hg
  set reci := recipOf oned realvecs reciParam with hreci
  constructor
  · intro hwr
    simp [hwr]
  · intro hwr
    simp only [hwr, if_true]
    constructor
    · apply List.map_congr_left
      intro p _
      simp [delta, shiftOf, FloorCeil.floor, Function.comp_def]
    · intro p' hp' b hbm
      obtain ⟨p, hpm, rfl⟩ := List.mem_map.mp hp'
      obtain ⟨k, hk, rfl⟩ := List.getElem_of_mem hbm
      rw [dot_wrap dim realvecs reci hd ha p (hp p hpm) (fun b => shiftOf (dot p b)) k hk]
      simp only [shiftOf, FloorCeil.floor, Int.cast_neg]
      constructor
      · linarith [Int.floor_le (dot p reci[k])]
      · linarith [Int.lt_floor_add_one (dot p reci[k])]

/-! ### operations keep the invariant -/

theorem setPoints_inv (g : PGrid ℝ) (h : PInv g) (oned : Bool) (dim : Nat)
    (value : List (Point ℝ)) : PInv (setPoints g oned dim value).1 := by
  unfold setPoints
  split; · exact h
  rename_i hs
  have hs' := Decidable.not_not.mp hs
  simp only [Periodic.sameShape, Bool.and_eq_true, beq_iff_eq, List.all_eq_true] at hs'
  obtain ⟨⟨⟨_, hdim⟩, hlen⟩, hall⟩ := hs'
  split; · exact h
  rename_i p0 rest
  refine ⟨by simp [h.wlen, hlen], ?_, h.alen, h.blen, h.slen, by simp [intervalsOf, h.dual.1],
    h.dual, h.spacing, ?_, Or.inl rfl, h.onedDim⟩
  · intro p hp; rw [← hdim]; exact hall p hp
  · intro p hp k hk hk'
    exact intervalsOf_bounds g.recivecs (fun p b => dot p b) p0 rest p hp k hk'

theorem setWeights_inv (g : PGrid ℝ) (h : PInv g) (value : List ℝ) :
    PInv (setWeights g value).1 := by
  unfold setWeights
  split; · exact h
  rename_i hl
  have := Decidable.not_not.mp hl
  exact ⟨by simp [this, h.wlen], h.plen, h.alen, h.blen, h.slen, h.ilen, h.dual, h.spacing,
    h.bounds, h.tree, h.onedDim⟩

/-- (invariant) Every operation keeps the invariant. -/
theorem step_inv (g : PGrid ℝ) (h : PInv g) (op : POp ℝ) : PInv (Periodic.step g op).1 := by
  cases op with
  | query c r =>
    simp only [Periodic.step]
    refine ⟨h.wlen, h.plen, h.alen, h.blen, h.slen, h.ilen, h.dual, h.spacing, h.bounds, ?_,
      h.onedDim⟩
    show (getLocalgrid g c r).1 = none ∨ (getLocalgrid g c r).1 = some g.points
    rcases getLocalgrid_tree g h c r with h1 | h1 <;> rw [h1]
    · exact h.tree
    · exact Or.inr rfl
  | setPoints oned dim value => simp only [Periodic.step]; exact setPoints_inv g h oned dim value
  | setWeights value => simp only [Periodic.step]; exact setWeights_inv g h value
  | getItem idx => simp only [Periodic.step]; split <;> exact h

/-- (invariant, histories) … hence after every history of operations. -/
theorem pinv_history (g : PGrid ℝ) (h : PInv g) (ops : List (POp ℝ)) : PInv (Periodic.run g ops).1 := by
  induction ops generalizing g with
  | nil => exact h
  | cons op ops ih => simp only [Periodic.run]; exact ih _ (step_inv g h op)

/-! ### the local grid -/

/-- A correct periodic local grid around `c` with radius `r`: its entries are **exactly** the
pairs (integer combination `ilc`, parent position `i`) whose translate
`points[i] − ilc@realvecs` lies within `r` of `c`, **each once**; entry `k` stores that
translated position, the parent's weight and the parent's index. -/
def PCorrect (g : PGrid ℝ) (c : Point ℝ) (r : ℝ) (out : Out ℝ) : Prop :=
  ∃ (es : List (List Int × Nat)) (lp : List (Point ℝ)) (lw : List ℝ),
    out = .localGrid (es.map (·.2)) lp lw ∧ es.Nodup ∧ (∀ e, e ∈ es ↔ IsImage g c r e) ∧
    es.map (fun e => g.points[e.2]?.map fun x => vsub x (delta g.dim e.1 g.realvecs)) = lp.map some ∧
    es.map (fun e => g.weights[e.2]?) = lw.map some

/-- (C11) In a state satisfying the invariant, `get_localgrid` with an accepted centre and a
finite radius `r ≥ 0` returns a correct periodic local grid of the current points and weights,
and leaves the tree of the current points behind. -/
theorem getLocalgrid_spec (g : PGrid ℝ) (h : PInv g) (c : Centre ℝ) (c' : Point ℝ)
    (hc : Periodic.centreOf g c = some c') (r : ℝ) (hr : 0 ≤ r) :
    (getLocalgrid g c (.fin r)).1 = some g.points ∧
    PCorrect g c' r (getLocalgrid g c (.fin r)).2 := by
  have hcl := centreOf_length g h c c' hc
  set es := entries g g.points c' r with hes
  have hsound : ∀ e ∈ es, IsImage g c' r e := fun e he => periodic_sound g h c' r e he
  obtain ⟨lp, hlp⟩ := mapM_isSome (entryPoint g) es (fun e he => by
    obtain ⟨_, x, hx, _⟩ := hsound e he
    simp [entryPoint, hx])
  obtain ⟨lw, hlw⟩ := mapM_isSome (fun e : List Int × Nat => g.weights[e.2]?) es (fun e he => by
    obtain ⟨_, x, hx, _⟩ := hsound e he
    have : e.2 < g.weights.length := by
      rw [h.wlen]; exact (List.getElem?_eq_some_iff.mp hx).1
    simp [List.getElem?_eq_getElem this])
  have hr' : ¬ r < ((0 : Nat) : ℝ) := by simpa using hr
  have hq : getLocalgrid g c (.fin r) = (some g.points, .localGrid (es.map (·.2)) lp lw) := by
    unfold getLocalgrid
    simp only [hc, hr', if_false]
    rcases h.tree with h0 | h0 <;> simp only [h0, ← hes, hlp, hlw]
  rw [hq]
  refine ⟨rfl, es, lp, lw, rfl, periodic_nodup g g.points c' r, ?_, ?_, ?_⟩
  · intro e
    exact ⟨hsound e, periodic_complete g h c' hcl r hr e⟩
  · exact (mapM_option_eq_some_iff _ _ _).mp hlp
  · exact (mapM_option_eq_some_iff _ _ _).mp hlw

/-- (C11, every history) After **any** history of queries, reassignments of points and weights
and selections on a periodic grid whose constructor was accepted (duality contract for its
reciprocal vectors), the next query is answered correctly for the points the grid has now. -/
theorem periodic_localgrid_correct {oned : Bool} {dim : Nat} {pts : List (Point ℝ)} {w : List ℝ}
    {realvecs reciParam : List (Point ℝ)} {wrap : Bool} {g₀ : PGrid ℝ}
    (h₀ : construct oned dim pts w realvecs reciParam wrap = .ok g₀)
    (hd : Dual realvecs (recipOf oned realvecs reciParam))
    (hb : ∀ b ∈ recipOf oned realvecs reciParam, b.length = dim)
    (ops : List (POp ℝ)) (c : Centre ℝ) (c' : Point ℝ) (r : ℝ) :
    let g := (Periodic.run g₀ ops).1
    Periodic.centreOf g c = some c' → 0 ≤ r → PCorrect g c' r (getLocalgrid g c (.fin r)).2 := by
  intro g hc hr
  exact (getLocalgrid_spec g (pinv_history g₀ (construct_inv h₀ hd hb) ops) c c' hc r hr).2

/-- (C11, empty sphere) If no periodic image lies within the radius — whether the integer box
is empty or not — the answer is the empty local grid, not an error. -/
theorem periodic_empty_sphere (g : PGrid ℝ) (h : PInv g) (c : Centre ℝ) (c' : Point ℝ)
    (hc : Periodic.centreOf g c = some c') (r : ℝ) (hr : 0 ≤ r)
    (hempty : ∀ e, ¬ IsImage g c' r e) :
    (getLocalgrid g c (.fin r)).2 = .localGrid [] [] [] := by
  obtain ⟨_, es, lp, lw, hq, _, hmem, h1, h2⟩ := getLocalgrid_spec g h c c' hc r hr
  have : es = [] := List.eq_nil_iff_forall_not_mem.mpr (fun e he => hempty e ((hmem e).mp he))
  subst this
  rw [hq]
  simp only [List.map_nil] at h1 h2 ⊢
  have e1 : lp = [] := by simpa using h1.symm
  have e2 : lw = [] := by simpa using h2.symm
  rw [e1, e2]

/-- (rejected queries) a centre of the wrong shape, a negative radius, `inf` and NaN are
rejected with ValueError for every number of lattice vectors; the object is unchanged. -/
theorem periodic_query_rejects (g : PGrid ℝ) (c : Centre ℝ) (r : ℝ) :
    (Periodic.centreOf g c = none → ∀ rad, getLocalgrid g c rad = (g.tree, .error .valueError)) ∧
    (getLocalgrid g c .nan = (g.tree, .error .valueError)) ∧
    (getLocalgrid g c .inf = (g.tree, .error .valueError)) ∧
    (r < 0 → getLocalgrid g c (.fin r) = (g.tree, .error .valueError)) := by
  refine ⟨?_, ?_, ?_, ?_⟩
  · intro hc rad; unfold getLocalgrid; simp only [hc]
  · unfold getLocalgrid; split <;> rfl
  · unfold getLocalgrid; split <;> rfl
  · intro hr
    have hr' : r < ((0 : Nat) : ℝ) := by simpa using hr
    unfold getLocalgrid; split
    · rfl
    · simp only [hr', if_true]

/-! ### without lattice vectors: the plain grid of C10 -/

/-- The `Grid` object with the same points, weights and tree. -/
def plainState (g : PGrid ℝ) : State ℝ :=
  { cls := .grid, oned := g.oned, dim := g.dim, stored := g.points, centre := none,
    weights := g.weights, tree := g.tree, domain := none }

/-- (C11, no lattice vector) Without lattice vectors the class answers every query with a
finite radius — accepted or rejected — exactly as the plain `Grid` of C10 with the same
points, weights and tree does.  (Finite radii are the documented domain of
`PeriodicGrid.get_localgrid`: `inf` is rejected for every number of lattice vectors, see
`periodic_query_rejects`.) -/
theorem no_lattice_is_grid (g : PGrid ℝ) (h : PInv g) (hk : g.realvecs = []) (hn : g.points ≠ [])
    (c : Centre ℝ) (r : ℝ) :
    getLocalgrid g c (.fin r) = LocalGrid.query (plainState g) c (.fin r) := by
  have hcen : LocalGrid.centreOf (plainState g) c = Periodic.centreOf g c := by
    cases c <;> rfl
  have hwl : (plainState g).weights.length ≠ 0 := by
    show g.weights.length ≠ 0
    rw [h.wlen]; exact fun h0 => hn (List.length_eq_zero_iff.mp h0)
  cases hc : Periodic.centreOf g c with
  | none =>
    unfold getLocalgrid LocalGrid.query
    simp only [hcen, hc]; rfl
  | some c' =>
    by_cases hr : r < ((0 : Nat) : ℝ)
    · unfold getLocalgrid LocalGrid.query
      simp only [hcen, hc, hr, if_true]; rfl
    · have hcl := centreOf_length g h c c' hc
      have hrl : g.recivecs = [] := List.length_eq_zero_iff.mp (by rw [h.dual.1, hk]; rfl)
      -- the enumeration degenerates to one ball query around `c`
      have hes : ∀ tree, entries g tree c' r = (ballQuery tree c' r).map fun i => ([], i) := by
        intro tree
        unfold entries ilcRanges
        simp only [hrl, hk, List.zip_nil_left, List.zipWith_nil_left, Periodic.product,
          List.flatMap_cons, List.flatMap_nil, List.append_nil, delta, List.map_nil, lincomb,
          List.zipWith_nil_left, List.foldr_nil]
        rw [vadd_zeroVec c' g.dim hcl]
      have hr0 : 0 ≤ r := by
        have : ¬ r < 0 := by simpa using hr
        exact not_lt.mp this
      obtain ⟨htree, es, lp, lw, hq, _, _, h1, h2⟩ := getLocalgrid_spec g h c c' hc r hr0
      have hq' : getLocalgrid g c (.fin r) = (some g.points, (getLocalgrid g c (.fin r)).2) := by
        rw [← htree]
      -- identify the entries
      have hes' : (getLocalgrid g c (.fin r)).2 =
          .localGrid (ballQuery g.points c' r) lp lw ∧
          gather g.points (ballQuery g.points c' r) = some lp ∧
          gather g.weights (ballQuery g.points c' r) = some lw := by
        -- recompute the outcome with the explicit entries
        have hsound : ∀ e ∈ entries g g.points c' r, IsImage g c' r e :=
          fun e he => periodic_sound g h c' r e he
        obtain ⟨lp', hlp'⟩ := mapM_isSome (entryPoint g) (entries g g.points c' r) (fun e he => by
          obtain ⟨_, x, hx, _⟩ := hsound e he
          simp [entryPoint, hx])
        obtain ⟨lw', hlw'⟩ := mapM_isSome (fun e : List Int × Nat => g.weights[e.2]?)
          (entries g g.points c' r) (fun e he => by
            obtain ⟨_, x, hx, _⟩ := hsound e he
            have : e.2 < g.weights.length := by
              rw [h.wlen]; exact (List.getElem?_eq_some_iff.mp hx).1
            simp [List.getElem?_eq_getElem this])
        have hgl : getLocalgrid g c (.fin r) =
            (some g.points, .localGrid ((entries g g.points c' r).map (·.2)) lp' lw') := by
          unfold getLocalgrid
          simp only [hc, hr, if_false]
          rcases h.tree with h0 | h0 <;> simp only [h0, hlp', hlw']
        rw [hgl] at hq
        have hinj := hq
        simp only [Out.localGrid.injEq] at hinj
        obtain ⟨_, hlpe, hlwe⟩ := hinj
        subst hlpe; subst hlwe
        have e1 := (mapM_option_eq_some_iff _ _ _).mp hlp'
        have e2 := (mapM_option_eq_some_iff _ _ _).mp hlw'
        rw [hes g.points] at e1 e2
        rw [hgl, hes g.points]
        refine ⟨by simp [Function.comp_def], ?_, ?_⟩
        · rw [gather_eq_some_iff, ← e1]
          simp only [List.map_map]
          apply List.map_congr_left
          intro i hi
          obtain ⟨x, hx, _⟩ := (mem_ballQuery _ _ _ _).mp hi
          simp only [Function.comp, entryPoint, hx, Option.map_some, delta, List.map_nil, lincomb,
            hk, List.zipWith_nil_left, List.foldr_nil]
          rw [vsub_zeroVec x g.dim (h.plen x (List.mem_of_getElem? hx))]
        · rw [gather_eq_some_iff, ← e2]
          simp [Function.comp_def]
      obtain ⟨ho, hgp, hgw⟩ := hes'
      rw [hq', ho]
      unfold LocalGrid.query
      simp only [hcen, hc, hr, if_false, hwl]
      have hpts : (plainState g).points = g.points := rfl
      have hw : (plainState g).weights = g.weights := rfl
      have ht : (plainState g).tree = g.tree := rfl
      rw [hpts, hw, ht]
      rcases h.tree with h0 | h0 <;> simp only [h0, hgp, hgw]

/-! ### selection on a periodic grid -/

/-- (C10 selection clause for `PeriodicGrid`) `grid[index]` is a `PeriodicGrid` built by the
same constructor from exactly the selected points and weights (order of the selection), with
the **same lattice** and reciprocal vectors, not wrapped again; it satisfies the invariant. -/
theorem periodic_getitem_spec (g : PGrid ℝ) (h : PInv g) (idx : Index) (sub : PGrid ℝ)
    (hs : Periodic.getItem g idx = .ok sub) :
    ∃ sel, select idx g.weights.length = .ok sel ∧
      sel.map (fun i => g.points[i]?) = sub.points.map some ∧
      sel.map (fun i => g.weights[i]?) = sub.weights.map some ∧
      sub.realvecs = g.realvecs ∧ sub.recivecs = g.recivecs ∧ PInv sub := by
  unfold Periodic.getItem at hs
  split at hs; · cases hs
  rename_i sel hsel
  split at hs
  · rename_i p w hp hw
    have hrec : recipOf g.oned g.realvecs g.recivecs = g.recivecs := by
      unfold recipOf
      by_cases he : g.realvecs.isEmpty = true
      · have h1 : g.realvecs = [] := List.isEmpty_iff.mp he
        have h2 : g.recivecs = [] := List.length_eq_zero_iff.mp (by rw [h.dual.1, h1]; rfl)
        simp [he, h2]
      · simp only [he]
        by_cases ho : g.oned = true
        · -- 1-D: `1 / realvecs` again; equal to the stored reciprocal vector by duality
          simp only [ho, if_true, Bool.false_eq_true, if_false]
          have hd1 := h.onedDim ho
          apply List.ext_getElem
          · simp [h.dual.1]
          · intro k hk1 hk2
            simp only [List.getElem_map]
            have hka : k < g.realvecs.length := by simpa using hk1
            have hal := h.alen _ (List.getElem_mem hka)
            have hbl := h.blen _ (List.getElem_mem hk2)
            rw [hd1] at hal hbl
            have hdu := h.dual.2 k k hk2 hka
            simp only [if_true] at hdu
            match hA : g.realvecs[k], hB : g.recivecs[k], hal, hbl with
            | [a], [b], _, _ =>
              rw [hA, hB] at hdu
              simp only [dot_cons, dot_nil_left, add_zero] at hdu
              have ha0 : a ≠ 0 := by
                intro h0; rw [h0, zero_mul] at hdu; norm_num at hdu
              simp only [List.map_cons, List.map_nil, Nat.cast_one, List.cons.injEq, and_true]
              field_simp
              linarith
        · simp [ho]
    obtain ⟨ho, ha, _, hpl, hwl, p0, rest, hpts, hg⟩ := construct_ok hs
    have hinv : PInv sub := construct_inv hs (by rw [hrec]; exact h.dual) (by rw [hrec]; exact h.blen)
    refine ⟨sel, hsel, ?_, ?_, ?_, ?_, hinv⟩
    · simp only at hg
      rw [hg]
      simp only [Bool.false_and, Bool.false_eq_true, if_false, List.map_id']
      rw [← hpts]
      exact (gather_eq_some_iff _ _ _).mp hp
    · simp only at hg
      rw [hg]
      exact (gather_eq_some_iff _ _ _).mp hw
    · simp only at hg; rw [hg]
    · simp only at hg; rw [hg]; exact hrec
  · cases hs

/-! ### Non-vacuity: a skewed 2-D lattice with a negative-direction partner -/

/-- Lattice vectors `a₁ = (2, 0)`, `a₂ = (1, 1)` … -/
def exA : List (Point ℝ) := [[2, 0], [1, 1]]

/-- … and their reciprocal vectors `b₁ = (1/2, −1/2)`, `b₂ = (0, 1)`. -/
noncomputable def exB : List (Point ℝ) := [[1 / 2, -1 / 2], [0, 1]]

theorem exDual : Dual exA (recipOf false exA exB) ∧ ∀ b ∈ recipOf false exA exB, b.length = 2 := by
  have hr : recipOf false exA exB = exB := by simp [recipOf, exA]
  rw [hr]
  refine ⟨⟨rfl, ?_⟩, by simp [exB]⟩
  intro k l hk hl
  have hk' : k < 2 := hk
  have hl' : l < 2 := hl
  interval_cases k <;> interval_cases l <;> (simp [exA, exB]; try norm_num)

/-- The hypotheses of `construct_inv` / `wrap_spec` / `periodic_localgrid_correct` are met by a
wrapped two-point grid on this lattice (one point outside the cell). -/
example : ∃ g, construct false 2 [[5 / 2, 1 / 2], [1 / 4, 1 / 2]] [1, 3] exA exB true = .ok g ∧
    PInv g := by
  have hc : construct false 2 [[5 / 2, 1 / 2], [1 / 4, 1 / 2]] [1, 3] exA exB true = .ok _ := rfl
  exact ⟨_, hc, construct_inv hc exDual.1 exDual.2⟩

/-- The hypotheses of `periodic_complete` are met: on the un-wrapped grid with the single point
`(1/2, 1/2)`, the centre `(5/2, 1/2)` and radius `1/4`, the pair (`ilc = (−1, 0)`, position 0) is
an image inside the sphere (`x − ilc@a = x + a₁` is the centre itself) — a sphere that does not
meet the cell of the point. -/
example : ∃ g, construct false 2 [[1 / 2, 1 / 2]] [1] exA exB false = .ok g ∧ PInv g ∧
    IsImage g [5 / 2, 1 / 2] (1 / 4) ([-1, 0], 0) := by
  have hc : construct false 2 [[1 / 2, 1 / 2]] [1] exA exB false = .ok _ := rfl
  refine ⟨_, hc, construct_inv hc exDual.1 exDual.2, rfl, [1 / 2, 1 / 2], rfl, ?_⟩
  simp only [inBall, dist2, vsub, delta, lincomb, smul, vadd, zeroVec, exA, List.map_cons,
    List.map_nil, List.zipWith_cons_cons, List.zipWith_nil_right, List.foldr_cons, List.foldr_nil,
    List.replicate]
  norm_num

end GridVerif.C11

/-
  C18, round 6 — two clauses that only the input generators guarded so far, stated over the text generated
  from `ngrid.py` (`Gen/NGrid.lean`):

  * the multi-domain grid reads its components **at call time**: whatever the constructor stores, `size`,
    `points`, `weights` and both routes of `integrate` are functions of the *current* `grid_list` and
    `num_domains` only, so after an entry of `grid_list` was replaced (in this value model: also after a
    component's points / weights were rebound or edited) every observation equals that of a grid built
    afresh from the updated components;
  * with `non_vectorized=True` the integrand is applied to **single points only**, for every number of
    domains including one (`[g]` and `[g], num_domains=1`): the result does not depend on what the integrand
    would answer to a whole point array, and on one domain it is `Σ_i w_i f(x_i)`.
-/
import GridVerif.Props.C18.Gen

namespace GridVerif.C18
open GridVerif.NGrid GridVerif.Gen.NGrid

variable {α K : Type}

/-! ### components are read at call time -/

/-- What an accepted call of the generated constructor returns: the list it was given (the very list, not a
copy of its contents at that time is the point of the theorems below) and `num_domains`. -/
theorem gen_init_fields (gl : List (Grid α K)) (nd : Option Nat) (g : MultiDomainGrid α K)
    (h : MultiDomainGrid.init gl nd = .ok g) : g.grid_list = gl ∧ g._num_domains = nd := by
  have hm : MGrid.mk? gl nd = .ok (toModel g) := by
    rw [← gen_init_eq_model, h]; rfl
  have key : ∀ m : MGrid α K, MGrid.mk? gl nd = .ok m → m.gridList = gl ∧ m.numDomainsArg = nd := by
    intro m hm
    unfold MGrid.mk? at hm
    split at hm
    · cases hm
    · split at hm
      · cases hm; exact ⟨rfl, rfl⟩
      · split at hm
        · cases hm
        · split at hm
          · cases hm
          · cases hm; exact ⟨rfl, rfl⟩
  exact key (toModel g) hm

/-- **Every observation is a function of the current components**: two objects of the generated class with
the same `grid_list` and the same `num_domains` — whatever else `__init__` may have stored in them — report
the same size, enumerate the same points and the same weights, and integrate every integrand to the same
value on both routes with every chunk size. (A constructor that keeps a snapshot of the components' weights
or points and a property that reads the snapshot make this false.) -/
theorem gen_observations_of_current_components [Add K] [Mul K] [NatCast K] (g g' : MultiDomainGrid α K)
    (hl : g.grid_list = g'.grid_list) (hn : g._num_domains = g'._num_domains) :
    g.num_domains = g'.num_domains ∧ g.size = g'.size ∧ g.points = g'.points ∧ g.weights = g'.weights ∧
    ∀ (F : Integrand α K) (nv : Bool) (c : Nat), g.integrate F nv c = g'.integrate F nv c := by
  cases g; cases g'
  simp only at hl hn
  subst hl; subst hn
  exact ⟨rfl, rfl, rfl, rfl, fun _ _ _ => rfl⟩

/-- **After any update of a component the observations equal those of a grid built afresh from the updated
components.** `g` was built from `gl`; entry `k` of its `grid_list` is then replaced by `x` (another grid, or
the same grid with rebound / edited points or weights); `g₂` is built afresh from the updated list. Then the
updated object and the fresh one report the same size, enumerate the same points and weights and integrate
alike on both routes, for every chunk size. -/
theorem gen_update_component [Add K] [Mul K] [NatCast K] (gl : List (Grid α K)) (nd : Option Nat)
    (g g₂ : MultiDomainGrid α K) (k : Nat) (x : Grid α K)
    (h : MultiDomainGrid.init gl nd = .ok g) (h₂ : MultiDomainGrid.init (gl.set k x) nd = .ok g₂) :
    let g₁ : MultiDomainGrid α K := { g with grid_list := g.grid_list.set k x }
    g₁.size = g₂.size ∧ g₁.points = g₂.points ∧ g₁.weights = g₂.weights ∧
    ∀ (F : Integrand α K) (nv : Bool) (c : Nat), g₁.integrate F nv c = g₂.integrate F nv c := by
  intro g₁
  have hf := gen_init_fields gl nd g h
  have hf₂ := gen_init_fields (gl.set k x) nd g₂ h₂
  have hl : g₁.grid_list = g₂.grid_list := by
    show g.grid_list.set k x = g₂.grid_list
    rw [hf.1, hf₂.1]
  have hn : g₁._num_domains = g₂._num_domains := by
    show g._num_domains = g₂._num_domains
    rw [hf.2, hf₂.2]
  exact (gen_observations_of_current_components g₁ g₂ hl hn).2

/-! ### the point-by-point route sees single points only -/

section semiring
variable [CommSemiring K]

/-- **With `non_vectorized=True` only the pointwise form of the integrand is used**, for every number of
domains (one included) and every chunk size: two integrands that agree on single points — whatever they
answer, or fail to answer, to a whole point array — give the same result. (A single-domain fast path placed
before the `non_vectorized` branch makes this false.) -/
theorem gen_integrate_pointwise_only (g : MultiDomainGrid α K) (hwf : (toModel g).WF)
    (F F' : Integrand α K) (h : F.pointwise = F'.pointwise) (c : Nat) :
    g.integrate F true c = g.integrate F' true c := by
  rw [gen_integrate_nonvec_eq_model g hwf, gen_integrate_nonvec_eq_model g hwf, h]

/-- **One domain is not special on the point-by-point route**: for `MultiDomainGrid([g0])` and
`MultiDomainGrid([g0], num_domains=1)` alike, `integrate(f, non_vectorized=True, chunk size c ≥ 1)` is
`Σ_i w_i · f(x_i)` with `f` applied to one point at a time. -/
theorem gen_integrate_one_domain (g0 : Grid α K) (h0 : Grid.WF g0) (nd : Option Nat) (hnd : nd = none ∨ nd = some 1)
    (F : Integrand α K) (c : Nat) (hc : 1 ≤ c) :
    (⟨[g0], nd⟩ : MultiDomainGrid α K).integrate F true c = .ok (gridSum g0 fun x => F.pointwise [x]) := by
  have hwf : (toModel (⟨[g0], nd⟩ : MultiDomainGrid α K)).WF := by
    refine ⟨by simp [toModel], ?_, ?_⟩
    · intro n hn
      rcases hnd with rfl | rfl
      · cases hn
      · simp only [toModel, Option.some.injEq] at hn; subst hn; exact ⟨rfl, Nat.le_refl _⟩
    · intro x hx
      simp only [toModel, List.mem_singleton] at hx; subst hx; exact h0
  have hd : (toModel (⟨[g0], nd⟩ : MultiDomainGrid α K)).domains = [g0] := by
    rcases hnd with rfl | rfl <;> rfl
  rw [gen_integrate_nonvec_eq _ hwf F c hc, hd, (productSum_nested g0 [] _).2]
  congr 2
  funext x
  exact (productSum_nested g0 [] _).1

end semiring

/-! ### non-vacuity -/

/-- two integrands that agree on single points and differ on arrays (the second one cannot take an array at all: it answers nothing) -/
def exI' : Integrand (List Int) Int := ⟨exF, fun _ _ => []⟩

example : (⟨[exG2], none⟩ : MultiDomainGrid (List Int) Int).integrate exI true 2 = .ok 80 ∧
    (⟨[exG2], some 1⟩ : MultiDomainGrid (List Int) Int).integrate exI' true 2 = .ok 80 ∧
    (⟨[exG2], some 1⟩ : MultiDomainGrid (List Int) Int).integrate exI' true 6000 = .ok 80 ∧
    gridSum exG2 (fun x => exF [x]) = 80 ∧
    (⟨[exG1, exG2], none⟩ : MultiDomainGrid (List Int) Int).integrate exI' true 4 = .ok (-4660) := by decide

/-- an update: the second domain of the grid of the examples gets other weights; the updated object and a
freshly built one agree (and differ from the object before the update) -/
example : ∃ g g₂ : MultiDomainGrid (List Int) Int,
    MultiDomainGrid.init [exG1, exG2] none = .ok g ∧
    MultiDomainGrid.init ([exG1, exG2].set 1 { exG2 with weights := [2, 0, -1] }) none = .ok g₂ ∧
    ({ g with grid_list := g.grid_list.set 1 { exG2 with weights := [2, 0, -1] } } : MultiDomainGrid (List Int) Int).weights = g₂.weights ∧
    g₂.weights = .ok [2, 0, -1, -4, 0, 2] ∧ g.weights = .ok [1, 1, 3, -2, -2, -6] :=
  ⟨_, _, rfl, rfl, by decide, by decide, by decide⟩

end GridVerif.C18

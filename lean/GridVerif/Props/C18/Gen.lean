/-
  C18 over the text generated from `ngrid.py` (`Gen/NGrid.lean`, written by
  harness/translate/ngrid.py on every run): the generated programs equal the hand model of
  `Model/NGrid.lean`, hence the property theorems of `Props/C18.lean` hold for what the code says now.
-/
import GridVerif.Props.C18
import GridVerif.Gen.NGrid

set_option linter.unusedSimpArgs false

namespace GridVerif.C18
open GridVerif.NGrid GridVerif.Gen.NGrid

variable {α β K : Type}

/-- The generated record read as the model's `MGrid`. -/
def toModel (g : MultiDomainGrid α K) : MGrid α K := ⟨g.grid_list, g._num_domains⟩

/-! ### primitives -/

theorem pyIndex_zero (x : β) (xs : List β) : pyIndex (x :: xs) 0 = .ok x := rfl

theorem pyIndex_neg_one (l : List β) (h : l ≠ []) : pyIndex l (-1) = .ok (l.getLast h) := by
  unfold pyIndex
  have hpos : 0 < l.length := List.length_pos_iff.mpr h
  have h1 : ¬ (0 : Int) ≤ -1 := by omega
  have h2 : (0 : Int) ≤ -1 + (l.length : Int) := by omega
  have h3 : (-1 + (l.length : Int)).toNat = l.length - 1 := by omega
  simp only [h1, if_false, h2, if_true, h3]
  rw [List.getLast_eq_getElem, List.getElem?_eq_getElem (by omega)]

theorem pySlice_dropLast (l : List β) : pySlice l none (some (-1)) = l.dropLast := by
  unfold pySlice pySliceIdx
  have h3 : (-1 + (l.length : Int)).toNat = l.length - 1 := by omega
  simp only [show (-1 : Int) < 0 by omega, if_true, h3, List.drop_zero, List.dropLast_eq_take]

theorem ok_bind {γ δ : Type} (x : γ) (f : γ → Except Err δ) : (Except.ok x >>= f) = f x := rfl

theorem bind_pure_ok {γ : Type} (m : Except Err γ) : (m >>= fun v => pure v) = m := by
  cases m <;> rfl

/-! ### `_chunked_iterator` -/

/-- **The generated `_chunked_iterator` is the model's `chunked`**, for every chunk size
(also 0: the first chunk is empty, the loop breaks at once) and every sequence; the bound
`len(iterator) + 1` on the passes of `while True` is never reached. -/
theorem gen_chunked_eq_model (xs : List β) (c : Nat) : chunkedIterator xs c = .ok (chunked c xs) := by
  unfold chunkedIterator
  simp only [pyIter, pyLen, pyIslice, pyNot]
  suffices h : ∀ (n : Nat) (ys : List β) (fuel : Nat), ys.length = n → ys.length + 1 ≤ fuel →
      pyWhileTrue fuel ys (fun iterator =>
        if (List.take c iterator).isEmpty = true then GenStep.brk
        else GenStep.yield (List.take c iterator) (List.drop c iterator))
        = .ok (chunked c ys) from h xs.length xs _ rfl (Nat.le_refl _)
  intro n
  induction n using Nat.strong_induction_on with
  | _ n ih =>
    intro ys fuel hn hf
    obtain ⟨fuel, rfl⟩ : ∃ k, fuel = k + 1 := ⟨fuel - 1, by omega⟩
    by_cases h0 : c = 0 ∨ ys = []
    · have hc : chunked c ys = [] := by rw [chunked]; simp [h0]
      have hemp : (ys.take c).isEmpty = true := by
        rcases h0 with h | h
        · simp [h]
        · simp [h]
      simp only [pyWhileTrue, hemp, if_true, hc]
    · have hc1 : 1 ≤ c := by omega
      have hne : ys ≠ [] := fun h => h0 (Or.inr h)
      have hpos : 0 < ys.length := List.length_pos_iff.mpr hne
      have hemp : (ys.take c).isEmpty = false := by
        cases ys with
        | nil => exact absurd rfl hne
        | cons y ys => cases c with
          | zero => omega
          | succ c => rfl
      rw [chunked_cons c hc1 ys hne]
      simp only [pyWhileTrue, hemp, Bool.false_eq_true, if_false]
      rw [ih (ys.drop c).length (by rw [List.length_drop]; omega) (ys.drop c) fuel rfl
        (by rw [List.length_drop]; omega)]


/-! ### constructor and properties -/

/-- **The generated `__init__` is the model's `MGrid.mk?`** (same guards, same record). -/
theorem gen_init_eq_model (gl : List (Grid α K)) (nd : Option Nat) :
    (MultiDomainGrid.init gl nd).map toModel = MGrid.mk? gl nd := by
  unfold MultiDomainGrid.init MGrid.mk?
  simp only [pyIsInstance, pyLen, Bool.not_true, Bool.false_eq_true, if_false, Bool.false_or]
  have hall : ((gl.map fun _ => true).all id) = true := by simp
  simp only [hall, Bool.not_true, Bool.false_eq_true, if_false]
  by_cases h0 : gl.length = 0
  · simp [h0]; rfl
  · cases nd with
    | none => simp [h0, bind, Except.bind, pure, Except.pure, Except.map, toModel]
    | some n =>
      by_cases h1 : gl.length = 1
      · by_cases h2 : n < 1
        · simp [h0, h1, h2, bind, Except.bind, Except.map]; rfl
        · simp [h0, h1, h2, bind, Except.bind, pure, Except.pure, Except.map, toModel]
      · simp [h0, h1, bind, Except.bind, Except.map]; rfl

theorem gen_num_domains_eq_model (g : MultiDomainGrid α K) : g.num_domains = (toModel g).numDomains := by
  unfold MultiDomainGrid.num_domains MGrid.numDomains toModel pyLen
  cases g._num_domains <;> rfl

theorem prodK_nat (l : List Nat) : prodK l = l.foldr (· * ·) 1 := by
  induction l with
  | nil => rfl
  | cons a t ih => simp only [prodK, List.foldr_cons] at ih ⊢; rw [ih]

/-- **The generated `size` is the model's**: never raises. -/
theorem gen_size_eq_model (g : MultiDomainGrid α K) : g.size = .ok (toModel g).size := by
  unfold MultiDomainGrid.size MGrid.size
  rw [gen_num_domains_eq_model]
  simp only [pyLen, pyIntIsNotNone, Bool.and_true, npProd, toModel]
  match hg : g.grid_list with
  | [] => simp [prodK_nat, pure, Except.pure]
  | [g0] => simp [pyIndex_zero, bind, Except.bind, pure, Except.pure]
  | a :: b :: t => simp [prodK_nat, pure, Except.pure]

/-- **The generated `weights` / `points` are the model's** (`itertools.product` over the
weights resp. points of the domains, `np.prod` per combination): never raise. -/
theorem gen_weights_eq_model [Mul K] [NatCast K] (g : MultiDomainGrid α K) :
    g.weights = .ok (toModel g).weights := by
  unfold MultiDomainGrid.weights MGrid.weights MGrid.factors
  rw [gen_num_domains_eq_model]
  simp only [pyLen, pyIntIsNotNone, Bool.and_true, npProd, toModel, itertoolsProduct, itertoolsProductRepeat]
  match hg : g.grid_list with
  | [] => simp [bind, Except.bind, pure, Except.pure]
  | [g0] => simp [pyIndex_zero, bind, Except.bind, pure, Except.pure, hg]
  | a :: b :: t => simp [bind, Except.bind, pure, Except.pure]

theorem gen_points_eq_model (g : MultiDomainGrid α K) :
    g.points = .ok (toModel g).points := by
  unfold MultiDomainGrid.points MGrid.points MGrid.factors
  rw [gen_num_domains_eq_model]
  simp only [pyLen, pyIntIsNotNone, Bool.and_true, toModel, itertoolsProduct, itertoolsProductRepeat]
  match hg : g.grid_list with
  | [] => simp [bind, Except.bind, pure, Except.pure]
  | [g0] => simp [pyIndex_zero, bind, Except.bind, pure, Except.pure, hg]
  | a :: b :: t => simp [bind, Except.bind, pure, Except.pure]


/-! ### `integrate` -/

/-- Chunking two sequences of equal length with the same size pairs chunks of equal lengths
(for every size, also one that does not divide the total). -/
theorem chunked_zip_lengths {γ : Type} (c : Nat) (w : List β) (v : List γ) (hl : w.length = v.length) :
    ∀ p ∈ (chunked c w).zip (chunked c v), p.1.length = p.2.length := by
  induction h : w.length using Nat.strong_induction_on generalizing w v with
  | _ n ih =>
    by_cases h0 : c = 0
    · subst h0; simp [chunked_zero]
    · by_cases hne : w = []
      · subst hne; simp [chunked_nil]
      · have hpos : 0 < w.length := List.length_pos_iff.mpr hne
        have hnev : v ≠ [] := by
          intro hv; subst hv; rw [List.length_nil] at hl; omega
        rw [chunked_cons c (by omega) w hne, chunked_cons c (by omega) v hnev, List.zip_cons_cons]
        intro p hp
        rcases List.mem_cons.mp hp with rfl | hp
        · simp [hl]
        · exact ih (w.drop c).length (by rw [List.length_drop]; omega) (w.drop c) (v.drop c)
            (by simp [hl]) rfl p hp

section semiring
variable [CommSemiring K]

theorem foldlM_npMul (l : List (List K × List K)) (h : ∀ p ∈ l, p.1.length = p.2.length) (acc : K) :
    l.foldlM (fun integral_value item => do
        let v ← npMul item.2 item.1
        pure (integral_value + sumK v)) acc
      = .ok (l.foldl (fun acc wv => acc + sumK (List.zipWith (fun x1 x2 => x1 * x2) wv.2 wv.1)) acc) := by
  induction l generalizing acc with
  | nil => rfl
  | cons p ps ih =>
    have hp : p.2.length = p.1.length := (h p (List.mem_cons_self)).symm
    rw [List.foldlM_cons, List.foldl_cons]
    simp only [npMul, hp, ne_eq, not_true_eq_false, if_false, bind, Except.bind, pure, Except.pure]
    exact ih (fun q hq => h q (List.mem_cons_of_mem _ hq)) _

/-- **The generated point-by-point route is the model's `integrateNonVec`** — for every chunk
size: `_chunked_iterator` over `self.weights` and over the generator of the values, `zip`
of the two chunk streams, `np.sum(values_array * weights_array)` per pair (the two arrays of
every pair have the same length, so the product never raises), accumulation. -/
theorem gen_integrate_nonvec_eq_model (g : MultiDomainGrid α K) (hwf : (toModel g).WF)
    (F : Integrand α K) (c : Nat) :
    g.integrate F true c = .ok ((toModel g).integrateNonVec F.pointwise c) := by
  unfold MultiDomainGrid.integrate MGrid.integrateNonVec
  simp only [gen_weights_eq_model, gen_points_eq_model, gen_chunked_eq_model, if_true,
    npArray, pyList, pyZip, npSum, ok_bind]
  have hlen : (toModel g).weights.length = ((toModel g).points.map fun point => F.pointwise point).length := by
    rw [List.length_map, ← (size_eq (toModel g) hwf).1, ← (size_eq (toModel g) hwf).2.1]
  rw [foldlM_npMul _ (chunked_zip_lengths c _ _ hlen)]
  rfl

theorem pure_bind_ok {γ δ : Type} (x : γ) (f : γ → Except Err δ) : ((pure x : Except Err γ) >>= f) = f x := rfl

/-- **The generated vectorised route is the model's `integrateVec`**: the single-domain
shortcut; otherwise `itertools.product` over all but the last domain (`repeat = num_domains − 1`
in repeated-grid mode, `grid_list[:-1]` in list mode) for weights and points in lock-step,
`pre_weight = np.prod(combination)`, partial application of the integrand to the point array
of `grid_list[-1]`, `grid_list[-1].integrate(values)` (which raises `ValueError` for an array
of the wrong length), accumulation. -/
theorem gen_integrate_vec_eq_model (g : MultiDomainGrid α K) (hne : g.grid_list ≠ [])
    (F : Integrand α K) (c : Nat) :
    g.integrate F false c = (toModel g).integrateVec F.vectorised := by
  obtain ⟨gl, nd⟩ := g
  simp only at hne
  unfold MultiDomainGrid.integrate MGrid.integrateVec MGrid.preFactors
  rw [gen_num_domains_eq_model]
  simp only [Bool.false_eq_true, if_false, npArray, pyZip, npProd, pyLen, itertoolsProduct, itertoolsProductRepeat,
    pySlice_dropLast, pyIndex_neg_one _ hne, ok_bind, beq_iff_eq, toModel]
  match gl, hne with
  | [g0], _ =>
    simp only [pyIndex_zero, ok_bind, pure_bind_ok, bind_pure_ok, List.length_singleton, if_true,
      List.getLast_singleton, List.getLast?_singleton]
    rfl
  | a :: b :: t, _ =>
    have hl : (a :: b :: t).length ≠ 1 := by simp
    have hlast : (a :: b :: t).getLast? = some ((a :: b :: t).getLast (by simp)) :=
      List.getLast?_eq_some_getLast (by simp)
    simp only [pyIndex_zero, ok_bind, pure_bind_ok, bind_pure_ok, hl, if_false, hlast]

/-! ### the property, stated over the generated programs -/

omit [CommSemiring K] in
/-- What the generated constructor guarantees: an accepted call returns a record with the
given list and `num_domains`, satisfying the well-formedness under which all route theorems
hold (the grids themselves satisfy `len(points) = len(weights)` by `Grid.__init__`). -/
theorem gen_constructor_wf (gl : List (Grid α K)) (nd : Option Nat) (g : MultiDomainGrid α K)
    (h : MultiDomainGrid.init gl nd = .ok g) (hgl : ∀ x ∈ gl, Grid.WF x) :
    (toModel g).WF ∧ g.grid_list = gl ∧ g._num_domains = nd := by
  have hm : MGrid.mk? gl nd = .ok (toModel g) := by
    rw [← gen_init_eq_model, h]; rfl
  exact (constructor_spec gl nd).1 (toModel g) hm hgl

/-- **Size, points and weights of the generated class describe the product set in the same
order**: none of the three raises; the reported size is the number of enumerated points and
of enumerated weights and the product of the domain sizes; entry `k` of `points` / `weights`
is the tuple of points / the product of the weights of the `k`-th combination of nodes in
`itertools.product` order. -/
theorem gen_size_points_weights (g : MultiDomainGrid α K) (hwf : (toModel g).WF) :
    ∃ (n : Nat) (ps : List (List α)) (ws : List K),
      g.size = .ok n ∧ g.points = .ok ps ∧ g.weights = .ok ws ∧
      n = ps.length ∧ n = ws.length ∧ n = ((toModel g).domains.map Grid.size).prod ∧
      ps.zip ws = (product ((toModel g).domains.map Grid.nodes)).map
        (fun c => (c.map Prod.fst, (c.map Prod.snd).prod)) := by
  refine ⟨_, _, _, gen_size_eq_model g, gen_points_eq_model g, gen_weights_eq_model g, ?_, ?_, ?_, ?_⟩
  · exact (size_eq _ hwf).1
  · exact (size_eq _ hwf).2.1
  · exact (size_eq _ hwf).2.2
  · exact (points_weights_enumerate _ hwf).2.2

/-- **`integrate_nonvec_eq` over the generated text**: the point-by-point route of the code,
with every chunk size `c ≥ 1`, is the iterated product quadrature. -/
theorem gen_integrate_nonvec_eq (g : MultiDomainGrid α K) (hwf : (toModel g).WF) (F : Integrand α K)
    (c : Nat) (hc : 1 ≤ c) :
    g.integrate F true c = .ok (productSum (toModel g).domains F.pointwise) := by
  rw [gen_integrate_nonvec_eq_model g hwf, integrate_nonvec_eq _ hwf _ c hc]

/-- **`integrate_chunk_independent` over the generated text**: any two chunk sizes `≥ 1`
(1, not dividing the total, larger than the total, the default 6000) give the same result. -/
theorem gen_integrate_chunk_independent (g : MultiDomainGrid α K) (hwf : (toModel g).WF)
    (F : Integrand α K) (c c' : Nat) (hc : 1 ≤ c) (hc' : 1 ≤ c') :
    g.integrate F true c = g.integrate F true c' := by
  rw [gen_integrate_nonvec_eq g hwf F c hc, gen_integrate_nonvec_eq g hwf F c' hc']

/-- **`integrate_vec_eq` over the generated text**: if the vectorised form of the integrand
evaluates the pointwise form on every point of the last domain, the vectorised route of the
code (single-domain shortcut included, list mode and repeated-grid mode) is the iterated
product quadrature — hence equal to the point-by-point route for every chunk size. -/
theorem gen_integrate_vec_eq (g : MultiDomainGrid α K) (hwf : (toModel g).WF) (F : Integrand α K)
    (hF : ∀ pre xs, F.vectorised pre xs = xs.map fun x => F.pointwise (pre ++ [x])) (c : Nat) :
    g.integrate F false c = .ok (productSum (toModel g).domains F.pointwise) ∧
    ∀ c', 1 ≤ c' → g.integrate F false c = g.integrate F true c' := by
  have h : g.integrate F false c = .ok (productSum (toModel g).domains F.pointwise) := by
    rw [gen_integrate_vec_eq_model g hwf.1, integrate_vec_eq _ hwf F.pointwise F.vectorised hF]
  exact ⟨h, fun c' hc' => by rw [h, gen_integrate_nonvec_eq g hwf F c' hc']⟩

end semiring

/-! ### the refusing methods (`get_localgrid`, `moments`) -/

/-- **`MultiDomainGrid.moments` refuses**: for every multi-domain grid and every argument tuple (whatever
the kinds of `centers` / `func_vals`, every `type_mom`, both values of `return_orders`) the generated
method raises `NotImplementedError` — it has no route on which it returns a value. -/
theorem gen_moments_not_implemented {τc τf ρ : Type} (g : MultiDomainGrid α K) (orders : Int) (centers : τc)
    (func_vals : τf) (type_mom : String) (return_orders : Bool) :
    (g.moments orders centers func_vals type_mom return_orders : Except Err ρ) = .error .notImplementedError := rfl

/-- **The defaults of `moments` in the code are `type_mom = "cartesian"`, `return_orders = False`** (the
defaults of `Grid.moments`, which the signature mirrors): the call with three arguments is the call with
these two spelled out. -/
theorem gen_moments_defaults {τc τf ρ : Type} (g : MultiDomainGrid α K) (orders : Int) (centers : τc)
    (func_vals : τf) :
    (g.moments orders centers func_vals : Except Err ρ) = g.moments orders centers func_vals "cartesian" false := rfl

/-- **`MultiDomainGrid.get_localgrid` refuses** for every centre and radius. -/
theorem gen_get_localgrid_not_implemented {τc τr ρ : Type} (g : MultiDomainGrid α K) (center : τc) (radius : τr) :
    (g.get_localgrid center radius : Except Err ρ) = .error .notImplementedError := rfl

/-- The refusals are not artefacts of an unconstructible object: on the grid of the examples below the
constructor succeeds, `integrate` answers, `moments` and `get_localgrid` refuse. -/
example : ∃ g : MultiDomainGrid (List Int) Int,
    MultiDomainGrid.init [⟨[[10], [20]], [1, -2]⟩, ⟨[[1, 0, 0], [0, 2, 0]], [1, 3]⟩] none = .ok g ∧
    (g.moments 2 [[0, 0, 0]] [1, 2, 3, 4] : Except Err (List (List Int))) = .error .notImplementedError ∧
    (g.moments 2 [[0, 0, 0]] [1, 2, 3, 4] "pure" true : Except Err (List (List Int))) = .error .notImplementedError ∧
    (g.get_localgrid [0, 0, 0] 1 : Except Err (MultiDomainGrid (List Int) Int)) = .error .notImplementedError :=
  ⟨_, rfl, rfl, rfl, rfl⟩

/-! ### non-vacuity: the generated programs on the mixed 1-D / 3-D instance of `Props/C18.lean` -/

/-- the integrand of the examples in both calling conventions -/
def exI : Integrand (List Int) Int := ⟨exF, fun pre xs => xs.map fun x => exF (pre ++ [x])⟩

example : (MultiDomainGrid.init [exG1, exG2] none).map toModel = .ok exM ∧
    (MultiDomainGrid.init [exG2] (some 3)).map toModel = .ok exR ∧
    (MultiDomainGrid.init [exG1, exG2] (some 2)).map toModel = .error .valueError ∧
    (MultiDomainGrid.init ([] : List (Grid (List Int) Int)) none).map toModel = .error .valueError :=
  ⟨rfl, rfl, rfl, rfl⟩

example : (⟨[exG1, exG2], none⟩ : MultiDomainGrid (List Int) Int).integrate exI true 4 = .ok (-4660) ∧
    (⟨[exG1, exG2], none⟩ : MultiDomainGrid (List Int) Int).integrate exI true 6000 = .ok (-4660) ∧
    (⟨[exG1, exG2], none⟩ : MultiDomainGrid (List Int) Int).integrate exI false 6000 = .ok (-4660) ∧
    (⟨[exG1, exG2], none⟩ : MultiDomainGrid (List Int) Int).size = .ok 6 ∧
    (⟨[exG1, exG2], none⟩ : MultiDomainGrid (List Int) Int).weights = .ok [1, 1, 3, -2, -2, -6] ∧
    chunkedIterator [1, 2, 3, 4, 5] 2 = .ok [[1, 2], [3, 4], [5]] := by decide

end GridVerif.C18

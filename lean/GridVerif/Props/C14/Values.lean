/-
  C14, value part (over ℝ): every entry returned by the model of `Grid.moments` is the direct
  quadrature of the function times the basis function named by the corresponding row of the
  returned order list; the dipole helper.
-/
import GridVerif.Props.C14
import GridVerif.Lemmas.ElemReal
import Mathlib.Algebra.BigOperators.Group.List.Basic
import Mathlib.Tactic.Ring
import Mathlib.Tactic.FieldSimp

namespace GridVerif.C14
open GridVerif.Moments

noncomputable section

/-- The basis function named by a row of the order list: the Cartesian monomial, `|d|ⁿ`,
the solid harmonic `S_{l,m}` (parameter `S`, indexed by the row `[l, m]`), or `|d|ⁿ·S_{l,m}`. -/
def basisFn (ty : MomType) (S : List ℤ → List ℝ → ℝ) (o : List ℤ) (d : List ℝ) : ℝ :=
  match ty, o with
  | .cartesian, e => (List.zipWith (fun x (n : ℤ) => x ^ n.toNat) d e).prod
  | .radial, [n] => Real.sqrt ((d.map fun x => x ^ 2).sum) ^ n.toNat
  | .pure, [l, m] => S [l, m] d
  | .pureRadial, [n, l, m] => Real.sqrt ((d.map fun x => x ^ 2).sum) ^ n.toNat * S [l, m] d
  | _, _ => 0

/-- Direct grid quadrature `Σ_i w_i f_i b(p_i − R)`. -/
def directQuad (g : Grid ℝ) (f : List ℝ) (b : List ℝ → ℝ) (c : List ℝ) : ℝ :=
  ((g.points.zip (g.weights.zip f)).map fun x => x.2.1 * x.2.2 * b (vsub x.1 c)).sum

/-- What `solid_harmonics(L, sph(points − c))` is, given C08: row `k` holds the solid harmonic
named by row `k` of the stacked pure order list (Horton-2 layout), at the centred points. -/
def solidTable (S : List ℤ → List ℝ → ℝ) (L : Nat) (pts : List (List ℝ)) (c : List ℝ) :
    List (List ℝ) :=
  (allOrdersRaw .pure L 3).map fun lm => pts.map fun p => S lm (vsub p c)

theorem sumK_real (xs : List ℝ) : sumK xs = xs.sum := by
  simp [sumK, List.sum_eq_foldr]

theorem prodK_real (xs : List ℝ) : prodK xs = xs.prod := by
  simp [prodK, List.prod_eq_foldr]

theorem quad_eq (pts : List (List ℝ)) (β : List ℝ → ℝ) (f w : List ℝ) :
    quad (pts.map β) f w = ((pts.zip (w.zip f)).map fun x => x.2.1 * x.2.2 * β x.1).sum := by
  unfold quad
  rw [sumK_real]
  induction pts generalizing f w with
  | nil => simp
  | cons p ps ih =>
    cases f with
    | nil => cases w <;> simp
    | cons a f =>
      cases w with
      | nil => simp
      | cons b w =>
        simp only [List.map_cons, List.zipWith_cons_cons, List.sum_cons, List.zip_cons_cons]
        rw [ih]
        ring

theorem monomial_real (d : List ℝ) (e : List ℤ) :
    monomial d e = (List.zipWith (fun x (n : ℤ) => x ^ n.toNat) d e).prod := by
  unfold monomial
  rw [prodK_real]
  have : (fun (x : ℝ) (n : ℤ) => npow x n.toNat) = fun x n => x ^ n.toNat := by
    funext x n; exact npow_eq_pow x n.toNat
  rw [this]

theorem norm_real (d : List ℝ) : Moments.norm d = Real.sqrt ((d.map fun x => x ^ 2).sum) := by
  unfold Moments.norm
  rw [sumK_real]
  show Real.sqrt _ = _
  have : (fun x : ℝ => x * x) = fun x => x ^ 2 := by funext x; ring
  rw [this]

theorem flatMap_single {α β : Type} (xs : List α) (h : α → β) :
    xs.flatMap (fun a => [h a]) = xs.map h := by
  induction xs with
  | nil => rfl
  | cons a t ih => rw [List.flatMap_cons, ih]; rfl

theorem zip_map_self {α β : Type} (l : List α) (h : α → β) :
    l.zip (l.map h) = l.map fun c => (c, h c) := by
  induction l with
  | nil => rfl
  | cons a t ih => rw [List.map_cons, List.zip_cons_cons, ih]; rfl

theorem allOrdersRaw_radial (L dim : Nat) :
    allOrdersRaw .radial L dim = (List.range (L + 1)).map fun (l : ℕ) => [(l : ℤ)] := by
  unfold allOrdersRaw lRange
  rw [if_neg (by decide)]
  exact flatMap_single _ _

theorem flatten_singletons (xs : List ℕ) :
    (xs.map fun (l : ℕ) => [(l : ℤ)]).flatten = xs.map fun (l : ℕ) => (l : ℤ) := by
  induction xs with
  | nil => rfl
  | cons a t ih => rw [List.map_cons, List.flatten_cons, ih]; rfl

/-- One pass of the loop over the centres, in closed form. -/
theorem perCentre_eq (ty : MomType) (L : Nat) (g : Grid ℝ) (f : List ℝ) (S : List ℤ → List ℝ → ℝ)
    (c : List ℝ)
    (hdim3 : ty = .pure ∨ ty = .pureRadial → g.dim = 3) :
    perCentre ty (allOrdersRaw ty L g.dim) g f c
        (if ty = .pure ∨ ty = .pureRadial then solidTable S L g.points c else [])
      = .ok ((allOrdersRaw ty L g.dim).map fun o => directQuad g f (basisFn ty S o) c) := by
  cases ty with
  | cartesian =>
    simp only [perCentre]
    congr 1
    apply List.map_congr_left
    intro e _
    rw [quad_eq]
    unfold directQuad
    congr 1
    apply List.map_congr_left
    intro x _
    simp only [basisFn, monomial_real]
  | radial =>
    simp only [perCentre]
    rw [allOrdersRaw_radial, flatten_singletons, List.map_map, List.map_map]
    congr 1
    apply List.map_congr_left
    intro l _
    simp only [Function.comp]
    rw [quad_eq]
    unfold directQuad
    congr 1
    apply List.map_congr_left
    intro x _
    simp only [basisFn, norm_real, npow_eq_pow]
  | pure =>
    simp only [perCentre, true_or, if_true]
    unfold solidTable
    have : allOrdersRaw .pure L g.dim = allOrdersRaw .pure L 3 := rfl
    rw [this, List.map_map]
    congr 1
    apply List.map_congr_left
    intro o ho
    simp only [Function.comp]
    rw [quad_eq]
    unfold directQuad
    congr 1
    apply List.map_congr_left
    intro x _
    -- rows of the stacked pure list are pairs [l, m]
    obtain ⟨l, hl, hmem⟩ : ∃ l, l ∈ List.range (L + 1) ∧ o ∈ pureOrders l := by
      have : o ∈ (List.range (L + 1)).flatMap pureOrders := ho
      rw [List.mem_flatMap] at this
      exact this
    obtain ⟨m, _, rfl⟩ := ((pure_orders_spec l).2.2.2.1 o).mp hmem
    simp only [basisFn]
  | pureRadial =>
    simp only [perCentre, or_true, if_true]
    apply mapM_ok
    intro o ho
    obtain ⟨n, l, m, rfl, hnn, _, _, hrow⟩ := row_lookup_correct L g.dim o ho
    have hn : 0 ≤ n := by
      -- n is a natural number cast
      have hall : allOrdersRaw .pureRadial L g.dim
          = (List.range L).flatMap fun i => pureRadialOrders (i + 1) := by
        simp [allOrdersRaw, lRange, hortonOrdersRaw, List.flatMap_map]
      rw [hall, List.mem_flatMap] at ho
      obtain ⟨i, _, hmem⟩ := ho
      obtain ⟨l', m', _, _, h⟩ := ((pure_radial_orders_spec (i + 1)).2.2.2.1 _).mp hmem
      simp only [List.cons.injEq] at h
      rw [h.1]; exact Int.natCast_nonneg _
    simp only
    have htab : (solidTable S L g.points c)[(rowIndex l m).toNat]?
        = some (g.points.map fun p => S [l, m] (vsub p c)) := by
      unfold solidTable
      rw [List.getElem?_map, hrow]
      rfl
    rw [htab]
    simp only
    congr 1
    rw [List.zipWith_map_left, List.zipWith_map_right, List.zipWith_self, quad_eq]
    unfold directQuad
    congr 1
    apply List.map_congr_left
    intro x _
    simp only [basisFn, norm_real, npow_eq_pow]

/-- **Entry = direct quadrature, and the order list names the rows.** For every moment type,
maximal order `L`, grid (any size; dimension 1–3 for Cartesian, any for radial, 3 for the
pure types), function values and non-empty list of centres accepted by the code: the call
succeeds, the returned order list is the stacked Horton list, and entry `(k, centre)` of the
returned `(rows × centres)` matrix is `Σ_i w_i f_i · basis_k(p_i − R_centre)`, where `basis_k`
is the basis function named by row `k` of the returned order list.
`htabs` is the C08 contract on the solid-harmonics table the code computes per centre. -/
theorem moments_entry (ty : MomType) (L : Nat) (g : Grid ℝ) (centres : List (List ℝ)) (f : List ℝ)
    (S : List ℤ → List ℝ → ℝ) (tabs : List (List (List ℝ)))
    (hf : f.length = g.points.length)
    (hc : ∀ c ∈ centres, c.length = g.dim) (hne : centres ≠ [])
    (hL : ty = .pureRadial → 1 ≤ L)
    (hdimc : ty = .cartesian → g.dim = 1 ∨ g.dim = 2 ∨ g.dim = 3)
    (hdim3 : ty = .pure ∨ ty = .pureRadial → g.dim = 3)
    (htabs : ty = .pure ∨ ty = .pureRadial → tabs = centres.map (solidTable S L g.points)) :
    moments ty L g centres f tabs
      = .ok ((allOrdersRaw ty L g.dim).map fun o => centres.map fun c =>
                directQuad g f (basisFn ty S o) c,
             allOrdersRaw ty L g.dim) := by
  unfold moments
  rw [if_neg (by simpa using hc), if_neg (by simpa using hf)]
  rw [if_neg (by rintro ⟨h1, h2⟩; have := hL h1; omega)]
  have hho : hortonOrders ty g.dim 0 = .ok (hortonOrdersRaw ty g.dim 0) := by
    unfold hortonOrders
    rw [if_neg]
    rintro ⟨h1, h2⟩
    exact h2 (hdimc h1)
  rw [hho]
  simp only
  rw [if_neg (by rintro ⟨h1, h2, _⟩; exact h2 (hdim3 h1))]
  -- the tables, one per centre
  have htabs' : (if ty = .pure ∨ ty = .pureRadial then tabs else centres.map fun _ => [])
      = centres.map fun c => (if ty = .pure ∨ ty = .pureRadial then solidTable S L g.points c else []) := by
    by_cases h : ty = .pure ∨ ty = .pureRadial
    · simp only [h, if_true]; exact htabs h
    · simp only [h, if_false]
  rw [htabs']
  rw [if_neg (by simp)]
  rw [zip_map_self]
  rw [mapM_ok _ _ (fun ct => (allOrdersRaw ty L g.dim).map fun o => directQuad g f (basisFn ty S o) ct.1)]
  · simp only [List.map_map]
    have hcols : (List.map ((fun ct : List ℝ × List (List ℝ) =>
          (allOrdersRaw ty L g.dim).map fun o => directQuad g f (basisFn ty S o) ct.1) ∘
          fun c => (c, if ty = .pure ∨ ty = .pureRadial then solidTable S L g.points c else [])) centres)
        = centres.map fun c => (allOrdersRaw ty L g.dim).map
            (fun o => directQuad g f (basisFn ty S o) c) := by
      apply List.map_congr_left; intro c _; rfl
    rw [hcols]
    cases centres with
    | nil => exact absurd rfl hne
    | cons a t =>
      simp only [List.map_cons, List.length_map]
      have := transpose_map (a :: t) (allOrdersRaw ty L g.dim)
        (fun c o => directQuad g f (basisFn ty S o) c)
      simp only [List.map_cons] at this
      rw [this]
  · intro ct hct
    rw [List.mem_map] at hct
    obtain ⟨c, _, rfl⟩ := hct
    exact perCentre_eq ty L g f S c hdim3

/-- **One-dimensional point arrays** (every `OneDGrid`; the code reshapes `(N,)` to `(N, 1)`):
Cartesian and radial moments about centres `[c]` are the direct quadratures
`Σ_i w_i f_i (x_i − c)^k` resp. `Σ_i w_i f_i |x_i − c|^k` (as `√((x_i − c)²)^k`), rows `k = 0..L`. -/
theorem moments_entry_points1d (ty : MomType) (hty : ty = .cartesian ∨ ty = .radial) (L : Nat)
    (pts w f : List ℝ) (centres : List (List ℝ)) (hf : f.length = pts.length)
    (hc : ∀ c ∈ centres, c.length = 1) (hne : centres ≠ []) :
    moments ty L (Grid.ofFlat pts w) centres f []
      = .ok ((allOrdersRaw ty L 1).map fun o => centres.map fun c =>
                directQuad (Grid.ofFlat pts w) f (basisFn ty (fun _ _ => 0) o) c,
             allOrdersRaw ty L 1) :=
  moments_entry ty L (Grid.ofFlat pts w) centres f (fun _ _ => 0) [] (by simpa [Grid.ofFlat] using hf)
    hc hne (fun h => by rcases hty with h' | h' <;> rw [h'] at h <;> cases h) (fun _ => Or.inl rfl)
    (fun h => by rcases hty with h' | h' <;> rcases h with h | h <;> rw [h'] at h <;> cases h)
    (fun h => by rcases hty with h' | h' <;> rcases h with h | h <;> rw [h'] at h <;> cases h)

example : allOrdersRaw .cartesian 2 1 = [[0], [1], [2]] := by decide

/-- What the code rejects (`ValueError`): function values of the wrong length, centres of
the wrong dimension, pure-radial with `L = 0`, Cartesian orders in a dimension other than
1, 2, 3, the pure types on points that are not three-dimensional. -/
theorem moments_rejects (ty : MomType) (L : Nat) (g : Grid ℝ) (centres : List (List ℝ)) (f : List ℝ)
    (tabs : List (List (List ℝ))) :
    (f.length ≠ g.points.length → moments ty L g centres f tabs = .error .valueError) ∧
    ((∃ c ∈ centres, c.length ≠ g.dim) → moments ty L g centres f tabs = .error .valueError) ∧
    (ty = .pureRadial → L = 0 → moments ty L g centres f tabs = .error .valueError) ∧
    (ty = .cartesian → ¬(g.dim = 1 ∨ g.dim = 2 ∨ g.dim = 3) →
      moments ty L g centres f tabs = .error .valueError) ∧
    ((ty = .pure ∨ ty = .pureRadial) → g.dim ≠ 3 → centres ≠ [] →
      moments ty L g centres f tabs = .error .valueError) := by
  refine ⟨?_, ?_, ?_, ?_, ?_⟩
  · intro h
    unfold moments
    by_cases hA : ¬ (∀ c ∈ centres, c.length = g.dim)
    · rw [if_pos hA]
    · rw [if_neg hA, if_pos h]
  · rintro ⟨c, hc, hne⟩
    unfold moments
    rw [if_pos]
    intro hall
    exact hne (hall c hc)
  · intro h1 h2
    unfold moments
    by_cases hA : ¬ (∀ c ∈ centres, c.length = g.dim)
    · rw [if_pos hA]
    · rw [if_neg hA]
      by_cases hB : f.length ≠ g.points.length
      · rw [if_pos hB]
      · rw [if_neg hB, if_pos ⟨h1, h2⟩]
  · intro h1 h2
    unfold moments
    by_cases hA : ¬ (∀ c ∈ centres, c.length = g.dim)
    · rw [if_pos hA]
    · rw [if_neg hA]
      by_cases hB : f.length ≠ g.points.length
      · rw [if_pos hB]
      · rw [if_neg hB]
        by_cases hC : ty = .pureRadial ∧ L = 0
        · rw [if_pos hC]
        · rw [if_neg hC]
          have : hortonOrders ty g.dim 0 = .error .valueError := by
            unfold hortonOrders; rw [if_pos ⟨h1, h2⟩]
          rw [this]
  · intro h1 h2 h3
    unfold moments
    by_cases hA : ¬ (∀ c ∈ centres, c.length = g.dim)
    · rw [if_pos hA]
    · rw [if_neg hA]
      by_cases hB : f.length ≠ g.points.length
      · rw [if_pos hB]
      · rw [if_neg hB]
        by_cases hC : ty = .pureRadial ∧ L = 0
        · rw [if_pos hC]
        · rw [if_neg hC]
          have : hortonOrders ty g.dim 0 = .ok (hortonOrdersRaw ty g.dim 0) := by
            unfold hortonOrders
            rw [if_neg]
            rintro ⟨hc, _⟩
            rcases h1 with h | h <;> rw [h] at hc <;> cases hc
          rw [this]
          simp only
          rw [if_pos ⟨h1, h2, h3⟩]

/-! ### non-vacuity -/

/-- two points in 3-D, weights 1 and 2 -/
def exG : Grid ℝ := ⟨3, [[1, 0, 0], [0, 2, 1]], [1, 2]⟩
/-- some "solid harmonic" (any function will do: it is a parameter) -/
def exS : List ℤ → List ℝ → ℝ := fun lm d => (lm.sum : ℝ) + d.sum

/-- The hypotheses of `moments_entry` are satisfiable for every type; here pure-radial with
`L = 2` (both index branches occur: rows `(2,1,1)` and `(2,1,−1)`), two centres. -/
example : moments .pureRadial 2 exG [[0, 0, 1], [1, 1, 1]] [1, -1]
      ([[0, 0, 1], [1, 1, 1]].map (solidTable exS 2 exG.points))
    = .ok ((allOrdersRaw .pureRadial 2 3).map fun o => [[0, 0, 1], [1, 1, 1]].map fun c =>
              directQuad exG [1, -1] (basisFn .pureRadial exS o) c,
           [[1, 0, 0], [2, 0, 0], [2, 1, 0], [2, 1, 1], [2, 1, -1]]) :=
  moments_entry .pureRadial 2 exG _ _ exS _ rfl (by simp [exG]) (by simp)
    (fun _ => by omega) (fun h => by cases h) (fun _ => rfl) (fun _ => rfl)

example : ∃ vals, moments .cartesian 1 (⟨2, [[1, 0], [0, 2]], [1, 2]⟩ : Grid ℝ) [[0, 1]] [1, -1] []
    = .ok (vals, [[0, 0], [1, 0], [0, 1]]) :=
  ⟨_, moments_entry .cartesian 1 (⟨2, [[1, 0], [0, 2]], [1, 2]⟩ : Grid ℝ) _ _ exS _ rfl (by simp) (by simp)
    (fun h => by cases h) (fun _ => by simp) (fun h => by rcases h with h | h <;> cases h)
    (fun h => by rcases h with h | h <;> cases h)⟩

end

end GridVerif.C14

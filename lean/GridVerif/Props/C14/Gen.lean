/-
  C14 over the text generated from the library (`Gen/Moments.lean`, written by
  harness/translate/moments.py from `utils.generate_orders_horton_order` and `Grid.moments` on
  every run):

  * `gen_horton_eq_model`      the generated order generator = the model `hortonOrders`, all types / dims / l,
                               so `cartesian_orders_spec`, `pure_orders_spec`, `pure_radial_orders_spec` of
                               `Props/C14.lean` are statements about what the code says now;
  * `gen_indices_eq_rowIndex`  the generated `(l, m) → row` statements of the pure-radial branch = `rowIndex`;
  * `gen_moments_orders_spec`  the generated statements of `Grid.moments` before the loop over the centres:
                               reshape guard for `(N,)` point arrays, `range(0, L+1)` / `range(1, L+1)`,
                               `np.vstack` stacking = `allOrdersRaw`; `gen_moments_rejects` the guards;
  * `gen_row_lookup_correct`   `row_lookup_correct` restated over the generated programs together.

  Lemmas that depend on the generated text live here (not in `Lemmas/`), so a changed source
  breaks exactly this file.
-/
import GridVerif.Props.C14
import GridVerif.Gen.Moments

namespace GridVerif.C14
open GridVerif.Moments GridVerif.Gen.Moments

/-- The string by which the code names a moment type. -/
def tyName : MomType → String
  | .cartesian => "cartesian"
  | .radial => "radial"
  | .pure => "pure"
  | .pureRadial => "pure-radial"

/-- The nested `range(order, -1, -1)` loops of the three-dimensional Cartesian case, as a `flatMap`, are the model's rows. -/
theorem cart3_rows (l : Nat) :
    ((downFrom l).map Int.ofNat).flatMap (fun mx => (pyRange ((l : Int) - mx) (-1) (-1)).flatMap
        fun my => [[mx, my, (l : Int) - mx - my]])
      = (cartOrders 3 l).map (fun r => r.map Int.ofNat) := by
  simp only [cartOrders, List.flatMap_map, List.map_flatMap, List.map_map]
  apply flatMap_congr'
  intro mx hmx
  rw [mem_downFrom] at hmx
  rw [int_sub_ofNat l mx hmx, pyRange_down, List.flatMap_map, ← flatMap_single']
  apply flatMap_congr'
  intro my hmy
  rw [mem_downFrom] at hmy
  simp only [Function.comp, List.map_cons, List.map_nil, Int.ofNat_eq_natCast]
  have : ((l - mx : Nat) : Int) - (my : Int) = ((l - mx - my : Nat) : Int) := by omega
  rw [this]

/-- Evaluate the guards and branch tests of the generated program on a literal type name /
dimension, turn the list-building loops into `flatMap`s. -/
macro "gen_eval" : tactic => `(tactic|
  simp only [generateOrdersHortonOrder, pyIn, List.contains_eq_mem, List.mem_cons, List.not_mem_nil, or_false,
    or_true, true_or, decide_true, decide_false, Bool.not_true, Bool.not_false, Bool.false_eq_true, ↓reduceIte,
    String.reduceEq, or_self, BEq.rfl, Int.reduceNeg, ite_append_left, foldl_append, List.nil_append, beq_iff_eq, bne_iff_ne,
    Int.reduceEq, ne_eq, not_true_eq_false, not_false_eq_true])

theorem cartOrders_ne_nil (dim l : Nat) (hdim : dim = 1 ∨ dim = 2 ∨ dim = 3) : cartOrders dim l ≠ [] := by
  have h := (cartesian_orders_spec dim l hdim).2.1 (l :: List.replicate (dim - 1) 0)
  have hm : (l :: List.replicate (dim - 1) 0) ∈ cartOrders dim l := by
    rw [h]
    rcases hdim with rfl | rfl | rfl <;> simp
  exact List.ne_nil_of_mem hm

theorem gen_cart3 (l : Nat) :
    generateOrdersHortonOrder l "cartesian" 3 = .ok (.d2 ((cartOrders 3 l).map fun r => r.map Int.ofNat)) := by
  gen_eval
  rw [pyRange_down, cart3_rows, npArrayRows_ne _ (map_ne_nil' _ _ (cartOrders_ne_nil 3 l (by simp)))]
  rfl

theorem gen_cart2 (l : Nat) :
    generateOrdersHortonOrder l "cartesian" 2 = .ok (.d2 ((cartOrders 2 l).map fun r => r.map Int.ofNat)) := by
  gen_eval
  have h : (pyRange (l : Int) (-1) (-1)).flatMap (fun mx => [[mx, (l : Int) - mx]])
      = (cartOrders 2 l).map (fun r => r.map Int.ofNat) := by
    rw [pyRange_down, flatMap_single' _ (fun mx => [mx, (l : Int) - mx])]
    simp only [cartOrders, List.map_map]
    apply List.map_congr_left
    intro mx hmx
    rw [mem_downFrom] at hmx
    simp only [Function.comp, List.map_cons, List.map_nil, int_sub_ofNat l mx hmx]
    rfl
  rw [h, npArrayRows_ne _ (map_ne_nil' _ _ (cartOrders_ne_nil 2 l (by simp)))]
  rfl

theorem gen_cart1 (l : Nat) :
    generateOrdersHortonOrder l "cartesian" 1 = .ok (.d2 ((cartOrders 1 l).map fun r => r.map Int.ofNat)) := by
  gen_eval
  rfl

theorem gen_cart_reject (l : Nat) (dim : Int) (h : ¬(dim = 1 ∨ dim = 2 ∨ dim = 3)) :
    generateOrdersHortonOrder l "cartesian" dim = .error .valueError := by
  have h1 : dim ≠ 1 := fun e => h (Or.inl e)
  have h2 : dim ≠ 2 := fun e => h (Or.inr (Or.inl e))
  have h3 : dim ≠ 3 := fun e => h (Or.inr (Or.inr e))
  gen_eval
  simp only [h1, h2, h3, ↓reduceIte]
  rfl

theorem gen_radial (l : Nat) (dim : Int) :
    generateOrdersHortonOrder l "radial" dim = .ok (.d1 [(l : Int)]) := by
  gen_eval
  rfl

theorem gen_pure (l : Nat) (dim : Int) :
    generateOrdersHortonOrder l "pure" dim = .ok (.d2 (pureOrders l)) := by
  gen_eval
  have h : [[(l : Int), 0]] ++ (pyRange 1 ((l : Int) + 1) 1).flatMap (fun x => [[(l : Int), x], [(l : Int), -x]])
      = pureOrders l := by
    rw [show (l : Int) + 1 = 1 + (l : Int) by omega, pyRange_up 1 l]
    simp only [pureOrders, List.flatMap_map, List.singleton_append]
    congr 1
    apply flatMap_congr'
    intro x _
    have : (1 : Int) + (x : Int) = ((x + 1 : Nat) : Int) := by omega
    rw [this]
  rw [h, npArrayRows_ne _ (by simp [pureOrders])]
  rfl


theorem gen_pure_radial (n : Nat) (dim : Int) (hn : 1 ≤ n) :
    generateOrdersHortonOrder n "pure-radial" dim = .ok (.d2 (pureRadialOrders n)) := by
  gen_eval
  have h : (pyRange 0 (n : Int) 1).flatMap (fun l_deg => (pyRange 0 (l_deg + 1) 1).flatMap fun m_ord =>
        if ¬ m_ord = 0 then [[(n : Int), l_deg, m_ord], [(n : Int), l_deg, -m_ord]]
        else [[(n : Int), l_deg, m_ord]])
      = pureRadialOrders n := by
    rw [show (n : Int) = 0 + (n : Int) by omega, pyRange_up 0 n]
    simp only [pureRadialOrders, List.flatMap_map]
    apply flatMap_congr'
    intro l _
    rw [show (0 : Int) + (l : Int) + 1 = 0 + ((l + 1 : Nat) : Int) by omega, pyRange_up 0 (l + 1), List.flatMap_map]
    apply flatMap_congr'
    intro m _
    simp only [Int.zero_add, Int.ofNat_eq_natCast, ne_eq]
    by_cases hm : m = 0
    · subst hm; simp
    · have : ¬ ((m : Int) = 0) := by omega
      simp [hm]
  rw [h, npArrayRows_ne]
  · rfl
  · have := (pure_radial_orders_spec n).2.1
    intro e
    rw [e] at this
    simp at this
    omega


theorem gen_pure_radial_zero (dim : Int) :
    generateOrdersHortonOrder 0 "pure-radial" dim = .ok (.d1 []) := by
  gen_eval
  rfl

/-- **The generated text of `generate_orders_horton_order` is the model** `hortonOrders`, for
every moment type, every dimension argument and every order `l` (all branches of the code:
the nested `range(order, -1, -1)` loops of the Cartesian cases for `dim = 3, 2, 1`, the
rejection of every other `dim`, radial, pure, pure-radial with its `m_ord != 0` split).
A 1-D result (`radial`: shape `(1,)`; pure-radial with `order = 0`: shape `(0,)`) is read as a
column, as the harness does. -/
theorem gen_horton_eq_model (ty : MomType) (dim l : Nat) :
    (generateOrdersHortonOrder l (tyName ty) dim).map IntArr.col = hortonOrders ty dim l := by
  cases ty with
  | cartesian =>
    by_cases hdim : dim = 1 ∨ dim = 2 ∨ dim = 3
    · rw [(cartesian_orders_spec dim l hdim).1]
      rcases hdim with rfl | rfl | rfl
      · exact congrArg (Except.map IntArr.col) (gen_cart1 l)
      · exact congrArg (Except.map IntArr.col) (gen_cart2 l)
      · exact congrArg (Except.map IntArr.col) (gen_cart3 l)
    · have : hortonOrders .cartesian dim l = .error .valueError := by
        unfold hortonOrders; rw [if_pos ⟨rfl, hdim⟩]
      rw [this]
      have hd : ¬((dim : Int) = 1 ∨ (dim : Int) = 2 ∨ (dim : Int) = 3) := by omega
      exact congrArg (Except.map IntArr.col) (gen_cart_reject l dim hd)
  | radial => exact congrArg (Except.map IntArr.col) (gen_radial l dim)
  | pure => exact congrArg (Except.map IntArr.col) (gen_pure l dim)
  | pureRadial =>
    by_cases hl : 1 ≤ l
    · exact congrArg (Except.map IntArr.col) (gen_pure_radial l dim hl)
    · have : l = 0 := by omega
      subst this
      exact congrArg (Except.map IntArr.col) (gen_pure_radial_zero dim)

/-- A type name outside the four documented ones is rejected with `ValueError`. -/
theorem gen_horton_unknown_type (s : String) (order dim : Int)
    (h : s ≠ "cartesian" ∧ s ≠ "radial" ∧ s ≠ "pure" ∧ s ≠ "pure-radial") :
    generateOrdersHortonOrder order s dim = .error .valueError := by
  obtain ⟨h1, h2, h3, h4⟩ := h
  gen_eval
  simp only [h1, h2, h3, h4, or_self, decide_false, Bool.not_false, ↓reduceIte]
  rfl

example : generateOrdersHortonOrder 2 "cartesian" 3
    = .ok (.d2 [[2, 0, 0], [1, 1, 0], [1, 0, 1], [0, 2, 0], [0, 1, 1], [0, 0, 2]]) := by decide


/-! ### the `(l, m) → row` arithmetic of the pure-radial branch of `Grid.moments` -/

/-- A row `[n, l, m]` of a pure-radial order array. -/
def row3 (t : Int × Int × Int) : List Int := [t.1, t.2.1, t.2.2]

theorem unpack3T_rows (ts : List (Int × Int × Int)) (hne : ts ≠ []) :
    npUnpack3T (.d2 (ts.map row3)) = .ok (ts.map (·.1), ts.map (·.2.1), ts.map (·.2.2)) := by
  cases ts with
  | nil => exact absurd rfl hne
  | cons t ts =>
    simp only [List.map_cons, npUnpack3T]
    rw [if_pos (by simp [row3])]
    simp [row3, List.map_map, Function.comp_def]

/-- **The generated index arithmetic is the model's `rowIndex`**: on an order array whose rows are
`[n, l, m]` the code's `indices = l_degrees**2; indices[m_orders > 0] += 2*m_orders[…] - 1;
indices[m_orders <= 0] += 2*np.abs(m_orders[…])` yields, row by row, `rowIndex l m`
(`l² + 2m − 1` for `m > 0`, `l² + 2|m|` for `m ≤ 0`); no step raises. -/
theorem gen_indices_eq_rowIndex (ts : List (Int × Int × Int)) (hne : ts ≠ []) :
    momentsPureRadialIndices (.d2 (ts.map row3)) = .ok (ts.map fun t => rowIndex t.2.1 t.2.2) := by
  unfold momentsPureRadialIndices
  rw [unpack3T_rows ts hne]
  simp only [bind, Except.bind]
  have hlen : (ts.map (·.2.1)).length = (ts.map (·.2.2)).length := by simp
  have hfin : ∀ (ls ms : List Int), ls = ts.map (·.2.1) → ms = ts.map (·.2.2) →
      List.zipWith (fun x z => if decide (z ≤ 0) then x + 2 * (z.natAbs : Int) else x)
        (List.zipWith (fun x z => if decide (z > 0) then x + (2 * z - 1) else x) (ls.map (· ^ 2)) ms) ms
      = ts.map fun t => rowIndex t.2.1 t.2.2 := by
    intro ls ms hls hms
    subst hls hms
    simp only [List.zipWith_map_left, List.zipWith_map_right, List.zipWith_self]
    apply List.map_congr_left
    intro t _
    unfold rowIndex
    by_cases hm : t.2.2 > 0
    · have : ¬ t.2.2 ≤ 0 := by omega
      simp only [hm, this, decide_true, decide_false, if_true, Bool.false_eq_true, if_false]
      ring
    · have : t.2.2 ≤ 0 := by omega
      simp only [hm, this, decide_true, decide_false, if_true, Bool.false_eq_true, if_false]
      ring
  generalize ts.map (·.2.2) = ms at hlen hfin ⊢
  generalize ts.map (·.2.1) = ls at hlen hfin ⊢
  simp only [npGtS, npLeS, npMulS, npSubS, npAbs, npPowS]
  rw [maskGet_map_filter]
  simp only []
  rw [List.map_map, maskIAdd_map_filter _ _ _ _ (by simp [hlen])]
  simp only []
  rw [maskGet_map_filter]
  simp only []
  rw [List.map_map, maskIAdd_map_filter _ _ _ _ (by simp [hlen])]
  simp only [Function.comp_def]
  exact congrArg Except.ok (hfin ls ms rfl rfl)


/-! ### `Grid.moments` up to the loop over the centres: guards, reshape guard, stacking -/

/-- Every call of the generator made by `Grid.moments` succeeds and returns (as stacked by
`np.vstack`) the model's block of rows. -/
theorem gen_horton_rows (ty : MomType) (d l : Nat)
    (hdim : ty = .cartesian → d = 1 ∨ d = 2 ∨ d = 3) (hl : ty = .pureRadial → 1 ≤ l) :
    ∃ a, generateOrdersHortonOrder l (tyName ty) d = .ok a ∧ a.rows = hortonOrdersRaw ty d l := by
  cases ty with
  | cartesian =>
    rcases hdim rfl with rfl | rfl | rfl
    · exact ⟨_, gen_cart1 l, rfl⟩
    · exact ⟨_, gen_cart2 l, rfl⟩
    · exact ⟨_, gen_cart3 l, rfl⟩
  | radial => exact ⟨_, gen_radial l d, rfl⟩
  | pure => exact ⟨_, gen_pure l d, rfl⟩
  | pureRadial => exact ⟨_, gen_pure_radial l d (hl rfl), rfl⟩

theorem foldlM_vstack (ls : List Nat) (gen : Int → Except Err IntArr) (rowsOf : Nat → List (List Int))
    (h : ∀ l ∈ ls, ∃ a, gen (l : Int) = .ok a ∧ a.rows = rowsOf l) (a0 : IntArr) :
    ∃ a, (ls.map Int.ofNat).foldlM (fun acc l => do
          let x ← gen l
          pure (npVstack acc x)) a0 = .ok a ∧ a.rows = a0.rows ++ ls.flatMap rowsOf ∧
      ((∃ r, a0 = .d2 r) ∨ ls ≠ [] → a = .d2 a.rows) := by
  induction ls generalizing a0 with
  | nil =>
    refine ⟨a0, rfl, by simp, ?_⟩
    rintro (⟨r, rfl⟩ | h)
    · rfl
    · exact absurd rfl h
  | cons l ls ih =>
    obtain ⟨x, hx, hr⟩ := h l (List.mem_cons_self)
    obtain ⟨a, ha, har, hd⟩ := ih (fun k hk => h k (List.mem_cons_of_mem _ hk)) (npVstack a0 x)
    refine ⟨a, ?_, ?_, fun _ => hd (Or.inl ⟨_, rfl⟩)⟩
    · rw [List.map_cons, List.foldlM_cons]
      show (do let x ← gen (l : Int); pure (npVstack a0 x)) >>= _ = _
      rw [hx]
      exact ha
    · rw [har, List.flatMap_cons, ← hr]
      simp [npVstack, IntArr.rows]

/-- The list of orders `l`: `range(0, L+1)`, for pure-radial `range(1, L+1)`. -/
theorem orders_range_eq (ty : MomType) (L : Nat) :
    (if (tyName ty != "pure-radial") = true then pyRange 0 ((L : Int) + 1) 1 else pyRange 1 ((L : Int) + 1) 1)
      = (lRange ty L).map Int.ofNat := by
  cases ty
  · simp only [tyName, bne_iff_ne, ne_eq, String.reduceEq, not_false_eq_true, if_true, lRange]
    rw [show (L : Int) + 1 = 0 + ((L + 1 : Nat) : Int) by omega, pyRange_up]
    simp
  · simp only [tyName, bne_iff_ne, ne_eq, String.reduceEq, not_false_eq_true, if_true, lRange]
    rw [show (L : Int) + 1 = 0 + ((L + 1 : Nat) : Int) by omega, pyRange_up]
    simp
  · simp only [tyName, bne_iff_ne, ne_eq, String.reduceEq, not_false_eq_true, if_true, lRange]
    rw [show (L : Int) + 1 = 0 + ((L + 1 : Nat) : Int) by omega, pyRange_up]
    simp
  · simp only [tyName, bne_iff_ne, ne_eq, not_true_eq_false, if_false, lRange, if_true]
    rw [show (L : Int) + 1 = 1 + (L : Int) by omega, pyRange_up, List.map_map]
    apply List.map_congr_left
    intro k _
    simp only [Function.comp, Int.ofNat_eq_natCast]
    omega


theorem lRange_ne_nil (ty : MomType) (L : Nat) (hL : ty = .pureRadial → 1 ≤ L) : lRange ty L ≠ [] := by
  unfold lRange
  split
  · rename_i h
    have := hL h
    cases L with
    | zero => omega
    | succ n => simp [List.range_succ]
  · simp [List.range_succ]

/-- **`Grid.moments` before the loop over the centres (generated text), accepted calls**: for a
grid whose point array has shape `(N, d)` — or `(N,)`, which the reshape guard turns into
`(N, 1)` (every `OneDGrid`) —, centres of shape `(M, d)`, `N` function values, `orders = L`
given as `int`, `np.int32` or `np.int64`, the code finds `dim = d`, the list of orders
`0..L` (`1..L` for pure-radial) and the stacked order array whose rows are the model's
`allOrdersRaw` — so the order theorems of `Props/C14.lean` speak about what the code returns. -/
theorem gen_moments_orders_spec (ty : MomType) (L N M d : Nat) (otype : String) (pshape : List Int)
    (hp : pshape = [(N : Int), (d : Int)] ∨ (pshape = [(N : Int)] ∧ d = 1))
    (hot : otype = "int" ∨ otype = "np.int32" ∨ otype = "np.int64")
    (hL : ty = .pureRadial → 1 ≤ L)
    (hdim : ty = .cartesian → d = 1 ∨ d = 2 ∨ d = 3) :
    ∃ a, momentsOrders pshape [(M : Int), (d : Int)] [(N : Int)] L otype (tyName ty)
        = .ok ((d : Int), (lRange ty L).map Int.ofNat, a) ∧ a.rows = allOrdersRaw ty L d ∧
      (ty ≠ .radial ∨ 1 ≤ L → a = .d2 (allOrdersRaw ty L d)) := by
  have hpts : (if ((pshape.length : Int) == 2) = true then pshape else npReshapeM1x1 pshape) = [(N : Int), (d : Int)] := by
    rcases hp with rfl | ⟨rfl, rfl⟩
    · rfl
    · simp [npReshapeM1x1]
  have hp0 : pyGet pshape 0 = .ok (N : Int) := by
    rcases hp with rfl | ⟨rfl, rfl⟩ <;> rfl
  have hty : (tyName ty == "pure-radial" && (L : Int) == 0) = false := by
    cases ty <;> simp [tyName]
    have := hL rfl
    omega
  have hin : pyIn otype ["int", "np.int32", "np.int64"] = true := by
    rcases hot with rfl | rfl | rfl <;> decide
  obtain ⟨l0, tl, hrs⟩ := List.exists_cons_of_ne_nil (lRange_ne_nil ty L hL)
  have hall : ∀ l ∈ lRange ty L, ∃ a, generateOrdersHortonOrder (l : Int) (tyName ty) (d : Int) = .ok a ∧
      a.rows = hortonOrdersRaw ty d l := by
    intro l hl
    apply gen_horton_rows ty d l hdim
    intro h
    unfold lRange at hl
    rw [if_pos h] at hl
    simp at hl
    omega
  obtain ⟨a0, ha0, hr0⟩ := hall l0 (by rw [hrs]; simp)
  obtain ⟨a, ha, har, hd2⟩ := foldlM_vstack tl (fun l => generateOrdersHortonOrder l (tyName ty) (d : Int))
    (hortonOrdersRaw ty d) (fun l hl => hall l (by rw [hrs]; simp [hl])) a0
  have hrows : a.rows = allOrdersRaw ty L d := by
    rw [har, hr0, allOrdersRaw, hrs, List.flatMap_cons]
  refine ⟨a, ?_, hrows, ?_⟩
  · unfold momentsOrders
    simp only [hpts, orders_range_eq, hrs, List.map_cons]
    have g1 : pyGet [(N : Int), (d : Int)] 1 = .ok (d : Int) := rfl
    have g2 : pyGet [(M : Int), (d : Int)] 1 = .ok (d : Int) := rfl
    have g3 : pyGet [(N : Int)] 0 = .ok (N : Int) := rfl
    have g4 : ∀ (x : Int) (xs : List Int), pyGet (x :: xs) 0 = .ok x := fun _ _ => rfl
    simp only [g1, g2, g3, g4, hp0, hty, hin, bind, Except.bind, pyDrop, List.drop_succ_cons, List.drop_zero,
      List.length_cons, List.length_nil, bne_self_eq_false, Bool.false_eq_true, if_false, Bool.not_true,
      Int.ofNat_eq_natCast] at ha ha0 ⊢
    simp only [pure, Except.pure] at ha
    simp [ha0, pure, Except.pure]
    rw [ha]
  · intro h
    rw [← hrows]
    apply hd2
    by_cases hr : ty = .radial
    · right
      subst hr
      have hL1 : 1 ≤ L := by
        rcases h with h | h
        · exact absurd rfl h
        · exact h
      intro htl
      subst htl
      have := congrArg List.length hrs
      simp [lRange] at this
      omega
    · left
      cases ty with
      | cartesian =>
        rcases hdim rfl with rfl | rfl | rfl
        · exact ⟨_, Except.ok.inj ((gen_cart1 l0).symm.trans ha0).symm⟩
        · exact ⟨_, Except.ok.inj ((gen_cart2 l0).symm.trans ha0).symm⟩
        · exact ⟨_, Except.ok.inj ((gen_cart3 l0).symm.trans ha0).symm⟩
      | radial => exact absurd rfl hr
      | pure => exact ⟨_, Except.ok.inj ((gen_pure l0 d).symm.trans ha0).symm⟩
      | pureRadial =>
        have hl0 : 1 ≤ l0 := by
          have : l0 ∈ lRange .pureRadial L := by rw [hrs]; simp
          simp [lRange] at this
          omega
        exact ⟨_, Except.ok.inj ((gen_pure_radial l0 d hl0).symm.trans ha0).symm⟩


/-- **What the generated guards reject**: function values with more than one dimension or of
the wrong length, centres that are not a 2-D array or whose width differs from the grid's
dimension, pure-radial with `orders = 0` (all `ValueError`), an `orders` argument that is not
an integer (`TypeError`), Cartesian moments in a dimension other than 1, 2, 3 (`ValueError`
raised by the order generator). -/
theorem gen_moments_rejects (L N N' M d d' : Nat) (otype tm : String) (pshape cshape fshape : List Int) :
    (2 ≤ fshape.length → momentsOrders pshape cshape fshape L otype tm = .error .valueError) ∧
    (cshape.length ≠ 2 → fshape.length ≤ 1 →
      momentsOrders pshape cshape fshape L otype tm = .error .valueError) ∧
    (d' ≠ d → momentsOrders [(N : Int), (d : Int)] [(M : Int), (d' : Int)] [(N' : Int)] L otype tm
      = .error .valueError) ∧
    (N' ≠ N → momentsOrders [(N : Int), (d : Int)] [(M : Int), (d : Int)] [(N' : Int)] L otype tm
      = .error .valueError) ∧
    (momentsOrders [(N : Int), (d : Int)] [(M : Int), (d : Int)] [(N : Int)] 0 otype "pure-radial"
      = .error .valueError) ∧
    (¬(otype = "int" ∨ otype = "np.int32" ∨ otype = "np.int64") → ¬(tm = "pure-radial" ∧ L = 0) →
      momentsOrders [(N : Int), (d : Int)] [(M : Int), (d : Int)] [(N : Int)] L otype tm = .error .typeError) ∧
    (¬(d = 1 ∨ d = 2 ∨ d = 3) →
      momentsOrders [(N : Int), (d : Int)] [(M : Int), (d : Int)] [(N : Int)] L "int" "cartesian"
        = .error .valueError) := by
  have g1 : ∀ a b : Int, pyGet [a, b] 1 = .ok b := fun _ _ => rfl
  have g0 : ∀ (x : Int) (xs : List Int), pyGet (x :: xs) 0 = .ok x := fun _ _ => rfl
  refine ⟨?_, ?_, ?_, ?_, ?_, ?_, ?_⟩
  · intro h
    unfold momentsOrders
    have : decide ((fshape.length : Int) > 1) = true := by simp; omega
    simp only [this, if_true]
    rfl
  · intro hc hf
    unfold momentsOrders
    have h1 : decide ((fshape.length : Int) > 1) = false := by simp; omega
    have h2 : ((cshape.length : Int) != 2) = true := by simp; omega
    simp only [h1, h2, if_true, Bool.false_eq_true, if_false]
    rfl
  · intro h
    unfold momentsOrders
    have h2 : ((d : Int) != (d' : Int)) = true := by simp; omega
    simp [g1, bind, Except.bind, h2]
    rfl
  · intro h
    unfold momentsOrders
    have h2 : ((N' : Int) != (N : Int)) = true := by simp; omega
    simp [g1, g0, bind, Except.bind, h2]
    rfl
  · unfold momentsOrders
    simp [g1, g0, bind, Except.bind]
    rfl
  · intro ho ht
    unfold momentsOrders
    have hin : pyIn otype ["int", "np.int32", "np.int64"] = false := by
      simp only [pyIn, List.contains_eq_mem, List.mem_cons, List.not_mem_nil, or_false, decide_eq_false_iff_not]
      exact ho
    have h3 : (tm == "pure-radial" && (L : Int) == 0) = false := by
      simp only [Bool.and_eq_false_iff, beq_eq_false_iff_ne, ne_eq]
      by_cases h : tm = "pure-radial"
      · right; intro hl; exact ht ⟨h, by omega⟩
      · left; exact h
    simp [g1, g0, bind, Except.bind, hin, h3]
    rfl
  · intro hd
    unfold momentsOrders
    have hrej : ∀ l : Int, generateOrdersHortonOrder l "cartesian" (d : Int) = .error .valueError := by
      intro l
      have h1 : (d : Int) ≠ 1 := by omega
      have h2 : (d : Int) ≠ 2 := by omega
      have h3 : (d : Int) ≠ 3 := by omega
      gen_eval
      simp only [h1, h2, h3, ↓reduceIte]
      rfl
    have hr : pyRange 0 ((L : Int) + 1) 1 = 0 :: (List.range L).map (fun k : Nat => ((k + 1 : Nat) : Int)) := by
      rw [show (L : Int) + 1 = 0 + ((L + 1 : Nat) : Int) by omega, pyRange_up, List.range_succ_eq_map]
      simp
    simp [g1, g0, bind, Except.bind, pyIn, hr, hrej]

/-- A radial call with `orders = 0` returns the 1-D array `[0]` (shape `(1,)`: nothing is stacked). -/
theorem gen_moments_orders_radial_zero (N M d : Nat) :
    momentsOrders [(N : Int), (d : Int)] [(M : Int), (d : Int)] [(N : Int)] 0 "int" "radial"
      = .ok ((d : Int), [0], .d1 [0]) := by
  have g1 : ∀ a b : Int, pyGet [a, b] 1 = .ok b := fun _ _ => rfl
  have g0 : ∀ (x : Int) (xs : List Int), pyGet (x :: xs) 0 = .ok x := fun _ _ => rfl
  have hr0 : pyRange 0 1 1 = [0] := by decide
  have hg : generateOrdersHortonOrder 0 "radial" (d : Int) = .ok (.d1 [0]) := by
    simpa using gen_radial 0 d
  unfold momentsOrders
  simp [g1, g0, bind, Except.bind, pyIn, hr0, pyDrop, hg, pure, Except.pure]

/-- The degree handed to `solid_harmonics` is the last of the orders, i.e. `L`. -/
theorem gen_solid_degree (ty : MomType) (L : Nat) (hL : ty = .pureRadial → 1 ≤ L) :
    momentsSolidDegree ((lRange ty L).map Int.ofNat) = .ok (L : Int) := by
  unfold momentsSolidDegree
  have hlast : ∃ init, lRange ty L = init ++ [L] := by
    unfold lRange
    split
    · rename_i h
      have := hL h
      obtain ⟨k, rfl⟩ : ∃ k, L = k + 1 := ⟨L - 1, by omega⟩
      exact ⟨(List.range k).map (· + 1), by rw [List.range_succ, List.map_append]; rfl⟩
    · exact ⟨List.range L, List.range_succ⟩
  obtain ⟨init, hi⟩ := hlast
  rw [hi]
  simp only [List.map_append, List.map_cons, List.map_nil, pyGet, List.length_append,
    List.length_map, List.length_cons, List.length_nil]
  have h1 : ¬ (0 : Int) ≤ -1 := by omega
  simp only [h1, if_false]
  have h2 : (0 : Int) ≤ -1 + ((init.length + (0 + 1) : Nat) : Int) := by omega
  simp only [h2, if_true]
  have h3 : (-1 + ((init.length + (0 + 1) : Nat) : Int)).toNat = init.length := by omega
  rw [h3]
  simp

theorem rows_as_triples (rows : List (List Int)) (h : ∀ r ∈ rows, ∃ n l m : Int, r = [n, l, m]) :
    ∃ ts : List (Int × Int × Int), rows = ts.map row3 := by
  induction rows with
  | nil => exact ⟨[], rfl⟩
  | cons r rs ih =>
    obtain ⟨n, l, m, rfl⟩ := h r (List.mem_cons_self)
    obtain ⟨ts, rfl⟩ := ih (fun x hx => h x (List.mem_cons_of_mem _ hx))
    exact ⟨(n, l, m) :: ts, rfl⟩

/-- **Row look-up of the pure-radial branch, over the generated text**: for a 3-D grid and
`orders = L ≥ 1`, the order array `all_orders` built by the code (`momentsOrders`), the
indices computed from it by the code (`momentsPureRadialIndices`) and the degree handed to
`solid_harmonics` satisfy: there is one index per row; for every row `k = [n, l, m]` the index
is a valid row number of the Horton-2 table of degree `L` — laid out as the pure order array
the same code builds for that degree — and that row is `[l, m]`. -/
theorem gen_row_lookup_correct (L N M : Nat) (hL : 1 ≤ L) :
    ∃ (a p : IntArr) (os : List Int) (idx : List Int),
      momentsOrders [(N : Int), 3] [(M : Int), 3] [(N : Int)] L "int" "pure-radial" = .ok (3, os, a) ∧
      momentsSolidDegree os = .ok (L : Int) ∧
      momentsPureRadialIndices a = .ok idx ∧
      momentsOrders [(N : Int), 3] [(M : Int), 3] [(N : Int)] L "int" "pure" = .ok (3, (List.range (L + 1)).map Int.ofNat, p) ∧
      idx.length = a.rows.length ∧
      ∀ (k : Nat) (n l m : Int), a.rows[k]? = some [n, l, m] →
        ∃ i : Int, idx[k]? = some i ∧ 0 ≤ i ∧ p.rows[i.toNat]? = some [l, m] := by
  obtain ⟨a, ha, har, had⟩ := gen_moments_orders_spec .pureRadial L N M 3 "int" _ (Or.inl rfl) (Or.inl rfl)
    (fun _ => hL) (fun h => by cases h)
  obtain ⟨p, hp, hpr, _⟩ := gen_moments_orders_spec .pure L N M 3 "int" _ (Or.inl rfl) (Or.inl rfl)
    (fun h => by cases h) (fun h => by cases h)
  have hform : ∀ r ∈ allOrdersRaw .pureRadial L 3, ∃ n l m : Int, r = [n, l, m] := by
    intro r hr
    obtain ⟨n, l, m, h, _⟩ := row_lookup_correct L 3 r hr
    exact ⟨n, l, m, h⟩
  obtain ⟨ts, hts⟩ := rows_as_triples _ hform
  have hne : ts ≠ [] := by
    intro h
    have := (pure_radial_orders_spec 1).2.2.2.2.1 L 3
    rw [hts, h] at this
    have h6 := this.2
    rw [← this.1] at h6
    simp at h6
    omega
  have hidx := gen_indices_eq_rowIndex ts hne
  rw [← hts, ← had (Or.inl (by decide))] at hidx
  refine ⟨a, p, _, _, ha, gen_solid_degree .pureRadial L (fun _ => hL), hidx, hp, ?_, ?_⟩
  · rw [har, hts]; simp
  · intro k n l m hk
    rw [har] at hk
    have hmem : [n, l, m] ∈ allOrdersRaw .pureRadial L 3 := List.mem_of_getElem? hk
    obtain ⟨n', l', m', he, h0, _, _, hlook⟩ := row_lookup_correct L 3 _ hmem
    simp only [List.cons.injEq, and_true] at he
    obtain ⟨rfl, rfl, rfl⟩ := he
    refine ⟨rowIndex l m, ?_, h0, ?_⟩
    · rw [hts, List.getElem?_map] at hk
      rw [List.getElem?_map]
      cases ht : ts[k]? with
      | none => rw [ht] at hk; simp at hk
      | some t =>
        rw [ht] at hk
        simp only [Option.map_some, Option.some.injEq, row3, List.cons.injEq, and_true] at hk
        obtain ⟨_, h2, h3⟩ := hk
        simp [h2, h3]
    · rw [hpr]; exact hlook

/-- Non-vacuity: the generated programs on the instance `L = 2` (both index branches occur). -/
example : momentsOrders [5, 3] [2, 3] [5] 2 "np.int64" "pure-radial"
      = .ok (3, [1, 2], .d2 [[1, 0, 0], [2, 0, 0], [2, 1, 0], [2, 1, 1], [2, 1, -1]]) ∧
    momentsPureRadialIndices (.d2 [[1, 0, 0], [2, 0, 0], [2, 1, 0], [2, 1, 1], [2, 1, -1]]) = .ok [0, 0, 1, 2, 3] ∧
    momentsOrders [4] [1, 1] [4] 2 "int" "cartesian" = .ok (1, [0, 1, 2], .d2 [[0], [1], [2]]) ∧
    momentsOrders [4] [1, 2] [4] 2 "int" "cartesian" = .error .valueError := by decide

end GridVerif.C14

/-
  C14 over the generated text (`Gen/MomentsNum.lean`), second part: the mass table `utils.isotopic_masses`
  (exact decimals), `utils.dipole_moment_of_molecule`, `Grid.integrate`, the defaults of the signatures and
  `MultiDomainGrid.moments`.
-/
import GridVerif.Props.C14.GenNum
import GridVerif.Props.C14.Dipole
import Mathlib.Algebra.Order.BigOperators.Group.List

namespace GridVerif.C14
open GridVerif.Moments GridVerif.Gen.Moments GridVerif.Gen.MomentsNum

/-! ### `isotopic_masses` -/

/-- the entry of the regenerated table for atomic number `z` -/
def tableEntry (z : Int) : Option (Int × Nat × Nat) := isotopicMassesTable.find? (fun e => e.1 == z)

/-- **The keys of `isotopic_masses` are exactly `1, …, 82`, in this order, each once** — the dictionary covers H to Pb. -/
theorem gen_masses_keys : isotopicMassesTable.map (·.1) = (List.range 82).map fun k => ((k + 1 : Nat) : Int) := by
  decide +kernel

/-- every entry is a positive decimal: a positive numerator over a positive power-of-ten denominator, and the look-up
of `k + 1` finds the `k`-th entry -/
def entryOk (k : Nat) : Bool :=
  match tableEntry ((k + 1 : Nat) : Int) with
  | some e => e.1 == ((k + 1 : Nat) : Int) && decide (0 < e.2.1) && (e.2.2 == 10 || e.2.2 == 1000000)
  | none => false

theorem entryOk_all : ∀ k, k < 82 → entryOk k = true := by decide +kernel

theorem gen_masses_entries (k : Nat) (hk : k < 82) :
    ∃ n d, tableEntry ((k + 1 : Nat) : Int) = some (((k + 1 : Nat) : Int), n, d) ∧ 0 < n ∧ (d = 10 ∨ d = 1000000) := by
  have h := entryOk_all k hk
  unfold entryOk at h
  cases he : tableEntry ((k + 1 : Nat) : Int) with
  | none => rw [he] at h; cases h
  | some e =>
    rw [he] at h
    obtain ⟨z, n, d⟩ := e
    simp only [Bool.and_eq_true, beq_iff_eq, decide_eq_true_eq, Bool.or_eq_true] at h
    obtain ⟨⟨h1, h2⟩, h3⟩ := h
    exact ⟨n, d, by rw [h1], h2, h3⟩

/-- Standard atomic weights of H … Pb in units of 1e-4 u: reference data typed independently of the library (the mass
of a naturally occurring isotope lies within 2.5 % of the standard atomic weight of its element). -/
def stdWeights : List Nat := [
  10080, 40026, 69400, 90122, 108100, 120110, 140070, 159990, 189980, 201800, 229900, 243050,
  269820, 280850, 309740, 320600, 354500, 399480, 390980, 400780, 449560, 478670, 509420, 519960,
  549380, 558450, 589330, 586930, 635460, 653800, 697230, 726300, 749220, 789710, 799040, 837980,
  854680, 876200, 889060, 912240, 929060, 959500, 980000, 1010700, 1029100, 1064200, 1078700, 1124100,
  1148200, 1187100, 1217600, 1276000, 1269000, 1312900, 1329100, 1373300, 1389100, 1401200, 1409100, 1442400,
  1450000, 1503600, 1519600, 1572500, 1589300, 1625000, 1649300, 1672600, 1689300, 1730500, 1749700, 1784900,
  1809500, 1838400, 1862100, 1902300, 1922200, 1950800, 1969700, 2005900, 2043800, 2072000]

def entrySane (e : Int × Nat × Nat) (s : Nat) : Bool :=
  decide (40 * Int.natAbs ((e.2.1 : Int) * 10000 - (s : Int) * (e.2.2 : Int)) ≤ s * e.2.2)

/-- **Every entry of the regenerated table is the mass of its own element to 2.5 %**: `|m_Z − A_Z| ≤ A_Z / 40` with
`A_Z` the standard atomic weight (a shifted, scaled or mistyped row fails this for the light and medium elements). -/
theorem gen_masses_sane : stdWeights.length = 82 ∧
    (isotopicMassesTable.zip stdWeights).all (fun p => entrySane p.1 p.2) = true := by decide +kernel

/-- `m₁ < m₂` for two entries `(Z, numerator, denominator)` (cross-multiplied: exact). -/
def massLt (a b : Int × Nat × Nat) : Bool := decide (a.2.1 * b.2.2 < b.2.1 * a.2.2)

/-- **No two elements share a mass**: the 82 masses of the regenerated table are pairwise distinct (exact rational
comparison). Until repair 5ffbd8c the rows 73 / 74 held the masses of ¹⁸⁴W / ¹⁸⁷Re, so that 74 and 75 coincided. -/
theorem gen_masses_distinct :
    isotopicMassesTable.Pairwise (fun a b => a.2.1 * b.2.2 ≠ b.2.1 * a.2.2) := by decide +kernel

/-- **The masses increase with the atomic number, except at the four inversions physics knows**: the most abundant
isotope of K (19), Ni (28), Br (35) and I (53) is lighter than that of the preceding element (⁴⁰Ar/³⁹K, ⁵⁹Co/⁵⁸Ni,
⁸⁰Se/⁷⁹Br, ¹³⁰Te/¹²⁷I); everywhere else `m_Z < m_{Z+1}`. -/
theorem gen_masses_increasing :
    ((isotopicMassesTable.zip isotopicMassesTable.tail).filter (fun p => !massLt p.1 p.2)).map (fun p => p.2.1)
      = [19, 28, 35, 53] := by decide +kernel

section generic
variable {K : Type} [Add K] [Sub K] [Mul K] [Div K] [Neg K] [NatCast K] [Elem K]

theorem pyDictGet_masses (z : Int) :
    pyDictGet (isotopic_masses (K := K)) z = match tableEntry z with
      | some e => .ok (decimalK e.2.1 e.2.2)
      | none => .error .keyError := by
  unfold pyDictGet isotopic_masses tableEntry
  rw [List.find?_map]
  cases h : List.find? ((fun kv : Int × K => kv.1 == z) ∘ fun e : Int × Nat × Nat => (e.1, decimalK (K := K) e.2.1 e.2.2))
      isotopicMassesTable with
  | none =>
    have : List.find? (fun e : Int × Nat × Nat => e.1 == z) isotopicMassesTable = none := h
    rw [this]; rfl
  | some e =>
    have : List.find? (fun e : Int × Nat × Nat => e.1 == z) isotopicMassesTable = some e := h
    rw [this]; rfl

/-- `isotopic_masses[z]` raises `KeyError` outside `1..82`. -/
theorem gen_mass_keyerror (z : Int) (hz : z < 1 ∨ 82 < z) :
    pyDictGet (isotopic_masses (K := K)) z = .error .keyError := by
  rw [pyDictGet_masses]
  have : tableEntry z = none := by
    unfold tableEntry
    rw [List.find?_eq_none]
    intro e he
    have hk : e.1 ∈ isotopicMassesTable.map (·.1) := List.mem_map_of_mem he
    rw [gen_masses_keys, List.mem_map] at hk
    obtain ⟨k, hk, hke⟩ := hk
    rw [List.mem_range] at hk
    simp only [beq_iff_eq]
    omega
  rw [this]

end generic

noncomputable section

/-- the mass (in ℝ) the regenerated table holds for atomic number `z` (`0` outside the table; never used there) -/
def massR (z : Int) : ℝ :=
  match tableEntry z with
  | some e => (e.2.1 : ℝ) / (e.2.2 : ℝ)
  | none => 0

theorem massR_lookup (z : Int) (h1 : 1 ≤ z) (h2 : z ≤ 82) :
    pyDictGet (isotopic_masses (K := ℝ)) z = .ok (massR z) ∧ 0 < massR z := by
  obtain ⟨k, rfl⟩ : ∃ k : Nat, z = ((k + 1 : Nat) : Int) := ⟨(z - 1).toNat, by omega⟩
  obtain ⟨n, d, he, hn, hd⟩ := gen_masses_entries k (by omega)
  rw [pyDictGet_masses]
  unfold massR
  rw [he]
  refine ⟨rfl, ?_⟩
  simp only
  have hd' : 0 < d := by rcases hd with rfl | rfl <;> decide
  exact div_pos (Nat.cast_pos.mpr hn) (Nat.cast_pos.mpr hd')

/-- **Every element of the table, the last one included**: `isotopic_masses[82]` is the decimal `207.976636`. -/
theorem gen_mass_last : pyDictGet (isotopic_masses (K := ℝ)) 82 = .ok ((207976636 : ℕ) / (1000000 : ℕ) : ℝ) ∧
    pyDictGet (isotopic_masses (K := ℝ)) 1 = .ok ((1007825 : ℕ) / (1000000 : ℕ) : ℝ) ∧
    pyDictGet (isotopic_masses (K := ℝ)) 83 = .error .keyError ∧
    pyDictGet (isotopic_masses (K := ℝ)) 0 = .error .keyError := by
  refine ⟨?_, ?_, gen_mass_keyerror 83 (by omega), gen_mass_keyerror 0 (by omega)⟩
  · rw [pyDictGet_masses]
    have : tableEntry 82 = some (82, 207976636, 1000000) := by decide +kernel
    rw [this]; rfl
  · rw [pyDictGet_masses]
    have : tableEntry 1 = some (1, 1007825, 1000000) := by decide +kernel
    rw [this]; rfl

/-! ### `dipole_moment_of_molecule` -/

/-- `grid.moments` of the grid `g` as the generated dipole helper calls it -/
def boundMoments (conv : List (List ℝ) → Except Err (List (List ℝ)))
    (solid : Int → List (List ℝ) → Except Err (List (List ℝ))) (g : Grid ℝ) :
    Int → String → List (List ℝ) → List ℝ → String → Bool → Except Err (List (List ℝ) × Option IntArr) :=
  fun o ot cen f ty ret =>
    gridMoments conv solid [(g.points.length : Int), (g.dim : Int)] g.points g.weights o ot
      [(cen.length : Int), ((cen.headD []).length : Int)] cen [(f.length : Int)] f ty ret

theorem masses_mapM (charges : List Int) (hz : ∀ z ∈ charges, 1 ≤ z ∧ z ≤ 82) :
    charges.mapM (fun charge => pyDictGet (isotopic_masses (K := ℝ)) charge) = .ok (charges.map massR) :=
  mapM_ok charges _ massR (fun z hz' => (massR_lookup z (hz z hz').1 (hz z hz').2).1)

theorem masses_sum_pos (charges : List Int) (hne : charges ≠ []) (hz : ∀ z ∈ charges, 1 ≤ z ∧ z ≤ 82) :
    0 < (charges.map massR).sum := by
  apply List.sum_pos
  · intro x hx
    rw [List.mem_map] at hx
    obtain ⟨z, hz', rfl⟩ := hx
    exact (massR_lookup z (hz z hz').1 (hz z hz').2).2
  · simpa using hne

theorem npT_col {ι : Type} (xs : List ι) (h : ι → ℝ) (hne : xs ≠ []) :
    npT (xs.map fun x => [h x]) = [xs.map h] := by
  unfold npT npArrayT
  cases xs with
  | nil => exact absurd rfl hne
  | cons a t =>
    simp only [List.map_cons, List.length_cons, List.length_nil, transpose, List.filterMap_cons, List.head?_cons,
      List.filterMap_map, Function.comp_def]
    congr 1
    simp [List.filterMap_eq_map']

theorem flatten_col {ι : Type} (xs : List ι) (h : ι → ℝ) : (xs.map fun x => [h x]).flatten = xs.map h := by
  induction xs with
  | nil => rfl
  | cons a t ih => simp only [List.map_cons, List.flatten_cons, ih]; rfl

theorem gen_dipole_eq_model (conv : List (List ℝ) → Except Err (List (List ℝ)))
    (solid : Int → List (List ℝ) → Except Err (List (List ℝ)))
    (g : Grid ℝ) (ρ : List ℝ) (coords : List (List ℝ)) (charges : List Int)
    (hdim : g.dim = 3) (hwf : g.WF) (hρ : ρ.length = g.points.length)
    (hcr : ∀ r ∈ coords, r.length = 3) (hlen : coords.length = charges.length) (hne : charges ≠ [])
    (hz : ∀ z ∈ charges, 1 ≤ z ∧ z ≤ 82) :
    dipoleMomentOfMolecule (boundMoments conv solid g) ρ coords charges
      = dipole g ρ coords (npAsK charges) (charges.map massR) := by
  unfold dipoleMomentOfMolecule
  rw [masses_mapM charges hz, ok_bind]
  have hmul : npMulMatCol coords (charges.map massR)
      = .ok (List.zipWith (fun (r : List ℝ) m => r.map (· * m)) coords (charges.map massR)) := by
    unfold npMulMatCol
    rw [if_pos (by simp [hlen])]
  rw [hmul, ok_bind]
  simp only []
  -- the centre of mass as the code computes it
  obtain ⟨c0, cs0, hcoords⟩ := List.exists_cons_of_ne_nil (by
    intro h; rw [h] at hlen; exact hne (List.length_eq_zero_iff.mp hlen.symm) : coords ≠ [])
  obtain ⟨z0, zs0, hcharges⟩ := List.exists_cons_of_ne_nil hne
  have hsum0 : npSumAxis0 (List.zipWith (fun (r : List ℝ) m => r.map (· * m)) coords (charges.map massR))
      = vsum 3 (List.zipWith (fun (r : List ℝ) m => r.map (· * m)) coords (charges.map massR)) := by
    rw [hcoords, hcharges]
    simp only [List.map_cons, List.zipWith_cons_cons, npSumAxis0, List.length_map]
    rw [hcr c0 (by rw [hcoords]; exact List.mem_cons_self)]
  have hcentre : npDivVecS (npSumAxis0 (List.zipWith (fun (r : List ℝ) m => r.map (· * m)) coords (charges.map massR)))
        (npSum (charges.map massR))
      = [com coords (charges.map massR) 0, com coords (charges.map massR) 1, com coords (charges.map massR) 2] := by
    rw [hsum0]
    unfold vsum npDivVecS npSum
    have : List.replicate 3 (((0 : Nat) : ℝ)) = [0, 0, 0] := by simp [List.replicate]
    rw [this, vsum3 coords hcr, sumK_real]
    simp [com]
  have hcentre' : (vsum g.dim (List.zipWith (fun (r : List ℝ) m => r.map (· * m)) coords (charges.map massR))).map
        (· / sumK (charges.map massR))
      = [com coords (charges.map massR) 0, com coords (charges.map massR) 1, com coords (charges.map massR) 2] := by
    have := hcentre
    rw [hsum0] at this
    rw [hdim]
    exact this
  rw [hcentre]
  generalize hctr : [com coords (charges.map massR) 0, com coords (charges.map massR) 1, com coords (charges.map massR) 2] = ctr
    at hcentre'
  have hctrlen : ctr.length = 3 := by rw [← hctr]; rfl
  -- the call of grid.moments
  obtain ⟨a, har, had, hgm⟩ := gen_moments_entry conv solid .cartesian 1 1 g [ctr] ρ (fun _ _ => 0) "int"
    [(g.points.length : Int), (g.dim : Int)] true (Or.inl rfl) (Or.inl rfl) hwf hρ
    (by simp [hctrlen, hdim]) (by simp) (fun h => by cases h) (fun _ => by simp [hdim])
    (fun h => by rcases h with h | h <;> cases h) (fun h => by rcases h with h | h <;> cases h)
  have hgm' : boundMoments conv solid g 1 "int" [ctr] ρ "cartesian" true
      = .ok ((allOrdersRaw .cartesian 1 g.dim).map fun o => [ctr].map fun c => directQuad g ρ (basisFn .cartesian (fun _ _ => 0) o) c,
             some a) := by
    unfold boundMoments
    simp only [List.length_cons, List.length_nil, List.headD_cons, hctrlen, hρ]
    have h3 : ((3 : Nat) : Int) = (g.dim : Int) := by rw [hdim]
    have := hgm
    simp only [tyName, if_true] at this
    rw [← h3] at this ⊢
    exact this
  rw [hgm', ok_bind]
  have hunpack : ∀ (x : List (List ℝ)) (o : IntArr), pyUnpackMoments (x, some o) = .ok (x, o) := fun _ _ => rfl
  rw [hunpack, ok_bind]
  rw [had (Or.inl (by decide))]
  -- the nuclear part
  have hsub : npSubMat1 coords [ctr] = .ok (coords.map fun r => vsub r ctr) := by
    unfold npSubMat1
    exact npSubRow_ok coords ctr (fun r hr => by rw [hcr r hr, hctrlen])
  rw [hsub, ok_bind]
  rw [npPowMatArrCol_ok _ _ 3 (by
        intro r hr
        rw [List.mem_map] at hr
        obtain ⟨p, hp, rfl⟩ := hr
        rw [vsub_length p ctr (by rw [hcr p hp, hctrlen]), hctrlen])
      (fun e he => by rw [hdim] at he; exact (cart_rows_form 1 3 (by simp) e he).1), ok_bind]
  simp only []
  have hein : ∀ A : List (List ℝ), (∀ r ∈ A, r.length = coords.length) →
      npEinsumIjJ A (npAsK charges) = .ok (A.map fun r => sumK (List.zipWith (· * ·) r (npAsK charges))) := by
    intro A hA
    unfold npEinsumIjJ
    rw [if_pos]
    rw [all_len_iff]
    intro r hr
    rw [hA r hr, hlen]
    simp [npAsK]
  rw [hein _ (by
    intro r hr
    simp only [npProdAxis2, List.mem_map] at hr
    obtain ⟨m, ⟨e, _, rfl⟩, rfl⟩ := hr
    simp), ok_bind]
  have hordne : allOrdersRaw .cartesian 1 g.dim ≠ [] := by rw [hdim]; decide
  simp only [List.map_cons, List.map_nil]
  rw [npT_col _ (fun o => directQuad g ρ (basisFn .cartesian (fun _ _ => 0) o) ctr) hordne]
  have hsubv : ∀ (v qs : List ℝ), v.length = qs.length → npSubVecMat v [qs] = .ok [List.zipWith (· - ·) v qs] := by
    intro v qs h
    unfold npSubVecMat
    rw [if_pos (by simp [h])]
    rfl
  rw [hsubv _ _ (by simp [npProdAxis2]), ok_bind]
  -- the model
  unfold dipole
  simp only []
  rw [hcentre']
  rw [moments_entry .cartesian 1 g [ctr] ρ (fun _ _ => 0) [] hρ (by simp [hctrlen, hdim]) (by simp)
    (fun h => by cases h) (fun _ => by simp [hdim]) (fun h => by rcases h with h | h <;> cases h)
    (fun h => by rcases h with h | h <;> cases h)]
  simp only [List.map_cons, List.map_nil, pure_eq_ok, npFlatten, pyDropK, List.flatten_cons, List.flatten_nil,
    List.append_nil]
  rw [flatten_col]
  congr 2
  congr 1
  simp only [npProdAxis2, List.map_map]
  apply List.map_congr_left
  intro e he
  simp only [Function.comp, List.zipWith_map_left]
  congr 1
  apply zipWith_congr_mem
  intro r _ z
  rw [monomial]
  rw [hdim] at he
  rw [zipWith_powInt_nonneg _ _ (cart_rows_form 1 3 (by simp) e he).2]

/-- **The dipole helper over the generated text and the regenerated mass table**: for a three-dimensional grid, atoms
with three coordinates and atomic numbers `1 ≤ Z ≤ 82` (at least one atom; charged species included — no neutrality is
assumed), `dipole_moment_of_molecule` succeeds and returns the three components
`Σ_a Z_a (R_a − C) − Σ_i w_i ρ_i (p_i − C)` — nuclear minus electronic first moments — about the centre of mass
`C = Σ m_a R_a / Σ m_a`, the masses `m_a` being the decimals of `isotopic_masses` as written in the source
(their sum is positive, so the division is defined). -/
theorem gen_dipole_spec (conv : List (List ℝ) → Except Err (List (List ℝ)))
    (solid : Int → List (List ℝ) → Except Err (List (List ℝ)))
    (g : Grid ℝ) (ρ : List ℝ) (coords : List (List ℝ)) (charges : List Int)
    (hdim : g.dim = 3) (hwf : g.WF) (hρ : ρ.length = g.points.length)
    (hcr : ∀ r ∈ coords, r.length = 3) (hlen : coords.length = charges.length) (hne : charges ≠ [])
    (hz : ∀ z ∈ charges, 1 ≤ z ∧ z ≤ 82) :
    dipoleMomentOfMolecule (boundMoments conv solid g) ρ coords charges
      = .ok [dipoleComp g ρ coords (npAsK charges) (charges.map massR) 0,
             dipoleComp g ρ coords (npAsK charges) (charges.map massR) 1,
             dipoleComp g ρ coords (npAsK charges) (charges.map massR) 2] := by
  rw [gen_dipole_eq_model conv solid g ρ coords charges hdim hwf hρ hcr hlen hne hz]
  exact dipole_spec g ρ coords _ _ hdim (fun p hp => by rw [hwf.2 p hp, hdim]) hρ hcr
    (ne_of_gt (masses_sum_pos charges hne hz))

/-- Non-vacuity: a charged species (OH⁻-like: charges 8 and 1, density integrating to 4) on the two-point grid. -/
example : dipoleMomentOfMolecule (boundMoments (fun p => .ok p) (fun _ _ => .error .keyError) exG) [1, 3]
      [[0, 0, 0], [0, 0, 1]] [8, 1]
    = .ok [dipoleComp exG [1, 3] [[0, 0, 0], [0, 0, 1]] (npAsK [8, 1]) ([8, 1].map massR) 0,
           dipoleComp exG [1, 3] [[0, 0, 0], [0, 0, 1]] (npAsK [8, 1]) ([8, 1].map massR) 1,
           dipoleComp exG [1, 3] [[0, 0, 0], [0, 0, 1]] (npAsK [8, 1]) ([8, 1].map massR) 2] :=
  gen_dipole_spec _ _ exG _ _ _ rfl ⟨rfl, by simp [exG]⟩ rfl (by simp) rfl (by simp) (by simp)

/-! ### `Grid.integrate`, defaults, `MultiDomainGrid.moments` -/

/-- `Σ_i w_i Π_k a_k[i]` for value arrays of the grid's length -/
def integrateRef (w : List ℝ) (arrays : List (List ℝ)) : ℝ :=
  (arrays.foldl (fun acc r => List.zipWith (· * ·) acc r) w).sum

theorem forM_ok {α : Type} (l : List α) (F : α → Except Err PUnit) (h : ∀ x ∈ l, F x = .ok ⟨⟩) :
    l.forM F = .ok ⟨⟩ := by
  induction l with
  | nil => rfl
  | cons x xs ih =>
    have : (x :: xs).forM F = (F x >>= fun _ => xs.forM F) := rfl
    rw [this, h x List.mem_cons_self]
    exact ih (fun y hy => h y (List.mem_cons_of_mem _ hy))

theorem mem_enumerate {α : Type} (xs : List α) (ia : Int × α) (h : ia ∈ pyEnumerate xs) : ia.2 ∈ xs := by
  unfold pyEnumerate at h
  exact (List.of_mem_zip h).2

/-- **`Grid.integrate` over the generated text is the grid quadrature**: with `k ≥ 1` one-dimensional NumPy arrays of
the grid's size it returns `Σ_i w_i Π_k a_k[i]`; without arguments it raises `ValueError`. -/
theorem gen_integrate_spec (w : List ℝ) (arrays : List (List ℝ)) (hne : arrays ≠ [])
    (hlen : ∀ a ∈ arrays, a.length = w.length) :
    gridIntegrate (w.length : Int) w (arrays.map fun a => PyArg.ndarray [(a.length : Int)] a)
      = .ok (integrateRef w arrays) ∧
    gridIntegrate (w.length : Int) w ([] : List (PyArg ℝ)) = .error .valueError := by
  constructor
  · unfold gridIntegrate
    have h1 : decide (((arrays.map fun a => PyArg.ndarray [(a.length : Int)] a).length : Int) < 1) = false := by
      cases arrays with
      | nil => exact absurd rfl hne
      | cons a t => simp
    simp only [h1, Bool.false_eq_true, if_false]
    rw [forM_ok]
    · rw [ok_bind, mapM_map', mapM_ok arrays (fun x => pyData (PyArg.ndarray [(x.length : Int)] x)) id (fun a _ => rfl), ok_bind]
      unfold npEinsumAllI
      simp only [List.map_id, List.length_map]
      rw [if_pos]
      · simp only [integrateRef, sumK_real]
      · simp only [BEq.rfl, Bool.true_and]
        rw [all_len_iff]
        exact hlen
    · intro ia hia
      have hm := mem_enumerate _ ia hia
      rw [List.mem_map] at hm
      obtain ⟨a, ha, he⟩ := hm
      simp only [← he, pyIsNdarray, pyShape, Bool.not_true, Bool.false_eq_true, if_false, ok_bind, pure_eq_ok]
      rw [hlen a ha]
      simp
  · unfold gridIntegrate
    rfl

/-- the quadrature of one product `f·b` is the sum the moments use: `integrate(f, b) = Σ_i w_i f_i b_i` -/
example (w f b : List ℝ) : integrateRef w [f, b] = (List.zipWith (· * ·) (List.zipWith (· * ·) w f) b).sum := rfl

/-- **Defaults of the signatures as written in the source**: `type_mom="cartesian"`, `return_orders=False` for
`Grid.moments` and for `MultiDomainGrid.moments`. -/
theorem gen_moments_defaults :
    gridMomentsDefaultTypeMom = "cartesian" ∧ gridMomentsDefaultReturnOrders = false ∧
    multiDomainGridMomentsDefaultTypeMom = "cartesian" ∧ multiDomainGridMomentsDefaultReturnOrders = false :=
  ⟨rfl, rfl, rfl, rfl⟩

/-- **`MultiDomainGrid.moments` is not implemented** (documented): every call raises `NotImplementedError`. -/
theorem gen_multidomain_not_implemented (orders : Int) (cs fs : List Int) (ty : String) (ret : Bool) :
    multiDomainGridMoments orders cs fs ty ret = .error .notImplementedError := rfl

end

end GridVerif.C14

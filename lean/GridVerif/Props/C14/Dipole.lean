/-
  C14, dipole helper (over ℝ): `dipole_moment_of_molecule` equals nuclear minus electronic
  first moments about the centre of mass.
-/
import GridVerif.Props.C14.Values

namespace GridVerif.C14
open GridVerif.Moments

noncomputable section

/-- `j`-th coordinate of a point given as a list (only used on lists of length 3, `j < 3`). -/
def coord (j : Nat) (p : List ℝ) : ℝ := p.getD j 0

/-- Centre of mass, coordinate `j`: `Σ_a m_a R_{a,j} / Σ_a m_a`. -/
def com (coords : List (List ℝ)) (masses : List ℝ) (j : Nat) : ℝ :=
  (List.zipWith (fun r m => coord j r * m) coords masses).sum / masses.sum

/-- Dipole component `j`: `Σ_a Z_a (R_{a,j} − C_j) − Σ_i w_i ρ_i (p_{i,j} − C_j)`. -/
def dipoleComp (g : Grid ℝ) (ρ : List ℝ) (coords : List (List ℝ)) (charges masses : List ℝ) (j : Nat) : ℝ :=
  (List.zipWith (fun r z => z * (coord j r - com coords masses j)) coords charges).sum
  - ((g.points.zip (g.weights.zip ρ)).map fun x =>
      x.2.1 * x.2.2 * (coord j x.1 - com coords masses j)).sum

theorem len3 {p : List ℝ} (h : p.length = 3) : ∃ a b c, p = [a, b, c] := by
  match p, h with
  | [a, b, c], _ => exact ⟨a, b, c, rfl⟩

theorem vsum3 (coords : List (List ℝ)) (hc : ∀ r ∈ coords, r.length = 3) :
    ∀ (masses : List ℝ) (a b c : ℝ),
    (List.zipWith (fun (r : List ℝ) m => r.map (· * m)) coords masses).foldl
        (fun acc v => List.zipWith (· + ·) acc v) [a, b, c]
      = [a + (List.zipWith (fun r m => coord 0 r * m) coords masses).sum,
         b + (List.zipWith (fun r m => coord 1 r * m) coords masses).sum,
         c + (List.zipWith (fun r m => coord 2 r * m) coords masses).sum] := by
  induction coords with
  | nil => intro masses a b c; simp
  | cons r rs ih =>
    intro masses a b c
    cases masses with
    | nil => simp
    | cons m ms =>
      obtain ⟨x, y, z, rfl⟩ := len3 (hc r List.mem_cons_self)
      simp only [List.zipWith_cons_cons, List.foldl_cons, List.map_cons, List.map_nil,
        List.zipWith_nil_right, List.sum_cons]
      rw [ih (fun r' hr' => hc r' (List.mem_cons_of_mem _ hr'))]
      simp only [coord, List.getD_cons_zero, List.getD_cons_succ]
      congr 1
      · ring
      · congr 1
        · ring
        · congr 1; ring

theorem zipWith_congr_mem {α β γ : Type} (F G : α → β → γ) (xs : List α) (ys : List β)
    (h : ∀ x ∈ xs, ∀ y, F x y = G x y) : List.zipWith F xs ys = List.zipWith G xs ys := by
  induction xs generalizing ys with
  | nil => rfl
  | cons x xs ih =>
    cases ys with
    | nil => rfl
    | cons y ys =>
      simp only [List.zipWith_cons_cons]
      rw [h x List.mem_cons_self y, ih ys (fun x' hx' => h x' (List.mem_cons_of_mem _ hx'))]

/-- the three first-order monomials pick the three coordinates of a centred point -/
theorem monomial_unit (p : List ℝ) (hp : p.length = 3) (c0 c1 c2 : ℝ) :
    monomial (vsub p [c0, c1, c2]) [1, 0, 0] = coord 0 p - c0 ∧
    monomial (vsub p [c0, c1, c2]) [0, 1, 0] = coord 1 p - c1 ∧
    monomial (vsub p [c0, c1, c2]) [0, 0, 1] = coord 2 p - c2 := by
  obtain ⟨x, y, z, rfl⟩ := len3 hp
  simp [monomial_real, vsub, coord]

/-- **Dipole helper**: for a three-dimensional grid, atoms with three coordinates and masses
with non-zero sum, `dipole_moment_of_molecule` returns the three components
`Σ_a Z_a (R_a − C) − Σ_i w_i ρ_i (p_i − C)` — nuclear minus electronic first moments — about
the centre of mass `C = Σ m_a R_a / Σ m_a`; the order-0 row (charge) is dropped.
(`_hM` is the non-vanishing of the divisor in `C`.) -/
theorem dipole_spec (g : Grid ℝ) (ρ : List ℝ) (coords : List (List ℝ)) (charges masses : List ℝ)
    (hdim : g.dim = 3) (hp : ∀ p ∈ g.points, p.length = 3) (hρ : ρ.length = g.points.length)
    (hc : ∀ r ∈ coords, r.length = 3) (_hM : masses.sum ≠ 0) :
    dipole g ρ coords charges masses
      = .ok [dipoleComp g ρ coords charges masses 0, dipoleComp g ρ coords charges masses 1,
             dipoleComp g ρ coords charges masses 2] := by
  obtain ⟨dim, pts, w⟩ := g
  simp only at hdim hp hρ
  subst hdim
  -- the centre of mass as computed by the code
  have hcentre : (vsum 3 (List.zipWith (fun (r : List ℝ) m => r.map (· * m)) coords masses)).map
      (· / sumK masses) = [com coords masses 0, com coords masses 1, com coords masses 2] := by
    unfold vsum
    have : List.replicate 3 (((0 : Nat) : ℝ)) = [0, 0, 0] := by simp [List.replicate]
    rw [this, vsum3 coords hc, sumK_real]
    simp [com]
  unfold dipole
  simp only
  rw [hcentre]
  rw [moments_entry .cartesian 1 ⟨3, pts, w⟩ _ ρ (fun _ _ => 0) [] hρ (by simp) (by simp)
    (fun h => by cases h) (fun _ => by simp) (fun h => by rcases h with h | h <;> cases h)
    (fun h => by rcases h with h | h <;> cases h)]
  simp only
  have horders : allOrdersRaw .cartesian 1 3 = [[0, 0, 0], [1, 0, 0], [0, 1, 0], [0, 0, 1]] := by
    decide
  rw [horders]
  simp only [List.map_cons, List.map_nil, List.flatten_cons, List.flatten_nil, List.singleton_append,
    List.zipWith_cons_cons, List.zipWith_nil_right, List.drop_succ_cons, List.drop_zero]
  -- component by component
  have key : ∀ (j : Nat) (e : List ℤ),
      (∀ p : List ℝ, p.length = 3 →
        monomial (vsub p [com coords masses 0, com coords masses 1, com coords masses 2]) e
          = coord j p - com coords masses j) →
      sumK (List.zipWith (fun r z =>
          monomial (vsub r [com coords masses 0, com coords masses 1, com coords masses 2]) e * z)
          coords charges)
        - directQuad ⟨3, pts, w⟩ ρ (basisFn .cartesian (fun _ _ => 0) e)
            [com coords masses 0, com coords masses 1, com coords masses 2]
      = dipoleComp ⟨3, pts, w⟩ ρ coords charges masses j := by
    intro j e he
    unfold dipoleComp directQuad
    rw [sumK_real]
    congr 1
    · congr 1
      apply zipWith_congr_mem
      intro r hr z
      rw [he r (hc r hr)]
      ring
    · congr 1
      apply List.map_congr_left
      intro x hx
      have hx1 : x.1 ∈ pts := (List.of_mem_zip hx).1
      simp only [basisFn]
      rw [← monomial_real, he x.1 (hp x.1 hx1)]
  rw [key 0 [1, 0, 0] (fun p hp3 => (monomial_unit p hp3 _ _ _).1),
      key 1 [0, 1, 0] (fun p hp3 => (monomial_unit p hp3 _ _ _).2.1),
      key 2 [0, 0, 1] (fun p hp3 => (monomial_unit p hp3 _ _ _).2.2)]

/-- Non-vacuity: water-like data satisfies the hypotheses. -/
example : dipole exG [1, 3] [[0, 0, 0], [0, 0, 1]] [8, 1] [16, 1]
    = .ok [dipoleComp exG [1, 3] [[0, 0, 0], [0, 0, 1]] [8, 1] [16, 1] 0,
           dipoleComp exG [1, 3] [[0, 0, 0], [0, 0, 1]] [8, 1] [16, 1] 1,
           dipoleComp exG [1, 3] [[0, 0, 0], [0, 0, 1]] [8, 1] [16, 1] 2] :=
  dipole_spec exG _ _ _ _ rfl (by simp [exG]) rfl (by simp) (by norm_num)

end

end GridVerif.C14

/-
  C14 over the *numeric* text generated from the library (`Gen/MomentsNum.lean`, written by
  harness/translate/moments_num.py on every run): the loop over the centres of `Grid.moments`.

  * `gen_centre_eq_model`   the generated body of `for center in centers:` = the model `perCentre`, every type
                            (generic carrier: the same operations in the same order);
  * `gen_loop_eq_model`, `gen_moments_eq_model`   the generated `Grid.moments` (statements before the loop, loop,
                            `np.array(integrals).T`, `return_orders`) = the model `moments`;
  * `gen_moments_entry`     the property clause over the generated text (ℝ): entry `(k, centre)` is the direct
                            quadrature of `f` times the basis function named by row `k` of the returned order array.
-/
import GridVerif.Props.C14.Gen
import GridVerif.Props.C14.Values
import GridVerif.Gen.MomentsNum

set_option linter.unusedSectionVars false

namespace GridVerif.C14
open GridVerif.Moments GridVerif.Gen.Moments GridVerif.Gen.MomentsNum

theorem ok_bind {ε α β : Type} (a : α) (f : α → Except ε β) : (Except.ok a >>= f) = f a := rfl
theorem err_bind {ε α β : Type} (e : ε) (f : α → Except ε β) : ((Except.error e : Except ε α) >>= f) = .error e := rfl
theorem pure_eq_ok {ε α : Type} (a : α) : (pure a : Except ε α) = .ok a := rfl

section generic
variable {K : Type} [Add K] [Sub K] [Mul K] [Div K] [Neg K] [NatCast K] [Elem K]

theorem all_len_iff {α : Type} (a : List (List α)) (n : Nat) :
    (a.all fun r => r.length == n) = true ↔ ∀ r ∈ a, r.length = n := by
  simp [List.all_eq_true]

theorem npSubRow_ok (a : List (List K)) (c : List K) (h : ∀ r ∈ a, r.length = c.length) :
    npSubRow a c = .ok (a.map fun r => vsub r c) := by
  unfold npSubRow
  rw [if_pos ((all_len_iff a c.length).mpr h)]

theorem vsub_length (p c : List K) (h : p.length = c.length) : (vsub p c).length = c.length := by
  simp [vsub, h]

theorem zipWith_powInt_nonneg (r : List K) (e : List Int) (h : ∀ x ∈ e, 0 ≤ x) :
    List.zipWith powInt r e = List.zipWith (fun x n => npow x n.toNat) r e := by
  induction r generalizing e with
  | nil => rfl
  | cons x xs ih =>
    cases e with
    | nil => rfl
    | cons n ns =>
      simp only [List.zipWith_cons_cons]
      rw [ih ns (fun y hy => h y (List.mem_cons_of_mem _ hy))]
      have hn : 0 ≤ n := h n List.mem_cons_self
      simp only [powInt, hn, if_true]

theorem npPowMatArrCol_ok (cp : List (List K)) (rows : List (List Int)) (d : Nat)
    (hcp : ∀ r ∈ cp, r.length = d) (hrows : ∀ e ∈ rows, e.length = d) :
    npPowMatArrCol cp (.d2 rows) = .ok (rows.map fun er => cp.map fun r => List.zipWith powInt r er) := by
  unfold npPowMatArrCol
  simp only
  rw [if_pos]
  rw [List.all_eq_true]
  intro er her
  rw [List.all_eq_true]
  intro r hr
  simp [hcp r hr, hrows er her]

theorem npEinsumLnNN_ok (A : List (List K)) (f w : List K) (hfw : f.length = w.length)
    (hA : ∀ r ∈ A, r.length = f.length) : npEinsumLnNN A f w = .ok (A.map fun r => quad r f w) := by
  unfold npEinsumLnNN
  rw [if_pos]
  simp only [Bool.and_eq_true, beq_iff_eq]
  exact ⟨hfw, (all_len_iff A f.length).mpr hA⟩

theorem npRavel_rows (a : IntArr) : npRavel a = a.rows.flatten := by
  cases a <;> simp [npRavel, IntArr.rows]

/-- rows of the stacked Cartesian order array: `dim` non-negative entries -/
theorem cart_rows_form (L d : Nat) (hd : d = 1 ∨ d = 2 ∨ d = 3) :
    ∀ o ∈ allOrdersRaw .cartesian L d, o.length = d ∧ ∀ x ∈ o, 0 ≤ x := by
  intro o ho
  unfold allOrdersRaw at ho
  rw [List.mem_flatMap] at ho
  obtain ⟨l, _, hl⟩ := ho
  simp only [hortonOrdersRaw, List.mem_map] at hl
  obtain ⟨row, hrow, rfl⟩ := hl
  have := ((cartesian_orders_spec d l hd).2.1 row).mp hrow
  refine ⟨by simp [this.1], ?_⟩
  intro x hx
  rw [List.mem_map] at hx
  obtain ⟨n, _, rfl⟩ := hx
  exact Int.natCast_nonneg n

/-- **Cartesian branch of the generated loop body = the model.** -/
theorem gen_centre_cartesian (conv : List (List K) → Except Err (List (List K)))
    (solid : Int → List (List K) → Except Err (List (List K)))
    (L : Nat) (g : Grid K) (f c : List K) (os : List Int) (tab : List (List K))
    (hwf : g.WF) (hf : f.length = g.points.length) (hc : c.length = g.dim)
    (hd : g.dim = 1 ∨ g.dim = 2 ∨ g.dim = 3) :
    momentsCentre conv solid g.points g.weights f "cartesian" os (.d2 (allOrdersRaw .cartesian L g.dim)) c
      = perCentre .cartesian (allOrdersRaw .cartesian L g.dim) g f c tab := by
  unfold momentsCentre
  simp only [BEq.rfl, ↓reduceIte]
  rw [npSubRow_ok _ _ (fun r hr => by rw [hwf.2 r hr, hc]), ok_bind]
  rw [npPowMatArrCol_ok _ _ g.dim (by
        intro r hr
        rw [List.mem_map] at hr
        obtain ⟨p, hp, rfl⟩ := hr
        rw [vsub_length p c (by rw [hwf.2 p hp, hc]), hc])
      (fun e he => (cart_rows_form L g.dim hd e he).1)]
  simp only [ok_bind, bind_assoc]
  rw [npEinsumLnNN_ok _ _ _ (by rw [hf, hwf.1]) (by
        intro r hr
        simp only [npProdAxis2, List.mem_map] at hr
        obtain ⟨m, ⟨e, _, rfl⟩, rfl⟩ := hr
        simp [hf])]
  simp only [ok_bind, pure_eq_ok, pyBound, perCentre]
  congr 1
  simp only [npProdAxis2, List.map_map]
  apply List.map_congr_left
  intro e he
  simp only [Function.comp]
  congr 1
  rw [List.map_map]
  apply List.map_congr_left
  intro p _
  simp only [Function.comp, monomial]
  rw [zipWith_powInt_nonneg _ _ (cart_rows_form L g.dim hd e he).2]

theorem radial_flat (L d : Nat) :
    (allOrdersRaw .radial L d).flatten = (List.range (L + 1)).map fun (l : Nat) => (l : Int) := by
  unfold allOrdersRaw lRange
  rw [if_neg (by decide)]
  induction (List.range (L + 1)) with
  | nil => rfl
  | cons a t ih => simp only [List.flatMap_cons, List.flatten_append, List.map_cons, ih]; rfl

/-- **Radial branch of the generated loop body = the model.** -/
theorem gen_centre_radial (conv : List (List K) → Except Err (List (List K)))
    (solid : Int → List (List K) → Except Err (List (List K)))
    (L : Nat) (g : Grid K) (f c : List K) (os : List Int) (a : IntArr) (tab : List (List K))
    (ha : a.rows = allOrdersRaw .radial L g.dim)
    (hwf : g.WF) (hf : f.length = g.points.length) (hc : c.length = g.dim) :
    momentsCentre conv solid g.points g.weights f "radial" os a c
      = perCentre .radial (allOrdersRaw .radial L g.dim) g f c tab := by
  unfold momentsCentre
  have h1 : ("radial" == "cartesian") = false := by decide
  have h2 : pyIn "radial" ["radial", "pure", "pure-radial"] = true := by decide
  have h3 : pyIn "radial" ["pure", "pure-radial"] = false := by decide
  simp only [h1, h2, h3, BEq.rfl, ↓reduceIte, Bool.false_eq_true]
  rw [npSubRow_ok _ _ (fun r hr => by rw [hwf.2 r hr, hc]), ok_bind]
  rw [npEinsumLnNN_ok _ _ _ (by rw [hf, hwf.1]) (by
        intro r hr
        simp only [npPowVecCol, npNormAxis1, List.mem_map] at hr
        obtain ⟨n, _, rfl⟩ := hr
        simp [hf])]
  simp only [ok_bind, pure_eq_ok, pyBound, perCentre]
  congr 1
  rw [npRavel_rows, ha, radial_flat]
  simp only [npPowVecCol, npNormAxis1, List.map_map]
  apply List.map_congr_left
  intro l _
  simp only [Function.comp, powInt, Int.natCast_nonneg, if_true, Int.toNat_natCast]
  rfl

theorem npEinsumLnNN_tab (tab : List (List K)) (f w : List K) (hfw : f.length = w.length)
    (hA : ∀ r ∈ tab, r.length = f.length) : npEinsumLnNN tab f w = .ok (tab.map fun r => quad r f w) :=
  npEinsumLnNN_ok tab f w hfw hA

/-- the last of the orders `l` is `L` (what `orders[-1]` reads), restated for `pyGet` -/
theorem orders_last (ty : MomType) (L : Nat) (hL : ty = .pureRadial → 1 ≤ L) :
    pyGet ((lRange ty L).map Int.ofNat) (-1) = .ok (L : Int) := by
  have := gen_solid_degree ty L hL
  unfold momentsSolidDegree at this
  simpa [bind, Except.bind, pure, Except.pure] using this

/-- **Pure branch of the generated loop body = the model** (`tab` is what the code's
`solid_harmonics(orders[-1], convert_cart_to_sph(points - center))` returns). -/
theorem gen_centre_pure (conv : List (List K) → Except Err (List (List K)))
    (solid : Int → List (List K) → Except Err (List (List K)))
    (L : Nat) (g : Grid K) (f c : List K) (a : IntArr) (tab s : List (List K))
    (hwf : g.WF) (hf : f.length = g.points.length) (hc : c.length = g.dim)
    (hconv : conv (g.points.map fun p => vsub p c) = .ok s) (hsolid : solid (L : Int) s = .ok tab)
    (htab : ∀ r ∈ tab, r.length = g.points.length) :
    momentsCentre conv solid g.points g.weights f "pure" ((lRange .pure L).map Int.ofNat) a c
      = perCentre .pure (allOrdersRaw .pure L g.dim) g f c tab := by
  unfold momentsCentre
  have h1 : ("pure" == "cartesian") = false := by decide
  have h2 : pyIn "pure" ["radial", "pure", "pure-radial"] = true := by decide
  have h3 : pyIn "pure" ["pure", "pure-radial"] = true := by decide
  simp only [h1, h2, h3, BEq.rfl, ↓reduceIte, Bool.false_eq_true]
  rw [npSubRow_ok _ _ (fun r hr => by rw [hwf.2 r hr, hc]), ok_bind]
  simp only [bind_assoc]
  rw [hconv, ok_bind, orders_last .pure L (fun h => by cases h), ok_bind, hsolid, ok_bind]
  rw [npEinsumLnNN_ok _ _ _ (by rw [hf, hwf.1]) (fun r hr => by rw [htab r hr, hf])]
  simp only [ok_bind, pure_eq_ok, pyBound, perCentre]

/-- the four index statements of the pure-radial branch, in continuation form: they bind `rowIndex l m` row by row -/
theorem index_chain {β : Type} (ts : List (Int × Int × Int)) (k : List Int → Except Err β) :
    (npMaskGet (ts.map (·.2.2)) (npGtS (ts.map (·.2.2)) 0) >>= fun x =>
      npMaskIAdd (npPowS (ts.map (·.2.1)) 2) (npGtS (ts.map (·.2.2)) 0) (npSubS (npMulS 2 x) 1) >>= fun i1 =>
      npMaskGet (ts.map (·.2.2)) (npLeS (ts.map (·.2.2)) 0) >>= fun y =>
      npMaskIAdd i1 (npLeS (ts.map (·.2.2)) 0) (npMulS 2 (npAbs y)) >>= k)
      = k (ts.map fun t => rowIndex t.2.1 t.2.2) := by
  have hlen : (ts.map (·.2.1)).length = (ts.map (·.2.2)).length := by simp
  have hfin : ∀ (ls ms : List Int), ls = ts.map (·.2.1) → ms = ts.map (·.2.2) →
      List.zipWith (fun x z => if decide (z ≤ 0) then x + 2 * (z.natAbs : Int) else x)
        (List.zipWith (fun x z => if decide (z > 0) then x + (2 * z - 1) else x) (ls.map (· ^ 2)) ms) ms
      = ts.map fun t => rowIndex t.2.1 t.2.2 := by
    intro ls ms hls hms
    subst hls hms
    simp only [List.zipWith_map_left, List.zipWith_map_right, List.zipWith_self]
    apply List.map_congr_left
    intro t _
    unfold rowIndex
    by_cases hm : t.2.2 > 0
    · have : ¬ t.2.2 ≤ 0 := by omega
      simp only [hm, this, decide_true, decide_false, if_true, Bool.false_eq_true, if_false]
      ring
    · have : t.2.2 ≤ 0 := by omega
      simp only [hm, this, decide_true, decide_false, if_true, Bool.false_eq_true, if_false]
      ring
  generalize ts.map (·.2.2) = ms at hlen hfin ⊢
  generalize ts.map (·.2.1) = ls at hlen hfin ⊢
  simp only [npGtS, npLeS, npMulS, npSubS, npAbs, npPowS]
  rw [maskGet_map_filter, ok_bind, List.map_map, maskIAdd_map_filter _ _ _ _ (by simp [hlen]), ok_bind,
    maskGet_map_filter, ok_bind, List.map_map, maskIAdd_map_filter _ _ _ _ (by simp [hlen]), ok_bind]
  simp only [Function.comp_def]
  rw [hfin ls ms rfl rfl]

theorem mapM_map' {ε α β γ : Type} (l : List α) (g : α → β) (fn : β → Except ε γ) :
    (l.map g).mapM fn = l.mapM (fun x => fn (g x)) := by
  induction l with
  | nil => rfl
  | cons x xs ih => simp only [List.map_cons, List.mapM_cons, ih]

theorem rowIndex_nonneg (l m : Int) : 0 ≤ rowIndex l m := by
  unfold rowIndex
  have : 0 ≤ l * l := by
    rcases Int.le_total 0 l with h | h
    · exact Int.mul_nonneg h h
    · have := Int.mul_nonneg (Int.neg_nonneg_of_nonpos h) (Int.neg_nonneg_of_nonpos h)
      rwa [Int.neg_mul_neg] at this
  split <;> omega

theorem pyGetRow_some (tab : List (List K)) (i : Int) (r : List K) (hi : 0 ≤ i) (h : tab[i.toNat]? = some r) :
    pyGetRow tab i = .ok r := by
  unfold pyGetRow
  simp only [hi, if_true, h]

theorem npEinsumLnLnNN_ok (A B : List (List K)) (f w : List K) (hAB : A.length = B.length) (hfw : f.length = w.length)
    (hA : ∀ r ∈ A, r.length = f.length) (hB : ∀ r ∈ B, r.length = f.length) :
    npEinsumLnLnNN A B f w = .ok (List.zipWith (fun a b => quad (List.zipWith (· * ·) a b) f w) A B) := by
  unfold npEinsumLnLnNN
  rw [if_pos]
  simp only [Bool.and_eq_true, beq_iff_eq]
  exact ⟨⟨⟨hAB, hfw⟩, (all_len_iff A f.length).mpr hA⟩, (all_len_iff B f.length).mpr hB⟩

theorem gen_centre_pure_radial (conv : List (List K) → Except Err (List (List K)))
    (solid : Int → List (List K) → Except Err (List (List K)))
    (L : Nat) (g : Grid K) (f c : List K) (ts : List (Int × Int × Int)) (tab s : List (List K))
    (hL : 1 ≤ L) (hne : ts ≠ [])
    (hwf : g.WF) (hf : f.length = g.points.length) (hc : c.length = g.dim)
    (hconv : conv (g.points.map fun p => vsub p c) = .ok s) (hsolid : solid (L : Int) s = .ok tab)
    (htab : ∀ r ∈ tab, r.length = g.points.length)
    (hn : ∀ t ∈ ts, 0 ≤ t.1) (hlook : ∀ t ∈ ts, ∃ r, tab[(rowIndex t.2.1 t.2.2).toNat]? = some r) :
    momentsCentre conv solid g.points g.weights f "pure-radial" ((lRange .pureRadial L).map Int.ofNat) (.d2 (ts.map row3)) c
      = perCentre .pureRadial (ts.map row3) g f c tab := by
  unfold momentsCentre
  have h1 : ("pure-radial" == "cartesian") = false := by decide
  have h2 : pyIn "pure-radial" ["radial", "pure", "pure-radial"] = true := by decide
  have h3 : pyIn "pure-radial" ["pure", "pure-radial"] = true := by decide
  have h4 : ("pure-radial" == "pure") = false := by decide
  simp only [h1, h2, h3, h4, BEq.rfl, ↓reduceIte, Bool.false_eq_true]
  rw [npSubRow_ok _ _ (fun r hr => by rw [hwf.2 r hr, hc]), ok_bind]
  simp only [bind_assoc]
  rw [hconv, ok_bind, orders_last .pureRadial L (fun _ => hL), ok_bind, hsolid, ok_bind]
  rw [unpack3T_rows ts hne, ok_bind]
  simp only []
  rw [index_chain ts]
  let rowOf : Int → List K := fun i => (tab[i.toNat]?).getD []
  have hrow : ∀ t ∈ ts, tab[(rowIndex t.2.1 t.2.2).toNat]? = some (rowOf (rowIndex t.2.1 t.2.2)) := by
    intro t ht
    obtain ⟨r, hr⟩ := hlook t ht
    simp only [rowOf, hr, Option.getD_some]
  have hrowlen : ∀ t ∈ ts, (rowOf (rowIndex t.2.1 t.2.2)).length = f.length := by
    intro t ht
    rw [hf]
    exact htab _ (List.mem_of_getElem? (hrow t ht))
  have htake : npTakeRows tab (ts.map fun t => rowIndex t.2.1 t.2.2) = .ok ((ts.map fun t => rowIndex t.2.1 t.2.2).map rowOf) := by
    unfold npTakeRows
    apply mapM_ok
    intro i hi
    rw [List.mem_map] at hi
    obtain ⟨t, ht, rfl⟩ := hi
    exact pyGetRow_some tab _ _ (rowIndex_nonneg _ _) (hrow t ht)
  rw [htake, ok_bind]
  rw [npEinsumLnLnNN_ok _ _ _ _ (by simp [npPowVecCol]) (by rw [hf, hwf.1])
    (by
      intro r hr
      simp only [npPowVecCol, npNormAxis1, List.mem_map] at hr
      obtain ⟨n, _, rfl⟩ := hr
      simp [hf])
    (by
      intro r hr
      simp only [List.mem_map] at hr
      obtain ⟨i, ⟨t, ht, rfl⟩, rfl⟩ := hr
      exact hrowlen t ht)]
  simp only [ok_bind, pure_eq_ok, pyBound, perCentre]
  rw [mapM_map']
  symm
  rw [mapM_ok ts _ (fun t => quad (List.zipWith (· * ·)
      (g.points.map fun p => npow (Moments.norm (vsub p c)) t.1.toNat) (rowOf (rowIndex t.2.1 t.2.2))) f g.weights)]
  · congr 1
    simp only [npPowVecCol, npNormAxis1, List.zipWith_map_left, List.zipWith_map_right, List.zipWith_self, List.map_map]
    apply List.map_congr_left
    intro t ht
    have h0 : 0 ≤ t.1 := hn t ht
    simp only [Function.comp, powInt, h0, if_true, List.zipWith_map_left]
  · intro t ht
    simp only [row3, hrow t ht]


/-- rows of the stacked pure-radial order array are triples `[n, l, m]` with `n ≥ 0` whose look-up index is a
valid row number of a table with as many rows as the stacked pure order array of degree `L` -/
theorem pure_radial_triples (L d : Nat) :
    ∃ ts : List (Int × Int × Int), allOrdersRaw .pureRadial L d = ts.map row3 ∧ (∀ t ∈ ts, 0 ≤ t.1) ∧
      ∀ t ∈ ts, (rowIndex t.2.1 t.2.2).toNat < (allOrdersRaw .pure L 3).length := by
  have hform : ∀ r ∈ allOrdersRaw .pureRadial L d, ∃ n l m : Int, r = [n, l, m] := by
    intro r hr
    obtain ⟨n, l, m, h, _⟩ := row_lookup_correct L d r hr
    exact ⟨n, l, m, h⟩
  obtain ⟨ts, hts⟩ := rows_as_triples _ hform
  refine ⟨ts, hts, ?_, ?_⟩
  · intro t ht
    have hmem : row3 t ∈ allOrdersRaw .pureRadial L d := by rw [hts]; exact List.mem_map_of_mem ht
    have hall : allOrdersRaw .pureRadial L d = (List.range L).flatMap fun i => pureRadialOrders (i + 1) := by
      simp [allOrdersRaw, lRange, hortonOrdersRaw, List.flatMap_map]
    rw [hall, List.mem_flatMap] at hmem
    obtain ⟨i, _, hmem⟩ := hmem
    obtain ⟨l', m', _, _, h⟩ := ((pure_radial_orders_spec (i + 1)).2.2.2.1 _).mp hmem
    simp only [row3, List.cons.injEq] at h
    rw [h.1]; exact Int.natCast_nonneg _
  · intro t ht
    have hmem : row3 t ∈ allOrdersRaw .pureRadial L d := by rw [hts]; exact List.mem_map_of_mem ht
    obtain ⟨n, l, m, he, _, _, _, hlook⟩ := row_lookup_correct L d _ hmem
    simp only [row3, List.cons.injEq, and_true] at he
    obtain ⟨_, h2, h3⟩ := he
    rw [h2, h3]
    exact (List.getElem?_eq_some_iff.mp hlook).1

/-- **The generated body of `for center in centers:` is the model's `perCentre`**, for every moment type: with the
order array the code built (`a`), the list of orders `0..L` / `1..L`, a well-formed grid, function values and a centre
of matching sizes — and, for the pure types, `tab` the table `solid_harmonics(L, convert_cart_to_sph(points − center))`
the code computes (rows as long as the grid; for pure-radial with the `(L+1)²` rows of the Horton-2 layout). -/
theorem gen_centre_eq_model (conv : List (List K) → Except Err (List (List K)))
    (solid : Int → List (List K) → Except Err (List (List K)))
    (ty : MomType) (L : Nat) (g : Grid K) (f c : List K) (a : IntArr) (tab s : List (List K))
    (ha : a.rows = allOrdersRaw ty L g.dim) (hd2 : ty ≠ .radial → a = .d2 (allOrdersRaw ty L g.dim))
    (hwf : g.WF) (hf : f.length = g.points.length) (hc : c.length = g.dim)
    (hL : ty = .pureRadial → 1 ≤ L) (hdimc : ty = .cartesian → g.dim = 1 ∨ g.dim = 2 ∨ g.dim = 3)
    (hsph : ty = .pure ∨ ty = .pureRadial → conv (g.points.map fun p => vsub p c) = .ok s ∧ solid (L : Int) s = .ok tab ∧
      ∀ r ∈ tab, r.length = g.points.length)
    (htl : ty = .pureRadial → tab.length = (allOrdersRaw .pure L 3).length) :
    momentsCentre conv solid g.points g.weights f (tyName ty) ((lRange ty L).map Int.ofNat) a c
      = perCentre ty (allOrdersRaw ty L g.dim) g f c tab := by
  cases ty with
  | cartesian =>
    rw [hd2 (by decide)]
    exact gen_centre_cartesian conv solid L g f c _ tab hwf hf hc (hdimc rfl)
  | radial => exact gen_centre_radial conv solid L g f c _ a tab ha hwf hf hc
  | pure =>
    obtain ⟨h1, h2, h3⟩ := hsph (Or.inl rfl)
    exact gen_centre_pure conv solid L g f c a tab s hwf hf hc h1 h2 h3
  | pureRadial =>
    obtain ⟨h1, h2, h3⟩ := hsph (Or.inr rfl)
    obtain ⟨ts, hts, hn, hidx⟩ := pure_radial_triples L g.dim
    have hne : ts ≠ [] := by
      intro h
      have := (pure_radial_orders_spec 1).2.2.2.2.1 L g.dim
      rw [hts, h] at this
      have h6 := this.2
      rw [← this.1] at h6
      simp at h6
      have := hL rfl
      omega
    rw [hd2 (by decide), hts]
    exact gen_centre_pure_radial conv solid L g f c ts tab s (hL rfl) hne hwf hf hc h1 h2 h3 hn
      (fun t ht => by
        have := hidx t ht
        rw [← htl rfl] at this
        exact ⟨_, List.getElem?_eq_getElem this⟩)

/-! ### the loop over the centres and the returned value -/

theorem foldlM_append {α β : Type} (cs : List α) (F : α → Except Err β) (init : List β) :
    cs.foldlM (fun acc c => do
        let x ← F c
        pure (acc ++ [x])) init = (cs.mapM F).map (init ++ ·) := by
  induction cs generalizing init with
  | nil => simp [List.foldlM_nil, List.mapM_nil, pure, Except.pure, Except.map]
  | cons c cs ih =>
    rw [List.foldlM_cons, List.mapM_cons]
    cases hF : F c with
    | error e => rfl
    | ok x =>
      simp only [ok_bind, pure_bind]
      rw [ih]
      cases cs.mapM F with
      | error e => rfl
      | ok xs => simp [Except.map, bind, Except.bind, pure, Except.pure]

end generic

/-! ### the property clause over the generated `Grid.moments` (ℝ) -/

noncomputable section

theorem npArrayT_map {ι κ : Type} (cs : List ι) (rows : List κ) (gf : ι → κ → ℝ) (hne : cs ≠ []) :
    npArrayT (cs.map fun c => rows.map (gf c)) = rows.map fun h => cs.map fun c => gf c h := by
  unfold npArrayT
  cases cs with
  | nil => exact absurd rfl hne
  | cons a t =>
    have := transpose_map (a :: t) rows gf
    simp only [List.map_cons, List.length_map] at this ⊢
    rw [this]

/-- **Entry = direct quadrature, over the generated text of `Grid.moments`** (`gridMoments`: the statements before
the loop over the centres, the loop with the branch of the moment type, `np.array(integrals).T`, `return_orders`).
For every moment type, maximal order `L` given as `int` / `np.int32` / `np.int64`, well-formed grid (point array
`(N, d)`, or `(N,)` with `d = 1`), `N` function values and `M ≥ 1` centres of width `d` (`d ∈ {1,2,3}` for Cartesian,
`d = 3` for the pure types, `L ≥ 1` for pure-radial): the call succeeds, entry `(k, centre)` of the returned matrix is
`Σ_i w_i f_i · basis_k(p_i − R_centre)` with `basis_k` the basis function named by row `k` of the stacked Horton order
list, and with `return_orders` the returned order array has exactly these rows (without it nothing else is returned).
`hsolid` is the C08 contract on `solid_harmonics(L, convert_cart_to_sph(points − R))`. -/
theorem gen_moments_entry (conv : List (List ℝ) → Except Err (List (List ℝ)))
    (solid : Int → List (List ℝ) → Except Err (List (List ℝ)))
    (ty : MomType) (L M : Nat) (g : Grid ℝ) (centres : List (List ℝ)) (f : List ℝ) (S : List ℤ → List ℝ → ℝ)
    (otype : String) (pshape : List Int) (ret : Bool)
    (hp : pshape = [(g.points.length : Int), (g.dim : Int)] ∨ (pshape = [(g.points.length : Int)] ∧ g.dim = 1))
    (hot : otype = "int" ∨ otype = "np.int32" ∨ otype = "np.int64")
    (hwf : g.WF) (hf : f.length = g.points.length)
    (hc : ∀ c ∈ centres, c.length = g.dim) (hne : centres ≠ [])
    (hL : ty = .pureRadial → 1 ≤ L)
    (hdimc : ty = .cartesian → g.dim = 1 ∨ g.dim = 2 ∨ g.dim = 3)
    (hdim3 : ty = .pure ∨ ty = .pureRadial → g.dim = 3)
    (hsolid : ty = .pure ∨ ty = .pureRadial → ∀ c ∈ centres, ∃ s,
      conv (g.points.map fun p => vsub p c) = .ok s ∧ solid (L : Int) s = .ok (solidTable S L g.points c)) :
    ∃ a : IntArr, a.rows = allOrdersRaw ty L g.dim ∧ (ty ≠ .radial ∨ 1 ≤ L → a = .d2 (allOrdersRaw ty L g.dim)) ∧
      gridMoments conv solid pshape g.points g.weights (L : Int) otype [(M : Int), (g.dim : Int)] centres
          [(g.points.length : Int)] f (tyName ty) ret
        = .ok ((allOrdersRaw ty L g.dim).map fun o => centres.map fun c => directQuad g f (basisFn ty S o) c,
               if ret then some a else none) := by
  obtain ⟨a, ha, har, had⟩ := gen_moments_orders_spec ty L g.points.length M g.dim otype pshape hp hot hL hdimc
  refine ⟨a, har, had, ?_⟩
  unfold gridMoments
  rw [ha, ok_bind]
  simp only []
  unfold momentsLoop
  simp only []
  rw [foldlM_append]
  have hcols : centres.mapM (fun c => momentsCentre conv solid g.points g.weights f (tyName ty)
        ((lRange ty L).map Int.ofNat) a c)
      = .ok (centres.map fun c => (allOrdersRaw ty L g.dim).map fun o => directQuad g f (basisFn ty S o) c) := by
    apply mapM_ok
    intro c hcm
    by_cases hpt : ty = .pure ∨ ty = .pureRadial
    · obtain ⟨s, hs1, hs2⟩ := hsolid hpt c hcm
      rw [gen_centre_eq_model conv solid ty L g f c a (solidTable S L g.points c) s har
        (fun h => had (Or.inl h)) hwf hf (hc c hcm) hL hdimc
        (fun _ => ⟨hs1, hs2, by intro r hr; simp only [solidTable, List.mem_map] at hr; obtain ⟨_, _, rfl⟩ := hr; simp⟩)
        (fun _ => by simp [solidTable])]
      have := perCentre_eq ty L g f S c hdim3
      rw [if_pos hpt] at this
      exact this
    · rw [gen_centre_eq_model conv solid ty L g f c a [] [] har
        (fun h => had (Or.inl h)) hwf hf (hc c hcm) hL hdimc
        (fun h => absurd h hpt) (fun h => absurd (Or.inr h) hpt)]
      have := perCentre_eq ty L g f S c hdim3
      rw [if_neg hpt] at this
      exact this
  rw [hcols]
  simp only [Except.map, List.nil_append, ok_bind]
  rw [npArrayT_map _ _ (fun c o => directQuad g f (basisFn ty S o) c) hne]
  cases ret <;> rfl

/-- Non-vacuity: the hypotheses of `gen_moments_entry` are satisfiable — pure-radial, `L = 2`, two centres, with
`convert_cart_to_sph` the identity and `solid_harmonics` the table of an arbitrary function. -/
example : ∃ a : IntArr, a.rows = [[1, 0, 0], [2, 0, 0], [2, 1, 0], [2, 1, 1], [2, 1, -1]] ∧
    gridMoments (fun p => .ok p) (fun _ s => .ok ((allOrdersRaw .pure 2 3).map fun lm => s.map fun d => exS lm d))
        [2, 3] exG.points exG.weights 2 "int" [2, 3] [[0, 0, 1], [1, 1, 1]] [2] [1, -1] "pure-radial" true
      = .ok ((allOrdersRaw .pureRadial 2 3).map fun o => [[0, 0, 1], [1, 1, 1]].map fun c =>
              directQuad exG [1, -1] (basisFn .pureRadial exS o) c, some a) := by
  obtain ⟨a, h1, _, h3⟩ := gen_moments_entry (fun p => .ok p)
    (fun _ s => .ok ((allOrdersRaw .pure 2 3).map fun lm => s.map fun d => exS lm d))
    .pureRadial 2 2 exG [[0, 0, 1], [1, 1, 1]] [1, -1] exS "int" [2, 3] true (Or.inl rfl) (Or.inl rfl)
    ⟨rfl, by simp [exG]⟩ rfl (by simp [exG]) (by simp) (fun _ => by omega) (fun h => by cases h) (fun _ => rfl)
    (fun _ c _ => ⟨_, rfl, by simp [solidTable, List.map_map, Function.comp_def]⟩)
  exact ⟨a, h1, h3⟩

end

end GridVerif.C14

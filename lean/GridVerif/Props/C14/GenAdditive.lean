/-
  C14 over the generated text, round 6: what only the input generators had caught.

  * `gen_moments_additive`, `gen_integrate_additive`: the generated `Grid.moments` / `Grid.integrate` are additive over ANY
    split of the grid (points, weights and function values cut at the same place), for every number of points — together
    with `gen_moments_entry` / `gen_integrate_spec` (every row is the full sum over all points) this is what a block-wise
    evaluation that drops or doubles a remainder violates (seeded changes C14-g, C02-g);
  * `gen_returns_fresh`: no carried function is decorated (no memoisation) and everything it returns is made by a call
    inside it — never an argument or an object that outlives the call (seeded change C14-h: `lru_cache` on
    `generate_orders_horton_order` handing out one shared, mutable table).
-/
import GridVerif.Props.C14.GenDipole

namespace GridVerif.C14
open GridVerif.Moments GridVerif.Gen.Moments GridVerif.Gen.MomentsNum

/-- **Freshness / no aliasing of what is returned** (syntactic effects fact regenerated from the source): none of
`generate_orders_horton_order`, `dipole_moment_of_molecule`, `Grid.moments`, `Grid.integrate` carries a decorator, and
every value they return originates in a constructor call / literal / arithmetic inside the function — no parameter and no
module-level or attribute-held object is handed out, so two calls never share a mutable result. -/
theorem gen_returns_fresh :
    returnOrigins.map (·.1) = ["utils.generate_orders_horton_order", "utils.dipole_moment_of_molecule",
      "basegrid.Grid.moments", "basegrid.Grid.integrate"] ∧
    ∀ r ∈ returnOrigins, r.2.1 = [] ∧
      ∀ o ∈ r.2.2, o ∈ ["call:np.array", "call:np.einsum", "call:np.vstack", "call:generate_orders_horton_order",
        "method:flatten", "literal", "arith"] := by decide

noncomputable section

theorem directQuad_append (d : Nat) (p1 p2 : List (List ℝ)) (w1 w2 f1 f2 : List ℝ) (b : List ℝ → ℝ) (c : List ℝ)
    (hw : w1.length = p1.length) (hf : f1.length = p1.length) :
    directQuad ⟨d, p1 ++ p2, w1 ++ w2⟩ (f1 ++ f2) b c = directQuad ⟨d, p1, w1⟩ f1 b c + directQuad ⟨d, p2, w2⟩ f2 b c := by
  unfold directQuad
  simp only
  rw [List.zip_append (by rw [hw, hf]), List.zip_append (by simp [hw, hf]), List.map_append, List.sum_append]

/-- **The generated `Grid.moments` is additive over any split of the grid**: for a grid cut into two parts at any place
(`N₁ + N₂` points, every `N₁`, `N₂`), every entry of the answer on the whole grid is the sum of the entries on the parts —
and each of the three calls succeeds with entries that are the full sums over its points. -/
theorem gen_moments_additive (conv : List (List ℝ) → Except Err (List (List ℝ)))
    (solid : Int → List (List ℝ) → Except Err (List (List ℝ)))
    (ty : MomType) (L M d : Nat) (p1 p2 : List (List ℝ)) (w1 w2 f1 f2 : List ℝ) (centres : List (List ℝ))
    (S : List ℤ → List ℝ → ℝ)
    (hw1 : w1.length = p1.length) (hw2 : w2.length = p2.length) (hf1 : f1.length = p1.length) (hf2 : f2.length = p2.length)
    (hp1 : ∀ p ∈ p1, p.length = d) (hp2 : ∀ p ∈ p2, p.length = d)
    (hc : ∀ c ∈ centres, c.length = d) (hne : centres ≠ [])
    (hL : ty = .pureRadial → 1 ≤ L) (hdimc : ty = .cartesian → d = 1 ∨ d = 2 ∨ d = 3)
    (hdim3 : ty = .pure ∨ ty = .pureRadial → d = 3)
    (hsolid : ty = .pure ∨ ty = .pureRadial → ∀ pts ∈ [p1 ++ p2, p1, p2], ∀ c ∈ centres, ∃ s,
      conv (pts.map fun p => vsub p c) = .ok s ∧ solid (L : Int) s = .ok (solidTable S L pts c)) :
    ∃ a a1 a2 : IntArr,
      gridMoments conv solid [((p1 ++ p2).length : Int), (d : Int)] (p1 ++ p2) (w1 ++ w2) (L : Int) "int" [(M : Int), (d : Int)]
          centres [((p1 ++ p2).length : Int)] (f1 ++ f2) (tyName ty) true
        = .ok ((allOrdersRaw ty L d).map fun o => centres.map fun c =>
            directQuad ⟨d, p1, w1⟩ f1 (basisFn ty S o) c + directQuad ⟨d, p2, w2⟩ f2 (basisFn ty S o) c, some a) ∧
      gridMoments conv solid [(p1.length : Int), (d : Int)] p1 w1 (L : Int) "int" [(M : Int), (d : Int)] centres [(p1.length : Int)] f1 (tyName ty) true
        = .ok ((allOrdersRaw ty L d).map fun o => centres.map fun c => directQuad ⟨d, p1, w1⟩ f1 (basisFn ty S o) c, some a1) ∧
      gridMoments conv solid [(p2.length : Int), (d : Int)] p2 w2 (L : Int) "int" [(M : Int), (d : Int)] centres [(p2.length : Int)] f2 (tyName ty) true
        = .ok ((allOrdersRaw ty L d).map fun o => centres.map fun c => directQuad ⟨d, p2, w2⟩ f2 (basisFn ty S o) c, some a2) := by
  obtain ⟨a, _, _, h⟩ := gen_moments_entry conv solid ty L M ⟨d, p1 ++ p2, w1 ++ w2⟩ centres (f1 ++ f2) S "int"
    [((p1 ++ p2).length : Int), (d : Int)] true (Or.inl rfl) (Or.inl rfl)
    ⟨by simp [hw1, hw2], by intro p hp; rcases List.mem_append.mp hp with h | h; exacts [hp1 p h, hp2 p h]⟩
    (by simp [hf1, hf2]) hc hne hL hdimc hdim3
    (fun ht c hcm => hsolid ht (p1 ++ p2) (by simp) c hcm)
  obtain ⟨a1, _, _, h1⟩ := gen_moments_entry conv solid ty L M ⟨d, p1, w1⟩ centres f1 S "int"
    [(p1.length : Int), (d : Int)] true (Or.inl rfl) (Or.inl rfl) ⟨hw1.symm, hp1⟩ hf1 hc hne hL hdimc hdim3
    (fun ht c hcm => hsolid ht p1 (by simp) c hcm)
  obtain ⟨a2, _, _, h2⟩ := gen_moments_entry conv solid ty L M ⟨d, p2, w2⟩ centres f2 S "int"
    [(p2.length : Int), (d : Int)] true (Or.inl rfl) (Or.inl rfl) ⟨hw2.symm, hp2⟩ hf2 hc hne hL hdimc hdim3
    (fun ht c hcm => hsolid ht p2 (by simp) c hcm)
  refine ⟨a, a1, a2, ?_, ?_, ?_⟩
  · simp only [if_true] at h
    rw [h]
    congr 2
    apply List.map_congr_left
    intro o _
    apply List.map_congr_left
    intro c _
    exact directQuad_append d p1 p2 w1 w2 f1 f2 _ c hw1 hf1
  · simpa using h1
  · simpa using h2

theorem foldl_zipWith_append (parts : List (List ℝ × List ℝ)) (w1 w2 : List ℝ)
    (h : ∀ p ∈ parts, p.1.length = w1.length) :
    (parts.map fun p => p.1 ++ p.2).foldl (fun acc r => List.zipWith (· * ·) acc r) (w1 ++ w2)
      = (parts.map (·.1)).foldl (fun acc r => List.zipWith (· * ·) acc r) w1
        ++ (parts.map (·.2)).foldl (fun acc r => List.zipWith (· * ·) acc r) w2 := by
  induction parts generalizing w1 w2 with
  | nil => rfl
  | cons p ps ih =>
    simp only [List.map_cons, List.foldl_cons]
    rw [List.zipWith_append (by rw [h p List.mem_cons_self])]
    apply ih
    intro q hq
    rw [h q (List.mem_cons_of_mem _ hq)]
    simp [h p List.mem_cons_self]

/-- **The generated `Grid.integrate` is additive over any split of the grid**: weights and every value array cut at the
same place (`N₁ + N₂` points, every `N₁`, `N₂`, one or more arrays): the integral over the whole grid is the sum of the
integrals over the two parts, each being `Σ_i w_i Π_k a_k[i]` over all of its points. -/
theorem gen_integrate_additive (w1 w2 : List ℝ) (parts : List (List ℝ × List ℝ)) (hne : parts ≠ [])
    (h : ∀ p ∈ parts, p.1.length = w1.length ∧ p.2.length = w2.length) :
    gridIntegrate ((w1 ++ w2).length : Int) (w1 ++ w2) ((parts.map fun p => p.1 ++ p.2).map fun a => PyArg.ndarray [(a.length : Int)] a)
      = .ok (integrateRef w1 (parts.map (·.1)) + integrateRef w2 (parts.map (·.2))) ∧
    gridIntegrate (w1.length : Int) w1 ((parts.map (·.1)).map fun a => PyArg.ndarray [(a.length : Int)] a)
      = .ok (integrateRef w1 (parts.map (·.1))) ∧
    gridIntegrate (w2.length : Int) w2 ((parts.map (·.2)).map fun a => PyArg.ndarray [(a.length : Int)] a)
      = .ok (integrateRef w2 (parts.map (·.2))) := by
  refine ⟨?_, ?_, ?_⟩
  · rw [(gen_integrate_spec (w1 ++ w2) (parts.map fun p => p.1 ++ p.2) (by simpa using hne) (by
      intro a ha
      rw [List.mem_map] at ha
      obtain ⟨p, hp, rfl⟩ := ha
      simp [(h p hp).1, (h p hp).2])).1]
    unfold integrateRef
    rw [foldl_zipWith_append parts w1 w2 (fun p hp => (h p hp).1), List.sum_append]
  · exact (gen_integrate_spec w1 (parts.map (·.1)) (by simpa using hne) (by
      intro a ha
      rw [List.mem_map] at ha
      obtain ⟨p, hp, rfl⟩ := ha
      exact (h p hp).1)).1
  · exact (gen_integrate_spec w2 (parts.map (·.2)) (by simpa using hne) (by
      intro a ha
      rw [List.mem_map] at ha
      obtain ⟨p, hp, rfl⟩ := ha
      exact (h p hp).2)).1

/-- Non-vacuity: three points split 1 + 2, two value arrays. -/
example : gridIntegrate 3 ([2] ++ [1, 3]) [PyArg.ndarray [3] ([1] ++ [2, -1]), PyArg.ndarray [3] ([5] ++ [0, 2])]
    = .ok (integrateRef [2] [[1], [5]] + integrateRef [1, 3] [[2, -1], [0, 2]]) :=
  (gen_integrate_additive [2] [1, 3] [([1], [2, -1]), ([5], [0, 2])] (by simp) (by simp)).1

/-- Non-vacuity: the two-point grid of `Values.lean` split 1 + 1, Cartesian `L = 1`, one centre. -/
example : ∃ a, gridMoments (fun p => .ok p) (fun _ _ => .error .keyError) [2, 3] ([[1, 0, 0]] ++ [[0, 2, 1]]) ([1] ++ [2]) 1 "int" [1, 3]
      [[0, 0, 1]] [2] ([1] ++ [-1]) "cartesian" true
    = .ok ((allOrdersRaw .cartesian 1 3).map fun o => [[0, 0, 1]].map fun c =>
        directQuad ⟨3, [[1, 0, 0]], [1]⟩ [1] (basisFn .cartesian exS o) c + directQuad ⟨3, [[0, 2, 1]], [2]⟩ [-1] (basisFn .cartesian exS o) c, some a) := by
  obtain ⟨a, _, _, h, _, _⟩ := gen_moments_additive (fun p => .ok p) (fun _ _ => .error .keyError) .cartesian 1 1 3
    [[1, 0, 0]] [[0, 2, 1]] [1] [2] [1] [-1] [[0, 0, 1]] exS rfl rfl rfl rfl (by simp) (by simp) (by simp) (by simp)
    (fun h => by cases h) (fun _ => by simp) (fun h => by rcases h with h | h <;> cases h) (fun h => by rcases h with h | h <;> cases h)
  exact ⟨a, h⟩

end

end GridVerif.C14

/-
  C06, part 11 (round 6) — clauses that stored seeded changes violated and that only the input generators had caught,
  stated over the GENERATED routines (`Gen/BeckeRoutes.lean`).  The translator now carries the changed shapes (an early
  `if not np.any(points): return weights`, an `if …: break` / `continue` in the sector loop) instead of refusing them, so
  under such a change it is these statements (and the `…_generated` equalities they rest on) that no longer check.
-/
import GridVerif.Props.C06.Select

set_option linter.unusedVariables false   -- (`hempty` of (47) names the instance; the conclusion holds with or without empty segments)

namespace GridVerif.C06
open GridVerif.Becke GridVerif.BeckePy GridVerif.Gen.Becke GridVerif.Gen.BeckeRoutes

section
variable (self : BW (Option ℝ)) (atc : List (V3 ℝ)) (nums : List ℤ) (radii : List ℝ)
  (hr : nums.mapM (radiusCAW self.radii) = .ok radii)
include hr

/-- (45) **Every point is weighted on its own, the origin included** (`compute_atom_weight`, generated): for ANY point
set — one point, several identical points, points whose coordinates are all `0` — entry `j` of the result is the Becke
weight of atom `k` at `points[j]`; nothing depends on the other points of the set.  (Stored change C06-f: an early
`return` of zeros when `np.any(points)` is false, i.e. for a segment that consists of the origin only.) -/
theorem compute_atom_weight_pointwise (pts : List (V3 ℝ)) (k : ℕ) (hk : k < atc.length) (c : ℝ) :
    compute_atom_weight self pts atc nums k c
      = .ok (pts.map fun p => weight (routeCAW c) (molOf atc radii) self.order.toNat p k) := by
  rw [compute_atom_weight_generated self pts atc nums radii hr k c]
  unfold computeAtomWeight
  simp only [show ¬ atc.length ≤ k by omega, if_false]

/-- (45') the instance the stored change C06-f breaks: a section that consists of the Cartesian origin (once or several
times) gets the weight of the atom there — not `0`. -/
theorem compute_atom_weight_origin (n : ℕ) (k : ℕ) (hk : k < atc.length) (c : ℝ) :
    compute_atom_weight self (List.replicate n ⟨0, 0, 0⟩) atc nums k c
      = .ok (List.replicate n (weight (routeCAW c) (molOf atc radii) self.order.toNat ⟨0, 0, 0⟩ k)) := by
  rw [compute_atom_weight_pointwise self atc nums radii hr _ k hk c, List.map_replicate]

/-- (46) **Additivity over a split of the points** (`compute_atom_weight`, generated): the answer on `p₁ ++ p₂` is the
answer on `p₁` followed by the answer on `p₂`, for every cut (a block loop that drops a remainder, an early return for
one of the parts, a dependence on the order or on the neighbours of a point all contradict this). -/
theorem compute_atom_weight_split (p₁ p₂ : List (V3 ℝ)) (k : ℕ) (c : ℝ) :
    compute_atom_weight self (p₁ ++ p₂) atc nums k c
      = (do let a ← compute_atom_weight self p₁ atc nums k c
            let b ← compute_atom_weight self p₂ atc nums k c
            pure (a ++ b)) := by
  simp only [compute_atom_weight_generated self _ atc nums radii hr k c]
  unfold computeAtomWeight
  by_cases hk : atc.length ≤ k
  · simp only [hk, if_true]; rfl
  · simp only [hk, if_false, List.map_append]; rfl

end

section
variable (self : BW (Option ℝ)) (pts atc : List (V3 ℝ)) (nums : List ℤ) (radii : List ℝ)
  (hr : nums.mapM (radiusGW self.radii) = .ok radii)
include hr

/-- (47) **Every segment gets its owner's weight whatever the other segments are** (`compute_weights`, generated): on a
monotone table in which segment `e` is EMPTY (`t[e] = t[e+1]`), a point of any later segment `i > e` still receives the
weight of atom `i`.  (Stored change C06-i: `break` instead of `continue` at an empty sector.) -/
theorem compute_weights_after_empty_segment (sl : List ℕ) (t : List ℤ) (hn : 2 ≤ sl.length) (ht : IndexTable t sl.length)
    (hM : ∀ i ∈ sl, i < sl.length ∧ i < atc.length) (e : ℕ) (he : e + 1 < t.length) (hempty : t[e] = t[e + 1]) :
    ∃ r, compute_weights self pts atc nums (.seq sl) (some t) = .ok r ∧ ∃ hl : r.length = pts.length,
      ∀ (j i : ℕ) (hj : j < pts.length) (hi : i < sl.length), e < i →
        t[i]'(by have := ht.length; omega) ≤ j ∧ (j : ℤ) < t[i + 1]'(by have := ht.length; omega) →
        r[j] = (sl.count i : ℝ) * weight routeGW (molOf atc radii) self.order.toNat pts[j] i := by
  obtain ⟨r, h1, hl, h2⟩ := compute_select_owner self pts atc nums radii hr sl t hn ht hM
  exact ⟨r, h1, hl, fun j i hj hi _ hin => h2 j i hj hi hin⟩

end

/-- non-vacuity of (47): three atoms, `select = [0, 1, 2]`, the table `tab3 = [0, 2, 2, 5]` — segment 1 is empty, segment 2
(points 2, 3, 4) comes after it. -/
example : 2 ≤ ([0, 1, 2] : List ℕ).length ∧ IndexTable tab3 ([0, 1, 2] : List ℕ).length ∧
    (∀ i ∈ ([0, 1, 2] : List ℕ), i < ([0, 1, 2] : List ℕ).length ∧ i < 3) ∧ tab3[1]! = tab3[2]! ∧ (1 < 2) ∧
    (tab3[2]! ≤ (3 : ℤ) ∧ (3 : ℤ) < tab3[3]!) :=
  ⟨by decide, tab3_ok, by decide, by decide, by decide, by decide⟩

/-- non-vacuity of (45)/(46): the hypothesis `hr` holds for a dictionary that has the elements (here H and C with radii
1 and 2), `k = 1 < 2` atoms; the origin replicated twice is a legal point set. -/
example : [(1 : ℤ), 6].mapM (radiusCAW ([(1, some (1 : ℝ)), (6, some 2)] : PyDict (Option ℝ))) = .ok [1, 2] ∧
    (List.replicate 2 (⟨0, 0, 0⟩ : V3 ℝ)).length = 2 := by
  constructor
  · simp [radiusCAW, pyDictGetItem, List.mapM_cons, bind, Except.bind, pure, Except.pure]
  · rfl

end GridVerif.C06

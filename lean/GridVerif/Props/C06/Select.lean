/-
  C06, part 5 — what the two segment-wise routes compute for an **explicit `select`** (code as it is; outside the
  quantifier of C06, which is about the default `select`; DESIGN 8.3).  Both general formulas are proved about the
  *generated* `generate_weights` / `compute_weights`, so a change of either loop is visible here:

  * `generate_weights(select=sel, pt_ind=t)`:  point `j` gets  Σ_{sector i ∋ j}  w(p_j, sel[i])   — atom `sel[i]` on sector `i`;
  * `compute_weights (select=sel, pt_ind=t)`:  point `j` gets  Σ_{i ∈ sel, sector i ∋ j}  w(p_j, i) — atom `i` on sector `i`,
    once per occurrence of `i` in `sel`: the order of `sel` is irrelevant, a repeated entry counts twice, a missing one
    leaves its sector at zero.
-/
import GridVerif.Props.C06.Routes

set_option linter.unusedSimpArgs false

namespace GridVerif.C06
open GridVerif.Becke GridVerif.BeckePy GridVerif.Gen.Becke GridVerif.Gen.BeckeRoutes

section
variable (self : BW (Option ℝ)) (pts atc : List (V3 ℝ)) (nums : List ℤ) (radii : List ℝ)
  (hr : nums.mapM (radiusGW self.radii) = .ok radii)
include hr

/-- the Becke weight of atom `k` at `p` for this object and molecule. -/
local notation "W" => weight routeGW (molOf atc radii) self.order.toNat

/-- (24) **`generate_weights` with explicit `select`, general formula**: `n ≥ 2` sectors, `pt_ind` of length `n + 1`
(any integers: not monotone, negative = Python wrap-around, beyond `N` = clipped), atoms `< M`:
entry `j` is the sum of `w(p_j, select[i])` over the sectors `i` whose slice `pt_ind[i] : pt_ind[i+1]` contains `j`. -/
theorem generate_select_formula (sl : List ℕ) (t : List ℤ) (hn : 2 ≤ sl.length) (ht : t.length = sl.length + 1)
    (hM : ∀ k ∈ sl, k < atc.length) :
    generate_weights self pts atc nums (.seq sl) (some t)
      = .ok (pts.mapIdx fun j p =>
          (((List.range sl.length).filter fun i => inSlice pts.length (t.getD i 0) (t.getD (i + 1) 0) j).map
            fun i => W p (sl.getD i 0)).sum) := by
  rw [generate_weights_generated self pts atc nums radii hr]
  unfold generateWeights selOpt
  have hany : (sl.any fun k => decide (atc.length ≤ k)) = false := by
    rw [List.any_eq_false]; intro k hk; simpa using hM k hk
  simp only [Option.getD_some]
  rw [if_neg (by omega), if_neg (by simp; omega), if_neg (by simp [hany]), if_neg (by omega)]
  congr 2
  funext j p
  rw [secsZip_eq_map t sl sl.length ht rfl]
  unfold accumulate
  rw [List.foldl_map, foldl_masked_add_eq_sum]
  simp

/-- (25) **`compute_weights` with explicit `select`, general formula**: `n ≥ 2` entries in `select`, `pt_ind` of
length `n + 1`, every entry `i` of `select` an atom index with `i + 1 < len(pt_ind)`:
entry `j` is the sum of `w(p_j, i)` over the entries `i` of `select` (with multiplicity) whose slice
`pt_ind[i] : pt_ind[i+1]` contains `j` — the position of `i` inside `select` plays no role. -/
theorem compute_select_formula (sl : List ℕ) (t : List ℤ) (hn : 2 ≤ sl.length) (ht : t.length = sl.length + 1)
    (hM : ∀ i ∈ sl, i + 1 < t.length ∧ i < atc.length) :
    compute_weights self pts atc nums (.seq sl) (some t)
      = .ok (pts.mapIdx fun j p =>
          ((sl.filter fun i => inSlice pts.length (t.getD i 0) (t.getD (i + 1) 0) j).map fun i => W p i).sum) := by
  rw [compute_weights_generated self pts atc nums radii hr, routes_formula_agree.1]
  unfold computeWeights selOpt
  have hany1 : (sl.any fun i => decide (t.length ≤ i + 1)) = false := by
    rw [List.any_eq_false]; intro k hk; have := (hM k hk).1; simp; omega
  have hany2 : (sl.any fun k => decide (atc.length ≤ k)) = false := by
    rw [List.any_eq_false]; intro k hk; simpa using (hM k hk).2
  simp only [Option.getD_some]
  rw [if_neg (by omega), if_neg (by simp; omega), if_neg (by omega), if_neg (by simp [hany1]), if_neg (by simp [hany2])]
  congr 2
  funext j p
  unfold accumulate secsIdx
  rw [List.foldl_map, foldl_masked_add_eq_sum]
  simp

/-- (26) **`compute_weights` ignores the order of `select`**: for a `select` that is a permutation of `0 … M-1` the
generated `compute_weights` returns exactly what it returns for the default `select` — for every `pt_ind` (result or
exception). -/
theorem compute_select_perm (sl : List ℕ) (hp : sl.Perm (List.range atc.length)) (pt : Option (List ℤ)) :
    compute_weights self pts atc nums (.seq sl) pt = compute_weights self pts atc nums .none pt := by
  rw [compute_weights_generated self pts atc nums radii hr, compute_weights_generated self pts atc nums radii hr]
  unfold computeWeights selOpt
  have hl : sl.length = atc.length := by simpa using hp.length_eq
  simp only [Option.getD_some, Option.getD_none, hl, List.length_range]
  generalize pt.getD [] = t
  by_cases h1 : t.length = 1
  · simp [h1]
  · simp only [h1, if_false]
    by_cases h2 : max (t.length - 1) 1 = atc.length
    · simp only [h2, ne_eq, not_true_eq_false, if_false]
      by_cases h3 : atc.length = 1
      · have : sl = [0] := by
          have := hp; rw [h3] at this
          exact List.perm_singleton.mp this
        simp [h3, this]
      · simp only [h3, if_false]
        rw [hp.any_eq, hp.any_eq]
        congr 4
        funext j p
        unfold accumulate secsIdx
        rw [List.foldl_map, List.foldl_map, foldl_masked_add_eq_sum, foldl_masked_add_eq_sum]
        congr 1
        exact ((hp.filter _).map _).sum_eq
    · simp [h2]

end

/-! ### on a monotone table -/

/-- in a monotone table the only sector containing a position of segment `i` is `i`. -/
theorem inSlice_getD_iff {t : List ℤ} {M N : ℕ} (h : IndexTable t M) {i j : ℕ} (hi : i < M) (hj : j < N)
    (hin : t[i]'(by have := h.length; omega) ≤ j ∧ (j : ℤ) < t[i + 1]'(by have := h.length; omega))
    (x : ℕ) (hx : x < M) : inSlice N (t.getD x 0) (t.getD (x + 1) 0) j = decide (x = i) := by
  have hl := h.length
  rw [← List.getElem_eq_getD (h := by omega), ← List.getElem_eq_getD (h := by omega)]
  by_cases hxi : x = i
  · subst hxi
    have n1 := h.nonneg _ (List.getElem_mem (show x < t.length by omega))
    have n2 := h.nonneg _ (List.getElem_mem (show x + 1 < t.length by omega))
    simp only [decide_true]
    exact (inSlice_iff n1 n2 hj).mpr hin
  · simp only [hxi, decide_false]
    exact h.unique hi hj hin x hx hxi

section
variable (self : BW (Option ℝ)) (pts atc : List (V3 ℝ)) (nums : List ℤ) (radii : List ℝ)
  (hr : nums.mapM (radiusGW self.radii) = .ok radii)
include hr

local notation "W" => weight routeGW (molOf atc radii) self.order.toNat

/-- (27) **explicit `select`, monotone table, `generate_weights`**: a point of segment `i` gets the weight of atom
`select[i]` — the order of `select` is honoured. -/
theorem generate_select_owner (sl : List ℕ) (t : List ℤ) (hn : 2 ≤ sl.length) (ht : IndexTable t sl.length)
    (hM : ∀ k ∈ sl, k < atc.length) :
    ∃ r, generate_weights self pts atc nums (.seq sl) (some t) = .ok r ∧ ∃ hl : r.length = pts.length,
      ∀ (j i : ℕ) (hj : j < pts.length) (hi : i < sl.length),
        t[i]'(by have := ht.length; omega) ≤ j ∧ (j : ℤ) < t[i + 1]'(by have := ht.length; omega) →
        r[j] = W pts[j] sl[i] := by
  refine ⟨_, generate_select_formula self pts atc nums radii hr sl t hn ht.length hM, by simp, ?_⟩
  intro j i hj hi hin
  simp only [List.getElem_mapIdx]
  have : ((List.range sl.length).filter fun x => inSlice pts.length (t.getD x 0) (t.getD (x + 1) 0) j)
      = (List.range sl.length).filter fun x => decide (x = i) := by
    apply List.filter_congr
    intro x hx
    exact inSlice_getD_iff ht hi hj hin x (List.mem_range.mp hx)
  rw [this]
  have h2 : (List.range sl.length).filter (fun x => decide (x = i)) = [i] := by
    have hnd : (List.range sl.length).Nodup := List.nodup_range
    have hmem : i ∈ List.range sl.length := List.mem_range.mpr hi
    rw [show (fun x => decide (x = i)) = (fun x => x == i) from rfl, List.filter_beq,
      List.count_eq_one_of_mem hnd hmem]
    rfl
  rw [h2]
  simp [List.getElem?_eq_getElem hi]

/-- (28) **explicit `select`, monotone table, `compute_weights`**: a point of segment `i` gets
`(number of occurrences of i in select) · w(p, i)` — atom `i`, whatever the position of `i` in `select`. -/
theorem compute_select_owner (sl : List ℕ) (t : List ℤ) (hn : 2 ≤ sl.length) (ht : IndexTable t sl.length)
    (hM : ∀ i ∈ sl, i < sl.length ∧ i < atc.length) :
    ∃ r, compute_weights self pts atc nums (.seq sl) (some t) = .ok r ∧ ∃ hl : r.length = pts.length,
      ∀ (j i : ℕ) (hj : j < pts.length) (hi : i < sl.length),
        t[i]'(by have := ht.length; omega) ≤ j ∧ (j : ℤ) < t[i + 1]'(by have := ht.length; omega) →
        r[j] = (sl.count i : ℝ) * W pts[j] i := by
  have hlen := ht.length
  refine ⟨_, compute_select_formula self pts atc nums radii hr sl t hn hlen
    (fun i hi => ⟨by have := (hM i hi).1; omega, (hM i hi).2⟩), by simp, ?_⟩
  intro j i hj hi hin
  simp only [List.getElem_mapIdx]
  have : (sl.filter fun x => inSlice pts.length (t.getD x 0) (t.getD (x + 1) 0) j) = sl.filter fun x => x == i := by
    apply List.filter_congr
    intro x hx
    rw [inSlice_getD_iff ht hi hj hin x (hM x hx).1]
    rfl
  rw [this, List.filter_beq, List.map_replicate, List.sum_replicate, nsmul_eq_mul]

end

/-- non-vacuity of (27)/(28): three atoms, `select = [2, 0, 1]`, the table `tab3 = [0, 2, 2, 5]`. -/
example : 2 ≤ ([2, 0, 1] : List ℕ).length ∧ IndexTable tab3 ([2, 0, 1] : List ℕ).length ∧
    (∀ i ∈ ([2, 0, 1] : List ℕ), i < ([2, 0, 1] : List ℕ).length ∧ i < 3) :=
  ⟨by decide, tab3_ok, by decide⟩

/-- the witness of `routes_differ_explicit_select`, read through (27)/(28): `select = [1, 0]`. -/
example : ([1, 0] : List ℕ).count 0 = 1 ∧ ([1, 0] : List ℕ)[0] = 1 := by decide

end GridVerif.C06

/-
  C06, part 3 — every supported element gets a positive radius: the nan fall-back
  (`r[Z-1]`, then `r[Z-2]`) on the regenerated Bragg–Slater table.
-/
import GridVerif.Lemmas.Becke

namespace GridVerif.C06
open GridVerif.Becke GridVerif.Gen.Becke

/-- the dictionary of `__init__` over an arbitrary table (`braggDict` is this at the generated table). -/
noncomputable def dictOf (tbl : List (Option (ℕ × ℕ))) : RadDict ℝ := fun z =>
  if z = 0 then none
  else (tbl[z - 1]?).map (Option.map fun pq => ((pq.1 : ℕ) : ℝ) / ((pq.2 : ℕ) : ℝ))

theorem braggDict_eq : (braggDict : RadDict ℝ) = dictOf braggRadii := rfl

/-- decidable table check: the entry of `Z`, or of `Z-1`, or of `Z-2` (in the order the code looks them up)
is a positive quotient. -/
def goodAt (tbl : List (Option (ℕ × ℕ))) (z : ℕ) : Bool :=
  match tbl[z - 1]? with
  | none => false
  | some (some pq) => decide (0 < pq.1 ∧ 0 < pq.2)
  | some none =>
    decide (2 ≤ z) &&
    match tbl[z - 2]? with
    | none => false
    | some (some pq) => decide (0 < pq.1 ∧ 0 < pq.2)
    | some none =>
      decide (3 ≤ z) &&
      match tbl[z - 3]? with
      | some (some pq) => decide (0 < pq.1 ∧ 0 < pq.2)
      | _ => false

theorem quot_pos {pq : ℕ × ℕ} (h : 0 < pq.1 ∧ 0 < pq.2) : (0 : ℝ) < ((pq.1 : ℕ) : ℝ) / ((pq.2 : ℕ) : ℝ) :=
  div_pos (Nat.cast_pos.mpr h.1) (Nat.cast_pos.mpr h.2)

theorem effRadius_of_goodAt (tbl : List (Option (ℕ × ℕ))) (z : ℕ) (hz : 1 ≤ z) (h : goodAt tbl z = true) :
    ∃ r, effRadius (dictOf tbl) z = .ok r ∧ 0 < r := by
  unfold goodAt at h
  have hz0 : z ≠ 0 := by omega
  rcases h1 : tbl[z - 1]? with _ | (_ | pq)
  · simp [h1] at h
  · -- nan at Z
    simp only [h1, Bool.and_eq_true, decide_eq_true_eq] at h
    obtain ⟨hz2, h⟩ := h
    have d0 : dictOf tbl z = some none := by simp [dictOf, hz0, h1]
    have hz1 : z - 1 ≠ 0 := by omega
    have e1 : z - 1 - 1 = z - 2 := by omega
    rcases h2 : tbl[z - 2]? with _ | (_ | pq)
    · simp [h2] at h
    · -- nan at Z-1 as well
      simp only [h2, Bool.and_eq_true, decide_eq_true_eq] at h
      obtain ⟨hz3, h⟩ := h
      have d1 : dictOf tbl (z - 1) = some none := by simp [dictOf, hz1, e1, h2]
      have hz2' : z - 2 ≠ 0 := by omega
      have e2 : z - 2 - 1 = z - 3 := by omega
      rcases h3 : tbl[z - 3]? with _ | (_ | pq)
      · simp [h3] at h
      · simp [h3] at h
      · simp only [h3, decide_eq_true_eq] at h
        have d2 : dictOf tbl (z - 2) = some (some (((pq.1 : ℕ) : ℝ) / ((pq.2 : ℕ) : ℝ))) := by
          simp [dictOf, hz2', e2, h3]
        refine ⟨_, ?_, quot_pos h⟩
        unfold effRadius
        simp only [d0, d1, d2]
        have a1 : ¬ z < 1 := by omega
        have a2 : ¬ z < 2 := by omega
        simp [a1, a2]
    · simp only [h2, decide_eq_true_eq] at h
      have d1 : dictOf tbl (z - 1) = some (some (((pq.1 : ℕ) : ℝ) / ((pq.2 : ℕ) : ℝ))) := by
        simp [dictOf, hz1, e1, h2]
      refine ⟨_, ?_, quot_pos h⟩
      unfold effRadius
      simp only [d0, d1]
      have a1 : ¬ z < 1 := by omega
      have hp := quot_pos h
      simp [a1, hp]
  · simp only [h1, decide_eq_true_eq] at h
    have d0 : dictOf tbl z = some (some (((pq.1 : ℕ) : ℝ) / ((pq.2 : ℕ) : ℝ))) := by
      simp [dictOf, hz0, h1]
    exact ⟨_, by unfold effRadius; simp only [d0], quot_pos h⟩

/-- the generated table passes the check for every Z it has (kernel-decided). -/
theorem bragg_table_good : ∀ z ∈ List.range' 1 braggRadii.length, goodAt braggRadii z = true := by
  decide +kernel

/-- (18) **All supported elements**: for every atomic number `1 ≤ Z ≤ 86` (the length of the regenerated
table), including those whose tabulated radius is nan (He, Ne, Ar, Kr, Xe, At, Rn), the radius
`generate_weights` uses is defined and positive — so every combination of elements meets the
`rad_pos` hypothesis of the partition theorems. -/
theorem bragg_radii_positive (z : ℕ) (h1 : 1 ≤ z) (h2 : z ≤ 86) :
    ∃ r, effRadius (braggDict : RadDict ℝ) z = .ok r ∧ 0 < r := by
  rw [braggDict_eq]
  apply effRadius_of_goodAt braggRadii z h1
  apply bragg_table_good
  have hl : braggRadii.length = 86 := by decide +kernel
  rw [hl, List.mem_range'_1]
  omega

/-- He (nan) takes the radius of H; Rn (nan, At nan as well) takes the radius of Po. -/
example : goodAt braggRadii 2 = true ∧ goodAt braggRadii 86 = true ∧ braggRadii[1]? = some none ∧
    braggRadii[85]? = some none ∧ braggRadii[84]? = some none := by decide +kernel

end GridVerif.C06

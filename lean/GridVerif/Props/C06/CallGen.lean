/-
  C06, part 8 — the *generated* `BeckeWeights.__call__` (`Gen/BeckeRoutes.lean: call`: `npoints`, `chunk_size`, the list
  comprehension over `range(0, npoints, chunk_size)` with the call `self.generate_weights(points[ibegin : ibegin +
  chunk_size], atcoords, atnums, pt_ind=(indices - ibegin).clip(min=0))`, `np.concatenate`) is the hand model `call`
  (chunk loop with the generated chunk arithmetic of `Gen/Becke.lean`): the chunking theorem and `becke_call_partition`
  are theorems about this text.
-/
import GridVerif.Props.C06.Routes

set_option linter.unusedSimpArgs false

namespace GridVerif.C06
open GridVerif.Becke GridVerif.BeckePy GridVerif.Gen.Becke GridVerif.Gen.BeckeRoutes

/-- the chunk starts `b, b + c, … < N`, by the same fuel recursion as `chunkLoop`. -/
def chunkStarts (N c : ℕ) : ℕ → ℕ → List ℕ
  | 0, _ => []
  | fuel + 1, b => if N ≤ b then [] else b :: chunkStarts N c fuel (b + c)

/-- number of chunks from `b` on. -/
def nChunks (N c b : ℕ) : ℕ := if N ≤ b then 0 else (N - b - 1) / c + 1

theorem nChunks_step (N c b : ℕ) (hc : 1 ≤ c) (hb : ¬ N ≤ b) : nChunks N c b = nChunks N c (b + c) + 1 := by
  unfold nChunks
  rw [if_neg hb]
  by_cases h : N ≤ b + c
  · rw [if_pos h]
    have : (N - b - 1) / c = 0 := Nat.div_eq_of_lt (by omega)
    omega
  · rw [if_neg h]
    have : N - b - 1 = (N - (b + c) - 1) + c := by omega
    rw [this, Nat.add_div_right _ (by omega)]

theorem chunkStarts_eq (N c : ℕ) (hc : 1 ≤ c) (fuel b : ℕ) (hf : N ≤ b + fuel) :
    chunkStarts N c fuel b = (List.range (nChunks N c b)).map fun i => b + i * c := by
  induction fuel generalizing b with
  | zero =>
    have : N ≤ b := by omega
    simp [chunkStarts, nChunks, this]
  | succ fuel ih =>
    unfold chunkStarts
    by_cases hb : N ≤ b
    · simp [hb, nChunks]
    · rw [if_neg hb, ih (b + c) (by omega), nChunks_step N c b hc hb, List.range_succ_eq_map]
      simp only [List.map_cons, List.map_map, Nat.zero_mul, Nat.add_zero, List.cons.injEq, true_and]
      apply List.map_congr_left
      intro i _
      simp only [Function.comp, Nat.succ_mul]
      omega

section
variable {P : Type} (w : P → ℕ → ℝ) (M : ℕ) (pts : List P) (ind : List ℤ) (c : ℕ)

/-- one chunk of the hand model. -/
def chunkCall (b : ℕ) : Except Err (List ℝ) :=
  generateWeights w M (pySlice pts (sliceLo pts.length c b) (sliceHi pts.length c b)) none
    (some (ind.map (shiftInd c b)))

theorem chunkLoop_eq_mapM (fuel b : ℕ) :
    chunkLoop w M pts ind c pts.length c fuel b
      = ((chunkStarts pts.length c fuel b).mapM (chunkCall w M pts ind c)).map List.flatten := by
  induction fuel generalizing b with
  | zero => rfl
  | succ fuel ih =>
    unfold chunkLoop chunkStarts
    by_cases hb : pts.length ≤ b
    · simp [hb, Except.map, pure, Except.pure]
    · simp only [hb, if_false, List.mapM_cons, bind, Except.bind, pure, Except.pure]
      have hcc : generateWeights w M (pySlice pts (sliceLo pts.length c b) (sliceHi pts.length c b)) none
          (some (List.map (shiftInd c b) ind)) = chunkCall w M pts ind c b := rfl
      rw [hcc, ih (b + c)]
      cases chunkCall w M pts ind c b with
      | error e => rfl
      | ok v =>
        cases (chunkStarts pts.length c fuel (b + c)).mapM (chunkCall w M pts ind c) <;> rfl

end

/-- (37) **`__call__`, generated = hand model**: the translation of `BeckeWeights.__call__` returns, for every object,
molecule whose radii resolve, points and index table, what the hand model `call` (chunk loop over the generated chunk
arithmetic) returns — so `becke_chunked_eq`, `call_eq_generate` and `becke_call_partition` are statements about the
text of `__call__`: in particular `select` is not passed on (`None`), `pt_ind` is the shifted and clipped table. -/
theorem call_generated (self : BW (Option ℝ)) (pts atc : List (V3 ℝ)) (nums : List ℤ) (radii : List ℝ)
    (hr : nums.mapM (radiusGW self.radii) = .ok radii) (ind : List ℤ) :
    Gen.BeckeRoutes.call self pts atc nums ind
      = Becke.call (weight routeGW (molOf atc radii) self.order.toNat) atc.length pts ind := by
  unfold Gen.BeckeRoutes.call Becke.call
  by_cases hM : atc.length = 0
  · simp [hM, pyFloorDiv, bind, Except.bind]
  · have hpow : ((atc.length : ℤ) ^ 2) ≠ 0 := by positivity
    have hcs : max (1 : ℤ) (Int.fdiv ((10 : ℤ) * (pts.length : ℤ)) ((atc.length : ℤ) ^ 2))
        = ((chunkSize pts.length atc.length : ℕ) : ℤ) := by
      rw [Int.fdiv_eq_ediv_of_nonneg _ (by positivity)]
      unfold chunkSize
      push_cast
      rfl
    simp only [hM, if_false, pyFloorDiv, hpow, bind, Except.bind, pure, Except.pure, hcs]
    generalize hc : chunkSize pts.length atc.length = c
    have hc1 : 1 ≤ c := by rw [← hc]; unfold chunkSize; exact Nat.le_max_left _ _
    unfold callWith loopStart loopStop loopStep
    rw [if_neg (by omega)]
    -- the range of chunk starts
    have hrange : pyRange3 (0 : ℤ) (pts.length : ℤ) (c : ℤ)
        = .ok ((chunkStarts pts.length c pts.length 0).map fun (b : ℕ) => (b : ℤ)) := by
      unfold pyRange3 npArange3
      rw [if_neg (by omega), if_neg (by omega), if_neg (by omega)]
      congr 1
      rw [chunkStarts_eq pts.length c hc1 _ _ (by omega), List.map_map]
      have hn : (((pts.length : ℤ) - 0 + (c : ℤ) - 1) / (c : ℤ)).toNat = nChunks pts.length c 0 := by
        unfold nChunks
        by_cases h0 : pts.length ≤ 0
        · have : pts.length = 0 := by omega
          simp only [this, Nat.le_refl, if_true, Nat.cast_zero, sub_zero, zero_add]
          have : (((c : ℤ) - 1) / (c : ℤ)) = 0 := Int.ediv_eq_zero_of_lt (by omega) (by omega)
          rw [this]; rfl
        · rw [if_neg h0]
          have e : ((pts.length : ℤ) - 0 + (c : ℤ) - 1) = (((pts.length - 0 - 1 + c : ℕ) : ℤ)) := by omega
          rw [e]
          norm_cast
          rw [Int.toNat_natCast, Nat.add_div_right _ (by omega)]
      rw [hn]
      apply List.map_congr_left
      intro i _
      simp only [Function.comp]
      push_cast
      ring
    rw [hrange]
    simp only [List.mapM_map]
    -- each chunk
    have hchunk : ∀ b : ℕ,
        generate_weights self (pySlice pts (b : ℤ) ((b : ℤ) + (c : ℤ))) atc nums SelectArg.none
            (some ((ind.map fun x => x - (b : ℤ)).map fun x => max x 0))
        = chunkCall (weight routeGW (molOf atc radii) self.order.toNat) atc.length pts ind c b := by
      intro b
      rw [generate_weights_generated self _ atc nums radii hr]
      unfold chunkCall sliceLo sliceHi selOpt
      have e1 : ((ind.map fun x => x - (b : ℤ)).map fun x => max x 0) = ind.map (shiftInd c b) := by
        rw [List.map_map]; rfl
      rw [e1]
      push_cast
      rfl
    simp only [Function.comp_def, hchunk]
    rw [chunkLoop_eq_mapM]
    simp only [Nat.sub_zero]
    by_cases hN : pts.length ≤ 0
    · have h0 : pts.length = 0 := by omega
      have : chunkStarts pts.length c pts.length 0 = [] := by rw [h0]; rfl
      simp [hN, this, npConcatenate, pure, Except.pure]
    · rw [if_neg hN]
      have hne : chunkStarts pts.length c pts.length 0 ≠ [] := by
        cases hp : pts.length with
        | zero => omega
        | succ n => simp [chunkStarts]
      cases hm : (chunkStarts pts.length c pts.length 0).mapM
          (chunkCall (weight routeGW (molOf atc radii) self.order.toNat) atc.length pts ind c) with
      | error e => rfl
      | ok xs =>
        have hlen : xs.length = (chunkStarts pts.length c pts.length 0).length := by
          clear hne hrange
          generalize chunkStarts pts.length c pts.length 0 = l at hm
          induction l generalizing xs with
          | nil => simp [pure, Except.pure] at hm; subst hm; rfl
          | cons a l ih =>
            simp only [List.mapM_cons, bind, Except.bind, pure, Except.pure] at hm
            split at hm
            · simp at hm
            · split at hm
              · simp at hm
              · rename_i v1 _ v2 h2
                simp only [Except.ok.injEq] at hm
                subst hm
                simp [ih v2 h2]
        have : xs.isEmpty = false := by
          cases xs with
          | nil => simp at hlen; exact absurd hlen.symm (by simpa using hne)
          | cons _ _ => rfl
        simp [npConcatenate, this, Except.map]

/-- (38) **C06 for the whole-grid call, on the generated text**: (16) `becke_call_partition` for the translation of
`BeckeWeights.__call__` — valid molecule (distinct nuclei, positive resolved radii), any `self._order`, at least one
point, ascending index table from `0` to `N`: the call succeeds and every point gets the Becke weight of the atom owning
its segment, a number in `[0,1]`. -/
theorem becke_call_partition_generated (self : BW (Option ℝ)) (pts atc : List (V3 ℝ)) (nums : List ℤ) (radii : List ℝ)
    (hr : nums.mapM (radiusGW self.radii) = .ok radii) (hv : (molOf atc radii).Valid) (hN : pts ≠ [])
    (t : List ℤ) (ht : IndexTable t atc.length)
    (h0 : t[0]'(by have := ht.length; omega) = 0)
    (hlast : t[atc.length]'(by have := ht.length; omega) = pts.length) :
    ∃ r, Gen.BeckeRoutes.call self pts atc nums t = .ok r ∧ ∃ hl : r.length = pts.length,
      ∀ (j : ℕ) (hj : j < pts.length), ∃ i, ∃ hi : i < atc.length,
        (t[i]'(by have := ht.length; omega) ≤ j ∧ (j : ℤ) < t[i + 1]'(by have := ht.length; omega)) ∧
        r[j] = weight routeGW (molOf atc radii) self.order.toNat pts[j] i ∧ 0 ≤ r[j] ∧ r[j] ≤ 1 := by
  rw [call_generated self pts atc nums radii hr]
  exact becke_call_partition (molOf atc radii) hv self.order.toNat pts hN t ht h0 hlast

end GridVerif.C06

/-
  C06, part 4 — the *generated* routines (`Gen/BeckeRoutes.lean`: `generate_weights`, `compute_atom_weight`,
  `compute_weights`, `__call__`, the radius comprehension; regenerated from becke.py on every run) compute what the
  hand model `Model/Becke.lean` says — so every theorem of parts 1–3 is a theorem about the text of becke.py — and the
  general formula of both segment-wise routes for an explicit `select`.
-/
import GridVerif.Lemmas.BeckeRoutes
import GridVerif.Gen.BeckeRoutes
import GridVerif.Props.C06.Index

set_option linter.unusedSimpArgs false

namespace GridVerif.C06
open GridVerif.Becke GridVerif.BeckePy GridVerif.Gen.Becke GridVerif.Gen.BeckeRoutes

/-! ### the radius comprehension -/

/-- the dictionary `self._radii` as the look-up function of the hand model. -/
def dictFn (d : PyDict (Option ℝ)) : RadDict ℝ := fun z =>
  match d.find? (fun e => e.1 == (z : ℤ)) with
  | some e => some e.2
  | none => none

theorem pyDictGetItem_nat (d : PyDict (Option ℝ)) (n : ℕ) :
    pyDictGetItem d (n : ℤ) = match dictFn d n with | some v => .ok v | none => .error .keyError := by
  unfold pyDictGetItem dictFn
  cases d.find? (fun e => e.1 == (n : ℤ)) <;> rfl

theorem pyDictGetItem_neg (d : PyDict (Option ℝ)) (hk : ∀ e ∈ d, 0 ≤ e.1) (z : ℤ) (hz : z < 0) :
    pyDictGetItem d z = .error .keyError := by
  unfold pyDictGetItem
  have : d.find? (fun e => e.1 == z) = none := by
    rw [List.find?_eq_none]
    intro e he
    have := hk e he
    simp only [beq_iff_eq]
    omega
  rw [this]

/-- (19) **Radius fall-back, generated**: the comprehension `self._radii[num] if not np.isnan(self._radii[num]) else
np.nan_to_num(self._radii[num - 1]) or np.nan_to_num(self._radii[num - 2])` of `generate_weights`, as translated, is
the function `effRadius` of the hand model (hence `bragg_radii_positive` speaks about it), for every dictionary
without negative keys and every atomic number `≥ 0`; the copy in `compute_atom_weight` is the same function. -/
theorem radius_generated (d : PyDict (Option ℝ)) (hk : ∀ e ∈ d, 0 ≤ e.1) (n : ℕ) :
    radiusGW d (n : ℤ) = effRadius (dictFn d) n ∧ radiusCAW d (n : ℤ) = radiusGW d (n : ℤ) := by
  refine ⟨?_, rfl⟩
  unfold radiusGW effRadius
  rw [pyDictGetItem_nat]
  rcases h0 : dictFn d n with _ | (_ | r)
  · rfl
  · -- nan at n
    simp only [bind, Except.bind]
    by_cases h1 : n < 1
    · have : ((n : ℤ) - 1) < 0 := by omega
      rw [pyDictGetItem_neg d hk _ this]
      simp [h1]
    · have e1 : ((n : ℤ) - 1) = ((n - 1 : ℕ) : ℤ) := by omega
      rw [e1, pyDictGetItem_nat]
      simp only [h1, if_false]
      rcases h1' : dictFn d (n - 1) with _ | r1
      · rfl
      · simp only
        unfold pyOr npNanToNum
        by_cases ht : Option.getD r1 ((0 : ℕ) : ℝ) < ((0 : ℕ) : ℝ) ∨ ((0 : ℕ) : ℝ) < Option.getD r1 ((0 : ℕ) : ℝ)
        · simp only [ht, if_true]
        · simp only [ht, if_false]
          by_cases h2 : n < 2
          · have : ((n : ℤ) - 2) < 0 := by omega
            rw [pyDictGetItem_neg d hk _ this]
            simp [h2]
          · have e2 : ((n : ℤ) - 2) = ((n - 2 : ℕ) : ℤ) := by omega
            rw [e2, pyDictGetItem_nat]
            simp only [h2, if_false]
            rcases dictFn d (n - 2) with _ | r2 <;> rfl
  · rfl

example : radiusGW ([(1, some 2), (2, none)] : PyDict (Option ℝ)) 2 = .ok 2 := by
  have h := (radius_generated [(1, some 2), (2, none)] (by simp) 2).1
  simp only [Nat.cast_ofNat] at h
  rw [h]
  simp [effRadius, dictFn]

/-! ### the weight routines -/

/-- `select` as the hand model takes it. -/
def selOpt : SelectArg → Option (List ℕ)
  | .none => none
  | .int k => some [k]
  | .seq l => some l

section bridge
variable (r : Route ℝ) (order : ℤ) (atc : List (V3 ℝ)) (radii : List ℝ) (pts : List (V3 ℝ))

theorem colDiv_cellTab_slice (a b : ℤ) (k : ℕ) :
    npColDivRowSum ((cellTab r order atc radii pts).slice a b) k
      = if atc.length ≤ k then .error .indexError
        else .ok (pySlice (pts.map fun p => weight r (molOf atc radii) order.toNat p k) a b) := by
  unfold npColDivRowSum CellTab.slice cellTab
  show (if atc.length ≤ k then _ else _) = _
  split_ifs with h
  · rfl
  · rw [pySlice_map, pySlice_map, List.map_map]
    rfl

theorem colDiv_cellTab (k : ℕ) :
    npColDivRowSum (cellTab r order atc radii pts) k
      = if atc.length ≤ k then .error .indexError
        else .ok (pts.map fun p => weight r (molOf atc radii) order.toNat p k) := by
  unfold npColDivRowSum cellTab
  show (if atc.length ≤ k then _ else _) = _
  split_ifs with h
  · rfl
  · rw [List.map_map]
    rfl

end bridge

section fold
variable (r : Route ℝ) (order : ℤ) (atc : List (V3 ℝ)) (radii : List ℝ) (pts : List (V3 ℝ))

/-- one sector of `generate_weights`: `weights[a:b] += s_ab[a:b][:, k] / np.sum(s_ab[a:b], axis=-1)`. -/
noncomputable def stepGW (ws : List ℝ) (s : Sector) : Except Err (List ℝ) :=
  match npColDivRowSum ((cellTab r order atc radii pts).slice s.1.1 s.1.2) s.2 with
  | .error e => .error e
  | .ok v => npSliceAddInto ws s.1.1 s.1.2 v

theorem foldlM_stepGW (secs : List Sector) (g : ℕ → V3 ℝ → ℝ) :
    secs.foldlM (stepGW r order atc radii pts) (pts.mapIdx g)
      = if secs.any (fun s => decide (atc.length ≤ s.2)) then .error .indexError
        else .ok (pts.mapIdx fun j p => secs.foldl (fun acc s =>
          if inSlice pts.length s.1.1 s.1.2 j then acc + weight r (molOf atc radii) order.toNat p s.2 else acc) (g j p)) := by
  induction secs generalizing g with
  | nil => simp [pure, Except.pure]
  | cons s secs ih =>
    simp only [List.foldlM_cons, List.any_cons, List.foldl_cons]
    by_cases hk : atc.length ≤ s.2
    · simp only [stepGW, colDiv_cellTab_slice, hk, if_true, decide_true, Bool.true_or, bind, Except.bind]
    · simp only [stepGW, colDiv_cellTab_slice, hk, if_false, decide_false, Bool.false_or, sliceAdd_mapIdx, bind, Except.bind]
      rw [ih]

end fold

theorem gw_normalise (self : BW (Option ℝ)) (pts atc : List (V3 ℝ)) (nums : List ℤ) (sel : SelectArg) (pt : Option (List ℤ)) :
    generate_weights self pts atc nums sel pt
      = generate_weights self pts atc nums (.seq ((selOpt sel).getD (List.range atc.length))) (some (pt.getD [])) := by
  cases sel <;> cases pt <;> rfl

theorem gw_general (self : BW (Option ℝ)) (pts atc : List (V3 ℝ)) (nums : List ℤ) (radii : List ℝ)
    (hr : nums.mapM (radiusGW self.radii) = .ok radii) (sl : List ℕ) (t : List ℤ) :
    generate_weights self pts atc nums (.seq sl) (some t)
      = generateWeights (weight routeGW (molOf atc radii) self.order.toNat) atc.length pts (some sl) (some t) := by
  unfold generate_weights generateWeights
  simp only [hr, bind, Except.bind, pure, Except.pure, throw, throwThe, MonadExceptOf.throw, Option.getD_some]
  by_cases h1 : t.length = 1
  · simp [h1]
  · have h1' : ((t.length : ℤ) == 1) = false := by simpa using h1
    simp only [h1', Bool.false_eq_true, if_false, h1]
    have hs : max ((t.length : ℤ) - 1) 1 = ((max (t.length - 1) 1 : ℕ) : ℤ) := by omega
    rw [hs]
    by_cases h2 : max (t.length - 1) 1 = sl.length
    · have h2' : ((((max (t.length - 1) 1 : ℕ) : ℤ)) != (sl.length : ℤ)) = false := by simp [h2]
      simp only [h2', Bool.false_eq_true, if_false, h2, ne_eq, not_true_eq_false]
      by_cases h3 : sl.length = 1
      · -- one sector
        obtain ⟨k, rfl⟩ := List.length_eq_one_iff.mp h3
        have h3' : (((([k] : List ℕ).length : ℕ) : ℤ) == 1) = true := by simp
        have hg : pyGetItem [k] (0 : ℤ) = .ok k := rfl
        simp only [h3', if_true, hg, colDiv_cellTab, List.any_cons, List.any_nil, Bool.or_false, decide_eq_true_eq,
          List.length_singleton]
        by_cases hk : atc.length ≤ k
        · simp [hk]
        · simp [hk, npAddInto_zeros]
      · -- several sectors
        have h3' : ((sl.length : ℤ) == 1) = false := by simpa using h3
        simp only [h3', Bool.false_eq_true, if_false, h3]
        have ht : t.length = sl.length + 1 := by omega
        have hpr : pyRange (sl.length : ℤ) = (List.range sl.length).map fun (i : ℕ) => (i : ℤ) := by
          simp [pyRange]
        rw [hpr, List.foldlM_map, secsZip_eq_map t sl sl.length ht rfl, npZeros_eq_mapIdx]
        rw [foldlM_congr_mem (g := fun ws i => stepGW routeGW self.order atc radii pts ws
          ((t.getD i 0, t.getD (i + 1) 0), sl.getD i 0))]
        · rw [← List.foldlM_map (f := fun i => ((t.getD i 0, t.getD (i + 1) 0), sl.getD i 0))
            (g := stepGW routeGW self.order atc radii pts), foldlM_stepGW]
          have hany : (List.map (fun i => ((t.getD i 0, t.getD (i + 1) 0), sl.getD i 0)) (List.range sl.length)).any
              (fun s => decide (atc.length ≤ s.2)) = sl.any fun k => decide (atc.length ≤ k) := by
            conv_rhs => rw [← range_map_getD sl]
            simp only [List.any_map]
            rfl
          rw [hany]
          simp only [bne_self_eq_false, Bool.false_eq_true, if_false]
          rfl
        · intro i hi ws
          have hi' : i < sl.length := List.mem_range.mp hi
          simp only [pyGetItem_getD t i (by omega) 0, pyGetItem_succ_getD t i (by omega) 0,
            pyGetItem_getD sl i hi' 0, stepGW]
          generalize npColDivRowSum ((cellTab routeGW self.order atc radii pts).slice (t.getD i 0) (t.getD (i + 1) 0))
            (sl.getD i 0) = x
          cases x <;> rfl
    · have h2' : ((((max (t.length - 1) 1 : ℕ) : ℤ)) != (sl.length : ℤ)) = true := by
        simp only [bne_iff_ne, ne_eq]; exact_mod_cast h2
      simp only [h2', if_true, h2, ne_eq, not_false_eq_true]

/-- (20) **`generate_weights`, generated = hand model**: the statement-by-statement translation of
`BeckeWeights.generate_weights` (normalisation of `select` / `pt_ind`, the guards, the one-sector branch, the loop
`for i in range(sectors)` with bounds `pt_ind[i] : pt_ind[i+1]` and atom `select[i]`, the pinned array pipeline as
`cellTab routeGW`) returns, for every object, molecule whose radii resolve, every `select` and `pt_ind`, what the hand
model `generateWeights` returns on the Becke weights `weight routeGW` — same numbers or same exception. -/
theorem generate_weights_generated (self : BW (Option ℝ)) (pts atc : List (V3 ℝ)) (nums : List ℤ) (radii : List ℝ)
    (hr : nums.mapM (radiusGW self.radii) = .ok radii) (sel : SelectArg) (pt : Option (List ℤ)) :
    generate_weights self pts atc nums sel pt
      = generateWeights (weight routeGW (molOf atc radii) self.order.toNat) atc.length pts (selOpt sel) pt := by
  rw [gw_normalise, gw_general self pts atc nums radii hr]
  cases sel <;> cases pt <;> rfl

/-- non-vacuity of (20)–(23): a dictionary with a nan entry (He takes the radius of H), two atoms; the hypothesis
`hr` holds with the radii `[1, 1]`. -/
example : ([1, 2] : List ℤ).mapM (radiusGW ([(1, some 1), (2, none)] : PyDict (Option ℝ))) = .ok [1, 1] := by
  simp [List.mapM_cons, radiusGW, pyDictGetItem, pyOr, npNanToNum, bind, Except.bind, pure, Except.pure]

/-- (20') a radius that does not resolve (`KeyError` of `self._radii[num]`) is raised after the `select` / `pt_ind`
guards and before any weight is computed. -/
theorem generate_weights_key_error (self : BW (Option ℝ)) (pts atc : List (V3 ℝ)) (nums : List ℤ) (e : Err)
    (hr : nums.mapM (radiusGW self.radii) = .error e) (sl : List ℕ) (t : List ℤ)
    (h1 : t.length ≠ 1) (h2 : max (t.length - 1) 1 = sl.length) :
    generate_weights self pts atc nums (.seq sl) (some t) = .error e := by
  unfold generate_weights
  simp only [hr, bind, Except.bind, pure, Except.pure, throw, throwThe, MonadExceptOf.throw]
  have h1' : ((t.length : ℤ) == 1) = false := by simpa using h1
  have hs : max ((t.length : ℤ) - 1) 1 = ((max (t.length - 1) 1 : ℕ) : ℤ) := by omega
  simp only [h1', Bool.false_eq_true, if_false, hs, h2, bne_self_eq_false]

/-- (21) **`compute_atom_weight`, generated = hand model**, for every value of its `cutoff` parameter
(the pipeline is `cellTab (routeCAW cutoff)`): column `select` of the normalised cell products, `IndexError` for an
atom index `≥ M`. -/
theorem compute_atom_weight_generated (self : BW (Option ℝ)) (pts atc : List (V3 ℝ)) (nums : List ℤ) (radii : List ℝ)
    (hr : nums.mapM (radiusCAW self.radii) = .ok radii) (k : ℕ) (c : ℝ) :
    compute_atom_weight self pts atc nums k c
      = computeAtomWeight (weight (routeCAW c) (molOf atc radii) self.order.toNat) atc.length pts k := by
  unfold compute_atom_weight computeAtomWeight
  simp only [hr, bind, Except.bind, pure, Except.pure, colDiv_cellTab]
  by_cases hk : atc.length ≤ k
  · simp only [hk, if_true]
  · simp only [hk, if_false, npAddInto_zeros]

/-- a loop `for i in sl: weights[A i : B i] += col_i[A i : B i]` (or an `IndexError` at a bad `i`), entry by entry. -/
theorem foldlM_slices (pts : List (V3 ℝ)) (w : V3 ℝ → ℕ → ℝ) (A B : ℕ → ℤ) (bad : ℕ → Bool) (sl : List ℕ)
    (body : List ℝ → ℕ → Except Err (List ℝ))
    (hbody : ∀ i ∈ sl, ∀ g : ℕ → V3 ℝ → ℝ, body (pts.mapIdx g) i =
      if bad i then .error .indexError
      else .ok (pts.mapIdx fun j p => if inSlice pts.length (A i) (B i) j then g j p + w p i else g j p))
    (g : ℕ → V3 ℝ → ℝ) :
    sl.foldlM body (pts.mapIdx g)
      = if sl.any bad then .error .indexError
        else .ok (pts.mapIdx fun j p => sl.foldl (fun acc i =>
          if inSlice pts.length (A i) (B i) j then acc + w p i else acc) (g j p)) := by
  induction sl generalizing g with
  | nil => simp [pure, Except.pure]
  | cons i sl ih =>
    simp only [List.foldlM_cons, List.any_cons, List.foldl_cons, hbody i List.mem_cons_self]
    by_cases hb : bad i = true
    · simp only [hb, if_true, Bool.true_or, bind, Except.bind]
    · simp only [hb, Bool.false_eq_true, if_false, Bool.false_or, bind, Except.bind]
      rw [ih (fun i' hi' => hbody i' (List.mem_cons_of_mem _ hi'))]

theorem cw_normalise (self : BW (Option ℝ)) (pts atc : List (V3 ℝ)) (nums : List ℤ) (sel : SelectArg) (pt : Option (List ℤ)) :
    compute_weights self pts atc nums sel pt
      = compute_weights self pts atc nums (.seq ((selOpt sel).getD (List.range atc.length))) (some (pt.getD [])) := by
  cases sel <;> cases pt <;> rfl

theorem cw_general (self : BW (Option ℝ)) (pts atc : List (V3 ℝ)) (nums : List ℤ) (radii : List ℝ)
    (hr : nums.mapM (radiusCAW self.radii) = .ok radii) (sl : List ℕ) (t : List ℤ) :
    compute_weights self pts atc nums (.seq sl) (some t)
      = computeWeights (weight (routeCAW cawDefaultCutoff) (molOf atc radii) self.order.toNat) atc.length pts (some sl) (some t) := by
  unfold compute_weights computeWeights
  simp only [bind, Except.bind, pure, Except.pure, throw, throwThe, MonadExceptOf.throw, Option.getD_some,
    compute_atom_weight_generated self _ atc nums radii hr]
  by_cases h1 : t.length = 1
  · simp [h1]
  · have h1' : ((t.length : ℤ) == 1) = false := by simpa using h1
    simp only [h1', Bool.false_eq_true, if_false, h1]
    have hs : max ((t.length : ℤ) - 1) 1 = ((max (t.length - 1) 1 : ℕ) : ℤ) := by omega
    rw [hs]
    by_cases h2 : max (t.length - 1) 1 = sl.length
    · have h2' : ((((max (t.length - 1) 1 : ℕ) : ℤ)) != (sl.length : ℤ)) = false := by simp [h2]
      simp only [h2', Bool.false_eq_true, if_false, h2, ne_eq, not_true_eq_false]
      by_cases h3 : sl.length = 1
      · obtain ⟨k, rfl⟩ := List.length_eq_one_iff.mp h3
        have hg : pyGetItem [k] (0 : ℤ) = .ok k := rfl
        simp only [hg, computeAtomWeight]
        by_cases hk : atc.length ≤ k
        · simp [hk]
        · simp [hk, npAddInto_zeros]
      · have h3' : ((sl.length : ℤ) == 1) = false := by simpa using h3
        simp only [h3', Bool.false_eq_true, if_false, h3]
        simp only [bne_self_eq_false, Bool.false_eq_true, if_false]
        rw [npZeros_eq_mapIdx, foldlM_slices pts (weight (routeCAW cawDefaultCutoff) (molOf atc radii) self.order.toNat)
          (fun i => t.getD i 0) (fun i => t.getD (i + 1) 0)
          (fun i => decide (t.length ≤ i + 1) || decide (atc.length ≤ i)) sl]
        · simp only [List.any_eq_true, Bool.or_eq_true, decide_eq_true_eq, accumulate, secsIdx, List.foldl_map]
          by_cases ha : ∃ x ∈ sl, t.length ≤ x + 1
          · obtain ⟨x, hx, hx'⟩ := ha
            rw [if_pos ⟨x, hx, Or.inl hx'⟩, if_pos ⟨x, hx, hx'⟩]
          · rw [if_neg ha]
            by_cases hb : ∃ x ∈ sl, atc.length ≤ x
            · obtain ⟨x, hx, hx'⟩ := hb
              rw [if_pos ⟨x, hx, Or.inr hx'⟩, if_pos ⟨x, hx, hx'⟩]
            · rw [if_neg hb, if_neg]
              rintro ⟨x, hx, hx' | hx'⟩
              · exact ha ⟨x, hx, hx'⟩
              · exact hb ⟨x, hx, hx'⟩
        · intro i _ g
          by_cases hlt : i + 1 < t.length
          · have e1 : decide (t.length ≤ i + 1) = false := by simpa using hlt
            simp only [pyGetItem_getD t i (by omega) 0, pyGetItem_succ_getD t i hlt 0, computeAtomWeight, e1, Bool.false_or]
            by_cases hk : atc.length ≤ i
            · simp only [hk, if_true, decide_true]
            · simp only [hk, if_false, decide_false, Bool.false_eq_true, ← pySlice_map, sliceAdd_mapIdx]
          · have e1 : decide (t.length ≤ i + 1) = true := by simpa using hlt
            simp only [e1, Bool.true_or, if_true]
            by_cases hlt' : i < t.length
            · have : pyGetItem t ((i : ℤ) + 1) = .error .indexError := by
                have := pyGetItem_nat_err t (i + 1) (by omega)
                simpa using this
              simp only [pyGetItem_getD t i hlt' 0, this]
            · simp only [pyGetItem_nat_err t i (by omega)]
    · have h2' : ((((max (t.length - 1) 1 : ℕ) : ℤ)) != (sl.length : ℤ)) = true := by
        simp only [bne_iff_ne, ne_eq]; exact_mod_cast h2
      simp only [h2', if_true, h2, ne_eq, not_false_eq_true]

/-- (22) **`compute_weights`, generated = hand model**: the translation of `BeckeWeights.compute_weights` (same
normalisation and guards; one sector: `compute_atom_weight(points, atcoords, atnums, select[0])`; several: `for i in
select` with bounds `pt_ind[i] : pt_ind[i+1]` and `compute_atom_weight(points[…], atcoords, atnums, i)` — the arguments
of these calls are generated, `cutoff` is not passed, so the callee's generated default applies) returns what the
hand model `computeWeights` returns on `weight (routeCAW cawDefaultCutoff)`. -/
theorem compute_weights_generated (self : BW (Option ℝ)) (pts atc : List (V3 ℝ)) (nums : List ℤ) (radii : List ℝ)
    (hr : nums.mapM (radiusCAW self.radii) = .ok radii) (sel : SelectArg) (pt : Option (List ℤ)) :
    compute_weights self pts atc nums sel pt
      = computeWeights (weight (routeCAW cawDefaultCutoff) (molOf atc radii) self.order.toNat) atc.length pts
          (selOpt sel) pt := by
  rw [cw_normalise, cw_general self pts atc nums radii hr]
  cases sel <;> cases pt <;> rfl

/-- (23) **All routes, generated text, default `select`**: for every `BeckeWeights` object, every molecule whose
radii resolve, all points and every `pt_ind`, the generated `compute_weights` and `generate_weights` return the same
result (numbers or exception).  Uses `routes_formula_agree` (the two copies of the formulas with the generated call
arguments), `routes_agree` (hand model) and the two translations above. -/
theorem routes_agree_generated (self : BW (Option ℝ)) (pts atc : List (V3 ℝ)) (nums : List ℤ) (radii : List ℝ)
    (hr : nums.mapM (radiusGW self.radii) = .ok radii) (pt : Option (List ℤ)) :
    compute_weights self pts atc nums .none pt = generate_weights self pts atc nums .none pt := by
  rw [compute_weights_generated self pts atc nums radii hr, generate_weights_generated self pts atc nums radii hr,
    routes_formula_agree.1]
  exact routes_agree _ _ _ _

/-- (23') … and for one selected atom `k < M` all three generated routines return `weight … p k` at every point. -/
theorem per_atom_route_generated (self : BW (Option ℝ)) (pts atc : List (V3 ℝ)) (nums : List ℤ) (radii : List ℝ)
    (hr : nums.mapM (radiusGW self.radii) = .ok radii) (k : ℕ) (hk : k < atc.length) :
    compute_atom_weight self pts atc nums k cawDefaultCutoff
        = .ok (pts.map fun p => weight routeGW (molOf atc radii) self.order.toNat p k) ∧
    generate_weights self pts atc nums (.int k) none
        = .ok (pts.map fun p => weight routeGW (molOf atc radii) self.order.toNat p k) ∧
    compute_weights self pts atc nums (.seq [k]) none
        = .ok (pts.map fun p => weight routeGW (molOf atc radii) self.order.toNat p k) := by
  have h := per_atom_route (weight routeGW (molOf atc radii) self.order.toNat) atc.length pts k hk
  rw [compute_atom_weight_generated self pts atc nums radii hr, generate_weights_generated self pts atc nums radii hr,
    compute_weights_generated self pts atc nums radii hr, routes_formula_agree.1]
  exact h

end GridVerif.C06

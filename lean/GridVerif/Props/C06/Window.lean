/-
  C06, part 10 (round 3) — the clipping window of `alpha` stated on the regenerated constant: in which radius ratios
  the heteronuclear shift is the unclipped `u/(u²-1)` and where it is the cutoff (class 7 of AGENT_ROUND3: inputs next to
  a hard-coded threshold; the harness samples both sides of this window within factors 1.01 and 100).
-/
import GridVerif.Props.C06

namespace GridVerif.C06
open GridVerif.Becke GridVerif.Gen.Becke

/-- the raw shift in closed form: `u/(u² - 1) = (r_B² - r_A²)/(4 r_A r_B)` for positive radii. -/
theorem alpha_raw_closed_form (ra rb : ℝ) (ha : 0 < ra) (hb : 0 < rb) :
    alphaRaw (uAB ra rb) = (rb ^ 2 - ra ^ 2) / (4 * ra * rb) := by
  have hs : ra + rb ≠ 0 := by positivity
  have hp : 4 * ra * rb ≠ 0 := by positivity
  have hd : ((ra - rb) / (ra + rb)) ^ 2 - 1 ≠ 0 := by
    have : ((ra - rb) / (ra + rb)) ^ 2 - 1 = -(4 * ra * rb) / (ra + rb) ^ 2 := by
      field_simp; ring
    rw [this]
    exact div_ne_zero (neg_ne_zero.mpr hp) (pow_ne_zero 2 hs)
  unfold alphaRaw uAB
  simp only [npow_eq_pow, Nat.cast_one]
  rw [div_eq_div_iff hd hp]
  field_simp
  ring

/-- (44) **The clipping window, on the regenerated cutoff** (`9/20`): for positive radii
* `alpha` is the unclipped `(r_B² - r_A²)/(4 r_A r_B)` exactly when `|r_B² - r_A²| ≤ (9/5) r_A r_B`
  (radius ratio within about `[0.4454, 2.2454]`),
* above the window it is `+cutoff`, below it `-cutoff`. -/
theorem alpha_clip_window (ra rb : ℝ) (ha : 0 < ra) (hb : 0 < rb) :
    (defaultCutoff : ℝ) = 9 / 20 ∧
    (|rb ^ 2 - ra ^ 2| ≤ 9 / 5 * (ra * rb) → alpha ra rb = (rb ^ 2 - ra ^ 2) / (4 * ra * rb)) ∧
    (9 / 5 * (ra * rb) < rb ^ 2 - ra ^ 2 → alpha ra rb = 9 / 20) ∧
    (rb ^ 2 - ra ^ 2 < -(9 / 5 * (ra * rb)) → alpha ra rb = -(9 / 20)) := by
  have hc : (defaultCutoff : ℝ) = 9 / 20 := by unfold defaultCutoff; norm_num
  have hp : 0 < 4 * ra * rb := by positivity
  have hraw := alpha_raw_closed_form ra rb ha hb
  refine ⟨hc, ?_, ?_, ?_⟩
  · intro h
    rw [abs_le] at h
    have h1 : (rb ^ 2 - ra ^ 2) / (4 * ra * rb) ≤ 9 / 20 := by rw [div_le_iff₀ hp]; nlinarith [h.2]
    have h2 : -(9 / 20) ≤ (rb ^ 2 - ra ^ 2) / (4 * ra * rb) := by rw [le_div_iff₀ hp]; nlinarith [h.1]
    unfold alpha alphaClip
    rw [hraw, hc]
    simp only
    split_ifs <;> linarith
  · intro h
    have h1 : 9 / 20 < (rb ^ 2 - ra ^ 2) / (4 * ra * rb) := by rw [lt_div_iff₀ hp]; nlinarith [h]
    unfold alpha alphaClip
    rw [hraw, hc]
    simp only
    split_ifs <;> linarith
  · intro h
    have h1 : (rb ^ 2 - ra ^ 2) / (4 * ra * rb) < -(9 / 20) := by rw [div_lt_iff₀ hp]; nlinarith [h]
    unfold alpha alphaClip
    rw [hraw, hc]
    simp only
    split_ifs <;> linarith

/-- both sides of the window and its edge: radii `(1, 2)` (raw `3/8`) are inside, `(1, 3)` (raw `2/3`) outside; the edge
`r_B² - r_A² = (9/5) r_A r_B` (e.g. `r_A = 5`, `r_B = (9 + √181)/2`) is inside. -/
example : alpha (1 : ℝ) 2 = 3 / 8 ∧ alpha (1 : ℝ) 3 = 9 / 20 ∧ alpha (3 : ℝ) 1 = -(9 / 20) := by
  refine ⟨?_, ?_, ?_⟩
  · rw [(alpha_clip_window 1 2 one_pos two_pos).2.1 (by rw [abs_le]; constructor <;> norm_num)]; norm_num
  · exact (alpha_clip_window 1 3 one_pos three_pos).2.2.1 (by norm_num)
  · exact (alpha_clip_window 3 1 three_pos one_pos).2.2.2 (by norm_num)

end GridVerif.C06

/-
  C06, part 9 (round 3) — the *generated* `grid.utils.get_cov_radii` (`Gen/CovRadii.lean`) and the three tables it
  selects from: what each `cov_type` returns, what is rejected and in which order, that the call
  `get_cov_radii(np.arange(1, 87, 1), "bragg")` of `BeckeWeights.__init__` reads exactly the table the radius theorems
  are about, and kernel-decided facts about the regenerated tables (shape, where the nan entries are, positivity).
-/
import GridVerif.Gen.CovRadii
import GridVerif.Props.C06.Init

namespace GridVerif.C06
open GridVerif.Becke GridVerif.BeckePy GridVerif.CovRadiiPy GridVerif.Gen.Becke GridVerif.Gen.BeckeRoutes

/-- (40) **`get_cov_radii`, generated** — for any three tables, any modelled `atnums` (scalar or integer sequence) and any
string `cov_type`:
* an entry `0` among the atomic numbers is rejected (`ValueError`) first, whatever `cov_type` is;
* `"bragg"`, `"cambridge"`, `"alvarez"` return `table[atnums]` (NumPy indexing: a scalar gives one entry, a negative
  index counts from the end, out of range raises `IndexError`) of the first, second, third table;
* every other string (the comparison is exact: `"Bragg"`, `""`) is rejected with `ValueError`. -/
theorem get_cov_radii_generated {V : Type} (tb tc ta : List V) (a : CovArg) (ty : String) :
    Gen.CovRadii.get_cov_radii tb tc ta a ty =
      if a.entries.any (fun x => x == (0 : ℤ)) then .error .valueError
      else if ty = "bragg" then npFancyIndex tb (.seq a.entries)
      else if ty = "cambridge" then npFancyIndex tc (.seq a.entries)
      else if ty = "alvarez" then npFancyIndex ta (.seq a.entries)
      else .error .valueError := by
  cases a <;>
    simp only [Gen.CovRadii.get_cov_radii, CovArg.isInteger, CovArg.wrap, CovArg.entries, if_true, Bool.false_eq_true,
      if_false, beq_iff_eq, throw, throwThe, MonadExceptOf.throw] <;> rfl

/-- NumPy's indexing agrees with the primitive the generated `__init__` is written in (`getCovRadii`: zero rejected,
`table[atnums]`) on atomic numbers that are not negative. -/
theorem npFancyIndex_eq_npTakeInts {V : Type} (tb : List V) (l : List ℤ) (h : ∀ i ∈ l, 0 ≤ i) :
    npFancyIndex tb (.seq l) = npTakeInts tb l := by
  unfold npFancyIndex npTakeInts CovArg.entries
  simp only
  induction l with
  | nil => rfl
  | cons i l ih =>
    have hi : ¬ i < 0 := by have := h i (List.mem_cons_self ..); omega
    have ih' := ih fun j hj => h j (List.mem_cons_of_mem _ hj)
    simp only [List.mapM_cons, hi, if_false, ih']
    rfl

/-- the generated function, asked for `"bragg"` with non-negative atomic numbers, IS the primitive `getCovRadii` the
generated `__init__` calls (so `init_generated`, `init_default_dict` are statements about the regenerated `get_cov_radii`). -/
theorem get_cov_radii_bragg_eq {V : Type} (tb tc ta : List V) (l : List ℤ) (h : ∀ i ∈ l, 0 ≤ i) :
    Gen.CovRadii.get_cov_radii tb tc ta (.seq l) "bragg" = getCovRadii tb l := by
  rw [get_cov_radii_generated]
  unfold getCovRadii
  simp only [CovArg.entries, if_true, npFancyIndex_eq_npTakeInts tb l h]

/-- the table `_bragg` read by this translator is the one `becke_routes` dumped for `__init__`. -/
theorem cov_bragg_table_eq : Gen.CovRadii.bragg = utilsBragg := by
  decide +kernel

/-- (41) **The call made by `BeckeWeights.__init__`**, `get_cov_radii(np.arange(1, 87, 1), "bragg")` — here with the default
`cov_type`, which is `"bragg"` — evaluated by the generated function on the regenerated tables, succeeds and returns the
dictionary values `braggRadii` of the radius theorems (`bragg_radii_positive`): kernel-decided. -/
theorem init_reads_generated_table :
    Gen.CovRadii.get_cov_radii Gen.CovRadii.bragg Gen.CovRadii.cambridge Gen.CovRadii.alvarez (.seq (npArange3 1 87 1))
      Gen.CovRadii.covTypeDefault = .ok braggRadii ∧ Gen.CovRadii.covTypeDefault = "bragg" := by
  decide +kernel

/-- is the entry a positive quotient? -/
def posEntry : Option (ℕ × ℕ) → Bool
  | some pq => decide (0 < pq.1 ∧ 0 < pq.2)
  | none => false

/-- (42) **The regenerated tables** (kernel-decided): `_bragg` and `_cambridge` have entries for Z = 0..86, `_alvarez` for
Z = 0..96; entry 0 is the nan place holder in each; `_bragg` is nan exactly at He, Ne, Ar, Kr, Xe, At, Rn; every other entry
of the three tables is a positive number. -/
theorem cov_tables_shape :
    Gen.CovRadii.bragg.length = 87 ∧ Gen.CovRadii.cambridge.length = 87 ∧ Gen.CovRadii.alvarez.length = 97 ∧
    (List.range 87).filter (fun z => !posEntry (Gen.CovRadii.bragg.getD z none)) = [0, 2, 10, 18, 36, 54, 85, 86] ∧
    (List.range 87).filter (fun z => !posEntry (Gen.CovRadii.cambridge.getD z none)) = [0] ∧
    (List.range 97).filter (fun z => !posEntry (Gen.CovRadii.alvarez.getD z none)) = [0] ∧
    Gen.CovRadii.bragg.head? = some none ∧ Gen.CovRadii.cambridge.head? = some none ∧ Gen.CovRadii.alvarez.head? = some none := by
  decide +kernel

/-- (43) **`"cambridge"` and `"alvarez"` give every element a positive radius**: for a scalar atomic number in the table's
range the generated function returns one entry, a positive quotient (no nan fall-back is needed for these two). -/
theorem cov_radii_positive_other :
    (∀ z ∈ List.range' 1 86, ∃ pq, Gen.CovRadii.get_cov_radii Gen.CovRadii.bragg Gen.CovRadii.cambridge Gen.CovRadii.alvarez
        (.int (z : ℕ)) "cambridge" = .ok [some pq] ∧ 0 < pq.1 ∧ 0 < pq.2) ∧
    (∀ z ∈ List.range' 1 96, ∃ pq, Gen.CovRadii.get_cov_radii Gen.CovRadii.bragg Gen.CovRadii.cambridge Gen.CovRadii.alvarez
        (.int (z : ℕ)) "alvarez" = .ok [some pq] ∧ 0 < pq.1 ∧ 0 < pq.2) := by
  have key : ∀ (tbl : List (Option (ℕ × ℕ))) (z : ℕ), z ≠ 0 → posEntry (tbl.getD z none) = true →
      ∃ pq, npFancyIndex tbl (.seq [(z : ℤ)]) = .ok [some pq] ∧ 0 < pq.1 ∧ 0 < pq.2 := by
    intro tbl z hz hp
    have h0 : ¬ ((z : ℤ) < 0) := by omega
    rcases hg : tbl[z]? with _ | (_ | pq)
    · simp [List.getD, hg, posEntry] at hp
    · simp [List.getD, hg, posEntry] at hp
    · refine ⟨pq, ?_, ?_⟩
      · simp [npFancyIndex, CovArg.entries, h0, hg, pure, Except.pure, bind, Except.bind]
      · simpa [List.getD, hg, posEntry] using hp
  have sh := cov_tables_shape
  constructor
  · intro z hz
    rw [List.mem_range'_1] at hz
    rw [get_cov_radii_generated]
    have hz0 : ¬ ((z : ℤ) = 0) := by omega
    simp only [CovArg.entries, List.any_cons, List.any_nil, beq_iff_eq, hz0, Bool.or_false,
      if_false, if_true, show ¬ ("cambridge" = "bragg") by decide]
    apply key _ z (by omega)
    by_contra hc
    have hm : z ∈ (List.range 87).filter (fun z => !posEntry (Gen.CovRadii.cambridge.getD z none)) := by
      simp only [List.mem_filter, List.mem_range]
      exact ⟨by omega, by simpa using hc⟩
    rw [sh.2.2.2.2.1] at hm
    simp at hm; omega
  · intro z hz
    rw [List.mem_range'_1] at hz
    rw [get_cov_radii_generated]
    have hz0 : ¬ ((z : ℤ) = 0) := by omega
    simp only [CovArg.entries, List.any_cons, List.any_nil, beq_iff_eq, hz0, Bool.or_false,
      if_false, if_true, show ¬ ("alvarez" = "bragg") by decide, show ¬ ("alvarez" = "cambridge") by decide]
    apply key _ z (by omega)
    by_contra hc
    have hm : z ∈ (List.range 97).filter (fun z => !posEntry (Gen.CovRadii.alvarez.getD z none)) := by
      simp only [List.mem_filter, List.mem_range]
      exact ⟨by omega, by simpa using hc⟩
    rw [sh.2.2.2.2.2.1] at hm
    simp at hm; omega

/-- non-vacuity / examples of (40): a negative scalar counts from the end (Rn for `-1`), zero is rejected before the
spelling of `cov_type` is looked at, an unknown spelling is rejected, index 87 exists only in `_alvarez`. -/
example :
    Gen.CovRadii.get_cov_radii [10, 11, 12] [20, 21, 22] [30, 31, 32, 33] (.int (-1)) "cambridge" = .ok [22] ∧
    Gen.CovRadii.get_cov_radii [10, 11, 12] [20, 21, 22] [30, 31, 32, 33] (.seq [1, 0]) "Bragg" = .error .valueError ∧
    Gen.CovRadii.get_cov_radii [10, 11, 12] [20, 21, 22] [30, 31, 32, 33] (.seq [1, 2]) "Bragg" = .error .valueError ∧
    Gen.CovRadii.get_cov_radii [10, 11, 12] [20, 21, 22] [30, 31, 32, 33] (.seq [3]) "bragg" = .error .indexError ∧
    Gen.CovRadii.get_cov_radii [10, 11, 12] [20, 21, 22] [30, 31, 32, 33] (.seq [3, 1]) "alvarez" = .ok [33, 31] := by
  decide +kernel

end GridVerif.C06

/-
  C06, part 6 — the *generated* `BeckeWeights.__init__` (`Gen/BeckeRoutes.lean: init`): which arguments are
  rejected, what `self._order` and `self._radii` are, and that the dictionary it builds from `grid.utils._bragg` is the
  table `braggDict` the radius theorems (`bragg_radii_positive`) are about.
-/
import GridVerif.Lemmas.BeckeRoutes
import GridVerif.Gen.BeckeRoutes
import GridVerif.Props.C06.Routes

set_option linter.unusedSimpArgs false

namespace GridVerif.C06
open GridVerif.Becke GridVerif.BeckePy GridVerif.Gen.Becke GridVerif.Gen.BeckeRoutes

/-- the integer-keyed entries of a dictionary argument. -/
def intEntries {V : Type} (es : List (Key × V)) : List (ℤ × V) :=
  es.filterMap fun e => match e.1 with | .int n => some (n, e.2) | .other => none

/-- the dictionary `dict([(i + 1, radius) for i, radius in enumerate(data)])`. -/
def enumDict {V : Type} (data : List V) : PyDict V :=
  (pyEnumerate data).map fun (i, radius) => (i + (1 : ℤ), radius)

/-- (29) **`__init__`, generated** — for any table `bragg` on which `get_cov_radii(np.arange(1, 87, 1), "bragg")`
succeeds with `data`:
* an `order` that is not a Python `int` is rejected (`ValueError`) before anything else, whatever `radii` is;
* `radii=None`: `self._order = order`, `self._radii = {i + 1: data[i]}`;
* `radii` not a dictionary, or a dictionary with a key that is not a Python `int` (e.g. `np.int64(6)`, `6.0`): `TypeError`;
* otherwise the given entries are written over the table (`update`), `self._order = order` — nothing else is kept. -/
theorem init_generated {V : Type} (bragg data : List V) (h : getCovRadii bragg (npArange3 1 87 1) = .ok data) :
    (∀ radii, init bragg radii .other = .error .valueError) ∧
    (∀ o : ℤ, init bragg none (.int o) = .ok ⟨o, enumDict data⟩) ∧
    (∀ o : ℤ, init bragg (some .other) (.int o) = .error .typeError) ∧
    (∀ (o : ℤ) (es : List (Key × V)), init bragg (some (.dict es)) (.int o) =
      if es.all (fun e => e.1.isInt) then .ok ⟨o, intEntries es ++ enumDict data⟩ else .error .typeError) := by
  refine ⟨?_, ?_, ?_, ?_⟩
  · intro radii; rfl
  · intro o
    simp only [init, OrderArg.isInt, OrderArg.asInt, h, bind, Except.bind, pure, Except.pure, Bool.not_true,
      Bool.false_eq_true, if_false]
    rfl
  · intro o
    simp only [init, OrderArg.isInt, OrderArg.asInt, h, bind, Except.bind, pure, Except.pure, Bool.not_true,
      Bool.false_eq_true, if_false, RadiiArg.isDict]
    rfl
  · intro o es
    simp only [init, OrderArg.isInt, OrderArg.asInt, h, bind, Except.bind, pure, Except.pure, Bool.not_true,
      Bool.false_eq_true, if_false, RadiiArg.isDict, RadiiArg.keys, List.all_map]
    by_cases ha : (es.all fun e => e.1.isInt) = true
    · have : (es.all ((fun k => k.isInt) ∘ fun x => x.1)) = true := ha
      simp only [this, ha, Bool.not_true, Bool.false_eq_true, if_false, if_true, pyDictUpdate]
      rfl
    · have : (es.all ((fun k => k.isInt) ∘ fun x => x.1)) = false := by simpa using ha
      simp only [this, ha, Bool.not_false, if_true, Bool.false_eq_true, if_false]
      rfl

/-- the table `get_cov_radii` reads for `np.arange(1, 87, 1)` is the dumped dictionary of `BeckeWeights()`
(`Gen/Becke.lean: braggRadii`, obtained by running the constructor): kernel-decided. -/
theorem cov_radii_table : getCovRadii utilsBragg (npArange3 1 87 1) = .ok braggRadii := by
  decide +kernel

theorem npTakeInts_map {V W : Type} (f : V → W) (l : List V) (idx : List ℤ) :
    npTakeInts (l.map f) idx = (npTakeInts l idx).map (List.map f) := by
  unfold npTakeInts
  induction idx with
  | nil => rfl
  | cons i idx ih =>
    simp only [List.mapM_cons, bind, Except.bind, pure, Except.pure]
    by_cases hi : i < 0
    · simp [hi, Except.map]
    · simp only [hi, if_false, List.getElem?_map]
      simp only [List.getElem?_map] at ih
      cases l[i.toNat]? with
      | none => simp [Except.map]
      | some v =>
        simp only [Option.map_some]
        rw [ih]
        cases List.mapM (fun (i : ℤ) => if i < 0 then (Except.error Err.indexError : Except Err V) else
          match l[i.toNat]? with
          | some v => Except.ok v
          | none => Except.error Err.indexError) idx <;> simp [Except.map]

theorem getCovRadii_map {V W : Type} (f : V → W) (l : List V) (idx : List ℤ) :
    getCovRadii (l.map f) idx = (getCovRadii l idx).map (List.map f) := by
  unfold getCovRadii
  split_ifs
  · rfl
  · exact npTakeInts_map f l idx

theorem map_mapIdx' {α β γ : Type} (l : List α) (g : ℕ → α → β) (f : β → γ) :
    (l.mapIdx g).map f = l.mapIdx fun i x => f (g i x) := by
  apply List.ext_getElem <;> simp

/-- look-up in `{i + 1: data[i]}`. -/
theorem enumDict_find {V : Type} (data : List V) (z : ℕ) :
    (enumDict data).find? (fun e => e.1 == (z : ℤ)) = if z = 0 then none else (data[z - 1]?).map fun x => ((z : ℤ), x) := by
  have key : ∀ (l : List V) (off : ℕ),
      (l.mapIdx fun i x => ((((i + off : ℕ) : ℤ) + 1), x)).find? (fun e => e.1 == (z : ℤ))
        = if z ≤ off then none else (l[z - off - 1]?).map fun x => ((z : ℤ), x) := by
    intro l
    induction l with
    | nil => intro off; simp
    | cons a l ih =>
      intro off
      rw [List.mapIdx_cons, List.find?_cons]
      by_cases hz : z = off + 1
      · subst hz
        simp
      · have hne : ((((0 + off : ℕ) : ℤ) + 1) == (z : ℤ)) = false := by
          simp only [beq_eq_false_iff_ne, ne_eq]; omega
        simp only [hne]
        have := ih (off + 1)
        simp only [show ∀ i, i + 1 + off = i + (off + 1) from fun i => by omega]
        rw [this]
        by_cases h1 : z ≤ off
        · simp [h1, show z ≤ off + 1 by omega]
        · have h2 : ¬ z ≤ off + 1 := by omega
          simp only [h1, h2, if_false]
          have : z - off - 1 = (z - (off + 1) - 1) + 1 := by omega
          rw [this, List.getElem?_cons_succ]
  have := key data 0
  simp only [Nat.add_zero, Nat.le_zero, Nat.sub_zero] at this
  unfold enumDict pyEnumerate
  rw [map_mapIdx']
  exact this

/-- (30) **The dictionary of the default constructor is the Bragg–Slater table of the radius theorems**: the
generated `__init__`, run on `grid.utils._bragg` (as real numbers), succeeds for every integer `order`, stores it, and
its `self._radii` — read through `dictFn` — is `braggDict`, the dictionary `bragg_radii_positive` is about; it has no
negative key (hypothesis of `radius_generated`). -/
theorem init_default_dict (o : ℤ) :
    ∃ self : BW (Option ℝ),
      init (utilsBragg.map (Option.map fun pq => ((pq.1 : ℕ) : ℝ) / ((pq.2 : ℕ) : ℝ))) none (.int o) = .ok self ∧
      self.order = o ∧ dictFn self.radii = braggDict ∧ ∀ e ∈ self.radii, 0 ≤ e.1 := by
  have h : getCovRadii (utilsBragg.map (Option.map fun pq => ((pq.1 : ℕ) : ℝ) / ((pq.2 : ℕ) : ℝ))) (npArange3 1 87 1)
      = .ok (braggRadii.map (Option.map fun pq => ((pq.1 : ℕ) : ℝ) / ((pq.2 : ℕ) : ℝ))) := by
    rw [getCovRadii_map, cov_radii_table]; rfl
  refine ⟨_, (init_generated _ _ h).2.1 o, rfl, ?_, ?_⟩
  · funext z
    unfold dictFn braggDict
    simp only
    rw [enumDict_find]
    by_cases hz : z = 0
    · simp [hz]
    · simp only [hz, if_false, List.getElem?_map]
      cases braggRadii[z - 1]? <;> rfl
  · intro e he
    simp only [enumDict, pyEnumerate, map_mapIdx', List.mem_mapIdx] at he
    obtain ⟨i, _, rfl⟩ := he
    simp only
    omega

/-- (31) a user dictionary (all keys `int`) overrides exactly its keys: the look-up in the resulting `self._radii`
is the hand model's `updateDict` of the table. -/
theorem init_update_lookup (data : List (Option ℝ)) (es : List (ℕ × Option ℝ)) (z : ℕ) :
    dictFn (intEntries (es.map fun e => (Key.int (e.1 : ℤ), e.2)) ++ enumDict data) z
      = updateDict (dictFn (enumDict data)) es z := by
  unfold dictFn updateDict intEntries
  simp only [List.filterMap_map, Function.comp_def, List.find?_append]
  have hfm : (List.filterMap (fun (x : ℕ × Option ℝ) => some (((x.1 : ℕ) : ℤ), x.2)) es) = es.map fun x => (((x.1 : ℕ) : ℤ), x.2) := by
    induction es with
    | nil => rfl
    | cons a es ih => simp [List.filterMap_cons, ih]
  rw [hfm, List.find?_map]
  have hf : (es.find? ((fun (e : ℤ × Option ℝ) => e.1 == (z : ℤ)) ∘ fun x => (((x.1 : ℕ) : ℤ), x.2))) = es.find? (fun e => e.1 == z) := by
    congr 1
    funext x
    simp only [Function.comp]
    rw [Bool.eq_iff_iff]
    simp
  rw [hf]
  cases es.find? (fun e => e.1 == z) <;> rfl

/-- non-vacuity of (29): a table of 87 entries satisfies the hypothesis; a dictionary with a non-`int` key is rejected,
one with `int` keys is accepted and overrides. -/
example : getCovRadii (List.replicate 87 (1 : ℕ)) (npArange3 1 87 1) = .ok (List.replicate 86 1) ∧
    init (List.replicate 87 (1 : ℕ)) (some (.dict [(.other, 5)])) (.int 3) = .error .typeError ∧
    (init (List.replicate 87 (1 : ℕ)) (some (.dict [(.int 6, 5)])) (.int 2)).map (fun s => (s.order, pyDictGetItem s.radii 6, pyDictGetItem s.radii 7))
      = .ok (2, .ok 5, .ok 1) := by
  decide +kernel

end GridVerif.C06

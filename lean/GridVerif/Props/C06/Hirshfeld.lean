/-
  C06, part 7 — Hirshfeld weights over the *generated* `HirshfeldWeights` (`Gen/Hirshfeld.lean`, regenerated from
  hirshfeld.py on every run): which file a pro-atom comes from, that the call is the pro-atom share of the owner of
  each segment, that the shares sum to one, and that elements without a pro-atom file are rejected.

  The spline (`CubicSpline(r, dn, bc_type="natural", extrapolate=True)`) and the file contents are *named
  primitives* (`ProEnv`): the theorems hold for every spline and every file content.
-/
import GridVerif.Lemmas.BeckeRoutes
import GridVerif.Gen.Hirshfeld
import GridVerif.Props.C06.Index

set_option linter.unusedSimpArgs false

namespace GridVerif.C06
open GridVerif.Becke GridVerif.BeckePy GridVerif.Gen.Hirshfeld

/-- the pro-atom files of all atoms load and hold the arrays `r`, `dn`: `dat i` for atom `i`. -/
def ProLoads (env : ProEnv ℝ) (nums : List ℤ) (dat : ℕ → List ℝ × List ℝ) : Prop :=
  ∀ i (h : i < nums.length), ∃ d, env.npLoad proatomPackage (proatomFile nums[i]) = .ok d ∧
    npzGet d "r" = .ok (dat i).1 ∧ npzGet d "dn" = .ok (dat i).2

/-- the pro-atom density of atom `i` at `p`: the natural cubic spline through `(r, dn)` of *its* file, at the distance
of `p` from *its* nucleus. -/
noncomputable def proRho (env : ProEnv ℝ) (atc : List (V3 ℝ)) (dat : ℕ → List ℝ × List ℝ) (i : ℕ) (p : V3 ℝ) : ℝ :=
  env.cubicSplineNatural (dat i).1 (dat i).2 (dist3 p (atc.getD i ⟨0, 0, 0⟩))

/-- (32) **Which file, which arrays**: the generated file name is `a` + the atomic number zero-padded to three digits +
`.npz` in the package `grid.data.proatoms`; the shipped files are exactly those of H, C, N, O (kernel-decided on the
regenerated directory listing, for every atomic number 0 … 118). -/
theorem proatom_files :
    proatomPackage = "grid.data.proatoms" ∧
    proatomFile 1 = "a001.npz" ∧ proatomFile 6 = "a006.npz" ∧ proatomFile 86 = "a086.npz" ∧ proatomFile 118 = "a118.npz" ∧
    (∀ z ∈ List.range 119, (proatomFile (z : ℤ) ∈ proatomFiles) = (z ∈ [1, 6, 7, 8])) := by
  decide +kernel

/-- a loop `for i in is: pro += rho_i; aim[A i : B i] = rho_i[A i : B i]`, entry by entry. -/
theorem foldlM_pairs (pts : List (V3 ℝ)) (rho : ℕ → V3 ℝ → ℝ) (A B : ℕ → ℤ) (bad : ℕ → Bool) (is : List ℕ)
    (body : List ℝ × List ℝ → ℕ → Except Err (List ℝ × List ℝ))
    (hbody : ∀ i ∈ is, ∀ ga gp : ℕ → V3 ℝ → ℝ, body (pts.mapIdx ga, pts.mapIdx gp) i =
      if bad i then .error .indexError
      else .ok (pts.mapIdx (fun j p => if inSlice pts.length (A i) (B i) j then rho i p else ga j p),
                pts.mapIdx (fun j p => gp j p + rho i p)))
    (ga gp : ℕ → V3 ℝ → ℝ) :
    is.foldlM body (pts.mapIdx ga, pts.mapIdx gp)
      = if is.any bad then .error .indexError
        else .ok (pts.mapIdx (fun j p => is.foldl (fun acc i => if inSlice pts.length (A i) (B i) j then rho i p else acc) (ga j p)),
                  pts.mapIdx (fun j p => is.foldl (fun acc i => acc + rho i p) (gp j p))) := by
  induction is generalizing ga gp with
  | nil => simp [pure, Except.pure]
  | cons i is ih =>
    simp only [List.foldlM_cons, List.any_cons, List.foldl_cons, hbody i List.mem_cons_self]
    by_cases hb : bad i = true
    · simp only [hb, if_true, Bool.true_or, bind, Except.bind]
    · simp only [hb, Bool.false_eq_true, if_false, Bool.false_or, bind, Except.bind]
      rw [ih (fun i' hi' => hbody i' (List.mem_cons_of_mem _ hi'))]

theorem pyEnumerate_eq (nums : List ℤ) :
    pyEnumerate nums = (List.range nums.length).map fun (i : ℕ) => ((i : ℤ), nums.getD i 0) := by
  unfold pyEnumerate
  apply List.ext_getElem
  · simp
  · intro i h1 h2
    simp only [List.length_mapIdx] at h1
    simp only [List.getElem_mapIdx, List.getElem_map, List.getElem_range]
    rw [← List.getElem_eq_getD (h := h1)]

theorem npDivInto_mapIdx (pts : List (V3 ℝ)) (a b : ℕ → V3 ℝ → ℝ) :
    npDivInto (pts.mapIdx a) (pts.mapIdx b) = .ok (pts.mapIdx fun j p => a j p / b j p) := by
  unfold npDivInto
  simp only [List.length_mapIdx, ne_eq, not_true_eq_false, if_false]
  congr 1
  apply List.ext_getElem <;> simp

theorem npAddInto_mapIdx (pts : List (V3 ℝ)) (a : ℕ → V3 ℝ → ℝ) (f : V3 ℝ → ℝ) :
    npAddInto (pts.mapIdx a) (pts.map f) = .ok (pts.mapIdx fun j p => a j p + f p) := by
  unfold npAddInto
  simp only [List.length_mapIdx, List.length_map, ne_eq, not_true_eq_false, if_false]
  congr 1
  apply List.ext_getElem <;> simp

section
variable (env : ProEnv ℝ) (pts atc : List (V3 ℝ)) (nums : List ℤ) (dat : ℕ → List ℝ × List ℝ)

theorem generate_proatom_loads (hd : ProLoads env nums dat) (i : ℕ) (hi : i < nums.length) :
    generate_proatom env pts (atc.getD i ⟨0, 0, 0⟩) (nums.getD i 0) = .ok (pts.map (proRho env atc dat i)) := by
  obtain ⟨d, h1, h2, h3⟩ := hd i hi
  rw [← List.getElem_eq_getD (h := hi)]
  unfold generate_proatom get_proatom_density load_npz_proatom
  unfold proatomPackage proatomFile at h1
  simp only [h1, h2, h3, bind, Except.bind, pure, Except.pure, npFlatten, List.map_map]
  rfl

/-- (33) **`HirshfeldWeights.__call__`, generated = hand model**: for an integer `atnums` array, one nucleus per atomic
number, and pro-atom files that load, the statement-by-statement translation (zero arrays, the loop over
`enumerate(atnums)` with `promolecule += proatom`, `aim_weights[start:end] = proatom[start:end]`, the final division)
returns what the hand model `hirshfeld` returns on the pro-atom densities `proRho` — same numbers or same exception. -/
theorem hirshfeld_generated (hl : atc.length = nums.length) (hd : ProLoads env nums dat) (ind : List ℤ) :
    Gen.Hirshfeld.call env pts atc ⟨true, nums⟩ ind = hirshfeld (proRho env atc dat) nums.length pts ind := by
  unfold Gen.Hirshfeld.call hirshfeld
  simp only [Bool.not_true, Bool.false_eq_true, if_false, bind, Except.bind, pure, Except.pure]
  rw [pyEnumerate_eq, List.foldlM_map, npZeros_eq_mapIdx]
  rw [foldlM_congr_mem (g := fun s i =>
      match npAddInto s.2 (pts.map (proRho env atc dat i)) with
      | .error e => .error e
      | .ok pm =>
        if decide (ind.length ≤ i + 1) then .error .indexError
        else match npSliceSet s.1 (ind.getD i 0) (ind.getD (i + 1) 0)
            (pySlice (pts.map (proRho env atc dat i)) (ind.getD i 0) (ind.getD (i + 1) 0)) with
          | .error e => .error e
          | .ok aw => .ok (aw, pm))]
  · rw [foldlM_pairs pts (proRho env atc dat) (fun i => ind.getD i 0) (fun i => ind.getD (i + 1) 0)
      (fun i => decide (ind.length ≤ i + 1))]
    · by_cases hbad : nums.length ≠ 0 ∧ ind.length < nums.length + 1
      · have : ((List.range nums.length).any fun i => decide (ind.length ≤ i + 1)) = true := by
          rw [List.any_eq_true]
          exact ⟨nums.length - 1, List.mem_range.mpr (by omega), by simp; omega⟩
        simp only [this, if_true, hbad, and_self, ne_eq, not_false_eq_true]
      · have : ((List.range nums.length).any fun i => decide (ind.length ≤ i + 1)) = false := by
          rw [List.any_eq_false]
          intro i hi
          have := List.mem_range.mp hi
          simp; omega
        simp only [this, Bool.false_eq_true, if_false, hbad, npDivInto_mapIdx]
        congr 2
        funext j p
        unfold overwrite secsIdx sumRange
        rw [List.foldl_map]
    · intro i _ ga gp
      by_cases hb : ind.length ≤ i + 1
      · simp only [hb, decide_true, if_true, npAddInto_mapIdx]
      · simp only [hb, decide_false, Bool.false_eq_true, if_false, npAddInto_mapIdx, sliceSet_mapIdx]
  · intro i hi s
    have hi' : i < nums.length := List.mem_range.mp hi
    obtain ⟨aw, pm⟩ := s
    have hget : pyGetItem atc (i : ℤ) = .ok (atc.getD i ⟨0, 0, 0⟩) := pyGetItem_getD atc i (by omega) _
    simp only [hget, generate_proatom_loads env pts atc nums dat hd i hi']
    by_cases hb : ind.length ≤ i + 1
    · simp only [hb, decide_true, if_true]
      cases npAddInto pm (pts.map (proRho env atc dat i)) with
      | error e => rfl
      | ok v =>
        simp only
        by_cases hlt' : i < ind.length
        · have : pyGetItem ind ((i : ℤ) + 1) = .error .indexError := by
            have := pyGetItem_nat_err ind (i + 1) (by omega)
            simpa using this
          simp only [pyGetItem_getD ind i hlt' 0, this]
        · simp only [pyGetItem_nat_err ind i (by omega)]
    · have hlt : i + 1 < ind.length := by omega
      simp only [hb, decide_false, Bool.false_eq_true, if_false, pyGetItem_getD ind i (by omega) 0,
        pyGetItem_succ_getD ind i hlt 0]
      cases npAddInto pm (pts.map (proRho env atc dat i)) with
      | error e => rfl
      | ok v =>
        simp only
        cases npSliceSet aw (ind.getD i 0) (ind.getD (i + 1) 0)
          (pySlice (List.map (proRho env atc dat i) pts) (ind.getD i 0) (ind.getD (i + 1) 0)) <;> rfl

/-- (34) **Hirshfeld = pro-atom share, on the generated call**: on an ascending index table the generated
`HirshfeldWeights.__call__` succeeds and a point of segment `i` gets `rho_i / Σ_B rho_B`, `rho_B(p)` being the spline
of the file of atom `B`'s atomic number at `|p − R_B|`. -/
theorem hirshfeld_share_generated (hl : atc.length = nums.length) (hd : ProLoads env nums dat) (t : List ℤ)
    (ht : IndexTable t nums.length) :
    ∃ r, Gen.Hirshfeld.call env pts atc ⟨true, nums⟩ t = .ok r ∧ ∃ hlen : r.length = pts.length,
      ∀ (j i : ℕ) (hj : j < pts.length) (hi : i < nums.length),
        t[i]'(by have := ht.length; omega) ≤ j ∧ (j : ℤ) < t[i + 1]'(by have := ht.length; omega) →
        r[j] = proRho env atc dat i pts[j] / ∑ B ∈ Finset.range nums.length, proRho env atc dat B pts[j] := by
  rw [hirshfeld_generated env pts atc nums dat hl hd]
  exact hirshfeld_share (proRho env atc dat) nums.length pts t ht

/-- (35) … and these shares sum to one wherever the pro-molecule density does not vanish. -/
theorem hirshfeld_sum_one_generated (p : V3 ℝ)
    (h : ∑ B ∈ Finset.range nums.length, proRho env atc dat B p ≠ 0) :
    ∑ A ∈ Finset.range nums.length, proRho env atc dat A p / ∑ B ∈ Finset.range nums.length, proRho env atc dat B p = 1 :=
  hirshfeld_sum_one (proRho env atc dat) nums.length p h

end

/-- non-vacuity of (33)–(35): an environment whose every file holds `r = [0, 1]`, `dn = [2, 1]` loads for any molecule. -/
example : ProLoads (⟨fun _ _ => .ok [("r", [0, 1]), ("dn", [2, 1])], fun _ _ x => x⟩ : ProEnv ℝ) [1, 8]
    (fun _ => ([0, 1], [2, 1])) := by
  intro i _
  exact ⟨_, rfl, rfl, rfl⟩

theorem foldlM_ok_mem {α β ε : Type} (l : List α) (f : β → α → Except ε β) (b r : β) (h : l.foldlM f b = .ok r) :
    ∀ a ∈ l, ∃ b' r', f b' a = .ok r' := by
  induction l generalizing b with
  | nil => intro a ha; simp at ha
  | cons x l ih =>
    intro a ha
    simp only [List.foldlM_cons, bind, Except.bind] at h
    cases hx : f b x with
    | error e => rw [hx] at h; simp at h
    | ok b1 =>
      rw [hx] at h
      rcases List.mem_cons.mp ha with rfl | ha'
      · exact ⟨b, b1, hx⟩
      · exact ih b1 h a ha'

/-- (36) **Elements without a pro-atom file are rejected**: whenever the generated call succeeds, `atnums` was an
integer array (`atnums.dtype != int` raises `TypeError`) and the file `a{Z:03d}.npz` of *every* atomic number in it
loaded — so with the shipped files (`proatom_files`) only H, C, N, O are accepted; any other element makes the call
fail (with the loader's `FileNotFoundError`). -/
theorem hirshfeld_needs_files (env : ProEnv ℝ) (pts atc : List (V3 ℝ)) (a : AtnumsArg) (ind : List ℤ) (r : List ℝ)
    (h : Gen.Hirshfeld.call env pts atc a ind = .ok r) :
    a.dtypeIsInt = true ∧ ∀ z ∈ a.vals, ∃ d, env.npLoad proatomPackage (proatomFile z) = .ok d := by
  unfold Gen.Hirshfeld.call at h
  by_cases hd : a.dtypeIsInt = true
  · refine ⟨hd, ?_⟩
    simp only [hd, Bool.not_true, Bool.false_eq_true, if_false, bind, Except.bind, pure, Except.pure] at h
    intro z hz
    split at h
    · simp at h
    · rename_i v hfold
      obtain ⟨i, hi, rfl⟩ : ∃ i, ∃ hi : i < a.vals.length, z = a.vals[i] := by
        obtain ⟨i, hi, rfl⟩ := List.getElem_of_mem hz
        exact ⟨i, hi, rfl⟩
      have hmem : ((i : ℤ), a.vals[i]) ∈ pyEnumerate a.vals := by
        unfold pyEnumerate
        rw [List.mem_mapIdx]
        exact ⟨i, hi, rfl⟩
      obtain ⟨b', r', hb⟩ := foldlM_ok_mem _ _ _ _ hfold _ hmem
      simp only at hb
      split at hb
      · simp at hb
      · rename_i c _
        split at hb
        · simp at hb
        · rename_i pa hpa
          unfold generate_proatom get_proatom_density load_npz_proatom at hpa
          simp only [bind, Except.bind, pure, Except.pure] at hpa
          cases hload : env.npLoad "grid.data.proatoms" ("a" ++ pyFormatD0 3 a.vals[i] ++ ".npz") with
          | error e => rw [hload] at hpa; simp at hpa
          | ok d => exact ⟨d, hload⟩
  · simp only [hd, Bool.not_false, if_true, bind, Except.bind, Bool.false_eq_true] at h
    simp [throw, throwThe, MonadExceptOf.throw] at h

/-- non-vacuity of (36): an environment without any file rejects every non-empty molecule; a float `atnums` array is
rejected with `TypeError`. -/
example : Gen.Hirshfeld.call (⟨fun _ _ => .error .fileNotFound, fun _ _ x => x⟩ : ProEnv ℝ) [] [⟨0, 0, 0⟩] ⟨true, [2]⟩ [0, 0]
      = .error .fileNotFound ∧
    Gen.Hirshfeld.call (⟨fun _ _ => .error .fileNotFound, fun _ _ x => x⟩ : ProEnv ℝ) [] [⟨0, 0, 0⟩] ⟨false, [1]⟩ [0, 0]
      = .error .typeError := by
  constructor <;> rfl

end GridVerif.C06

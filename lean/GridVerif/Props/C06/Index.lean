/-
  C06, part 2 — evaluation routes, the chunking theorem, segment ownership, Hirshfeld, radius table.

  The index-level statements hold for any weight function `w : P → ℕ → K` (`w p k` = normalised cell value of
  atom `k` at `p`); the chunking theorem and the route equalities even for any carrier `K` (they use no ring
  law, so they hold verbatim for the `Float` instance the driver runs).
-/
import GridVerif.Lemmas.BeckeIndex
import GridVerif.Props.C06

namespace GridVerif.C06
open GridVerif.Becke GridVerif.Gen.Becke

/-- an index table for the non-vacuity examples: 3 atoms, 5 points, the middle segment empty. -/
def tab3 : List ℤ := [0, 2, 2, 5]

theorem tab3_ok : IndexTable tab3 3 := ⟨rfl, by decide, by decide⟩

section generic
variable {P K : Type} [Add K] [NatCast K]

/-- (13) **Routes agree, segment-wise**: with the default `select`, `generate_weights` and `compute_weights`
return the same result (same numbers or the same exception) for every `pt_ind`, when they are handed the
same cell values (`routes_formula_agree`).  Any carrier. -/
theorem routes_agree (w : P → ℕ → K) (M : ℕ) (pts : List P) (ptInd : Option (List ℤ)) :
    computeWeights w M pts none ptInd = generateWeights w M pts none ptInd := by
  unfold computeWeights generateWeights
  simp only [Option.getD_none, List.length_range, range_any_false]
  generalize ptInd.getD [] = t
  by_cases h1 : t.length = 1
  · simp [h1]
  · simp only [h1, if_false]
    by_cases h2 : max (t.length - 1) 1 = M
    · simp only [h2, ne_eq, not_true_eq_false, if_false, Bool.false_eq_true]
      by_cases h3 : M = 1
      · subst h3
        have : List.range 1 = [0] := rfl
        simp [this, computeAtomWeight]
      · simp only [h3, if_false]
        have hl : t.length = M + 1 := by omega
        have : (List.range M).any (fun i => decide (t.length ≤ i + 1)) = false := by
          rw [List.any_eq_false]
          intro k hk
          have := List.mem_range.mp hk
          simp; omega
        simp only [this, Bool.false_eq_true, if_false, secsIdx_range t M hl]
    · simp [h2]

/-- (13') **Per-atom route**: for one selected atom `k < M` and no segmentation, all three routines return
`w p k` for every point. -/
theorem per_atom_route (w : P → ℕ → K) (M : ℕ) (pts : List P) (k : ℕ) (hk : k < M) :
    computeAtomWeight w M pts k = .ok (pts.map fun p => w p k) ∧
    generateWeights w M pts (some [k]) none = .ok (pts.map fun p => w p k) ∧
    computeWeights w M pts (some [k]) none = .ok (pts.map fun p => w p k) := by
  have h : ¬ M ≤ k := by omega
  refine ⟨by simp [computeAtomWeight, h], by simp [generateWeights, h], ?_⟩
  simp [computeWeights, computeAtomWeight, h]

/-- (13'') The code as it is, *outside* the quantifier of C06 (which is about the default `select`): with an
explicit permuted `select` and several sectors `generate_weights` writes atom `select[i]` into sector `i`, whereas
`compute_weights` only iterates over `select` and writes atom `i` into sector `i`.  Witness: 2 atoms, 2 points,
`select=[1,0]`, `pt_ind=[0,1,2]`, cell values `w p k = 10 p + k`. -/
theorem routes_differ_explicit_select :
    generateWeights (fun (p : ℕ) k => 10 * p + k) 2 [0, 1] (some [1, 0]) (some [0, 1, 2]) = .ok [1, 10] ∧
    computeWeights (fun (p : ℕ) k => 10 * p + k) 2 [0, 1] (some [1, 0]) (some [0, 1, 2]) = .ok [0, 11] := by
  constructor <;> rfl

/-- (14) **Chunking theorem**: for every number of points `N ≥ 1`, every number of atoms, every chunk size
`c ≥ 1` and every table of non-negative indices, concatenating the per-chunk results of `__call__`
(points `[b : b+c]`, table `(indices - b).clip(min=0)` as generated) equals the unchunked segment-wise
evaluation — same numbers or same exception.  Any carrier. -/
theorem becke_chunked_eq (w : P → ℕ → K) (M c : ℕ) (points : List P) (indices : List ℤ)
    (hc : 1 ≤ c) (hN : points ≠ []) (hind : ∀ a ∈ indices, 0 ≤ a) :
    callWith w M c points indices = generateWeights w M points none (some indices) :=
  callWith_eq_generateWeights w M c points indices hc hN hind

/-- (14') `__call__` with the generated chunk size, for at least one atom. -/
theorem call_eq_generate (w : P → ℕ → K) (M : ℕ) (points : List P) (indices : List ℤ)
    (hM : 1 ≤ M) (hN : points ≠ []) (hind : ∀ a ∈ indices, 0 ≤ a) :
    call w M points indices = generateWeights w M points none (some indices) := by
  unfold call
  rw [if_neg (by omega)]
  exact becke_chunked_eq w M _ points indices (by unfold chunkSize; exact Nat.le_max_left _ _) hN hind

end generic

/-- (14'') The generated chunk size is the largest `c ≥ 1` with `c · M² ≤ 10 · N` (or `1` if there is none):
the memory bound the chunking is for. -/
theorem chunk_size_spec (N M : ℕ) (hM : 1 ≤ M) :
    1 ≤ chunkSize N M ∧ (chunkSize N M = 1 ∨ chunkSize N M * M ^ 2 ≤ 10 * N) ∧
      10 * N < (chunkSize N M + 1) * M ^ 2 := by
  unfold chunkSize
  have hd : 0 < M ^ 2 := by positivity
  generalize M ^ 2 = d at hd ⊢
  have h1 := Nat.div_mul_le_self (10 * N) d
  have h2 : 10 * N < 10 * N / d * d + d := Nat.lt_div_mul_add hd
  generalize 10 * N / d = q at h1 h2 ⊢
  rcases Nat.le_total 1 q with hq | hq
  · rw [Nat.max_eq_right hq]
    refine ⟨hq, Or.inr h1, ?_⟩
    have : (q + 1) * d = q * d + d := Nat.succ_mul q d
    omega
  · rw [Nat.max_eq_left hq]
    refine ⟨le_refl _, Or.inl rfl, ?_⟩
    have := Nat.mul_le_mul_right d hq
    omega

example : chunkSize 100 13 = 5 ∧ chunkSize 3 13 = 1 := by decide

example : callWith (fun (p : ℕ) k => ((10 * p + k : ℕ) : ℝ)) 3 2 [0, 1, 2, 3, 4] tab3
    = generateWeights (fun (p : ℕ) k => ((10 * p + k : ℕ) : ℝ)) 3 [0, 1, 2, 3, 4] none (some tab3) :=
  becke_chunked_eq _ 3 2 _ tab3 (by decide) (by simp) (by decide)

/-- (15) **Segment ownership**: on an ascending table of `M + 1 ≥ 2` non-negative indices the segment-wise
evaluation succeeds, returns one value per point, and a point in segment `i` gets atom `i`'s weight. -/
theorem segmentwise_owner {P : Type} (w : P → ℕ → ℝ) (M : ℕ) (hM : 1 ≤ M) (pts : List P) (t : List ℤ)
    (ht : IndexTable t M) :
    ∃ r, generateWeights w M pts none (some t) = .ok r ∧ ∃ hl : r.length = pts.length,
      ∀ (j i : ℕ) (hj : j < pts.length) (hi : i < M),
        t[i]'(by have := ht.length; omega) ≤ j ∧ (j : ℤ) < t[i + 1]'(by have := ht.length; omega) →
        r[j] = w pts[j] i := by
  have hlen := ht.length
  rw [generateWeights_default]
  rw [if_neg (by omega), if_neg (by rw [hlen]; simp; omega)]
  refine ⟨_, rfl, by simp, ?_⟩
  intro j i hj hi hin
  simp only [List.getElem_mapIdx, gwVal]
  split_ifs with h1
  · have : i = 0 := by omega
    rw [this]
  · exact accumulate_owner w ht hi hj _ hin

example : ∃ r, generateWeights (fun (p : ℕ) k => ((10 * p + k : ℕ) : ℝ)) 3 [0, 1, 2, 3, 4] none (some tab3) = .ok r
    ∧ ∃ hl : r.length = 5, r[3] = 32 := by
  obtain ⟨r, hr, hl, h⟩ := segmentwise_owner (fun (p : ℕ) k => ((10 * p + k : ℕ) : ℝ)) 3 (by decide)
    [0, 1, 2, 3, 4] tab3 tab3_ok
  refine ⟨r, hr, hl, ?_⟩
  have := h 3 2 (by decide) (by decide) (by simp [tab3])
  rw [this]; norm_num

/-- (16) **C06 for the whole-grid call**: for a valid molecule (distinct nuclei, positive radii), any order,
at least one point and an ascending index table from `0` to `N`, `__call__` succeeds, returns one weight per
point, and every point gets the Becke weight of the atom owning its segment, a number in `[0,1]`. -/
theorem becke_call_partition (m : Mol ℝ) (hv : m.Valid) (order : ℕ) (pts : List (V3 ℝ)) (hN : pts ≠ [])
    (t : List ℤ) (ht : IndexTable t m.natom)
    (h0 : t[0]'(by have := ht.length; omega) = 0)
    (hlast : t[m.natom]'(by have := ht.length; omega) = pts.length) :
    ∃ r, call (weight routeGW m order) m.natom pts t = .ok r ∧ ∃ hl : r.length = pts.length,
      ∀ (j : ℕ) (hj : j < pts.length), ∃ i, ∃ hi : i < m.natom,
        (t[i]'(by have := ht.length; omega) ≤ j ∧ (j : ℤ) < t[i + 1]'(by have := ht.length; omega)) ∧
        r[j] = weight routeGW m order pts[j] i ∧ 0 ≤ r[j] ∧ r[j] ≤ 1 := by
  rw [call_eq_generate _ _ _ _ hv.natom_pos hN ht.nonneg]
  obtain ⟨r, hr, hl, hown⟩ := segmentwise_owner (weight routeGW m order) m.natom hv.natom_pos pts t ht
  refine ⟨r, hr, hl, ?_⟩
  intro j hj
  obtain ⟨i, hi, hin⟩ := exists_owner ht.length h0 hlast hj
  have e := hown j i hj hi hin
  have b := weights_in_unit m hv order pts[j] hi
  exact ⟨i, hi, hin, e, by rw [e]; exact b.1, by rw [e]; exact b.2⟩

/-- (17) **Hirshfeld = pro-atom share**: on an ascending table the call succeeds and a point in segment `i`
gets `rho_i / Σ_B rho_B`. -/
theorem hirshfeld_share {P : Type} (rho : ℕ → P → ℝ) (M : ℕ) (pts : List P) (t : List ℤ)
    (ht : IndexTable t M) :
    ∃ r, hirshfeld rho M pts t = .ok r ∧ ∃ hl : r.length = pts.length,
      ∀ (j i : ℕ) (hj : j < pts.length) (hi : i < M),
        t[i]'(by have := ht.length; omega) ≤ j ∧ (j : ℤ) < t[i + 1]'(by have := ht.length; omega) →
        r[j] = rho i pts[j] / ∑ B ∈ Finset.range M, rho B pts[j] := by
  have hlen := ht.length
  unfold hirshfeld
  rw [if_neg (by omega)]
  refine ⟨_, rfl, by simp, ?_⟩
  intro j i hj hi hin
  simp only [List.getElem_mapIdx]
  rw [secsIdx_range t M hlen, overwrite_owner (fun p i => rho i p) ht hi hj _ hin, sumRange_eq]

/-- (17') The Hirshfeld shares of all atoms sum to one wherever the pro-molecule density does not vanish. -/
theorem hirshfeld_sum_one {P : Type} (rho : ℕ → P → ℝ) (M : ℕ) (p : P)
    (h : ∑ B ∈ Finset.range M, rho B p ≠ 0) :
    ∑ A ∈ Finset.range M, rho A p / ∑ B ∈ Finset.range M, rho B p = 1 := by
  rw [← Finset.sum_div, div_self h]

example : ∃ r, hirshfeld (fun i (p : ℕ) => ((i + p + 1 : ℕ) : ℝ)) 3 [0, 1, 2, 3, 4] tab3 = .ok r
    ∧ ∃ hl : r.length = 5, r[0] = 1 / 6 := by
  obtain ⟨r, hr, hl, h⟩ := hirshfeld_share (fun i (p : ℕ) => ((i + p + 1 : ℕ) : ℝ)) 3
    [0, 1, 2, 3, 4] tab3 tab3_ok
  refine ⟨r, hr, hl, ?_⟩
  have := h 0 0 (by decide) (by decide) (by simp [tab3])
  rw [this]
  simp [Finset.sum_range_succ]
  norm_num

end GridVerif.C06

/-
  C05 — an atomic grid is exactly the product of its radial grid and per-shell spheres.

  Model: `Model/AtomGrid.lean` (hand-written, tied by correspondence, harness/props/c05.py); its
  scalar arithmetic, the branch predicate of `from_preset` and the shipped tables are
  `Gen/Presets.lean`, regenerated from /repo on every run.  Degree/size resolution: C12.
  Helper lemmas: `Lemmas/AtomGrid.lean`, `Lemmas/AtomGridReal.lean`.

  Numeric statements are over `ℝ`; structural ones hold for every number type.
-/
import GridVerif.Lemmas.AtomGridReal
import GridVerif.Props.C12
import GridVerif.Gen.AngularTables

set_option linter.unusedSectionVars false

namespace GridVerif.C05
open GridVerif.AtomGrid GridVerif.Bisect GridVerif.Gen.Presets

section Structure
variable {K : Type} [Add K] [Sub K] [Mul K] [Div K] [NatCast K]

/-- (1a) **The shell index table.** It has one more entry than there are shells, starts at 0,
each step adds the number of points of that shell (so it is monotone), and its last entry is the
number of points = (one weight per angular point) the number of weights = the size of the grid. -/
theorem indices_spec (shells : List (Shell K)) :
    (indices shells).length = shells.length + 1 ∧
    (indices shells)[0]? = some 0 ∧
    (∀ i (h : i < shells.length), ∃ a, (indices shells)[i]? = some a ∧
        (indices shells)[i + 1]? = some (a + shells[i].pts.length)) ∧
    (indices shells).Pairwise (· ≤ ·) ∧
    (indices shells)[shells.length]? = some (rawPoints shells).length ∧
    (WF shells → (indices shells)[shells.length]? = some (weights shells).length) := by
  refine ⟨indices_length shells, ?_, ?_, indicesFrom_pairwise _ _, ?_, ?_⟩
  · rw [indices_getElem? shells 0 (Nat.zero_le _)]; simp [offset]
  · intro i h
    exact ⟨offset shells i, indices_getElem? shells i (Nat.le_of_lt h), by
      rw [indices_getElem? shells (i + 1) h, offset_succ shells i h]⟩
  · rw [indices_getElem? shells _ (Nat.le_refl _), rawPoints_length]
  · intro hwf
    rw [indices_getElem? shells _ (Nat.le_refl _), weights_length shells hwf]

example : indices (K := Nat) [⟨2, 1, [⟨1, 0, 0⟩, ⟨0, 1, 0⟩], [1, 1], none⟩, ⟨3, 1, [⟨0, 0, 1⟩], [4], none⟩] = [0, 2, 3] := by
  decide

end Structure

/-- (1b) **Slices.** `points[indices[i]:indices[i+1]]` is exactly `c + r_i • (u_ij R_i)`, `j` in
the order of the angular grid, and (one weight per angular point) the weight slice is
`ω_ij · w_i · r_i²`. Every number of shells and points; shells of any sizes. -/
theorem slice_shell (shells : List (Shell ℝ)) (c : V3 ℝ) (i : Nat) (h : i < shells.length) (a b : Nat)
    (ha : (indices shells)[i]? = some a) (hb : (indices shells)[i + 1]? = some b) :
    pySlice ((rawPoints shells).map fun p => p.addCentre c) a b =
      shells[i].pts.map (fun u => (V3.smul shells[i].r (applyRot shells[i].rot u)).add c) ∧
    (WF shells → pySlice (weights shells) a b =
      shells[i].wts.map fun ω => ω * shells[i].w * shells[i].r ^ 2) := by
  rw [indices_getElem? shells i (Nat.le_of_lt h)] at ha
  rw [indices_getElem? shells (i + 1) h] at hb
  simp only [Option.some.injEq] at ha hb
  subst ha hb
  constructor
  · rw [pySlice_map, slice_rawPoints shells i h]
    simp only [Shell.points, List.map_map]
    apply List.map_congr_left
    intro u _
    simp [point_eq]
  · intro hwf
    rw [slice_weights shells hwf i h]
    simp only [Shell.weights]
    apply List.map_congr_left
    intro ω _
    exact shellWeight_real _ _ _

/-- two shells, the second rotated by a quarter turn about z and centred at (1,1,1) -/
example :
    let R : M3 ℝ := ⟨⟨0, 1, 0⟩, ⟨-1, 0, 0⟩, ⟨0, 0, 1⟩⟩
    let shells : List (Shell ℝ) :=
      [⟨0, 1, [⟨1, 0, 0⟩, ⟨0, 1, 0⟩], [2, 2], none⟩, ⟨3, 5, [⟨1, 0, 0⟩], [7], some R⟩]
    WF shells ∧ R.Orthogonal ∧ (indices shells)[1]? = some 2 ∧ (indices shells)[2]? = some 3 ∧
    (V3.smul 3 (applyRot (some R) ⟨1, 0, 0⟩)).add ⟨1, 1, 1⟩ = ⟨1, 4, 1⟩ := by
  refine ⟨?_, ?_, by decide, by decide, ?_⟩
  · intro s hs; simp at hs; rcases hs with rfl | rfl <;> rfl
  · simp [M3.Orthogonal, V3.dot]
  · simp [applyRot, V3.mulMat, V3.smul, V3.add]; norm_num

section Init
variable {K : Type} [Add K] [Sub K] [Mul K] [Div K] [NatCast K]

theorem loadAll_rotation (env : Env K) (ρ : Nat → M3 K) (ds : List Nat) :
    loadAll { env with rotation := ρ } ds = loadAll env ds := by
  induction ds with
  | nil => rfl
  | cons d ds ih =>
    simp only [loadAll, ih]
    rfl

/-- (0) **What the constructor builds** (the tie between `__init__` and the theorems about shell
lists): if it succeeds, the stored arrays are the flattened shells, there is one shell per radial
node carrying that node and its weight, the angular grid that `AngularGrid(degree=…)` hands out
for the requested degree, and the matrix of seed `rotate + i` (none when `rotate = 0`). -/
theorem init_spec (env : Env K) (rg : List (K × K)) (req : Request) (c : V3 K) (rot : Nat) (g : Grid K)
    (h : init env rg req c rot = .ok g) :
    g.center = c ∧ g.rotate = rot ∧ g.rgrid = rg ∧ rot < 2 ^ 32 - rg.length ∧
    g.rawPoints = rawPoints g.shells ∧ g.weights = weights g.shells ∧ g.indices = indices g.shells ∧
    g.shells.length = rg.length ∧ g.degrees.length = rg.length ∧
    ∃ degs, effectiveDegrees env.npointsTbl rg.length req = .ok degs ∧ degs.length = rg.length ∧
      ∀ i (hi : i < rg.length), ∃ s deg d, g.shells[i]? = some s ∧ g.degrees[i]? = some deg ∧
        degs[i]? = some d ∧ s.r = rg[i].1 ∧ s.w = rg[i].2 ∧
        s.rot = (if rotates rot then some (env.rotation (shellSeed rot i)) else none) ∧
        angular env d = .ok (deg, s.pts, s.wts) := by
  unfold init at h
  split at h
  · cases h
  · rename_i hrot
    split at h
    · cases h
    · rename_i degs hdegs
      unfold generate at h
      split at h
      · cases h
      · rename_i hlen
        split at h
        · cases h
        · rename_i as has
          simp only [Except.ok.injEq] at h
          subst h
          obtain ⟨hal, haget⟩ := loadAll_spec env degs as has
          have hlen' : degs.length = rg.length := by simpa using hlen
          have hasl : as.length = rg.length := by omega
          refine ⟨rfl, rfl, rfl, Decidable.not_not.mp hrot, rfl, rfl, rfl,
            assemble_length _ _ _ _ _ hasl, by simp [hasl], degs, hdegs, hlen', ?_⟩
          intro i hi
          have hi1 : i < as.length := by omega
          have hi2 : i < degs.length := by omega
          have hi3 : i < (assemble env.rotation rot 0 rg as).length := by
            rw [assemble_length _ _ _ _ _ hasl]; exact hi
          refine ⟨(assemble env.rotation rot 0 rg as)[i], as[i].1, degs[i],
            List.getElem?_eq_getElem hi3, by simp [List.getElem?_eq_getElem hi1],
            List.getElem?_eq_getElem hi2, ?_⟩
          rw [assemble_getElem env.rotation rot 0 rg as hasl i hi]
          simp only [Nat.zero_add, true_and]
          exact haget i hi2 hi1

theorem init_center (env : Env K) (rg : List (K × K)) (req : Request) (c c' : V3 K) (rot : Nat) :
    init env rg req c' rot = (init env rg req c rot).map fun g => { g with center := c' } := by
  unfold init generate
  split
  · rfl
  · split
    · rfl
    · split
      · rfl
      · split <;> rfl

/-- (3c) **Weights, index table and degrees depend neither on the rotation (seed or matrices)
nor on the centre.** -/
theorem weights_independent_of_rotation_and_centre (env : Env K) (ρ' : Nat → M3 K)
    (rg : List (K × K)) (req : Request) (c c' : V3 K) (rot rot' : Nat) (g g' : Grid K)
    (h : init env rg req c rot = .ok g)
    (h' : init { env with rotation := ρ' } rg req c' rot' = .ok g') :
    g'.weights = g.weights ∧ g'.indices = g.indices ∧ g'.degrees = g.degrees ∧
      g'.shells.map (fun s => (s.r, s.w, s.pts, s.wts)) = g.shells.map (fun s => (s.r, s.w, s.pts, s.wts)) := by
  unfold init at h h'
  split at h
  · cases h
  split at h'
  · cases h'
  simp only at h'
  split at h
  · cases h
  rename_i degs hdegs
  rw [hdegs] at h'
  simp only at h'
  unfold generate at h h'
  split at h
  · cases h
  rename_i hlen
  rw [if_neg hlen] at h'
  rw [loadAll_rotation] at h'
  split at h
  · cases h
  rename_i as has
  rw [has] at h'
  simp only [Except.ok.injEq] at h h'
  subst h h'
  obtain ⟨h1, h2⟩ := weights_assemble_indep ρ' env.rotation rot' rot 0 0 rg as
  refine ⟨h1, ?_, rfl, ?_⟩
  · simp only [indices, Shell.points_length]
    rw [h2]
  · exact assemble_strip _ _ _ _ _ _ _ _

/-- (3d) **Reproducible from the seed.** The grid depends on the source of rotation matrices only
through its values at the seeds `rotate + i`, `i` < number of shells; with `rotate = 0` it does
not depend on it at all (no matrix is applied). -/
theorem reproducible_from_seed (env : Env K) (ρ' : Nat → M3 K) (rg : List (K × K)) (req : Request)
    (c : V3 K) (rot : Nat) :
    ((∀ i, i < rg.length → ρ' (rot + i) = env.rotation (rot + i)) →
      init { env with rotation := ρ' } rg req c rot = init env rg req c rot) ∧
    (rot = 0 → init { env with rotation := ρ' } rg req c rot = init env rg req c rot) ∧
    (rot = 0 → ∀ g, init env rg req c rot = .ok g → ∀ s ∈ g.shells, s.rot = none) := by
  have key : ∀ (hq : ∀ as, assemble ρ' rot 0 rg as = assemble env.rotation rot 0 rg as),
      init { env with rotation := ρ' } rg req c rot = init env rg req c rot := by
    intro hq
    unfold init generate
    simp only [loadAll_rotation, hq]
  refine ⟨fun hρ => key fun as => ?_, fun h0 => key fun as => ?_, ?_⟩
  · apply assemble_congr
    intro j hj
    simpa [shellSeed] using hρ j hj
  · subst h0
    exact assemble_norot_congr _ _ _ _ _ _ (by decide)
  · intro h0 g hg
    subst h0
    unfold init at hg
    split at hg
    · cases hg
    split at hg
    · cases hg
    unfold generate at hg
    split at hg
    · cases hg
    split at hg
    · cases hg
    simp only [Except.ok.injEq] at hg
    subst hg
    exact assemble_norot _ _ _ _ _ (by decide)

/-- (4b) `get_shell_grid` rejects every index outside `0 ≤ index < number of shells` (negative
ones included: no wrap-around). -/
theorem shell_grid_rejects (env : Env K) (g : Grid K) (index : Int) (rSq : Bool)
    (h : ¬ (0 ≤ index ∧ index < g.degrees.length)) :
    getShellGrid env g index rSq = .error .valueError := by
  unfold getShellGrid
  rw [if_pos h]

/-- (4a) **The per-shell grid returned on request.** For a grid that was built and an index in
range, `get_shell_grid(i, r_sq)` succeeds; its points are exactly the slice
`_points[indices[i]:indices[i+1]]` (= the points of the shell relative to the centre), its weights
are exactly the shell's slice of the weights when `r_sq` is true and `ω_ij · w_i` otherwise. The
angular grid is re-created from the stored degree: that this gives back the same data is the
idempotence of the degree resolution (proved, `resolve_idem`). -/
theorem shell_grid_spec (env : Env K) (rg : List (K × K)) (req : Request) (c : V3 K) (rot : Nat)
    (g : Grid K) (h : init env rg req c rot = .ok g) (i : Nat) (hi : i < rg.length) (rSq : Bool) :
    ∃ s a b, g.shells[i]? = some s ∧ g.indices[i]? = some a ∧ g.indices[i + 1]? = some b ∧
      getShellGrid env g (i : Int) rSq =
        .ok (pySlice g.rawPoints a b,
             if rSq then s.wts.map (fun ω => shellWeight ω s.w s.r)
             else s.wts.map (fun ω => shellGridWeight ω s.w)) ∧
      pySlice g.rawPoints a b = s.pts.map (fun u => (applyRot s.rot u).scale s.r) ∧
      (WF g.shells → pySlice g.weights a b = s.wts.map (fun ω => shellWeight ω s.w s.r)) := by
  obtain ⟨hc, hrot, hrg, _, hraw, hw, hidx, hsl, hdl, degs, _, _, hall⟩ := init_spec env rg req c rot g h
  obtain ⟨s, deg, d, hs, hdeg, _, hsr, hsw, hsrot, hang⟩ := hall i hi
  have hi' : i < g.shells.length := by omega
  have hs' : g.shells[i] = s := by
    have := List.getElem?_eq_getElem hi'
    rw [hs] at this; exact (Option.some.inj this).symm
  refine ⟨s, offset g.shells i, offset g.shells (i + 1), hs, ?_, ?_, ?_, ?_, ?_⟩
  · rw [hidx]; exact indices_getElem? _ _ (Nat.le_of_lt hi')
  · rw [hidx]; exact indices_getElem? _ _ hi'
  · have hsl' : pySlice g.rawPoints (offset g.shells i) (offset g.shells (i + 1)) = s.points := by
      rw [hraw, slice_rawPoints g.shells i hi', hs']
    rw [hsl']
    unfold getShellGrid
    have hcond : (0 : Int) ≤ (i : Int) ∧ (i : Int) < (g.degrees.length : Int) := by
      constructor <;> omega
    rw [if_neg (not_not.mpr hcond)]
    simp only [Int.toNat_natCast]
    have hrgi : g.rgrid[i]? = some rg[i] := by rw [hrg]; exact List.getElem?_eq_getElem hi
    rw [hdeg, hrgi]
    simp only
    rw [angular_idem env hang]
    simp only [Except.ok.injEq, Prod.mk.injEq]
    constructor
    · simp only [Shell.points, hsrot, hsr, hrot]
      cases hr : rotates rot
      · have : shellGridRotates rot = false := by simpa [rotates, shellGridRotates] using hr
        simp [this, applyRot, V3.scale, V3.scaleSG, scalePoint, shellGridScale]
      · have : shellGridRotates rot = true := by simpa [rotates, shellGridRotates] using hr
        simp [this, applyRot, V3.scale, V3.scaleSG, scalePoint, shellGridScale, shellSeed,
          shellGridSeed, Function.comp_def]
    · cases rSq
      · simp [hsw]
      · simp [hsw, hsr, shellWeight, shellGridWeight, shellGridWeightRsq, Function.comp_def]
  · rw [hraw, slice_rawPoints g.shells i hi', hs']; rfl
  · intro hwf
    rw [hw, slice_weights g.shells hwf i hi', hs']; rfl

end Init

/-! ### centre, radii -/

/-- (3a) **Moving the centre only translates the points**: same weights, index table, degrees
and stored (centre-free) points; the points read from the grid are shifted by the displacement. -/
theorem centre_translates (env : Env ℝ) (rg : List (ℝ × ℝ)) (req : Request) (c t : V3 ℝ) (rot : Nat)
    (g : Grid ℝ) (h : init env rg req c rot = .ok g) :
    ∃ g', init env rg req (c.add t) rot = .ok g' ∧
      g'.points = g.points.map (fun p => p.add t) ∧ g'.weights = g.weights ∧
      g'.indices = g.indices ∧ g'.degrees = g.degrees ∧ g'.rawPoints = g.rawPoints := by
  refine ⟨{ g with center := c.add t }, ?_, ?_, rfl, rfl, rfl, rfl⟩
  · rw [init_center env rg req c (c.add t) rot, h]; rfl
  · have hc : g.center = c := (init_spec env rg req c rot g h).1
    simp only [Grid.points, List.map_map, hc]
    apply List.map_congr_left
    intro p _
    simp only [Function.comp, V3.addCentre, addCentre_real, V3.add]
    congr 1 <;> ring

/-- (3b) **An orthogonal matrix preserves radii**: `‖u R‖ = ‖u‖` for `R Rᵀ = 1`. -/
theorem rotation_preserves_radii (u : V3 ℝ) (R : M3 ℝ) (hR : R.Orthogonal) :
    (u.mulMat R).norm = u.norm := by
  simp only [V3.norm, norm2_mulMat u R hR]

example : (⟨⟨0, 1, 0⟩, ⟨-1, 0, 0⟩, ⟨0, 0, 1⟩⟩ : M3 ℝ).Orthogonal := by
  simp [M3.Orthogonal, V3.dot]

/-- (3b') Hence every point of shell `i` lies at distance exactly `r_i` from the centre, whatever
the rotation: unit angular points, orthogonal matrices, `r_i ≥ 0` (negative nodes are rejected). -/
theorem point_radius (shells : List (Shell ℝ)) (c : V3 ℝ)
    (hunit : ∀ s ∈ shells, ∀ u ∈ s.pts, u.norm2 = 1) (hrot : ∀ s ∈ shells, RotOk s.rot)
    (hr : ∀ s ∈ shells, 0 ≤ s.r) :
    ∀ s ∈ shells, ∀ p ∈ s.points.map (fun p => p.addCentre c), (p.sub c).norm = s.r := by
  intro s hs p hp
  simp only [Shell.points, List.map_map, List.mem_map, Function.comp] at hp
  obtain ⟨u, hu, rfl⟩ := hp
  rw [point_sub_centre]
  apply norm_smul_unit _ _ _ (hr s hs)
  rw [norm2_applyRot _ (hrot s hs)]
  exact hunit s hs u hu

/-! ### factorisation of integrals -/

/-- (2a) **Factorisation.** For a radial function `g` and an angular function `Y`,
`Σ_grid g(‖p−c‖) · Y((p−c)/‖p−c‖) · weight = Σ_i w_i r_i² g(r_i) · Σ_j ω_ij Y(u_ij R_i)`.
Hypotheses: one weight per angular point, unit angular points, orthogonal matrices, `r_i ≥ 0`.
Shells with `r_i = 0` contribute nothing on either side (their weights vanish), so the
direction of the points that coincide with the centre never matters. -/
theorem integral_factorises (shells : List (Shell ℝ)) (c : V3 ℝ) (hwf : WF shells)
    (hunit : ∀ s ∈ shells, ∀ u ∈ s.pts, u.norm2 = 1) (hrot : ∀ s ∈ shells, RotOk s.rot)
    (hr : ∀ s ∈ shells, 0 ≤ s.r) (g : ℝ → ℝ) (Y : V3 ℝ → ℝ) :
    quad (fun p => g (p.sub c).norm * Y (p.sub c).unit)
        ((rawPoints shells).map fun p => p.addCentre c) (weights shells) =
      (shells.map fun s => s.w * s.r ^ 2 * g s.r *
        (List.zipWith (fun u ω => ω * Y (applyRot s.rot u)) s.pts s.wts).sum).sum := by
  rw [quad_grid _ shells c hwf]
  congr 1
  apply List.map_congr_left
  intro s hs
  simp only [quad, Shell.points, Shell.weights, List.map_map, List.zipWith_map]
  rw [← sum_zipWith_const_mul]
  congr 1
  apply zipWith_congr_left
  intro u hu ω
  simp only [Function.comp, point_sub_centre, shellWeight_real]
  have hv : (applyRot s.rot u).norm2 = 1 := by
    rw [norm2_applyRot _ (hrot s hs)]; exact hunit s hs u hu
  rcases (hr s hs).eq_or_lt with h0 | hpos
  · rw [← h0]; ring
  · rw [norm_smul_unit _ _ hv hpos.le, unit_smul_unit _ _ hv hpos]; ring

/-- (2b) **Radial sum × exact angular integral.** If moreover every shell with `r_i ≠ 0`
integrates the rotated angular function exactly, `Σ_j ω_ij Y(u_ij R_i) = I` — for `Y = Y_lm` with
`l` not above the smallest shell degree this is C02 (each shipped angular grid is exact to its
degree) together with the closure of the harmonics of degree ≤ l under rotations, which Mathlib
does not contain: it is the explicit hypothesis `hexact` — then the grid sum is
`(Σ_i w_i r_i² g(r_i)) · I`. -/
theorem integral_factorises_exact (shells : List (Shell ℝ)) (c : V3 ℝ) (hwf : WF shells)
    (hunit : ∀ s ∈ shells, ∀ u ∈ s.pts, u.norm2 = 1) (hrot : ∀ s ∈ shells, RotOk s.rot)
    (hr : ∀ s ∈ shells, 0 ≤ s.r) (g : ℝ → ℝ) (Y : V3 ℝ → ℝ) (I : ℝ)
    (hexact : ∀ s ∈ shells, s.r ≠ 0 →
      (List.zipWith (fun u ω => ω * Y (applyRot s.rot u)) s.pts s.wts).sum = I) :
    quad (fun p => g (p.sub c).norm * Y (p.sub c).unit)
        ((rawPoints shells).map fun p => p.addCentre c) (weights shells) =
      (shells.map fun s => s.w * s.r ^ 2 * g s.r).sum * I := by
  rw [integral_factorises shells c hwf hunit hrot hr g Y, ← List.sum_map_mul_right]
  congr 1
  apply List.map_congr_left
  intro s hs
  by_cases h0 : s.r = 0
  · rw [h0]; ring
  · rw [hexact s hs h0]

/-- non-vacuity of (2): one shell of radius 2 carrying the 6-point octahedron with equal weights
integrates `Y = x²` (degree 2 ≤ 3) to `w r² g(r) · 6·(2/6)·…`: the per-shell angular sum is
`2 ω`, the same for the shell rotated by a quarter turn. -/
example :
    let oct : List (V3 ℝ) := [⟨1, 0, 0⟩, ⟨-1, 0, 0⟩, ⟨0, 1, 0⟩, ⟨0, -1, 0⟩, ⟨0, 0, 1⟩, ⟨0, 0, -1⟩]
    let R : M3 ℝ := ⟨⟨0, 1, 0⟩, ⟨-1, 0, 0⟩, ⟨0, 0, 1⟩⟩
    let s : Shell ℝ := ⟨2, 1, oct, [5, 5, 5, 5, 5, 5], some R⟩
    WF [s] ∧ (∀ u ∈ s.pts, u.norm2 = 1) ∧ RotOk s.rot ∧ 0 ≤ s.r ∧
      (List.zipWith (fun u ω => ω * (applyRot s.rot u).x ^ 2) s.pts s.wts).sum = 10 := by
  refine ⟨?_, ?_, ?_, by norm_num, ?_⟩
  · intro s hs; simp at hs; subst hs; rfl
  · intro u hu; simp at hu; rcases hu with rfl | rfl | rfl | rfl | rfl | rfl <;> simp [V3.norm2, V3.dot]
  · intro R hR; simp at hR; subst hR; simp [M3.Orthogonal, V3.dot]
  · simp [applyRot, V3.mulMat]; norm_num

/-! ### sectors -/

/-- (5a) **Pruned sectors.** With ascending sector bounds `b_0 < … < b_{S-1}` and `S+1` degrees,
a radius in sector `k` — `b_{k-1} < r ≤ b_k` (no lower condition for `k = 0`, no upper one for
`k = S`) — gets degree `d_k`; and the lookup never indexes out of range, whatever the radii. -/
theorem sector_degree {K : Type} [LinearOrder K] (bounds : List K) (hs : bounds.Pairwise (· < ·))
    (ds : List Nat) (hl : ds.length = bounds.length + 1) (r : K) (k : Nat) (hk : k ≤ bounds.length)
    (hlo : ∀ h : 0 < k, bounds[k - 1]'(by omega) < r)
    (hhi : ∀ h : k < bounds.length, r ≤ bounds[k]) :
    sectorPosition bounds r = k ∧
    findDegreesForRadialPoints [r] bounds ds = .ok [ds[k]'(by omega)] ∧
    (∀ rpoints : List K, ∃ out, findDegreesForRadialPoints rpoints bounds ds = .ok out ∧
      out.length = rpoints.length) := by
  have hpos : sectorPosition bounds r = k := by
    unfold sectorPosition
    simp only [sectorBelow]
    apply countP_eq_of_split bounds r k hk
    · intro j hj hjk
      have h1 := hlo (by omega)
      rcases Nat.lt_or_ge j (k - 1) with h2 | h2
      · exact lt_trans (List.pairwise_iff_getElem.mp hs j (k - 1) hj (by omega) h2) h1
      · have : j = k - 1 := by omega
        subst this; exact h1
    · intro j hj hkj
      have h1 := hhi (by omega)
      rcases Nat.lt_or_ge k j with h2 | h2
      · exact le_trans h1 (le_of_lt (List.pairwise_iff_getElem.mp hs k j (by omega) hj h2))
      · have : j = k := by omega
        subst this; exact h1
  refine ⟨hpos, ?_, fun rp => ?_⟩
  · unfold findDegreesForRadialPoints
    have hk' : k < ds.length := by omega
    simp only [List.mapM_cons, List.mapM_nil, hpos, List.getElem?_eq_getElem hk']
    rfl
  · obtain ⟨out, h1, h2, _⟩ := findDegrees_ok rp bounds ds hl
    exact ⟨out, h1, h2⟩

example : sectorPosition ([1, 2, 4] : List Nat) 2 = 1 ∧
    findDegreesForRadialPoints ([0, 1, 2, 3, 5] : List Nat) [1, 2, 4] [3, 5, 7, 9] = .ok [3, 3, 5, 7, 9] := by
  decide

/-! ### degrees are never below the request (with C12) -/

theorem resolve_of_mem {tbl : List (Nat × Nat)} (hs : Ascending (keys tbl)) {k v : Nat}
    (h : (k, v) ∈ tbl) : resolve tbl k = .ok k v := by
  have hm : k ∈ keys tbl := List.mem_map.mpr ⟨(k, v), h, rfl⟩
  have hle := le_maxKey hm
  unfold resolve
  simp [Nat.not_lt.mpr hle, hm, C12.lookup_of_mem hs h]

section
variable {K : Type} [Add K] [Sub K] [Mul K] [Div K] [NatCast K]

/-- (5b) **No shell is coarser than requested, degrees.** For a method whose tables are in order
(C12 `tables_ok`), every shell of a grid that was built has the least supported degree not below
the degree handed to `_generate_atomic_grid` for it. -/
theorem built_degree_not_below_request (env : Env K) (files fp fs : List (Nat × Nat))
    (hok : C12.MethodOk env.degreesTbl env.npointsTbl files fp fs)
    (rg : List (K × K)) (req : Request) (c : V3 K) (rot : Nat) (g : Grid K)
    (h : init env rg req c rot = .ok g) :
    ∃ degs, effectiveDegrees env.npointsTbl rg.length req = .ok degs ∧
      ∀ i, i < rg.length → ∃ d deg, degs[i]? = some d ∧ g.degrees[i]? = some deg ∧
        d ≤ deg ∧ deg ∈ keys env.degreesTbl ∧ ∀ d' ∈ keys env.degreesTbl, d ≤ d' → deg ≤ d' := by
  obtain ⟨_, _, _, _, _, _, _, _, _, degs, hdegs, _, hall⟩ := init_spec env rg req c rot g h
  refine ⟨degs, hdegs, fun i hi => ?_⟩
  obtain ⟨s, deg, d, _, hdeg, hd, _, _, _, hang⟩ := hall i hi
  refine ⟨d, deg, hd, hdeg, ?_⟩
  by_cases hle : d ≤ maxKey (keys env.degreesTbl)
  · obtain ⟨d', s', hr, hmem, _, _, hge, hleast⟩ :=
      C12.degree_request env.degreesTbl env.npointsTbl files fp fs hok d hle
    unfold angular at hang
    rw [hr] at hang
    simp only at hang
    split at hang
    · simp only [Except.ok.injEq, Prod.mk.injEq] at hang
      obtain ⟨rfl, _, _⟩ := hang
      exact ⟨hge, List.mem_map.mpr ⟨(d', s'), hmem, rfl⟩, hleast⟩
    · cases hang
  · have := (C12.request_above_max_rejected env.degreesTbl env.npointsTbl d).1 (by omega)
    unfold angular at hang
    rw [this] at hang
    cases hang

end

/-- The chain a size request goes through: a size `s` not above the largest supported one is
converted to the degree `d` of the least supported size `s' ≥ s`, and `AngularGrid(degree=d)`
then resolves to exactly `(d, s')` again. -/
theorem size_request_chain (dg np files fp fs : List (Nat × Nat))
    (hok : C12.MethodOk dg np files fp fs) (s : Nat) (hs : s ≤ maxKey (keys np)) :
    ∃ d s', resolve np s = .ok s' d ∧ s ≤ s' ∧ (∀ t ∈ keys np, s ≤ t → s' ≤ t) ∧
      (d, s') ∈ dg ∧ s' ∈ keys np ∧ getDegreeAndSize dg np (some d) none = .ok d s' := by
  obtain ⟨d, s', hr, hmd, hmn, _, hge, hleast⟩ := C12.size_request dg np files fp fs hok s hs
  refine ⟨d, s', ?_, hge, hleast, hmd, List.mem_map.mpr ⟨(s', d), hmn, rfl⟩, ?_⟩
  · unfold getDegreeAndSize at hr
    simp only at hr
    split at hr
    · rename_i k v hres
      simp only [Out.ok.injEq] at hr
      obtain ⟨rfl, rfl⟩ := hr
      exact hres
    · cases hr
    · cases hr
  · unfold getDegreeAndSize
    simp only
    rw [resolve_of_mem hok.1 hmd]

/-- the degree a size converts to (`convert_angular_sizes_to_degrees`, element-wise by C12) -/
def degOf (np : List (Nat × Nat)) (s : Nat) : Nat :=
  match resolve np s with
  | .ok _ v => v
  | _ => 0

theorem effectiveDegrees_sizes (np : List (Nat × Nat)) (hasc : Ascending (keys np)) (hne : np ≠ [])
    (n : Nat) (ss : List Nat) (hl : ss.length = n) (hsz : ∀ s ∈ ss, s ≤ maxKey (keys np)) :
    effectiveDegrees np n (.sizes ss) = .ok (ss.map (degOf np)) := by
  have hres : ∀ s ∈ ss, ∃ k, resolve np s = .ok k (degOf np s) := by
    intro s hs
    obtain ⟨k, v, hr, _⟩ := C12.resolve_spec np hasc s (hsz s hs) hne
    exact ⟨k, by unfold degOf; rw [hr]⟩
  have hconv := C12.convert_is_map np ss _ hres
  unfold effectiveDegrees
  simp only [hconv]
  split
  · rename_i heq; cases heq
  · rename_i d heq
    have h1 : ss.map (degOf np) = [d] := Except.ok.inj heq
    have h2 : n = 1 := by
      have := congrArg List.length h1
      simp at this; omega
    rw [h1, h2]; rfl
  · rename_i degs _ heq
    exact heq.symm

theorem effectiveDegrees_degrees (np : List (Nat × Nat)) (n : Nat) (ds : List Nat) (hl : ds.length = n) :
    effectiveDegrees np n (.degrees ds) = .ok ds := by
  unfold effectiveDegrees
  simp only
  split
  · rename_i heq; cases heq
  · rename_i d heq
    have h1 : ds = [d] := Except.ok.inj heq
    subst h1
    simp at hl
    subst hl; rfl
  · rename_i degs _ heq
    exact heq.symm

section
variable {K : Type} [Add K] [Sub K] [Mul K] [Div K] [NatCast K]

/-- What the data loader must satisfy (C02/C12 `tables_ok`: the file of degree `d` holds as many
points as the table says, one weight per point). -/
def LoadOk (env : Env K) : Prop :=
  ∀ d s, (d, s) ∈ env.degreesTbl → ∃ p w, env.load d = some (p, w) ∧ p.length = s ∧ w.length = s

/-- A shell whose degree was obtained by converting the size `s` has at least `s` points: the
least supported number not below `s`, one weight per point. -/
theorem shell_size_of_degOf (env : Env K) (files fp fs : List (Nat × Nat))
    (hok : C12.MethodOk env.degreesTbl env.npointsTbl files fp fs) (hload : LoadOk env)
    (s : Nat) (hs : s ≤ maxKey (keys env.npointsTbl)) (deg : Nat) (p : List (V3 K)) (w : List K)
    (hang : angular env (degOf env.npointsTbl s) = .ok (deg, p, w)) :
    s ≤ p.length ∧ w.length = p.length ∧ p.length ∈ keys env.npointsTbl ∧
      (∀ t ∈ keys env.npointsTbl, s ≤ t → p.length ≤ t) ∧
      degOf env.npointsTbl s ∈ keys env.degreesTbl := by
  obtain ⟨d0, s', hr, hge, hleast, hmem, hkey, hgd⟩ :=
    size_request_chain env.degreesTbl env.npointsTbl files fp fs hok s hs
  have hd0 : degOf env.npointsTbl s = d0 := by unfold degOf; rw [hr]
  rw [hd0] at hang ⊢
  obtain ⟨p', w', hlp, hpl, hwl⟩ := hload d0 s' hmem
  unfold angular at hang
  rw [hgd] at hang
  simp only [hlp, Except.ok.injEq, Prod.mk.injEq] at hang
  obtain ⟨_, rfl, rfl⟩ := hang
  exact ⟨by omega, by omega, by rw [hpl]; exact hkey, by rw [hpl]; exact hleast,
    List.mem_map.mpr ⟨(d0, s'), hmem, rfl⟩⟩

theorem degOf_mem_keys (dg np files fp fs : List (Nat × Nat)) (hok : C12.MethodOk dg np files fp fs)
    (s : Nat) (hs : s ≤ maxKey (keys np)) : degOf np s ∈ keys dg := by
  obtain ⟨d0, s', hr, _, _, hmem, _, _⟩ := size_request_chain dg np files fp fs hok s hs
  have : degOf np s = d0 := by unfold degOf; rw [hr]
  rw [this]; exact List.mem_map.mpr ⟨(d0, s'), hmem, rfl⟩

/-- (5c) **No shell is coarser than requested, sizes** — what `from_preset` relies on for "no
shell coarser than tabulated". For a grid built from one size per radial point, shell `i` has at
least `sizes[i]` points, in fact the least supported number of points not below it, and one
weight per point. -/
theorem built_size_not_below_request (env : Env K) (files fp fs : List (Nat × Nat))
    (hok : C12.MethodOk env.degreesTbl env.npointsTbl files fp fs) (hload : LoadOk env)
    (rg : List (K × K)) (ss : List Nat) (c : V3 K) (rot : Nat) (g : Grid K)
    (hl : ss.length = rg.length) (hsz : ∀ s ∈ ss, s ≤ maxKey (keys env.npointsTbl))
    (h : init env rg (.sizes ss) c rot = .ok g) :
    ∀ i (hi : i < rg.length), ∃ sh, g.shells[i]? = some sh ∧
      ss[i] ≤ sh.pts.length ∧ sh.wts.length = sh.pts.length ∧
      sh.pts.length ∈ keys env.npointsTbl ∧
      ∀ t ∈ keys env.npointsTbl, ss[i] ≤ t → sh.pts.length ≤ t := by
  intro i hi
  obtain ⟨_, _, _, _, _, _, _, _, _, degs, hdegs, _, hall⟩ := init_spec env rg (.sizes ss) c rot g h
  rw [effectiveDegrees_sizes env.npointsTbl hok.2.1 hok.2.2.2.1 rg.length ss hl hsz] at hdegs
  have hdegs' : degs = ss.map (degOf env.npointsTbl) := (Except.ok.inj hdegs).symm
  obtain ⟨sh, deg, d, hsh, _, hd, _, _, _, hang⟩ := hall i hi
  have hi' : i < ss.length := by omega
  have hd' : d = degOf env.npointsTbl ss[i] := by
    rw [hdegs', List.getElem?_map, List.getElem?_eq_getElem hi'] at hd
    exact (Option.some.inj hd).symm
  rw [hd'] at hang
  obtain ⟨h1, h2, h3, h4, _⟩ := shell_size_of_degOf env files fp fs hok hload ss[i]
    (hsz _ (List.getElem_mem hi')) deg sh.pts sh.wts hang
  exact ⟨sh, hsh, h1, h2, h3, h4⟩

theorem loadAll_ok (env : Env K) (files fp fs : List (Nat × Nat))
    (hok : C12.MethodOk env.degreesTbl env.npointsTbl files fp fs) (hload : LoadOk env)
    (ds : List Nat) (hmax : ∀ d ∈ ds, d ≤ maxKey (keys env.degreesTbl)) :
    ∃ as, loadAll env ds = .ok as := by
  induction ds with
  | nil => exact ⟨[], rfl⟩
  | cons d ds ih =>
    obtain ⟨as, has⟩ := ih (fun x hx => hmax x (by simp [hx]))
    obtain ⟨d', s', hr, hmem, _⟩ :=
      C12.degree_request env.degreesTbl env.npointsTbl files fp fs hok d (hmax d (by simp))
    obtain ⟨p, w, hlp, _, _⟩ := hload d' s' hmem
    refine ⟨(d', p, w) :: as, ?_⟩
    simp only [loadAll, angular, hr, hlp, has]

/-- (0') **Construction succeeds** whenever the code has no reason to reject: admissible seed,
one supported degree per radial point, data available for the supported degrees. -/
theorem init_succeeds (env : Env K) (files fp fs : List (Nat × Nat))
    (hok : C12.MethodOk env.degreesTbl env.npointsTbl files fp fs) (hload : LoadOk env)
    (rg : List (K × K)) (req : Request) (c : V3 K) (rot : Nat) (hrot : rot < 2 ^ 32 - rg.length)
    (degs : List Nat) (hdegs : effectiveDegrees env.npointsTbl rg.length req = .ok degs)
    (hl : degs.length = rg.length) (hmax : ∀ d ∈ degs, d ≤ maxKey (keys env.degreesTbl)) :
    ∃ g, init env rg req c rot = .ok g := by
  obtain ⟨as, has⟩ := loadAll_ok env files fp fs hok hload degs hmax
  unfold init
  rw [if_neg (not_not.mpr hrot), hdegs]
  simp only
  unfold generate
  rw [if_neg (by simpa using hl), has]
  exact ⟨_, rfl⟩

end

/-! ### the shipped presets: finite tables, decided in the kernel -/

/-- The data of `e` has the shape that the branch `from_preset` takes for it reads:
shell-count form = integer `rad`, as many sizes as shell counts, `Σ rad > 0` radial points;
sector form = one more size than sector bounds, bounds strictly ascending (exact comparison of
the stored doubles). Also: the recorded lengths are the lengths of the recorded lists. -/
def shapeFits (e : Entry) : Bool :=
  e.lenRad == e.radSectors.length && e.lenNpt == e.npt.length &&
  if takesShellCountBranch e.preset e.atnum then
    e.radIsInt && e.radCounts.length == e.lenRad && e.lenNpt == e.lenRad &&
      e.radSum == e.radCounts.sum && decide (0 < e.radSum)
  else
    e.lenNpt == e.lenRad + 1 && ascDyadic e.radSectors

/-- The pairs whose shipped table is inconsistent (findings `prune_grid:<preset>:Z=<Z>`). -/
def defective : List (Preset × Nat) := [(.sg_3, 14), (.sg_0, 7), (.sg_0, 15)]

/-- (6) full statement: every shipped `(preset, element)` table has the shape its branch reads.
**Not true of the shipped data** — see the three `preset_shape_fails_at_*` theorems. -/
def preset_table_full : Prop := ∀ e ∈ entries, shapeFits e = true

/-- (6, proved part) all shipped `(preset, element)` pairs except the three defective ones
(1371 of 1374). What is missing for the full statement is consistent data for those three. -/
theorem preset_table_partial :
    ∀ e ∈ entries, (e.preset, e.atnum) ∉ defective → shapeFits e = true := by
  decide +kernel

/-- (6, negation) `sg_3`, Z = 14: 6 shell counts but 5 sizes — fewer sizes than counts. -/
theorem preset_shape_fails_at_sg3_14 :
    ∃ e ∈ entries, e.preset = .sg_3 ∧ e.atnum = 14 ∧ shapeFits e = false ∧
      e.lenRad = 6 ∧ e.lenNpt = 5 ∧ ¬ preset_table_full := by
  have h : ∃ e ∈ entries, e.preset = .sg_3 ∧ e.atnum = 14 ∧ shapeFits e = false ∧
      e.lenRad = 6 ∧ e.lenNpt = 5 := by decide +kernel
  obtain ⟨e, he, h1, h2, h3, h4, h5⟩ := h
  exact ⟨e, he, h1, h2, h3, h4, h5, fun hfull => by simp [hfull e he] at h3⟩

/-- (6, negation) `sg_0`, Z = 7: 10 shell counts but 12 sizes. -/
theorem preset_shape_fails_at_sg0_7 :
    ∃ e ∈ entries, e.preset = .sg_0 ∧ e.atnum = 7 ∧ shapeFits e = false ∧
      e.lenRad = 10 ∧ e.lenNpt = 12 := by
  decide +kernel

/-- (6, negation) `sg_0`, Z = 15: 10 shell counts but 11 sizes. -/
theorem preset_shape_fails_at_sg0_15 :
    ∃ e ∈ entries, e.preset = .sg_0 ∧ e.atnum = 15 ∧ shapeFits e = false ∧
      e.lenRad = 10 ∧ e.lenNpt = 11 := by
  decide +kernel

/-- the shell-count reading of `e` succeeds and yields `Σ rad` sizes, all taken from the table -/
def shellCountOk (e : Entry) : Bool :=
  e.radIsInt &&
  match expandShellCounts e.radCounts e.npt with
  | .ok ss => ss.length == e.radSum && ss.all (fun s => e.npt.contains s)
  | .error _ => false

theorem shell_count_entries_ok :
    ∀ e ∈ entries, takesShellCountBranch e.preset e.atnum = true →
      ¬ (e.preset = .sg_3 ∧ e.atnum = 14) → shellCountOk e = true := by
  decide +kernel

theorem sector_entries_fit :
    ∀ e ∈ entries, takesShellCountBranch e.preset e.atnum = false →
      e.npt.length = e.radSectors.length + 1 := by
  decide +kernel

/-- (6') **`from_preset` cannot index out of range** on any shipped pair but (`sg_3`, 14), for
every radial grid: on the shell-count branch the table reader hands `Σ rad` sizes (all of them
tabulated sizes) to the constructor — the prescribed radial size; on the sector branch it hands
one degree per radial point, provided the tabulated sizes are supported by the method
(`preset_sizes_supported`) and its size table is in order (C12). -/
theorem preset_request_ok {K : Type} [LinearOrder K] (toK : Nat × Nat → K) (np : List (Nat × Nat))
    (hasc : Ascending (keys np)) (hne : np ≠ []) (e : Entry) (he : e ∈ entries)
    (hnd : ¬ (e.preset = .sg_3 ∧ e.atnum = 14)) (hsz : ∀ s ∈ e.npt, s ≤ maxKey (keys np))
    (rp : List K) :
    (takesShellCountBranch e.preset e.atnum = true →
      ∃ ss, presetRequest toK np e rp = .ok (.sizes ss) ∧ ss.length = e.radSum ∧ ∀ s ∈ ss, s ∈ e.npt) ∧
    (takesShellCountBranch e.preset e.atnum = false →
      ∃ ds, presetRequest toK np e rp = .ok (.degrees ds) ∧ ds.length = rp.length ∧
        ∀ i (h : i < rp.length) (h' : i < ds.length),
          (e.npt.map (degOf np))[sectorPosition (e.radSectors.map toK) rp[i]]? = some ds[i]) := by
  constructor
  · intro hb
    have hok := shell_count_entries_ok e he hb hnd
    unfold shellCountOk at hok
    simp only [Bool.and_eq_true] at hok
    obtain ⟨hint, hrest⟩ := hok
    split at hrest
    · rename_i ss hss
      simp only [Bool.and_eq_true, beq_iff_eq, List.all_eq_true, List.contains_iff_mem] at hrest
      refine ⟨ss, ?_, hrest.1, hrest.2⟩
      unfold presetRequest
      simp [hb, hint, hss]
    · cases hrest
  · intro hb
    have hfit := sector_entries_fit e he hb
    -- every tabulated size resolves, so the conversion is the element-wise map (C12)
    have hres : ∀ s ∈ e.npt, ∃ k, resolve np s = .ok k (degOf np s) := by
      intro s hs
      obtain ⟨k, v, hr, _⟩ := C12.resolve_spec np hasc s (hsz s hs) hne
      exact ⟨k, by unfold degOf; rw [hr]⟩
    have hconv := C12.convert_is_map np e.npt _ hres
    obtain ⟨out, ho, hlen, hget⟩ := findDegrees_ok rp (e.radSectors.map toK)
      (e.npt.map (degOf np)) (by simp [hfit])
    refine ⟨out, ?_, hlen, hget⟩
    unfold presetRequest
    simp [hb, hconv, ho]

/-- (6'', negation) for (`sg_3`, 14) the table reader itself raises `IndexError`, for every
radial grid and every method: no SG-3 grid can be built for silicon. -/
theorem preset_request_fails_at_sg3_14 {K : Type} [LinearOrder K] (toK : Nat × Nat → K)
    (np : List (Nat × Nat)) (rp : List K) :
    ∃ e ∈ entries, e.preset = .sg_3 ∧ e.atnum = 14 ∧ presetRequest toK np e rp = .error .indexError := by
  have h : ∃ e ∈ entries, e.preset = .sg_3 ∧ e.atnum = 14 ∧
      takesShellCountBranch e.preset e.atnum = true ∧ e.radIsInt = true ∧
      expandShellCounts e.radCounts e.npt = .error .indexError := by decide +kernel
  obtain ⟨e, he, h1, h2, h3, h4, h5⟩ := h
  refine ⟨e, he, h1, h2, ?_⟩
  unfold presetRequest
  simp [h3, h4, h5]

open GridVerif.Gen.Angular in
/-- (6''') every tabulated size of every shipped pair is within the range of each of the four
angular methods, so the conversion to degrees never rejects a preset. -/
theorem preset_sizes_supported :
    ∀ e ∈ entries, ∀ s ∈ e.npt,
      s ≤ maxKey (keys lebedevNPoints) ∧ s ≤ maxKey (keys sphericalNPoints) ∧
      s ≤ maxKey (keys maxdetNPoints) ∧ s ≤ maxKey (keys ahrensNPoints) := by
  decide +kernel

/-- (6'''') **The prescribed radial size.** For every shipped pair read in shell-count form
(the three defective ones included) `_get_rgrid_size` answers `Σ rad` — for `sg_1` through the
stored key `r_points` — which is the number of sizes the table reader hands to the constructor
(`preset_request_ok`), i.e. the radial size for which construction passes the length check. -/
theorem preset_prescribed_size :
    ∀ e ∈ entries, takesShellCountBranch e.preset e.atnum = true →
      prescribedSize e = some e.radSum ∧ rgridSizePresets.contains e.preset = true := by
  decide +kernel

/-- (6, flagship) **Every shipped preset builds a product grid for every element it tabulates,
with no shell coarser than tabulated** — all pairs except (`sg_3`, 14), for each angular method
whose tables are in order (C12 `tables_ok`) and whose data files load (`LoadOk`), every centre,
every admissible seed, every radial grid (of the prescribed size `Σ rad` where the table is read
in shell-count form; of any size in sector form). The grid is the one of `init_spec`, so all the
theorems above apply to it. In shell-count form shell `i` has at least the `i`-th of the sizes
handed over (all of them tabulated sizes, in table order by `expandShellCounts`); in sector form
the shell at radius `r` has at least the size tabulated for the sector `r` falls in. For the two
other defective pairs (`sg_0`, 7/15) this holds for the *first `len rad` sizes* of the table; the
surplus sizes are ignored (finding). -/
theorem preset_builds (env : Env ℝ) (files fp fs : List (Nat × Nat))
    (hok : C12.MethodOk env.degreesTbl env.npointsTbl files fp fs) (hload : LoadOk env)
    (toK : Nat × Nat → ℝ) (e : Entry) (he : e ∈ entries) (hnd : ¬ (e.preset = .sg_3 ∧ e.atnum = 14))
    (hsz : ∀ s ∈ e.npt, s ≤ maxKey (keys env.npointsTbl))
    (rg : List (ℝ × ℝ)) (c : V3 ℝ) (rot : Nat) (hrot : rot < 2 ^ 32 - rg.length) :
    (takesShellCountBranch e.preset e.atnum = true → rg.length = e.radSum →
      ∃ ss g, presetRequest toK env.npointsTbl e (rg.map Prod.fst) = .ok (.sizes ss) ∧
        init env rg (.sizes ss) c rot = .ok g ∧ ss.length = rg.length ∧ (∀ s ∈ ss, s ∈ e.npt) ∧
        ∀ i (_ : i < rg.length) (hi' : i < ss.length), ∃ sh, g.shells[i]? = some sh ∧
          ss[i] ≤ sh.pts.length ∧ sh.wts.length = sh.pts.length) ∧
    (takesShellCountBranch e.preset e.atnum = false →
      ∃ ds g, presetRequest toK env.npointsTbl e (rg.map Prod.fst) = .ok (.degrees ds) ∧
        init env rg (.degrees ds) c rot = .ok g ∧
        ∀ i (hi : i < rg.length), ∃ sh t, g.shells[i]? = some sh ∧
          e.npt[sectorPosition (e.radSectors.map toK) rg[i].1]? = some t ∧
          t ≤ sh.pts.length ∧ sh.wts.length = sh.pts.length) := by
  have hasc := hok.2.1
  have hne := hok.2.2.2.1
  obtain ⟨hA, hB⟩ := preset_request_ok toK env.npointsTbl hasc hne e he hnd hsz (rg.map Prod.fst)
  constructor
  · intro hb hn
    obtain ⟨ss, hreq, hlen, hmem⟩ := hA hb
    have hl : ss.length = rg.length := by omega
    have hsz' : ∀ s ∈ ss, s ≤ maxKey (keys env.npointsTbl) := fun s hs => hsz s (hmem s hs)
    have hdegs := effectiveDegrees_sizes env.npointsTbl hasc hne rg.length ss hl hsz'
    obtain ⟨g, hg⟩ := init_succeeds env files fp fs hok hload rg (.sizes ss) c rot hrot _ hdegs
      (by simp [hl]) (by
        intro d hd
        obtain ⟨s, hs, rfl⟩ := List.mem_map.mp hd
        exact le_maxKey (degOf_mem_keys _ _ files fp fs hok s (hsz' s hs)))
    refine ⟨ss, g, hreq, hg, hl, hmem, fun i hi hi' => ?_⟩
    obtain ⟨sh, h1, h2, h3, _⟩ :=
      built_size_not_below_request env files fp fs hok hload rg ss c rot g hl hsz' hg i hi
    exact ⟨sh, h1, h2, h3⟩
  · intro hb
    obtain ⟨ds, hreq, hlen, hget⟩ := hB hb
    have hl : ds.length = rg.length := by simpa using hlen
    have hdegs := effectiveDegrees_degrees env.npointsTbl rg.length ds hl
    have hdsmem : ∀ i (hi : i < ds.length), ∃ t ∈ e.npt,
        e.npt[sectorPosition (e.radSectors.map toK) rg[i].1]? = some t ∧
        ds[i] = degOf env.npointsTbl t := by
      intro i hi
      have := hget i (by simpa using (by omega : i < rg.length)) hi
      rw [List.getElem?_map] at this
      simp only [List.getElem_map] at this
      cases hq : e.npt[sectorPosition (e.radSectors.map toK) rg[i].1]? with
      | none => rw [hq] at this; cases this
      | some t =>
        rw [hq] at this
        exact ⟨t, List.mem_of_getElem? hq, rfl, (Option.some.inj this).symm⟩
    obtain ⟨g, hg⟩ := init_succeeds env files fp fs hok hload rg (.degrees ds) c rot hrot _ hdegs hl
      (by
        intro d hd
        obtain ⟨i, hi, rfl⟩ := List.getElem_of_mem hd
        obtain ⟨t, ht, _, hdt⟩ := hdsmem i hi
        rw [hdt]
        exact le_maxKey (degOf_mem_keys _ _ files fp fs hok t (hsz t ht)))
    refine ⟨ds, g, hreq, hg, fun i hi => ?_⟩
    obtain ⟨_, _, _, _, _, _, _, _, _, degs, hdegs2, _, hall⟩ := init_spec env rg (.degrees ds) c rot g hg
    rw [hdegs] at hdegs2
    have hdd : degs = ds := (Except.ok.inj hdegs2).symm
    obtain ⟨sh, deg, d, hsh, _, hd, _, _, _, hang⟩ := hall i hi
    have hi' : i < ds.length := by omega
    obtain ⟨t, ht, hq, hdt⟩ := hdsmem i hi'
    have : d = degOf env.npointsTbl t := by
      rw [hdd, List.getElem?_eq_getElem hi'] at hd
      rw [← hdt]; exact (Option.some.inj hd).symm
    rw [this] at hang
    obtain ⟨h1, h2, _⟩ := shell_size_of_degOf env files fp fs hok hload t (hsz t ht) deg sh.pts sh.wts hang
    exact ⟨sh, t, hsh, hq, h1, h2⟩

open GridVerif.Gen.Angular in
/-- non-vacuity of `preset_builds`, `built_*`, `init_succeeds`: the Lebedev tables as shipped, a
loader that returns arrays of the tabulated lengths, any rotation source. -/
example : ∃ env : Env ℝ,
    C12.MethodOk env.degreesTbl env.npointsTbl lebedevFiles lebedevFilePoints lebedevFileShape ∧
    LoadOk env ∧ (∀ e ∈ entries, ∀ s ∈ e.npt, s ≤ maxKey (keys env.npointsTbl)) := by
  refine ⟨⟨lebedevDegrees, lebedevNPoints,
    fun d => (lookup lebedevDegrees d).map fun s => (List.replicate s ⟨1, 0, 0⟩, List.replicate s 1),
    fun _ => M3.one⟩, C12.tables_ok.1, ?_, fun e he s hs => (preset_sizes_supported e he s hs).1⟩
  intro d s h
  refine ⟨List.replicate s ⟨1, 0, 0⟩, List.replicate s 1, ?_, by simp, by simp⟩
  simp only [C12.lookup_of_mem C12.tables_ok.1.1 h, Option.map_some]

end GridVerif.C05

/-
  C01, clause "every rule, including the Trefethen maps, returns n nodes inside its declared domain in
  ascending order with the weights its mathematical definition prescribes": the strip transformation
  (`TrefethenStripCC`, `TrefethenStripGC2`, `TrefethenStripGeneral`) of any base rule with `n` ascending
  nodes in `[-1, 1]`, for every `rho > 1` — from `gstrip_shape` (`Props/C01/Strip.lean`).
-/
import GridVerif.Props.C01.Strip
import GridVerif.Props.C01.Shape

namespace GridVerif.C01
open GridVerif GridVerif.OneD Real

/-- **TrefethenStripCC / TrefethenStripGC2 / TrefethenStripGeneral**: for every `rho > 1` and every base
rule with `n` strictly ascending nodes in `[-1, 1]`, the transformed rule is accepted by
`OneDGrid.__init__`, has the `n` nodes `_gstrip(rho, xᵢ)` in strictly ascending order inside `[-1, 1]`
and the weights `_dergstrip(rho, xᵢ)·wᵢ` (`_dergstrip` with its `np.isclose` branch selection). -/
theorem trefethen_strip_shape (rho : ℝ) (h : 1 < rho) (g : Grid1D ℝ) (n : ℕ)
    (hP : g.points.length = n) (hW : g.weights.length = n) (hasc : g.points.Pairwise (· < ·))
    (hdom : ∀ x ∈ g.points, -1 ≤ x ∧ x ≤ 1) :
    ClosedShape (trefStrip rho g) (g.points.map (Gen.OneD.gstrip rho))
      (List.zipWith (fun x w => OneD.dergstrip rho x * w) g.points g.weights) (-1) (some 1) n := by
  have hmono := gstrip_strictMonoOn rho h
  obtain ⟨h1, hm1⟩ := gstrip_endpoints rho h
  have hres : trefStrip rho g = oneDGrid (g.points.map (Gen.OneD.gstrip rho))
      (List.zipWith (fun x w => OneD.dergstrip rho x * w) g.points g.weights) (-1) (some 1) := by
    unfold trefStrip
    simp only [negOne_real, one_real]
  rw [hres]
  apply closedShape_of
  · simp [hP]
  · simp [hP, hW]
  · rw [List.pairwise_map]
    exact hasc.imp_of_mem (fun {a b} ha hb hab =>
      hmono ⟨(hdom a ha).1, (hdom a ha).2⟩ ⟨(hdom b hb).1, (hdom b hb).2⟩ hab)
  · intro x hx
    obtain ⟨y, hy, rfl⟩ := List.mem_map.mp hx
    have hyd := hdom y hy
    have hyI : y ∈ Set.Icc (-1 : ℝ) 1 := ⟨hyd.1, hyd.2⟩
    have hlo : Gen.OneD.gstrip rho (-1) ≤ Gen.OneD.gstrip rho y :=
      hmono.monotoneOn ⟨le_refl _, by norm_num⟩ hyI hyd.1
    have hhi : Gen.OneD.gstrip rho y ≤ Gen.OneD.gstrip rho 1 :=
      hmono.monotoneOn hyI ⟨by norm_num, le_refl _⟩ hyd.2
    rw [hm1] at hlo
    rw [h1] at hhi
    exact ⟨hlo, fun b hb => by
      have : b = 1 := (Option.some.inj hb).symm
      subst this; exact hhi⟩

/-- **TrefethenStripCC(n, rho)**, every `n ≥ 2`, every `rho > 1`. -/
theorem trefethenstripcc_shape (n : ℕ) (hn : 2 ≤ n) (rho : ℝ) (h : 1 < rho) :
    ∃ P W, ClosedShape (TrefethenStripCC.make (n : ℤ) rho) P W (-1) (some 1) n := by
  obtain ⟨hok, h1, h2, h3, h4⟩ := clenshawcurtis_shape n hn
  have hs := trefethen_strip_shape rho h
    ⟨ClenshawCurtis.points n, ClenshawCurtis.weights n, -1, some 1⟩ n h1 h2 h3
    (fun x hx => ⟨(h4 x hx).1, (h4 x hx).2 1 rfl⟩)
  refine ⟨(ClenshawCurtis.points n).map (Gen.OneD.gstrip rho),
    List.zipWith (fun x w => OneD.dergstrip rho x * w) (ClenshawCurtis.points n) (ClenshawCurtis.weights n), ?_⟩
  unfold TrefethenStripCC.make
  rw [hok]
  exact hs

/-- non-vacuity: `TrefethenStripCC(7, 1.1)`. -/
example : ∃ P W, ClosedShape (TrefethenStripCC.make ((7 : ℕ) : ℤ) (11 / 10 : ℝ)) P W (-1) (some 1) 7 :=
  trefethenstripcc_shape 7 (by norm_num) _ (by norm_num)

end GridVerif.C01

/-
  C01, clause "the weight-divided Gauss rules integrate weight-function × polynomial of degree
  ≤ 2n-1 exactly": what the repository adds to the NumPy/SciPy Gauss rules (division of the
  weights by the weight function at the nodes, reversal) keeps exactness.  The external rules
  enter through the contract `GaussExact` (not verified); for Gauss–Chebyshev of the first kind the
  contract is NumPy's closed form and exactness comes from Mathlib's `integral_eq_sumZeroes`.
-/
import GridVerif.Lemmas.OneDCheb
import GridVerif.Lemmas.OneDShape
import Mathlib.Analysis.SpecialFunctions.Pow.Real

namespace GridVerif.C01
open GridVerif GridVerif.OneD Finset Polynomial Real

/-- Contract of an external Gauss rule `(xs, ws)` for the weight function `ω` and the integral
functional `I` (e.g. `I f = ∫ x in -1..1, f x`, or `∫ x in Set.Ioi 0, f x` for Laguerre):
one weight per node, `Σ wᵢ p(xᵢ) = I(ω·p)` for every polynomial of degree ≤ `deg`. -/
structure GaussExact (I : (ℝ → ℝ) → ℝ) (ω : ℝ → ℝ) (deg : ℕ) (xs ws : List ℝ) : Prop where
  len : xs.length = ws.length
  exact : ∀ p : ℝ[X], p.natDegree ≤ deg → quad ws xs (fun x => p.eval x) = I (fun x => ω x * p.eval x)

/-- dividing each weight by `ω(xᵢ)` and integrating `ω·f` gives back the original sum -/
theorem quad_div_mul (ω f : ℝ → ℝ) (ws xs : List ℝ) (hω : ∀ x ∈ xs, ω x ≠ 0) :
    quad (List.zipWith (fun w x => w / ω x) ws xs) xs (fun x => ω x * f x) = quad ws xs f := by
  induction ws generalizing xs with
  | nil => simp [quad]
  | cons w ws ih =>
    cases xs with
    | nil => simp [quad]
    | cons x xs =>
      simp only [List.zipWith_cons_cons, quad_cons]
      rw [ih xs (fun y hy => hω y (List.mem_cons_of_mem _ hy))]
      have := hω x (List.mem_cons_self)
      field_simp

/-- **Weight division (pure algebra the repository adds).** For any rule with contract
`GaussExact I ω deg` whose nodes avoid the zeros of `ω`, the library's weights `wᵢ' = wᵢ / ω(xᵢ)`
satisfy `Σ wᵢ' ω(xᵢ) p(xᵢ) = I(ω·p)` for every polynomial of degree ≤ `deg`. -/
theorem gauss_weight_division (I : (ℝ → ℝ) → ℝ) (ω : ℝ → ℝ) (deg : ℕ) (xs ws : List ℝ)
    (h : GaussExact I ω deg xs ws) (hω : ∀ x ∈ xs, ω x ≠ 0) (p : ℝ[X]) (hp : p.natDegree ≤ deg) :
    quad (List.zipWith (fun w x => w / ω x) ws xs) xs (fun x => ω x * p.eval x)
      = I (fun x => ω x * p.eval x) := by
  rw [quad_div_mul ω _ ws xs hω]
  exact h.exact p hp

/-- Reversing only the points (as `GaussChebyshev` does) is harmless **when the weights are
symmetric** (`ws.reverse = ws`): the sum pairs each weight with the mirrored node. -/
theorem quad_reverse_points_only (ws xs : List ℝ) (hlen : ws.length = xs.length)
    (hsym : ws.reverse = ws) (f : ℝ → ℝ) : quad ws xs.reverse f = quad ws xs f := by
  calc quad ws xs.reverse f = quad ws.reverse xs.reverse f := by rw [hsym]
    _ = quad ws xs f := quad_reverse ws xs hlen f

/-! ### the three wrappers that only divide -/

/-- **GaussLegendre**: the library returns NumPy's rule unchanged (`ω = 1`). -/
theorem gausslegendre_exact (I : (ℝ → ℝ) → ℝ) (gauss : ℕ → List ℝ × List ℝ) (n : ℕ) (hn : 2 ≤ n)
    (h : GaussExact I (fun _ => 1) (2 * n - 1) (gauss n).1 (gauss n).2)
    (hdom : ∀ x ∈ (gauss n).1, -1 ≤ x ∧ x ≤ 1) :
    GaussLegendre.make gauss (n : ℤ) = .ok ⟨(gauss n).1, (gauss n).2, -1, some 1⟩ ∧
    ∀ p : ℝ[X], p.natDegree ≤ 2 * n - 1 →
      quad (gauss n).2 (gauss n).1 (fun x => p.eval x) = I (fun x => p.eval x) := by
  constructor
  · unfold GaussLegendre.make
    simp only [show ¬ ((n : ℤ) ≤ 1) by omega, if_false, Int.toNat_natCast, negOne_real, one_real]
    exact oneDGrid_ok _ _ _ _ h.len (fun p hp => (hdom p hp).1) (fun b hb p hp => by
      have : b = 1 := (Option.some.inj hb).symm
      subst this; exact (hdom p hp).2)
  · intro p hp
    simpa using h.exact p hp

/-- **GaussChebyshevType2**: `weights /= sqrt(1 - x²)`, `ω(x) = √(1 - x²)`, nodes in `(-1, 1)`. -/
theorem gausscheb2_exact (I : (ℝ → ℝ) → ℝ) (gauss : ℕ → List ℝ × List ℝ) (n : ℕ) (hn : 1 ≤ n)
    (h : GaussExact I (fun x => Real.sqrt (1 - x ^ 2)) (2 * n - 1) (gauss n).1 (gauss n).2)
    (hdom : ∀ x ∈ (gauss n).1, -1 < x ∧ x < 1) :
    GaussChebyshevType2.make gauss (n : ℤ)
      = .ok ⟨(gauss n).1, GaussChebyshevType2.weights (gauss n).1 (gauss n).2, -1, some 1⟩ ∧
    ∀ p : ℝ[X], p.natDegree ≤ 2 * n - 1 →
      quad (GaussChebyshevType2.weights (gauss n).1 (gauss n).2) (gauss n).1
          (fun x => Real.sqrt (1 - x ^ 2) * p.eval x)
        = I (fun x => Real.sqrt (1 - x ^ 2) * p.eval x) := by
  have hw : GaussChebyshevType2.weights (K := ℝ) (gauss n).1 (gauss n).2
      = List.zipWith (fun w x => w / Real.sqrt (1 - x ^ 2)) (gauss n).2 (gauss n).1 := by
    unfold GaussChebyshevType2.weights
    simp only [Elem.sqrt, npow_eq_pow, Nat.cast_one]
  constructor
  · unfold GaussChebyshevType2.make
    simp only [show ¬ ((n : ℤ) < 1) by omega, if_false, Int.toNat_natCast, negOne_real, one_real]
    exact oneDGrid_ok _ _ _ _ (by rw [hw]; simp [h.len]) (fun p hp => (hdom p hp).1.le)
      (fun b hb p hp => by
        have : b = 1 := (Option.some.inj hb).symm
        subst this; exact (hdom p hp).2.le)
  · intro p hp
    rw [hw]
    exact gauss_weight_division I _ _ _ _ h (fun x hx => by
      have := hdom x hx
      have : 0 < 1 - x ^ 2 := by nlinarith
      exact (Real.sqrt_pos.mpr this).ne') p hp

/-- **GaussLaguerre** for every `α > -1`: `weights *= exp(x) * x^(-α)`, `ω(x) = x^α e^{-x}`, nodes
positive. -/
theorem gausslaguerre_exact (I : (ℝ → ℝ) → ℝ) (gauss : ℕ → List ℝ × List ℝ) (n : ℕ) (hn : 2 ≤ n)
    (α : ℝ) (hα : -1 < α)
    (h : GaussExact I (fun x => x ^ α * Real.exp (-x)) (2 * n - 1) (gauss n).1 (gauss n).2)
    (hdom : ∀ x ∈ (gauss n).1, 0 < x) :
    GaussLaguerre.make (fun _ => false) gauss (n : ℤ) α
      = .ok ⟨(gauss n).1, GaussLaguerre.weights α (gauss n).1 (gauss n).2, 0, none⟩ ∧
    ∀ p : ℝ[X], p.natDegree ≤ 2 * n - 1 →
      quad (GaussLaguerre.weights α (gauss n).1 (gauss n).2) (gauss n).1
          (fun x => x ^ α * Real.exp (-x) * p.eval x)
        = I (fun x => x ^ α * Real.exp (-x) * p.eval x) := by
  have hw : GaussLaguerre.weights (K := ℝ) α (gauss n).1 (gauss n).2
      = List.zipWith (fun w x => w / (x ^ α * Real.exp (-x))) (gauss n).2 (gauss n).1 := by
    unfold GaussLaguerre.weights
    have hlen := h.len
    apply List.ext_getElem
    · simp
    · intro i h1 h2
      simp only [List.getElem_zipWith, Elem.exp, Elem.rpow]
      have hx : 0 < (gauss n).1[i]'(by simp at h1; omega) :=
        hdom _ (List.getElem_mem _)
      rw [Real.rpow_neg hx.le, Real.exp_neg]
      have : (gauss n).1[i]'(by simp at h1; omega) ^ α ≠ 0 := (Real.rpow_pos_of_pos hx α).ne'
      field_simp
  constructor
  · unfold GaussLaguerre.make
    have h2 : ¬ (α ≤ -((1 : ℕ) : ℝ)) := by simp; exact hα
    simp only [show ¬ ((n : ℤ) ≤ 1) by omega, h2, if_false, Int.toNat_natCast, zero_real,
      List.any_eq_true, Bool.false_eq_true, and_false, exists_false]
    exact oneDGrid_ok _ _ _ _ (by rw [hw]; simp [h.len]) (fun p hp => (hdom p hp).le)
      (fun b hb => by cases hb)
  · intro p hp
    rw [hw]
    exact gauss_weight_division I _ _ _ _ h (fun x hx => by
      have := hdom x hx
      have := Real.rpow_pos_of_pos this α
      have := Real.exp_pos (-x)
      positivity) p hp

/-- non-vacuity of the contract and of the hypotheses of `gausscheb2_exact`: the one-point rule
`x = 0, w = π/2` with the functional `I f = π/2 · f 0` (n = 1). -/
example : ∀ p : ℝ[X], p.natDegree ≤ 2 * 1 - 1 →
    quad (GaussChebyshevType2.weights [0] [π / 2]) [0] (fun x => Real.sqrt (1 - x ^ 2) * p.eval x)
      = (fun f : ℝ → ℝ => π / 2 * f 0) (fun x => Real.sqrt (1 - x ^ 2) * p.eval x) :=
  (gausscheb2_exact (fun f => π / 2 * f 0) (fun _ => ([0], [π / 2])) 1 (le_refl 1)
    ⟨rfl, fun p _ => by simp [quad]⟩ (fun x hx => by simp at hx; subst hx; norm_num)).2

/-- non-vacuity for `gausslaguerre_exact` (`α = 1/2`, two nodes, functional = the rule itself). -/
example : (GaussLaguerre.make (fun _ => false) (fun _ => ([1, 3], [(1 : ℝ) / 2, 1 / 4])) ((2 : ℕ) : ℤ) (1 / 2 : ℝ)
    = .ok ⟨[1, 3], GaussLaguerre.weights (1 / 2) [1, 3] [1 / 2, 1 / 4], 0, none⟩) :=
  (gausslaguerre_exact
    (fun f => 1 / 2 * (f 1 / ((1 : ℝ) ^ (1 / 2 : ℝ) * Real.exp (-1))) + 1 / 4 * (f 3 / ((3 : ℝ) ^ (1 / 2 : ℝ) * Real.exp (-3))))
    (fun _ => ([1, 3], [(1 : ℝ) / 2, 1 / 4])) 2 (le_refl 2) (1 / 2) (by norm_num)
    ⟨rfl, fun p _ => by
      have h3 : (3 : ℝ) ^ (1 / 2 : ℝ) ≠ 0 := (Real.rpow_pos_of_pos (by norm_num) _).ne'
      have e1 := (Real.exp_pos (-1)).ne'
      have e3 := (Real.exp_pos (-3)).ne'
      simp [quad]⟩
    (fun x hx => by simp at hx; rcases hx with rfl | rfl <;> norm_num)).1

/-! ### Gauss–Chebyshev of the first kind (points-only reversal) -/

open Polynomial.Chebyshev in
/-- **GaussChebyshev(n)** under NumPy's closed-form `chebgauss` contract (nodes
`cos((2i+1)π/2n)`, weights `π/n`): the library's rule (weights times `√(1-x²)`, *points only*
reversed) satisfies `Σ wᵢ' ω(xᵢ) p(xᵢ) = ∫_{-1}^{1} p(x) ω(x) dx`, `ω = 1/√(1-x²)`, for every
polynomial of degree ≤ 2n-1 — from Mathlib's `integral_eq_sumZeroes`; the reversal is harmless
because the weights are symmetric (`quad_reverse_points_only`). -/
theorem gausscheb1_exact (gauss : ℕ → List ℝ × List ℝ) (n : ℕ) (hn : 2 ≤ n)
    (hg : gauss n = ((List.range n).map fun (i : ℕ) => Real.cos (chebTheta n i),
                     (List.range n).map fun _ => π / (n : ℝ)))
    (p : ℝ[X]) (hp : p.natDegree ≤ 2 * n - 1) :
    GaussChebyshev.make gauss (n : ℤ)
      = .ok ⟨(gauss n).1.reverse, GaussChebyshev.weights (gauss n).1 (gauss n).2, -1, some 1⟩ ∧
    quad (GaussChebyshev.weights (gauss n).1 (gauss n).2) (gauss n).1.reverse
        (fun x => p.eval x * (Real.sqrt (1 - x ^ 2))⁻¹)
      = ∫ x in (-1 : ℝ)..1, p.eval x * √(1 - x ^ 2)⁻¹ := by
  have hn0 : n ≠ 0 := by omega
  have hnr : (n : ℝ) ≠ 0 := by exact_mod_cast hn0
  -- angles are strictly inside (0, π)
  have hθ : ∀ i, i < n → 0 < chebTheta n i ∧ chebTheta n i < π := by
    intro i hi
    unfold chebTheta
    have h2n : (0 : ℝ) < 2 * n := by positivity
    constructor
    · positivity
    · rw [div_lt_iff₀ h2n]
      have : 2 * (i : ℝ) + 1 < 2 * n := by
        have : 2 * i + 1 < 2 * n := by omega
        exact_mod_cast this
      nlinarith [Real.pi_pos]
  have hsin : ∀ i, i < n → Real.sqrt (1 - Real.cos (chebTheta n i) ^ 2) = Real.sin (chebTheta n i) := by
    intro i hi
    rw [← Real.sin_sq, Real.sqrt_sq (Real.sin_pos_of_pos_of_lt_pi (hθ i hi).1 (hθ i hi).2).le]
  have hW : GaussChebyshev.weights (K := ℝ) (gauss n).1 (gauss n).2
      = (List.range n).map fun (i : ℕ) => π / (n : ℝ) * Real.sin (chebTheta n i) := by
    rw [hg]
    unfold GaussChebyshev.weights
    rw [zipWith_map_range]
    apply List.map_congr_left
    intro i hi
    simp only [Elem.sqrt, npow_eq_pow, Nat.cast_one]
    rw [hsin i (List.mem_range.mp hi)]
  -- mirror symmetry of the angles
  have hmirror : ∀ i, i < n → chebTheta n (n - 1 - i) = π - chebTheta n i := by
    intro i hi
    unfold chebTheta
    have : ((n - 1 - i : ℕ) : ℝ) = (n : ℝ) - 1 - i := by
      rw [Nat.cast_sub (by omega), Nat.cast_sub (by omega)]; simp
    rw [this]
    field_simp
    ring
  have hsym : (GaussChebyshev.weights (K := ℝ) (gauss n).1 (gauss n).2).reverse
      = GaussChebyshev.weights (gauss n).1 (gauss n).2 := by
    rw [hW, reverse_map_range]
    apply List.map_congr_left
    intro i hi
    rw [hmirror i (List.mem_range.mp hi), Real.sin_pi_sub]
  have hP : (gauss n).1 = (List.range n).map fun (i : ℕ) => Real.cos (chebTheta n i) := by rw [hg]
  constructor
  · unfold GaussChebyshev.make
    simp only [show ¬ ((n : ℤ) ≤ 1) by omega, if_false, Int.toNat_natCast, negOne_real, one_real]
    apply oneDGrid_ok
    · rw [hW, hP]; simp
    · intro x hx
      rw [hP] at hx
      simp only [List.mem_reverse, List.mem_map] at hx
      obtain ⟨i, _, rfl⟩ := hx
      exact Real.neg_one_le_cos _
    · intro b hb x hx
      have : b = 1 := (Option.some.inj hb).symm
      subst this
      rw [hP] at hx
      simp only [List.mem_reverse, List.mem_map] at hx
      obtain ⟨i, _, rfl⟩ := hx
      exact Real.cos_le_one _
  · rw [quad_reverse_points_only _ _ (by rw [hW, hP]; simp) hsym, hW, hP, quad_map_range]
    have hdeg : p.degree < 2 * n := by
      by_cases h0 : p = 0
      · subst h0; rw [Polynomial.degree_zero]; exact WithBot.bot_lt_coe _
      · rw [Polynomial.degree_eq_natDegree h0]
        have : p.natDegree < 2 * n := by omega
        exact_mod_cast this
    rw [← integral_measureT, integral_eq_sumZeroes hn0 hdeg, sumZeroes, mul_sum]
    apply sum_congr rfl
    intro i hi
    have hi' := mem_range.mp hi
    rw [hsin i hi']
    have hs : Real.sin (chebTheta n i) ≠ 0 :=
      (Real.sin_pos_of_pos_of_lt_pi (hθ i hi').1 (hθ i hi').2).ne'
    have harg : (2 * (i : ℝ) + 1) / (2 * n) * π = chebTheta n i := by
      unfold chebTheta; field_simp
    rw [harg]
    field_simp

/-- non-vacuity: `n = 3`, `p = X^5` (degree 2n-1), contract instantiated with NumPy's closed form. -/
example : quad (GaussChebyshev.weights ((List.range 3).map fun (i : ℕ) => Real.cos (chebTheta 3 i))
      ((List.range 3).map fun _ => π / ((3 : ℕ) : ℝ)))
      ((List.range 3).map fun (i : ℕ) => Real.cos (chebTheta 3 i)).reverse
      (fun x => (X ^ 5 : ℝ[X]).eval x * (Real.sqrt (1 - x ^ 2))⁻¹)
    = ∫ x in (-1 : ℝ)..1, (X ^ 5 : ℝ[X]).eval x * √(1 - x ^ 2)⁻¹ :=
  (gausscheb1_exact (fun n => ((List.range n).map fun (i : ℕ) => Real.cos (chebTheta n i),
      (List.range n).map fun _ => π / (n : ℝ))) 3 (by norm_num) rfl (X ^ 5) (by simp)).2

end GridVerif.C01

/-
  C01, clauses about the closed-form rules and the Trefethen maps:
  `_derg2 = _g2'`, `_derg3 = _g3'`, `g(±1) = ±1`, `g' > 0`, `_dergstrip = ∂ₛ _gstrip` on `|s| < 1`
  (formulas regenerated in `Gen/OneDFormulas.lean`);
  every closed-form rule returns `n` nodes in ascending order inside its declared domain and is
  accepted by `OneDGrid.__init__`; documented weights of Chebyshev–Lobatto / sine-rectangle.
-/
import GridVerif.Lemmas.OneDSubst
import Mathlib.Analysis.SpecialFunctions.Trigonometric.InverseDeriv
import Mathlib.Analysis.SpecialFunctions.Trigonometric.Basic
import Mathlib.Analysis.Calculus.Deriv.Pow
import Mathlib.Tactic.Positivity

namespace GridVerif.C01
open GridVerif GridVerif.OneD Real
open Gen.OneD

/-! ### Trefethen polynomial maps -/

theorem g2_eq (x : ℝ) : g2 x = (1 / 149) * (120 * x + 20 * x ^ 3 + 9 * x ^ 5) := by
  simp only [g2, npow_eq_pow, Nat.cast_ofNat, Nat.cast_one]

theorem derg2_eq (x : ℝ) : derg2 x = (1 / 149) * (120 + 60 * x ^ 2 + 45 * x ^ 4) := by
  simp only [derg2, npow_eq_pow, Nat.cast_ofNat, Nat.cast_one]

theorem g3_eq (x : ℝ) : g3 x =
    (1 / 53089) * (40320 * x + 6720 * x ^ 3 + 3024 * x ^ 5 + 1800 * x ^ 7 + 1225 * x ^ 9) := by
  simp only [g3, npow_eq_pow, Nat.cast_ofNat, Nat.cast_one]

theorem derg3_eq (x : ℝ) : derg3 x =
    (1 / 53089) * (40320 + 20160 * x ^ 2 + 15120 * x ^ 4 + 12600 * x ^ 6 + 11025 * x ^ 8) := by
  simp only [derg3, npow_eq_pow, Nat.cast_ofNat, Nat.cast_one]

/-- `_derg2` is the derivative of `_g2`. -/
theorem derg2_is_deriv_g2 (x : ℝ) : HasDerivAt (fun y : ℝ => g2 y) (derg2 x) x := by
  simp only [g2_eq, derg2_eq]
  have h := ((((hasDerivAt_id x).const_mul (120 : ℝ)).add (((hasDerivAt_pow 3 x)).const_mul (20 : ℝ))).add
    ((hasDerivAt_pow 5 x).const_mul (9 : ℝ))).const_mul (1 / 149 : ℝ)
  refine h.congr_deriv ?_
  norm_num
  ring

/-- `_derg3` is the derivative of `_g3`. -/
theorem derg3_is_deriv_g3 (x : ℝ) : HasDerivAt (fun y : ℝ => g3 y) (derg3 x) x := by
  simp only [g3_eq, derg3_eq]
  have h := ((((((hasDerivAt_id x).const_mul (40320 : ℝ)).add ((hasDerivAt_pow 3 x).const_mul (6720 : ℝ))).add
    ((hasDerivAt_pow 5 x).const_mul (3024 : ℝ))).add ((hasDerivAt_pow 7 x).const_mul (1800 : ℝ))).add
    ((hasDerivAt_pow 9 x).const_mul (1225 : ℝ))).const_mul (1 / 53089 : ℝ)
  refine h.congr_deriv ?_
  norm_num
  ring

/-- end points are fixed: `g(±1) = ±1`. -/
theorem g2_endpoints : g2 (1 : ℝ) = 1 ∧ g2 (-1 : ℝ) = -1 := by
  constructor <;> rw [g2_eq] <;> norm_num

theorem g3_endpoints : g3 (1 : ℝ) = 1 ∧ g3 (-1 : ℝ) = -1 := by
  constructor <;> rw [g3_eq] <;> norm_num

/-- `g' > 0` everywhere. -/
theorem derg2_pos (x : ℝ) : 0 < derg2 x := by
  rw [derg2_eq]; positivity

theorem derg3_pos (x : ℝ) : 0 < derg3 x := by
  rw [derg3_eq]; positivity

theorem g2_strictMono : StrictMono fun x : ℝ => g2 x :=
  strictMono_of_deriv_pos fun x => by rw [(derg2_is_deriv_g2 x).deriv]; exact derg2_pos x

theorem g3_strictMono : StrictMono fun x : ℝ => g3 x :=
  strictMono_of_deriv_pos fun x => by rw [(derg3_is_deriv_g3 x).deriv]; exact derg3_pos x

/-! ### Trefethen strip map -/

/-- `_dergstrip` (interior branch) is the partial derivative of `_gstrip` with respect to `s`, for
every `rho` and every `-1 < s < 1`. -/
theorem dergstrip_is_deriv_gstrip (rho s : ℝ) (hs : -1 < s ∧ s < 1) :
    HasDerivAt (fun y : ℝ => gstrip rho y) (dergstripInterior rho s) s := by
  unfold gstrip dergstripInterior
  simp only [Nat.cast_ofNat, Nat.cast_one, Elem.exp, Elem.log, Elem.arcsin, Elem.sqrt, Elem.pi,
    npow_eq_pow]
  generalize π / Real.log rho = τ
  generalize (1 / 2 + 1 / (Real.exp (τ * π) + 1) : ℝ) = td
  generalize (1 / (Real.log (1 + Real.exp (-τ * π)) - Real.log 2 + π * τ * td / 2) : ℝ) = cn
  have hpos : 0 < 1 - s ^ 2 := by nlinarith
  have hsq : Real.sqrt (1 - s ^ 2) ≠ 0 := (Real.sqrt_pos.mpr hpos).ne'
  have hu : HasDerivAt Real.arcsin (1 / Real.sqrt (1 - s ^ 2)) s :=
    Real.hasDerivAt_arcsin hs.1.ne' hs.2.ne
  have i1 : HasDerivAt (fun y => -τ * (π / 2 + Real.arcsin y)) (-τ * (1 / Real.sqrt (1 - s ^ 2))) s :=
    (hu.const_add (π / 2)).const_mul (-τ)
  have i2 : HasDerivAt (fun y => -τ * (π / 2 - Real.arcsin y)) (-τ * (-(1 / Real.sqrt (1 - s ^ 2)))) s :=
    (hu.const_sub (π / 2)).const_mul (-τ)
  have l1 := (i1.exp.const_add 1).log (by positivity)
  have l2 := (i2.exp.const_add 1).log (by positivity)
  have c := hu.const_mul (td * τ)
  have h := ((l1.sub l2).add c).const_mul cn
  refine h.congr_deriv ?_
  simp only [neg_mul, Real.exp_neg]
  have e1 : Real.exp (τ * (π / 2 + Real.arcsin s)) ≠ 0 := (Real.exp_pos _).ne'
  have e2 : Real.exp (τ * (π / 2 - Real.arcsin s)) ≠ 0 := (Real.exp_pos _).ne'
  have e3 : Real.exp (τ * (π / 2 + Real.arcsin s)) + 1 ≠ 0 := by positivity
  have e4 : Real.exp (τ * (π / 2 - Real.arcsin s)) + 1 ≠ 0 := by positivity
  field_simp
  ring

/-- non-vacuity: `rho = 1.1` (the default), `s = 1/2`. -/
example : HasDerivAt (fun y : ℝ => gstrip (11 / 10) y) (dergstripInterior (11 / 10) (1 / 2)) (1 / 2) :=
  dergstrip_is_deriv_gstrip _ _ (by norm_num)

/-- Full statement for the strip rules: `_gstrip rho` fixes `±1`, is strictly increasing on
`[-1, 1]` for `rho > 1`, and the `np.isclose` branch of `_dergstrip` is the one-sided limit of the
derivative at `|s| = 1`.  **Proved** as `gstrip_shape` in `Props/C01/Strip.lean` (and checked on the
implementation by the oracle with mpmath). -/
def gstrip_shape_full : Prop :=
  ∀ rho : ℝ, 1 < rho → gstrip rho 1 = 1 ∧ gstrip rho (-1) = -1 ∧
    StrictMonoOn (fun s => gstrip rho s) (Set.Icc (-1) 1) ∧
    Filter.Tendsto (fun s => dergstripInterior rho s) (nhdsWithin 1 (Set.Iio 1)) (nhds (dergstripEnd rho 1))

end GridVerif.C01

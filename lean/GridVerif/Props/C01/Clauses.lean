/-
  C01 — clauses of the property stated directly over the *regenerated* constructors (`Gen/OneDCtor.lean`), for the
  stored seeded changes that were caught only by the input generators or by the translator refusing the source:

  * `gausslaguerre_gen_exact` (C01-e: the factor `x^(-alpha)` applied only for `alpha > 0`): the regenerated
    `GaussLaguerre.__init__` returns, for EVERY `alpha > -1` (negative ones included), the nodes of the routine and
    weights that integrate `x^alpha e^-x p(x)` exactly for `deg p ≤ 2n-1`;
  * `trefethenstripgeneral_gen_clause`, `trefethengeneral_gen_clause` (C01-h: the `quadrature` argument ignored): the
    rule the regenerated `…General` constructors return is the map of the rule *the given quadrature class built* —
    nodes `g(x_i)`, weights `g'(x_i) w_i` of exactly that rule, domain `(-1, 1)`.
-/
import GridVerif.Props.C01.Init
import GridVerif.Props.C01.Gauss

set_option linter.unusedSimpArgs false

namespace GridVerif.C01
open GridVerif GridVerif.OneD GridVerif.OneD.Py Polynomial

/-- **Gauss–Laguerre, every `α > -1`, over the regenerated constructor.**  If SciPy's rule `(x, W)` for size `n` and
parameter `α` is exact for `x^α e^{-x}` up to degree `2n-1` (contract `GaussExact`), has positive nodes and no NaN
(`ext.isnan` never fires), then the regenerated `GaussLaguerre.__init__` accepts, returns those nodes with the domain
`(0, inf)`, and its weights integrate `x^α e^{-x} p(x)` exactly for every polynomial of degree `≤ 2n-1` — for negative
`α` as well as positive. -/
theorem gausslaguerre_gen_exact (I : (ℝ → ℝ) → ℝ) (ext : Ext ℝ) (n : ℕ) (hn : 2 ≤ n) (α : ℝ) (hα : -1 < α)
    (hnan : ext.isnan = fun _ => false)
    (h : GaussExact I (fun x => x ^ α * Real.exp (-x)) (2 * n - 1)
      (ext.roots_genlaguerre n α).1 (ext.roots_genlaguerre n α).2)
    (hdom : ∀ x ∈ (ext.roots_genlaguerre n α).1, 0 < x) (hne : (ext.roots_genlaguerre n α).1 ≠ []) :
    ∃ r : PyGrid ℝ, Gen.OneD.GaussLaguerre.ctor ext (n : ℤ) α = .ok r ∧
      r.points = (ext.roots_genlaguerre n α).1 ∧ r.domain = some ⟨0, none⟩ ∧
      ∀ p : ℝ[X], p.natDegree ≤ 2 * n - 1 →
        quad r.weights r.points (fun x => x ^ α * Real.exp (-x) * p.eval x)
          = I (fun x => x ^ α * Real.exp (-x) * p.eval x) := by
  have hne' : (ext.roots_genlaguerre ((n : ℤ).toNat) α).1 ≠ [] := by simpa using hne
  obtain ⟨hmk, hex⟩ := gausslaguerre_exact I (fun m => ext.roots_genlaguerre m α) n hn α hα h hdom
  rw [gausslaguerre_ctor_eq_make ext (n : ℤ) α hne', hnan, hmk]
  exact ⟨_, rfl, rfl, rfl, hex⟩

/-- the hypotheses are met: a two-point rule that is exact for the functional it defines -/
example : ∃ (I : (ℝ → ℝ) → ℝ) (ext : Ext ℝ),
    ext.isnan = (fun _ => false) ∧ (∀ x ∈ (ext.roots_genlaguerre 2 (-1 / 2)).1, 0 < x) ∧
    (ext.roots_genlaguerre 2 (-1 / 2)).1 ≠ [] := by
  let g : ℕ → List ℝ × List ℝ := fun _ => ([1 / 4, 3], [1, 1 / 10])
  exact ⟨fun _ => 0, ⟨g, g, g, fun m _ => g m, fun _ => false⟩, rfl, by simp [g], by simp [g]⟩

/-- what an accepted `OneDGrid.__init__` call with the domain `(-1, 1)` returns: the arrays it was given -/
theorem init_ok_eq (P W : List ℝ) (hne : P ≠ []) (r : PyGrid ℝ)
    (h : Gen.OneD.OneDGrid.init P W (some ⟨-((1 : ℕ) : ℝ), some ((1 : ℕ) : ℝ)⟩) = .ok r) :
    r = ⟨P, W, some ⟨-1, some 1⟩⟩ := by
  rw [init_eq_model P W _ _ hne neg_one_le_one] at h
  cases hm : oneDGrid P W (-((1 : ℕ) : ℝ)) (some ((1 : ℕ) : ℝ)) with
  | error e => rw [hm] at h; simp [Except.map] at h
  | ok m =>
    obtain ⟨rfl, -⟩ := (oneDGrid_ok_iff _ _ _ _ m).mp hm
    rw [hm] at h
    simp only [Except.map, Except.ok.injEq, Grid1D.toPy] at h
    rw [← h]
    simp

/-- **`TrefethenStripGeneral` transforms the rule it is given.**  Whatever class `quadrature` is: if
`quadrature(npoints)` builds the (non-empty) rule `g` and the regenerated constructor accepts, the result has the nodes
`_gstrip(rho, x_i)` and the weights `_dergstrip(rho, x_i) * w_i` of exactly that rule `g`, and the domain `(-1, 1)`. -/
theorem trefethenstripgeneral_gen_clause (q : ℤ → Except Err (PyGrid ℝ)) (npoints : ℤ) (rho : ℝ) (g : PyGrid ℝ)
    (hq : q npoints = .ok g) (hne : g.points ≠ []) (r : PyGrid ℝ)
    (h : Gen.OneD.TrefethenStripGeneral.ctor npoints q rho = .ok r) :
    r.points = g.points.map (Gen.OneD.gstrip rho) ∧
    r.weights = List.zipWith (fun x w => Gen.OneD.dergstripAt rho x * w) g.points g.weights ∧
    r.domain = some ⟨-1, some 1⟩ := by
  unfold Gen.OneD.TrefethenStripGeneral.ctor at h
  rw [hq] at h
  simp only [Except.bind] at h
  have := init_ok_eq _ _ (by simpa using hne) r h
  subst this
  exact ⟨rfl, rfl, rfl⟩

/-- **`TrefethenGeneral` transforms the rule it is given** (`d = 5`: `_g2`, `_derg2`; `d = 9`: `_g3`, `_derg3`; `d = 1`:
the rule itself). -/
theorem trefethengeneral_gen_clause (q : ℤ → Except Err (PyGrid ℝ)) (npoints : ℤ) (g : PyGrid ℝ)
    (hq : q npoints = .ok g) (hne : g.points ≠ []) (r : PyGrid ℝ) :
    (Gen.OneD.TrefethenGeneral.ctor npoints (some q) 1 = .ok r → r.points = g.points ∧ r.weights = g.weights) ∧
    (Gen.OneD.TrefethenGeneral.ctor npoints (some q) 5 = .ok r →
      r.points = g.points.map Gen.OneD.g2 ∧
      r.weights = List.zipWith (fun x w => Gen.OneD.derg2 x * w) g.points g.weights) ∧
    (Gen.OneD.TrefethenGeneral.ctor npoints (some q) 9 = .ok r →
      r.points = g.points.map Gen.OneD.g3 ∧
      r.weights = List.zipWith (fun x w => Gen.OneD.derg3 x * w) g.points g.weights) := by
  refine ⟨?_, ?_, ?_⟩ <;> intro h <;> unfold Gen.OneD.TrefethenGeneral.ctor at h <;>
    simp only [Py.isOneDGridClass, Option.isSome_some, Bool.not_true, Bool.false_eq_true, if_false, Py.callClass, hq,
      Except.bind, decide_true, decide_false, if_true, show ¬ ((5 : ℤ) = 1) by decide, show ¬ ((9 : ℤ) = 1) by decide,
      show ¬ ((9 : ℤ) = 5) by decide] at h
  · have := init_ok_eq _ _ hne r h
    subst this; exact ⟨rfl, rfl⟩
  · have := init_ok_eq _ _ (by simpa using hne) r h
    subst this; exact ⟨rfl, rfl⟩
  · have := init_ok_eq _ _ (by simpa using hne) r h
    subst this; exact ⟨rfl, rfl⟩

/-- the hypotheses are met: a class building the two-point rule `{∓1/2}`, weights 1 -/
example : ∃ r : PyGrid ℝ, Gen.OneD.TrefethenStripGeneral.ctor 2
    (fun _ => .ok ⟨[-1 / 2, 1 / 2], [1, 1], some ⟨-1, some 1⟩⟩) 2 = .ok r →
    r.points = [-1 / 2, 1 / 2].map (Gen.OneD.gstrip 2) :=
  ⟨⟨[], [], none⟩, fun h => (trefethenstripgeneral_gen_clause _ 2 2 _ rfl (by simp) _ h).1⟩

end GridVerif.C01

/-
  C01, clause "every rule returns n nodes inside its declared domain in ascending order": the
  closed-form rules (trapezoid, Simpson, midpoint, uniform integer, Chebyshev–Lobatto, sine-rectangle,
  Clenshaw–Curtis, Fejér 1 and 2) for every admissible n, incl. acceptance by `OneDGrid.__init__`;
  the Trefethen polynomial maps preserve this shape for every base rule on `[-1, 1]`.
  (`ClosedShape` is defined in `Lemmas/OneDShape.lean`.)
-/
import GridVerif.Lemmas.OneDShape
import GridVerif.Props.C01.Closed

set_option linter.unusedSimpArgs false

namespace GridVerif.C01
open GridVerif GridVerif.OneD Real

private theorem cast_pred (n : ℕ) (hn : 2 ≤ n) : ((n - 1 : ℕ) : ℝ) = (n : ℝ) - 1 := by
  rw [Nat.cast_sub (by omega)]; simp

/-- equally spaced nodes `-1 + aᵢ/d` with `0 ≤ a₀ < a₁ < … ≤ 2d` -/
private theorem linear_nodes (n : ℕ) (a : ℕ → ℝ) (d : ℝ) (hd : 0 < d)
    (ha : ∀ i, i < n → 0 ≤ a i ∧ a i ≤ 2 * d) (hmono : ∀ i j, i < j → j < n → a i < a j) :
    ((List.range n).map fun i => -1 + a i / d).length = n ∧
    ((List.range n).map fun i => -1 + a i / d).Pairwise (· < ·) ∧
    ∀ x ∈ (List.range n).map fun i => -1 + a i / d, (-1 : ℝ) ≤ x ∧ ∀ b, some (1 : ℝ) = some b → x ≤ b := by
  refine ⟨by simp, ?_, ?_⟩
  · apply pairwise_map_range
    intro i j hij hj
    have := div_lt_div_of_pos_right (hmono i j hij hj) hd
    linarith
  · intro x hx
    simp only [List.mem_map, List.mem_range] at hx
    obtain ⟨i, hi, rfl⟩ := hx
    have h1 := (ha i hi).1
    have h2 := (ha i hi).2
    refine ⟨?_, fun b hb => ?_⟩
    · have : 0 ≤ a i / d := div_nonneg h1 hd.le
      linarith
    · have hb' : b = 1 := (Option.some.inj hb).symm
      subst hb'
      have : a i / d ≤ 2 := by rw [div_le_iff₀ hd]; linarith
      linarith

private theorem cast_le_pred (n i : ℕ) (hi : i < n) : (i : ℝ) ≤ (n : ℝ) - 1 := by
  have : i + 1 ≤ n := by omega
  have : ((i + 1 : ℕ) : ℝ) ≤ n := by exact_mod_cast this
  push_cast at this; linarith

private theorem pred_pos (n : ℕ) (hn : 2 ≤ n) : (0 : ℝ) < (n : ℝ) - 1 := by
  have : (2 : ℝ) ≤ n := by exact_mod_cast hn
  linarith

/-- **Trapezoidal(n)**, every `n ≥ 2` (guards, lengths, entries and domain from the regenerated source). -/
theorem trapezoidal_shape (n : ℕ) (hn : 2 ≤ n) :
    ClosedShape (Trapezoidal.make (n : ℤ)) (Trapezoidal.points n) (Trapezoidal.weights n) (-1) (some 1) n := by
  have hmk : Trapezoidal.make (K := ℝ) (n : ℤ)
      = oneDGrid (Trapezoidal.points n) (Trapezoidal.weights n) (-1) (some 1) := by
    unfold Trapezoidal.make
    simp [Gen.OneD.Trapezoidal.rejects, Gen.OneD.Trapezoidal.lo, Gen.OneD.Trapezoidal.hi,
      show ¬ ((n : ℤ) ≤ 1) by omega]
  have hd := pred_pos n hn
  obtain ⟨h1, h2, h3⟩ := linear_nodes n (fun i => 2 * (i : ℝ)) ((n : ℝ) - 1) hd
    (fun i hi => by
      constructor
      · positivity
      · have := cast_le_pred n i hi
        linarith)
    (fun i j hij _ => by
      have : (i : ℝ) < j := by exact_mod_cast hij
      linarith)
  rw [hmk]
  have hp : Trapezoidal.points (K := ℝ) n = (List.range n).map fun (i : ℕ) => -1 + 2 * (i : ℝ) / ((n : ℝ) - 1) := by
    unfold Trapezoidal.points
    simp only [Gen.OneD.Trapezoidal.pointsLen]
    apply List.map_congr_left
    intro i _
    simp only [Gen.OneD.Trapezoidal.pointAt, Gen.OneD.Trapezoidal.points0, Nat.cast_ofNat, Nat.cast_one]
  rw [hp]
  exact closedShape_of _ _ _ _ n h1 (by simp [Trapezoidal.weights, Gen.OneD.Trapezoidal.weightsLen]) h2 h3

/-- **Simpson(n)**, every odd `n ≥ 3`. -/
theorem simpson_shape (n : ℕ) (hn : 2 ≤ n) (hodd : n % 2 = 1) :
    ClosedShape (Simpson.make (n : ℤ)) (Simpson.points n) (Simpson.weights n) (-1) (some 1) n := by
  have hmk : Simpson.make (K := ℝ) (n : ℤ)
      = oneDGrid (Simpson.points n) (Simpson.weights n) (-1) (some 1) := by
    unfold Simpson.make
    simp [Gen.OneD.Simpson.rejects, Gen.OneD.Simpson.lo, Gen.OneD.Simpson.hi,
      show ¬ ((n : ℤ) ≤ 1) by omega, show ¬ ((n : ℤ) % 2 = 0) by omega]
  have hd := pred_pos n hn
  obtain ⟨h1, h2, h3⟩ := linear_nodes n (fun i => 2 * (i : ℝ)) ((n : ℝ) - 1) hd
    (fun i hi => by
      constructor
      · positivity
      · have := cast_le_pred n i hi
        linarith)
    (fun i j hij _ => by
      have : (i : ℝ) < j := by exact_mod_cast hij
      linarith)
  rw [hmk]
  have hp : Simpson.points (K := ℝ) n = (List.range n).map fun (i : ℕ) => -1 + 2 * (i : ℝ) / ((n : ℝ) - 1) := by
    unfold Simpson.points
    simp only [Gen.OneD.Simpson.pointsLen]
    apply List.map_congr_left
    intro i _
    simp only [Gen.OneD.Simpson.pointAt, Gen.OneD.Simpson.points0, Gen.OneD.Simpson.idx0, Nat.cast_ofNat,
      Nat.cast_one]
  rw [hp]
  exact closedShape_of _ _ _ _ n h1 (by simp [Simpson.weights, Gen.OneD.Simpson.weightsLen]) h2 h3

/-- **MidPoint(n)**, every `n ≥ 2`. -/
theorem midpoint_shape (n : ℕ) (hn : 2 ≤ n) :
    ClosedShape (MidPoint.make (n : ℤ)) (MidPoint.points n) (MidPoint.weights n) (-1) (some 1) n := by
  have hmk : MidPoint.make (K := ℝ) (n : ℤ)
      = oneDGrid (MidPoint.points n) (MidPoint.weights n) (-1) (some 1) := by
    unfold MidPoint.make
    simp [Gen.OneD.MidPoint.rejects, Gen.OneD.MidPoint.lo, Gen.OneD.MidPoint.hi,
      show ¬ ((n : ℤ) ≤ 1) by omega]
  have hd : (0 : ℝ) < (n : ℝ) := by positivity
  obtain ⟨h1, h2, h3⟩ := linear_nodes n (fun i => 2 * (i : ℝ) + 1) (n : ℝ) hd
    (fun i hi => by
      constructor
      · positivity
      · have : 2 * i + 1 ≤ 2 * n := by omega
        exact_mod_cast this)
    (fun i j hij _ => by
      have : (i : ℝ) < j := by exact_mod_cast hij
      linarith)
  rw [hmk]
  have hp : MidPoint.points (K := ℝ) n = (List.range n).map fun (i : ℕ) => -1 + (2 * (i : ℝ) + 1) / (n : ℝ) := by
    unfold MidPoint.points
    simp only [Gen.OneD.MidPoint.pointsLen]
    apply List.map_congr_left
    intro i _
    simp only [Gen.OneD.MidPoint.pointAt, Gen.OneD.MidPoint.points0, Nat.cast_ofNat, Nat.cast_one]
  rw [hp]
  exact closedShape_of _ _ _ _ n h1 (by simp [MidPoint.weights, Gen.OneD.MidPoint.weightsLen]) h2 h3

/-- **RectangleRuleSineEndPoints(n)**, every `n ≥ 2`: nodes `2(i+1)/(n+1) - 1`. -/
theorem rectanglesine_shape (n : ℕ) (hn : 2 ≤ n) :
    ClosedShape (RectangleRuleSineEndPoints.make (n : ℤ)) (RectangleRuleSineEndPoints.points n)
      (RectangleRuleSineEndPoints.weights n) (-1) (some 1) n := by
  have hmk : RectangleRuleSineEndPoints.make (K := ℝ) (n : ℤ)
      = oneDGrid (RectangleRuleSineEndPoints.points n) (RectangleRuleSineEndPoints.weights n) (-1) (some 1) := by
    unfold RectangleRuleSineEndPoints.make
    simp [Gen.OneD.RectangleRuleSineEndPoints.rejects, Gen.OneD.RectangleRuleSineEndPoints.lo,
      Gen.OneD.RectangleRuleSineEndPoints.hi, show ¬ ((n : ℤ) ≤ 1) by omega]
  have hd : (0 : ℝ) < (n : ℝ) + 1 := by positivity
  obtain ⟨h1, h2, h3⟩ := linear_nodes n (fun i => 2 * ((i : ℝ) + 1)) ((n : ℝ) + 1) hd
    (fun i hi => by
      constructor
      · positivity
      · have : (i : ℝ) ≤ n := by exact_mod_cast (by omega : i ≤ n)
        linarith)
    (fun i j hij _ => by
      have : (i : ℝ) < j := by exact_mod_cast hij
      linarith)
  rw [hmk]
  have hp : RectangleRuleSineEndPoints.points (K := ℝ) n
      = (List.range n).map fun (i : ℕ) => -1 + 2 * ((i : ℝ) + 1) / ((n : ℝ) + 1) := by
    unfold RectangleRuleSineEndPoints.points
    simp only [Gen.OneD.RectangleRuleSineEndPoints.pointsLen, Nat.add_sub_cancel]
    apply List.map_congr_left
    intro i _
    simp only [Gen.OneD.RectangleRuleSineEndPoints.pointAt, Gen.OneD.RectangleRuleSineEndPoints.points1,
      Gen.OneD.RectangleRuleSineEndPoints.points0, Nat.cast_ofNat, Nat.cast_one]
    push_cast
    ring
  have hw : (RectangleRuleSineEndPoints.weights (K := ℝ) n).length = n := by
    simp [RectangleRuleSineEndPoints.weights, Gen.OneD.RectangleRuleSineEndPoints.weightsLen]
  rw [hp]
  exact closedShape_of _ _ _ _ n h1 hw h2 h3

/-- **UniformInteger(n)**, every `n ≥ 2`: nodes `0, 1, …, n-1` in `[0, ∞)`, weights `1`. -/
theorem uniforminteger_shape (n : ℕ) (hn : 2 ≤ n) :
    ClosedShape (UniformInteger.make (n : ℤ)) (UniformInteger.points n) (UniformInteger.weights n) 0 none n ∧
    (∀ w ∈ UniformInteger.weights (K := ℝ) n, w = 1) := by
  have hmk : UniformInteger.make (K := ℝ) (n : ℤ)
      = oneDGrid (UniformInteger.points n) (UniformInteger.weights n) 0 none := by
    unfold UniformInteger.make
    simp [Gen.OneD.UniformInteger.rejects, Gen.OneD.UniformInteger.lo, Gen.OneD.UniformInteger.hi,
      show ¬ ((n : ℤ) ≤ 1) by omega]
  have hp : UniformInteger.points (K := ℝ) n = (List.range n).map fun (i : ℕ) => (i : ℝ) := by
    unfold UniformInteger.points
    simp only [Gen.OneD.UniformInteger.pointsLen]
    apply List.map_congr_left
    intro i _
    simp only [Gen.OneD.UniformInteger.pointAt, Gen.OneD.UniformInteger.points0]
  refine ⟨?_, ?_⟩
  · rw [hmk]
    apply closedShape_of
    · simp [hp]
    · simp [UniformInteger.weights, Gen.OneD.UniformInteger.weightsLen]
    · rw [hp]
      apply pairwise_map_range
      intro i j hij _
      exact_mod_cast hij
    · intro x hx
      rw [hp] at hx
      simp only [List.mem_map] at hx
      obtain ⟨i, _, rfl⟩ := hx
      exact ⟨by positivity, fun b hb => by cases hb⟩
  · intro w hw
    simp only [UniformInteger.weights, List.mem_map] at hw
    obtain ⟨i, _, rfl⟩ := hw
    simp [Gen.OneD.UniformInteger.weightAt, Gen.OneD.UniformInteger.weights0]

/-! ### cosine nodes -/

private theorem angle_bounds (a d : ℝ) (ha : 0 ≤ a) (had : a ≤ d) (hd : 0 < d) :
    0 ≤ π * a / d ∧ π * a / d ≤ π := by
  constructor
  · positivity
  · rw [div_le_iff₀ hd]
    exact mul_le_mul_of_nonneg_left had Real.pi_pos.le

private theorem angle_mono (a b d : ℝ) (hab : a < b) (hd : 0 < d) : π * a / d < π * b / d :=
  div_lt_div_of_pos_right (mul_lt_mul_of_pos_left hab Real.pi_pos) hd

/-- **GaussChebyshevLobatto(n)**, every `n ≥ 2`. -/
theorem chebyshevlobatto_shape (n : ℕ) (hn : 2 ≤ n) :
    ClosedShape (GaussChebyshevLobatto.make (n : ℤ)) (GaussChebyshevLobatto.points n)
      (GaussChebyshevLobatto.weights n) (-1) (some 1) n := by
  have hmk : GaussChebyshevLobatto.make (K := ℝ) (n : ℤ)
      = oneDGrid (GaussChebyshevLobatto.points n) (GaussChebyshevLobatto.weights n) (-1) (some 1) := by
    unfold GaussChebyshevLobatto.make
    simp [Gen.OneD.GaussChebyshevLobatto.rejects, Gen.OneD.GaussChebyshevLobatto.lo,
      Gen.OneD.GaussChebyshevLobatto.hi, show ¬ ((n : ℤ) ≤ 1) by omega]
  have hd := pred_pos n hn
  have hp : GaussChebyshevLobatto.points (K := ℝ) n
      = ((List.range n).map fun (i : ℕ) => Real.cos (π * (i : ℝ) / ((n : ℝ) - 1))).reverse := by
    rw [reverse_map_range]
    unfold GaussChebyshevLobatto.points
    simp only [Gen.OneD.GaussChebyshevLobatto.pointsLen]
    apply List.map_congr_left
    intro i _
    simp only [Gen.OneD.GaussChebyshevLobatto.pointAt, Gen.OneD.GaussChebyshevLobatto.points1,
      Gen.OneD.GaussChebyshevLobatto.points0, Elem.cos, Elem.pi, Nat.cast_one]
    congr 1; ring
  obtain ⟨h1, h2, h3⟩ := cos_nodes n (fun i => π * (i : ℝ) / ((n : ℝ) - 1))
    (fun i hi => angle_bounds _ _ (by positivity) (cast_le_pred n i hi) hd)
    (fun i j hij _ => angle_mono _ _ _ (by exact_mod_cast hij) hd)
  rw [hmk]
  have hw : (GaussChebyshevLobatto.weights (K := ℝ) n).length = n := by
    simp [GaussChebyshevLobatto.weights, Gen.OneD.GaussChebyshevLobatto.weightsLen]
  apply closedShape_of
  · rw [hp]; exact h1
  · exact hw
  · rw [hp]; exact h2
  · intro x hx
    rw [hp] at hx
    exact ⟨(h3 x hx).1, fun b hb => by
      have : b = 1 := (Option.some.inj hb).symm
      subst this; exact (h3 x hx).2⟩

private theorem cosShape (res : Except Err (Grid1D ℝ)) (P W : List ℝ) (n : ℕ) (θ : ℕ → ℝ)
    (hres : res = oneDGrid P W (-1) (some 1))
    (hp : P = ((List.range n).map fun i => Real.cos (θ i)).reverse) (hw : W.length = n)
    (hθ : ∀ i, i < n → 0 ≤ θ i ∧ θ i ≤ π) (hmono : ∀ i j, i < j → j < n → θ i < θ j) :
    ClosedShape res P W (-1) (some 1) n := by
  obtain ⟨h1, h2, h3⟩ := cos_nodes n θ hθ hmono
  rw [hres]
  apply closedShape_of
  · rw [hp]; exact h1
  · exact hw
  · rw [hp]; exact h2
  · intro x hx
    rw [hp] at hx
    exact ⟨(h3 x hx).1, fun b hb => by
      have : b = 1 := (Option.some.inj hb).symm
      subst this; exact (h3 x hx).2⟩

/-- **ClenshawCurtis(n)**, every `n ≥ 2`. -/
theorem clenshawcurtis_shape (n : ℕ) (hn : 2 ≤ n) :
    ClosedShape (ClenshawCurtis.make (n : ℤ)) (ClenshawCurtis.points n) (ClenshawCurtis.weights n)
      (-1) (some 1) n := by
  have hnr : (0 : ℝ) < (n : ℝ) - 1 := by
    have : (2 : ℝ) ≤ n := by exact_mod_cast hn
    linarith
  apply cosShape _ _ _ n (fun i => π * (i : ℝ) / ((n : ℝ) - 1))
  · unfold ClenshawCurtis.make
    have : Gen.OneD.ClenshawCurtis.bjLen n = Gen.OneD.ClenshawCurtis.jLen n := rfl
    simp only [show ¬ ((n : ℤ) ≤ 1) by omega, if_false, Int.toNat_natCast, negOne_real, one_real, this,
      ne_eq, not_true_eq_false]
  · unfold ClenshawCurtis.points ClenshawCurtis.theta
    rw [List.map_reverse, List.map_map]
    congr 1
    apply List.map_congr_left
    intro i _
    simp only [Function.comp, Gen.OneD.ClenshawCurtis.theta, Elem.cos, Elem.pi, Nat.cast_ofNat, Nat.cast_one]
  · unfold ClenshawCurtis.weights divAt
    rw [List.length_mapIdx, List.length_mapIdx, List.length_map]
    apply vecMat_length
    intro r hr
    simp only [ClenshawCurtis.cij, List.mem_map] at hr
    obtain ⟨a, _, rfl⟩ := hr
    simp [ClenshawCurtis.theta]
  · intro i hi
    have : (i : ℝ) ≤ (n : ℝ) - 1 := by
      have : i + 1 ≤ n := by omega
      have : ((i + 1 : ℕ) : ℝ) ≤ n := by exact_mod_cast this
      push_cast at this; linarith
    exact angle_bounds _ _ (by positivity) this hnr
  · intro i j hij _
    exact angle_mono _ _ _ (by exact_mod_cast hij) hnr

/-- **FejerFirst(n)**, every `n ≥ 2`: nodes are the Chebyshev zeros, strictly inside `(-1, 1)` in
ascending order. -/
theorem fejerfirst_shape (n : ℕ) (hn : 2 ≤ n) :
    ClosedShape (FejerFirst.make (n : ℤ)) (FejerFirst.points n) (FejerFirst.weights n)
      (-1) (some 1) n := by
  have hnr : (0 : ℝ) < 2 * (n : ℝ) := by positivity
  apply cosShape _ _ _ n (fun i => π * (2 * (i : ℝ) + 1) / (2 * (n : ℝ)))
  · unfold FejerFirst.make
    have : Gen.OneD.FejerFirst.bjLen n = Gen.OneD.FejerFirst.jLen n := rfl
    simp only [show ¬ ((n : ℤ) ≤ 1) by omega, if_false, Int.toNat_natCast, negOne_real, one_real, this,
      ne_eq, not_true_eq_false]
  · unfold FejerFirst.points FejerFirst.theta
    rw [List.map_map]
    congr 1
    apply List.map_congr_left
    intro i _
    simp only [Function.comp, Gen.OneD.FejerFirst.theta, Elem.cos, Elem.pi, Nat.cast_ofNat, Nat.cast_one]
  · unfold FejerFirst.weights
    rw [List.length_map, List.length_reverse, List.length_map]
    apply vecMat_length
    intro r hr
    simp only [FejerFirst.cij, List.mem_map] at hr
    obtain ⟨a, _, rfl⟩ := hr
    simp [FejerFirst.theta]
  · intro i hi
    have : 2 * (i : ℝ) + 1 ≤ 2 * (n : ℝ) := by
      have : 2 * i + 1 ≤ 2 * n := by omega
      exact_mod_cast this
    exact angle_bounds _ _ (by positivity) this hnr
  · intro i j hij _
    have : (i : ℝ) < j := by exact_mod_cast hij
    exact angle_mono _ _ _ (by linarith) hnr

/-- **FejerSecond(n)**, every `n ≥ 2` (shape only — its weights are the known finding). -/
theorem fejersecond_shape (n : ℕ) (hn : 2 ≤ n) :
    ClosedShape (FejerSecond.make (n : ℤ)) (FejerSecond.points n) (FejerSecond.weights n)
      (-1) (some 1) n := by
  have hnr : (0 : ℝ) < (n : ℝ) + 1 := by positivity
  apply cosShape _ _ _ n (fun i => π * ((i : ℝ) + 1) / ((n : ℝ) + 1))
  · unfold FejerSecond.make
    have : Gen.OneD.FejerSecond.bjLen n = Gen.OneD.FejerSecond.jLen n := rfl
    simp only [show ¬ ((n : ℤ) ≤ 1) by omega, if_false, Int.toNat_natCast, negOne_real, one_real, this,
      ne_eq, not_true_eq_false]
  · unfold FejerSecond.points FejerSecond.theta
    rw [List.map_map]
    congr 1
    apply List.map_congr_left
    intro i _
    simp only [Function.comp, Gen.OneD.FejerSecond.theta, Elem.cos, Elem.pi, Nat.cast_ofNat, Nat.cast_one]
  · unfold FejerSecond.weights
    rw [List.length_map, List.length_reverse, List.length_zipWith]
    have : (vecMat (FejerSecond.bj (K := ℝ) n) (FejerSecond.sij n) n).length = n := by
      apply vecMat_length
      intro r hr
      simp only [FejerSecond.sij, List.mem_map] at hr
      obtain ⟨a, _, rfl⟩ := hr
      simp [FejerSecond.theta]
    rw [this]
    simp [FejerSecond.theta]
  · intro i hi
    have : (i : ℝ) + 1 ≤ (n : ℝ) + 1 := by
      have : i ≤ n := by omega
      have : (i : ℝ) ≤ n := by exact_mod_cast this
      linarith
    exact angle_bounds _ _ (by positivity) this hnr
  · intro i j hij _
    have : (i : ℝ) < j := by exact_mod_cast hij
    exact angle_mono _ _ _ (by linarith) hnr

/-- non-vacuity: `ClenshawCurtis(6)` and `FejerFirst(7)`. -/
example : (ClenshawCurtis.points (K := ℝ) 6).Pairwise (· < ·) := (clenshawcurtis_shape 6 (by norm_num)).2.2.2.1
example : (FejerFirst.weights (K := ℝ) 7).length = 7 := (fejerfirst_shape 7 (by norm_num)).2.2.1

/-! ### documented weights of the closed-form rules -/

/-- **Chebyshev–Lobatto weights**: `wᵢ = π/(n-1) · sin(iπ/(n-1))`, halved at both ends
(the documented `wᵢ·√(1-xᵢ²)` with `xᵢ = -cos(iπ/(n-1))`). -/
theorem chebyshevlobatto_weights_formula (n : ℕ) (hn : 2 ≤ n) :
    GaussChebyshevLobatto.weights (K := ℝ) n = (List.range n).map fun (i : ℕ) =>
      (if i = 0 ∨ i = n - 1 then (1 / 2 : ℝ) else 1) * (π / ((n : ℝ) - 1)) *
        Real.sin (π * (i : ℝ) / ((n : ℝ) - 1)) := by
  have hd := pred_pos n hn
  unfold GaussChebyshevLobatto.weights
  simp only [Gen.OneD.GaussChebyshevLobatto.weightsLen]
  apply List.map_congr_left
  intro i hi
  have hi' : i < n := List.mem_range.mp hi
  simp only [Gen.OneD.GaussChebyshevLobatto.weightAt, Gen.OneD.GaussChebyshevLobatto.weights2,
    Gen.OneD.GaussChebyshevLobatto.weights1, Gen.OneD.GaussChebyshevLobatto.weights0,
    Gen.OneD.GaussChebyshevLobatto.points1, Gen.OneD.GaussChebyshevLobatto.points0,
    Elem.cos, Elem.sqrt, Elem.pi, npow_eq_pow, Nat.cast_one, Nat.cast_ofNat]
  have hc : ((n - 1 - i : ℕ) : ℝ) = (n : ℝ) - 1 - i := by
    rw [Nat.cast_sub (by omega), cast_pred n hn]
  have harg : ((n - 1 - i : ℕ) : ℝ) * π / ((n : ℝ) - 1) = π - π * (i : ℝ) / ((n : ℝ) - 1) := by
    rw [hc]; field_simp
  have hrange : 0 ≤ π * (i : ℝ) / ((n : ℝ) - 1) ∧ π * (i : ℝ) / ((n : ℝ) - 1) ≤ π :=
    angle_bounds _ _ (by positivity) (cast_le_pred n i hi') hd
  have hsq : Real.sqrt (1 - Real.cos (((n - 1 - i : ℕ) : ℝ) * π / ((n : ℝ) - 1)) ^ 2)
      = Real.sin (π * (i : ℝ) / ((n : ℝ) - 1)) := by
    rw [harg, Real.cos_pi_sub, neg_sq, ← Real.sin_sq,
      Real.sqrt_sq (Real.sin_nonneg_of_nonneg_of_le_pi hrange.1 hrange.2)]
  rw [hsq]
  by_cases h0 : i = 0
  · by_cases hl : i = n - 1
    · omega
    · simp [h0, hl]
  · by_cases hl : i = n - 1
    · have hn1 : n - 1 ≠ 0 := by omega
      rw [if_pos hl, if_neg h0, if_pos (Or.inr hl)]
      ring
    · rw [if_neg hl, if_neg h0, if_neg (by tauto)]
      ring

/-- **Sine-rectangle weights** as documented:
`wᵢ = 2 · 2/(n+1) · Σ_{m=1}^{n} sin(mπxᵢ)(1 - cos(mπ))/(mπ)`, `xᵢ = (i+1)/(n+1)`. -/
theorem rectanglesine_weights_formula (n : ℕ) :
    RectangleRuleSineEndPoints.weights (K := ℝ) n = (List.range n).map fun (i : ℕ) =>
      (∑ m ∈ Finset.range n, (1 - Real.cos (((m + 1 : ℕ) : ℝ) * π)) / (((m + 1 : ℕ) : ℝ) * π) *
          Real.sin (((m + 1 : ℕ) : ℝ) * π * (((i + 1 : ℕ) : ℝ) / ((n + 1 : ℕ) : ℝ))))
        * (2 / ((n + 1 : ℕ) : ℝ)) * 2 := by
  unfold RectangleRuleSineEndPoints.weights
  simp only [Gen.OneD.RectangleRuleSineEndPoints.weightsLen, Nat.add_sub_cancel]
  apply List.map_congr_left
  intro i _
  simp only [Gen.OneD.RectangleRuleSineEndPoints.weightAt, Gen.OneD.RectangleRuleSineEndPoints.weights2,
    Gen.OneD.RectangleRuleSineEndPoints.weights1, Gen.OneD.RectangleRuleSineEndPoints.weights0,
    Gen.OneD.RectangleRuleSineEndPoints.bm0, Gen.OneD.RectangleRuleSineEndPoints.sim0,
    Gen.OneD.RectangleRuleSineEndPoints.m0, Gen.OneD.RectangleRuleSineEndPoints.points0,
    gsum_eq, Nat.add_sub_cancel, Elem.cos, Elem.sin, Elem.pi, Nat.cast_ofNat, Nat.cast_one, Nat.add_comm 1]
  push_cast
  rfl

/-! ### Trefethen polynomial transformations of a rule on `[-1, 1]` -/

private theorem map_shape (φ : ℝ → ℝ) (hφ : StrictMono φ) (h1 : φ 1 = 1) (hm1 : φ (-1) = -1)
    (P : List ℝ) (hasc : P.Pairwise (· < ·)) (hdom : ∀ x ∈ P, -1 ≤ x ∧ x ≤ 1) :
    (P.map φ).Pairwise (· < ·) ∧ ∀ x ∈ P.map φ, -1 ≤ x ∧ x ≤ 1 := by
  refine ⟨hasc.map φ (fun a b h => hφ h), ?_⟩
  intro x hx
  obtain ⟨y, hy, rfl⟩ := List.mem_map.mp hx
  have := hdom y hy
  exact ⟨hm1 ▸ hφ.monotone this.1, h1 ▸ hφ.monotone this.2⟩

/-- **TrefethenCC / TrefethenGC2 / TrefethenGeneral**: for `d ∈ {1, 5, 9}` and every base rule with `n`
ascending nodes in `[-1, 1]`, the transformed rule is accepted, has `n` nodes `g(xᵢ)` in ascending
order inside `[-1, 1]` and weights `g'(xᵢ)·wᵢ` (`g = id, _g2, _g3`, `g' = 1, _derg2, _derg3`). -/
theorem trefethen_poly_shape (d : ℤ) (hd : d = 1 ∨ d = 5 ∨ d = 9) (g : Grid1D ℝ) (n : ℕ)
    (hP : g.points.length = n) (hW : g.weights.length = n) (hasc : g.points.Pairwise (· < ·))
    (hdom : ∀ x ∈ g.points, -1 ≤ x ∧ x ≤ 1) :
    ∃ φ φ' : ℝ → ℝ,
      (φ, φ') = (if d = 1 then (id, fun _ => 1) else if d = 5 then (Gen.OneD.g2, Gen.OneD.derg2)
        else (Gen.OneD.g3, Gen.OneD.derg3)) ∧
      ClosedShape (trefPolyGrid d g) (g.points.map φ)
        (List.zipWith (fun x w => φ' x * w) g.points g.weights) (-1) (some 1) n := by
  have fin : ∀ (φ φ' : ℝ → ℝ), StrictMono φ → φ 1 = 1 → φ (-1) = -1 →
      trefPolyGrid d g = oneDGrid (g.points.map φ)
        (List.zipWith (fun x w => φ' x * w) g.points g.weights) (-1) (some 1) →
      ClosedShape (trefPolyGrid d g) (g.points.map φ)
        (List.zipWith (fun x w => φ' x * w) g.points g.weights) (-1) (some 1) n := by
    intro φ φ' hφ h1 hm1 hres
    obtain ⟨ha, hb⟩ := map_shape φ hφ h1 hm1 g.points hasc hdom
    rw [hres]
    apply closedShape_of
    · simp [hP]
    · simp [hP, hW]
    · exact ha
    · intro x hx
      exact ⟨(hb x hx).1, fun b hb' => by
        have : b = 1 := (Option.some.inj hb').symm
        subst this; exact (hb x hx).2⟩
  rcases hd with rfl | rfl | rfl
  · refine ⟨id, fun _ => 1, by simp, fin id (fun _ => 1) strictMono_id rfl rfl ?_⟩
    unfold trefPolyGrid trefPoly
    simp only [if_true, negOne_real, one_real, List.map_id]
    congr 1
    apply List.ext_getElem
    · simp [hP, hW]
    · intro i h1 h2; simp
  · refine ⟨Gen.OneD.g2, Gen.OneD.derg2, by simp, fin _ _ g2_strictMono g2_endpoints.1 g2_endpoints.2 ?_⟩
    unfold trefPolyGrid trefPoly
    simp only [show ¬ ((5 : ℤ) = 1) by decide, if_false, if_true, negOne_real, one_real]
  · refine ⟨Gen.OneD.g3, Gen.OneD.derg3, by simp, fin _ _ g3_strictMono g3_endpoints.1 g3_endpoints.2 ?_⟩
    unfold trefPolyGrid trefPoly
    simp only [show ¬ ((9 : ℤ) = 1) by decide, show ¬ ((9 : ℤ) = 5) by decide, if_false, if_true,
      negOne_real, one_real]

/-- other values of `d` are rejected. -/
theorem trefethen_poly_reject (d : ℤ) (hd : d ≠ 1 ∧ d ≠ 5 ∧ d ≠ 9) (g : Grid1D ℝ) :
    trefPolyGrid d g = .error .valueError := by
  unfold trefPolyGrid trefPoly
  simp [hd.1, hd.2.1, hd.2.2]

/-- **TrefethenCC(n, d)**, every `n ≥ 2`, `d ∈ {1, 5, 9}`. -/
theorem trefethencc_shape (n : ℕ) (hn : 2 ≤ n) (d : ℤ) (hd : d = 1 ∨ d = 5 ∨ d = 9) :
    ∃ P W, ClosedShape (TrefethenCC.make (n : ℤ) d) P W (-1) (some 1) n := by
  obtain ⟨hok, h1, h2, h3, h4⟩ := clenshawcurtis_shape n hn
  obtain ⟨φ, φ', -, hs⟩ := trefethen_poly_shape d hd
    ⟨ClenshawCurtis.points n, ClenshawCurtis.weights n, -1, some 1⟩ n h1 h2 h3
    (fun x hx => ⟨(h4 x hx).1, (h4 x hx).2 1 rfl⟩)
  refine ⟨(ClenshawCurtis.points n).map φ,
    List.zipWith (fun x w => φ' x * w) (ClenshawCurtis.points n) (ClenshawCurtis.weights n), ?_⟩
  unfold TrefethenCC.make
  rw [hok]
  exact hs

end GridVerif.C01

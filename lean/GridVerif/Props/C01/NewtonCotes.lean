/-
  C01, clause "each interpolatory rule on [-1,1] integrates all polynomials up to its nominal
  degree exactly": trapezoid and midpoint (degree ≤ 1), Simpson (degree ≤ 3, odd n), for every
  admissible n, about the constructors as regenerated entry by entry in `Gen/OneDFormulas.lean`
  (assembled by `Model/OneD.lean`) at `K = ℝ`.
-/
import GridVerif.Lemmas.OneD
import Mathlib.Tactic.FieldSimp
import Mathlib.Tactic.NormNum
import Mathlib.Tactic.IntervalCases

set_option linter.unusedSimpArgs false

namespace GridVerif.C01
open GridVerif GridVerif.OneD Finset Polynomial

/-! ### sums of powers -/

theorem sum_range_id_real (m : ℕ) : ∑ i ∈ range (m + 1), (i : ℝ) = m * (m + 1) / 2 := by
  induction m with
  | zero => simp
  | succ m ih => rw [sum_range_succ, ih]; push_cast; ring

theorem sum_range_odd_real (n : ℕ) : ∑ i ∈ range n, ((2 * i + 1 : ℕ) : ℝ) = (n : ℝ) ^ 2 := by
  induction n with
  | zero => simp
  | succ m ih => rw [sum_range_succ, ih]; push_cast; ring

/-- end-point correction: a sum with both end terms halved -/
theorem sum_halved_ends (m : ℕ) (hm : 1 ≤ m) (c : ℝ) (g : ℕ → ℝ) :
    ∑ i ∈ range (m + 1),
      (if i = m then (if i = 0 then c / 2 else c) / 2 else (if i = 0 then c / 2 else c)) * g i
      = c * (∑ i ∈ range (m + 1), g i) - c / 2 * g 0 - c / 2 * g m := by
  have h : ∀ i ∈ range (m + 1),
      (if i = m then (if i = 0 then c / 2 else c) / 2 else (if i = 0 then c / 2 else c)) * g i
      = c * g i - (if i = 0 then c / 2 * g 0 else 0) - (if i = m then c / 2 * g m else 0) := by
    intro i _
    by_cases h0 : i = 0
    · have : i ≠ m := by omega
      subst h0; simp [this]; ring
    · by_cases h1 : i = m
      · subst h1; simp [h0]; ring
      · simp [h0, h1]
  rw [sum_congr rfl h, sum_sub_distrib, sum_sub_distrib, ← mul_sum, sum_ite_eq', sum_ite_eq']
  simp

/-! ### trapezoid -/

theorem trapezoid_weights_eq (m : ℕ) :
    Trapezoidal.weights (K := ℝ) (m + 1) = (List.range (m + 1)).map fun i =>
      (if i = m then (if i = 0 then (2 / (m : ℝ)) / 2 else 2 / (m : ℝ)) / 2
        else (if i = 0 then (2 / (m : ℝ)) / 2 else 2 / (m : ℝ))) := by
  unfold Trapezoidal.weights
  simp only [Gen.OneD.Trapezoidal.weightsLen]
  apply List.map_congr_left
  intro i _
  simp only [Gen.OneD.Trapezoidal.weightAt, Gen.OneD.Trapezoidal.weights2,
    Gen.OneD.Trapezoidal.weights1, Gen.OneD.Trapezoidal.weights0, Nat.add_sub_cancel, Nat.cast_ofNat,
    Nat.cast_one, Nat.cast_add, mul_one, add_sub_cancel_right]

theorem trapezoid_points_eq (m : ℕ) :
    Trapezoidal.points (K := ℝ) (m + 1) = (List.range (m + 1)).map fun (i : ℕ) =>
      (-1 + 2 * (i : ℝ) / (m : ℝ)) := by
  unfold Trapezoidal.points
  simp only [Gen.OneD.Trapezoidal.pointsLen]
  apply List.map_congr_left
  intro i _
  simp only [Gen.OneD.Trapezoidal.pointAt, Gen.OneD.Trapezoidal.points0,
    Nat.cast_ofNat, Nat.cast_one, Nat.cast_add, add_sub_cancel_right]

theorem trapezoid_monomial (m : ℕ) (hm : 1 ≤ m) (k : ℕ) (hk : k ≤ 1) :
    quad (Trapezoidal.weights (m + 1)) (Trapezoidal.points (m + 1)) (fun x => x ^ k)
      = ∫ x in (-1 : ℝ)..1, x ^ k := by
  have hm0 : (m : ℝ) ≠ 0 := by positivity
  rw [trapezoid_weights_eq, trapezoid_points_eq, quad_map_range, sum_halved_ends m hm, integral_pow]
  interval_cases k
  · simp; field_simp; ring
  · simp only [pow_one, Nat.cast_zero, mul_zero, zero_div, add_zero]
    rw [sum_add_distrib, sum_const, card_range, ← sum_div, ← mul_sum, sum_range_id_real]
    field_simp; ring

/-- **C01 (trapezoid).** For every admissible number of points `n ≥ 2` the trapezoid rule as coded
integrates every polynomial of degree ≤ 1 exactly over `[-1, 1]`. -/
theorem trapezoid_exact (n : ℕ) (hn : 2 ≤ n) (p : ℝ[X]) (hp : p.natDegree ≤ 1) :
    quad (Trapezoidal.weights n) (Trapezoidal.points n) (fun x => p.eval x)
      = ∫ x in (-1 : ℝ)..1, p.eval x := by
  obtain ⟨m, rfl⟩ : ∃ m, n = m + 1 := ⟨n - 1, by omega⟩
  exact quad_poly_of_monomials _ _ 1 _ _ (fun k hk => trapezoid_monomial m (by omega) k hk) p hp

/-- non-vacuity: `n = 4`, `p = 3 + 5 X` (both sides equal 6). -/
example : quad (Trapezoidal.weights 4) (Trapezoidal.points 4) (fun x => (C 3 + C 5 * X : ℝ[X]).eval x)
    = ∫ x in (-1 : ℝ)..1, (C 3 + C 5 * X : ℝ[X]).eval x :=
  trapezoid_exact 4 (by norm_num) _ (by
    refine (natDegree_add_le _ _).trans ?_
    simp only [natDegree_C, zero_le, sup_of_le_right]
    exact (natDegree_C_mul_le _ _).trans natDegree_X_le)

/-! ### midpoint -/

theorem midpoint_monomial (n : ℕ) (hn : 1 ≤ n) (k : ℕ) (hk : k ≤ 1) :
    quad (MidPoint.weights n) (MidPoint.points n) (fun x => x ^ k) = ∫ x in (-1 : ℝ)..1, x ^ k := by
  have hn0 : (n : ℝ) ≠ 0 := by positivity
  unfold MidPoint.weights MidPoint.points
  simp only [Gen.OneD.MidPoint.weightsLen, Gen.OneD.MidPoint.pointsLen]
  rw [quad_map_range, integral_pow]
  simp only [Gen.OneD.MidPoint.weightAt,
    Gen.OneD.MidPoint.pointAt, Gen.OneD.MidPoint.weights0, Gen.OneD.MidPoint.points0,
    Nat.cast_ofNat, Nat.cast_one]
  interval_cases k
  · simp; field_simp; norm_num
  · simp only [pow_one]
    rw [← mul_sum, sum_add_distrib, sum_const, card_range, ← sum_div]
    have h := sum_range_odd_real n
    push_cast at h
    rw [h]
    simp only [Nat.cast_ofNat, Nat.cast_one, nsmul_eq_mul]
    field_simp; ring

/-- **C01 (midpoint).** For every `n ≥ 2` the midpoint rule as coded integrates every polynomial
of degree ≤ 1 exactly over `[-1, 1]`. -/
theorem midpoint_exact (n : ℕ) (hn : 2 ≤ n) (p : ℝ[X]) (hp : p.natDegree ≤ 1) :
    quad (MidPoint.weights n) (MidPoint.points n) (fun x => p.eval x)
      = ∫ x in (-1 : ℝ)..1, p.eval x :=
  quad_poly_of_monomials _ _ 1 _ _ (fun k hk => midpoint_monomial n (by omega) k hk) p hp

example : quad (MidPoint.weights 5) (MidPoint.points 5) (fun x => (C 3 + C 5 * X : ℝ[X]).eval x)
    = ∫ x in (-1 : ℝ)..1, (C 3 + C 5 * X : ℝ[X]).eval x :=
  midpoint_exact 5 (by norm_num) _ (by
    refine (natDegree_add_le _ _).trans ?_
    simp only [natDegree_C, zero_le, sup_of_le_right]
    exact (natDegree_C_mul_le _ _).trans natDegree_X_le)

/-! ### Simpson -/

/-- Simpson pattern `2, 4, 2, 4, …` (before the end-point correction) -/
def simpE (i : ℕ) : ℝ := if i % 2 = 1 then 4 else 2

theorem simpE_sum_succ (m : ℕ) (g : ℕ → ℝ) :
    ∑ i ∈ range (2 * (m + 1) + 1), simpE i * g i
      = ∑ i ∈ range (2 * m + 1), simpE i * g i + 4 * g (2 * m + 1) + 2 * g (2 * m + 2) := by
  rw [show 2 * (m + 1) + 1 = 2 * m + 1 + 1 + 1 by ring, sum_range_succ, sum_range_succ]
  have h1 : simpE (2 * m + 1) = 4 := by unfold simpE; rw [if_pos (by omega)]
  have h2 : simpE (2 * m + 1 + 1) = 2 := by unfold simpE; rw [if_neg (by omega)]
  rw [h1, h2]

theorem simpE_pow0 (m : ℕ) : ∑ i ∈ range (2 * m + 1), simpE i * (1 : ℝ) = 6 * m + 2 := by
  induction m with
  | zero => simp [simpE]
  | succ m ih => rw [simpE_sum_succ, ih]; push_cast; ring

theorem simpE_pow1 (m : ℕ) : ∑ i ∈ range (2 * m + 1), simpE i * (i : ℝ) = 6 * m ^ 2 + 2 * m := by
  induction m with
  | zero => simp [simpE]
  | succ m ih => rw [simpE_sum_succ, ih]; push_cast; ring

theorem simpE_pow2 (m : ℕ) :
    ∑ i ∈ range (2 * m + 1), simpE i * (i : ℝ) ^ 2 = 8 * m ^ 3 + 4 * m ^ 2 := by
  induction m with
  | zero => simp [simpE]
  | succ m ih => rw [simpE_sum_succ, ih]; push_cast; ring

theorem simpE_pow3 (m : ℕ) :
    ∑ i ∈ range (2 * m + 1), simpE i * (i : ℝ) ^ 3 = 12 * m ^ 4 + 8 * m ^ 3 := by
  induction m with
  | zero => simp [simpE]
  | succ m ih => rw [simpE_sum_succ, ih]; push_cast; ring

/-- The slices `weights[1:n-1:2] *= 4`, `weights[2:n-1:2] *= 2` produce `1, 4, 2, 4, …, 4, 1`. -/
theorem simpson_weights_eq (m : ℕ) (hm : 1 ≤ m) :
    Simpson.weights (K := ℝ) (2 * m + 1) = (List.range (2 * m + 1)).map fun (i : ℕ) =>
      (1 / (3 * (m : ℝ))) *
        (simpE i - (if i = 0 then 1 else 0) - (if i = 2 * m then 1 else 0)) := by
  have hm0 : (m : ℝ) ≠ 0 := by positivity
  unfold Simpson.weights
  simp only [Gen.OneD.Simpson.weightsLen]
  apply List.map_congr_left
  intro i hi
  simp only [Gen.OneD.Simpson.weightAt, Gen.OneD.Simpson.weights2,
    Gen.OneD.Simpson.weights1, Gen.OneD.Simpson.weights0]
  have hi' : i < 2 * m + 1 := by simpa using hi
  have hb : ((2 : ℕ) : ℝ) * ((1 : ℕ) : ℝ) / (((3 : ℕ) : ℝ) * (((2 * m + 1 : ℕ) : ℝ) - ((1 : ℕ) : ℝ)))
      = 1 / (3 * (m : ℝ)) := by
    push_cast; field_simp; ring
  rw [hb]
  unfold simpE
  rcases Nat.even_or_odd' i with ⟨j, hj | hj⟩
  · -- even index
    by_cases h0 : i = 0
    · subst h0
      have : ¬ (0 = 2 * m) := by omega
      simp [this]
      ring
    · by_cases hl : i = 2 * m
      · have hm' : m ≠ 0 := by omega
        simp [hl, hm']
        ring
      · have h1 : ¬ (1 ≤ i ∧ i < 2 * m + 1 - 1 ∧ (i - 1) % 2 = 0) := by omega
        have h2 : (2 ≤ i ∧ i < 2 * m + 1 - 1 ∧ (i - 2) % 2 = 0) := by omega
        have h3 : ¬ (i % 2 = 1) := by omega
        rw [if_neg h1, if_pos h2, if_neg h3, if_neg h0, if_neg hl]
        push_cast; ring
  · -- odd index
    have h1 : (1 ≤ i ∧ i < 2 * m + 1 - 1 ∧ (i - 1) % 2 = 0) := by omega
    have h2 : ¬ (2 ≤ i ∧ i < 2 * m + 1 - 1 ∧ (i - 2) % 2 = 0) := by omega
    have h3 : i % 2 = 1 := by omega
    have h0 : ¬ i = 0 := by omega
    have hl : ¬ i = 2 * m := by omega
    rw [if_pos h1, if_neg h2, if_pos h3, if_neg h0, if_neg hl]
    push_cast; ring

theorem simpson_points_eq (m : ℕ) (hm : 1 ≤ m) :
    Simpson.points (K := ℝ) (2 * m + 1) = (List.range (2 * m + 1)).map fun (i : ℕ) =>
      (-1 + (i : ℝ) / (m : ℝ)) := by
  have hm0 : (m : ℝ) ≠ 0 := by positivity
  unfold Simpson.points
  simp only [Gen.OneD.Simpson.pointsLen]
  apply List.map_congr_left
  intro i _
  simp only [Gen.OneD.Simpson.pointAt, Gen.OneD.Simpson.points0, Gen.OneD.Simpson.idx0]
  push_cast; field_simp; ring

theorem simpson_sum (m : ℕ) (c : ℝ) (g : ℕ → ℝ) :
    ∑ i ∈ range (2 * m + 1),
      c * (simpE i - (if i = 0 then 1 else 0) - (if i = 2 * m then 1 else 0)) * g i
      = c * (∑ i ∈ range (2 * m + 1), simpE i * g i - g 0 - g (2 * m)) := by
  have h : ∀ i ∈ range (2 * m + 1),
      c * (simpE i - (if i = 0 then 1 else 0) - (if i = 2 * m then 1 else 0)) * g i
      = c * (simpE i * g i) - (if i = 0 then c * g 0 else 0) - (if i = 2 * m then c * g (2 * m) else 0) := by
    intro i _
    by_cases h0 : i = 0
    · subst h0; by_cases h1 : 0 = 2 * m <;> simp [h1] <;> ring
    · by_cases h1 : i = 2 * m
      · subst h1; simp [h0]; ring
      · simp [h0, h1]; ring
  rw [sum_congr rfl h, sum_sub_distrib, sum_sub_distrib, ← mul_sum, sum_ite_eq', sum_ite_eq']
  simp; ring

theorem simpson_monomial (m : ℕ) (hm : 1 ≤ m) (k : ℕ) (hk : k ≤ 3) :
    quad (Simpson.weights (2 * m + 1)) (Simpson.points (2 * m + 1)) (fun x => x ^ k)
      = ∫ x in (-1 : ℝ)..1, x ^ k := by
  have hm0 : (m : ℝ) ≠ 0 := by positivity
  rw [simpson_weights_eq m hm, simpson_points_eq m hm, quad_map_range, simpson_sum, integral_pow]
  have e0 := simpE_pow0 m
  have e1 := simpE_pow1 m
  have e2 := simpE_pow2 m
  have e3 := simpE_pow3 m
  simp only [mul_one] at e0
  interval_cases k
  · simp only [pow_zero, mul_one, e0]
    field_simp; ring
  · simp only [pow_one]
    have : ∀ i : ℕ, simpE i * (-1 + (i : ℝ) / m) = -(simpE i) + (1 / m) * (simpE i * i) := by
      intro i; field_simp
    simp only [this, sum_add_distrib, sum_neg_distrib, ← mul_sum, e0, e1]
    push_cast; field_simp; ring
  · have : ∀ i : ℕ, simpE i * (-1 + (i : ℝ) / m) ^ 2
        = simpE i - (2 / m) * (simpE i * i) + (1 / m ^ 2) * (simpE i * (i : ℝ) ^ 2) := by
      intro i; field_simp; ring
    simp only [this, sum_add_distrib, sum_sub_distrib, ← mul_sum, e0, e1, e2]
    push_cast; field_simp; ring
  · have : ∀ i : ℕ, simpE i * (-1 + (i : ℝ) / m) ^ 3
        = -(simpE i) + (3 / m) * (simpE i * i) - (3 / m ^ 2) * (simpE i * (i : ℝ) ^ 2)
          + (1 / m ^ 3) * (simpE i * (i : ℝ) ^ 3) := by
      intro i; field_simp; ring
    simp only [this, sum_add_distrib, sum_sub_distrib, sum_neg_distrib, ← mul_sum, e0, e1, e2, e3]
    push_cast; field_simp; ring

/-- **C01 (Simpson).** For every admissible (odd) number of points `n ≥ 3` the composite Simpson rule
as coded — including the strides `weights[1:n-1:2] *= 4`, `weights[2:n-1:2] *= 2` — integrates every
polynomial of degree ≤ 3 exactly over `[-1, 1]`. -/
theorem simpson_exact (n : ℕ) (hn : 2 ≤ n) (hodd : n % 2 = 1) (p : ℝ[X]) (hp : p.natDegree ≤ 3) :
    quad (Simpson.weights n) (Simpson.points n) (fun x => p.eval x)
      = ∫ x in (-1 : ℝ)..1, p.eval x := by
  obtain ⟨m, rfl⟩ : ∃ m, n = 2 * m + 1 := ⟨n / 2, by omega⟩
  exact quad_poly_of_monomials _ _ 3 _ _ (fun k hk => simpson_monomial m (by omega) k hk) p hp

/-- non-vacuity: `n = 7`, `p = X^3 + 2 X^2 + 1`. -/
example : quad (Simpson.weights 7) (Simpson.points 7) (fun x => (X ^ 3 + C 2 * X ^ 2 + C 1 : ℝ[X]).eval x)
    = ∫ x in (-1 : ℝ)..1, (X ^ 3 + C 2 * X ^ 2 + C 1 : ℝ[X]).eval x :=
  simpson_exact 7 (by norm_num) (by norm_num) _ (by
    refine (natDegree_add_le _ _).trans (max_le ((natDegree_add_le _ _).trans (max_le ?_ ?_)) ?_)
    · simp
    · exact (natDegree_C_mul_le _ _).trans (by simp)
    · simp)

end GridVerif.C01

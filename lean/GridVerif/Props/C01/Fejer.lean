/-
  C01, clause "Fejér-1 integrates all polynomials of degree ≤ n-1 exactly, for every n":
  the rule as coded in `FejerFirst.__init__` (list program `Model/OneD.lean`, series length,
  denominators and frequencies from `Gen/OneDFormulas.lean`).
  Also the negation witness for Fejér-2 (known finding) and the full statements that are not proved.
-/
import GridVerif.Lemmas.OneDCheb

namespace GridVerif.C01
open GridVerif GridVerif.OneD Finset Polynomial Polynomial.Chebyshev Real

/-- What the proof needs from the regenerated integer skeleton of `FejerFirst`:
the two arrays have the same length `J = nsum n`, the series runs over `j = 1..J` with
coefficient `2/(4j²-1)` and frequency `2j`, it does not alias (`2J ≤ n`) and it reaches every even
degree `≤ n-1` (`m/2 ≤ J`).  With the source as it is (`nsum = n // 2`) all of this holds; with the
series one term short (`n // 2 - 1`, the state before the repair) the last fact fails for odd `n`. -/
theorem fejer1_gen_facts (n : ℕ) :
    Gen.OneD.FejerFirst.bjLen n = Gen.OneD.FejerFirst.nsum n ∧
    Gen.OneD.FejerFirst.jLen n = Gen.OneD.FejerFirst.nsum n ∧
    Gen.OneD.FejerFirst.jOff n = 1 ∧
    (∀ j, Gen.OneD.FejerFirst.freq n j = 2 * j) ∧
    (∀ j, 1 ≤ j → ((Gen.OneD.FejerFirst.denom n j : ℕ) : ℝ) = 4 * (j : ℝ) ^ 2 - 1) ∧
    2 * Gen.OneD.FejerFirst.nsum n ≤ n ∧
    (∀ m, m < n → m % 2 = 0 → m / 2 ≤ Gen.OneD.FejerFirst.nsum n) := by
  refine ⟨rfl, rfl, rfl, fun _ => rfl, ?_, ?_, ?_⟩
  · intro j hj
    unfold Gen.OneD.FejerFirst.denom
    have : 1 ≤ 4 * j ^ 2 := by nlinarith
    push_cast [Nat.cast_sub this]
    ring
  · unfold Gen.OneD.FejerFirst.nsum; omega
  · intro m hm hm2; unfold Gen.OneD.FejerFirst.nsum; omega

theorem fejer1_theta_eq (n i : ℕ) : Gen.OneD.FejerFirst.theta (K := ℝ) n i = chebTheta n i := by
  simp only [Gen.OneD.FejerFirst.theta, chebTheta, Elem.pi, Nat.cast_ofNat, Nat.cast_one]

theorem fejer1_bj_eq (n : ℕ) :
    FejerFirst.bj (K := ℝ) n = (List.range (Gen.OneD.FejerFirst.nsum n)).map fun (l : ℕ) =>
      2 / (4 * ((l : ℝ) + 1) ^ 2 - 1) := by
  obtain ⟨h1, h2, h3, -, h5, -, -⟩ := fejer1_gen_facts n
  unfold FejerFirst.bj FejerFirst.js
  rw [h1, h2, h3, zipWith_map_range]
  apply List.map_congr_left
  intro l _
  rw [h5 (l + 1) (by omega)]
  simp only [Gen.OneD.FejerFirst.bjNum, Nat.cast_ofNat, Nat.cast_one]
  push_cast
  ring

theorem fejer1_cij_eq (n : ℕ) :
    FejerFirst.cij (K := ℝ) n = (List.range (Gen.OneD.FejerFirst.nsum n)).map fun (l : ℕ) =>
      (List.range n).map fun (i : ℕ) => cos (((2 * (l + 1) : ℕ) : ℝ) * chebTheta n i) := by
  obtain ⟨-, h2, h3, h4, -, -, -⟩ := fejer1_gen_facts n
  unfold FejerFirst.cij FejerFirst.js FejerFirst.theta
  rw [h2, h3, List.map_map]
  apply List.map_congr_left
  intro l _
  simp only [Function.comp, List.map_map]
  apply List.map_congr_left
  intro i _
  simp only [Function.comp, h4, fejer1_theta_eq, Gen.OneD.FejerFirst.trig, Elem.cos]

/-- the weights of the list program, in closed form (before the final reversal) -/
theorem fejer1_weights_eq (n : ℕ) :
    FejerFirst.weights (K := ℝ) n = ((List.range n).map fun (i : ℕ) =>
      (1 - ∑ l ∈ range (Gen.OneD.FejerFirst.nsum n),
          (2 / (4 * ((l : ℝ) + 1) ^ 2 - 1)) * cos (((2 * (l + 1) : ℕ) : ℝ) * chebTheta n i))
        * (2 / (n : ℝ))).reverse := by
  unfold FejerFirst.weights
  rw [fejer1_bj_eq, fejer1_cij_eq, vecMat_map_range]
  simp only [List.map_reverse, List.map_map]
  congr 1
  apply List.map_congr_left
  intro i _
  simp only [Function.comp, Nat.cast_ofNat, Nat.cast_one]

theorem fejer1_points_eq (n : ℕ) :
    FejerFirst.points (K := ℝ) n = ((List.range n).map fun (i : ℕ) => cos (chebTheta n i)).reverse := by
  unfold FejerFirst.points FejerFirst.theta
  simp only [List.map_map]
  congr 1
  apply List.map_congr_left
  intro i _
  simp [fejer1_theta_eq, Elem.cos]

theorem split_aux (J : ℕ) (a y : ℕ → ℝ) (c x : ℝ) :
    (1 - ∑ l ∈ range J, a l * y l) * c * x = c * (x - ∑ l ∈ range J, a l * (y l * x)) := by
  rw [show (1 - ∑ l ∈ range J, a l * y l) * c * x = c * (x - (∑ l ∈ range J, a l * y l) * x) by ring,
    sum_mul]
  simp only [mul_assoc]

/-- **Fejér-1 on the Chebyshev basis**: for every `n ≥ 1` and every `m ≤ n-1`,
`Σₖ wₖ T_m(xₖ) = ∫_{-1}^{1} T_m`, for the weights and nodes the code computes
(cosine series with `Gen.FejerFirst.nsum n` terms). -/
theorem fejer1_exact_T (n : ℕ) (hn : 1 ≤ n) (m : ℕ) (hm : m < n) :
    quad (FejerFirst.weights n) (FejerFirst.points n) (fun x => (T ℝ m).eval x)
      = ∫ x in (-1 : ℝ)..1, (T ℝ m).eval x := by
  obtain ⟨-, -, -, -, -, hJ, hreach⟩ := fejer1_gen_facts n
  have hn0 : n ≠ 0 := by omega
  have hnr : (n : ℝ) ≠ 0 := by exact_mod_cast hn0
  rw [fejer1_weights_eq, fejer1_points_eq, quad_reverse _ _ (by simp), quad_map_range, integral_T]
  set J := Gen.OneD.FejerFirst.nsum n with hJdef
  simp only [T_real_cos, Int.cast_natCast]
  rw [sum_congr rfl (fun i _ => split_aux J (fun l => 2 / (4 * ((l : ℝ) + 1) ^ 2 - 1))
    (fun l => cos (((2 * (l + 1) : ℕ) : ℝ) * chebTheta n i)) (2 / (n : ℝ)) (cos ((m : ℝ) * chebTheta n i))),
    ← mul_sum, sum_sub_distrib, sum_comm]
  simp only [← mul_sum]
  have horth : ∀ l ∈ range J,
      ∑ i ∈ range n, cos (((2 * (l + 1) : ℕ) : ℝ) * chebTheta n i) * cos ((m : ℝ) * chebTheta n i)
        = if 2 * (l + 1) = m then (n : ℝ) / 2 else 0 := by
    intro l hl
    have : l < J := mem_range.mp hl
    exact sum_cos_mul_cos_theta hn0 (2 * (l + 1)) m (by omega) (by omega)
  have hsum : ∑ l ∈ range J, 2 / (4 * ((l : ℝ) + 1) ^ 2 - 1) *
        ∑ i ∈ range n, cos (((2 * (l + 1) : ℕ) : ℝ) * chebTheta n i) * cos ((m : ℝ) * chebTheta n i)
      = ∑ l ∈ range J, 2 / (4 * ((l : ℝ) + 1) ^ 2 - 1) * (if 2 * (l + 1) = m then (n : ℝ) / 2 else 0) :=
    sum_congr rfl (fun l hl => by rw [horth l hl])
  rw [hsum, sum_cos_theta hn0 m (by omega)]
  by_cases hm0 : m = 0
  · subst hm0
    have : ∀ l ∈ range J, (2 / (4 * ((l : ℝ) + 1) ^ 2 - 1)) * (if 2 * (l + 1) = 0 then (n : ℝ) / 2 else 0) = 0 := by
      intro l _; rw [if_neg (by omega)]; simp
    rw [sum_congr rfl this]
    simp
    field_simp
  · rw [if_neg hm0]
    by_cases hev : m % 2 = 0
    · -- even m ≥ 2: exactly the term l = m/2 - 1 survives
      have hl0 : m / 2 - 1 ∈ range J := by
        have := hreach m hm hev
        exact mem_range.mpr (by omega)
      rw [sum_eq_single (m / 2 - 1) (fun l _ hne => by rw [if_neg (by omega)]; simp)
        (fun h => absurd hl0 h), if_pos (by omega), if_pos hev]
      have hcast : ((m / 2 - 1 : ℕ) : ℝ) + 1 = (m : ℝ) / 2 := by
        have h2 : m / 2 - 1 + 1 = m / 2 := by omega
        have h3 : (m / 2) * 2 = m := by omega
        have : (((m / 2 - 1 + 1 : ℕ)) : ℝ) * 2 = (m : ℝ) := by rw [h2]; exact_mod_cast h3
        push_cast at this
        linarith
      rw [hcast]
      have hm2 : (2 : ℝ) ≤ m := by
        have : 2 ≤ m := by omega
        exact_mod_cast this
      rw [show 4 * ((m : ℝ) / 2) ^ 2 - 1 = (m : ℝ) ^ 2 - 1 by ring]
      have hne1 : ((m : ℝ) ^ 2 - 1) ≠ 0 := by nlinarith
      have hne2 : (1 - (m : ℝ) ^ 2) ≠ 0 := by nlinarith
      field_simp
      ring
    · have : ∀ l ∈ range J, (2 / (4 * ((l : ℝ) + 1) ^ 2 - 1)) * (if 2 * (l + 1) = m then (n : ℝ) / 2 else 0) = 0 := by
        intro l _; rw [if_neg (by omega)]; simp
      rw [sum_congr rfl this, if_neg hev]
      simp

/-- **C01 (Fejér-1).** For every admissible `n ≥ 2` the Fejér rule of the first kind as coded
integrates every polynomial of degree ≤ n-1 exactly over `[-1, 1]` (Chebyshev basis of the
polynomials of degree < n, Mathlib's `Polynomial.Sequence.span_degreeLT`). -/
theorem fejer1_exact (n : ℕ) (hn : 2 ≤ n) (p : ℝ[X]) (hp : p.natDegree < n) :
    quad (FejerFirst.weights n) (FejerFirst.points n) (fun x => p.eval x)
      = ∫ x in (-1 : ℝ)..1, p.eval x := by
  have hdeg : p.degree < n := by
    by_cases h0 : p = 0
    · subst h0; simp
    · rw [degree_eq_natDegree h0]; exact_mod_cast hp
  have hmem : p ∈ degreeLT ℝ n := by rwa [mem_degreeLT]
  rw [← Sequence.span_degreeLT (chebyshevTsequence ℝ) (by simp),
    show Set.Iio n = Finset.range n by simp,
    Submodule.mem_span_image_finset_iff_exists_fun'] at hmem
  obtain ⟨c, rfl⟩ := hmem
  simp only [eval_finsetSum, eval_smul, smul_eq_mul]
  rw [quad_finset_sum, intervalIntegral.integral_finsetSum]
  · apply Finset.sum_congr rfl
    intro i hi
    rw [intervalIntegral.integral_const_mul]
    congr 1
    exact fejer1_exact_T n (by omega) i (mem_range.mp hi)
  · intro i _
    exact (Continuous.intervalIntegrable (by fun_prop) _ _)

/-- non-vacuity: `n = 5` (odd, the case the repaired series bound matters for), `p = X^4 + X`. -/
example : quad (FejerFirst.weights 5) (FejerFirst.points 5) (fun x => (X ^ 4 + X : ℝ[X]).eval x)
    = ∫ x in (-1 : ℝ)..1, (X ^ 4 + X : ℝ[X]).eval x :=
  fejer1_exact 5 (by norm_num) _ (by
    have : (X ^ 4 + X : ℝ[X]).natDegree ≤ 4 :=
      (natDegree_add_le _ _).trans (max_le (by simp) (by simp))
    omega)

/-! ### Fejér-2 (known finding) -/

/-- Full statement for Fejér-2 (degree ≤ n-1 for every n ≥ 2).  **False for the code as it is**:
see `fejer2_fails_at_2` (n = 2) and, for every `n`, `Props/C01/Fejer2.lean` (`fejer2_code_not_exact`,
`fejer2_code_defect`; the rule with the complete series is exact: `fejer2_corrected_exact`). -/
def fejer2_exact_full : Prop :=
  ∀ n : ℕ, 2 ≤ n → ∀ p : ℝ[X], p.natDegree < n →
    quad (FejerSecond.weights n) (FejerSecond.points n) (fun x => p.eval x)
      = ∫ x in (-1 : ℝ)..1, p.eval x

/-- With the series length the source prescribes (`np.arange(nsum - 1)`, `nsum = (n + 1) // 2`)
the sine series of `FejerSecond(2)` is empty: both weights are 0. -/
theorem fejer2_weights_two : FejerSecond.weights (K := ℝ) 2 = [0, 0] := by
  have hJ : Gen.OneD.FejerSecond.jLen 2 = 0 := by decide
  have hB : Gen.OneD.FejerSecond.bjLen 2 = 0 := by decide
  simp [FejerSecond.weights, FejerSecond.bj, FejerSecond.sij, FejerSecond.js, FejerSecond.theta, hJ, hB,
    vecMat, List.range_succ]

/-- **Known finding, Lean side**: the Fejér-2 rule as coded is not exact on its polynomial
class — at `n = 2` it returns `0` for `∫_{-1}^{1} 1 dx = 2`. -/
theorem fejer2_fails_at_2 : ¬ fejer2_exact_full := by
  intro h
  have h2 := h 2 (le_refl 2) (C 1) (by simp)
  rw [fejer2_weights_two] at h2
  simp [quad, FejerSecond.points, FejerSecond.theta, List.range_succ] at h2
  norm_num at h2

end GridVerif.C01

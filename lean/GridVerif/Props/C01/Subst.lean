/-
  C01, clause "for variable-substitution rules the weights are step × derivative of the node map at
  each node; n nodes inside the declared domain in ascending order": TanhSinh, ExpSinh,
  LogExpSinh, ExpExp, SingleTanh, SingleExp, SingleArcSinhExp.
  The node and weight expressions and the index ranges are the regenerated `Gen/OneDFormulas.lean`;
  the node map of class `X` is `φ t = Gen.X.node t 1` (`Gen.X.node k h = φ (k·h)`, proved below).
-/
import GridVerif.Lemmas.OneDSubst

namespace GridVerif.C01
open GridVerif GridVerif.OneD Real
open Gen.OneD

/-! ### TanhSinh: `φ t = tanh (π/2 · sinh t)` on `(-1, 1)` -/

theorem tanhsinh_scale (k h : ℝ) : TanhSinh.node k h = TanhSinh.node (k * h) 1 := by
  simp [TanhSinh.node]

/-- weight = step × derivative of the node map at the node, for every index value and step. -/
theorem tanhsinh_weight_is_step_times_deriv (k h : ℝ) (hh : h ≠ 0) :
    HasDerivAt (fun t => TanhSinh.node t (1 : ℝ)) (TanhSinh.weight k h / h) (k * h) := by
  unfold TanhSinh.node TanhSinh.weight
  simp only [Nat.cast_one, Nat.cast_ofNat, Elem.tanh, Elem.sinh, Elem.cosh, Elem.pi, npow_eq_pow, mul_one]
  have h1 : HasDerivAt (fun t : ℝ => 1 / 2 * π * Real.sinh t) (1 / 2 * π * Real.cosh (k * h)) (k * h) :=
    (Real.hasDerivAt_sinh (k * h)).const_mul _
  have h2 := (hasDerivAt_tanh (1 / 2 * π * Real.sinh (k * h))).comp (k * h) h1
  refine h2.congr_deriv ?_
  have hc : Real.cosh (1 / 2 * π * Real.sinh (k * h)) ≠ 0 := (Real.cosh_pos _).ne'
  field_simp

theorem tanhsinh_strictMono : StrictMono fun t : ℝ => TanhSinh.node t (1 : ℝ) := by
  intro x y hxy
  simp only [TanhSinh.node, Nat.cast_one, Nat.cast_ofNat, Elem.tanh, Elem.sinh, Elem.pi, mul_one]
  apply tanh_strictMono
  exact mul_lt_mul_of_pos_left (Real.sinh_lt_sinh.mpr hxy) (by positivity)

theorem tanhsinh_in_domain (k h : ℝ) : -1 < TanhSinh.node k h ∧ TanhSinh.node k h < 1 := by
  simp only [TanhSinh.node, Elem.tanh]
  exact ⟨Real.neg_one_lt_tanh _, Real.tanh_lt_one _⟩

/-- `TanhSinh(n, δ)` for every admissible (odd, ≥ 3) `n = 2m+1` and `δ > 0`: accepted, `n` nodes and
weights, nodes strictly ascending and strictly inside `(-1, 1)`. -/
theorem tanhsinh_shape (m : ℕ) (hm : 1 ≤ m) (δ : ℝ) (hδ : 0 < δ) :
    OneD.TanhSinh.make ((2 * m + 1 : ℕ) : ℤ) δ
      = .ok ⟨OneD.TanhSinh.points (2 * m + 1) δ, OneD.TanhSinh.weights (2 * m + 1) δ, -1, some 1⟩ ∧
    (OneD.TanhSinh.points (2 * m + 1) δ).length = 2 * m + 1 ∧
    (OneD.TanhSinh.weights (2 * m + 1) δ).length = 2 * m + 1 ∧
    (OneD.TanhSinh.points (2 * m + 1) δ).Pairwise (· < ·) ∧
    (∀ x ∈ OneD.TanhSinh.points (2 * m + 1) δ, -1 < x ∧ x < 1) ∧
    Gen.OneD.TanhSinh.kFirst (2 * m + 1) = -(m : ℤ) := by
  have hlen : Gen.OneD.TanhSinh.kLen (2 * m + 1) = 2 * m + 1 := by
    unfold Gen.OneD.TanhSinh.kLen; exact Int.toNat_natCast _
  refine ⟨?_, ?_, ?_, ?_, ?_, ?_⟩
  · unfold OneD.TanhSinh.make
    have h2 : ¬ (((2 * m + 1 : ℕ) : ℤ) ≤ 1) := by omega
    have h3 : ¬ (((2 * m + 1 : ℕ) : ℤ) % 2 = 0) := by omega
    simp only [h2, h3, if_false, Int.toNat_natCast, negOne_real, one_real]
    apply oneDGrid_ok
    · simp [OneD.TanhSinh.points, OneD.TanhSinh.weights, substPoints, substWeights]
    · intro p hp
      simp only [OneD.TanhSinh.points, substPoints, List.mem_map] at hp
      obtain ⟨k, _, rfl⟩ := hp
      exact (tanhsinh_in_domain _ _).1.le
    · intro b hb p hp
      simp only [OneD.TanhSinh.points, substPoints, List.mem_map] at hp
      obtain ⟨k, _, rfl⟩ := hp
      have : b = 1 := (Option.some.inj hb).symm
      subst this
      exact (tanhsinh_in_domain (intCast k) δ).2.le
  · simp [OneD.TanhSinh.points, substPoints, indexValues, hlen]
  · simp [OneD.TanhSinh.weights, substWeights, indexValues, hlen]
  · exact substPoints_pairwise _ tanhsinh_scale tanhsinh_strictMono _ _ _ _ hδ
  · intro x hx
    simp only [OneD.TanhSinh.points, substPoints, List.mem_map] at hx
    obtain ⟨k, _, rfl⟩ := hx
    exact tanhsinh_in_domain _ _
  · unfold Gen.OneD.TanhSinh.kFirst
    exact tdiv_two' m

/-- non-vacuity: `TanhSinh(5, 1/10)`. -/
example : (OneD.TanhSinh.points (2 * 2 + 1) (1 / 10 : ℝ)).length = 5 :=
  (tanhsinh_shape 2 (by norm_num) (1 / 10) (by norm_num)).2.1

/-! ### ExpSinh: `φ t = exp (π sinh t / 2)` on `(0, ∞)` -/

theorem expsinh_scale (k h : ℝ) : ExpSinh.node k h = ExpSinh.node (k * h) 1 := by
  simp [ExpSinh.node]

theorem expsinh_weight_is_step_times_deriv (k h : ℝ) (hh : h ≠ 0) :
    HasDerivAt (fun t => ExpSinh.node t (1 : ℝ)) (ExpSinh.weight k h / h) (k * h) := by
  unfold ExpSinh.node ExpSinh.weight
  simp only [Nat.cast_ofNat, Elem.exp, Elem.sinh, Elem.cosh, Elem.pi, mul_one]
  have h1 : HasDerivAt (fun t : ℝ => π * Real.sinh t / 2) (π * Real.cosh (k * h) / 2) (k * h) :=
    ((Real.hasDerivAt_sinh (k * h)).const_mul π).div_const 2
  have h2 := (Real.hasDerivAt_exp (π * Real.sinh (k * h) / 2)).comp (k * h) h1
  refine h2.congr_deriv ?_
  field_simp

theorem expsinh_strictMono : StrictMono fun t : ℝ => ExpSinh.node t (1 : ℝ) := by
  intro x y hxy
  simp only [ExpSinh.node, Nat.cast_ofNat, Elem.exp, Elem.sinh, Elem.pi, mul_one]
  apply Real.exp_strictMono
  have := mul_lt_mul_of_pos_left (Real.sinh_lt_sinh.mpr hxy) Real.pi_pos
  linarith

theorem expsinh_pos (k h : ℝ) : 0 < ExpSinh.node k h := by
  simp only [ExpSinh.node, Elem.exp]; exact Real.exp_pos _

/-- `ExpSinh(n, h)` for every admissible (odd) `n = 2m+1 ≥ 1` and `h > 0`. -/
theorem expsinh_shape (m : ℕ) (h : ℝ) (hh : 0 < h) :
    SubstShape ExpSinh.node ExpSinh.weight ExpSinh.kFirst ExpSinh.kLen 0 none m h :=
  subst_shape ExpSinh.node ExpSinh.weight ExpSinh.kFirst ExpSinh.kLen 0 none expsinh_scale
    expsinh_strictMono expsinh_pos (fun _ hb => by cases hb) m
    (by unfold ExpSinh.kLen; rw [tdiv_two]; omega) h hh

/-! ### LogExpSinh: `φ t = log (exp (π sinh t / 2) + 1)` on `(0, ∞)` -/

theorem logexpsinh_scale (k h : ℝ) : LogExpSinh.node k h = LogExpSinh.node (k * h) 1 := by
  simp [LogExpSinh.node]

theorem logexpsinh_weight_is_step_times_deriv (k h : ℝ) (hh : h ≠ 0) :
    HasDerivAt (fun t => LogExpSinh.node t (1 : ℝ)) (LogExpSinh.weight k h / h) (k * h) := by
  unfold LogExpSinh.node LogExpSinh.weight
  simp only [Nat.cast_ofNat, Nat.cast_one, Elem.exp, Elem.log, Elem.sinh, Elem.cosh, Elem.pi, mul_one]
  have h1 : HasDerivAt (fun t : ℝ => π * Real.sinh t / 2) (π * Real.cosh (k * h) / 2) (k * h) :=
    ((Real.hasDerivAt_sinh (k * h)).const_mul π).div_const 2
  have h2 := ((Real.hasDerivAt_exp (π * Real.sinh (k * h) / 2)).comp (k * h) h1).add_const (1 : ℝ)
  have hpos : Real.exp (π * Real.sinh (k * h) / 2) + 1 ≠ 0 := by positivity
  have h3 := h2.log hpos
  refine h3.congr_deriv ?_
  simp only [Function.comp]
  field_simp

theorem logexpsinh_strictMono : StrictMono fun t : ℝ => LogExpSinh.node t (1 : ℝ) := by
  intro x y hxy
  simp only [LogExpSinh.node, Nat.cast_ofNat, Nat.cast_one, Elem.exp, Elem.log, Elem.sinh, Elem.pi, mul_one]
  apply Real.log_lt_log (by positivity)
  have := mul_lt_mul_of_pos_left (Real.sinh_lt_sinh.mpr hxy) Real.pi_pos
  have := Real.exp_strictMono (show π * Real.sinh x / 2 < π * Real.sinh y / 2 by linarith)
  linarith

theorem logexpsinh_pos (k h : ℝ) : 0 < LogExpSinh.node k h := by
  simp only [LogExpSinh.node, Elem.exp, Elem.log, Nat.cast_one]
  apply Real.log_pos
  have := Real.exp_pos (Elem.pi * Elem.sinh (k * h) / ((2 : ℕ) : ℝ))
  linarith

/-- `LogExpSinh(n, h)` for every admissible (odd) `n = 2m+1 ≥ 1` and `h > 0`. -/
theorem logexpsinh_shape (m : ℕ) (h : ℝ) (hh : 0 < h) :
    SubstShape LogExpSinh.node LogExpSinh.weight LogExpSinh.kFirst LogExpSinh.kLen 0 none m h :=
  subst_shape LogExpSinh.node LogExpSinh.weight LogExpSinh.kFirst LogExpSinh.kLen 0 none
    logexpsinh_scale logexpsinh_strictMono logexpsinh_pos (fun _ hb => by cases hb) m
    (by unfold LogExpSinh.kLen; rw [tdiv_two]; omega) h hh

/-! ### ExpExp: `φ t = exp t · exp (-exp (-t))` on `(0, ∞)` -/

theorem expexp_scale (k h : ℝ) : ExpExp.node k h = ExpExp.node (k * h) 1 := by
  simp [ExpExp.node]

theorem expexp_weight_is_step_times_deriv (k h : ℝ) (hh : h ≠ 0) :
    HasDerivAt (fun t => ExpExp.node t (1 : ℝ)) (ExpExp.weight k h / h) (k * h) := by
  unfold ExpExp.node ExpExp.weight
  simp only [Nat.cast_one, Elem.exp, mul_one]
  have h0 : HasDerivAt (fun t : ℝ => -t) (-1) (k * h) := hasDerivAt_neg _
  have h1 : HasDerivAt (fun t : ℝ => Real.exp (-t)) (Real.exp (-(k * h)) * (-1)) (k * h) := h0.exp
  have h1' : HasDerivAt (fun t : ℝ => -Real.exp (-t)) (-(Real.exp (-(k * h)) * (-1))) (k * h) := h1.neg
  have h2 : HasDerivAt (fun t : ℝ => Real.exp (-Real.exp (-t)))
      (Real.exp (-Real.exp (-(k * h))) * (-(Real.exp (-(k * h)) * (-1)))) (k * h) := h1'.exp
  have h3 := (Real.hasDerivAt_exp (k * h)).mul h2
  refine h3.congr_deriv ?_
  have e : Real.exp (k * h) * Real.exp (-(k * h)) = 1 := by rw [← Real.exp_add]; simp
  rw [show -k * h = -(k * h) by ring]
  field_simp
  linear_combination e

theorem expexp_strictMono : StrictMono fun t : ℝ => ExpExp.node t (1 : ℝ) := by
  intro x y hxy
  simp only [ExpExp.node, Elem.exp, mul_one]
  rw [← Real.exp_add, ← Real.exp_add]
  apply Real.exp_strictMono
  have : Real.exp (-y) < Real.exp (-x) := Real.exp_strictMono (by linarith)
  linarith

theorem expexp_pos (k h : ℝ) : 0 < ExpExp.node k h := by
  simp only [ExpExp.node, Elem.exp]; positivity

/-- `ExpExp(n, h)` for every admissible (odd) `n = 2m+1 ≥ 1` and `h > 0`. -/
theorem expexp_shape (m : ℕ) (h : ℝ) (hh : 0 < h) :
    SubstShape ExpExp.node ExpExp.weight ExpExp.kFirst ExpExp.kLen 0 none m h :=
  subst_shape ExpExp.node ExpExp.weight ExpExp.kFirst ExpExp.kLen 0 none
    expexp_scale expexp_strictMono expexp_pos (fun _ hb => by cases hb) m
    (by unfold ExpExp.kLen; rw [tdiv_two]; omega) h hh

/-! ### SingleTanh: `φ t = tanh t` on `(-1, 1)` -/

theorem singletanh_scale (k h : ℝ) : SingleTanh.node k h = SingleTanh.node (k * h) 1 := by
  simp [SingleTanh.node]

theorem singletanh_weight_is_step_times_deriv (k h : ℝ) (hh : h ≠ 0) :
    HasDerivAt (fun t => SingleTanh.node t (1 : ℝ)) (SingleTanh.weight k h / h) (k * h) := by
  unfold SingleTanh.node SingleTanh.weight
  simp only [Elem.tanh, Elem.cosh, npow_eq_pow, mul_one]
  refine (hasDerivAt_tanh (k * h)).congr_deriv ?_
  have hc : Real.cosh (k * h) ≠ 0 := (Real.cosh_pos _).ne'
  field_simp

theorem singletanh_strictMono : StrictMono fun t : ℝ => SingleTanh.node t (1 : ℝ) := by
  intro x y hxy
  simp only [SingleTanh.node, Elem.tanh, mul_one]
  exact tanh_strictMono hxy

/-- `SingleTanh(n, h)` for every admissible (odd) `n = 2m+1 ≥ 1` and `h > 0`. -/
theorem singletanh_shape (m : ℕ) (h : ℝ) (hh : 0 < h) :
    SubstShape SingleTanh.node SingleTanh.weight SingleTanh.kFirst SingleTanh.kLen (-1) (some 1) m h :=
  subst_shape SingleTanh.node SingleTanh.weight SingleTanh.kFirst SingleTanh.kLen (-1) (some 1)
    singletanh_scale singletanh_strictMono
    (fun k h => by simp only [SingleTanh.node, Elem.tanh]; exact Real.neg_one_lt_tanh _)
    (fun b hb k h => by
      have : b = 1 := (Option.some.inj hb).symm
      subst this
      simp only [SingleTanh.node, Elem.tanh]; exact Real.tanh_lt_one _) m
    (by unfold SingleTanh.kLen; rw [tdiv_two]; omega) h hh

/-! ### SingleExp: `φ t = exp t` on `(0, ∞)` -/

theorem singleexp_scale (k h : ℝ) : SingleExp.node k h = SingleExp.node (k * h) 1 := by
  simp [SingleExp.node]

theorem singleexp_weight_is_step_times_deriv (k h : ℝ) (hh : h ≠ 0) :
    HasDerivAt (fun t => SingleExp.node t (1 : ℝ)) (SingleExp.weight k h / h) (k * h) := by
  unfold SingleExp.node SingleExp.weight
  simp only [Elem.exp, mul_one]
  refine (Real.hasDerivAt_exp (k * h)).congr_deriv ?_
  field_simp

theorem singleexp_strictMono : StrictMono fun t : ℝ => SingleExp.node t (1 : ℝ) := by
  intro x y hxy
  simp only [SingleExp.node, Elem.exp, mul_one]
  exact Real.exp_strictMono hxy

/-- `SingleExp(n, h)` for every admissible (odd) `n = 2m+1 ≥ 1` and `h > 0`. -/
theorem singleexp_shape (m : ℕ) (h : ℝ) (hh : 0 < h) :
    SubstShape SingleExp.node SingleExp.weight SingleExp.kFirst SingleExp.kLen 0 none m h :=
  subst_shape SingleExp.node SingleExp.weight SingleExp.kFirst SingleExp.kLen 0 none
    singleexp_scale singleexp_strictMono
    (fun k h => by simp only [SingleExp.node, Elem.exp]; exact Real.exp_pos _)
    (fun _ hb => by cases hb) m
    (by unfold SingleExp.kLen; rw [tdiv_two]; omega) h hh

/-! ### SingleArcSinhExp: `φ t = arsinh (exp t)` on `(0, ∞)` -/

theorem singlearcsinhexp_scale (k h : ℝ) :
    SingleArcSinhExp.node k h = SingleArcSinhExp.node (k * h) 1 := by
  simp [SingleArcSinhExp.node]

theorem singlearcsinhexp_weight_is_step_times_deriv (k h : ℝ) (hh : h ≠ 0) :
    HasDerivAt (fun t => SingleArcSinhExp.node t (1 : ℝ)) (SingleArcSinhExp.weight k h / h) (k * h) := by
  unfold SingleArcSinhExp.node SingleArcSinhExp.weight
  simp only [Nat.cast_ofNat, Nat.cast_one, Elem.exp, Elem.arcsinh, Elem.sqrt, mul_one]
  have h2 := (Real.hasDerivAt_arsinh (Real.exp (k * h))).comp (k * h) (Real.hasDerivAt_exp (k * h))
  refine h2.congr_deriv ?_
  have e : Real.exp (2 * h * k) = Real.exp (k * h) ^ 2 := by
    rw [← Real.exp_nat_mul]; congr 1; push_cast; ring
  rw [e, add_comm (Real.exp (k * h) ^ 2) 1]
  have hs : Real.sqrt (1 + Real.exp (k * h) ^ 2) ≠ 0 := by positivity
  field_simp

theorem singlearcsinhexp_strictMono : StrictMono fun t : ℝ => SingleArcSinhExp.node t (1 : ℝ) := by
  intro x y hxy
  simp only [SingleArcSinhExp.node, Elem.exp, Elem.arcsinh, mul_one]
  exact Real.arsinh_strictMono (Real.exp_strictMono hxy)

/-- `SingleArcSinhExp(n, h)` for every admissible (odd) `n = 2m+1 ≥ 1` and `h > 0`. -/
theorem singlearcsinhexp_shape (m : ℕ) (h : ℝ) (hh : 0 < h) :
    SubstShape SingleArcSinhExp.node SingleArcSinhExp.weight SingleArcSinhExp.kFirst SingleArcSinhExp.kLen 0 none m h :=
  subst_shape SingleArcSinhExp.node SingleArcSinhExp.weight SingleArcSinhExp.kFirst
    SingleArcSinhExp.kLen 0 none singlearcsinhexp_scale singlearcsinhexp_strictMono
    (fun k h => by
      simp only [SingleArcSinhExp.node, Elem.exp, Elem.arcsinh]
      exact Real.arsinh_pos_iff.mpr (Real.exp_pos _))
    (fun _ hb => by cases hb) m
    (by unfold SingleArcSinhExp.kLen; rw [tdiv_two]; omega) h hh

/-- non-vacuity of the hypotheses `h ≠ 0`, `0 < h`, odd `n`: `ExpSinh(7, 1/2)`, index value `k = -3`. -/
example : HasDerivAt (fun t => ExpSinh.node t (1 : ℝ)) (ExpSinh.weight (-3) (1 / 2) / (1 / 2)) (-3 * (1 / 2)) :=
  expsinh_weight_is_step_times_deriv (-3) (1 / 2) (by norm_num)
example : (substPoints ExpSinh.node ExpSinh.kFirst ExpSinh.kLen (2 * 3 + 1) (1 / 2 : ℝ)).length = 7 :=
  (expsinh_shape 3 (1 / 2) (by norm_num)).2.1

end GridVerif.C01

/-
  C01, class "inputs next to every hard-coded threshold" (round 3): the documented windows and guards of the
  constructors, stated about the *regenerated* text.

  * `OneDGrid.__init__` (`Gen.OneD.OneDGrid.init`): a grid is accepted exactly when every point lies in
    `[lo - 1e-7, hi + 1e-7]` (and the arrays have equal length) — the `1e-7` is the regenerated constant, the
    comparisons are the regenerated ones (strict), so a point exactly `1e-7` outside is still accepted and
    anything farther is a `ValueError`; `domain=None` switches the check off; an empty point array with a
    domain and a descending domain are `ValueError`s.
  * every `npoints` guard: the regenerated constructors accept exactly the admissible sizes (`npoints ≥ 2`;
    Simpson and Tanh-Sinh additionally odd; the six other substitution rules odd `npoints ≥ 1` and `h > 0`).
-/
import GridVerif.Props.C01.CtorSeries
import GridVerif.Props.C01.Shape
import GridVerif.Props.C01.Subst

set_option linter.unusedSimpArgs false

namespace GridVerif.C01
open GridVerif GridVerif.OneD GridVerif.OneD.Py

/-- **The regenerated `OneDGrid.__init__` is the model's domain check** (non-empty points, `lo ≤ hi`). -/
theorem onedgrid_init_eq_model (P W : List ℝ) (lo : ℝ) (hi : Option ℝ) (hne : P ≠ [])
    (hord : ∀ b, hi = some b → lo ≤ b) :
    Gen.OneD.OneDGrid.init P W (some ⟨lo, hi⟩) = (oneDGrid P W lo hi).map Grid1D.toPy :=
  init_eq_model P W lo hi hne hord

theorem oneDGrid_cases (P W : List ℝ) (lo : ℝ) (hi : Option ℝ) :
    (∃ g, oneDGrid P W lo hi = .ok g) ∨ oneDGrid P W lo hi = .error .valueError := by
  unfold oneDGrid
  simp only []
  split_ifs
  · exact Or.inr rfl
  · exact Or.inr rfl
  · exact Or.inr rfl
  · exact Or.inl ⟨_, rfl⟩

theorem oneDGrid_ok_iff (P W : List ℝ) (lo : ℝ) (hi : Option ℝ) (g : Grid1D ℝ) :
    oneDGrid P W lo hi = .ok g ↔
      (g = ⟨P, W, lo, hi⟩ ∧ P.length = W.length ∧ (∀ p ∈ P, lo - 1e-7 ≤ p) ∧
        ∀ b, hi = some b → ∀ p ∈ P, p ≤ b + 1e-7) := by
  have hs : ((1 : ℕ) : ℝ) / ((10000000 : ℕ) : ℝ) = 1e-7 := by norm_num
  have hA : (P.any fun p => decide (lo - 1e-7 > p)) = true ↔ ¬ ∀ p ∈ P, lo - 1e-7 ≤ p := by
    rw [List.any_eq_true]
    push Not
    constructor
    · rintro ⟨p, hp, hd⟩; exact ⟨p, hp, of_decide_eq_true hd⟩
    · rintro ⟨p, hp, hd⟩; exact ⟨p, hp, decide_eq_true hd⟩
  have hB : ∀ b : ℝ, (P.any fun p => decide (b + 1e-7 < p)) = true ↔ ¬ ∀ p ∈ P, p ≤ b + 1e-7 := by
    intro b
    rw [List.any_eq_true]
    push Not
    constructor
    · rintro ⟨p, hp, hd⟩; exact ⟨p, hp, of_decide_eq_true hd⟩
    · rintro ⟨p, hp, hd⟩; exact ⟨p, hp, decide_eq_true hd⟩
  unfold oneDGrid
  simp only [hs]
  by_cases hlo : ∀ p ∈ P, lo - 1e-7 ≤ p
  · rw [if_neg (fun h => hA.mp h hlo)]
    have key : ∀ (c : Prop) [Decidable c], (c ↔ ¬ ∀ b, hi = some b → ∀ p ∈ P, p ≤ b + 1e-7) →
        ((if c then (Except.error Err.valueError : Except Err (Grid1D ℝ))
          else if P.length ≠ W.length then Except.error Err.valueError else Except.ok ⟨P, W, lo, hi⟩) = .ok g ↔
        (g = ⟨P, W, lo, hi⟩ ∧ P.length = W.length ∧ (∀ p ∈ P, lo - 1e-7 ≤ p) ∧
          ∀ b, hi = some b → ∀ p ∈ P, p ≤ b + 1e-7)) := by
      intro c _ hc
      by_cases hcc : c
      · rw [if_pos hcc]
        constructor
        · intro h; cases h
        · rintro ⟨-, -, -, h4⟩; exact absurd h4 (hc.mp hcc)
      · rw [if_neg hcc]
        have h4 : ∀ b, hi = some b → ∀ p ∈ P, p ≤ b + 1e-7 := by
          by_contra h4; exact hcc (hc.mpr h4)
        by_cases hl : P.length = W.length
        · rw [if_neg (fun h => h hl)]
          constructor
          · intro h; cases h; exact ⟨rfl, hl, hlo, h4⟩
          · rintro ⟨h, -⟩; rw [h]
        · rw [if_pos hl]
          constructor
          · intro h; cases h
          · rintro ⟨-, h, -⟩; exact absurd h hl
    apply key
    cases hi with
    | none =>
      simp only [Bool.false_eq_true, false_iff, not_not]
      intro b hb; cases hb
    | some b =>
      simp only [hB b, Option.some.injEq, forall_eq']
  · have h1 : (P.any fun p => decide (lo - 1e-7 > p)) = true := hA.mpr hlo
    rw [if_pos h1]
    constructor
    · intro h; cases h
    · rintro ⟨-, -, h3, -⟩; exact absurd h3 hlo

/-- **The `1e-7` window of `OneDGrid.__init__`** (regenerated constant, regenerated strict comparisons): with a
declared domain `(lo, hi)`, `lo ≤ hi`, and a non-empty point array the constructor succeeds exactly when the
arrays have equal length and every point lies in the closed interval `[lo - 1e-7, hi + 1e-7]` (no upper limit for
`hi = np.inf`); it then returns the arrays and the domain unchanged. -/
theorem onedgrid_init_accepts_iff (P W : List ℝ) (lo : ℝ) (hi : Option ℝ) (hne : P ≠ [])
    (hord : ∀ b, hi = some b → lo ≤ b) (g : PyGrid ℝ) :
    Gen.OneD.OneDGrid.init P W (some ⟨lo, hi⟩) = .ok g ↔
      (g = ⟨P, W, some ⟨lo, hi⟩⟩ ∧ P.length = W.length ∧ (∀ p ∈ P, lo - 1e-7 ≤ p) ∧
        ∀ b, hi = some b → ∀ p ∈ P, p ≤ b + 1e-7) := by
  rw [init_eq_model P W lo hi hne hord]
  cases hm : oneDGrid P W lo hi with
  | error e =>
    simp only [Except.map]
    constructor
    · intro h; cases h
    · rintro ⟨-, h2, h3, h4⟩
      have := (oneDGrid_ok_iff P W lo hi ⟨P, W, lo, hi⟩).mpr ⟨rfl, h2, h3, h4⟩
      rw [hm] at this; cases this
  | ok m =>
    obtain ⟨rfl, h2, h3, h4⟩ := (oneDGrid_ok_iff P W lo hi m).mp hm
    simp only [Except.map, Except.ok.injEq, Grid1D.toPy]
    constructor
    · intro h; exact ⟨h.symm, h2, h3, h4⟩
    · rintro ⟨h, -⟩; exact h.symm

/-- a point more than `1e-7` below the declared lower end is a `ValueError` -/
theorem onedgrid_init_rejects_below (P W : List ℝ) (lo : ℝ) (hi : Option ℝ) (hord : ∀ b, hi = some b → lo ≤ b)
    (p : ℝ) (hp : p ∈ P) (hlow : p < lo - 1e-7) :
    Gen.OneD.OneDGrid.init P W (some ⟨lo, hi⟩) = .error .valueError := by
  have hne : P ≠ [] := List.ne_nil_of_mem hp
  rw [init_eq_model P W lo hi hne hord]
  rcases oneDGrid_cases P W lo hi with ⟨g, hg⟩ | he
  · obtain ⟨-, -, h3, -⟩ := (oneDGrid_ok_iff P W lo hi g).mp hg
    have := h3 p hp
    linarith
  · rw [he]; rfl

/-- a point more than `1e-7` above a finite declared upper end is a `ValueError` -/
theorem onedgrid_init_rejects_above (P W : List ℝ) (lo b : ℝ) (hord : lo ≤ b)
    (p : ℝ) (hp : p ∈ P) (hhigh : b + 1e-7 < p) :
    Gen.OneD.OneDGrid.init P W (some ⟨lo, some b⟩) = .error .valueError := by
  have hne : P ≠ [] := List.ne_nil_of_mem hp
  have hord' : ∀ b', some b = some b' → lo ≤ b' := fun b' hb' => by cases hb'; exact hord
  rw [init_eq_model P W lo (some b) hne hord']
  rcases oneDGrid_cases P W lo (some b) with ⟨g, hg⟩ | he
  · obtain ⟨-, -, -, h4⟩ := (oneDGrid_ok_iff P W lo (some b) g).mp hg
    have := h4 b rfl p hp
    linarith
  · rw [he]; rfl

/-- `domain=None`: no domain check at all, only `Grid.__init__`'s length test -/
theorem onedgrid_init_no_domain (P W : List ℝ) :
    Gen.OneD.OneDGrid.init P W none
      = if P.length ≠ W.length then .error .valueError else .ok ⟨P, W, none⟩ := by
  unfold Gen.OneD.OneDGrid.init
  simp only [Py.ndim, ne_eq, not_true_eq_false, decide_false, Bool.false_eq_true, if_false, Except.bind,
    Py.gridInit, Py.PyGrid.setDomain]
  split_ifs <;> rfl

/-- an empty point array together with a domain: `np.min` raises (`ValueError`) -/
theorem onedgrid_init_empty (W : List ℝ) (lo : ℝ) (hi : Option ℝ) (hord : ∀ b, hi = some b → lo ≤ b) :
    Gen.OneD.OneDGrid.init ([] : List ℝ) W (some ⟨lo, hi⟩) = .error .valueError := by
  have hgt : Py.gtHi lo hi = false := by
    cases hi with
    | none => rfl
    | some b => simpa [Py.gtHi, Py.hiLt] using hord b rfl
  unfold Gen.OneD.OneDGrid.init
  simp [Py.ndim, Py.Domain.len, hgt, Py.npMin, Except.bind]

/-- a descending domain tuple is a `ValueError` -/
theorem onedgrid_init_descending (P W : List ℝ) (lo b : ℝ) (h : b < lo) :
    Gen.OneD.OneDGrid.init P W (some ⟨lo, some b⟩) = .error .valueError := by
  unfold Gen.OneD.OneDGrid.init
  simp [Py.ndim, Py.Domain.len, Py.gtHi, Py.hiLt, h, Except.bind]

/-! ### every `npoints` guard -/

theorem map_ok_iff {α β} (r : Except Err α) (f : α → β) : (∃ g, r.map f = .ok g) ↔ ∃ m, r = .ok m := by
  cases r with
  | error e => simp [Except.map]
  | ok a => simp [Except.map]

/-- `Trapezoidal(npoints)` (regenerated constructor) is accepted exactly for `npoints ≥ 2`. -/
theorem trapezoidal_ctor_accepts_iff (npoints : ℤ) :
    (∃ g, Gen.OneD.Trapezoidal.ctor (K := ℝ) npoints = .ok g) ↔ 2 ≤ npoints := by
  rw [trapezoidal_ctor_eq_make, map_ok_iff]
  constructor
  · rintro ⟨m, hm⟩
    by_contra hc
    have h1 : npoints ≤ 1 := by omega
    simp [Trapezoidal.make, Gen.OneD.Trapezoidal.rejects, h1] at hm
  · intro h
    obtain ⟨n, rfl⟩ : ∃ n : ℕ, npoints = n := ⟨npoints.toNat, by omega⟩
    exact ⟨_, (trapezoidal_shape n (by omega)).1⟩

/-- `MidPoint(npoints)` (regenerated constructor) is accepted exactly for `npoints ≥ 2`. -/
theorem midpoint_ctor_accepts_iff (npoints : ℤ) :
    (∃ g, Gen.OneD.MidPoint.ctor (K := ℝ) npoints = .ok g) ↔ 2 ≤ npoints := by
  rw [midpoint_ctor_eq_make, map_ok_iff]
  constructor
  · rintro ⟨m, hm⟩
    by_contra hc
    have h1 : npoints ≤ 1 := by omega
    simp [MidPoint.make, Gen.OneD.MidPoint.rejects, h1] at hm
  · intro h
    obtain ⟨n, rfl⟩ : ∃ n : ℕ, npoints = n := ⟨npoints.toNat, by omega⟩
    exact ⟨_, (midpoint_shape n (by omega)).1⟩

/-- `UniformInteger(npoints)` (regenerated constructor) is accepted exactly for `npoints ≥ 2`. -/
theorem uniforminteger_ctor_accepts_iff (npoints : ℤ) :
    (∃ g, Gen.OneD.UniformInteger.ctor (K := ℝ) npoints = .ok g) ↔ 2 ≤ npoints := by
  rw [uniforminteger_ctor_eq_make, map_ok_iff]
  constructor
  · rintro ⟨m, hm⟩
    by_contra hc
    have h1 : npoints ≤ 1 := by omega
    simp [UniformInteger.make, Gen.OneD.UniformInteger.rejects, h1] at hm
  · intro h
    obtain ⟨n, rfl⟩ : ∃ n : ℕ, npoints = n := ⟨npoints.toNat, by omega⟩
    exact ⟨_, (uniforminteger_shape n (by omega)).1.1⟩

/-- `GaussChebyshevLobatto(npoints)` (regenerated constructor) is accepted exactly for `npoints ≥ 2`. -/
theorem chebyshevlobatto_ctor_accepts_iff (npoints : ℤ) :
    (∃ g, Gen.OneD.GaussChebyshevLobatto.ctor (K := ℝ) npoints = .ok g) ↔ 2 ≤ npoints := by
  rw [chebyshevlobatto_ctor_eq_make, map_ok_iff]
  constructor
  · rintro ⟨m, hm⟩
    by_contra hc
    have h1 : npoints ≤ 1 := by omega
    simp [GaussChebyshevLobatto.make, Gen.OneD.GaussChebyshevLobatto.rejects, h1] at hm
  · intro h
    obtain ⟨n, rfl⟩ : ∃ n : ℕ, npoints = n := ⟨npoints.toNat, by omega⟩
    exact ⟨_, (chebyshevlobatto_shape n (by omega)).1⟩

/-- `RectangleRuleSineEndPoints(npoints)` (regenerated constructor) is accepted exactly for `npoints ≥ 2`. -/
theorem rectanglesine_ctor_accepts_iff (npoints : ℤ) :
    (∃ g, Gen.OneD.RectangleRuleSineEndPoints.ctor (K := ℝ) npoints = .ok g) ↔ 2 ≤ npoints := by
  rw [rectanglesine_ctor_eq_make, map_ok_iff]
  constructor
  · rintro ⟨m, hm⟩
    by_contra hc
    have h1 : npoints ≤ 1 := by omega
    simp [RectangleRuleSineEndPoints.make, Gen.OneD.RectangleRuleSineEndPoints.rejects, h1] at hm
  · intro h
    obtain ⟨n, rfl⟩ : ∃ n : ℕ, npoints = n := ⟨npoints.toNat, by omega⟩
    exact ⟨_, (rectanglesine_shape n (by omega)).1⟩

/-- `ClenshawCurtis(npoints)` (regenerated constructor) is accepted exactly for `npoints ≥ 2`. -/
theorem clenshawcurtis_ctor_accepts_iff (npoints : ℤ) :
    (∃ g, Gen.OneD.ClenshawCurtis.ctor (K := ℝ) npoints = .ok g) ↔ 2 ≤ npoints := by
  rw [clenshawcurtis_ctor_eq_make, map_ok_iff]
  constructor
  · rintro ⟨m, hm⟩
    by_contra hc
    have h1 : npoints ≤ 1 := by omega
    simp [ClenshawCurtis.make, h1] at hm
  · intro h
    obtain ⟨n, rfl⟩ : ∃ n : ℕ, npoints = n := ⟨npoints.toNat, by omega⟩
    exact ⟨_, (clenshawcurtis_shape n (by omega)).1⟩

/-- `FejerFirst(npoints)` (regenerated constructor) is accepted exactly for `npoints ≥ 2`. -/
theorem fejerfirst_ctor_accepts_iff (npoints : ℤ) :
    (∃ g, Gen.OneD.FejerFirst.ctor (K := ℝ) npoints = .ok g) ↔ 2 ≤ npoints := by
  rw [fejerfirst_ctor_eq_make, map_ok_iff]
  constructor
  · rintro ⟨m, hm⟩
    by_contra hc
    have h1 : npoints ≤ 1 := by omega
    simp [FejerFirst.make, h1] at hm
  · intro h
    obtain ⟨n, rfl⟩ : ∃ n : ℕ, npoints = n := ⟨npoints.toNat, by omega⟩
    exact ⟨_, (fejerfirst_shape n (by omega)).1⟩

/-- `FejerSecond(npoints)` (regenerated constructor) is accepted exactly for `npoints ≥ 2`. -/
theorem fejersecond_ctor_accepts_iff (npoints : ℤ) :
    (∃ g, Gen.OneD.FejerSecond.ctor (K := ℝ) npoints = .ok g) ↔ 2 ≤ npoints := by
  rw [fejersecond_ctor_eq_make, map_ok_iff]
  constructor
  · rintro ⟨m, hm⟩
    by_contra hc
    have h1 : npoints ≤ 1 := by omega
    simp [FejerSecond.make, h1] at hm
  · intro h
    obtain ⟨n, rfl⟩ : ∃ n : ℕ, npoints = n := ⟨npoints.toNat, by omega⟩
    exact ⟨_, (fejersecond_shape n (by omega)).1⟩

/-- `Simpson(npoints)` (regenerated constructor) is accepted exactly for odd `npoints ≥ 3`. -/
theorem simpson_ctor_accepts_iff (npoints : ℤ) :
    (∃ g, Gen.OneD.Simpson.ctor (K := ℝ) npoints = .ok g) ↔ (2 ≤ npoints ∧ npoints % 2 = 1) := by
  rw [simpson_ctor_eq_make, map_ok_iff]
  constructor
  · rintro ⟨m, hm⟩
    by_contra hc
    by_cases h1 : npoints ≤ 1
    · simp [Simpson.make, Gen.OneD.Simpson.rejects, h1] at hm
    · have h2 : npoints % 2 = 0 := by omega
      simp [Simpson.make, Gen.OneD.Simpson.rejects, h2] at hm
  · rintro ⟨h, hodd⟩
    obtain ⟨n, rfl⟩ : ∃ n : ℕ, npoints = n := ⟨npoints.toNat, by omega⟩
    exact ⟨_, (simpson_shape n (by omega) (by omega)).1⟩

/-- **Tanh-Sinh's even-`n` guard**: `TanhSinh(npoints, delta)` (regenerated constructor), `delta > 0`, is accepted
exactly for odd `npoints ≥ 3`. -/
theorem tanhsinh_ctor_accepts_iff (npoints : ℤ) (delta : ℝ) (hd : 0 < delta) :
    (∃ g, Gen.OneD.TanhSinh.ctor npoints delta = .ok g) ↔ (2 ≤ npoints ∧ npoints % 2 = 1) := by
  rw [tanhsinh_ctor_eq_make, map_ok_iff]
  constructor
  · rintro ⟨m, hm⟩
    by_contra hc
    by_cases h1 : npoints ≤ 1
    · simp [TanhSinh.make, h1] at hm
    · have h2 : npoints % 2 = 0 := by omega
      simp [TanhSinh.make, h2] at hm
  · rintro ⟨h, hodd⟩
    obtain ⟨m, rfl⟩ : ∃ m : ℕ, npoints = ((2 * m + 1 : ℕ) : ℤ) := ⟨(npoints.toNat - 1) / 2, by omega⟩
    exact ⟨_, (tanhsinh_shape m (by omega) delta hd).1⟩

/-- `ExpSinh(npoints, h)` (regenerated constructor) is accepted exactly for `h > 0` and odd `npoints ≥ 1`. -/
theorem expsinh_ctor_accepts_iff (npoints : ℤ) (h : ℝ) :
    (∃ g, Gen.OneD.ExpSinh.ctor npoints h = .ok g) ↔ (0 < h ∧ 1 ≤ npoints ∧ npoints % 2 = 1) := by
  rw [expsinh_ctor_eq_make, map_ok_iff]
  constructor
  · rintro ⟨m, hm⟩
    by_contra hc
    by_cases h0 : h ≤ 0
    · simp [ExpSinh.make, substMake, h0] at hm
    · by_cases h1 : npoints < 1
      · simp [ExpSinh.make, substMake, h1] at hm
      · have h2 : npoints % 2 = 0 := by
          by_contra h2
          exact hc ⟨not_le.mp h0, by omega, by omega⟩
        simp [ExpSinh.make, substMake, h2] at hm
  · rintro ⟨hh, h1, hodd⟩
    obtain ⟨m, rfl⟩ : ∃ m : ℕ, npoints = ((2 * m + 1 : ℕ) : ℤ) := ⟨(npoints.toNat - 1) / 2, by omega⟩
    have hs := (expsinh_shape m h hh).1
    exact ⟨_, by unfold ExpSinh.make; simp only [zero_real, negOne_real, one_real]; exact hs⟩

/-- `LogExpSinh(npoints, h)` (regenerated constructor) is accepted exactly for `h > 0` and odd `npoints ≥ 1`. -/
theorem logexpsinh_ctor_accepts_iff (npoints : ℤ) (h : ℝ) :
    (∃ g, Gen.OneD.LogExpSinh.ctor npoints h = .ok g) ↔ (0 < h ∧ 1 ≤ npoints ∧ npoints % 2 = 1) := by
  rw [logexpsinh_ctor_eq_make, map_ok_iff]
  constructor
  · rintro ⟨m, hm⟩
    by_contra hc
    by_cases h0 : h ≤ 0
    · simp [LogExpSinh.make, substMake, h0] at hm
    · by_cases h1 : npoints < 1
      · simp [LogExpSinh.make, substMake, h1] at hm
      · have h2 : npoints % 2 = 0 := by
          by_contra h2
          exact hc ⟨not_le.mp h0, by omega, by omega⟩
        simp [LogExpSinh.make, substMake, h2] at hm
  · rintro ⟨hh, h1, hodd⟩
    obtain ⟨m, rfl⟩ : ∃ m : ℕ, npoints = ((2 * m + 1 : ℕ) : ℤ) := ⟨(npoints.toNat - 1) / 2, by omega⟩
    have hs := (logexpsinh_shape m h hh).1
    exact ⟨_, by unfold LogExpSinh.make; simp only [zero_real, negOne_real, one_real]; exact hs⟩

/-- `ExpExp(npoints, h)` (regenerated constructor) is accepted exactly for `h > 0` and odd `npoints ≥ 1`. -/
theorem expexp_ctor_accepts_iff (npoints : ℤ) (h : ℝ) :
    (∃ g, Gen.OneD.ExpExp.ctor npoints h = .ok g) ↔ (0 < h ∧ 1 ≤ npoints ∧ npoints % 2 = 1) := by
  rw [expexp_ctor_eq_make, map_ok_iff]
  constructor
  · rintro ⟨m, hm⟩
    by_contra hc
    by_cases h0 : h ≤ 0
    · simp [ExpExp.make, substMake, h0] at hm
    · by_cases h1 : npoints < 1
      · simp [ExpExp.make, substMake, h1] at hm
      · have h2 : npoints % 2 = 0 := by
          by_contra h2
          exact hc ⟨not_le.mp h0, by omega, by omega⟩
        simp [ExpExp.make, substMake, h2] at hm
  · rintro ⟨hh, h1, hodd⟩
    obtain ⟨m, rfl⟩ : ∃ m : ℕ, npoints = ((2 * m + 1 : ℕ) : ℤ) := ⟨(npoints.toNat - 1) / 2, by omega⟩
    have hs := (expexp_shape m h hh).1
    exact ⟨_, by unfold ExpExp.make; simp only [zero_real, negOne_real, one_real]; exact hs⟩

/-- `SingleTanh(npoints, h)` (regenerated constructor) is accepted exactly for `h > 0` and odd `npoints ≥ 1`. -/
theorem singletanh_ctor_accepts_iff (npoints : ℤ) (h : ℝ) :
    (∃ g, Gen.OneD.SingleTanh.ctor npoints h = .ok g) ↔ (0 < h ∧ 1 ≤ npoints ∧ npoints % 2 = 1) := by
  rw [singletanh_ctor_eq_make, map_ok_iff]
  constructor
  · rintro ⟨m, hm⟩
    by_contra hc
    by_cases h0 : h ≤ 0
    · simp [SingleTanh.make, substMake, h0] at hm
    · by_cases h1 : npoints < 1
      · simp [SingleTanh.make, substMake, h1] at hm
      · have h2 : npoints % 2 = 0 := by
          by_contra h2
          exact hc ⟨not_le.mp h0, by omega, by omega⟩
        simp [SingleTanh.make, substMake, h2] at hm
  · rintro ⟨hh, h1, hodd⟩
    obtain ⟨m, rfl⟩ : ∃ m : ℕ, npoints = ((2 * m + 1 : ℕ) : ℤ) := ⟨(npoints.toNat - 1) / 2, by omega⟩
    have hs := (singletanh_shape m h hh).1
    exact ⟨_, by unfold SingleTanh.make; simp only [zero_real, negOne_real, one_real]; exact hs⟩

/-- `SingleExp(npoints, h)` (regenerated constructor) is accepted exactly for `h > 0` and odd `npoints ≥ 1`. -/
theorem singleexp_ctor_accepts_iff (npoints : ℤ) (h : ℝ) :
    (∃ g, Gen.OneD.SingleExp.ctor npoints h = .ok g) ↔ (0 < h ∧ 1 ≤ npoints ∧ npoints % 2 = 1) := by
  rw [singleexp_ctor_eq_make, map_ok_iff]
  constructor
  · rintro ⟨m, hm⟩
    by_contra hc
    by_cases h0 : h ≤ 0
    · simp [SingleExp.make, substMake, h0] at hm
    · by_cases h1 : npoints < 1
      · simp [SingleExp.make, substMake, h1] at hm
      · have h2 : npoints % 2 = 0 := by
          by_contra h2
          exact hc ⟨not_le.mp h0, by omega, by omega⟩
        simp [SingleExp.make, substMake, h2] at hm
  · rintro ⟨hh, h1, hodd⟩
    obtain ⟨m, rfl⟩ : ∃ m : ℕ, npoints = ((2 * m + 1 : ℕ) : ℤ) := ⟨(npoints.toNat - 1) / 2, by omega⟩
    have hs := (singleexp_shape m h hh).1
    exact ⟨_, by unfold SingleExp.make; simp only [zero_real, negOne_real, one_real]; exact hs⟩

/-- `SingleArcSinhExp(npoints, h)` (regenerated constructor) is accepted exactly for `h > 0` and odd `npoints ≥ 1`. -/
theorem singlearcsinhexp_ctor_accepts_iff (npoints : ℤ) (h : ℝ) :
    (∃ g, Gen.OneD.SingleArcSinhExp.ctor npoints h = .ok g) ↔ (0 < h ∧ 1 ≤ npoints ∧ npoints % 2 = 1) := by
  rw [singlearcsinhexp_ctor_eq_make, map_ok_iff]
  constructor
  · rintro ⟨m, hm⟩
    by_contra hc
    by_cases h0 : h ≤ 0
    · simp [SingleArcSinhExp.make, substMake, h0] at hm
    · by_cases h1 : npoints < 1
      · simp [SingleArcSinhExp.make, substMake, h1] at hm
      · have h2 : npoints % 2 = 0 := by
          by_contra h2
          exact hc ⟨not_le.mp h0, by omega, by omega⟩
        simp [SingleArcSinhExp.make, substMake, h2] at hm
  · rintro ⟨hh, h1, hodd⟩
    obtain ⟨m, rfl⟩ : ∃ m : ℕ, npoints = ((2 * m + 1 : ℕ) : ℤ) := ⟨(npoints.toNat - 1) / 2, by omega⟩
    have hs := (singlearcsinhexp_shape m h hh).1
    exact ⟨_, by unfold SingleArcSinhExp.make; simp only [zero_real, negOne_real, one_real]; exact hs⟩

/-! ### the special Trefethen classes are the general ones at their base class -/

theorem cc_make_ne_nil (npoints : ℤ) (g : Grid1D ℝ) (h : ClenshawCurtis.make npoints = .ok g) : g.points ≠ [] := by
  by_cases h1 : npoints ≤ 1
  · simp [ClenshawCurtis.make, h1] at h
  · obtain ⟨n, rfl⟩ : ∃ n : ℕ, npoints = n := ⟨npoints.toNat, by omega⟩
    have hs := clenshawcurtis_shape n (by omega)
    rw [hs.1] at h
    cases h
    intro hc
    have hl := hs.2.1
    have hc' : ClenshawCurtis.points (K := ℝ) n = [] := hc
    rw [hc'] at hl
    simp at hl
    omega

/-- `TrefethenCC.__init__` as regenerated = the model constructor, for every `npoints`, `d`. -/
theorem trefethencc_ctor_eq_make (npoints d : ℤ) :
    Gen.OneD.TrefethenCC.ctor (K := ℝ) npoints d = (TrefethenCC.make npoints d).map Grid1D.toPy := by
  have h := trefethengeneral_ctor_eq_make (some ClenshawCurtis.make) npoints d
    (fun f g hf hg => by cases hf; exact cc_make_ne_nil npoints g hg)
  have hc : pyClass ClenshawCurtis.make = Gen.OneD.ClenshawCurtis.ctor (K := ℝ) := by
    funext n; exact (clenshawcurtis_ctor_eq_make n).symm
  simp only [Option.map_some, hc] at h
  exact h

/-- `TrefethenStripCC.__init__` as regenerated = the model constructor, for every `npoints`, `rho`. -/
theorem trefethenstripcc_ctor_eq_make (npoints : ℤ) (rho : ℝ) :
    Gen.OneD.TrefethenStripCC.ctor npoints rho = (TrefethenStripCC.make npoints rho).map Grid1D.toPy := by
  have h := trefethenstripgeneral_ctor_eq_make ClenshawCurtis.make npoints rho (cc_make_ne_nil npoints)
  have hc : pyClass ClenshawCurtis.make = Gen.OneD.ClenshawCurtis.ctor (K := ℝ) := by
    funext n; exact (clenshawcurtis_ctor_eq_make n).symm
  rw [hc] at h
  exact h

/-- `TrefethenGC2.__init__` as regenerated = the model constructor (non-empty `roots_chebyu` output). -/
theorem trefethengc2_ctor_eq_make (ext : Ext ℝ) (npoints d : ℤ)
    (hne : (ext.roots_chebyu npoints.toNat).1 ≠ []) :
    Gen.OneD.TrefethenGC2.ctor ext npoints d
      = (TrefethenGC2.make ext.roots_chebyu npoints d).map Grid1D.toPy := by
  have h := trefethengeneral_ctor_eq_make (some (GaussChebyshevType2.make ext.roots_chebyu)) npoints d
    (fun f g hf hg => by
      cases hf
      unfold GaussChebyshevType2.make at hg
      split_ifs at hg
      have := (oneDGrid_ok_iff _ _ _ _ g).mp hg
      rw [this.1]; exact hne)
  unfold Gen.OneD.TrefethenGC2.ctor
  rw [gausschebyshevtype2_ctor_eq_make ext npoints hne]
  simpa [Gen.OneD.TrefethenGeneral.ctor, Py.isOneDGridClass, Py.callClass, pyClass, TrefethenGC2.make,
    TrefethenGeneral.make] using h

/-- `TrefethenStripGC2.__init__` as regenerated = the model constructor (non-empty `roots_chebyu` output). -/
theorem trefethenstripgc2_ctor_eq_make (ext : Ext ℝ) (npoints : ℤ) (rho : ℝ)
    (hne : (ext.roots_chebyu npoints.toNat).1 ≠ []) :
    Gen.OneD.TrefethenStripGC2.ctor ext npoints rho
      = (TrefethenStripGC2.make ext.roots_chebyu npoints rho).map Grid1D.toPy := by
  have h := trefethenstripgeneral_ctor_eq_make (GaussChebyshevType2.make ext.roots_chebyu) npoints rho
    (fun g hg => by
      unfold GaussChebyshevType2.make at hg
      split_ifs at hg
      have := (oneDGrid_ok_iff _ _ _ _ g).mp hg
      rw [this.1]; exact hne)
  unfold Gen.OneD.TrefethenStripGC2.ctor
  rw [gausschebyshevtype2_ctor_eq_make ext npoints hne]
  simpa [Gen.OneD.TrefethenStripGeneral.ctor, pyClass, TrefethenStripGC2.make, TrefethenStripGeneral.make] using h

/-! ### the hypotheses are satisfiable: concrete instances -/

/-- a point `5e-8` above the declared upper end is inside the window: accepted -/
example : Gen.OneD.OneDGrid.init [0, 1 + 5e-8] [1, 1] (some ⟨(0 : ℝ), some 1⟩)
    = .ok ⟨[0, 1 + 5e-8], [1, 1], some ⟨0, some 1⟩⟩ := by
  rw [onedgrid_init_accepts_iff _ _ _ _ (by simp) (fun b hb => by cases hb; norm_num)]
  refine ⟨rfl, rfl, ?_, ?_⟩
  · intro p hp; simp at hp; rcases hp with rfl | rfl <;> norm_num
  · intro b hb p hp; cases hb; simp at hp; rcases hp with rfl | rfl <;> norm_num

/-- a point `2e-7` above it is outside: `ValueError` -/
example : Gen.OneD.OneDGrid.init [0, 1 + 2e-7] [1, 1] (some ⟨(0 : ℝ), some 1⟩) = .error .valueError :=
  onedgrid_init_rejects_above _ _ 0 1 (by norm_num) (1 + 2e-7) (by simp) (by norm_num)

/-- a point `2e-7` below the lower end of `(0, inf)`: `ValueError` -/
example : Gen.OneD.OneDGrid.init [-2e-7, 3] [1, 1] (some ⟨(0 : ℝ), none⟩) = .error .valueError :=
  onedgrid_init_rejects_below _ _ 0 none (fun b hb => by cases hb) (-2e-7) (by simp) (by norm_num)

/-- the wrappers' hypothesis (a non-empty routine output) on a two-point instance -/
example : ∃ ext : Ext ℝ, (ext.leggauss 2).1 ≠ [] ∧
    Gen.OneD.GaussLegendre.ctor ext 2 = (GaussLegendre.make ext.leggauss 2).map Grid1D.toPy := by
  let g : ℕ → List ℝ × List ℝ := fun _ => ([-1 / 2, 1 / 2], [1, 1])
  refine ⟨⟨g, g, g, fun n _ => g n, fun _ => false⟩, by simp [g], ?_⟩
  exact gausslegendre_ctor_eq_make _ 2 (by simp [g])

example : (∃ g, Gen.OneD.TanhSinh.ctor (K := ℝ) 5 (1 / 10) = .ok g) :=
  (tanhsinh_ctor_accepts_iff 5 (1 / 10) (by norm_num)).mpr (by decide)

example : ¬ (∃ g, Gen.OneD.TanhSinh.ctor (K := ℝ) 6 (1 / 10) = .ok g) := fun h =>
  absurd ((tanhsinh_ctor_accepts_iff 6 (1 / 10) (by norm_num)).mp h) (by decide)

end GridVerif.C01

/-
  C01, clause "Clenshaw–Curtis integrates all polynomials of degree ≤ n-1 exactly, for every n":
  the rule as coded in `ClenshawCurtis.__init__` (list program of `Model/OneD.lean`; `jmed`, the
  lengths, denominators `4j(j+2)+3`, frequencies `2(j+1)` and the `bj[jmed-1] = 1` patch from
  `Gen/OneDFormulas.lean`).  Discrete orthogonality on the Lobatto angles: `Lemmas/OneDLobatto.lean`.
-/
import GridVerif.Lemmas.OneDLobatto

set_option linter.unusedSimpArgs false

namespace GridVerif.C01
open GridVerif GridVerif.OneD Finset Polynomial Polynomial.Chebyshev Real

/-- What the proof needs from the regenerated integer skeleton of `ClenshawCurtis` (`N = n - 1`,
`J = jmed n`): equal array lengths `J`, offset 0, frequency `2(j+1)`, denominator `4(j+1)²-1`,
the last coefficient is patched exactly when `N` is even, no aliasing (`2J ≤ N`) and every even
degree `≤ N` is reached (`m/2 ≤ J`).  True for `jmed = (n-1)//2`; `2J ≤ N` fails for `n//2`. -/
theorem cc_gen_facts (n : ℕ) (hn : 2 ≤ n) :
    Gen.OneD.ClenshawCurtis.bjLen n = Gen.OneD.ClenshawCurtis.jmed n ∧
    Gen.OneD.ClenshawCurtis.jLen n = Gen.OneD.ClenshawCurtis.jmed n ∧
    Gen.OneD.ClenshawCurtis.jOff n = 0 ∧
    (∀ j, Gen.OneD.ClenshawCurtis.freq n j = 2 * (j + 1)) ∧
    (∀ j, ((Gen.OneD.ClenshawCurtis.denom n j : ℕ) : ℝ) = 4 * ((j : ℝ) + 1) ^ 2 - 1) ∧
    Gen.OneD.ClenshawCurtis.patchIdx n = Gen.OneD.ClenshawCurtis.jmed n - 1 ∧
    (Gen.OneD.ClenshawCurtis.patchCond n = true ↔ 2 * Gen.OneD.ClenshawCurtis.jmed n = n - 1) ∧
    2 * Gen.OneD.ClenshawCurtis.jmed n ≤ n - 1 ∧
    (∀ m, m ≤ n - 1 → m % 2 = 0 → m / 2 ≤ Gen.OneD.ClenshawCurtis.jmed n) := by
  refine ⟨rfl, rfl, rfl, fun _ => rfl, ?_, rfl, ?_, ?_, ?_⟩
  · intro j
    unfold Gen.OneD.ClenshawCurtis.denom
    push_cast; ring
  · unfold Gen.OneD.ClenshawCurtis.patchCond
    simp only [beq_iff_eq]
    omega
  · unfold Gen.OneD.ClenshawCurtis.jmed; omega
  · intro m hm hm2; unfold Gen.OneD.ClenshawCurtis.jmed; omega

theorem cc_theta_eq (n : ℕ) (hn : 2 ≤ n) (i : ℕ) :
    Gen.OneD.ClenshawCurtis.theta (K := ℝ) n i = lobTheta (n - 1) i := by
  simp only [Gen.OneD.ClenshawCurtis.theta, lobTheta, Elem.pi, Nat.cast_one]
  rw [Nat.cast_sub (by omega)]; simp

/-- coefficient `bⱼ` of the series as coded (index `l = j - 1 = 0..J-1`) -/
noncomputable def ccB (n l : ℕ) : ℝ :=
  (if 2 * Gen.OneD.ClenshawCurtis.jmed n = n - 1 ∧ l = Gen.OneD.ClenshawCurtis.jmed n - 1 then 1 else 2)
    / (4 * ((l : ℝ) + 1) ^ 2 - 1)

theorem cc_bj_eq (n : ℕ) (hn : 2 ≤ n) :
    ClenshawCurtis.bj (K := ℝ) n = (List.range (Gen.OneD.ClenshawCurtis.jmed n)).map (ccB n) := by
  obtain ⟨h1, h2, h3, -, h5, h6, h7, -, -⟩ := cc_gen_facts n hn
  unfold ClenshawCurtis.bj ClenshawCurtis.js
  rw [h1, h2, h3, h6]
  by_cases hc : Gen.OneD.ClenshawCurtis.patchCond n = true
  · have hc' := h7.mp hc
    simp only [hc, if_true]
    unfold setAt
    rw [mapIdx_map_range, zipWith_map_range]
    apply List.map_congr_left
    intro l _
    simp only [Nat.add_zero]
    rw [h5 l]
    unfold ccB
    by_cases hl : l = Gen.OneD.ClenshawCurtis.jmed n - 1
    · rw [if_pos hl, if_pos ⟨hc', hl⟩]
      simp [Gen.OneD.ClenshawCurtis.patchVal]
    · rw [if_neg hl, if_neg (fun h => hl h.2)]
      simp [Gen.OneD.ClenshawCurtis.bjNum]
  · have hc' : ¬ (2 * Gen.OneD.ClenshawCurtis.jmed n = n - 1) := fun h => hc (h7.mpr h)
    simp only [hc, if_false, Bool.false_eq_true]
    rw [zipWith_map_range]
    apply List.map_congr_left
    intro l _
    simp only [Nat.add_zero]
    rw [h5 l]
    unfold ccB
    rw [if_neg (fun h => hc' h.1)]
    simp [Gen.OneD.ClenshawCurtis.bjNum]

theorem cc_cij_eq (n : ℕ) (hn : 2 ≤ n) :
    ClenshawCurtis.cij (K := ℝ) n = (List.range (Gen.OneD.ClenshawCurtis.jmed n)).map fun (l : ℕ) =>
      (List.range n).map fun (k : ℕ) =>
        Real.cos (((2 * (l + 1) : ℕ) : ℝ) * lobTheta (n - 1) (n - 1 - k)) := by
  obtain ⟨-, h2, h3, h4, -, -, -, -, -⟩ := cc_gen_facts n hn
  unfold ClenshawCurtis.cij ClenshawCurtis.js ClenshawCurtis.theta
  rw [h2, h3, reverse_map_range, List.map_map]
  apply List.map_congr_left
  intro l _
  simp only [Function.comp, List.map_map, Nat.add_zero]
  apply List.map_congr_left
  intro k _
  simp only [Function.comp, h4, cc_theta_eq n hn, Gen.OneD.ClenshawCurtis.trig, Elem.cos]

/-- `v̂ₖ`: the weight before the end-point halving, at the (un-reversed) angle `θₖ` -/
noncomputable def ccV (n k : ℕ) : ℝ :=
  2 * (1 - ∑ l ∈ range (Gen.OneD.ClenshawCurtis.jmed n),
      ccB n l * Real.cos (((2 * (l + 1) : ℕ) : ℝ) * lobTheta (n - 1) k)) / ((n : ℝ) - 1)

theorem cc_weights_eq (n : ℕ) (hn : 2 ≤ n) :
    ClenshawCurtis.weights (K := ℝ) n = (List.range n).map fun (k : ℕ) =>
      (if k = n - 1 then (if k = 0 then ccV n (n - 1 - k) / 2 else ccV n (n - 1 - k)) / 2
        else (if k = 0 then ccV n (n - 1 - k) / 2 else ccV n (n - 1 - k))) := by
  unfold ClenshawCurtis.weights divAt
  rw [cc_bj_eq n hn, cc_cij_eq n hn, vecMat_map_range, List.map_map, mapIdx_map_range, mapIdx_map_range]
  apply List.map_congr_left
  intro k _
  have : ((n - 1 : ℕ) : ℝ) = (n : ℝ) - 1 := by rw [Nat.cast_sub (by omega)]; simp
  simp only [Function.comp, ccV, Nat.cast_ofNat, Nat.cast_one, this]

theorem cc_points_eq (n : ℕ) (hn : 2 ≤ n) :
    ClenshawCurtis.points (K := ℝ) n = (List.range n).map fun (k : ℕ) =>
      Real.cos (lobTheta (n - 1) (n - 1 - k)) := by
  unfold ClenshawCurtis.points ClenshawCurtis.theta
  rw [reverse_map_range, List.map_map]
  apply List.map_congr_left
  intro k _
  simp only [Function.comp, cc_theta_eq n hn, Elem.cos]

theorem sum_halved_eq_dsum (N : ℕ) (hN : 1 ≤ N) (v g : ℕ → ℝ) :
    ∑ k ∈ range (N + 1),
      (if k = N then (if k = 0 then v k / 2 else v k) / 2 else (if k = 0 then v k / 2 else v k)) * g k
      = dsum N (fun k => v k * g k) := by
  have h : ∀ k ∈ range (N + 1),
      (if k = N then (if k = 0 then v k / 2 else v k) / 2 else (if k = 0 then v k / 2 else v k)) * g k
      = v k * g k - (if k = 0 then v 0 * g 0 / 2 else 0) - (if k = N then v N * g N / 2 else 0) := by
    intro k _
    by_cases h0 : k = 0
    · have : k ≠ N := by omega
      subst h0; simp [this]; ring
    · by_cases h1 : k = N
      · subst h1; simp [h0]; ring
      · simp [h0, h1]
  rw [sum_congr rfl h, sum_sub_distrib, sum_sub_distrib, sum_ite_eq', sum_ite_eq']
  unfold dsum
  simp
  ring

theorem cc_split_aux (J : ℕ) (a y : ℕ → ℝ) (c x : ℝ) :
    2 * (1 - ∑ l ∈ range J, a l * y l) / c * x = 2 / c * (x - ∑ l ∈ range J, a l * (y l * x)) := by
  rw [show 2 * (1 - ∑ l ∈ range J, a l * y l) / c * x = 2 / c * (x - (∑ l ∈ range J, a l * y l) * x) by ring,
    sum_mul]
  simp only [mul_assoc]

/-- **Clenshaw–Curtis on the Chebyshev basis**: for every `n ≥ 2` and every `m ≤ n-1`,
`Σₖ wₖ T_m(xₖ) = ∫_{-1}^{1} T_m` for the weights and nodes the code computes. -/
theorem clenshawcurtis_exact_T (n : ℕ) (hn : 2 ≤ n) (m : ℕ) (hm : m < n) :
    quad (ClenshawCurtis.weights n) (ClenshawCurtis.points n) (fun x => (T ℝ m).eval x)
      = ∫ x in (-1 : ℝ)..1, (T ℝ m).eval x := by
  obtain ⟨-, -, -, -, -, -, -, hJ, hreach⟩ := cc_gen_facts n hn
  obtain ⟨N, rfl⟩ : ∃ N, n = N + 1 := ⟨n - 1, by omega⟩
  have hN : 1 ≤ N := by omega
  have hNr : (N : ℝ) ≠ 0 := by positivity
  simp only [Nat.add_sub_cancel] at hJ hreach
  rw [cc_weights_eq _ hn, cc_points_eq _ hn, quad_map_range, integral_T]
  simp only [T_real_cos, Int.cast_natCast, Nat.add_sub_cancel]
  rw [sum_halved_eq_dsum N hN (fun k => ccV (N + 1) (N - k))
    (fun k => Real.cos ((m : ℝ) * lobTheta N (N - k)))]
  rw [dsum_reflect N (fun k => ccV (N + 1) k * Real.cos ((m : ℝ) * lobTheta N k))]
  set J := Gen.OneD.ClenshawCurtis.jmed (N + 1) with hJdef
  -- linearity
  have hlin : ∀ k : ℕ, ccV (N + 1) k * Real.cos ((m : ℝ) * lobTheta N k)
      = (2 / (N : ℝ)) * (Real.cos ((m : ℝ) * lobTheta N k)
        - ∑ l ∈ range J, ccB (N + 1) l *
            (Real.cos (((2 * (l + 1) : ℕ) : ℝ) * lobTheta N k) * Real.cos ((m : ℝ) * lobTheta N k))) := by
    intro k
    unfold ccV
    simp only [Nat.add_sub_cancel]
    rw [show ((N + 1 : ℕ) : ℝ) - 1 = (N : ℝ) by push_cast; ring]
    exact cc_split_aux J _ _ _ _
  simp only [hlin]
  rw [dsum_const_mul, dsum_sub, dsum_finset_sum]
  simp only [dsum_const_mul]
  rw [dsum_cos N hN m]
  have horth : ∀ l ∈ range J,
      dsum N (fun k => Real.cos (((2 * (l + 1) : ℕ) : ℝ) * lobTheta N k) * Real.cos ((m : ℝ) * lobTheta N k))
        = ((if 2 * (l + 1) = N ∧ m = N then (N : ℝ) else 0) + (if 2 * (l + 1) = m then (N : ℝ) else 0)) / 2 := by
    intro l hl
    have hl' : l < J := mem_range.mp hl
    rw [dsum_cos_mul_cos N hN]
    congr 2
    · apply if_congr _ rfl rfl
      constructor
      · intro hd
        have := Nat.le_of_dvd (by omega) hd
        omega
      · rintro ⟨h1, h2⟩
        exact ⟨1, by omega⟩
    · apply if_congr _ rfl rfl
      constructor
      · intro hd
        by_contra hne
        have hpos : 0 < max (2 * (l + 1)) m - min (2 * (l + 1)) m := by
          rcases Nat.lt_or_gt_of_ne hne with h | h
          · rw [max_eq_right h.le, min_eq_left h.le]; omega
          · rw [max_eq_left h.le, min_eq_right h.le]; omega
        have := Nat.le_of_dvd hpos hd
        have h1 : max (2 * (l + 1)) m ≤ N := max_le (by omega) (by omega)
        omega
      · intro h
        rw [h]; simp
  rw [sum_congr rfl (fun l hl => by rw [horth l hl])]
  have hdvd : (2 * N ∣ m) ↔ m = 0 := by
    constructor
    · intro hd
      by_contra h0
      have := Nat.le_of_dvd (by omega) hd
      omega
    · rintro rfl; exact dvd_zero _
  simp only [hdvd]
  by_cases hm0 : m = 0
  · subst hm0
    have : ∀ l ∈ range J, ccB (N + 1) l *
        (((if 2 * (l + 1) = N ∧ 0 = N then (N : ℝ) else 0) + (if 2 * (l + 1) = 0 then (N : ℝ) else 0)) / 2) = 0 := by
      intro l _
      rw [if_neg (by omega), if_neg (by omega)]; simp
    rw [sum_congr rfl this]
    simp
    field_simp
  · rw [if_neg hm0]
    by_cases hev : m % 2 = 0
    · have hl0 : m / 2 - 1 ∈ range J := by
        have := hreach m (by omega) hev
        exact mem_range.mpr (by omega)
      rw [sum_eq_single (m / 2 - 1) (fun l _ hne => by
          rw [if_neg (by omega), if_neg (by omega)]; simp) (fun h => absurd hl0 h), if_pos hev]
      have hcast : ((m / 2 - 1 : ℕ) : ℝ) + 1 = (m : ℝ) / 2 := by
        have h2 : m / 2 - 1 + 1 = m / 2 := by omega
        have h3 : (m / 2) * 2 = m := by omega
        have : (((m / 2 - 1 + 1 : ℕ)) : ℝ) * 2 = (m : ℝ) := by rw [h2]; exact_mod_cast h3
        push_cast at this
        linarith
      have hm2 : (2 : ℝ) ≤ m := by
        have : 2 ≤ m := by omega
        exact_mod_cast this
      have hne1 : ((m : ℝ) ^ 2 - 1) ≠ 0 := by nlinarith
      have hne2 : (1 - (m : ℝ) ^ 2) ≠ 0 := by nlinarith
      rw [if_pos (by omega : 2 * (m / 2 - 1 + 1) = m)]
      unfold ccB
      rw [hcast, show 4 * ((m : ℝ) / 2) ^ 2 - 1 = (m : ℝ) ^ 2 - 1 by ring]
      simp only [Nat.add_sub_cancel, ← hJdef]
      by_cases hmN : m = N
      · have hc : 2 * J = N ∧ m / 2 - 1 = J - 1 := by
          have := hreach m (by omega) hev
          constructor <;> omega
        rw [if_pos hc, if_pos (by omega)]
        field_simp
        ring
      · have hc : ¬ (2 * J = N ∧ m / 2 - 1 = J - 1) := by
          rintro ⟨h1, h2⟩
          omega
        rw [if_neg hc, if_neg (by omega)]
        field_simp
        ring
    · have : ∀ l ∈ range J, ccB (N + 1) l *
          (((if 2 * (l + 1) = N ∧ m = N then (N : ℝ) else 0) + (if 2 * (l + 1) = m then (N : ℝ) else 0)) / 2) = 0 := by
        intro l _
        rw [if_neg (by omega), if_neg (by omega)]; simp
      rw [sum_congr rfl this, if_neg hev]
      simp

/-- **C01 (Clenshaw–Curtis).** For every admissible `n ≥ 2` the Clenshaw–Curtis rule as coded
integrates every polynomial of degree ≤ n-1 exactly over `[-1, 1]`. -/
theorem clenshawcurtis_exact (n : ℕ) (hn : 2 ≤ n) (p : ℝ[X]) (hp : p.natDegree < n) :
    quad (ClenshawCurtis.weights n) (ClenshawCurtis.points n) (fun x => p.eval x)
      = ∫ x in (-1 : ℝ)..1, p.eval x :=
  quad_poly_of_chebyshev _ _ n (by omega) (fun m hm => clenshawcurtis_exact_T n hn m hm) p hp

/-- non-vacuity: `n = 5` (odd: patched last coefficient, degree `n-1 = 4` aliases) and `n = 6`. -/
example : quad (ClenshawCurtis.weights 5) (ClenshawCurtis.points 5) (fun x => (X ^ 4 + X : ℝ[X]).eval x)
    = ∫ x in (-1 : ℝ)..1, (X ^ 4 + X : ℝ[X]).eval x :=
  clenshawcurtis_exact 5 (by norm_num) _ (by
    have : (X ^ 4 + X : ℝ[X]).natDegree ≤ 4 :=
      (natDegree_add_le _ _).trans (max_le (by simp) (by simp))
    omega)
example : quad (ClenshawCurtis.weights 6) (ClenshawCurtis.points 6) (fun x => (X ^ 5 + X ^ 2 : ℝ[X]).eval x)
    = ∫ x in (-1 : ℝ)..1, (X ^ 5 + X ^ 2 : ℝ[X]).eval x :=
  clenshawcurtis_exact 6 (by norm_num) _ (by
    have : (X ^ 5 + X ^ 2 : ℝ[X]).natDegree ≤ 5 :=
      (natDegree_add_le _ _).trans (max_le (by simp) (by simp))
    omega)

end GridVerif.C01

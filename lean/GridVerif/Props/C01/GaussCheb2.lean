/-
  C01, clause "the weight-divided Gauss rules (Chebyshev of the second kind) integrate
  weight-function × polynomial of degree ≤ 2n-1 exactly": the abstract contract `GaussExact` of
  `gausscheb2_exact` (`Props/C01/Gauss.lean`) is discharged for SciPy's closed-form
  `roots_chebyu` (`t = arange(n, 0, -1)·π/(n+1)`, `x = cos t`, `w = π·sin²t/(n+1)`), from the
  discrete sine orthogonality on the interior Lobatto angles (`Lemmas/OneDSine.lean`) and
  `∫_{-1}^{1} √(1-x²) U_m(x) dx = π/2·[m = 0]` (from Mathlib's Chebyshev-`T` orthogonality).
-/
import GridVerif.Props.C01.Gauss
import GridVerif.Lemmas.OneDSine
import Mathlib.Analysis.SpecialFunctions.Trigonometric.Chebyshev.Orthogonality

namespace GridVerif.C01
open GridVerif GridVerif.OneD Finset Polynomial Polynomial.Chebyshev Real

/-- `2(1 - x²) U_m = T_m - T_{m+2}` -/
theorem two_mul_one_sub_X_sq_mul_U (m : ℤ) :
    2 * ((1 - X ^ 2) * U ℝ m) = T ℝ m - T ℝ (m + 2) := by
  have h1 := one_sub_X_sq_mul_U_eq_pol_in_T ℝ m
  have h2 := T_add_two ℝ m
  linear_combination 2 * h1 - h2

/-- `∫_{-1}^{1} √(1-x²) U_m(x) dx = π/2` for `m = 0`, `0` otherwise (`U_m ⟂ U_0` for the weight
`√(1-x²)`): `√(1-x²) U_m = ((T_m - T_{m+2})/2) / √(1-x²)` and the `T_k` integrate to `π·[k = 0]`
against `1/√(1-x²)`. -/
theorem integral_sqrt_mul_U (m : ℕ) :
    ∫ x in (-1 : ℝ)..1, Real.sqrt (1 - x ^ 2) * (U ℝ (m : ℤ)).eval x
      = if m = 0 then π / 2 else 0 := by
  have hpt : ∀ x : ℝ, Real.sqrt (1 - x ^ 2) * (U ℝ (m : ℤ)).eval x
      = (1 / 2) * ((T ℝ (m : ℤ) - T ℝ ((m : ℤ) + 2)).eval x * Real.sqrt ((1 - x ^ 2)⁻¹)) := by
    intro x
    rw [← two_mul_one_sub_X_sq_mul_U, Real.sqrt_inv]
    simp only [eval_mul, eval_sub, eval_one, eval_pow, eval_X, eval_ofNat]
    have h := Real.div_sqrt (x := 1 - x ^ 2)
    rw [div_eq_mul_inv] at h
    linear_combination (-(U ℝ (m : ℤ)).eval x) * h
  simp only [hpt]
  rw [intervalIntegral.integral_const_mul, ← integral_measureT]
  simp only [eval_sub]
  rw [MeasureTheory.integral_sub (integrable_measureT (by fun_prop))
    (integrable_measureT (by fun_prop)),
    integral_eval_T_real_measureT_of_ne_zero (n := (m : ℤ) + 2) (by omega)]
  by_cases hm : m = 0
  · subst hm
    rw [Nat.cast_zero, integral_eval_T_real_measureT_zero, if_pos rfl]
    ring
  · rw [if_neg hm, integral_eval_T_real_measureT_of_ne_zero (by exact_mod_cast hm)]
    simp

/-- reindexing `i ↦ n - i` (SciPy's `arange(n, 0, -1)`) of a sum over `k + 1`, `k < n` -/
theorem sum_range_sub (F : ℕ → ℝ) (n : ℕ) :
    ∑ i ∈ range n, F (n - i) = ∑ k ∈ range n, F (k + 1) := by
  rw [← Finset.sum_range_reflect (fun k => F (k + 1)) n]
  apply sum_congr rfl
  intro i hi
  have := mem_range.mp hi
  congr 1
  omega

/-- the interior Lobatto angles lie strictly inside `(0, π)` -/
theorem lobTheta_interior (n k : ℕ) (hk1 : 1 ≤ k) (hkn : k ≤ n) :
    0 < lobTheta (n + 1) k ∧ lobTheta (n + 1) k < π := by
  unfold lobTheta
  have hk : (1 : ℝ) ≤ (k : ℝ) := by exact_mod_cast hk1
  have hkn' : (k : ℝ) ≤ (n : ℝ) := by exact_mod_cast hkn
  have hN : (0 : ℝ) < ((n + 1 : ℕ) : ℝ) := by positivity
  constructor
  · have := Real.pi_pos
    positivity
  · rw [div_lt_iff₀ hN]
    push_cast
    nlinarith [Real.pi_pos]

/-- **SciPy's `roots_chebyu(n)` is a Gauss rule for `ω = √(1-x²)`**: with nodes
`cos(kπ/(n+1))` and weights `π/(n+1)·sin²(kπ/(n+1))`, `k = n, …, 1`,
`Σ wₖ p(xₖ) = ∫_{-1}^{1} √(1-x²) p(x) dx` for every polynomial of degree ≤ 2n-1. -/
theorem chebyu_gaussExact (n : ℕ) (hn : 1 ≤ n) :
    GaussExact (fun f => ∫ x in (-1 : ℝ)..1, f x) (fun x => Real.sqrt (1 - x ^ 2)) (2 * n - 1)
      ((List.range n).map fun (i : ℕ) => Real.cos (lobTheta (n + 1) (n - i)))
      ((List.range n).map fun (i : ℕ) =>
        π / ((n : ℝ) + 1) * Real.sin (lobTheta (n + 1) (n - i)) ^ 2) := by
  refine ⟨by simp, ?_⟩
  intro p hp
  obtain ⟨c, rfl⟩ := exists_U_expansion (2 * n) p (by omega)
  have hn1 : ((n : ℝ) + 1) ≠ 0 := by positivity
  have key : ∀ x : ℝ, Real.sqrt (1 - x ^ 2) * ∑ i ∈ range (2 * n), c i * (U ℝ (i : ℤ)).eval x
      = ∑ i ∈ range (2 * n), c i * (Real.sqrt (1 - x ^ 2) * (U ℝ (i : ℤ)).eval x) := by
    intro x
    rw [mul_sum]
    apply sum_congr rfl
    intro i _
    ring
  simp only [eval_finsetSum, eval_smul, smul_eq_mul, key]
  rw [quad_finset_sum, intervalIntegral.integral_finsetSum]
  · apply Finset.sum_congr rfl
    intro m hm
    have hm' := mem_range.mp hm
    rw [intervalIntegral.integral_const_mul, integral_sqrt_mul_U]
    congr 1
    rw [quad_map_range,
      sum_range_sub (fun k => π / ((n : ℝ) + 1) * Real.sin (lobTheta (n + 1) k) ^ 2
        * (U ℝ (m : ℤ)).eval (Real.cos (lobTheta (n + 1) k))) n]
    have hterm : ∀ k : ℕ, π / ((n : ℝ) + 1) * Real.sin (lobTheta (n + 1) (k + 1)) ^ 2
          * (U ℝ (m : ℤ)).eval (Real.cos (lobTheta (n + 1) (k + 1)))
        = π / ((n : ℝ) + 1) * (Real.sin (((1 : ℕ) : ℝ) * lobTheta (n + 1) (k + 1))
          * Real.sin (((m + 1 : ℕ) : ℝ) * lobTheta (n + 1) (k + 1))) := by
      intro k
      have h := U_real_cos (lobTheta (n + 1) (k + 1)) (m : ℤ)
      push_cast at h ⊢
      rw [one_mul, ← h]
      ring
    simp only [hterm]
    rw [← mul_sum, sum_sin_mul_sin_interior n 1 (m + 1) (le_refl 1) (by omega) (by omega)]
    by_cases h0 : m = 0
    · subst h0
      simp only [zero_add, if_true]
      field_simp
    · rw [if_neg h0, if_neg (by omega)]
      simp
  · intro i _
    exact (Continuous.intervalIntegrable (by fun_prop) _ _)

/-- C01, clause 'the weight-divided Gauss rules (Chebyshev of the second kind) integrate
weight-function × polynomial of degree ≤ 2n-1 exactly' — under SciPy's closed-form roots_chebyu
contract (nodes cos(kπ/(n+1)), weights π/(n+1)·sin²), no abstract exactness hypothesis -/
theorem gausscheb2_closed_exact (gauss : ℕ → List ℝ × List ℝ) (n : ℕ) (hn : 1 ≤ n)
    (hg : gauss n = ((List.range n).map fun (i : ℕ) => Real.cos (lobTheta (n + 1) (n - i)),
                     (List.range n).map fun (i : ℕ) =>
                       π / ((n : ℝ) + 1) * Real.sin (lobTheta (n + 1) (n - i)) ^ 2))
    (p : ℝ[X]) (hp : p.natDegree ≤ 2 * n - 1) :
    GaussChebyshevType2.make gauss (n : ℤ)
      = .ok ⟨(gauss n).1, GaussChebyshevType2.weights (gauss n).1 (gauss n).2, -1, some 1⟩ ∧
    quad (GaussChebyshevType2.weights (gauss n).1 (gauss n).2) (gauss n).1
        (fun x => Real.sqrt (1 - x ^ 2) * p.eval x)
      = ∫ x in (-1 : ℝ)..1, Real.sqrt (1 - x ^ 2) * p.eval x := by
  have hex : GaussExact (fun f => ∫ x in (-1 : ℝ)..1, f x) (fun x => Real.sqrt (1 - x ^ 2))
      (2 * n - 1) (gauss n).1 (gauss n).2 := by
    rw [hg]
    exact chebyu_gaussExact n hn
  have hdom : ∀ x ∈ (gauss n).1, -1 < x ∧ x < 1 := by
    intro x hx
    rw [hg] at hx
    simp only [List.mem_map, List.mem_range] at hx
    obtain ⟨i, hi, rfl⟩ := hx
    have hθ := lobTheta_interior n (n - i) (by omega) (by omega)
    constructor
    · rw [← Real.cos_pi]
      exact Real.cos_lt_cos_of_nonneg_of_le_pi hθ.1.le le_rfl hθ.2
    · rw [← Real.cos_zero]
      exact Real.cos_lt_cos_of_nonneg_of_le_pi le_rfl hθ.2.le hθ.1
  have h := gausscheb2_exact (fun f => ∫ x in (-1 : ℝ)..1, f x) gauss n hn hex hdom
  exact ⟨h.1, h.2 p hp⟩

/-- non-vacuity: `n = 3`, `p = X^5` (degree 2n-1), contract instantiated with SciPy's closed
form. -/
example : quad (GaussChebyshevType2.weights
      ((List.range 3).map fun (i : ℕ) => Real.cos (lobTheta (3 + 1) (3 - i)))
      ((List.range 3).map fun (i : ℕ) =>
        π / (((3 : ℕ) : ℝ) + 1) * Real.sin (lobTheta (3 + 1) (3 - i)) ^ 2))
      ((List.range 3).map fun (i : ℕ) => Real.cos (lobTheta (3 + 1) (3 - i)))
      (fun x => Real.sqrt (1 - x ^ 2) * (X ^ 5 : ℝ[X]).eval x)
    = ∫ x in (-1 : ℝ)..1, Real.sqrt (1 - x ^ 2) * (X ^ 5 : ℝ[X]).eval x :=
  (gausscheb2_closed_exact (fun n => ((List.range n).map fun (i : ℕ) =>
      Real.cos (lobTheta (n + 1) (n - i)),
      (List.range n).map fun (i : ℕ) =>
        π / ((n : ℝ) + 1) * Real.sin (lobTheta (n + 1) (n - i)) ^ 2))
    3 (by norm_num) rfl (X ^ 5) (by simp)).2

end GridVerif.C01

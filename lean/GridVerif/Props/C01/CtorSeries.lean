/-
  C01 — Clenshaw–Curtis, Fejér-1, Fejér-2: the constructor text regenerated entry by entry
  (`Gen/OneDFormulas.lean`: `theta`, reversal, `jmed` / `nsum`, coefficient vector with its patch, `bj /= …`,
  the `np.outer` matrix, `bj @ cij`, post-processing of the weights) is the list model of `Model/OneD.lean`
  about which the exactness theorems (`clenshawcurtis_exact`, `fejer1_exact`, `fejer2_code_defect`, …) are
  stated; and the regenerated constructors (`Gen/OneDCtor.lean`) are the model constructors.
-/
import GridVerif.Props.C01.ClenshawCurtis
import GridVerif.Props.C01.Fejer
import GridVerif.Props.C01.Fejer2
import GridVerif.Props.C01.Ctor

set_option linter.unusedSimpArgs false

namespace GridVerif.C01
open GridVerif GridVerif.OneD GridVerif.OneD.Py Finset Real

theorem cast_rev (n i : ℕ) (hi : i < n) : ((n - 1 - i : ℕ) : ℝ) = (n : ℝ) - 1 - (i : ℝ) := by
  rw [Nat.cast_sub (by omega), Nat.cast_sub (by omega)]; simp

/-! ### Clenshaw–Curtis -/

/-- the regenerated nodes of `ClenshawCurtis.__init__` are the model's -/
theorem cc_gen_points_eq (n : ℕ) (hn : 2 ≤ n) :
    (List.range (Gen.OneD.ClenshawCurtis.pointsLen n)).map (Gen.OneD.ClenshawCurtis.pointAt (K := ℝ) n)
      = ClenshawCurtis.points n := by
  rw [cc_points_eq n hn]
  simp only [Gen.OneD.ClenshawCurtis.pointsLen]
  apply List.map_congr_left
  intro i hi
  simp only [List.mem_range] at hi
  simp only [Gen.OneD.ClenshawCurtis.pointAt, Gen.OneD.ClenshawCurtis.points0, Gen.OneD.ClenshawCurtis.theta1,
    Gen.OneD.ClenshawCurtis.theta0, lobTheta, Elem.cos, Elem.pi, Nat.cast_one]
  rw [Nat.cast_sub (by omega : 1 ≤ n)]
  simp

theorem cc_gen_wi (n : ℕ) (hn : 2 ≤ n) (i : ℕ) (hi : i < n) :
    Gen.OneD.ClenshawCurtis.weights0 (K := ℝ) n i = ccV n (n - 1 - i) := by
  simp only [Gen.OneD.ClenshawCurtis.weights0, Gen.OneD.ClenshawCurtis.wi0, gsum_eq, ccV, Nat.cast_ofNat,
    Nat.cast_one]
  congr 3
  apply sum_congr rfl
  intro l hl
  simp only [Gen.OneD.ClenshawCurtis.bj2, Gen.OneD.ClenshawCurtis.bj1, Gen.OneD.ClenshawCurtis.bj0,
    Gen.OneD.ClenshawCurtis.j0, Gen.OneD.ClenshawCurtis.cij0, Gen.OneD.ClenshawCurtis.theta1,
    Gen.OneD.ClenshawCurtis.theta0, ccB, lobTheta, Elem.cos, Elem.pi, Nat.cast_ofNat, Nat.cast_one]
  have hjm : Gen.OneD.ClenshawCurtis.jmed0 n = Gen.OneD.ClenshawCurtis.jmed n := rfl
  have hcond : (2 * Gen.OneD.ClenshawCurtis.jmed0 n + 1 = n ∧ l = Gen.OneD.ClenshawCurtis.jmed0 n - 1) ↔
      (2 * Gen.OneD.ClenshawCurtis.jmed n = n - 1 ∧ l = Gen.OneD.ClenshawCurtis.jmed n - 1) := by
    rw [hjm]; omega
  have hN : ((n - 1 : ℕ) : ℝ) = (n : ℝ) - 1 := by rw [Nat.cast_sub (by omega)]; simp
  congr 1
  · by_cases hc : 2 * Gen.OneD.ClenshawCurtis.jmed n = n - 1 ∧ l = Gen.OneD.ClenshawCurtis.jmed n - 1
    · rw [if_pos (hcond.mpr hc), if_pos hc]
      congr 1; ring
    · rw [if_neg (fun h => hc (hcond.mp h)), if_neg hc]
      congr 1
      · ring
      · ring
  · congr 1
    rw [hN]
    push_cast
    ring

/-- the regenerated weights of `ClenshawCurtis.__init__` (series, `2 (1 - wi)/(n-1)`, both ends halved) are the model's -/
theorem cc_gen_weights_eq (n : ℕ) (hn : 2 ≤ n) :
    (List.range (Gen.OneD.ClenshawCurtis.weightsLen n)).map (Gen.OneD.ClenshawCurtis.weightAt (K := ℝ) n)
      = ClenshawCurtis.weights n := by
  rw [cc_weights_eq n hn]
  simp only [Gen.OneD.ClenshawCurtis.weightsLen]
  apply List.map_congr_left
  intro i hi
  simp only [List.mem_range] at hi
  simp only [Gen.OneD.ClenshawCurtis.weightAt, Gen.OneD.ClenshawCurtis.weights2, Gen.OneD.ClenshawCurtis.weights1,
    cc_gen_wi n hn i hi, Nat.cast_ofNat]

/-- `ClenshawCurtis.__init__` as regenerated = the model constructor, for every `npoints`. -/
theorem clenshawcurtis_ctor_eq_make (npoints : ℤ) :
    Gen.OneD.ClenshawCurtis.ctor (K := ℝ) npoints = (ClenshawCurtis.make npoints).map Grid1D.toPy := by
  unfold Gen.OneD.ClenshawCurtis.ctor ClenshawCurtis.make
  by_cases h : npoints ≤ 1
  · simp [h, Except.map]
  · have hn : 2 ≤ npoints.toNat := by omega
    have hlen : Gen.OneD.ClenshawCurtis.bjLen npoints.toNat = Gen.OneD.ClenshawCurtis.jLen npoints.toNat := rfl
    simp only [h, decide_false, Bool.false_eq_true, if_false, hlen, ne_eq, not_true_eq_false]
    rw [cc_gen_points_eq _ hn, cc_gen_weights_eq _ hn]
    refine init_eq_model _ _ _ _ ?_ neg_one_le_one
    rw [← cc_gen_points_eq _ hn]
    exact range_map_ne_nil _ _ (by unfold Gen.OneD.ClenshawCurtis.pointsLen; omega)

/-! ### Fejér, first rule -/

/-- the regenerated nodes of `FejerFirst.__init__` are the model's -/
theorem fejer1_gen_points_eq (n : ℕ) :
    (List.range (Gen.OneD.FejerFirst.pointsLen n)).map (Gen.OneD.FejerFirst.pointAt (K := ℝ) n)
      = FejerFirst.points n := by
  rw [fejer1_points_eq, reverse_map_range]
  simp only [Gen.OneD.FejerFirst.pointsLen]
  apply List.map_congr_left
  intro i hi
  simp only [Gen.OneD.FejerFirst.pointAt, Gen.OneD.FejerFirst.points1, Gen.OneD.FejerFirst.points0,
    Gen.OneD.FejerFirst.theta0, chebTheta, Elem.cos, Elem.pi, Nat.cast_ofNat, Nat.cast_one]

/-- the regenerated weights of `FejerFirst.__init__` are the model's -/
theorem fejer1_gen_weights_eq (n : ℕ) :
    (List.range (Gen.OneD.FejerFirst.weightsLen n)).map (Gen.OneD.FejerFirst.weightAt (K := ℝ) n)
      = FejerFirst.weights n := by
  rw [fejer1_weights_eq, reverse_map_range]
  simp only [Gen.OneD.FejerFirst.weightsLen]
  apply List.map_congr_left
  intro i hi
  simp only [Gen.OneD.FejerFirst.weightAt, Gen.OneD.FejerFirst.weights1, Gen.OneD.FejerFirst.weights0,
    Gen.OneD.FejerFirst.di0, gsum_eq, Nat.cast_ofNat, Nat.cast_one]
  congr 2
  apply sum_congr rfl
  intro l hl
  simp only [Gen.OneD.FejerFirst.bj0, Gen.OneD.FejerFirst.j0, Gen.OneD.FejerFirst.cij0, Gen.OneD.FejerFirst.theta0,
    chebTheta, npow_eq_pow, Elem.cos, Elem.pi, Nat.cast_ofNat, Nat.cast_one]
  congr 1
  · ring
  · congr 1
    push_cast
    ring

/-- `FejerFirst.__init__` as regenerated = the model constructor, for every `npoints`. -/
theorem fejerfirst_ctor_eq_make (npoints : ℤ) :
    Gen.OneD.FejerFirst.ctor (K := ℝ) npoints = (FejerFirst.make npoints).map Grid1D.toPy := by
  unfold Gen.OneD.FejerFirst.ctor FejerFirst.make
  by_cases h : npoints ≤ 1
  · simp [h, Except.map]
  · have hlen : Gen.OneD.FejerFirst.bjLen npoints.toNat = Gen.OneD.FejerFirst.jLen npoints.toNat := rfl
    simp only [h, decide_false, Bool.false_eq_true, if_false, hlen, ne_eq, not_true_eq_false]
    rw [fejer1_gen_points_eq, fejer1_gen_weights_eq]
    refine init_eq_model _ _ _ _ ?_ neg_one_le_one
    rw [← fejer1_gen_points_eq]
    exact range_map_ne_nil _ _ (by unfold Gen.OneD.FejerFirst.pointsLen; omega)

/-! ### Fejér, second rule (the code as it is: known finding `onedgrid.FejerSecond`) -/

/-- the regenerated nodes of `FejerSecond.__init__` are the model's -/
theorem fejer2_gen_points_eq (n : ℕ) :
    (List.range (Gen.OneD.FejerSecond.pointsLen n)).map (Gen.OneD.FejerSecond.pointAt (K := ℝ) n)
      = FejerSecond.points n := by
  rw [fejer2_code_points_eq, fejer2Nodes, reverse_map_range]
  simp only [Gen.OneD.FejerSecond.pointsLen]
  apply List.map_congr_left
  intro i hi
  simp only [Gen.OneD.FejerSecond.pointAt, Gen.OneD.FejerSecond.points1, Gen.OneD.FejerSecond.points0,
    Gen.OneD.FejerSecond.theta0, lobTheta, Elem.cos, Elem.pi, Nat.cast_ofNat, Nat.cast_one]
  push_cast
  rfl

/-- the regenerated weights of `FejerSecond.__init__` (the truncated sine series as coded) are the model's -/
theorem fejer2_gen_weights_eq (n : ℕ) :
    (List.range (Gen.OneD.FejerSecond.weightsLen n)).map (Gen.OneD.FejerSecond.weightAt (K := ℝ) n)
      = FejerSecond.weights n := by
  rw [fejer2_code_weights_eq, reverse_map_range]
  simp only [Gen.OneD.FejerSecond.weightsLen]
  apply List.map_congr_left
  intro i hi
  simp only [Gen.OneD.FejerSecond.weightAt, Gen.OneD.FejerSecond.weights1, Gen.OneD.FejerSecond.weights0,
    Gen.OneD.FejerSecond.wi0, Gen.OneD.FejerSecond.nsum0, gsum_eq, fejer2W, Nat.cast_ofNat, Nat.cast_one]
  have hth : Gen.OneD.FejerSecond.theta0 (K := ℝ) n (n - 1 - i) = lobTheta (n + 1) (n - 1 - i + 1) := by
    simp only [Gen.OneD.FejerSecond.theta0, lobTheta, Elem.pi, Nat.cast_one]
    push_cast
    rfl
  rw [hth]
  simp only [Elem.sin]
  congr 2
  apply sum_congr rfl
  intro l hl
  simp only [Gen.OneD.FejerSecond.bj0, Gen.OneD.FejerSecond.j0, Gen.OneD.FejerSecond.sij0, hth, Elem.sin,
    Nat.cast_ofNat, Nat.cast_one]
  have hc : (2 * ((l : ℝ) + 1) - 1) = ((2 * l + 1 : ℕ) : ℝ) := by push_cast; ring
  rw [hc]
  ring

/-- `FejerSecond.__init__` as regenerated = the model constructor, for every `npoints`. -/
theorem fejersecond_ctor_eq_make (npoints : ℤ) :
    Gen.OneD.FejerSecond.ctor (K := ℝ) npoints = (FejerSecond.make npoints).map Grid1D.toPy := by
  unfold Gen.OneD.FejerSecond.ctor FejerSecond.make
  by_cases h : npoints ≤ 1
  · simp [h, Except.map]
  · have hlen : Gen.OneD.FejerSecond.bjLen npoints.toNat = Gen.OneD.FejerSecond.jLen npoints.toNat := rfl
    simp only [h, decide_false, Bool.false_eq_true, if_false, hlen, ne_eq, not_true_eq_false]
    rw [fejer2_gen_points_eq, fejer2_gen_weights_eq]
    refine init_eq_model _ _ _ _ ?_ neg_one_le_one
    rw [← fejer2_gen_points_eq]
    exact range_map_ne_nil _ _ (by unfold Gen.OneD.FejerSecond.pointsLen; omega)

end GridVerif.C01

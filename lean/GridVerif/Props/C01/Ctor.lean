/-
  C01 — the constructors as regenerated statement by statement (`Gen/OneDCtor.lean`: guards, the call of the
  NumPy/SciPy node routine as a named primitive, post-processing of nodes and weights, the domain tuple, the
  arguments of `super().__init__`, and `OneDGrid.__init__` itself) are the hand model of `Model/OneD.lean`
  that every other theorem of C01 is stated about.  A source change in a constructor body regenerates a
  different `ctor` and the equality with the model no longer checks.

  Hypotheses: for the wrappers around NumPy/SciPy routines and for the `…General` classes the array handed to
  `OneDGrid.__init__` must be non-empty (`np.min` of an empty array raises `ValueError`; the hand model has no
  such case) — true for every routine output of size `npoints ≥ 1`.
-/
import GridVerif.Lemmas.OneDCtor

set_option linter.unusedSimpArgs false

namespace GridVerif.C01
open GridVerif GridVerif.OneD GridVerif.OneD.Py

theorem range_map_ne_nil {α} (f : ℕ → α) (m : ℕ) (h : 0 < m) : (List.range m).map f ≠ [] := by
  intro hc
  have := congrArg List.length hc
  simp at this
  omega

theorem neg_one_le_one : ∀ b : ℝ, some (((1 : ℕ) : ℝ)) = some b → -((1 : ℕ) : ℝ) ≤ b := by
  intro b hb
  cases hb
  norm_num

theorem none_le (lo : ℝ) : ∀ b : ℝ, (none : Option ℝ) = some b → lo ≤ b := by
  intro b hb
  cases hb

/-! ### the six closed-form rules and the three series rules: guards + assembly of the generated entries -/

/-- `Trapezoidal.__init__` as regenerated = the model constructor, for every `npoints`. -/
theorem trapezoidal_ctor_eq_make (npoints : ℤ) :
    Gen.OneD.Trapezoidal.ctor (K := ℝ) npoints = (Trapezoidal.make npoints).map Grid1D.toPy := by
  unfold Gen.OneD.Trapezoidal.ctor Trapezoidal.make
  by_cases h : npoints ≤ 1
  · simp [Gen.OneD.Trapezoidal.rejects, h, Except.map]
  · simp only [Gen.OneD.Trapezoidal.rejects, h, decide_false, Bool.false_eq_true, if_false]
    refine init_eq_model _ _ _ _ (range_map_ne_nil _ _ ?_) neg_one_le_one
    unfold Gen.OneD.Trapezoidal.pointsLen
    omega

/-- `Simpson.__init__` as regenerated = the model constructor, for every `npoints` (both guards). -/
theorem simpson_ctor_eq_make (npoints : ℤ) :
    Gen.OneD.Simpson.ctor (K := ℝ) npoints = (Simpson.make npoints).map Grid1D.toPy := by
  unfold Gen.OneD.Simpson.ctor Simpson.make
  by_cases h : npoints ≤ 1
  · simp [Gen.OneD.Simpson.rejects, h, Except.map]
  · by_cases h2 : npoints % 2 = 0
    · simp [Gen.OneD.Simpson.rejects, h, h2, Except.map]
    · simp only [Gen.OneD.Simpson.rejects, h, h2, decide_false, Bool.false_eq_true, if_false, Bool.or_self]
      refine init_eq_model _ _ _ _ (range_map_ne_nil _ _ ?_) neg_one_le_one
      unfold Gen.OneD.Simpson.pointsLen
      omega

/-- `MidPoint.__init__` as regenerated = the model constructor, for every `npoints`. -/
theorem midpoint_ctor_eq_make (npoints : ℤ) :
    Gen.OneD.MidPoint.ctor (K := ℝ) npoints = (MidPoint.make npoints).map Grid1D.toPy := by
  unfold Gen.OneD.MidPoint.ctor MidPoint.make
  by_cases h : npoints ≤ 1
  · simp [Gen.OneD.MidPoint.rejects, h, Except.map]
  · simp only [Gen.OneD.MidPoint.rejects, h, decide_false, Bool.false_eq_true, if_false]
    refine init_eq_model _ _ _ _ (range_map_ne_nil _ _ ?_) neg_one_le_one
    unfold Gen.OneD.MidPoint.pointsLen
    omega

/-- `UniformInteger.__init__` as regenerated = the model constructor, for every `npoints`. -/
theorem uniforminteger_ctor_eq_make (npoints : ℤ) :
    Gen.OneD.UniformInteger.ctor (K := ℝ) npoints = (UniformInteger.make npoints).map Grid1D.toPy := by
  unfold Gen.OneD.UniformInteger.ctor UniformInteger.make
  by_cases h : npoints ≤ 1
  · simp [Gen.OneD.UniformInteger.rejects, h, Except.map]
  · simp only [Gen.OneD.UniformInteger.rejects, h, decide_false, Bool.false_eq_true, if_false]
    refine init_eq_model _ _ _ _ (range_map_ne_nil _ _ ?_) (none_le _)
    unfold Gen.OneD.UniformInteger.pointsLen
    omega

/-- `GaussChebyshevLobatto.__init__` as regenerated = the model constructor, for every `npoints`. -/
theorem chebyshevlobatto_ctor_eq_make (npoints : ℤ) :
    Gen.OneD.GaussChebyshevLobatto.ctor (K := ℝ) npoints = (GaussChebyshevLobatto.make npoints).map Grid1D.toPy := by
  unfold Gen.OneD.GaussChebyshevLobatto.ctor GaussChebyshevLobatto.make
  by_cases h : npoints ≤ 1
  · simp [Gen.OneD.GaussChebyshevLobatto.rejects, h, Except.map]
  · simp only [Gen.OneD.GaussChebyshevLobatto.rejects, h, decide_false, Bool.false_eq_true, if_false]
    refine init_eq_model _ _ _ _ (range_map_ne_nil _ _ ?_) neg_one_le_one
    unfold Gen.OneD.GaussChebyshevLobatto.pointsLen
    omega

/-- `RectangleRuleSineEndPoints.__init__` as regenerated = the model constructor, for every `npoints`. -/
theorem rectanglesine_ctor_eq_make (npoints : ℤ) :
    Gen.OneD.RectangleRuleSineEndPoints.ctor (K := ℝ) npoints = (RectangleRuleSineEndPoints.make npoints).map Grid1D.toPy := by
  unfold Gen.OneD.RectangleRuleSineEndPoints.ctor RectangleRuleSineEndPoints.make
  by_cases h : npoints ≤ 1
  · simp [Gen.OneD.RectangleRuleSineEndPoints.rejects, h, Except.map]
  · simp only [Gen.OneD.RectangleRuleSineEndPoints.rejects, h, decide_false, Bool.false_eq_true, if_false]
    refine init_eq_model _ _ _ _ (range_map_ne_nil _ _ ?_) neg_one_le_one
    unfold Gen.OneD.RectangleRuleSineEndPoints.pointsLen
    omega

/-! ### the seven variable-substitution rules: guards (`h <= 0`, `npoints < 1`, `npoints % 2 == 0`; TanhSinh:
`npoints <= 1`, even `npoints`), the warning, index range and element-wise node / weight of `Gen/OneDFormulas` -/

theorem substPoints_ne_nil (node : ℝ → ℝ → ℝ) (kFirst : ℕ → ℤ) (kLen : ℕ → ℕ) (n : ℕ) (h : ℝ)
    (hk : 0 < kLen n) : substPoints node kFirst kLen n h ≠ [] := by
  unfold substPoints indexValues
  rw [List.map_map]
  exact range_map_ne_nil _ _ hk

theorem kLen6_pos (n : ℕ) (hn : 1 ≤ n) :
    0 < Int.toNat (((Int.tdiv ((n : ℤ) - (1 : ℤ)) 2) + (1 : ℤ)) - (-(Int.tdiv ((n : ℤ) - (1 : ℤ)) 2))) := by
  rw [Int.tdiv_eq_ediv_of_nonneg (by omega)]
  omega

/-- `TanhSinh.__init__` as regenerated = the model constructor, for every `npoints` and `delta`
(`npoints <= 1` and even `npoints` rejected). -/
theorem tanhsinh_ctor_eq_make (npoints : ℤ) (delta : ℝ) :
    Gen.OneD.TanhSinh.ctor npoints delta = (TanhSinh.make npoints delta).map Grid1D.toPy := by
  unfold Gen.OneD.TanhSinh.ctor TanhSinh.make
  by_cases h : npoints ≤ 1
  · simp [h, Except.map]
  · by_cases h2 : npoints % 2 = 0
    · simp [h, h2, Except.map]
    · simp only [h, h2, decide_false, Bool.false_eq_true, if_false]
      refine init_eq_model _ _ _ _ (substPoints_ne_nil _ _ _ _ _ ?_) neg_one_le_one
      unfold Gen.OneD.TanhSinh.kLen
      omega

/-- `ExpSinh.__init__` as regenerated = the model constructor, for every `npoints` and `h`. -/
theorem expsinh_ctor_eq_make (npoints : ℤ) (h : ℝ) :
    Gen.OneD.ExpSinh.ctor npoints h = (ExpSinh.make npoints h).map Grid1D.toPy := by
  unfold Gen.OneD.ExpSinh.ctor ExpSinh.make substMake
  by_cases h0 : h ≤ ((0 : ℕ) : ℝ)
  · have h0' : h ≤ 0 := by simpa using h0
    simp [h0', Py.pyWarn, Except.map]
  · by_cases h1 : npoints < 1
    · simp [h0, h1, Py.pyWarn, Except.map]
    · by_cases h2 : npoints % 2 = 0
      · simp [h0, h1, h2, Py.pyWarn, Except.map]
      · simp only [Py.pyWarn, h0, h1, h2, decide_false, Bool.false_eq_true, if_false]
        refine init_eq_model _ _ _ _ (substPoints_ne_nil _ _ _ _ _ ?_) (none_le _)
        unfold Gen.OneD.ExpSinh.kLen
        have : ((npoints.toNat : ℕ) : ℤ) = npoints := Int.toNat_of_nonneg (by omega)
        exact kLen6_pos _ (by omega)

/-- `LogExpSinh.__init__` as regenerated = the model constructor, for every `npoints` and `h`. -/
theorem logexpsinh_ctor_eq_make (npoints : ℤ) (h : ℝ) :
    Gen.OneD.LogExpSinh.ctor npoints h = (LogExpSinh.make npoints h).map Grid1D.toPy := by
  unfold Gen.OneD.LogExpSinh.ctor LogExpSinh.make substMake
  by_cases h0 : h ≤ ((0 : ℕ) : ℝ)
  · have h0' : h ≤ 0 := by simpa using h0
    simp [h0', Py.pyWarn, Except.map]
  · by_cases h1 : npoints < 1
    · simp [h0, h1, Py.pyWarn, Except.map]
    · by_cases h2 : npoints % 2 = 0
      · simp [h0, h1, h2, Py.pyWarn, Except.map]
      · simp only [Py.pyWarn, h0, h1, h2, decide_false, Bool.false_eq_true, if_false]
        refine init_eq_model _ _ _ _ (substPoints_ne_nil _ _ _ _ _ ?_) (none_le _)
        unfold Gen.OneD.LogExpSinh.kLen
        have : ((npoints.toNat : ℕ) : ℤ) = npoints := Int.toNat_of_nonneg (by omega)
        exact kLen6_pos _ (by omega)

/-- `ExpExp.__init__` as regenerated = the model constructor, for every `npoints` and `h`. -/
theorem expexp_ctor_eq_make (npoints : ℤ) (h : ℝ) :
    Gen.OneD.ExpExp.ctor npoints h = (ExpExp.make npoints h).map Grid1D.toPy := by
  unfold Gen.OneD.ExpExp.ctor ExpExp.make substMake
  by_cases h0 : h ≤ ((0 : ℕ) : ℝ)
  · have h0' : h ≤ 0 := by simpa using h0
    simp [h0', Py.pyWarn, Except.map]
  · by_cases h1 : npoints < 1
    · simp [h0, h1, Py.pyWarn, Except.map]
    · by_cases h2 : npoints % 2 = 0
      · simp [h0, h1, h2, Py.pyWarn, Except.map]
      · simp only [Py.pyWarn, h0, h1, h2, decide_false, Bool.false_eq_true, if_false]
        refine init_eq_model _ _ _ _ (substPoints_ne_nil _ _ _ _ _ ?_) (none_le _)
        unfold Gen.OneD.ExpExp.kLen
        have : ((npoints.toNat : ℕ) : ℤ) = npoints := Int.toNat_of_nonneg (by omega)
        exact kLen6_pos _ (by omega)

/-- `SingleTanh.__init__` as regenerated = the model constructor, for every `npoints` and `h`. -/
theorem singletanh_ctor_eq_make (npoints : ℤ) (h : ℝ) :
    Gen.OneD.SingleTanh.ctor npoints h = (SingleTanh.make npoints h).map Grid1D.toPy := by
  unfold Gen.OneD.SingleTanh.ctor SingleTanh.make substMake
  by_cases h0 : h ≤ ((0 : ℕ) : ℝ)
  · have h0' : h ≤ 0 := by simpa using h0
    simp [h0', Py.pyWarn, Except.map]
  · by_cases h1 : npoints < 1
    · simp [h0, h1, Py.pyWarn, Except.map]
    · by_cases h2 : npoints % 2 = 0
      · simp [h0, h1, h2, Py.pyWarn, Except.map]
      · simp only [Py.pyWarn, h0, h1, h2, decide_false, Bool.false_eq_true, if_false]
        refine init_eq_model _ _ _ _ (substPoints_ne_nil _ _ _ _ _ ?_) neg_one_le_one
        unfold Gen.OneD.SingleTanh.kLen
        have : ((npoints.toNat : ℕ) : ℤ) = npoints := Int.toNat_of_nonneg (by omega)
        exact kLen6_pos _ (by omega)

/-- `SingleExp.__init__` as regenerated = the model constructor, for every `npoints` and `h`. -/
theorem singleexp_ctor_eq_make (npoints : ℤ) (h : ℝ) :
    Gen.OneD.SingleExp.ctor npoints h = (SingleExp.make npoints h).map Grid1D.toPy := by
  unfold Gen.OneD.SingleExp.ctor SingleExp.make substMake
  by_cases h0 : h ≤ ((0 : ℕ) : ℝ)
  · have h0' : h ≤ 0 := by simpa using h0
    simp [h0', Py.pyWarn, Except.map]
  · by_cases h1 : npoints < 1
    · simp [h0, h1, Py.pyWarn, Except.map]
    · by_cases h2 : npoints % 2 = 0
      · simp [h0, h1, h2, Py.pyWarn, Except.map]
      · simp only [Py.pyWarn, h0, h1, h2, decide_false, Bool.false_eq_true, if_false]
        refine init_eq_model _ _ _ _ (substPoints_ne_nil _ _ _ _ _ ?_) (none_le _)
        unfold Gen.OneD.SingleExp.kLen
        have : ((npoints.toNat : ℕ) : ℤ) = npoints := Int.toNat_of_nonneg (by omega)
        exact kLen6_pos _ (by omega)

/-- `SingleArcSinhExp.__init__` as regenerated = the model constructor, for every `npoints` and `h`. -/
theorem singlearcsinhexp_ctor_eq_make (npoints : ℤ) (h : ℝ) :
    Gen.OneD.SingleArcSinhExp.ctor npoints h = (SingleArcSinhExp.make npoints h).map Grid1D.toPy := by
  unfold Gen.OneD.SingleArcSinhExp.ctor SingleArcSinhExp.make substMake
  by_cases h0 : h ≤ ((0 : ℕ) : ℝ)
  · have h0' : h ≤ 0 := by simpa using h0
    simp [h0', Py.pyWarn, Except.map]
  · by_cases h1 : npoints < 1
    · simp [h0, h1, Py.pyWarn, Except.map]
    · by_cases h2 : npoints % 2 = 0
      · simp [h0, h1, h2, Py.pyWarn, Except.map]
      · simp only [Py.pyWarn, h0, h1, h2, decide_false, Bool.false_eq_true, if_false]
        refine init_eq_model _ _ _ _ (substPoints_ne_nil _ _ _ _ _ ?_) (none_le _)
        unfold Gen.OneD.SingleArcSinhExp.kLen
        have : ((npoints.toNat : ℕ) : ℤ) = npoints := Int.toNat_of_nonneg (by omega)
        exact kLen6_pos _ (by omega)

/-! ### wrappers around NumPy / SciPy Gauss rules -/

/-- `GaussLegendre.__init__` as regenerated (guard, `leggauss` as a named primitive, domain) = the model. -/
theorem gausslegendre_ctor_eq_make (ext : Ext ℝ) (npoints : ℤ)
    (hne : (ext.leggauss npoints.toNat).1 ≠ []) :
    Gen.OneD.GaussLegendre.ctor ext npoints = (GaussLegendre.make ext.leggauss npoints).map Grid1D.toPy := by
  unfold Gen.OneD.GaussLegendre.ctor GaussLegendre.make
  by_cases h : npoints ≤ 1
  · simp [h, Except.map]
  · simp only [h, decide_false, Bool.false_eq_true, if_false]
    exact init_eq_model _ _ _ _ hne neg_one_le_one

/-- `GaussChebyshev.__init__` as regenerated (guard, `chebgauss`, `weights *= sqrt(1 - x^2)`, points reversed
and weights not, domain) = the model. -/
theorem gausschebyshev_ctor_eq_make (ext : Ext ℝ) (npoints : ℤ)
    (hne : (ext.chebgauss npoints.toNat).1 ≠ []) :
    Gen.OneD.GaussChebyshev.ctor ext npoints = (GaussChebyshev.make ext.chebgauss npoints).map Grid1D.toPy := by
  unfold Gen.OneD.GaussChebyshev.ctor GaussChebyshev.make
  by_cases h : npoints ≤ 1
  · simp [h, Except.map]
  · simp only [h, decide_false, Bool.false_eq_true, if_false]
    exact init_eq_model _ _ _ _ (by simpa using hne) neg_one_le_one

/-- `GaussChebyshevType2.__init__` as regenerated (guard `npoints < 1`, `roots_chebyu`, `weights /= sqrt(1 - x^2)`,
domain) = the model. -/
theorem gausschebyshevtype2_ctor_eq_make (ext : Ext ℝ) (npoints : ℤ)
    (hne : (ext.roots_chebyu npoints.toNat).1 ≠ []) :
    Gen.OneD.GaussChebyshevType2.ctor ext npoints
      = (GaussChebyshevType2.make ext.roots_chebyu npoints).map Grid1D.toPy := by
  unfold Gen.OneD.GaussChebyshevType2.ctor GaussChebyshevType2.make
  by_cases h : npoints < 1
  · simp [h, Except.map]
  · simp only [h, decide_false, Bool.false_eq_true, if_false]
    exact init_eq_model _ _ _ _ hne neg_one_le_one

/-- `GaussLaguerre.__init__` as regenerated (both guards, `roots_genlaguerre(npoints, alpha)`, the NaN test,
`weights *= exp(x) * x^(-alpha)`, domain `(0, inf)`) = the model. -/
theorem gausslaguerre_ctor_eq_make (ext : Ext ℝ) (npoints : ℤ) (alpha : ℝ)
    (hne : (ext.roots_genlaguerre npoints.toNat alpha).1 ≠ []) :
    Gen.OneD.GaussLaguerre.ctor ext npoints alpha
      = (GaussLaguerre.make ext.isnan (fun n => ext.roots_genlaguerre n alpha) npoints alpha).map Grid1D.toPy := by
  unfold Gen.OneD.GaussLaguerre.ctor GaussLaguerre.make
  by_cases h : npoints ≤ 1
  · simp [h, Except.map]
  · by_cases h2 : alpha ≤ -((1 : ℕ) : ℝ)
    · simp only [h, h2, decide_false, decide_true, Bool.false_eq_true, if_false, if_true]
      rfl
    · by_cases h3 : ((ext.roots_genlaguerre npoints.toNat alpha).2.any ext.isnan) = true
      · simp only [h, h2, h3, decide_false, decide_true, Bool.false_eq_true, if_false, if_true]
        rfl
      · simp only [h, h2, h3, decide_false, Bool.false_eq_true, if_false]
        exact init_eq_model _ _ _ _ hne (none_le _)

/-! ### Trefethen transformations -/

/-- the generated `_dergstrip` assembly is the model's -/
theorem dergstripAt_eq (rho s : ℝ) : Gen.OneD.dergstripAt rho s = OneD.dergstrip rho s := rfl

/-- a base constructor of the hand model seen as a Python class -/
def pyClass (f : ℤ → Except Err (Grid1D ℝ)) : ℤ → Except Err (PyGrid ℝ) :=
  fun n => (f n).map Grid1D.toPy

/-- `TrefethenGeneral.__init__` as regenerated (subclass test, `quadrature(npoints)`, the `d == 1 / 5 / 9` chain with
`_g2/_derg2/_g3/_derg3`, the `ValueError` of the `else`, domain) = the model, for every base constructor. -/
theorem trefethengeneral_ctor_eq_make (q : Option (ℤ → Except Err (Grid1D ℝ))) (npoints d : ℤ)
    (hne : ∀ f g, q = some f → f npoints = .ok g → g.points ≠ []) :
    Gen.OneD.TrefethenGeneral.ctor npoints (q.map pyClass) d
      = (TrefethenGeneral.make q npoints d).map Grid1D.toPy := by
  unfold Gen.OneD.TrefethenGeneral.ctor TrefethenGeneral.make
  cases q with
  | none => simp [Py.isOneDGridClass, Except.map]
  | some f =>
    simp only [Py.isOneDGridClass, Option.map_some, Option.isSome_some, Bool.not_true, Bool.false_eq_true,
      if_false, Py.callClass, pyClass]
    rw [bind_map_toPy]
    cases hf : f npoints with
    | error e => simp [Except.bind, Except.map]
    | ok g =>
      have hg := hne f g rfl hf
      simp only [Except.bind, trefPolyGrid, trefPoly]
      by_cases h1 : d = 1
      · simp only [h1, decide_true, if_true]
        exact init_eq_model _ _ _ _ (by simpa [Grid1D.toPy] using hg) neg_one_le_one
      · by_cases h5 : d = 5
        · simp only [h5, decide_true, decide_false, if_true, if_false, Bool.false_eq_true,
            show ¬ ((5 : ℤ) = 1) by decide]
          exact init_eq_model _ _ _ _ (by simpa [Grid1D.toPy] using hg) neg_one_le_one
        · by_cases h9 : d = 9
          · simp only [h9, decide_true, decide_false, if_true, if_false, Bool.false_eq_true,
              show ¬ ((9 : ℤ) = 1) by decide, show ¬ ((9 : ℤ) = 5) by decide]
            exact init_eq_model _ _ _ _ (by simpa [Grid1D.toPy] using hg) neg_one_le_one
          · simp [h1, h5, h9, Except.map]

/-- `TrefethenStripGeneral.__init__` as regenerated (`quadrature(npoints)`, `_gstrip`, `_dergstrip * weights`,
domain) = the model, for every base constructor. -/
theorem trefethenstripgeneral_ctor_eq_make (f : ℤ → Except Err (Grid1D ℝ)) (npoints : ℤ) (rho : ℝ)
    (hne : ∀ g, f npoints = .ok g → g.points ≠ []) :
    Gen.OneD.TrefethenStripGeneral.ctor npoints (pyClass f) rho
      = (TrefethenStripGeneral.make f npoints rho).map Grid1D.toPy := by
  unfold Gen.OneD.TrefethenStripGeneral.ctor TrefethenStripGeneral.make pyClass
  rw [bind_map_toPy]
  cases hf : f npoints with
  | error e => simp [Except.bind, Except.map]
  | ok g =>
    have hg := hne g hf
    simp only [Except.bind, trefStrip]
    exact init_eq_model _ _ _ _ (by simpa [Grid1D.toPy] using hg) neg_one_le_one

end GridVerif.C01

/-
  C01, clause "Fejér-2 integrates all polynomials of degree ≤ n-1 exactly, for every n" — the known
  finding `onedgrid.FejerSecond`, characterised for every `n`:

  * the rule with the complete sine series (`FejerSecondCorrected`, hand-written in `Model/OneD.lean`,
    `j = 1..⌊(n+1)/2⌋`) is exact on degree ≤ n-1 for every `n ≥ 1` (`fejer2_corrected_exact`);
  * the weights of the code (list program of `FejerSecond.__init__`, series length, denominators and
    frequencies from `Gen/OneDFormulas.lean`) are the corrected weights minus the contribution of the
    term `j = ⌊(n+1)/2⌋` (`fejer2_code_weights_defect`);
  * on the Chebyshev-`U` basis the code is exact except at the single degree `m* = 2⌊(n+1)/2⌋ - 2`
    (`= n-1` for odd `n`, `n-2` for even `n`), where it returns `0` instead of `2/(m*+1)`
    (`fejer2_code_U`, `fejer2_code_defect`); hence it is not exact on its class for **any** `n ≥ 2`
    (`fejer2_code_not_exact`) and exact on degree `< m*` (`fejer2_code_exact_below`).

  Discrete sine orthogonality on `θᵢ = (i+1)π/(n+1)`: `Lemmas/OneDSine.lean`.
-/
import GridVerif.Lemmas.OneDSine
import GridVerif.Lemmas.OneDShape

set_option linter.unusedSimpArgs false

namespace GridVerif.C01
open GridVerif GridVerif.OneD Finset Polynomial Polynomial.Chebyshev Real

/-- Fejér-2 weight at the angle `θᵢ = (i+1)π/(n+1)` with a sine series of `J` terms
(`j = l + 1 = 1..J`): `4 sin θᵢ/(n+1) · Σ_{l<J} sin((2l+1)θᵢ)/(2l+1)`. -/
noncomputable def fejer2W (J n i : ℕ) : ℝ :=
  4 * Real.sin (lobTheta (n + 1) (i + 1)) *
    (∑ l ∈ range J, Real.sin (((2 * l + 1 : ℕ) : ℝ) * lobTheta (n + 1) (i + 1)) / ((2 * l + 1 : ℕ) : ℝ))
    / ((n : ℝ) + 1)

/-- the nodes `cos θᵢ` listed in ascending order -/
noncomputable def fejer2Nodes (n : ℕ) : List ℝ :=
  ((List.range n).map fun (i : ℕ) => Real.cos (lobTheta (n + 1) (i + 1))).reverse

theorem fejer2_corr_theta_eq (n i : ℕ) :
    FejerSecondCorrected.theta (K := ℝ) n i = lobTheta (n + 1) (i + 1) := by
  simp only [FejerSecondCorrected.theta, lobTheta, Elem.pi, Nat.cast_one]
  push_cast; ring

/-- the hand-written corrected weights are `fejer2W` with `⌊(n+1)/2⌋` terms -/
theorem fejer2_corrected_weights_eq (n : ℕ) :
    FejerSecondCorrected.weights (K := ℝ) n
      = ((List.range n).map (fejer2W ((n + 1) / 2) n)).reverse := by
  unfold FejerSecondCorrected.weights
  congr 1
  apply List.map_congr_left
  intro i _
  simp only [FejerSecondCorrected.weightAt, FejerSecondCorrected.terms, FejerSecondCorrected.term, fejer2W,
    gsum_eq, fejer2_corr_theta_eq, Elem.sin, Nat.cast_ofNat, Nat.cast_one]

theorem fejer2_corrected_points_eq (n : ℕ) :
    FejerSecondCorrected.points (K := ℝ) n = fejer2Nodes n := by
  unfold FejerSecondCorrected.points fejer2Nodes
  congr 1
  apply List.map_congr_left
  intro i _
  simp only [fejer2_corr_theta_eq, Elem.cos]

/-! ### the series with `J` terms on the Chebyshev-`U` basis -/

/-- **Fejér-2 series with `J` terms, on `U_m`**: if the series does not alias (`2J ≤ n + 1`) then for
every `m < n`: `Σᵢ wᵢ U_m(xᵢ) = 2/(m+1)` when `m` is even and the term `j = m/2 + 1` is present
(`m/2 < J`), and `0` otherwise. -/
theorem fejer2_series_U (J n m : ℕ) (hJ : 2 * J ≤ n + 1) (hm : m < n) :
    quad ((List.range n).map (fejer2W J n)).reverse (fejer2Nodes n) (fun x => (U ℝ (m : ℤ)).eval x)
      = if m % 2 = 0 ∧ m / 2 < J then 2 / ((m : ℝ) + 1) else 0 := by
  have hn1 : ((n : ℝ) + 1) ≠ 0 := by positivity
  unfold fejer2Nodes
  rw [quad_reverse _ _ (by simp), quad_map_range]
  -- U_m(cos θ) sin θ = sin((m+1)θ)
  have hterm : ∀ i : ℕ, fejer2W J n i * (U ℝ (m : ℤ)).eval (Real.cos (lobTheta (n + 1) (i + 1)))
      = 4 / ((n : ℝ) + 1) * ∑ l ∈ range J, (1 / ((2 * l + 1 : ℕ) : ℝ)) *
          (Real.sin (((2 * l + 1 : ℕ) : ℝ) * lobTheta (n + 1) (i + 1)) *
            Real.sin (((m + 1 : ℕ) : ℝ) * lobTheta (n + 1) (i + 1))) := by
    intro i
    have hU := U_real_cos (lobTheta (n + 1) (i + 1)) (m : ℤ)
    have hU' : Real.sin (lobTheta (n + 1) (i + 1)) * (U ℝ (m : ℤ)).eval (Real.cos (lobTheta (n + 1) (i + 1)))
        = Real.sin (((m + 1 : ℕ) : ℝ) * lobTheta (n + 1) (i + 1)) := by
      rw [mul_comm, hU]; push_cast; ring_nf
    unfold fejer2W
    rw [← hU', mul_sum, sum_div, sum_mul, mul_sum]
    apply sum_congr rfl
    intro l _
    field_simp
  simp only [hterm]
  rw [← mul_sum, sum_comm]
  simp only [← mul_sum]
  have horth : ∀ l ∈ range J,
      ∑ i ∈ range n, Real.sin (((2 * l + 1 : ℕ) : ℝ) * lobTheta (n + 1) (i + 1)) *
          Real.sin (((m + 1 : ℕ) : ℝ) * lobTheta (n + 1) (i + 1))
        = if 2 * l + 1 = m + 1 then ((n : ℝ) + 1) / 2 else 0 := by
    intro l hl
    have : l < J := mem_range.mp hl
    exact sum_sin_mul_sin_interior n (2 * l + 1) (m + 1) (by omega) (by omega) (by omega)
  rw [sum_congr rfl (fun l hl => by rw [horth l hl])]
  by_cases hc : m % 2 = 0 ∧ m / 2 < J
  · rw [if_pos hc]
    rw [sum_eq_single (m / 2) (fun l _ hne => by rw [if_neg (by omega)]; simp)
      (fun h => absurd (mem_range.mpr hc.2) h), if_pos (by omega)]
    have hcast : ((2 * (m / 2) + 1 : ℕ) : ℝ) = (m : ℝ) + 1 := by
      have : 2 * (m / 2) + 1 = m + 1 := by omega
      rw [this]; push_cast; ring
    rw [hcast]
    field_simp
    ring
  · rw [if_neg hc]
    have : ∀ l ∈ range J, (1 / ((2 * l + 1 : ℕ) : ℝ)) * (if 2 * l + 1 = m + 1 then ((n : ℝ) + 1) / 2 else 0) = 0 := by
      intro l hl
      have : l < J := mem_range.mp hl
      rw [if_neg (by omega)]; simp
    rw [sum_congr rfl this]
    simp

/-! ### the corrected rule is exact -/

/-- **Fejér-2 with the complete series, on `U_m`**: for every `n ≥ 1` and `m ≤ n-1`. -/
theorem fejer2_corrected_exact_U (n : ℕ) (m : ℕ) (hm : m < n) :
    quad (FejerSecondCorrected.weights n) (FejerSecondCorrected.points n) (fun x => (U ℝ (m : ℤ)).eval x)
      = ∫ x in (-1 : ℝ)..1, (U ℝ (m : ℤ)).eval x := by
  rw [fejer2_corrected_weights_eq, fejer2_corrected_points_eq,
    fejer2_series_U ((n + 1) / 2) n m (by omega) hm, integral_U]
  by_cases hev : m % 2 = 0
  · rw [if_pos ⟨hev, by omega⟩, if_pos hev]
  · rw [if_neg (fun h => hev h.1), if_neg hev]

/-- **C01 (Fejér-2, corrected).** With the sine series running up to `j = ⌊(n+1)/2⌋` — the
hand-written `FejerSecondCorrected`, *not* the code — the Fejér rule of the second kind on the nodes
`cos(kπ/(n+1))`, `k = 1..n`, integrates every polynomial of degree ≤ n-1 exactly, for every `n ≥ 1`. -/
theorem fejer2_corrected_exact (n : ℕ) (p : ℝ[X]) (hp : p.natDegree < n) :
    quad (FejerSecondCorrected.weights n) (FejerSecondCorrected.points n) (fun x => p.eval x)
      = ∫ x in (-1 : ℝ)..1, p.eval x :=
  quad_poly_of_chebyshevU _ _ n (fun m hm => fejer2_corrected_exact_U n m hm) p hp

/-- non-vacuity: `n = 2` (where the code returns the weights `[0, 0]`) and `n = 5`. -/
example : quad (FejerSecondCorrected.weights 2) (FejerSecondCorrected.points 2) (fun x => (C 3 + X : ℝ[X]).eval x)
    = ∫ x in (-1 : ℝ)..1, (C 3 + X : ℝ[X]).eval x :=
  fejer2_corrected_exact 2 _ (by
    have : (C 3 + X : ℝ[X]).natDegree ≤ 1 :=
      (natDegree_add_le _ _).trans (max_le (by simp) (by simp))
    omega)
example : quad (FejerSecondCorrected.weights 5) (FejerSecondCorrected.points 5) (fun x => (X ^ 4 + X : ℝ[X]).eval x)
    = ∫ x in (-1 : ℝ)..1, (X ^ 4 + X : ℝ[X]).eval x :=
  fejer2_corrected_exact 5 _ (by
    have : (X ^ 4 + X : ℝ[X]).natDegree ≤ 4 :=
      (natDegree_add_le _ _).trans (max_le (by simp) (by simp))
    omega)

/-- the corrected rule is accepted by `OneDGrid.__init__` (nodes are cosines). -/
theorem fejer2_corrected_make (n : ℕ) (hn : 2 ≤ n) :
    FejerSecondCorrected.make (K := ℝ) (n : ℤ)
      = .ok ⟨FejerSecondCorrected.points n, FejerSecondCorrected.weights n, -1, some 1⟩ := by
  unfold FejerSecondCorrected.make
  simp only [show ¬ ((n : ℤ) ≤ 1) by omega, if_false, Int.toNat_natCast, negOne_real, one_real]
  apply oneDGrid_ok
  · simp [FejerSecondCorrected.points, FejerSecondCorrected.weights]
  · intro x hx
    simp only [FejerSecondCorrected.points, List.mem_reverse, List.mem_map] at hx
    obtain ⟨i, _, rfl⟩ := hx
    exact Real.neg_one_le_cos _
  · intro b hb x hx
    have : b = 1 := (Option.some.inj hb).symm
    subst this
    simp only [FejerSecondCorrected.points, List.mem_reverse, List.mem_map] at hx
    obtain ⟨i, _, rfl⟩ := hx
    exact Real.cos_le_one _

/-! ### the code as it is -/

/-- What the statements below need from the regenerated integer skeleton of `FejerSecond`:
both arrays have length `nsum - 1` with `nsum = (n+1)//2`, the series runs over `j = 1..nsum-1`
with denominator and frequency `2j - 1`, numerator `1`, and it is a sine series. -/
theorem fejer2_gen_facts (n : ℕ) :
    Gen.OneD.FejerSecond.bjLen n = (n + 1) / 2 - 1 ∧
    Gen.OneD.FejerSecond.jLen n = (n + 1) / 2 - 1 ∧
    Gen.OneD.FejerSecond.jOff n = 1 ∧
    (∀ l, Gen.OneD.FejerSecond.freq n (l + 1) = 2 * l + 1) ∧
    (∀ l, Gen.OneD.FejerSecond.denom n (l + 1) = 2 * l + 1) ∧
    Gen.OneD.FejerSecond.bjNum (K := ℝ) = 1 ∧
    (∀ x : ℝ, Gen.OneD.FejerSecond.trig x = Real.sin x) := by
  refine ⟨rfl, rfl, rfl, ?_, ?_, ?_, fun _ => rfl⟩
  · intro l; unfold Gen.OneD.FejerSecond.freq; omega
  · intro l; unfold Gen.OneD.FejerSecond.denom; omega
  · simp [Gen.OneD.FejerSecond.bjNum]

theorem fejer2_theta_eq (n i : ℕ) : Gen.OneD.FejerSecond.theta (K := ℝ) n i = lobTheta (n + 1) (i + 1) := by
  simp only [Gen.OneD.FejerSecond.theta, lobTheta, Elem.pi, Nat.cast_one]
  push_cast; ring

/-- the weights of the list program of `FejerSecond.__init__`, in closed form: `fejer2W` with
`⌊(n+1)/2⌋ - 1` terms -/
theorem fejer2_code_weights_eq (n : ℕ) :
    FejerSecond.weights (K := ℝ) n = ((List.range n).map (fejer2W ((n + 1) / 2 - 1) n)).reverse := by
  obtain ⟨h1, h2, h3, h4, h5, h6, h7⟩ := fejer2_gen_facts n
  have hbj : FejerSecond.bj (K := ℝ) n = (List.range ((n + 1) / 2 - 1)).map fun (l : ℕ) =>
      1 / ((2 * l + 1 : ℕ) : ℝ) := by
    unfold FejerSecond.bj FejerSecond.js
    rw [h1, h2, h3, zipWith_map_range]
    apply List.map_congr_left
    intro l _
    rw [h5 l, h6]
  have hsij : FejerSecond.sij (K := ℝ) n = (List.range ((n + 1) / 2 - 1)).map fun (l : ℕ) =>
      (List.range n).map fun (i : ℕ) => Real.sin (((2 * l + 1 : ℕ) : ℝ) * lobTheta (n + 1) (i + 1)) := by
    unfold FejerSecond.sij FejerSecond.js FejerSecond.theta
    rw [h2, h3, List.map_map]
    apply List.map_congr_left
    intro l _
    simp only [Function.comp, List.map_map]
    apply List.map_congr_left
    intro i _
    simp only [Function.comp, h4, h7, fejer2_theta_eq]
  unfold FejerSecond.weights
  rw [hbj, hsij, vecMat_map_range]
  unfold FejerSecond.theta
  rw [zipWith_map_range, List.map_reverse, List.map_map]
  congr 1
  apply List.map_congr_left
  intro i _
  simp only [Function.comp, fejer2W, fejer2_theta_eq, Elem.sin, Nat.cast_ofNat, Nat.cast_one]
  congr 2
  · apply sum_congr rfl
    intro l _
    ring
  · push_cast; ring

theorem fejer2_code_points_eq (n : ℕ) : FejerSecond.points (K := ℝ) n = fejer2Nodes n := by
  unfold FejerSecond.points FejerSecond.theta fejer2Nodes
  rw [List.map_map]
  congr 1
  apply List.map_congr_left
  intro i _
  simp only [Function.comp, fejer2_theta_eq, Elem.cos]

/-- **What the missing term is, weight by weight.**  For every `n ≥ 1` the weights computed by
`FejerSecond.__init__` are the corrected weights minus
`4 sin θᵢ · sin((2J-1)θᵢ) / ((2J-1)(n+1))`, `J = ⌊(n+1)/2⌋` (the term `j = J` of the series), and they
sit on the same nodes. -/
theorem fejer2_code_weights_defect (n : ℕ) (hn : 1 ≤ n) :
    FejerSecond.points (K := ℝ) n = FejerSecondCorrected.points n ∧
    FejerSecond.weights (K := ℝ) n
      = List.zipWith (fun w d => w - d) (FejerSecondCorrected.weights n) (FejerSecondCorrected.missing n) := by
  constructor
  · rw [fejer2_code_points_eq, fejer2_corrected_points_eq]
  · rw [fejer2_code_weights_eq, fejer2_corrected_weights_eq]
    unfold FejerSecondCorrected.missing
    rw [← List.reverse_zipWith (by simp), zipWith_map_range]
    congr 1
    apply List.map_congr_left
    intro i _
    obtain ⟨J', hJ'⟩ : ∃ J', (n + 1) / 2 = J' + 1 := ⟨(n + 1) / 2 - 1, by omega⟩
    simp only [FejerSecondCorrected.missingAt, FejerSecondCorrected.terms, FejerSecondCorrected.term,
      fejer2_corr_theta_eq, Elem.sin, Nat.cast_ofNat, Nat.cast_one, hJ', Nat.add_sub_cancel]
    unfold fejer2W
    rw [sum_range_succ]
    ring

/-- the degree at which the code fails: `m* = 2⌊(n+1)/2⌋ - 2` (`n-1` for odd `n`, `n-2` for even `n`) -/
def fejer2BadDegree (n : ℕ) : ℕ := 2 * ((n + 1) / 2) - 2

theorem fejer2BadDegree_lt (n : ℕ) (hn : 2 ≤ n) : fejer2BadDegree n < n := by
  unfold fejer2BadDegree; omega

theorem fejer2BadDegree_cases (n : ℕ) (hn : 2 ≤ n) :
    fejer2BadDegree n = if n % 2 = 1 then n - 1 else n - 2 := by
  unfold fejer2BadDegree; split <;> omega

/-- **The code on the `U` basis, every `n ≥ 2`**: `Σᵢ wᵢ U_m(xᵢ) = ∫_{-1}^{1} U_m` for every `m ≤ n-1`
except `m = m*`, where the sum is `0` and the integral is `2/(m*+1)`. -/
theorem fejer2_code_U (n : ℕ) (hn : 2 ≤ n) (m : ℕ) (hm : m < n) :
    quad (FejerSecond.weights n) (FejerSecond.points n) (fun x => (U ℝ (m : ℤ)).eval x)
      = (∫ x in (-1 : ℝ)..1, (U ℝ (m : ℤ)).eval x)
          - (if m = fejer2BadDegree n then 2 / ((m : ℝ) + 1) else 0) := by
  rw [fejer2_code_weights_eq, fejer2_code_points_eq,
    fejer2_series_U ((n + 1) / 2 - 1) n m (by omega) hm, integral_U]
  unfold fejer2BadDegree
  by_cases hev : m % 2 = 0
  · by_cases hbad : m = 2 * ((n + 1) / 2) - 2
    · rw [if_neg (by omega), if_pos hev, if_pos hbad]; ring
    · rw [if_pos ⟨hev, by omega⟩, if_pos hev, if_neg hbad]; ring
  · rw [if_neg (fun h => hev h.1), if_neg hev, if_neg (by omega)]; ring

/-- **The defect of the code, every `n ≥ 2`, every polynomial of degree ≤ n-1** written in the `U`
basis, `p = Σ_{i<n} cᵢ U_i`: the rule returns `∫p - c_{m*} · 2/(m*+1)` — the whole `U_{m*}` component
of `p` is lost, nothing else. -/
theorem fejer2_code_defect (n : ℕ) (hn : 2 ≤ n) (c : ℕ → ℝ) :
    quad (FejerSecond.weights n) (FejerSecond.points n)
        (fun x => (∑ i ∈ range n, c i • U ℝ (i : ℤ)).eval x)
      = (∫ x in (-1 : ℝ)..1, (∑ i ∈ range n, c i • U ℝ (i : ℤ)).eval x)
          - c (fejer2BadDegree n) * (2 / ((fejer2BadDegree n : ℝ) + 1)) := by
  simp only [eval_finsetSum, eval_smul, smul_eq_mul]
  rw [quad_finset_sum, intervalIntegral.integral_finsetSum (fun i _ =>
    (Continuous.intervalIntegrable (by fun_prop) _ _))]
  simp only [intervalIntegral.integral_const_mul]
  rw [sum_congr rfl (fun i hi => by rw [fejer2_code_U n hn i (mem_range.mp hi)])]
  simp only [mul_sub, sum_sub_distrib]
  congr 1
  rw [sum_eq_single (fejer2BadDegree n) (fun i _ hne => by rw [if_neg hne]; simp)
    (fun h => absurd (mem_range.mpr (fejer2BadDegree_lt n hn)) h), if_pos rfl]

/-- **Known finding, for every `n`**: the Fejér-2 rule as coded is not exact on its polynomial
class for any admissible `n ≥ 2` — `U_{m*}` (degree `m* ≤ n-1`) is integrated to `0`, its integral is
`2/(m*+1) ≠ 0`. -/
theorem fejer2_code_not_exact (n : ℕ) (hn : 2 ≤ n) :
    ∃ p : ℝ[X], p.natDegree < n ∧
      quad (FejerSecond.weights n) (FejerSecond.points n) (fun x => p.eval x)
        ≠ ∫ x in (-1 : ℝ)..1, p.eval x := by
  refine ⟨U ℝ (fejer2BadDegree n : ℤ), ?_, ?_⟩
  · rw [natDegree_U_natCast]; exact fejer2BadDegree_lt n hn
  · rw [fejer2_code_U n hn _ (fejer2BadDegree_lt n hn), if_pos rfl]
    have : (2 : ℝ) / ((fejer2BadDegree n : ℝ) + 1) ≠ 0 := by positivity
    intro h
    apply this
    linarith

/-- non-vacuity: `m*` at `n = 2, 6, 7`; the statement at `n = 6` (even: degree `n-2 = 4` is lost). -/
example : fejer2BadDegree 2 = 0 ∧ fejer2BadDegree 6 = 4 ∧ fejer2BadDegree 7 = 6 := by decide
example : ∃ p : ℝ[X], p.natDegree < 6 ∧
    quad (FejerSecond.weights 6) (FejerSecond.points 6) (fun x => p.eval x) ≠ ∫ x in (-1 : ℝ)..1, p.eval x :=
  fejer2_code_not_exact 6 (by norm_num)

/-- …and it *is* exact below the bad degree: every polynomial of degree `< m*`
(i.e. ≤ n-2 for odd `n`, ≤ n-3 for even `n`) is integrated exactly by the code. -/
theorem fejer2_code_exact_below (n : ℕ) (hn : 2 ≤ n) (p : ℝ[X]) (hp : p.natDegree < fejer2BadDegree n) :
    quad (FejerSecond.weights n) (FejerSecond.points n) (fun x => p.eval x)
      = ∫ x in (-1 : ℝ)..1, p.eval x :=
  quad_poly_of_chebyshevU _ _ (fejer2BadDegree n) (fun m hm => by
    rw [fejer2_code_U n hn m (hm.trans (fejer2BadDegree_lt n hn)), if_neg (by omega)]; ring) p hp

/-- non-vacuity of `fejer2_code_exact_below`: `n = 7` (`m* = 6`), `p = X^5 + X^2`. -/
example : quad (FejerSecond.weights 7) (FejerSecond.points 7) (fun x => (X ^ 5 + X ^ 2 : ℝ[X]).eval x)
    = ∫ x in (-1 : ℝ)..1, (X ^ 5 + X ^ 2 : ℝ[X]).eval x :=
  fejer2_code_exact_below 7 (by norm_num) _ (by
    have : (X ^ 5 + X ^ 2 : ℝ[X]).natDegree ≤ 5 :=
      (natDegree_add_le _ _).trans (max_le (by simp) (by simp))
    have h6 : fejer2BadDegree 7 = 6 := by decide
    omega)

end GridVerif.C01

/-
  C01, Trefethen strip map (`_gstrip`, `_dergstrip`): proof of `gstrip_shape_full` of `Closed.lean`:
  for `rho > 1` the map fixes `±1`, is strictly increasing on `[-1, 1]`, and the `np.isclose` branch of
  `_dergstrip` (`dergstripEnd`) is the one-sided limit of the derivative (`dergstripInterior`) at `|s| = 1`.
-/
import GridVerif.Props.C01.Closed
import Mathlib.Analysis.Calculus.Deriv.MeanValue
import Mathlib.Analysis.Calculus.Deriv.Slope
import Mathlib.Analysis.Calculus.Deriv.Inv
import Mathlib.Analysis.SpecialFunctions.Trigonometric.DerivHyp
import Mathlib.Analysis.SpecialFunctions.Trigonometric.Deriv
import Mathlib.Analysis.SpecialFunctions.Trigonometric.Inverse
import Mathlib.Analysis.SpecialFunctions.Log.Deriv
import Mathlib.Analysis.SpecialFunctions.ExpDeriv

namespace GridVerif.C01
open GridVerif GridVerif.OneD Real
open Gen.OneD
open Filter Topology

/-! ### Normal forms of the generated formulas -/

/-- `termd` of `_gstrip` as a function of `τ = π / log rho`. -/
noncomputable def stripTd (τ : ℝ) : ℝ := 1 / 2 + 1 / (Real.exp (τ * π) + 1)

/-- `cn` of `_gstrip` as a function of `τ = π / log rho`. -/
noncomputable def stripCn (τ : ℝ) : ℝ :=
  1 / (Real.log (1 + Real.exp (-τ * π)) - Real.log 2 + π * τ * stripTd τ / 2)

/-- the `s`-dependent factor of `_dergstrip`, as a function of `u = arcsin s`. -/
noncomputable def stripH (τ u : ℝ) : ℝ :=
  1 / (Real.exp (τ * (π / 2 + u)) + 1) + 1 / (Real.exp (τ * (π / 2 - u)) + 1) - stripTd τ

theorem gstrip_eq (rho s : ℝ) : gstrip rho s =
    stripCn (π / Real.log rho) *
      (Real.log (1 + Real.exp (-(π / Real.log rho) * (π / 2 + Real.arcsin s)))
        - Real.log (1 + Real.exp (-(π / Real.log rho) * (π / 2 - Real.arcsin s)))
        + stripTd (π / Real.log rho) * (π / Real.log rho) * Real.arcsin s) := by
  simp only [gstrip, stripCn, stripTd, Nat.cast_ofNat, Nat.cast_one, Elem.exp, Elem.log, Elem.arcsin,
    Elem.pi]

theorem dergstripInterior_eq (rho s : ℝ) : dergstripInterior rho s =
    stripH (π / Real.log rho) (Real.arcsin s) *
      (-stripCn (π / Real.log rho) * (π / Real.log rho) / Real.sqrt (1 - s ^ 2)) := by
  simp only [dergstripInterior, stripH, stripCn, stripTd, Nat.cast_ofNat, Nat.cast_one, Elem.exp,
    Elem.log, Elem.arcsin, Elem.sqrt, Elem.pi, npow_eq_pow]

theorem dergstripEnd_eq (rho s : ℝ) : dergstripEnd rho s =
    stripCn (π / Real.log rho) * (π / Real.log rho) ^ 2 / 4 *
      Real.tanh ((π / Real.log rho) * π / 2) ^ 2 := by
  simp only [dergstripEnd, stripCn, stripTd, Nat.cast_ofNat, Nat.cast_one, Elem.exp,
    Elem.log, Elem.tanh, Elem.pi, npow_eq_pow]

/-! ### (a) the normalisation constant is positive -/

/-- denominator of `cn` as a function of `a = τ π`. -/
noncomputable def stripDen (a : ℝ) : ℝ :=
  Real.log (1 + Real.exp (-a)) - Real.log 2 + a * (1 / 2 + 1 / (Real.exp a + 1)) / 2

theorem stripDen_hasDerivAt (a : ℝ) : HasDerivAt stripDen
    ((Real.exp a ^ 2 - 1 - 2 * a * Real.exp a) / (4 * (Real.exp a + 1) ^ 2)) a := by
  unfold stripDen
  have hE : HasDerivAt (fun x => Real.exp x) (Real.exp a) a := Real.hasDerivAt_exp a
  have hn : HasDerivAt (fun x : ℝ => Real.exp (-x)) (Real.exp (-a) * (-1)) a :=
    (hasDerivAt_neg a).exp
  have l1 := (hn.const_add 1).log (by positivity)
  have inv : HasDerivAt (fun x : ℝ => 1 / (Real.exp x + 1))
      ((0 * (Real.exp a + 1) - 1 * Real.exp a) / (Real.exp a + 1) ^ 2) a :=
    (hasDerivAt_const a (1 : ℝ)).div (hE.add_const 1) (by positivity)
  have m : HasDerivAt (fun x : ℝ => x * (1 / 2 + 1 / (Real.exp x + 1)))
      (1 * (1 / 2 + 1 / (Real.exp a + 1)) +
        a * ((0 * (Real.exp a + 1) - 1 * Real.exp a) / (Real.exp a + 1) ^ 2)) a :=
    (hasDerivAt_id' a).mul (inv.const_add (1 / 2))
  have h := (l1.sub_const (Real.log 2)).add (m.div_const 2)
  refine h.congr_deriv ?_
  rw [Real.exp_neg]
  have e1 : Real.exp a ≠ 0 := (Real.exp_pos _).ne'
  have e2 : Real.exp a + 1 ≠ 0 := by positivity
  field_simp
  ring

theorem stripDen_zero : stripDen 0 = 0 := by
  unfold stripDen
  norm_num

theorem stripDen_pos {a : ℝ} (ha : 0 < a) : 0 < stripDen a := by
  have hmono : StrictMonoOn stripDen (Set.Ici 0) := by
    refine strictMonoOn_of_deriv_pos (convex_Ici 0)
      (fun x _ => (stripDen_hasDerivAt x).continuousAt.continuousWithinAt) ?_
    intro x hx
    rw [interior_Ici] at hx
    rw [(stripDen_hasDerivAt x).deriv]
    have hs := Real.self_lt_sinh_iff.mpr hx
    rw [Real.sinh_eq, Real.exp_neg] at hs
    have hE := Real.exp_pos x
    refine div_pos ?_ (by positivity)
    generalize Real.exp x = E at *
    have hEi : E * E⁻¹ = 1 := mul_inv_cancel₀ hE.ne'
    have := mul_lt_mul_of_pos_right hs hE
    nlinarith
  have := hmono (Set.mem_Ici.mpr le_rfl) (Set.mem_Ici.mpr ha.le) ha
  rwa [stripDen_zero] at this

theorem stripCn_eq (τ : ℝ) : stripCn τ = 1 / stripDen (τ * π) := by
  unfold stripCn stripDen stripTd
  rw [neg_mul, mul_comm π τ]

/-- C01, Trefethen strip map: the normalisation constant `cn` is well defined and positive for
`rho > 1` (`τ = π / log rho > 0`), which is what makes "fixes ±1, strictly increasing" hold. -/
theorem gstrip_cn_pos (rho : ℝ) (h : 1 < rho) :
    0 < π / Real.log rho ∧ 0 < stripCn (π / Real.log rho) := by
  have hτ : 0 < π / Real.log rho := div_pos pi_pos (Real.log_pos h)
  refine ⟨hτ, ?_⟩
  rw [stripCn_eq]
  exact one_div_pos.mpr (stripDen_pos (mul_pos hτ pi_pos))

/-! ### (b) end points -/

/-- C01, Trefethen strip map: fixes `±1` (`_gstrip rho (±1) = ±1` for `rho > 1`). -/
theorem gstrip_endpoints (rho : ℝ) (h : 1 < rho) : gstrip rho 1 = 1 ∧ gstrip rho (-1) = -1 := by
  have hτ : 0 < π / Real.log rho := div_pos pi_pos (Real.log_pos h)
  simp only [gstrip_eq, Real.arcsin_one, Real.arcsin_neg_one]
  generalize π / Real.log rho = τ at hτ ⊢
  have hD := (stripDen_pos (mul_pos hτ pi_pos)).ne'
  rw [stripCn_eq]
  have e1 : -τ * (π / 2 + π / 2) = -(τ * π) := by ring
  have e2 : -τ * (π / 2 - π / 2) = 0 := by ring
  have e3 : -τ * (π / 2 + -(π / 2)) = 0 := by ring
  have e4 : -τ * (π / 2 - -(π / 2)) = -(τ * π) := by ring
  rw [e1, e2, e3, e4, Real.exp_zero]
  have hnum : Real.log (1 + Real.exp (-(τ * π))) - Real.log (1 + 1) + stripTd τ * τ * (π / 2)
      = stripDen (τ * π) := by
    unfold stripDen stripTd
    norm_num
    ring
  constructor
  · rw [hnum]
    exact one_div_mul_cancel hD
  · have : Real.log (1 + 1) - Real.log (1 + Real.exp (-(τ * π))) + stripTd τ * τ * -(π / 2)
        = -stripDen (τ * π) := by
      rw [← hnum]; ring
    rw [this, mul_neg, one_div_mul_cancel hD]

/-! ### (c) strict monotonicity -/

theorem strip_sign_aux {A B : ℝ} (hA : 1 < A) (hB : 1 < B) :
    1 / (A + 1) + 1 / (B + 1) - (1 / 2 + 1 / (A * B + 1)) < 0 := by
  have hA0 : 0 < A := by linarith
  have hB0 : 0 < B := by linarith
  have e : 1 / (A + 1) + 1 / (B + 1) - (1 / 2 + 1 / (A * B + 1))
      = -((A * B - 1) * ((A - 1) * (B - 1))) / (2 * (A * B + 1) * (A + 1) * (B + 1)) := by
    field_simp
    ring
  rw [e]
  have h1 : 0 < (A - 1) * (B - 1) := mul_pos (by linarith) (by linarith)
  have h2 : 0 < A * B - 1 := by nlinarith
  have h3 : 0 < (A * B - 1) * ((A - 1) * (B - 1)) := mul_pos h2 h1
  exact div_neg_of_neg_of_pos (by linarith) (by positivity)

theorem stripH_neg {τ u : ℝ} (hτ : 0 < τ) (h1 : -(π / 2) < u) (h2 : u < π / 2) : stripH τ u < 0 := by
  unfold stripH stripTd
  have hC : Real.exp (τ * π) = Real.exp (τ * (π / 2 + u)) * Real.exp (τ * (π / 2 - u)) := by
    rw [← Real.exp_add]; congr 1; ring
  rw [hC]
  exact strip_sign_aux (Real.one_lt_exp_iff.mpr (mul_pos hτ (by linarith)))
    (Real.one_lt_exp_iff.mpr (mul_pos hτ (by linarith)))

/-- the derivative `_dergstrip` (interior branch) is positive on `(-1, 1)` for `rho > 1`. -/
theorem dergstripInterior_pos (rho : ℝ) (h : 1 < rho) {s : ℝ} (hs : -1 < s ∧ s < 1) :
    0 < dergstripInterior rho s := by
  obtain ⟨hτ, hcn⟩ := gstrip_cn_pos rho h
  rw [dergstripInterior_eq]
  generalize π / Real.log rho = τ at hτ hcn ⊢
  have hH := stripH_neg hτ (Real.neg_pi_div_two_lt_arcsin.mpr hs.1) (Real.arcsin_lt_pi_div_two.mpr hs.2)
  have hsq : 0 < Real.sqrt (1 - s ^ 2) := Real.sqrt_pos.mpr (by nlinarith)
  refine mul_pos_of_neg_of_neg hH (div_neg_of_neg_of_pos ?_ hsq)
  have := mul_pos hcn hτ
  linarith

theorem gstrip_continuous (rho : ℝ) : Continuous fun s : ℝ => gstrip rho s := by
  simp only [gstrip_eq]
  generalize π / Real.log rho = τ
  have c1 : Continuous fun s : ℝ => Real.log (1 + Real.exp (-τ * (π / 2 + Real.arcsin s))) :=
    Continuous.log (by fun_prop) (fun s => by positivity)
  have c2 : Continuous fun s : ℝ => Real.log (1 + Real.exp (-τ * (π / 2 - Real.arcsin s))) :=
    Continuous.log (by fun_prop) (fun s => by positivity)
  have c3 : Continuous fun s : ℝ => stripTd τ * τ * Real.arcsin s := by fun_prop
  exact continuous_const.mul ((c1.sub c2).add c3)

/-- C01, Trefethen strip map: `_gstrip rho` is strictly increasing on `[-1, 1]` for `rho > 1`. -/
theorem gstrip_strictMonoOn (rho : ℝ) (h : 1 < rho) :
    StrictMonoOn (fun s => gstrip rho s) (Set.Icc (-1) 1) := by
  refine strictMonoOn_of_deriv_pos (convex_Icc _ _) (gstrip_continuous rho).continuousOn ?_
  intro x hx
  rw [interior_Icc] at hx
  rw [(dergstrip_is_deriv_gstrip rho x ⟨hx.1, hx.2⟩).deriv]
  exact dergstripInterior_pos rho h ⟨hx.1, hx.2⟩

/-! ### (d) the `np.isclose` branch is the one-sided limit of the derivative -/

theorem stripH_at (τ : ℝ) : stripH τ (π / 2) = 0 := by
  unfold stripH stripTd
  rw [add_halves, sub_self, mul_zero, Real.exp_zero]
  ring

theorem stripH_neg_arg (τ u : ℝ) : stripH τ (-u) = stripH τ u := by
  unfold stripH
  rw [sub_neg_eq_add, ← sub_eq_add_neg]
  ring

theorem stripH_hasDerivAt (τ : ℝ) : HasDerivAt (stripH τ)
    (τ * (1 / 4 - Real.exp (τ * π) / (Real.exp (τ * π) + 1) ^ 2)) (π / 2) := by
  unfold stripH
  have i1 : HasDerivAt (fun u : ℝ => τ * (π / 2 + u)) (τ * 1) (π / 2) :=
    ((hasDerivAt_id' (π / 2)).const_add (π / 2)).const_mul τ
  have i2 : HasDerivAt (fun u : ℝ => τ * (π / 2 - u)) (τ * (-1)) (π / 2) :=
    ((hasDerivAt_id' (π / 2)).const_sub (π / 2)).const_mul τ
  have d1 := (hasDerivAt_const (π / 2) (1 : ℝ)).div (i1.exp.add_const 1) (by positivity)
  have d2 := (hasDerivAt_const (π / 2) (1 : ℝ)).div (i2.exp.add_const 1) (by positivity)
  have h := (d1.add d2).sub_const (stripTd τ)
  refine h.congr_deriv ?_
  rw [add_halves, sub_self, mul_zero, Real.exp_zero]
  have e2 : Real.exp (τ * π) + 1 ≠ 0 := by positivity
  field_simp
  ring

theorem strip_ratio_tendsto (τ : ℝ) :
    Tendsto (fun u => stripH τ u / Real.cos u) (𝓝[≠] (π / 2))
      (𝓝 (τ * (1 / 4 - Real.exp (τ * π) / (Real.exp (τ * π) + 1) ^ 2) / (-1))) := by
  have h1 := hasDerivAt_iff_tendsto_slope.mp (stripH_hasDerivAt τ)
  have h2 := hasDerivAt_iff_tendsto_slope.mp (Real.hasDerivAt_cos (π / 2))
  rw [Real.sin_pi_div_two] at h2
  have h3 := h1.div h2 (by norm_num)
  refine h3.congr' ?_
  filter_upwards [self_mem_nhdsWithin] with u hu
  have hne : (u - π / 2)⁻¹ ≠ 0 := inv_ne_zero (sub_ne_zero.mpr hu)
  simp only [Pi.div_apply, slope, vsub_eq_sub, smul_eq_mul, stripH_at, Real.cos_pi_div_two, sub_zero]
  exact mul_div_mul_left _ _ hne

theorem strip_tanh_sq (a : ℝ) :
    Real.tanh (a / 2) ^ 2 = 4 * (1 / 4 - Real.exp a / (Real.exp a + 1) ^ 2) := by
  have hq : Real.exp a = Real.exp (a / 2) ^ 2 := by
    rw [sq, ← Real.exp_add, add_halves]
  rw [Real.tanh_eq, Real.exp_neg, hq]
  have hpos := Real.exp_pos (a / 2)
  generalize Real.exp (a / 2) = q at hpos
  have : q ≠ 0 := hpos.ne'
  have : q ^ 2 + 1 ≠ 0 := by positivity
  field_simp
  ring

theorem arcsin_tendsto_left :
    Tendsto Real.arcsin (𝓝[<] (1 : ℝ)) (𝓝[≠] (π / 2)) := by
  refine tendsto_nhdsWithin_iff.mpr ⟨?_, ?_⟩
  · have := Real.continuous_arcsin.continuousAt (x := (1 : ℝ))
    rw [ContinuousAt, Real.arcsin_one] at this
    exact this.mono_left nhdsWithin_le_nhds
  · filter_upwards [self_mem_nhdsWithin] with s hs
    exact (Real.arcsin_lt_pi_div_two.mpr hs).ne

/-- C01, Trefethen strip map: the `np.isclose` branch of `_dergstrip` (`dergstripEnd`) equals the
one-sided limit of the derivative `dergstripInterior rho s` as `s → 1⁻` (for every `rho`, in
particular for `rho > 1`). -/
theorem dergstrip_end_is_limit (rho : ℝ) :
    Tendsto (fun s => dergstripInterior rho s) (𝓝[<] 1) (𝓝 (dergstripEnd rho 1)) := by
  simp only [dergstripInterior_eq, dergstripEnd_eq]
  generalize π / Real.log rho = τ
  have h := ((strip_ratio_tendsto τ).comp arcsin_tendsto_left).mul_const (-stripCn τ * τ)
  have hval : τ * (1 / 4 - Real.exp (τ * π) / (Real.exp (τ * π) + 1) ^ 2) / (-1) * (-stripCn τ * τ)
      = stripCn τ * τ ^ 2 / 4 * Real.tanh (τ * π / 2) ^ 2 := by
    rw [strip_tanh_sq]; ring
  rw [← hval]
  refine h.congr fun s => ?_
  simp only [Function.comp_apply, Real.cos_arcsin]
  ring

/-- `_dergstrip` (interior branch) is even in `s`. -/
theorem dergstripInterior_neg (rho s : ℝ) : dergstripInterior rho (-s) = dergstripInterior rho s := by
  simp only [dergstripInterior_eq, Real.arcsin_neg, stripH_neg_arg, neg_sq]

/-- C01, mirrored clause: `dergstripEnd` is also the one-sided limit of the derivative as `s → -1⁺`. -/
theorem dergstrip_end_is_limit_left (rho : ℝ) :
    Tendsto (fun s => dergstripInterior rho s) (𝓝[>] (-1)) (𝓝 (dergstripEnd rho (-1))) := by
  have hneg : Tendsto (fun s : ℝ => -s) (𝓝[>] (-1)) (𝓝[<] 1) := by
    refine tendsto_nhdsWithin_iff.mpr ⟨?_, ?_⟩
    · have : Tendsto (fun s : ℝ => -s) (𝓝 (-1)) (𝓝 (- -1)) := (continuous_neg.tendsto _)
      rw [neg_neg] at this
      exact this.mono_left nhdsWithin_le_nhds
    · filter_upwards [self_mem_nhdsWithin] with s hs
      have : -1 < s := hs
      show -s < 1
      linarith
  have h := (dergstrip_end_is_limit rho).comp hneg
  have e : dergstripEnd rho (-1) = dergstripEnd rho 1 := by simp only [dergstripEnd_eq]
  rw [e]
  refine h.congr fun s => ?_
  simp only [Function.comp_apply, dergstripInterior_neg]

/-! ### the window of the end-point branch -/

/-- `mask_true` of `_dergstrip` (regenerated from the `np.isclose` call of the source): the end-point
branch is taken exactly when `|s|` is within `1e-8` of `1` (`np.isclose(|s| - 1, 0, atol=1e-8)`: the
relative part of the tolerance multiplies the reference `0`). -/
theorem dergstripMask_iff (s : ℝ) : dergstripMask s = true ↔ |(|s| - 1)| ≤ 1 / 100000000 := by
  simp [dergstripMask, Elem.abs]

/-- Outside that window the value `_dergstrip` returns is the interior formula … -/
theorem dergstrip_eq_interior (rho s : ℝ) (h : 1 / 100000000 < |(|s| - 1)|) :
    OneD.dergstrip rho s = dergstripInterior rho s := by
  have : ¬ dergstripMask s = true := fun hm => absurd ((dergstripMask_iff s).1 hm) (not_le.2 h)
  simp [OneD.dergstrip, this]

/-- … hence C01's weight factor: at every node `-1 < s < 1` farther than `1e-8` from the end points
the factor `_dergstrip` multiplies the base weight with is the derivative of the node map `_gstrip`. -/
theorem dergstrip_is_deriv_outside_window (rho s : ℝ) (hs : -1 < s ∧ s < 1)
    (h : 1 / 100000000 < |(|s| - 1)|) :
    HasDerivAt (fun y : ℝ => gstrip rho y) (OneD.dergstrip rho s) s := by
  rw [dergstrip_eq_interior rho s h]
  exact dergstrip_is_deriv_gstrip rho s hs

/-- Inside the window the returned value is the end-point constant (the one-sided limit of the
derivative, `dergstrip_end_is_limit`), whatever `s`. -/
theorem dergstrip_eq_end (rho s : ℝ) (h : |(|s| - 1)| ≤ 1 / 100000000) :
    OneD.dergstrip rho s = dergstripEnd rho 1 := by
  have hm : dergstripMask s = true := (dergstripMask_iff s).2 h
  simp only [OneD.dergstrip, hm, if_true]
  simp [dergstripEnd]

/-- non-vacuity: `s = 0.99999` (a node `1e-5` from the end: outside the window) and `s = 1 - 1e-9`
(inside). -/
example : (1 / 100000000 : ℝ) < |(|(99999 / 100000 : ℝ)| - 1)| ∧
    |(|(999999999 / 1000000000 : ℝ)| - 1)| ≤ 1 / 100000000 := by
  constructor <;> norm_num [abs_of_nonneg, abs_of_nonpos]

/-! ### the full statement -/

/-- C01, Trefethen strip map: `gstrip_shape_full` of `Closed.lean` holds: for `rho > 1`, `_gstrip rho`
fixes `±1`, is strictly increasing on `[-1, 1]`, and the `np.isclose` branch of `_dergstrip` equals the
one-sided limit of the derivative at `s = 1`. -/
theorem gstrip_shape : gstrip_shape_full := fun rho h =>
  ⟨(gstrip_endpoints rho h).1, (gstrip_endpoints rho h).2, gstrip_strictMonoOn rho h,
    dergstrip_end_is_limit rho⟩

/-- non-vacuity: the hypotheses are satisfiable, `rho = 1.1` (the default of `TrefethenStripCC`). -/
example : gstrip (11 / 10 : ℝ) 1 = 1 ∧ gstrip (11 / 10 : ℝ) (-1) = -1 ∧
    StrictMonoOn (fun s => gstrip (11 / 10 : ℝ) s) (Set.Icc (-1) 1) ∧
    Tendsto (fun s => dergstripInterior (11 / 10 : ℝ) s) (𝓝[<] 1) (𝓝 (dergstripEnd (11 / 10 : ℝ) 1)) :=
  gstrip_shape (11 / 10) (by norm_num)

end GridVerif.C01

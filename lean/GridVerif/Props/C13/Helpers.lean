/-
  C13 (3/4) — `from_molecule` (margin) and `closest_point`.

  Model: `Cubic.fromMolecule`, `Cubic.closestPoint` at `K = ℝ` (`Rounding ℝ`: `⌈·⌉`, `⌊·⌋`, nearest
  integer with ties to even).  Both functions violate the property as coded; the model follows the
  code, the negations are proved at concrete witnesses, and what does hold is proved as `_partial` /
  under the explicit hypotheses `0 < aᵢ` and "rounded coordinates inside the grid".
-/
import GridVerif.Props.C13.Index
import GridVerif.Props.C13.Weights

namespace GridVerif.C13
open GridVerif GridVerif.Cubic GridVerif.Gen.CubicIndex

/-! ### `from_molecule` -/

/-- Axis-aligned box (`rotate=False`): every nucleus lies inside the grid with at least the margin
`ext − spacing` to the first and to the last grid point of every axis. -/
def MarginOK (origin : List ℝ) (shape : List Int) (spacing ext : ℝ) (coords : List (List ℝ)) : Prop :=
  ∀ r ∈ coords, ∀ d : Fin 3, ∃ rd od, ∃ nd : Int, r[d.val]? = some rd ∧ origin[d.val]? = some od ∧
    shape[d.val]? = some nd ∧
    od + (ext - spacing) ≤ rd ∧ rd ≤ od + ((nd : ℝ) - 1) * spacing - (ext - spacing)

/-- The clause at full strength (`rotate=False`): for every molecule the box contains every nucleus
with the requested margin less one spacing. -/
def from_molecule_margin_full : Prop :=
  ∀ (nums : List ℝ) (coords : List (List ℝ)) (spacing ext : ℝ),
    coords ≠ [] → nums.length = coords.length → (∀ r ∈ coords, r.length = 3) →
    (∀ z ∈ nums, 0 < z) → 0 < spacing → 0 ≤ ext →
    ∃ origin axes shape, fromMolecule nums coords spacing ext none = .ok (origin, axes, shape) ∧
      MarginOK origin shape spacing ext coords

set_option maxRecDepth 2000 in
/-- The code as it is, on charges (9, 1) at x = 0 and x = 10, spacing 1, extension 2:
origin (−6,−2,−2), shape (14,4,4) — the box spans x ∈ [−6, 7]. -/
theorem from_molecule_witness :
    fromMolecule [(9 : ℝ), 1] [[0, 0, 0], [10, 0, 0]] 1 2 none
      = .ok ([-6, -2, -2], [[1, 0, 0], [0, 1, 0], [0, 0, 1]], [14, 4, 4]) := by
  simp [fromMolecule, sumK_eq_sum, column, maxK, minK, List.range_succ, bind, Except.bind, pure, Except.pure,
    ceilI_eq]
  have h14 : (14 : ℤ).toNat = 14 := rfl
  have h4 : (4 : ℤ).toNat = 4 := rfl
  norm_num
  rw [h14, h4]
  norm_num

/-- **`from_molecule` violates the margin clause**: in the witness the nucleus at x = 10 lies 3 bohr
outside the box [−6, 7] (requested: at least 2 − 1 = 1 bohr inside). -/
theorem from_molecule_margin_fails_at :
    ¬ MarginOK [-6, -2, -2] [14, 4, 4] 1 2 [[0, 0, 0], [10, 0, 0]] := by
  intro h
  obtain ⟨rd, od, nd, h1, h2, h3, _, h5⟩ := h [10, 0, 0] (by simp) ⟨0, by omega⟩
  simp at h1 h2 h3
  subst h1 h2 h3
  norm_num at h5

theorem from_molecule_margin_full_false : ¬ from_molecule_margin_full := by
  intro h
  obtain ⟨o, a, n, h1, h2⟩ := h [9, 1] [[0, 0, 0], [10, 0, 0]] 1 2 (by simp) rfl
    (by intro r hr; simp at hr; rcases hr with rfl | rfl <;> rfl)
    (by intro z hz; simp at hz; rcases hz with rfl | rfl <;> norm_num) (by norm_num) (by norm_num)
  rw [from_molecule_witness] at h1
  simp only [Except.ok.injEq, Prod.mk.injEq] at h1
  obtain ⟨rfl, _, rfl⟩ := h1
  exact from_molecule_margin_fails_at h2

/-- **What holds** (per axis, the arithmetic of the code: length `⌈(max − min + 2·ext)/h⌉·h` placed
symmetrically around `c`): if the centre of charge `c` is the centre of the extent, every coordinate
between `min` and `max` keeps the margin `ext` to the first grid point and `ext − h` to the last one. -/
theorem from_molecule_margin_partial (mx mn c h e : ℝ) (hh : 0 < h) (hc : c = (mx + mn) / 2)
    (n : ℤ) (hn : n = Rounding.ceilI ((mx - mn + 2 * e) / h)) (o : ℝ) (ho : o = c - 1 / 2 * n * h)
    (r : ℝ) (h1 : mn ≤ r) (h2 : r ≤ mx) :
    o + e ≤ r ∧ r ≤ o + ((n : ℝ) - 1) * h - (e - h) := by
  have hceil : (mx - mn + 2 * e) / h ≤ n := by rw [hn, ceilI_eq]; exact Int.le_ceil _
  have hnh : mx - mn + 2 * e ≤ n * h := by rwa [div_le_iff₀ hh] at hceil
  subst ho hc
  constructor <;> nlinarith

/-- the hypothesis of `from_molecule_margin_partial` is met e.g. by H₂ at x = ±1 (spacing 1,
extension 1: the pinned test of the repository), where the code gives origin −2 and 4 points. -/
example : fromMolecule [(1 : ℝ), 1] [[1, 0, 0], [-1, 0, 0]] 1 1 none
    = .ok ([-2, -1, -1], [[1, 0, 0], [0, 1, 0], [0, 0, 1]], [4, 2, 2]) := by
  simp [fromMolecule, sumK_eq_sum, column, maxK, minK, List.range_succ, bind, Except.bind, pure, Except.pure,
    ceilI_eq]
  have h4 : (4 : ℤ).toNat = 4 := rfl
  have h2 : (2 : ℤ).toNat = 2 := rfl
  norm_num
  try rw [h4]
  try rw [h2]
  norm_num

/-! ### `closest_point` -/

theorem isDiagonal_diag3 (a0 a1 a2 : ℝ) : isDiagonal [[a0, 0, 0], [0, a1, 0], [0, 0, a2]] = true := by
  simp [isDiagonal, List.range_succ]

theorem isDiagonal_diag2 (a0 a1 : ℝ) : isDiagonal [[a0, 0], [0, a1]] = true := by
  simp [isDiagonal, List.range_succ]

theorem vecNorm_diag3 (a : ℝ) :
    vecNorm [a, 0, 0] = |a| ∧ vecNorm [0, a, 0] = |a| ∧ vecNorm [0, 0, a] = |a| := by
  simp [vecNorm, sumK_eq_sum, Elem.sqrt, Real.sqrt_mul_self_eq_abs]

theorem vecNorm_diag2 (a : ℝ) : vecNorm [a, 0] = |a| ∧ vecNorm [0, a] = |a| := by
  simp [vecNorm, sumK_eq_sum, Elem.sqrt, Real.sqrt_mul_self_eq_abs]

/-- `closest_point` on diagonal axes, as coded: the rounded quotient by `|aᵢ|` (the norm of the
axis), fed to the stride code — no sign, no range check. -/
theorem closest_eval3 (o0 o1 o2 a0 a1 a2 p0 p1 p2 : ℝ) (s0 s1 s2 : Nat) :
    closestPoint [o0, o1, o2] [[a0, 0, 0], [0, a1, 0], [0, 0, a2]] [s0, s1, s2] [p0, p1, p2] (some .closest)
      = .ok ((Rounding.rintI ((p0 - o0) / |a0|) : ℤ) * ((s1 : ℤ) * s2) + Rounding.rintI ((p1 - o1) / |a1|) * s2
          + Rounding.rintI ((p2 - o2) / |a2|)) := by
  unfold closestPoint
  rw [isDiagonal_diag3]
  simp only [List.map_cons, List.map_nil, (vecNorm_diag3 _).1, (vecNorm_diag3 _).2.1, (vecNorm_diag3 _).2.2,
    List.length_cons, List.length_nil, List.range_succ, List.range_zero]
  simp [bind, Except.bind, pure, Except.pure, c2i3]

theorem closest_eval2 (o0 o1 a0 a1 p0 p1 : ℝ) (s0 s1 : Nat) :
    closestPoint [o0, o1] [[a0, 0], [0, a1]] [s0, s1] [p0, p1] (some .closest)
      = .ok ((Rounding.rintI ((p0 - o0) / |a0|) : ℤ) * (s1 : ℤ) + Rounding.rintI ((p1 - o1) / |a1|)) := by
  unfold closestPoint
  rw [isDiagonal_diag2]
  simp only [List.map_cons, List.map_nil, (vecNorm_diag2 _).1, (vecNorm_diag2 _).2,
    List.length_cons, List.length_nil, List.range_succ, List.range_zero]
  simp [bind, Except.bind, pure, Except.pure, c2i2]

/-- one axis: the rounded fractional coordinate is a nearest node coordinate. -/
theorem axis_nearest (p o a : ℝ) (ha : 0 < a) (z : ℤ) :
    (p - (o + (Rounding.rintI ((p - o) / a) : ℤ) * a)) ^ 2 ≤ (p - (o + z * a)) ^ 2 := by
  have key := rintI_nearest ((p - o) / a) z
  have e1 : p - (o + (Rounding.rintI ((p - o) / a) : ℤ) * a) = a * ((p - o) / a - (Rounding.rintI ((p - o) / a) : ℤ)) := by
    field_simp; ring
  have e2 : p - (o + z * a) = a * ((p - o) / a - z) := by field_simp; ring
  rw [e1, e2, mul_pow, mul_pow]
  exact mul_le_mul_of_nonneg_left (sq_le_sq.mpr key) (by positivity)

/-- **Nearest node, 3-D, positive diagonal axes**: if the rounded coordinates lie inside the grid, the
returned number is the flat index of a node `(i,j,k)` of the grid, and that node is at least as close
to the query point as *every* lattice node `origin + z₀a₀ + z₁a₁ + z₂a₂` (in particular every node of
the grid). Per-axis separability; ties go to the even coordinate. -/
theorem closest_point_spec3 (o0 o1 o2 a0 a1 a2 p0 p1 p2 : ℝ) (s0 s1 s2 : Nat)
    (h0 : 0 < a0) (h1 : 0 < a1) (h2 : 0 < a2) (i j k : Nat)
    (hi : (Rounding.rintI ((p0 - o0) / a0) : ℤ) = i) (hj : (Rounding.rintI ((p1 - o1) / a1) : ℤ) = j)
    (hk : (Rounding.rintI ((p2 - o2) / a2) : ℤ) = k) (hi' : i < s0) (hj' : j < s1) (hk' : k < s2) :
    closestPoint [o0, o1, o2] [[a0, 0, 0], [0, a1, 0], [0, 0, a2]] [s0, s1, s2] [p0, p1, p2] (some .closest)
        = .ok ((i * (s1 * s2) + j * s2 + k : Nat) : ℤ) ∧
    indexToCoordinates 3 [(s0 : Int), s1, s2] ((i * (s1 * s2) + j * s2 + k : Nat) : ℤ) = .ok [(i : Int), j, k] ∧
    ∀ z0 z1 z2 : ℤ,
      (p0 - (o0 + i * a0)) ^ 2 + (p1 - (o1 + j * a1)) ^ 2 + (p2 - (o2 + k * a2)) ^ 2
        ≤ (p0 - (o0 + z0 * a0)) ^ 2 + (p1 - (o1 + z1 * a1)) ^ 2 + (p2 - (o2 + z2 * a2)) ^ 2 := by
  refine ⟨?_, ?_, ?_⟩
  · rw [closest_eval3, abs_of_pos h0, abs_of_pos h1, abs_of_pos h2, hi, hj, hk]
    exact congrArg Except.ok (by push_cast; ring)
  · obtain ⟨idx, _, hidx, _, h⟩ := coords_roundtrip3 s0 s1 s2 i j k hi' hj' hk' 0
    rw [hidx] at h; exact h
  · intro z0 z1 z2
    have e0 := axis_nearest p0 o0 a0 h0 z0
    have e1 := axis_nearest p1 o1 a1 h1 z1
    have e2 := axis_nearest p2 o2 a2 h2 z2
    rw [hi] at e0; rw [hj] at e1; rw [hk] at e2
    push_cast at e0 e1 e2
    linarith

/-- **Nearest node, 2-D, positive diagonal axes.** -/
theorem closest_point_spec2 (o0 o1 a0 a1 p0 p1 : ℝ) (s0 s1 : Nat)
    (h0 : 0 < a0) (h1 : 0 < a1) (i j : Nat)
    (hi : (Rounding.rintI ((p0 - o0) / a0) : ℤ) = i) (hj : (Rounding.rintI ((p1 - o1) / a1) : ℤ) = j)
    (hi' : i < s0) (hj' : j < s1) :
    closestPoint [o0, o1] [[a0, 0], [0, a1]] [s0, s1] [p0, p1] (some .closest)
        = .ok ((i * s1 + j : Nat) : ℤ) ∧
    indexToCoordinates 2 [(s0 : Int), s1] ((i * s1 + j : Nat) : ℤ) = .ok [(i : Int), j] ∧
    ∀ z0 z1 : ℤ,
      (p0 - (o0 + i * a0)) ^ 2 + (p1 - (o1 + j * a1)) ^ 2
        ≤ (p0 - (o0 + z0 * a0)) ^ 2 + (p1 - (o1 + z1 * a1)) ^ 2 := by
  refine ⟨?_, ?_, ?_⟩
  · rw [closest_eval2, abs_of_pos h0, abs_of_pos h1, hi, hj]
    exact congrArg Except.ok (by push_cast; ring)
  · obtain ⟨idx, _, hidx, _, h⟩ := coords_roundtrip2 s0 s1 i j hi' hj' 0
    rw [hidx] at h; exact h
  · intro z0 z1
    have e0 := axis_nearest p0 o0 a0 h0 z0
    have e1 := axis_nearest p1 o1 a1 h1 z1
    rw [hi] at e0; rw [hj] at e1
    push_cast at e0 e1
    linarith

/-- Non-vacuity of `closest_point_spec3`: unit axes, shape (3,4,5), query (1, 2, 3): node (1,2,3). -/
example : (Rounding.rintI (((1 : ℝ) - 0) / 1) : ℤ) = (1 : ℕ) ∧ (Rounding.rintI (((2 : ℝ) - 0) / 1) : ℤ) = (2 : ℕ)
    ∧ (Rounding.rintI (((3 : ℝ) - 0) / 1) : ℤ) = (3 : ℕ) := by
  refine ⟨?_, ?_, ?_⟩
  · have := rintI_intCast 1; norm_num at this ⊢; exact this
  · have := rintI_intCast 2; norm_num at this ⊢; exact this
  · have := rintI_intCast 3; norm_num at this ⊢; exact this

/-- The clause at full strength: for *every* diagonal (orthogonal) axes and every query point the
returned value is the flat index of a nearest node of the grid. -/
def closest_point_full : Prop :=
  ∀ (o0 o1 o2 a0 a1 a2 p0 p1 p2 : ℝ) (s0 s1 s2 : Nat), a0 ≠ 0 → a1 ≠ 0 → a2 ≠ 0 →
    2 ≤ s0 → 2 ≤ s1 → 2 ≤ s2 →
    ∃ i j k : Nat, i < s0 ∧ j < s1 ∧ k < s2 ∧
      closestPoint [o0, o1, o2] [[a0, 0, 0], [0, a1, 0], [0, 0, a2]] [s0, s1, s2] [p0, p1, p2] (some .closest)
        = .ok ((i * (s1 * s2) + j * s2 + k : Nat) : ℤ) ∧
      ∀ i' j' k' : Nat, i' < s0 → j' < s1 → k' < s2 →
        (p0 - (o0 + i * a0)) ^ 2 + (p1 - (o1 + j * a1)) ^ 2 + (p2 - (o2 + k * a2)) ^ 2
          ≤ (p0 - (o0 + i' * a0)) ^ 2 + (p1 - (o1 + j' * a1)) ^ 2 + (p2 - (o2 + k' * a2)) ^ 2

/-- **Negative diagonal axis**: origin 0, axes diag(−1, 1, 1), shape (3,3,3). The query point
(−1, 0, 0) *is* the node (1,0,0) (flat index 9); the code divides by the norm of the axis and returns
−9, which is not an index of the grid. -/
theorem closest_point_negative_axis_fails_at :
    closestPoint [(0 : ℝ), 0, 0] [[-1, 0, 0], [0, 1, 0], [0, 0, 1]] [3, 3, 3] [-1, 0, 0] (some .closest)
      = .ok (-9) ∧
    pointAt [(0 : ℝ), 0, 0] [[-1, 0, 0], [0, 1, 0], [0, 0, 1]] [1, 0, 0] = [-1, 0, 0] := by
  constructor
  · rw [closest_eval3]
    have h1 := rintI_intCast (-1)
    have h0 := rintI_intCast 0
    norm_num at h1 h0 ⊢
    rw [h1, h0]; norm_num
  · simp [pointAt]

/-- **Query point outside the box**: unit axes, shape (3,3,3), query (0,0,3) (one step beyond the last
node of the z axis). The code returns 3, the flat index of the node (0,1,0) at squared distance 10; the
nearest node is (0,0,2) at squared distance 1. No clipping, no range check. -/
theorem closest_point_outside_fails_at :
    closestPoint [(0 : ℝ), 0, 0] [[1, 0, 0], [0, 1, 0], [0, 0, 1]] [3, 3, 3] [0, 0, 3] (some .closest) = .ok 3 ∧
    indexToCoordinates 3 [3, 3, 3] 3 = .ok [0, 1, 0] ∧
    ((0 : ℝ) - 0) ^ 2 + (0 - 1) ^ 2 + (3 - 0) ^ 2 = 10 ∧ ((0 : ℝ) - 0) ^ 2 + (0 - 0) ^ 2 + (3 - 2) ^ 2 = 1 := by
  refine ⟨?_, by decide, by norm_num, by norm_num⟩
  rw [closest_eval3]
  have h3 := rintI_intCast 3
  have h0 := rintI_intCast 0
  norm_num at h3 h0 ⊢
  rw [h3, h0]; norm_num

theorem closest_point_full_false : ¬ closest_point_full := by
  intro h
  obtain ⟨i, j, k, _, _, _, hc, _⟩ := h 0 0 0 (-1) 1 1 (-1) 0 0 3 3 3 (by norm_num) (by norm_num) (by norm_num)
    (by omega) (by omega) (by omega)
  rw [closest_point_negative_axis_fails_at.1] at hc
  have : (-9 : ℤ) = ((i * (3 * 3) + j * 3 + k : Nat) : ℤ) := by simpa using hc
  omega

end GridVerif.C13

/-
  C13 (3/4) — `from_molecule` (margin) and `closest_point`.

  Model: `Cubic.fromMolecule`, `Cubic.closestPoint` at `K = ℝ` (`Rounding ℝ`: `⌈·⌉`, `⌊·⌋`, nearest
  integer with ties to even).  `from_molecule` violates the property as coded: the model follows the
  code, the negations are proved at concrete witnesses, what does hold is proved as `_partial`/`_centred`.
  `closest_point` (after the repairs 87e136a signed step, e7cb5e5 clipping) is proved at full strength:
  every non-zero diagonal axes, every query point.
-/
import GridVerif.Props.C13.Index
import GridVerif.Props.C13.Weights

namespace GridVerif.C13
open GridVerif GridVerif.Cubic GridVerif.Gen.CubicIndex

/-! ### `from_molecule` -/

/-- Axis-aligned box (`rotate=False`): every nucleus lies inside the grid with at least the margin
`ext − spacing` to the first and to the last grid point of every axis. -/
def MarginOK (origin : List ℝ) (shape : List Int) (spacing ext : ℝ) (coords : List (List ℝ)) : Prop :=
  ∀ r ∈ coords, ∀ d : Fin 3, ∃ rd od, ∃ nd : Int, r[d.val]? = some rd ∧ origin[d.val]? = some od ∧
    shape[d.val]? = some nd ∧
    od + (ext - spacing) ≤ rd ∧ rd ≤ od + ((nd : ℝ) - 1) * spacing - (ext - spacing)

/-- The clause at full strength (`rotate=False`): for every molecule the box contains every nucleus
with the requested margin less one spacing. -/
def from_molecule_margin_full : Prop :=
  ∀ (nums : List ℝ) (coords : List (List ℝ)) (spacing ext : ℝ),
    coords ≠ [] → nums.length = coords.length → (∀ r ∈ coords, r.length = 3) →
    (∀ z ∈ nums, 0 < z) → 0 < spacing → 0 ≤ ext →
    ∃ origin axes shape, fromMolecule nums coords spacing ext none = .ok (origin, axes, shape) ∧
      MarginOK origin shape spacing ext coords

set_option maxRecDepth 2000 in
/-- The code as it is, on charges (9, 1) at x = 0 and x = 10, spacing 1, extension 2:
origin (−6,−2,−2), shape (14,4,4) — the box spans x ∈ [−6, 7]. -/
theorem from_molecule_witness :
    fromMolecule [(9 : ℝ), 1] [[0, 0, 0], [10, 0, 0]] 1 2 none
      = .ok ([-6, -2, -2], [[1, 0, 0], [0, 1, 0], [0, 0, 1]], [14, 4, 4]) := by
  simp [fromMolecule, sumK_eq_sum, column, maxK, minK, List.range_succ, bind, Except.bind, pure, Except.pure,
    ceilI_eq]
  have h14 : (14 : ℤ).toNat = 14 := rfl
  have h4 : (4 : ℤ).toNat = 4 := rfl
  norm_num
  rw [h14, h4]
  norm_num

/-- **`from_molecule` violates the margin clause**: in the witness the nucleus at x = 10 lies 3 bohr
outside the box [−6, 7] (requested: at least 2 − 1 = 1 bohr inside). -/
theorem from_molecule_margin_fails_at :
    ¬ MarginOK [-6, -2, -2] [14, 4, 4] 1 2 [[0, 0, 0], [10, 0, 0]] := by
  intro h
  obtain ⟨rd, od, nd, h1, h2, h3, _, h5⟩ := h [10, 0, 0] (by simp) ⟨0, by omega⟩
  simp at h1 h2 h3
  subst h1 h2 h3
  norm_num at h5

theorem from_molecule_margin_full_false : ¬ from_molecule_margin_full := by
  intro h
  obtain ⟨o, a, n, h1, h2⟩ := h [9, 1] [[0, 0, 0], [10, 0, 0]] 1 2 (by simp) rfl
    (by intro r hr; simp at hr; rcases hr with rfl | rfl <;> rfl)
    (by intro z hz; simp at hz; rcases hz with rfl | rfl <;> norm_num) (by norm_num) (by norm_num)
  rw [from_molecule_witness] at h1
  simp only [Except.ok.injEq, Prod.mk.injEq] at h1
  obtain ⟨rfl, _, rfl⟩ := h1
  exact from_molecule_margin_fails_at h2

/-- **What holds** (per axis, the arithmetic of the code: length `⌈(max − min + 2·ext)/h⌉·h` placed
symmetrically around `c`): if the centre of charge `c` is the centre of the extent, every coordinate
between `min` and `max` keeps the margin `ext` to the first grid point and `ext − h` to the last one. -/
theorem from_molecule_margin_partial (mx mn c h e : ℝ) (hh : 0 < h) (hc : c = (mx + mn) / 2)
    (n : ℤ) (hn : n = Rounding.ceilI ((mx - mn + 2 * e) / h)) (o : ℝ) (ho : o = c - 1 / 2 * n * h)
    (r : ℝ) (h1 : mn ≤ r) (h2 : r ≤ mx) :
    o + e ≤ r ∧ r ≤ o + ((n : ℝ) - 1) * h - (e - h) := by
  have hceil : (mx - mn + 2 * e) / h ≤ n := by rw [hn, ceilI_eq]; exact Int.le_ceil _
  have hnh : mx - mn + 2 * e ≤ n * h := by rwa [div_le_iff₀ hh] at hceil
  subst ho hc
  constructor <;> nlinarith

theorem foldl_maxK_ge (l : List ℝ) (a : ℝ) : a ≤ l.foldl maxK a ∧ ∀ x ∈ l, x ≤ l.foldl maxK a := by
  induction l generalizing a with
  | nil => simp
  | cons b t ih =>
    simp only [List.foldl_cons, List.mem_cons]
    obtain ⟨h1, h2⟩ := ih (maxK a b)
    have hab : a ≤ maxK a b ∧ b ≤ maxK a b := by
      unfold maxK; split <;> constructor <;> linarith
    refine ⟨le_trans hab.1 h1, ?_⟩
    rintro x (rfl | hx)
    · exact le_trans hab.2 h1
    · exact h2 x hx

theorem foldl_minK_le (l : List ℝ) (a : ℝ) : l.foldl minK a ≤ a ∧ ∀ x ∈ l, l.foldl minK a ≤ x := by
  induction l generalizing a with
  | nil => simp
  | cons b t ih =>
    simp only [List.foldl_cons, List.mem_cons]
    obtain ⟨h1, h2⟩ := ih (minK a b)
    have hab : minK a b ≤ a ∧ minK a b ≤ b := by
      unfold minK; split <;> constructor <;> linarith
    refine ⟨le_trans h1 hab.1, ?_⟩
    rintro x (rfl | hx)
    · exact le_trans h1 hab.2
    · exact h2 x hx

/-- the integer → real conversion written with `NatCast`/`Neg` in the model is the cast. -/
theorem half_cast' (s : ℤ) (h : ℝ) :
    (if s < 0 then -(2⁻¹ * |(s : ℝ)| * h) else 2⁻¹ * ((s.toNat : ℕ) : ℝ) * h) = 1 / 2 * (s : ℝ) * h := by
  split
  · have hs : (s : ℝ) < 0 := by exact_mod_cast (by assumption : s < 0)
    rw [abs_of_neg hs]; ring
  · have h0 : 0 ≤ s := by omega
    have := Int.toNat_of_nonneg h0
    have e : ((s.toNat : ℕ) : ℝ) = (s : ℝ) := by exact_mod_cast congrArg (Int.cast : ℤ → ℝ) this
    rw [e]; ring

set_option maxRecDepth 4000 in
/-- `from_molecule(rotate=False)` in closed form, for every molecule (first atom split off to express
non-emptiness): per axis `n_d = ⌈(max_d − min_d + 2·ext)/h⌉` points, origin `c_d − n_d·h/2` with `c` the
centre of charge. -/
theorem from_molecule_spec (nums : List ℝ) (x0 y0 z0 : ℝ) (rest : List (List ℝ)) (h e : ℝ)
    (hlen : nums.length = rest.length + 1) (h3 : ∀ r ∈ rest, r.length = 3) :
    let coords := [x0, y0, z0] :: rest
    let c : Nat → ℝ := fun d => (List.zipWith (· * ·) nums (column coords d)).sum / nums.sum
    let mx : Nat → ℝ := fun d => match column coords d with | [] => 0 | a :: t => t.foldl maxK a
    let mn : Nat → ℝ := fun d => match column coords d with | [] => 0 | a :: t => t.foldl minK a
    let n : Nat → ℤ := fun d => ⌈(mx d - mn d + 2 * e) / h⌉
    fromMolecule nums coords h e none
      = .ok ([c 0 - 1 / 2 * n 0 * h, c 1 - 1 / 2 * n 1 * h, c 2 - 1 / 2 * n 2 * h],
             [[h, 0, 0], [0, h, 0], [0, 0, h]], [n 0, n 1, n 2]) := by
  intro coords c mx mn n
  unfold fromMolecule
  simp only [coords]
  simp [hlen, sumK_eq_sum, column, List.range_succ, bind, Except.bind, pure, Except.pure, ceilI_eq,
    c, mx, mn, n]
  have hno : ¬ ∃ x ∈ rest, ¬ x.length = 3 := by intro ⟨x, hx, hne⟩; exact hne (h3 x hx)
  rw [if_neg hno]
  simp only [half_cast']
  simp [coords]

theorem column_bounds (coords : List (List ℝ)) (d : Nat) (r : List ℝ) (hr : r ∈ coords) (rd : ℝ)
    (hrd : r[d]? = some rd) :
    (match column coords d with | [] => 0 | a :: t => t.foldl minK a) ≤ rd ∧
    rd ≤ (match column coords d with | [] => 0 | a :: t => t.foldl maxK a) := by
  have hm : rd ∈ column coords d := by
    unfold column; exact List.mem_filterMap.mpr ⟨r, hr, hrd⟩
  cases hcol : column coords d with
  | nil => rw [hcol] at hm; cases hm
  | cons a t =>
    rw [hcol] at hm
    simp only
    rcases List.mem_cons.mp hm with rfl | ht
    · exact ⟨(foldl_minK_le t rd).1, (foldl_maxK_ge t rd).1⟩
    · exact ⟨(foldl_minK_le t a).2 rd ht, (foldl_maxK_ge t a).2 rd ht⟩

/-- **What holds, for every molecule** (`rotate=False`): if on each axis the centre of charge is the
centre of the extent of the nuclei (e.g. molecules symmetric about their centre of charge), the grid
built by the code contains every nucleus with margin ≥ `ext` below and ≥ `ext − spacing` above. -/
theorem from_molecule_margin_centred (nums : List ℝ) (x0 y0 z0 : ℝ) (rest : List (List ℝ)) (h e : ℝ)
    (hlen : nums.length = rest.length + 1) (h3 : ∀ r ∈ rest, r.length = 3) (hh : 0 < h)
    (hc : ∀ d, d < 3 →
      (List.zipWith (· * ·) nums (column ([x0, y0, z0] :: rest) d)).sum / nums.sum
        = ((match column ([x0, y0, z0] :: rest) d with | [] => 0 | a :: t => t.foldl maxK a)
           + (match column ([x0, y0, z0] :: rest) d with | [] => 0 | a :: t => t.foldl minK a)) / 2) :
    ∃ origin axes shape, fromMolecule nums ([x0, y0, z0] :: rest) h e none = .ok (origin, axes, shape) ∧
      MarginOK origin shape h e ([x0, y0, z0] :: rest) := by
  have spec := from_molecule_spec nums x0 y0 z0 rest h e hlen h3
  simp only at spec
  refine ⟨_, _, _, spec, ?_⟩
  intro r hr d
  have hl : r.length = 3 := by
    rcases List.mem_cons.mp hr with rfl | h'
    · rfl
    · exact h3 r h'
  have hd : d.val < r.length := by rw [hl]; exact d.isLt
  have hrd : r[d.val]? = some r[d.val] := List.getElem?_eq_getElem hd
  obtain ⟨hlo, hhi⟩ := column_bounds _ d.val r hr _ hrd
  have key := from_molecule_margin_partial _ _ _ h e hh (hc d.val d.isLt) _ rfl _ rfl r[d.val] hlo hhi
  refine ⟨r[d.val], _, _, hrd, ?_, ?_, ?_, key.2⟩
  · fin_cases d <;> rfl
  · fin_cases d <;> rfl
  · have := key.1; linarith

/-- the hypothesis of `from_molecule_margin_partial` is met e.g. by H₂ at x = ±1 (spacing 1,
extension 1: the pinned test of the repository), where the code gives origin −2 and 4 points. -/
example : fromMolecule [(1 : ℝ), 1] [[1, 0, 0], [-1, 0, 0]] 1 1 none
    = .ok ([-2, -1, -1], [[1, 0, 0], [0, 1, 0], [0, 0, 1]], [4, 2, 2]) := by
  simp [fromMolecule, sumK_eq_sum, column, maxK, minK, List.range_succ, bind, Except.bind, pure, Except.pure,
    ceilI_eq]
  have h4 : (4 : ℤ).toNat = 4 := rfl
  have h2 : (2 : ℤ).toNat = 2 := rfl
  norm_num
  try rw [h4]
  try rw [h2]
  norm_num

set_option maxRecDepth 4000 in
/-- **`from_molecule(rotate=True)` lays the box out in the wrong frame.** Four unit charges at
(0,±5,0), (0,0,±2) (centre of charge = centre of the extent = 0); `eigh` returns the eigenvector
matrix `v` with columns e_y, e_z, e_x. The code measures the extent along the *columns* of `v`
(10, 4, 0 → shape (12,6,2) for spacing 1, extension 1) but uses the *rows* of `v` (e_z, e_x, e_y) as
grid axes: the axis with 2 points runs along y, where the nuclei sit at ±5. -/
theorem from_molecule_rotate_witness :
    fromMolecule [(1 : ℝ), 1, 1, 1] [[0, 5, 0], [0, -5, 0], [0, 0, 2], [0, 0, -2]] 1 1
        (some [[0, 0, 1], [1, 0, 0], [0, 1, 0]])
      = .ok ([-3, -1, -6], [[0, 0, 1], [1, 0, 0], [0, 1, 0]], [12, 6, 2]) := by
  simp [fromMolecule, sumK_eq_sum, column, maxK, minK, List.range_succ, bind, Except.bind, pure, Except.pure,
    ceilI_eq]
  have h12 : (12 : ℤ).toNat = 12 := rfl
  have h6 : (6 : ℤ).toNat = 6 := rfl
  have h2 : (2 : ℤ).toNat = 2 := rfl
  norm_num
  try rw [h12]
  try rw [h6]
  try rw [h2]
  norm_num

/-- In that grid the nucleus (0,5,0) has the integer grid coordinates (6,3,6):
`origin + 6·a₀ + 3·a₁ + 6·a₂ = (0,5,0)`; the third axis has only 2 points (coordinates 0 and 1), so the
nucleus lies 5 spacings outside the box although the molecule is centred. -/
theorem from_molecule_rotate_fails_at :
    pointAt [(-3 : ℝ), -1, -6] [[0, 0, 1], [1, 0, 0], [0, 1, 0]] [6, 3, 6] = [0, 5, 0] ∧ ¬ (6 ≤ 2 - 1) := by
  constructor
  · simp [pointAt]; norm_num
  · omega

/-! ### `closest_point` (code after the repairs 87e136a, e7cb5e5: signed step, clipping) -/

theorem isDiagonal_diag3 (a0 a1 a2 : ℝ) : isDiagonal [[a0, 0, 0], [0, a1, 0], [0, 0, a2]] = true := by
  simp [isDiagonal, List.range_succ]

theorem isDiagonal_diag2 (a0 a1 : ℝ) : isDiagonal [[a0, 0], [0, a1]] = true := by
  simp [isDiagonal, List.range_succ]

theorem diagonal_diag3 (a0 a1 a2 : ℝ) : diagonal [[a0, 0, 0], [0, a1, 0], [0, 0, a2]] = [a0, a1, a2] := by
  simp [diagonal, List.range_succ]

theorem diagonal_diag2 (a0 a1 : ℝ) : diagonal [[a0, 0], [0, a1]] = [a0, a1] := by
  simp [diagonal, List.range_succ]

/-- `closest_point` on diagonal axes, as coded: quotient by the signed step, rounding, clipping to
`[0, sᵢ−1]`, stride code. `rnd` is `rint` (`"closest"`) or `floor` (`"origin"`). -/
theorem closest_eval3 (o0 o1 o2 a0 a1 a2 p0 p1 p2 : ℝ) (s0 s1 s2 : Nat) :
    closestPoint [o0, o1, o2] [[a0, 0, 0], [0, a1, 0], [0, 0, a2]] [s0, s1, s2] [p0, p1, p2] (some .closest)
      = .ok (clipIdx (Rounding.rintI ((p0 - o0) / a0)) s0 * ((s1 : ℤ) * s2)
          + clipIdx (Rounding.rintI ((p1 - o1) / a1)) s1 * s2 + clipIdx (Rounding.rintI ((p2 - o2) / a2)) s2) ∧
    closestPoint [o0, o1, o2] [[a0, 0, 0], [0, a1, 0], [0, 0, a2]] [s0, s1, s2] [p0, p1, p2] (some .origin)
      = .ok (clipIdx (Rounding.floorI ((p0 - o0) / a0)) s0 * ((s1 : ℤ) * s2)
          + clipIdx (Rounding.floorI ((p1 - o1) / a1)) s1 * s2 + clipIdx (Rounding.floorI ((p2 - o2) / a2)) s2) := by
  constructor <;>
  · unfold closestPoint
    rw [isDiagonal_diag3, diagonal_diag3]
    simp [List.range_succ, bind, Except.bind, pure, Except.pure, c2i3]

theorem closest_eval2 (o0 o1 a0 a1 p0 p1 : ℝ) (s0 s1 : Nat) :
    closestPoint [o0, o1] [[a0, 0], [0, a1]] [s0, s1] [p0, p1] (some .closest)
      = .ok (clipIdx (Rounding.rintI ((p0 - o0) / a0)) s0 * (s1 : ℤ) + clipIdx (Rounding.rintI ((p1 - o1) / a1)) s1) ∧
    closestPoint [o0, o1] [[a0, 0], [0, a1]] [s0, s1] [p0, p1] (some .origin)
      = .ok (clipIdx (Rounding.floorI ((p0 - o0) / a0)) s0 * (s1 : ℤ) + clipIdx (Rounding.floorI ((p1 - o1) / a1)) s1) := by
  constructor <;>
  · unfold closestPoint
    rw [isDiagonal_diag2, diagonal_diag2]
    simp [List.range_succ, bind, Except.bind, pure, Except.pure, c2i2]

theorem clipIdx_range (c : ℤ) (s : Nat) (hs : 1 ≤ s) : 0 ≤ clipIdx c s ∧ clipIdx c s < s := by
  unfold clipIdx; omega

/-- the nearest integer is within 1/2. -/
theorem rintI_half (x : ℝ) : |x - (Rounding.rintI x : ℤ)| ≤ 1 / 2 := by
  have h1 := rintI_nearest x (Rounding.rintI x + 1)
  have h2 := rintI_nearest x (Rounding.rintI x - 1)
  push_cast at h1 h2
  rw [abs_le]
  constructor
  · by_contra hc
    have hlt : x - (Rounding.rintI x : ℤ) < -(1 / 2) := by linarith [not_le.mp hc]
    have hb : |x - ((Rounding.rintI x : ℤ) - 1)| < -(x - (Rounding.rintI x : ℤ)) := by
      rw [abs_lt]; constructor <;> linarith
    rw [abs_of_neg (by linarith)] at h2
    linarith
  · by_contra hc
    have hgt : 1 / 2 < x - (Rounding.rintI x : ℤ) := by linarith [not_le.mp hc]
    have hb : |x - ((Rounding.rintI x : ℤ) + 1)| < x - (Rounding.rintI x : ℤ) := by
      rw [abs_lt]; constructor <;> linarith
    rw [abs_of_pos (by linarith)] at h1
    linarith

/-- One axis, any sign of the step, any query: the clipped rounded fractional coordinate is the
coordinate of a node of the axis that is at least as close as every node `0 … s−1` of the axis. -/
theorem axis_nearest_clip (p o a : ℝ) (ha : a ≠ 0) (s : Nat) (hs : 1 ≤ s) (m : Nat) (hm : m < s) :
    (p - (o + (clipIdx (Rounding.rintI ((p - o) / a)) s : ℤ) * a)) ^ 2 ≤ (p - (o + (m : ℝ) * a)) ^ 2 := by
  set x := (p - o) / a with hx
  set r : ℤ := Rounding.rintI x with hr
  have e : ∀ z : ℝ, p - (o + z * a) = a * (x - z) := by intro z; rw [hx]; field_simp; ring
  rw [e, e, mul_pow, mul_pow]
  apply mul_le_mul_of_nonneg_left _ (by positivity)
  rw [sq_le_sq]
  have hhalf := rintI_half x
  rw [← hr] at hhalf
  have hhalf' := abs_le.mp hhalf
  have hmr : (m : ℝ) ≤ (s : ℝ) - 1 := by
    have : (m : ℝ) + 1 ≤ s := by exact_mod_cast hm
    linarith
  have hm0 : (0 : ℝ) ≤ m := by positivity
  unfold clipIdx
  rcases lt_trichotomy r 0 with hneg | hzero | hpos
  · -- rounded coordinate below the grid: clipped to 0, x ≤ -1/2
    have hc : min (max r 0) ((s : ℤ) - 1) = 0 := by omega
    rw [hc]
    have hr1 : (r : ℝ) ≤ -1 := by exact_mod_cast (by omega : r ≤ -1)
    have hx0 : x ≤ 0 := by linarith [hhalf'.2]
    push_cast
    rw [sub_zero, abs_of_nonpos hx0, abs_of_nonpos (by linarith)]
    linarith
  · have hc : min (max r 0) ((s : ℤ) - 1) = 0 := by omega
    rw [hc]
    have := rintI_nearest x (m : ℤ)
    rw [← hr, hzero] at this
    simpa using this
  · by_cases hin : r ≤ (s : ℤ) - 1
    · have hc : min (max r 0) ((s : ℤ) - 1) = r := by omega
      rw [hc]
      have := rintI_nearest x (m : ℤ)
      rw [← hr] at this
      simpa using this
    · -- above the grid: clipped to s-1, x ≥ s - 1/2
      have hc : min (max r 0) ((s : ℤ) - 1) = (s : ℤ) - 1 := by omega
      rw [hc]
      have hr1 : (s : ℝ) ≤ (r : ℝ) := by exact_mod_cast (by omega : (s : ℤ) ≤ r)
      have hxs : (s : ℝ) - 1 ≤ x := by linarith [hhalf'.1]
      push_cast
      rw [abs_of_nonneg (by linarith), abs_of_nonneg (by linarith)]
      linarith

/-- **Nearest node, 3-D, full strength**: for every non-zero diagonal axes (either sign), every shape
(≥ 1 per axis; the constructor enforces ≥ 2) and *every* query point, inside or outside the box, the
returned number is the flat index (of the generated stride code, inverted by `index_to_coordinates`) of a
node `(i,j,k)` of the grid, and no node of the grid is closer to the query point. -/
theorem closest_point_spec3 (o0 o1 o2 a0 a1 a2 p0 p1 p2 : ℝ) (s0 s1 s2 : Nat)
    (h0 : a0 ≠ 0) (h1 : a1 ≠ 0) (h2 : a2 ≠ 0) (hs0 : 1 ≤ s0) (hs1 : 1 ≤ s1) (hs2 : 1 ≤ s2) :
    ∃ i j k : Nat, i < s0 ∧ j < s1 ∧ k < s2 ∧
      closestPoint [o0, o1, o2] [[a0, 0, 0], [0, a1, 0], [0, 0, a2]] [s0, s1, s2] [p0, p1, p2] (some .closest)
        = .ok ((i * (s1 * s2) + j * s2 + k : Nat) : ℤ) ∧
      indexToCoordinates 3 [(s0 : Int), s1, s2] ((i * (s1 * s2) + j * s2 + k : Nat) : ℤ) = .ok [(i : Int), j, k] ∧
      ∀ i' j' k' : Nat, i' < s0 → j' < s1 → k' < s2 →
        (p0 - (o0 + i * a0)) ^ 2 + (p1 - (o1 + j * a1)) ^ 2 + (p2 - (o2 + k * a2)) ^ 2
          ≤ (p0 - (o0 + i' * a0)) ^ 2 + (p1 - (o1 + j' * a1)) ^ 2 + (p2 - (o2 + k' * a2)) ^ 2 := by
  obtain ⟨c0n, c0l⟩ := clipIdx_range (Rounding.rintI ((p0 - o0) / a0)) s0 hs0
  obtain ⟨c1n, c1l⟩ := clipIdx_range (Rounding.rintI ((p1 - o1) / a1)) s1 hs1
  obtain ⟨c2n, c2l⟩ := clipIdx_range (Rounding.rintI ((p2 - o2) / a2)) s2 hs2
  obtain ⟨i, hi⟩ := Int.eq_ofNat_of_zero_le c0n
  obtain ⟨j, hj⟩ := Int.eq_ofNat_of_zero_le c1n
  obtain ⟨k, hk⟩ := Int.eq_ofNat_of_zero_le c2n
  have hi' : i < s0 := by omega
  have hj' : j < s1 := by omega
  have hk' : k < s2 := by omega
  refine ⟨i, j, k, hi', hj', hk', ?_, ?_, ?_⟩
  · rw [(closest_eval3 ..).1, hi, hj, hk]
    exact congrArg Except.ok (by push_cast; ring)
  · obtain ⟨idx, _, hidx, _, h⟩ := coords_roundtrip3 s0 s1 s2 i j k hi' hj' hk' 0
    rw [hidx] at h; exact h
  · intro i' j' k' hi'' hj'' hk''
    have e0 := axis_nearest_clip p0 o0 a0 h0 s0 hs0 i' hi''
    have e1 := axis_nearest_clip p1 o1 a1 h1 s1 hs1 j' hj''
    have e2 := axis_nearest_clip p2 o2 a2 h2 s2 hs2 k' hk''
    rw [hi] at e0; rw [hj] at e1; rw [hk] at e2
    push_cast at e0 e1 e2
    linarith

/-- **Nearest node, 2-D, full strength.** -/
theorem closest_point_spec2 (o0 o1 a0 a1 p0 p1 : ℝ) (s0 s1 : Nat)
    (h0 : a0 ≠ 0) (h1 : a1 ≠ 0) (hs0 : 1 ≤ s0) (hs1 : 1 ≤ s1) :
    ∃ i j : Nat, i < s0 ∧ j < s1 ∧
      closestPoint [o0, o1] [[a0, 0], [0, a1]] [s0, s1] [p0, p1] (some .closest) = .ok ((i * s1 + j : Nat) : ℤ) ∧
      indexToCoordinates 2 [(s0 : Int), s1] ((i * s1 + j : Nat) : ℤ) = .ok [(i : Int), j] ∧
      ∀ i' j' : Nat, i' < s0 → j' < s1 →
        (p0 - (o0 + i * a0)) ^ 2 + (p1 - (o1 + j * a1)) ^ 2
          ≤ (p0 - (o0 + i' * a0)) ^ 2 + (p1 - (o1 + j' * a1)) ^ 2 := by
  obtain ⟨c0n, c0l⟩ := clipIdx_range (Rounding.rintI ((p0 - o0) / a0)) s0 hs0
  obtain ⟨c1n, c1l⟩ := clipIdx_range (Rounding.rintI ((p1 - o1) / a1)) s1 hs1
  obtain ⟨i, hi⟩ := Int.eq_ofNat_of_zero_le c0n
  obtain ⟨j, hj⟩ := Int.eq_ofNat_of_zero_le c1n
  have hi' : i < s0 := by omega
  have hj' : j < s1 := by omega
  refine ⟨i, j, hi', hj', ?_, ?_, ?_⟩
  · rw [(closest_eval2 ..).1, hi, hj]
    exact congrArg Except.ok (by push_cast; ring)
  · obtain ⟨idx, _, hidx, _, h⟩ := coords_roundtrip2 s0 s1 i j hi' hj' 0
    rw [hidx] at h; exact h
  · intro i' j' hi'' hj''
    have e0 := axis_nearest_clip p0 o0 a0 h0 s0 hs0 i' hi''
    have e1 := axis_nearest_clip p1 o1 a1 h1 s1 hs1 j' hj''
    rw [hi] at e0; rw [hj] at e1
    push_cast at e0 e1
    linarith

/-- The clause at full strength: for *every* diagonal (orthogonal) axes of either sign and every query
point the returned value is the flat index of a nearest node of the grid. -/
def closest_point_full : Prop :=
  ∀ (o0 o1 o2 a0 a1 a2 p0 p1 p2 : ℝ) (s0 s1 s2 : Nat), a0 ≠ 0 → a1 ≠ 0 → a2 ≠ 0 →
    2 ≤ s0 → 2 ≤ s1 → 2 ≤ s2 →
    ∃ i j k : Nat, i < s0 ∧ j < s1 ∧ k < s2 ∧
      closestPoint [o0, o1, o2] [[a0, 0, 0], [0, a1, 0], [0, 0, a2]] [s0, s1, s2] [p0, p1, p2] (some .closest)
        = .ok ((i * (s1 * s2) + j * s2 + k : Nat) : ℤ) ∧
      ∀ i' j' k' : Nat, i' < s0 → j' < s1 → k' < s2 →
        (p0 - (o0 + i * a0)) ^ 2 + (p1 - (o1 + j * a1)) ^ 2 + (p2 - (o2 + k * a2)) ^ 2
          ≤ (p0 - (o0 + i' * a0)) ^ 2 + (p1 - (o1 + j' * a1)) ^ 2 + (p2 - (o2 + k' * a2)) ^ 2

/-- **The full clause holds for the code as it is now.** -/
theorem closest_point_full_holds : closest_point_full := by
  intro o0 o1 o2 a0 a1 a2 p0 p1 p2 s0 s1 s2 h0 h1 h2 hs0 hs1 hs2
  obtain ⟨i, j, k, hi, hj, hk, hc, _, hn⟩ :=
    closest_point_spec3 o0 o1 o2 a0 a1 a2 p0 p1 p2 s0 s1 s2 h0 h1 h2 (by omega) (by omega) (by omega)
  exact ⟨i, j, k, hi, hj, hk, hc, hn⟩

/-- **`which="origin"`** (the bottom, left-most, down-most corner of the sub-cube holding the point):
for a query whose fractional coordinates lie inside the grid the returned node `(i,j,k)` satisfies
`i ≤ (p₀−o₀)/a₀ < i+1` etc.; outside the grid the floor is clipped to the boundary. -/
theorem closest_point_origin_spec3 (o0 o1 o2 a0 a1 a2 p0 p1 p2 : ℝ) (s0 s1 s2 : Nat) (i j k : Nat)
    (hi : i < s0) (hj : j < s1) (hk : k < s2)
    (h0 : (i : ℝ) ≤ (p0 - o0) / a0 ∧ (p0 - o0) / a0 < i + 1)
    (h1 : (j : ℝ) ≤ (p1 - o1) / a1 ∧ (p1 - o1) / a1 < j + 1)
    (h2 : (k : ℝ) ≤ (p2 - o2) / a2 ∧ (p2 - o2) / a2 < k + 1) :
    closestPoint [o0, o1, o2] [[a0, 0, 0], [0, a1, 0], [0, 0, a2]] [s0, s1, s2] [p0, p1, p2] (some .origin)
      = .ok ((i * (s1 * s2) + j * s2 + k : Nat) : ℤ) := by
  have fl : ∀ (x : ℝ) (n : Nat), (n : ℝ) ≤ x ∧ x < n + 1 → (Rounding.floorI x : ℤ) = n := by
    intro x n h
    rw [floorI_eq, Int.floor_eq_iff]
    exact ⟨by exact_mod_cast h.1, by exact_mod_cast h.2⟩
  rw [(closest_eval3 ..).2, fl _ i h0, fl _ j h1, fl _ k h2]
  have c0 : clipIdx (i : ℤ) s0 = i := by unfold clipIdx; omega
  have c1 : clipIdx (j : ℤ) s1 = j := by unfold clipIdx; omega
  have c2 : clipIdx (k : ℤ) s2 = k := by unfold clipIdx; omega
  rw [c0, c1, c2]
  exact congrArg Except.ok (by push_cast; ring)

/-- Regression witnesses of the two repaired defects: with axes diag(−1,1,1), shape (3,3,3) the query
(−1,0,0) — the node (1,0,0) — now gives 9 (was −9), and with unit axes the query (0,0,3) outside the box
gives the boundary node 2 = (0,0,2) (was 3 = (0,1,0)). -/
theorem closest_point_repaired_at :
    closestPoint [(0 : ℝ), 0, 0] [[-1, 0, 0], [0, 1, 0], [0, 0, 1]] [3, 3, 3] [-1, 0, 0] (some .closest) = .ok 9 ∧
    closestPoint [(0 : ℝ), 0, 0] [[1, 0, 0], [0, 1, 0], [0, 0, 1]] [3, 3, 3] [0, 0, 3] (some .closest) = .ok 2 := by
  have h1 := rintI_intCast 1
  have h0 := rintI_intCast 0
  have h3 := rintI_intCast 3
  constructor
  · rw [(closest_eval3 ..).1]
    norm_num at h1 h0 ⊢
    rw [h1, h0]; decide
  · rw [(closest_eval3 ..).1]
    norm_num at h3 h0 ⊢
    rw [h3, h0]; decide

end GridVerif.C13

/-
  C13 (4e) — the *generated* `get_points_along_axes`, the linear / nearest branch of the generated `interpolate`
  and the generated constructors (`Gen/CubicInterp.lean`) against the hand model.
-/
import GridVerif.Props.C13.GenInterp
import GridVerif.Props.C13.Linear

set_option linter.unusedSimpArgs false

namespace GridVerif.C13
open GridVerif GridVerif.Cubic GridVerif.Gen.CubicIndex

section
variable (s0 s1 s2 : Nat) (P : List (List ℝ))

theorem lt_z (wf : GridWF s0 s1 s2 P) (h0 : 1 ≤ s0) (h1 : 1 ≤ s1) {k : Nat} (hk : k < s2) : k < P.length := by
  rw [wf.len]
  have : s2 ≤ s0 * s1 * s2 := Nat.le_mul_of_pos_left _ (Nat.mul_pos h0 h1)
  omega

theorem lt_y (wf : GridWF s0 s1 s2 P) (h0 : 1 ≤ s0) (h2 : 1 ≤ s2) {j : Nat} (hj : j < s1) : j * s2 < P.length := by
  rw [wf.len, Nat.mul_assoc]
  have h1 : (j + 1) * s2 ≤ s1 * s2 := Nat.mul_le_mul_right _ hj
  have h3 : s1 * s2 ≤ s0 * (s1 * s2) := Nat.le_mul_of_pos_left _ (by omega)
  have : (j + 1) * s2 = j * s2 + s2 := by ring
  omega

theorem lt_x (wf : GridWF s0 s1 s2 P) (h1 : 1 ≤ s1) (h2 : 1 ≤ s2) {i : Nat} (hi : i < s0) : i * (s1 * s2) < P.length := by
  rw [wf.len, Nat.mul_assoc]
  have hp : 1 ≤ s1 * s2 := Nat.mul_pos h1 h2
  have h3 : (i + 1) * (s1 * s2) ≤ s0 * (s1 * s2) := Nat.mul_le_mul_right _ hi
  have : (i + 1) * (s1 * s2) = i * (s1 * s2) + s1 * s2 := by ring
  omega

/-- the node lists read off a well-formed point array: first row of every x-slab / y-line, the first z-line. -/
def axesClosed : List ℝ × List ℝ × List ℝ :=
  ((List.range s0).map fun i => (P.getD (i * (s1 * s2)) []).getD 0 0,
   (List.range s1).map fun j => (P.getD (j * s2) []).getD 1 0,
   (List.range s2).map fun k => (P.getD k []).getD 2 0)

/-- the hand model of `get_points_along_axes` in closed form. -/
theorem pointsAlongAxes_closed (wf : GridWF s0 s1 s2 P) (h0 : 1 ≤ s0) (h1 : 1 ≤ s1) (h2 : 1 ≤ s2) :
    pointsAlongAxes [s0, s1, s2] P = .ok (axesClosed s0 s1 s2 P) := by
  unfold pointsAlongAxes
  dsimp only
  generalize hmz : List.mapM (m := Py) _ (List.range s2) = rz
  generalize hmy : List.mapM (m := Py) _ (List.range s1) = ry
  generalize hmx : List.mapM (m := Py) _ (List.range s0) = rx
  have ez : rz = .ok ((List.range s2).map fun k => (P.getD k []).getD 2 0) := by
    rw [← hmz]
    apply mapM_ok
    intro k hk
    have hk' := lt_z s0 s1 s2 P wf h0 h1 (List.mem_range.mp hk)
    simp only [getElem?_getD_of_lt P k hk', getElem?_of_len3 _ (wf.rows _ (getD_mem P k hk')) 2 (by omega)]
    rfl
  have ey : ry = .ok ((List.range s1).map fun j => (P.getD (j * s2) []).getD 1 0) := by
    rw [← hmy]
    apply mapM_ok
    intro j hj
    have hj' := lt_y s0 s1 s2 P wf h0 h2 (List.mem_range.mp hj)
    rw [flatIndex3]
    simp only [bind, Except.bind, Nat.zero_mul, Nat.zero_add, Nat.add_zero, getElem?_getD_of_lt P _ hj',
      getElem?_of_len3 _ (wf.rows _ (getD_mem P _ hj')) 1 (by omega)]
    rfl
  have ex : rx = .ok ((List.range s0).map fun i => (P.getD (i * (s1 * s2)) []).getD 0 0) := by
    rw [← hmx]
    apply mapM_ok
    intro i hi
    have hi' := lt_x s0 s1 s2 P wf h1 h2 (List.mem_range.mp hi)
    rw [flatIndex3]
    simp only [bind, Except.bind, Nat.zero_mul, Nat.add_zero, getElem?_getD_of_lt P _ hi',
      getElem?_of_len3 _ (wf.rows _ (getD_mem P _ hi')) 0 (by omega)]
    rfl
  rw [ez, ey, ex]
  rfl

theorem slice_zero {α} (l : List α) (n : Nat) : slice l 0 n = l.take n := by
  unfold slice; simp

theorem take_eq_map_range (wf : GridWF s0 s1 s2 P) (h0 : 1 ≤ s0) (h1 : 1 ≤ s1) :
    (P.take s2).map (fun r => r.getD 2 0) = (List.range s2).map fun k => (P.getD k []).getD 2 0 := by
  have hle : s2 ≤ P.length := by
    rw [wf.len]; exact Nat.le_mul_of_pos_left _ (Nat.mul_pos h0 h1)
  apply List.ext_getElem (by simp [hle])
  intro n h1' h2'
  have hn : n < s2 := by simpa using h2'
  have hn' : n < P.length := by omega
  simp [List.getD_eq_getElem?_getD, List.getElem?_eq_getElem hn']

/-- **The generated `get_points_along_axes()` (3-D branch) is the hand model**, for every well-formed point array and
every content `junk` of the uninitialised stride array: `points[: shape[2], 2]`, the rows `coordinates_to_index((0, j, 0))`
with column 1, the rows `coordinates_to_index((j, 0, 0))` with column 0. -/
theorem gen_getPointsAlongAxes_eq_model (wf : GridWF s0 s1 s2 P) (h0 : 1 ≤ s0) (h1 : 1 ≤ s1) (h2 : 1 ≤ s2) (junk : Int) :
    Gen.CubicInterp.getPointsAlongAxes [s0, s1, s2] junk P
      = (pointsAlongAxes [s0, s1, s2] P).map fun r => [r.1, r.2.1, r.2.2] := by
  rw [pointsAlongAxes_closed s0 s1 s2 P wf h0 h1 h2]
  unfold Gen.CubicInterp.getPointsAlongAxes
  have g : ([s0, s1, s2].length == 3) = true := rfl
  simp only [g, if_true, (nGet3 s0 s1 s2).1, (nGet3 s0 s1 s2).2.1, (nGet3 s0 s1 s2).2.2, bind_ok, c2iOf3, pure_ok, mapM_pure_ok]
  unfold npSliceCol
  have ez : pySlice P (0 : Int) ((s2 : Nat) : Int) = P.take s2 := by
    have := pySlice_natCast P 0 s2
    simpa [slice_zero] using this
  rw [ez, interpCol_ok _ 2 (fun r => r.getD 2 0) (fun r hr => getElem?_of_len3 r (wf.rows r (List.mem_of_mem_take hr)) 2 (by omega)),
    bind_ok, take_eq_map_range s0 s1 s2 P wf h0 h1]
  have ey : (List.range s1).map (fun j => (0 : Int) * (((s1 : Nat) : Int) * ((s2 : Nat) : Int)) + ((j : Nat) : Int) * ((s2 : Nat) : Int) + 0)
      = ((List.range s1).map fun j => j * s2).map fun (n : Nat) => (n : Int) := by
    rw [List.map_map]; apply List.map_congr_left; intro j _; simp
  have ex : (List.range s0).map (fun j => ((j : Nat) : Int) * (((s1 : Nat) : Int) * ((s2 : Nat) : Int)) + (0 : Int) * ((s2 : Nat) : Int) + 0)
      = ((List.range s0).map fun i => i * (s1 * s2)).map fun (n : Nat) => (n : Int) := by
    rw [List.map_map]; apply List.map_congr_left; intro j _; simp
  rw [ey, ex, npTakeCol_natCast, npTakeCol_natCast]
  have rowsy : interpRows P ((List.range s1).map fun j => j * s2) = .ok ((List.range s1).map fun j => P.getD (j * s2) []) :=
    interpRows_ok P _ _ _ (fun j hj => getElem?_getD_of_lt P _ (lt_y s0 s1 s2 P wf h0 h2 (List.mem_range.mp hj)))
  have rowsx : interpRows P ((List.range s0).map fun i => i * (s1 * s2)) = .ok ((List.range s0).map fun i => P.getD (i * (s1 * s2)) []) :=
    interpRows_ok P _ _ _ (fun i hi => getElem?_getD_of_lt P _ (lt_x s0 s1 s2 P wf h1 h2 (List.mem_range.mp hi)))
  rw [rowsy, rowsx, bind_ok, bind_ok]
  rw [interpCol_ok _ 1 (fun r => r.getD 1 0) (by
    intro r hr
    obtain ⟨j, hj, rfl⟩ := List.mem_map.mp hr
    exact getElem?_of_len3 _ (wf.rows _ (getD_mem P _ (lt_y s0 s1 s2 P wf h0 h2 (List.mem_range.mp hj)))) 1 (by omega))]
  rw [interpCol_ok _ 0 (fun r => r.getD 0 0) (by
    intro r hr
    obtain ⟨i, hi, rfl⟩ := List.mem_map.mp hr
    exact getElem?_of_len3 _ (wf.rows _ (getD_mem P _ (lt_x s0 s1 s2 P wf h1 h2 (List.mem_range.mp hi)))) 0 (by omega))]
  simp only [bind_ok, List.map_map]
  rfl

end

/-! ### `interpolate(method="linear" / "nearest")` -/

section
variable (I : Interp1 ℝ) (R : String → InterpGrid ℝ) (bell : Nat → Nat → List ℝ → ℝ) (s0 s1 s2 : Nat) (P : List (List ℝ))
  (vals : List ℝ)

/-- a query point lies in the box spanned by the first and last node of every axis (what SciPy's `bounds_error=True`
checks). -/
noncomputable def inBox (q : ℝ × ℝ × ℝ) : Bool :=
  rgiInside (axesClosed s0 s1 s2 P).1 q.1 && rgiInside (axesClosed s0 s1 s2 P).2.1 q.2.1 && rgiInside (axesClosed s0 s1 s2 P).2.2 q.2.2

theorem mapM_error_of {α β} (l : List α) (f : α → Py β) (e : PyErr) (hall : ∀ a ∈ l, (∃ b, f a = .ok b) ∨ f a = .error e)
    (hex : ∃ a ∈ l, f a = .error e) : l.mapM f = .error e := by
  induction l with
  | nil => obtain ⟨a, ha, _⟩ := hex; cases ha
  | cons a t ih =>
    rw [List.mapM_cons]
    rcases hall a (List.mem_cons_self) with ⟨b, hb⟩ | he
    · rw [hb]
      obtain ⟨c, hc, hce⟩ := hex
      rcases List.mem_cons.mp hc with rfl | hct
      · rw [hb] at hce; cases hce
      · rw [ih (fun x hx => hall x (List.mem_cons_of_mem _ hx)) ⟨c, hct, hce⟩]; rfl
    · rw [he]; rfl

/-- the data the linear / nearest branch interpolates: `np.log(values)` when `use_log` is set (as coded: the branch
returns before the `np.exp` of the cubic route). -/
noncomputable def linData (ul : Bool) : List ℝ := if ul then vals.map Real.log else vals

/-- **The generated `interpolate(..., method="linear" | "nearest")` is the hand model `Cubic.interpLinear` at every query
point inside the box** (and raises `ValueError` as soon as one query point is outside): nodes from the generated
`get_points_along_axes`, `values.reshape(shape)`, SciPy's interpolator for that method, for every `use_log` and derivative
orders (which this branch ignores). -/
theorem gen_interpolate_linear_eq_model (wf : GridWF s0 s1 s2 P) (hv : vals.length = s0 * s1 * s2) (h0 : 1 ≤ s0) (h1 : 1 ≤ s1)
    (h2 : 1 ≤ s2) (junk : Int) (Qs : List (ℝ × ℝ × ℝ)) (ul : Bool) (nux nuy nuz : Nat) (m : String)
    (hm : m = "linear" ∨ m = "nearest") :
    ((∀ q ∈ Qs, inBox s0 s1 s2 P q = true) →
      Gen.CubicInterp.interpolate I R bell [s0, s1, s2] junk P (Qs.map qrow) vals ul nux nuy nuz m
        = Qs.mapM (fun q => interpLinear (R m) [s0, s1, s2] P (linData vals ul) q)) ∧
    ((∃ q ∈ Qs, inBox s0 s1 s2 P q = false) →
      Gen.CubicInterp.interpolate I R bell [s0, s1, s2] junk P (Qs.map qrow) vals ul nux nuy nuz m = .error .valueError) := by
  have hlen : (linData vals ul).length = s0 * s1 * s2 := by unfold linData; split <;> simp [hv]
  have hnp : (linData vals ul).length = numPoints [s0, s1, s2] := by simp [numPoints, hlen]
  have hmodel : ∀ q, interpLinear (R m) [s0, s1, s2] P (linData vals ul) q
      = .ok (R m (axesClosed s0 s1 s2 P).1 (axesClosed s0 s1 s2 P).2.1 (axesClosed s0 s1 s2 P).2.2 (linData vals ul) q) := by
    intro q
    unfold interpLinear
    simp only [hlen, ne_eq, not_true_eq_false, if_false, pointsAlongAxes_closed s0 s1 s2 P wf h0 h1 h2, bind, Except.bind]
    rfl
  have hgen : Gen.CubicInterp.interpolate I R bell [s0, s1, s2] junk P (Qs.map qrow) vals ul nux nuy nuz m
      = (Qs.map qrow).mapM (rgiRow (R m) (axesClosed s0 s1 s2 P).1 (axesClosed s0 s1 s2 P).2.1 (axesClosed s0 s1 s2 P).2.2
          (linData vals ul)) := by
    unfold Gen.CubicInterp.interpolate
    generalize Gen.CubicInterp.interpolateStep (fun _ _ _ _ _ _ _ => throw PyErr.notImplemented) I R bell [s0, s1, s2] junk P = recF
    unfold Gen.CubicInterp.interpolateStep
    have g3 : (vals.length != numPoints [s0, s1, s2]) = false := by simp [numPoints, hv]
    have g4 : ([s0, s1, s2].length != 3) = false := rfl
    have gm : (["cubic", "linear", "nearest"].contains m) = true ∧ (["linear", "nearest"].contains m) = true := by
      rcases hm with rfl | rfl <;> exact ⟨by decide, by decide⟩
    have hlog : (do if ul = true then (let values : List ℝ := (vals.map fun x' => Elem.log x'); pure values) else pure vals : Py (List ℝ))
        = .ok (linData vals ul) := by
      unfold linData; cases ul <;> rfl
    have hshape : [(axesClosed s0 s1 s2 P).1, (axesClosed s0 s1 s2 P).2.1, (axesClosed s0 s1 s2 P).2.2].map List.length = [s0, s1, s2] := by
      simp [axesClosed]
    simp only [gm.1, gm.2, g3, g4, Bool.not_true, Bool.false_eq_true, if_false, if_true]
    rw [hlog]
    simp only [bind_ok, gen_getPointsAlongAxes_eq_model s0 s1 s2 P wf h0 h1 h2, pointsAlongAxes_closed s0 s1 s2 P wf h0 h1 h2,
      Except.map, unpack3, pure_ok, Nd.reshapeTo, hnp, if_true, rgiMake, hshape]
  constructor
  · intro hin
    rw [hgen, mapM_comp]
    rw [mapM_ok Qs _ (fun q => R m (axesClosed s0 s1 s2 P).1 (axesClosed s0 s1 s2 P).2.1 (axesClosed s0 s1 s2 P).2.2 (linData vals ul) q)
      (fun q hq => by
        have := hin q hq
        unfold inBox at this
        simp only [qrow, rgiRow, this, if_true]
        rfl)]
    exact (mapM_ok _ _ _ (fun q _ => hmodel q)).symm
  · intro hex
    rw [hgen, mapM_comp]
    apply mapM_error_of
    · intro q _
      by_cases hb : inBox s0 s1 s2 P q = true
      · left
        unfold inBox at hb
        simp only [qrow, rgiRow, hb, if_true]
        exact ⟨_, rfl⟩
      · right
        have hb' : inBox s0 s1 s2 P q = false := by simpa using hb
        unfold inBox at hb'
        simp only [qrow, rgiRow, hb', Bool.false_eq_true, if_false]
        rfl
    · obtain ⟨q, hq, hb⟩ := hex
      refine ⟨q, hq, ?_⟩
      unfold inBox at hb
      simp only [qrow, rgiRow, hb, Bool.false_eq_true, if_false]
      rfl

end

/-! ### trilinear reproduction over the generated code -/

theorem rgiInside_of_bounds (l : List ℝ) (h2 : 2 ≤ l.length) (hs : l.Pairwise (· < ·)) (x : ℝ)
    (hx : l.getD 0 0 ≤ x ∧ x ≤ l.getD (l.length - 1) 0) : rgiInside l x = true := by
  have h0 : 0 < l.length := by omega
  have hl : l.length - 1 < l.length := by omega
  have hlt : l[0] < l[l.length - 1] := (List.pairwise_iff_getElem.mp hs) 0 (l.length - 1) h0 hl (by omega)
  have e0 : l.getD 0 0 = l[0] := by simp [List.getD_eq_getElem?_getD, List.getElem?_eq_getElem h0]
  have e1 : l.getD (l.length - 1) 0 = l[l.length - 1] := by simp [List.getD_eq_getElem?_getD, List.getElem?_eq_getElem hl]
  rw [e0, e1] at hx
  unfold rgiInside
  rw [List.head?_eq_getElem?, List.getLast?_eq_getElem?, List.getElem?_eq_getElem h0, List.getElem?_eq_getElem hl]
  have hmin : minK l[0] l[l.length - 1] = l[0] := by
    unfold minK; rw [if_neg (by linarith)]
  have hmax : maxK l[0] l[l.length - 1] = l[l.length - 1] := by
    unfold maxK; rw [if_pos hlt]
  simp only [hmin, hmax]
  have a1 : ¬ (x < l[0]) := by linarith [hx.1]
  have a2 : ¬ (l[l.length - 1] < x) := by linarith [hx.2]
  simp [a1, a2]

theorem axesClosed_tensor (xs ys zs : List ℝ) (hx : 1 ≤ xs.length) (hy : 1 ≤ ys.length) (hz : 1 ≤ zs.length) :
    axesClosed xs.length ys.length zs.length (tensorPoints [xs, ys, zs]) = (xs, ys, zs) := by
  have a := pointsAlongAxes_closed _ _ _ _ (tensorPoints3_wf xs ys zs) hx hy hz
  rw [pointsAlongAxes_tensor xs ys zs hx hy hz] at a
  exact (Except.ok.inj a).symm

/-- **The generated linear method reproduces trilinear functions** (restatement of `linear_reproduces_trilinear` over the
generated code): strictly increasing nodes, an interpolator satisfying SciPy's contract for `method="linear"`, every
function affine in each variable, every list of query points of the box — with the node extraction, the `reshape` and the
bounds check of the generated text. -/
theorem linear_reproduces_trilinear_gen (I : Interp1 ℝ) (R : String → InterpGrid ℝ) (bell : Nat → Nat → List ℝ → ℝ)
    (xs ys zs : List ℝ) (hxs : xs.Pairwise (· < ·)) (hys : ys.Pairwise (· < ·)) (hzs : zs.Pairwise (· < ·))
    (hx2 : 2 ≤ xs.length) (hy2 : 2 ≤ ys.length) (hz2 : 2 ≤ zs.length)
    (hR : MultilinearOnCells (R "linear") xs ys zs) (C : Fin 2 → Fin 2 → Fin 2 → ℝ) (junk : Int) (Qs : List (ℝ × ℝ × ℝ))
    (hQ : ∀ q ∈ Qs, (xs.getD 0 0 ≤ q.1 ∧ q.1 ≤ xs.getD (xs.length - 1) 0) ∧ (ys.getD 0 0 ≤ q.2.1 ∧ q.2.1 ≤ ys.getD (ys.length - 1) 0) ∧
      (zs.getD 0 0 ≤ q.2.2 ∧ q.2.2 ≤ zs.getD (zs.length - 1) 0)) (nux nuy nuz : Nat) :
    Gen.CubicInterp.interpolate I R bell [xs.length, ys.length, zs.length] junk (tensorPoints [xs, ys, zs]) (Qs.map qrow)
        (gridValues (trilinEval C) (tensorPoints [xs, ys, zs])) false nux nuy nuz "linear"
      = .ok (Qs.map fun q => trilinEval C q.1 q.2.1 q.2.2) := by
  have hlen : (gridValues (trilinEval C) (tensorPoints [xs, ys, zs])).length = xs.length * ys.length * zs.length := by
    unfold gridValues; rw [List.length_map, length_tensorPoints]; simp; ring
  have hin : ∀ q ∈ Qs, inBox xs.length ys.length zs.length (tensorPoints [xs, ys, zs]) q = true := by
    intro q hq
    unfold inBox
    rw [axesClosed_tensor xs ys zs (by omega) (by omega) (by omega)]
    obtain ⟨a, b, c⟩ := hQ q hq
    simp only [rgiInside_of_bounds xs hx2 hxs _ a, rgiInside_of_bounds ys hy2 hys _ b, rgiInside_of_bounds zs hz2 hzs _ c, Bool.and_self]
  rw [(gen_interpolate_linear_eq_model I R bell _ _ _ _ _ (tensorPoints3_wf xs ys zs) hlen (by omega) (by omega) (by omega) junk Qs false
    nux nuy nuz "linear" (Or.inl rfl)).1 hin]
  apply mapM_ok
  intro q hq
  obtain ⟨a, b, c⟩ := hQ q hq
  have : linData (gridValues (trilinEval C) (tensorPoints [xs, ys, zs])) false = gridValues (trilinEval C) (tensorPoints [xs, ys, zs]) := rfl
  rw [this]
  exact linear_reproduces_trilinear (R "linear") xs ys zs hxs hys hzs hx2 hy2 hz2 hR C q.1 q.2.1 q.2.2 a b c

/-! ### `get_points_along_axes()` in two dimensions -/

/-- **The generated `get_points_along_axes()`, 2-D branch**: for an `(s₀ s₁, 2)` point array it returns `points[: s₁, 1]` and the
first coordinate of the rows `coordinates_to_index((j, 0))`, `j < s₀` — on a two-dimensional tensor grid the two node lists. -/
theorem gen_getPointsAlongAxes2 (s0 s1 : Nat) (P : List (List ℝ)) (hlen : P.length = s0 * s1) (hrows : ∀ r ∈ P, r.length = 2)
    (h0 : 1 ≤ s0) (h1 : 1 ≤ s1) (junk : Int) :
    Gen.CubicInterp.getPointsAlongAxes [s0, s1] junk P
      = .ok [(List.range s0).map fun i => (P.getD (i * s1) []).getD 0 0, (List.range s1).map fun j => (P.getD j []).getD 1 0] := by
  unfold Gen.CubicInterp.getPointsAlongAxes
  have g : ([s0, s1].length == 3) = false := rfl
  have n0 : nGet [s0, s1] 0 = .ok s0 := rfl
  have n1 : nGet [s0, s1] 1 = .ok s1 := rfl
  have c2 : ∀ j : Nat, Gen.CubicGrid.coordinatesToIndexOf [s0, s1] junk [((j : Nat) : Int), (0 : Int)] = .ok (((j * s1 : Nat) : Int)) := by
    intro j
    unfold Gen.CubicGrid.coordinatesToIndexOf
    have := c2i2 s0 s1 j 0 junk
    simpa using this
  have len2 : ∀ r ∈ P, ∀ d, d < 2 → r[d]? = some (r.getD d 0) := by
    intro r hr d hd
    have : d < r.length := by rw [hrows r hr]; exact hd
    simp [List.getD_eq_getElem?_getD, List.getElem?_eq_getElem this]
  simp only [g, Bool.false_eq_true, if_false, n0, n1, bind_ok, c2, pure_ok, mapM_pure_ok]
  unfold npSliceCol
  have ez : pySlice P (0 : Int) ((s1 : Nat) : Int) = P.take s1 := by
    have := pySlice_natCast P 0 s1
    simpa [slice_zero] using this
  have hle : s1 ≤ P.length := by rw [hlen]; exact Nat.le_mul_of_pos_left _ h0
  have etake : (P.take s1).map (fun r => r.getD 1 0) = (List.range s1).map fun j => (P.getD j []).getD 1 0 := by
    apply List.ext_getElem (by simp [hle])
    intro n h1' h2'
    have hn : n < s1 := by simpa using h2'
    have hn' : n < P.length := by omega
    simp [List.getD_eq_getElem?_getD, List.getElem?_eq_getElem hn']
  rw [ez, interpCol_ok _ 1 (fun r => r.getD 1 0) (fun r hr => len2 r (List.mem_of_mem_take hr) 1 (by omega)), bind_ok, etake]
  have ex : (List.range s0).map (fun j => ((j * s1 : Nat) : Int)) = ((List.range s0).map fun i => i * s1).map fun (n : Nat) => (n : Int) := by
    rw [List.map_map]; rfl
  have hlt : ∀ i ∈ List.range s0, i * s1 < P.length := by
    intro i hi
    have hi' : i + 1 ≤ s0 := List.mem_range.mp hi
    rw [hlen]
    have h3 : (i + 1) * s1 ≤ s0 * s1 := Nat.mul_le_mul_right _ hi'
    have : (i + 1) * s1 = i * s1 + s1 := by ring
    omega
  rw [ex, npTakeCol_natCast]
  have rowsx : interpRows P ((List.range s0).map fun i => i * s1) = .ok ((List.range s0).map fun i => P.getD (i * s1) []) :=
    interpRows_ok P _ _ _ (fun i hi => getElem?_getD_of_lt P _ (hlt i hi))
  rw [rowsx, bind_ok]
  rw [interpCol_ok _ 0 (fun r => r.getD 0 0) (by
    intro r hr
    obtain ⟨i, hi, rfl⟩ := List.mem_map.mp hr
    exact len2 _ (getD_mem P _ (hlt i hi)) 0 (by omega))]
  simp only [bind_ok, List.map_map]
  rfl

end GridVerif.C13

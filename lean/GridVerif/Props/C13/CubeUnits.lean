/-
  C13 (5) — unit handling of the cube-file reader / writer (exploration level, decided on the generated
  effect lists of `Gen/CubicCube.lean`).

  The text round trip itself (formatting, parsing) is explored by the oracle; what is decided here is the
  *unit logic* of `UniformGrid.from_cube` on its four paths (`return_data` × file in angstrom) and of
  `generate_cube`: which quantities are multiplied by `ANGSTROM_TO_BOHR`, that this happens before the grid
  is constructed on *both* return paths (a conversion placed after the early `return` of
  `return_data=False` breaks `from_cube_paths_agree` / `from_cube_angstrom_converted`), that bohr files are
  not converted, that the atom coordinates are converted after they are read, and that the writer writes
  origin / axes / point counts as stored (positive counts = bohr convention).
-/
import GridVerif.Gen.CubicCube

namespace GridVerif.C13
open GridVerif.Gen.CubicCube

/-- the conversions applied, before the constructor call, to the quantities handed to the constructor
on the path `(return_data, angstrom)`; and the constructor's arguments. -/
def gridConversions (rd ang : Bool) : Option (List (String × String × String) × List String) :=
  (conversionsBeforeConstruct rd ang).map fun (c, a) => (c.filter fun x => a.contains x.1, a)

/-- position of the first effect satisfying `p`. -/
def firstIdx (p : Eff → Bool) (l : List Eff) : Option Nat :=
  let i := l.findIdx p
  if i < l.length then some i else none

def angFactor : String := "ANGSTROM_TO_BOHR"

/-- **Both return paths construct the grid from identically converted quantities**, for bohr and for
angstrom files: `return_data` does not influence the units of origin / axes / shape. -/
theorem from_cube_paths_agree :
    ∀ ang : Bool, gridConversions false ang = gridConversions true ang ∧ (gridConversions false ang).isSome = true := by
  decide

/-- **Angstrom files**: on both return paths exactly `axes` and `origin` are multiplied by
`ANGSTROM_TO_BOHR` before the constructor is called with `(origin, axes, shape, weight)`. -/
theorem from_cube_angstrom_converted :
    ∀ rd : Bool, ∃ c, gridConversions rd true = some (c, ["origin", "axes", "shape", "weight"]) ∧
      c.length = 2 ∧ ("axes", "*", angFactor) ∈ c ∧ ("origin", "*", angFactor) ∈ c := by
  intro rd
  cases rd
  · exact ⟨_, rfl, by decide⟩
  · exact ⟨_, rfl, by decide⟩

/-- **Bohr files** (positive first point count): nothing is converted on either path — the only augmented
assignment is the data counter. -/
theorem from_cube_bohr_unconverted :
    ∀ rd : Bool, (pathOf rd false).map (fun p => (augs p.effects).all fun x => x.1 == "counter") = some true ∧
      gridConversions rd false = some ([], ["origin", "axes", "shape", "weight"]) := by
  decide

/-- **Atoms** (`return_data=True`, angstrom file): the coordinates are converted, after the loop that reads
them and before the dictionary is built, and the dictionary hands out that array as `atcoords`; the data
values are not converted. -/
theorem from_cube_atoms_converted :
    ∃ p, pathOf true true = some p ∧
      (augs p.effects).filter (fun x => x.2.2 == angFactor)
        = [("axes", "*", angFactor), ("origin", "*", angFactor), ("coordinates", "*", angFactor)] ∧
      (∃ i j k, firstIdx (fun e => e == .assign ["numbers[i]", "pseudo_numbers[i]", "coordinates[i]"]
                  "read_coordinate_line(f.readline())") p.effects = some i ∧
          firstIdx (fun e => e == .aug "coordinates" "*" angFactor) p.effects = some j ∧
          firstIdx (fun e => match e with | .assign ["cube_data"] _ => true | _ => false) p.effects = some k ∧
          i < j ∧ j < k) ∧
      p.effects.getLast? = some (.ret true [("atnums", "numbers"), ("atcorenums", "pseudo_numbers"),
        ("atcoords", "coordinates"), ("data", "data")]) := by
  refine ⟨_, rfl, by decide, ⟨_, _, _, rfl, rfl, rfl, by decide, by decide⟩, by decide⟩

/-- **The unit flag** is the sign of the first point count, and the shape handed to the constructor is the
absolute value of the three counts — on every path. -/
theorem from_cube_unit_flag :
    unitFlagDefinition = "shape0 < 0" ∧
    fromCubePaths.all (fun p => p.effects.contains (.assign ["coordinates_in_angstrom"] "shape0 < 0") &&
      p.effects.contains (.assign ["shape"] "np.abs(np.asarray([shape0, shape1, shape2], dtype=int))")) = true ∧
    fromCubePaths.length = 4 := by
  decide

/-- **The writer** performs no conversion and writes origin, axes and point counts as stored
(`self._origin`, `self._axes`, `self._shape`: positive counts, i.e. the bohr convention of the reader). -/
theorem generate_cube_writes_stored_units :
    augs generateCubeEffects = [] ∧
    generateCubeEffects.contains (.assign ["x", "y", "z"] "self._origin") = true ∧
    generateCubeEffects.contains (.assign ["rvecs"] "self._axes") = true ∧
    generateCubeEffects.contains (.enter "for" "(i, (x, y, z)) in zip(self._shape, rvecs)") = true := by
  decide

end GridVerif.C13

/-
  C13 (2c) — Fourier1: the sum of the weights factorises over the axes, and the bound
  `|Σw/V − 1| ≤ Σ 1/sᵢ` follows for every shape (2-D and 3-D, any axes) from a *one-dimensional*
  statement about the per-axis ratio `ρ(n) = 2/(n+1) · Σᵢ weight_dir(n)ᵢ`:  `1 − 1/n ≤ ρ(n) ≤ 1`.

  The one-dimensional statement itself is not proved here (it needs `x·cot x` estimates and the value of
  `Σ_{j odd} 1/j²`; `ρ(n) = Σ_{j odd ≤ n} 8/(π²j²) · x_j cot x_j`, `x_j = jπ/(2(n+1))`); the oracle enumerates it
  for every `n ≤ 2000` on the implementation.  What the theorem removes is the enumeration over shapes:
  the exploration is one-dimensional, the step to all shapes (Weierstrass' product inequality) and the
  factorisation of the code's einsum assembly are proved, for the model and for the generated code.
-/
import GridVerif.Props.C13.GenWeights

namespace GridVerif.C13
open GridVerif GridVerif.Cubic
open GridVerif.Gen.CubicGrid (chooseWeightScheme)

/-- per-axis ratio of the Fourier1 scheme: `2/(n+1)` times the sum of the per-axis factor. -/
noncomputable def fourier1Ratio (n : Nat) : ℝ := 2 / ((n : ℝ) + 1) * (fourier1Dir n : List ℝ).sum

theorem two_pow_div_prod (shape : List Nat) (g : Nat → ℝ) :
    (2 : ℝ) ^ shape.length / (shape.map fun (s : Nat) => (s : ℝ) + 1).prod * (shape.map g).prod
      = (shape.map fun (s : Nat) => 2 / ((s : ℝ) + 1) * g s).prod := by
  induction shape with
  | nil => simp
  | cons s t ih =>
    simp only [List.length_cons, List.map_cons, List.prod_cons, ← ih, pow_succ]
    have hs : (s : ℝ) + 1 ≠ 0 := by positivity
    by_cases ht : (t.map fun (s : Nat) => (s : ℝ) + 1).prod = 0
    · simp [ht]
    · field_simp

/-- **Fourier1: the weights sum to `V · Π ρ(sᵢ)`** (model; every shape and dimension for which the volume
exists). -/
theorem fourier1_sum (axes : List (List ℝ)) (shape : List Nat) (V : ℝ) (hV : volume axes shape = .ok V) :
    ∃ W, weights axes shape .fourier1 = .ok W ∧ W.sum = V * (shape.map fourier1Ratio).prod := by
  refine ⟨_, by simp [weights, hV, bind, Except.bind, pure, Except.pure]; rfl, ?_⟩
  rw [sum_outer, List.map_map]
  unfold numPlusOne
  rw [prodK_eq_prod]
  have := two_pow_div_prod shape (fun s => (fourier1Dir s : List ℝ).sum)
  have e : (shape.map fourier1Ratio) = shape.map fun (s : Nat) => 2 / ((s : ℝ) + 1) * (fourier1Dir s : List ℝ).sum := rfl
  simp only [Function.comp_def, Nat.cast_one] at this ⊢
  rw [e, ← this]
  ring

/-- **From the axes to all shapes**: if every axis size of the shape satisfies the one-dimensional bound
`1 − 1/s ≤ ρ(s) ≤ 1`, the Fourier1 weights keep `|Σw/V − 1| ≤ Σ 1/sᵢ`. -/
theorem fourier1_bound_of_axis_bounds (axes : List (List ℝ)) (shape : List Nat) (V : ℝ)
    (hV : volume axes shape = .ok V) (hV0 : V ≠ 0) (hs : ∀ s ∈ shape, 1 ≤ s)
    (hax : ∀ s ∈ shape, 1 - 1 / (s : ℝ) ≤ fourier1Ratio s ∧ fourier1Ratio s ≤ 1) :
    ∃ W, weights axes shape .fourier1 = .ok W ∧ |W.sum / V - 1| ≤ recipSum shape := by
  obtain ⟨W, hW, hsum⟩ := fourier1_sum axes shape V hV
  refine ⟨W, hW, ?_⟩
  rw [hsum, mul_comm, mul_div_assoc, div_self hV0, mul_one]
  have key := one_sub_prod_le (shape.map fourier1Ratio) (by
    intro t ht
    obtain ⟨s, hs', rfl⟩ := List.mem_map.mp ht
    have h1s : (1 : ℝ) ≤ s := by exact_mod_cast hs s hs'
    have h0 : (0 : ℝ) ≤ 1 - 1 / (s : ℝ) := by
      rw [sub_nonneg, div_le_one (by linarith)]; exact h1s
    exact ⟨le_trans h0 (hax s hs').1, (hax s hs').2⟩)
  obtain ⟨_, h1, h2⟩ := key
  rw [abs_sub_comm, abs_of_nonneg (by linarith)]
  refine le_trans h2 ?_
  rw [List.map_map]
  unfold recipSum
  apply sum_map_le_sum_map
  intro s hs'
  simp only [Function.comp]
  linarith [(hax s hs').1]

/-- **The same for the generated Fourier1 code** (3-D and 2-D). -/
theorem fourier1_bound_of_axis_bounds_gen (axes : List (List ℝ)) (shape : List Nat) (V : ℝ)
    (hV : volume axes shape = .ok V) (hV0 : V ≠ 0) (hs : ∀ s ∈ shape, 1 ≤ s)
    (hax : ∀ s ∈ shape, 1 - 1 / (s : ℝ) ≤ fourier1Ratio s ∧ fourier1Ratio s ≤ 1) :
    ∃ W, chooseWeightScheme axes "Fourier1" shape = .ok W ∧ |W.sum / V - 1| ≤ recipSum shape := by
  have e : chooseWeightScheme axes "Fourier1" shape = weights axes shape .fourier1 := by
    have hv := hV
    unfold volume at hv
    split at hv
    · exact gen_fourier1_3d _ _ _ _ V hV
    · exact gen_fourier1_2d _ _ _ V hV
    · cases hv
  rw [e]
  exact fourier1_bound_of_axis_bounds axes shape V hV hV0 hs hax

/-- The one-dimensional hypothesis at the smallest size, exactly: `ρ(1) = 2/π·…`; for `n = 1` the factor is
`sin(π/2)·(1 − cos π)/π = 2/π` and `ρ(1) = 2/π ∈ [0, 1]`. -/
example : fourier1Ratio 1 = 2 / Real.pi ∧ 1 - 1 / ((1 : ℕ) : ℝ) ≤ fourier1Ratio 1 ∧ fourier1Ratio 1 ≤ 1 := by
  have h : fourier1Ratio 1 = 2 / Real.pi := by
    unfold fourier1Ratio fourier1Dir
    simp [sumK_eq_sum, Elem.sin, Elem.cos, Elem.pi, List.range_succ]
    have : Real.sin (Real.pi / 2) = 1 := Real.sin_pi_div_two
    rw [show Real.pi / ((1 : ℝ) + 1) = Real.pi / 2 by norm_num, this]
    field_simp
  refine ⟨h, ?_, ?_⟩
  · rw [h]; simp; positivity
  · rw [h, div_le_one Real.pi_pos]; linarith [Real.two_le_pi]

end GridVerif.C13

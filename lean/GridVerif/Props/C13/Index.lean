/-
  C13 (1/4) — index maps, layout of the point array, tensor weights, separable integrals.

  The index theorems are about the *regenerated* code `Gen/CubicIndex.lean`
  (`indexToCoordinates`, `coordinatesToIndex`: AST translation of `cubic.py`), so a change of the
  index arithmetic in the source changes the statements that are checked here.
  Shapes are arbitrary natural numbers (the constructors reject entries ≤ 1; the theorems
  need no such restriction beyond the indices being inside the grid).
-/
import GridVerif.Lemmas.Cubic

namespace GridVerif.C13
open GridVerif.Cubic GridVerif.Gen.CubicIndex

/-- **Stride code, 3-D**: `coordinates_to_index((i,j,k)) = i·s₁s₂ + j·s₂ + k` for every shape and
all integers, independently of what the uninitialised `np.empty` array held. -/
theorem coordinates_to_index_eq3 (s0 s1 s2 i j k junk : Int) :
    coordinatesToIndex 3 [s0, s1, s2] junk [i, j, k] = .ok (i * (s1 * s2) + j * s2 + k) := by
  simp [coordinatesToIndex, pyDot, bind, Except.bind, pure, Except.pure]
  ring

/-- **Stride code, 2-D**: `coordinates_to_index((i,j)) = i·s₁ + j`. -/
theorem coordinates_to_index_eq2 (s0 s1 i j junk : Int) :
    coordinatesToIndex 2 [s0, s1] junk [i, j] = .ok (i * s1 + j) := by
  simp [coordinatesToIndex, pyDot, bind, Except.bind, pure, Except.pure]

theorem c2i3 (s0 s1 s2 i j k junk : Int) :
    coordinatesToIndex 3 [s0, s1, s2] junk [i, j, k] = .ok (i * (s1 * s2) + j * s2 + k) :=
  coordinates_to_index_eq3 s0 s1 s2 i j k junk

theorem c2i2 (s0 s1 i j junk : Int) :
    coordinatesToIndex 2 [s0, s1] junk [i, j] = .ok (i * s1 + j) :=
  coordinates_to_index_eq2 s0 s1 i j junk

/-- the generated `index_to_coordinates`, 3-D branch, for a non-negative index and a shape without
zeros: the quotient/remainder expressions of the source. -/
theorem i2c3 (s0 s1 s2 idx : Int) (h : 0 ≤ idx) (h1 : s1 * s2 ≠ 0) (h2 : s2 ≠ 0) :
    indexToCoordinates 3 [s0, s1, s2] idx =
      .ok [idx.fdiv (s1 * s2), (idx - s1 * s2 * idx.fdiv (s1 * s2)).fdiv s2,
           idx - s1 * s2 * idx.fdiv (s1 * s2) - s2 * (idx - s1 * s2 * idx.fdiv (s1 * s2)).fdiv s2] := by
  simp [indexToCoordinates, pyFloorDiv, bind, Except.bind, pure, Except.pure, h, h1, h2]

theorem i2c2 (s0 s1 idx : Int) (h : 0 ≤ idx) (h1 : s1 ≠ 0) :
    indexToCoordinates 2 [s0, s1] idx = .ok [idx.fdiv s1, idx - s1 * idx.fdiv s1] := by
  simp [indexToCoordinates, pyFloorDiv, bind, Except.bind, pure, Except.pure, h, h1]

theorem i2c_neg (nd : Int) (shape : List Int) (idx : Int) (h : idx < 0) :
    indexToCoordinates nd shape idx = .error .valueError := by
  have : ¬ (0 ≤ idx) := by omega
  simp [indexToCoordinates, bind, Except.bind, this]
  rfl

/-- **Round trip index → coordinates → index, 3-D, every shape**: every flat index of the grid
is sent to integer coordinates inside the grid and comes back. -/
theorem index_roundtrip3 (s0 s1 s2 idx : Nat) (h : idx < s0 * s1 * s2) (junk : Int) :
    ∃ i j k : Nat, i < s0 ∧ j < s1 ∧ k < s2 ∧
      indexToCoordinates 3 [(s0 : Int), s1, s2] idx = .ok [(i : Int), j, k] ∧
      coordinatesToIndex 3 [(s0 : Int), s1, s2] junk [(i : Int), j, k] = .ok (idx : Int) := by
  have hs2 : 0 < s2 := by
    rcases Nat.eq_zero_or_pos s2 with h0 | h0
    · subst h0; simp at h
    · exact h0
  have hs1 : 0 < s1 := by
    rcases Nat.eq_zero_or_pos s1 with h0 | h0
    · subst h0; simp at h
    · exact h0
  have hm : 0 < s1 * s2 := Nat.mul_pos hs1 hs2
  refine ⟨idx / (s1 * s2), idx % (s1 * s2) / s2, idx % (s1 * s2) % s2, ?_, ?_, ?_, ?_, ?_⟩
  · rw [Nat.div_lt_iff_lt_mul hm]; rw [Nat.mul_assoc] at h; exact h
  · rw [Nat.div_lt_iff_lt_mul hs2]; exact Nat.mod_lt _ hm
  · exact Nat.mod_lt _ hs2
  · rw [i2c3 _ _ _ _ (by omega) (by exact_mod_cast hm.ne') (by exact_mod_cast hs2.ne')]
    have e1 : ((idx : Int)).fdiv ((s1 : Int) * s2) = ((idx / (s1 * s2) : Nat) : Int) := by
      rw [Int.fdiv_eq_ediv_of_nonneg _ (by positivity)]; push_cast; rfl
    have e2 : (idx : Int) - (s1 : Int) * s2 * ((idx / (s1 * s2) : Nat) : Int) = ((idx % (s1 * s2) : Nat) : Int) := by
      have := Nat.div_add_mod idx (s1 * s2)
      have h' : ((s1 * s2 * (idx / (s1 * s2)) + idx % (s1 * s2) : Nat) : Int) = (idx : Int) := by
        exact_mod_cast this
      push_cast at h' ⊢; linarith
    have e3 : (((idx % (s1 * s2) : Nat) : Int)).fdiv (s2 : Int) = ((idx % (s1 * s2) / s2 : Nat) : Int) := by
      rw [Int.fdiv_eq_ediv_of_nonneg _ (by positivity)]; push_cast; rfl
    have e4 : ((idx % (s1 * s2) : Nat) : Int) - (s2 : Int) * ((idx % (s1 * s2) / s2 : Nat) : Int)
        = ((idx % (s1 * s2) % s2 : Nat) : Int) := by
      have := Nat.div_add_mod (idx % (s1 * s2)) s2
      have h' : ((s2 * (idx % (s1 * s2) / s2) + idx % (s1 * s2) % s2 : Nat) : Int) = ((idx % (s1 * s2) : Nat) : Int) := by
        exact_mod_cast this
      push_cast at h' ⊢; linarith
    rw [e1, e2, e3, e4]
  · rw [c2i3]
    congr 1
    have a := Nat.div_add_mod idx (s1 * s2)
    have b := Nat.div_add_mod (idx % (s1 * s2)) s2
    have : (idx / (s1 * s2)) * (s1 * s2) + (idx % (s1 * s2) / s2) * s2 + idx % (s1 * s2) % s2 = idx := by
      rw [Nat.mul_comm (idx / (s1 * s2)), Nat.mul_comm (idx % (s1 * s2) / s2), Nat.add_assoc, b, a]
    exact_mod_cast this

/-- **Round trip index → coordinates → index, 2-D, every shape.** -/
theorem index_roundtrip2 (s0 s1 idx : Nat) (h : idx < s0 * s1) (junk : Int) :
    ∃ i j : Nat, i < s0 ∧ j < s1 ∧
      indexToCoordinates 2 [(s0 : Int), s1] idx = .ok [(i : Int), j] ∧
      coordinatesToIndex 2 [(s0 : Int), s1] junk [(i : Int), j] = .ok (idx : Int) := by
  have hs1 : 0 < s1 := by
    rcases Nat.eq_zero_or_pos s1 with h0 | h0
    · subst h0; simp at h
    · exact h0
  refine ⟨idx / s1, idx % s1, ?_, Nat.mod_lt _ hs1, ?_, ?_⟩
  · rw [Nat.div_lt_iff_lt_mul hs1]; exact h
  · rw [i2c2 _ _ _ (by omega) (by exact_mod_cast hs1.ne')]
    have e1 : ((idx : Int)).fdiv (s1 : Int) = ((idx / s1 : Nat) : Int) := by
      rw [Int.fdiv_eq_ediv_of_nonneg _ (by positivity)]; push_cast; rfl
    have e2 : (idx : Int) - (s1 : Int) * ((idx / s1 : Nat) : Int) = ((idx % s1 : Nat) : Int) := by
      have := Nat.div_add_mod idx s1
      have h' : ((s1 * (idx / s1) + idx % s1 : Nat) : Int) = (idx : Int) := by exact_mod_cast this
      push_cast at h' ⊢; linarith
    rw [e1, e2]
  · rw [c2i2]
    congr 1
    have a := Nat.div_add_mod idx s1
    have : (idx / s1) * s1 + idx % s1 = idx := by rw [Nat.mul_comm]; exact a
    exact_mod_cast this

/-- **Round trip coordinates → index → coordinates, 3-D, every shape**: integer coordinates
inside the grid are sent to a flat index below the number of points and come back. -/
theorem coords_roundtrip3 (s0 s1 s2 i j k : Nat) (hi : i < s0) (hj : j < s1) (hk : k < s2) (junk : Int) :
    ∃ idx : Nat, idx < s0 * s1 * s2 ∧ idx = i * (s1 * s2) + j * s2 + k ∧
      coordinatesToIndex 3 [(s0 : Int), s1, s2] junk [(i : Int), j, k] = .ok (idx : Int) ∧
      indexToCoordinates 3 [(s0 : Int), s1, s2] idx = .ok [(i : Int), j, k] := by
  have hr : j * s2 + k < s1 * s2 := by
    calc j * s2 + k < j * s2 + s2 := by omega
      _ = (j + 1) * s2 := by ring
      _ ≤ s1 * s2 := Nat.mul_le_mul_right s2 hj
  have hm : 0 < s1 * s2 := by omega
  refine ⟨i * (s1 * s2) + j * s2 + k, ?_, rfl, ?_, ?_⟩
  · calc i * (s1 * s2) + j * s2 + k < i * (s1 * s2) + s1 * s2 := by omega
      _ = (i + 1) * (s1 * s2) := by ring
      _ ≤ s0 * (s1 * s2) := Nat.mul_le_mul_right _ hi
      _ = s0 * s1 * s2 := by ring
  · rw [c2i3]; exact congrArg Except.ok (by push_cast; ring)
  · rw [i2c3 _ _ _ _ (by positivity) (by exact_mod_cast hm.ne') (by exact_mod_cast (by omega : s2 ≠ 0))]
    have e1 : (((i * (s1 * s2) + j * s2 + k : Nat) : Int)).fdiv ((s1 : Int) * s2) = i := by
      have : ((i * (s1 * s2) + j * s2 + k : Nat) : Int) = (i : Int) * ((s1 : Int) * s2) + ((j * s2 + k : Nat) : Int) := by
        push_cast; ring
      rw [this]
      exact fdiv_mul_add _ _ _ (by positivity) (by exact_mod_cast hr)
    have e2 : ((i * (s1 * s2) + j * s2 + k : Nat) : Int) - (s1 : Int) * s2 * (i : Int) = (j : Int) * s2 + k := by
      push_cast; ring
    have e3 : ((j : Int) * s2 + k).fdiv (s2 : Int) = j :=
      fdiv_mul_add _ _ _ (by positivity) (by exact_mod_cast hk)
    have e4 : (j : Int) * s2 + k - (s2 : Int) * j = k := by ring
    rw [e1, e2, e3, e4]

/-- **Round trip coordinates → index → coordinates, 2-D, every shape.** -/
theorem coords_roundtrip2 (s0 s1 i j : Nat) (hi : i < s0) (hj : j < s1) (junk : Int) :
    ∃ idx : Nat, idx < s0 * s1 ∧ idx = i * s1 + j ∧
      coordinatesToIndex 2 [(s0 : Int), s1] junk [(i : Int), j] = .ok (idx : Int) ∧
      indexToCoordinates 2 [(s0 : Int), s1] idx = .ok [(i : Int), j] := by
  refine ⟨i * s1 + j, ?_, rfl, ?_, ?_⟩
  · calc i * s1 + j < i * s1 + s1 := by omega
      _ = (i + 1) * s1 := by ring
      _ ≤ s0 * s1 := Nat.mul_le_mul_right _ hi
  · rw [c2i2]; congr 1
  · rw [i2c2 _ _ _ (by positivity) (by exact_mod_cast (by omega : s1 ≠ 0))]
    have e1 : (((i * s1 + j : Nat) : Int)).fdiv (s1 : Int) = i := by
      have : ((i * s1 + j : Nat) : Int) = (i : Int) * s1 + j := by push_cast; ring
      rw [this]
      exact fdiv_mul_add _ _ _ (by positivity) (by exact_mod_cast hj)
    have e2 : ((i * s1 + j : Nat) : Int) - (s1 : Int) * i = j := by push_cast; ring
    rw [e1, e2]

/-- A negative index is rejected (`ValueError`) in every dimension. -/
theorem index_negative_rejected (nd : Int) (shape : List Int) (idx : Int) (h : idx < 0) :
    indexToCoordinates nd shape idx = .error .valueError :=
  i2c_neg nd shape idx h

example : indexToCoordinates 3 [4, 5, 6] 45 = .ok [1, 2, 3] ∧
    coordinatesToIndex 3 [4, 5, 6] 99 [1, 2, 3] = .ok 45 ∧
    indexToCoordinates 2 [4, 5] 13 = .ok [2, 3] ∧ coordinatesToIndex 2 [4, 5] 99 [2, 3] = .ok 13 := by
  decide

section layout
variable {K : Type} [Add K] [Mul K] [NatCast K]

/-- **Layout, 3-D `UniformGrid`**: the row of the point array at the flat index of `(i,j,k)`
(computed by the generated stride code) is `pointAt origin axes (i,j,k)`, for every shape,
origin and (skewed) axes. -/
theorem layout3 (origin : List K) (axes : List (List K)) (s0 s1 s2 i j k : Nat)
    (hi : i < s0) (hj : j < s1) (hk : k < s2) (junk : Int) :
    ∃ idx : Nat, coordinatesToIndex 3 [(s0 : Int), s1, s2] junk [(i : Int), j, k] = .ok (idx : Int) ∧
      (uniformPoints origin axes [s0, s1, s2])[idx]? = some (pointAt origin axes [i, j, k]) := by
  refine ⟨i * (s1 * s2) + j * s2 + k, ?_, ?_⟩
  · rw [c2i3]; exact congrArg Except.ok (by push_cast; ring)
  · unfold uniformPoints
    rw [List.getElem?_map, allCoords3_getElem? s0 s1 s2 i j k hi hj hk]
    rfl

/-- **Layout, 2-D `UniformGrid`.** -/
theorem layout2 (origin : List K) (axes : List (List K)) (s0 s1 i j : Nat)
    (hi : i < s0) (hj : j < s1) (junk : Int) :
    ∃ idx : Nat, coordinatesToIndex 2 [(s0 : Int), s1] junk [(i : Int), j] = .ok (idx : Int) ∧
      (uniformPoints origin axes [s0, s1])[idx]? = some (pointAt origin axes [i, j]) := by
  refine ⟨i * s1 + j, ?_, ?_⟩
  · rw [c2i2]; congr 1
  · unfold uniformPoints
    rw [List.getElem?_map, allCoords2_getElem? s0 s1 i j hi hj]
    rfl

end layout

/-- `pointAt` is `origin + i·a₁ + j·a₂ + k·a₃` (components over the reals). -/
theorem point_formula3 (o0 o1 o2 a00 a01 a02 a10 a11 a12 a20 a21 a22 : ℝ) (i j k : Nat) :
    pointAt [o0, o1, o2] [[a00, a01, a02], [a10, a11, a12], [a20, a21, a22]] [i, j, k]
      = [o0 + (i * a00 + j * a10 + k * a20), o1 + (i * a01 + j * a11 + k * a21),
         o2 + (i * a02 + j * a12 + k * a22)] := by
  simp [pointAt]
  refine ⟨?_, ?_, ?_⟩ <;> ring

theorem point_formula2 (o0 o1 a00 a01 a10 a11 : ℝ) (i j : Nat) :
    pointAt [o0, o1] [[a00, a01], [a10, a11]] [i, j]
      = [o0 + (i * a00 + j * a10), o1 + (i * a01 + j * a11)] := by
  simp [pointAt]
  refine ⟨?_, ?_⟩ <;> ring

/-- **Last index fastest, 3-D**: the flat index is strictly increasing in the lexicographic order
of the coordinates and increasing the last coordinate by one increases it by one. -/
theorem last_index_fastest3 (s0 s1 s2 : Nat) (junk : Int) :
    (∀ i j k : Int, ∃ n, coordinatesToIndex 3 [(s0 : Int), s1, s2] junk [i, j, k] = .ok n ∧
        coordinatesToIndex 3 [(s0 : Int), s1, s2] junk [i, j, k + 1] = .ok (n + 1)) ∧
    (∀ i j k i' j' k' : Nat, j < s1 → k < s2 → j' < s1 → k' < s2 →
        (i < i' ∨ (i = i' ∧ (j < j' ∨ (j = j' ∧ k < k')))) →
        ∃ n n' : Int, coordinatesToIndex 3 [(s0 : Int), s1, s2] junk [(i : Int), j, k] = .ok n ∧
          coordinatesToIndex 3 [(s0 : Int), s1, s2] junk [(i' : Int), j', k'] = .ok n' ∧ n < n') := by
  constructor
  · intro i j k
    exact ⟨_, c2i3 _ _ _ _ _ _ _, by rw [c2i3]; congr 1; ring⟩
  · intro i j k i' j' k' hj hk hj' hk' hlt
    refine ⟨_, _, c2i3 _ _ _ _ _ _ _, c2i3 _ _ _ _ _ _ _, ?_⟩
    have key : i * (s1 * s2) + j * s2 + k < i' * (s1 * s2) + j' * s2 + k' := by
      have hr : j * s2 + k < s1 * s2 := by
        calc j * s2 + k < j * s2 + s2 := by omega
          _ = (j + 1) * s2 := by ring
          _ ≤ s1 * s2 := Nat.mul_le_mul_right s2 hj
      rcases hlt with h | ⟨rfl, h | ⟨rfl, h⟩⟩
      · calc i * (s1 * s2) + j * s2 + k < i * (s1 * s2) + s1 * s2 := by omega
          _ = (i + 1) * (s1 * s2) := by ring
          _ ≤ i' * (s1 * s2) := Nat.mul_le_mul_right _ h
          _ ≤ i' * (s1 * s2) + j' * s2 + k' := by omega
      · have : (j + 1) * s2 ≤ j' * s2 := Nat.mul_le_mul_right _ h
        have e : (j + 1) * s2 = j * s2 + s2 := by ring
        omega
      · omega
    exact_mod_cast key

/-- **Last index fastest, 2-D.** -/
theorem last_index_fastest2 (s0 s1 : Nat) (junk : Int) :
    (∀ i j : Int, ∃ n, coordinatesToIndex 2 [(s0 : Int), s1] junk [i, j] = .ok n ∧
        coordinatesToIndex 2 [(s0 : Int), s1] junk [i, j + 1] = .ok (n + 1)) ∧
    (∀ i j i' j' : Nat, j < s1 → j' < s1 → (i < i' ∨ (i = i' ∧ j < j')) →
        ∃ n n' : Int, coordinatesToIndex 2 [(s0 : Int), s1] junk [(i : Int), j] = .ok n ∧
          coordinatesToIndex 2 [(s0 : Int), s1] junk [(i' : Int), j'] = .ok n' ∧ n < n') := by
  constructor
  · intro i j
    exact ⟨_, c2i2 _ _ _ _ _, by rw [c2i2]; congr 1; ring⟩
  · intro i j i' j' hj hj' hlt
    refine ⟨_, _, c2i2 _ _ _ _ _, c2i2 _ _ _ _ _, ?_⟩
    have key : i * s1 + j < i' * s1 + j' := by
      rcases hlt with h | ⟨rfl, h⟩
      · have : (i + 1) * s1 ≤ i' * s1 := Nat.mul_le_mul_right _ h
        have e : (i + 1) * s1 = i * s1 + s1 := by ring
        omega
      · omega
    exact_mod_cast key

section tensor
variable {K : Type}

/-- **Layout, 3-D `Tensor1DGrids`**: the point at the flat index of `(i,j,k)` is the tuple of
1-D nodes `(x_i, y_j, z_k)`; the shape is the triple of the 1-D sizes. -/
theorem tensor_layout3 (xs ys zs : List K) (i j k : Nat) (hi : i < xs.length) (hj : j < ys.length)
    (hk : k < zs.length) (junk : Int) :
    ∃ idx : Nat, coordinatesToIndex 3 [(xs.length : Int), ys.length, zs.length] junk [(i : Int), j, k]
        = .ok (idx : Int) ∧
      (tensorPoints [xs, ys, zs])[idx]? = some [xs[i], ys[j], zs[k]] := by
  refine ⟨i * (ys.length * zs.length) + j * zs.length + k, ?_, ?_⟩
  · rw [c2i3]; exact congrArg Except.ok (by push_cast; ring)
  · have h0 : (tensorPoints ([] : List (List K))).length = 1 := by simp [length_tensorPoints]
    have h2 : (tensorPoints [zs]).length = zs.length := by simp [length_tensorPoints]
    have h1 : (tensorPoints [ys, zs]).length = ys.length * zs.length := by simp [length_tensorPoints]
    have hr : j * zs.length + k < ys.length * zs.length := by
      calc j * zs.length + k < j * zs.length + zs.length := by omega
        _ = (j + 1) * zs.length := by ring
        _ ≤ ys.length * zs.length := Nat.mul_le_mul_right _ hj
    have e0 := tensorPoints_cons_getElem? xs [ys, zs] i (j * zs.length + k) hi (by rw [h1]; exact hr)
    have e1 := tensorPoints_cons_getElem? ys [zs] j k hj (by rw [h2]; exact hk)
    have e2 := tensorPoints_cons_getElem? zs [] k 0 hk (by rw [h0]; omega)
    rw [h1] at e0; rw [h2] at e1; rw [h0] at e2
    simp only [Nat.mul_one, Nat.add_zero] at e2
    rw [Nat.add_assoc, e0, e1, e2]
    simp [tensorPoints]

/-- **Layout, 2-D `Tensor1DGrids`.** -/
theorem tensor_layout2 (xs ys : List K) (i j : Nat) (hi : i < xs.length) (hj : j < ys.length) (junk : Int) :
    ∃ idx : Nat, coordinatesToIndex 2 [(xs.length : Int), ys.length] junk [(i : Int), j] = .ok (idx : Int) ∧
      (tensorPoints [xs, ys])[idx]? = some [xs[i], ys[j]] := by
  refine ⟨i * ys.length + j, ?_, ?_⟩
  · rw [c2i2]; exact congrArg Except.ok (by push_cast; ring)
  · have h0 : (tensorPoints ([] : List (List K))).length = 1 := by simp [length_tensorPoints]
    have h1 : (tensorPoints [ys]).length = ys.length := by simp [length_tensorPoints]
    have e0 := tensorPoints_cons_getElem? xs [ys] i j hi (by rw [h1]; exact hj)
    have e1 := tensorPoints_cons_getElem? ys [] j 0 hj (by rw [h0]; omega)
    rw [h1] at e0; rw [h0] at e1
    simp only [Nat.mul_one, Nat.add_zero] at e1
    rw [e0, e1]
    simp [tensorPoints]

variable [Mul K]

/-- **Tensor weights, 3-D**: the weight at the flat index of `(i,j,k)` is the product of the 1-D
weights `(wx_i · wy_j) · wz_k`. -/
theorem tensor_weight3 (wx wy wz : List K) (i j k : Nat) (hi : i < wx.length) (hj : j < wy.length)
    (hk : k < wz.length) (junk : Int) :
    ∃ (idx : Nat) (W : List K),
      coordinatesToIndex 3 [(wx.length : Int), wy.length, wz.length] junk [(i : Int), j, k] = .ok (idx : Int) ∧
      tensorWeights [wx, wy, wz] = .ok W ∧ W.length = wx.length * wy.length * wz.length ∧
      W[idx]? = some (wx[i] * wy[j] * wz[k]) := by
  refine ⟨i * (wy.length * wz.length) + j * wz.length + k, kron (kron wx wy) wz, ?_, rfl, ?_, ?_⟩
  · rw [c2i3]; exact congrArg Except.ok (by push_cast; ring)
  · rw [length_kron, length_kron]
  · have hij : i * wy.length + j < (kron wx wy).length := by
      rw [length_kron]
      calc i * wy.length + j < i * wy.length + wy.length := by omega
        _ = (i + 1) * wy.length := by ring
        _ ≤ wx.length * wy.length := Nat.mul_le_mul_right _ hi
    have e : i * (wy.length * wz.length) + j * wz.length + k = (i * wy.length + j) * wz.length + k := by ring
    rw [e, kron_getElem? _ _ _ _ hij hk]
    have := kron_getElem? wx wy i j hi hj
    rw [List.getElem?_eq_getElem hij] at this
    simp only [Option.some.injEq] at this
    rw [this]

/-- **Tensor weights, 2-D.** -/
theorem tensor_weight2 (wx wy : List K) (i j : Nat) (hi : i < wx.length) (hj : j < wy.length) (junk : Int) :
    ∃ (idx : Nat) (W : List K),
      coordinatesToIndex 2 [(wx.length : Int), wy.length] junk [(i : Int), j] = .ok (idx : Int) ∧
      tensorWeights [wx, wy] = .ok W ∧ W.length = wx.length * wy.length ∧
      W[idx]? = some (wx[i] * wy[j]) := by
  refine ⟨i * wy.length + j, kron wx wy, ?_, rfl, length_kron _ _, kron_getElem? wx wy i j hi hj⟩
  rw [c2i2]; exact congrArg Except.ok (by push_cast; ring)

end tensor

theorem flatMap_singleton_eq_map {α β} (l : List α) (f : α → β) :
    l.flatMap (fun x => [f x]) = l.map f := by
  induction l with
  | nil => rfl
  | cons a t ih => simp [List.flatMap_cons, ih]

/-- quadrature sum `Σ_n w_n · F(p_n)` of a grid. -/
def integrate (W : List ℝ) (P : List (List ℝ)) (F : List ℝ → ℝ) : ℝ :=
  (List.zipWith (fun w p => w * F p) W P).sum

/-- 1-D quadrature sum `Σ_i w_i f(x_i)`. -/
def integrate1 (w x : List ℝ) (f : ℝ → ℝ) : ℝ := (List.zipWith (fun a t => a * f t) w x).sum

/-- **Separable integrands, 3-D**: on a tensor-product grid the quadrature of
`f(x)·g(y)·h(z)` is the product of the three 1-D quadratures (all node/weight lists of
matching length, as `OneDGrid` guarantees). -/
theorem separable_integral3 (wx wy wz xs ys zs : List ℝ) (f g h : ℝ → ℝ)
    (hy : wy.length = ys.length) (hz : wz.length = zs.length) :
    ∃ W, tensorWeights [wx, wy, wz] = .ok W ∧
      integrate W (tensorPoints [xs, ys, zs])
          (fun p => match p with | [x, y, z] => f x * g y * h z | _ => 0)
        = integrate1 wx xs f * integrate1 wy ys g * integrate1 wz zs h := by
  refine ⟨kron (kron wx wy) wz, rfl, ?_⟩
  have hW : kron (kron wx wy) wz
      = wx.flatMap fun a => wy.flatMap fun b => wz.map fun c => a * b * c := by
    simp [kron, List.flatMap_assoc, List.flatMap_map]
  have hP : tensorPoints [xs, ys, zs]
      = xs.flatMap fun x => ys.flatMap fun y => zs.map fun z => [x, y, z] := by
    simp [tensorPoints, List.map_flatMap, flatMap_singleton_eq_map]
    rfl
  unfold integrate integrate1
  rw [hW, hP, sum_zipWith_flatMap]
  · have inner : ∀ a x, (List.zipWith (fun w p => w * (match p with | [x, y, z] => f x * g y * h z | _ => 0))
          (wy.flatMap fun b => wz.map fun c => a * b * c) (ys.flatMap fun y => zs.map fun z => [x, y, z])).sum
        = (a * f x) * ((List.zipWith (fun b y => b * g y) wy ys).sum * (List.zipWith (fun c z => c * h z) wz zs).sum) := by
      intro a x
      rw [sum_zipWith_flatMap _ _ _ _ _ (by intro b y; simp [hz])]
      have : (fun b y => (List.zipWith (fun w p => w * (match p with | [x, y, z] => f x * g y * h z | _ => 0))
            (wz.map fun c => a * b * c) (zs.map fun z => [x, y, z])).sum)
          = fun b y => (a * f x) * ((b * g y) * (List.zipWith (fun c z => c * h z) wz zs).sum) := by
        funext b y
        rw [List.zipWith_map]
        have : (fun c z => a * b * c * (f x * g y * h z)) = fun c z => (a * f x * (b * g y)) * (c * h z) := by
          funext c z; ring
        simp only [this, sum_zipWith_mul_left]
        ring
      rw [this, sum_zipWith_mul_left, sum_zipWith_mul_right]
    simp only [inner, sum_zipWith_mul_right]
    ring
  · intro a x
    rw [length_flatMap_uniform _ wz.length _ (by intro b _; simp),
      length_flatMap_uniform _ zs.length _ (by intro b _; simp), hy, hz]

/-- **Separable integrands, 2-D.** -/
theorem separable_integral2 (wx wy xs ys : List ℝ) (f g : ℝ → ℝ) (hy : wy.length = ys.length) :
    ∃ W, tensorWeights [wx, wy] = .ok W ∧
      integrate W (tensorPoints [xs, ys]) (fun p => match p with | [x, y] => f x * g y | _ => 0)
        = integrate1 wx xs f * integrate1 wy ys g := by
  refine ⟨kron wx wy, rfl, ?_⟩
  have hP : tensorPoints [xs, ys] = xs.flatMap fun x => ys.map fun y => [x, y] := by
    simp [tensorPoints, flatMap_singleton_eq_map]
    rfl
  unfold integrate integrate1 kron
  rw [hP, sum_zipWith_flatMap _ _ _ _ _ (by intro a x; simp [hy])]
  have : (fun a x => (List.zipWith (fun w p => w * (match p with | [x, y] => f x * g y | _ => 0))
        (wy.map fun b => a * b) (ys.map fun y => [x, y])).sum)
      = fun a x => (a * f x) * (List.zipWith (fun b y => b * g y) wy ys).sum := by
    funext a x
    rw [List.zipWith_map]
    have : (fun b y => a * b * (f x * g y)) = fun b y => (a * f x) * (b * g y) := by
      funext b y; ring
    simp only [this, sum_zipWith_mul_left]
  rw [this, sum_zipWith_mul_right]

/-- Non-vacuity: a 2×3×2 tensor grid, the weight and point at `(1,2,1)`, and a separable integrand. -/
example :
    (tensorPoints [[(0 : ℝ), 1], [2, 3, 5], [7, 11]])[1 * (3 * 2) + 2 * 2 + 1]? = some [1, 5, 11] ∧
    (kron (kron [(1 : ℝ), 2] [3, 4, 5]) [6, 7])[1 * (3 * 2) + 2 * 2 + 1]? = some (2 * 5 * 7) := by
  constructor <;> simp [tensorPoints, kron]

end GridVerif.C13

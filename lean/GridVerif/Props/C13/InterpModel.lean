/-
  C13 (4b/4) — the code's cubic interpolation *is* the nested interpolation of `Interp.lean`.

  `Cubic.interpCubic` follows the source literally (flat indices from the generated stride code,
  slices `[idx(x,y,1) : idx(x,y,s₂−2)]`, rows `arange(1, s−2)·stride`).  On a tensor-product grid
  with function values `f(xᵢ,yⱼ,z_k)` it equals `nestedInterp` over the inner nodes `l[1 : len−2]`
  of the three axes — for every 1-D operator, all data, all shapes ≥ 2.  Together with
  `nested_interp_exact` this gives exactness of the modelled method on tensor-cubic polynomials
  whenever the operator is exact on cubics on those inner node lists (SciPy: ≥ 4 inner nodes, i.e.
  ≥ 7 points per axis).
-/
import GridVerif.Props.C13.Index
import GridVerif.Props.C13.Interp

namespace GridVerif.C13
open GridVerif GridVerif.Cubic GridVerif.Gen.CubicIndex

theorem mapM_map_ok {α β γ} (l : List α) (h : α → β) (f : β → Py γ) (g : α → γ)
    (hyp : ∀ a ∈ l, f (h a) = .ok (g a)) : (l.map h).mapM f = .ok (l.map g) := by
  induction l with
  | nil => rfl
  | cons a t ih =>
    rw [List.map_cons, List.mapM_cons, hyp a (List.mem_cons_self),
      ih (fun b hb => hyp b (List.mem_cons_of_mem _ hb))]
    rfl

theorem mapM_ok {α γ} (l : List α) (f : α → Py γ) (g : α → γ) (hyp : ∀ a ∈ l, f a = .ok (g a)) :
    l.mapM f = .ok (l.map g) := by
  have := mapM_map_ok l id f g hyp
  simpa using this

theorem getElem?_slice {α} (l : List α) (a b n : Nat) :
    (slice l a b)[n]? = if n < b - a then l[a + n]? else none := by
  unfold slice
  rw [List.getElem?_take]
  split
  · rw [List.getElem?_drop]
  · rfl

theorem slice_map {α β} (l : List α) (g : α → β) (a b : Nat) : slice (l.map g) a b = (slice l a b).map g := by
  unfold slice; rw [List.map_take, List.map_drop]

/-- inner nodes `l[1 : len−2]` of an axis (indices `1 … len−3`). -/
def innerNodes (l : List ℝ) : List ℝ := slice l 1 (l.length - 2)

theorem mem_innerIdx {s i : Nat} (h : i ∈ innerIdx s) : i < s - 2 := by
  unfold innerIdx at h
  exact List.mem_range.mp (List.mem_of_mem_drop h)

theorem inner_index_map (l : List ℝ) : (innerIdx l.length).map (fun i => l.getD i 0) = innerNodes l := by
  apply List.ext_getElem?
  intro n
  unfold innerNodes innerIdx
  rw [getElem?_slice, List.getElem?_map, List.getElem?_drop]
  by_cases h : n < l.length - 2 - 1
  · rw [if_pos h, List.getElem?_range (by omega)]
    have h1 : 1 + n < l.length := by omega
    simp [List.getD_eq_getElem?_getD, List.getElem?_eq_getElem h1]
  · rw [if_neg h, List.getElem?_eq_none (by simp; omega)]
    rfl

theorem getD_of_lt (l : List ℝ) (i : Nat) (h : i < l.length) : l.getD i 0 = l[i] := by
  simp [List.getD_eq_getElem?_getD, List.getElem?_eq_getElem h]

/-- row of a 3-D tensor grid at the row-major index of `(i,j,k)`. -/
theorem tensorPoints3_getElem? (xs ys zs : List ℝ) (i j k : Nat) (hi : i < xs.length) (hj : j < ys.length)
    (hk : k < zs.length) :
    (tensorPoints [xs, ys, zs])[i * (ys.length * zs.length) + j * zs.length + k]?
      = some [xs.getD i 0, ys.getD j 0, zs.getD k 0] := by
  obtain ⟨idx, h1, h2⟩ := tensor_layout3 xs ys zs i j k hi hj hk 0
  rw [c2i3] at h1
  have : (idx : Int) = ((i * (ys.length * zs.length) + j * zs.length + k : Nat) : Int) := by
    have := Except.ok.inj h1; push_cast; linarith
  have : idx = i * (ys.length * zs.length) + j * zs.length + k := by exact_mod_cast this
  rw [← this, h2, getD_of_lt _ _ hi, getD_of_lt _ _ hj, getD_of_lt _ _ hk]

/-- `flatIndex` (generated stride code on natural numbers). -/
theorem flatIndex3 (s0 s1 s2 i j k : Nat) :
    flatIndex [s0, s1, s2] [i, j, k] = .ok (i * (s1 * s2) + j * s2 + k) := by
  unfold flatIndex
  have h3 : (([s0, s1, s2] : List Nat).length : Int) = 3 := rfl
  have e := c2i3 s0 s1 s2 i j k 0
  simp only [List.map_cons, List.map_nil, h3, Int.ofNat_eq_natCast, e, bind, Except.bind]
  have hnn : ¬ ((i : Int) * ((s1 : Int) * s2) + j * s2 + k < 0) := not_lt.mpr (by positivity)
  rw [if_neg hnn]
  have : (i : Int) * ((s1 : Int) * s2) + j * s2 + k = ((i * (s1 * s2) + j * s2 + k : Nat) : Int) := by
    push_cast; ring
  rw [this, Int.toNat_natCast]
  rfl

/-- function values on the grid points, in the order of the points. -/
def gridValues (f : ℝ → ℝ → ℝ → ℝ) (P : List (List ℝ)) : List ℝ :=
  P.map fun p => match p with | [x, y, z] => f x y z | _ => 0

theorem interpCol_third (a b : ℝ) (l : List ℝ) :
    interpCol (l.map fun zz => [a, b, zz]) 2 = .ok l := by
  induction l with
  | nil => rfl
  | cons c t ih =>
    unfold interpCol at ih ⊢
    rw [List.map_cons, List.mapM_cons, ih]
    rfl

section
variable (I : Interp1 ℝ) (xs ys zs : List ℝ) (f : ℝ → ℝ → ℝ → ℝ)

/-- the z-spline at an (x-index, y-index) inside the grid. -/
theorem zSpline_tensor (n3 : ℕ) (z : ℝ) (xi yj : Nat) (hxi : xi < xs.length) (hyj : yj < ys.length) :
    zSpline I [xs.length, ys.length, zs.length] (tensorPoints [xs, ys, zs])
        (gridValues f (tensorPoints [xs, ys, zs])) zs.length n3 z xi yj
      = .ok (I (innerNodes zs) ((innerNodes zs).map (f (xs.getD xi 0) (ys.getD yj 0))) n3 z) := by
  have key : slice (tensorPoints [xs, ys, zs]) (xi * (ys.length * zs.length) + yj * zs.length + 1)
        (xi * (ys.length * zs.length) + yj * zs.length + (zs.length - 2))
      = (innerNodes zs).map fun zz => [xs.getD xi 0, ys.getD yj 0, zz] := by
    apply List.ext_getElem?
    intro n
    unfold innerNodes
    rw [getElem?_slice, List.getElem?_map, getElem?_slice]
    have e : xi * (ys.length * zs.length) + yj * zs.length + (zs.length - 2)
        - (xi * (ys.length * zs.length) + yj * zs.length + 1) = zs.length - 2 - 1 := by
      generalize xi * (ys.length * zs.length) + yj * zs.length = base
      omega
    rw [e]
    by_cases h : n < zs.length - 2 - 1
    · have hk : 1 + n < zs.length := by omega
      rw [if_pos h, if_pos h, Nat.add_assoc, tensorPoints3_getElem? xs ys zs xi yj (1 + n) hxi hyj hk,
        List.getElem?_eq_getElem hk, getD_of_lt _ _ hk]
      rfl
    · rw [if_neg h, if_neg h]; rfl
  unfold zSpline
  rw [flatIndex3, flatIndex3]
  simp only [bind, Except.bind]
  rw [key, interpCol_third]
  simp only [pure, Except.pure]
  unfold gridValues
  rw [slice_map, key, List.map_map]
  rfl

theorem interpRows_ok (P : List (List ℝ)) (l : List Nat) (h : Nat → Nat) (g : Nat → List ℝ)
    (hyp : ∀ a ∈ l, P[h a]? = some (g a)) : interpRows P (l.map h) = .ok (l.map g) := by
  unfold interpRows
  apply mapM_map_ok
  intro a ha
  rw [hyp a ha]; rfl

theorem interpCol_ok (rows : List (List ℝ)) (d : Nat) (g : List ℝ → ℝ)
    (hyp : ∀ r ∈ rows, r[d]? = some (g r)) : interpCol rows d = .ok (rows.map g) := by
  unfold interpCol
  apply mapM_ok
  intro r hr
  rw [hyp r hr]; rfl

/-- the y-spline at an x-index inside the grid. -/
theorem ySpline_tensor (n2 n3 : ℕ) (y z : ℝ) (xi : Nat) (hxi : xi < xs.length) (hz : 1 ≤ zs.length) :
    ySpline I [xs.length, ys.length, zs.length] (tensorPoints [xs, ys, zs])
        (gridValues f (tensorPoints [xs, ys, zs])) ys.length zs.length n2 n3 y z xi
      = .ok (I (innerNodes ys) ((innerNodes ys).map fun yy =>
          I (innerNodes zs) ((innerNodes zs).map (f (xs.getD xi 0) yy)) n3 z) n2 y) := by
  have hx0 : 0 < xs.length := by omega
  unfold ySpline
  have rows : interpRows (tensorPoints [xs, ys, zs]) ((innerIdx ys.length).map (· * zs.length))
      = .ok ((innerIdx ys.length).map fun yj => [xs.getD 0 0, ys.getD yj 0, zs.getD 0 0]) := by
    apply interpRows_ok
    intro yj hyj
    have hlt : yj < ys.length := by have := mem_innerIdx hyj; omega
    have := tensorPoints3_getElem? xs ys zs 0 yj 0 hx0 hlt (by omega)
    simpa using this
  have vals : (innerIdx ys.length).mapM (fun yj =>
        zSpline I [xs.length, ys.length, zs.length] (tensorPoints [xs, ys, zs])
          (gridValues f (tensorPoints [xs, ys, zs])) zs.length n3 z xi yj)
      = .ok ((innerIdx ys.length).map fun yj =>
          I (innerNodes zs) ((innerNodes zs).map (f (xs.getD xi 0) (ys.getD yj 0))) n3 z) := by
    apply mapM_ok
    intro yj hyj
    have hlt : yj < ys.length := by have := mem_innerIdx hyj; omega
    exact zSpline_tensor I xs ys zs f n3 z xi yj hxi hlt
  simp only [rows, vals, bind, Except.bind]
  rw [interpCol_ok _ 1 (fun r => r.getD 1 0) (by
    intro r hr
    obtain ⟨yj, _, rfl⟩ := List.mem_map.mp hr
    rfl)]
  simp only [pure, Except.pure, List.map_map]
  congr 2
  · rw [← inner_index_map ys]; rfl
  · rw [← inner_index_map ys, List.map_map]; rfl

/-- **The modelled cubic method is the nested interpolation over the inner nodes**, for every 1-D
operator, every data function, every derivative order and query point, all shapes ≥ 1 (the
constructor enforces ≥ 2). -/
theorem interp_cubic_eq_nested (n1 n2 n3 : ℕ) (x y z : ℝ) (hy : 1 ≤ ys.length) (hz : 1 ≤ zs.length) :
    interpCubic I [xs.length, ys.length, zs.length] (tensorPoints [xs, ys, zs])
        (gridValues f (tensorPoints [xs, ys, zs])) (n1, n2, n3) (x, y, z)
      = .ok (nestedInterp I (innerNodes xs) (innerNodes ys) (innerNodes zs) f n1 n2 n3 x y z) := by
  unfold interpCubic
  have hlen : (gridValues f (tensorPoints [xs, ys, zs])).length = xs.length * ys.length * zs.length := by
    unfold gridValues; rw [List.length_map, length_tensorPoints]; simp; ring
  have rows : interpRows (tensorPoints [xs, ys, zs]) ((innerIdx xs.length).map (· * ys.length * zs.length))
      = .ok ((innerIdx xs.length).map fun xi => [xs.getD xi 0, ys.getD 0 0, zs.getD 0 0]) := by
    apply interpRows_ok
    intro xi hxi
    have hlt : xi < xs.length := by have := mem_innerIdx hxi; omega
    have := tensorPoints3_getElem? xs ys zs xi 0 0 hlt (by omega) (by omega)
    simpa [Nat.mul_assoc] using this
  have vals : (innerIdx xs.length).mapM (fun xi =>
        ySpline I [xs.length, ys.length, zs.length] (tensorPoints [xs, ys, zs])
          (gridValues f (tensorPoints [xs, ys, zs])) ys.length zs.length n2 n3 y z xi)
      = .ok ((innerIdx xs.length).map fun xi => I (innerNodes ys) ((innerNodes ys).map fun yy =>
          I (innerNodes zs) ((innerNodes zs).map (f (xs.getD xi 0) yy)) n3 z) n2 y) := by
    apply mapM_ok
    intro xi hxi
    have hlt : xi < xs.length := by have := mem_innerIdx hxi; omega
    exact ySpline_tensor I xs ys zs f n2 n3 y z xi hlt hz
  simp only [hlen, ne_eq, not_true_eq_false, if_false, rows, vals, bind, Except.bind]
  rw [interpCol_ok _ 0 (fun r => r.getD 0 0) (by
    intro r hr
    obtain ⟨xi, _, rfl⟩ := List.mem_map.mp hr
    rfl)]
  simp only [pure, Except.pure, List.map_map]
  unfold nestedInterp
  congr 2
  · rw [← inner_index_map xs]; rfl
  · rw [← inner_index_map xs, List.map_map]; rfl

/-- **Exactness of the modelled method** (`interpCubic` as coded) on a tensor grid: if the 1-D
operator is exact on cubics on the inner node lists of the three axes, every polynomial of degree ≤ 3
in each variable and all its partial derivatives are reproduced at every query point. -/
theorem interp_cubic_exact (hy : 1 ≤ ys.length) (hz : 1 ≤ zs.length)
    (hx' : ExactOnCubics I (innerNodes xs)) (hy' : ExactOnCubics I (innerNodes ys))
    (hz' : ExactOnCubics I (innerNodes zs))
    (C : Fin 4 → Fin 4 → Fin 4 → ℝ) (n1 n2 n3 : ℕ) (x y z : ℝ) :
    interpCubic I [xs.length, ys.length, zs.length] (tensorPoints [xs, ys, zs])
        (gridValues (tensorEval C 0 0 0) (tensorPoints [xs, ys, zs])) (n1, n2, n3) (x, y, z)
      = .ok (tensorEval C n1 n2 n3 x y z) := by
  rw [interp_cubic_eq_nested I xs ys zs _ n1 n2 n3 x y z hy hz,
    nested_interp_exact I _ _ _ hx' hy' hz']

end

/-- A `UniformGrid` with diagonal axes is the tensor grid of its three arithmetic progressions. -/
theorem uniform_diag_is_tensor (o0 o1 o2 a0 a1 a2 : ℝ) (s0 s1 s2 : Nat) :
    uniformPoints [o0, o1, o2] [[a0, 0, 0], [0, a1, 0], [0, 0, a2]] [s0, s1, s2]
      = tensorPoints [(List.range s0).map fun i => o0 + i * a0, (List.range s1).map fun j => o1 + j * a1,
          (List.range s2).map fun k => o2 + k * a2] := by
  have pt : ∀ a b k : Nat, pointAt [o0, o1, o2] [[a0, 0, 0], [0, a1, 0], [0, 0, a2]] [a, b, k]
      = [o0 + a * a0, o1 + b * a1, o2 + k * a2] := by
    intro a b k
    simp [pointAt]
    refine ⟨?_, ?_, ?_⟩ <;> ring
  simp [uniformPoints, allCoords, tensorPoints, List.map_flatMap, List.flatMap_map,
    flatMap_singleton_eq_map, List.map_map]
  simp only [Function.comp_def, pt]

end GridVerif.C13

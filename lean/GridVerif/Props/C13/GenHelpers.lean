/-
  C13 (3b) — the *generated* code of `UniformGrid.closest_point` and `UniformGrid.from_molecule`
  (`Gen/CubicGrid.lean`) equals the hand model of `Helpers.lean`; the specification theorems restated over
  the generated definitions.
-/
import GridVerif.Props.C13.Helpers
import GridVerif.Props.C13.GenWeights

namespace GridVerif.C13
open GridVerif GridVerif.Cubic GridVerif.Gen.CubicIndex

/-! ### `closest_point` -/

/-- **Generated `closest_point` on diagonal axes, 3-D**, in closed form: quotient by the *signed* `np.diagonal` step, `np.rint` (`"closest"`) / `np.floor` (`"origin"`), `np.clip(·, 0, shape − 1)`, generated stride code. `rint → floor`, dropping the clip or an unsigned step change the generated text and break this proof. -/
theorem gen_closest_eval3 (o0 o1 o2 a0 a1 a2 p0 p1 p2 : ℝ) (s0 s1 s2 : Nat) (junk : Int) :
    Gen.CubicGrid.closestPoint [o0, o1, o2] [[a0, 0, 0], [0, a1, 0], [0, 0, a2]] [s0, s1, s2] junk [p0, p1, p2] "closest"
      = .ok (clipIdx (Rounding.rintI ((p0 - o0) / a0)) s0 * ((s1 : ℤ) * s2)
          + clipIdx (Rounding.rintI ((p1 - o1) / a1)) s1 * s2 + clipIdx (Rounding.rintI ((p2 - o2) / a2)) s2) ∧
    Gen.CubicGrid.closestPoint [o0, o1, o2] [[a0, 0, 0], [0, a1, 0], [0, 0, a2]] [s0, s1, s2] junk [p0, p1, p2] "origin"
      = .ok (clipIdx (Rounding.floorI ((p0 - o0) / a0)) s0 * ((s1 : ℤ) * s2)
          + clipIdx (Rounding.floorI ((p1 - o1) / a1)) s1 * s2 + clipIdx (Rounding.floorI ((p2 - o2) / a2)) s2) := by
  constructor <;>
  · unfold Gen.CubicGrid.closestPoint
    rw [diagonal_diag3]
    simp [npCountNonzero, npDiag, npClip, clipIdx, kGet, Gen.CubicGrid.coordinatesToIndexOf, List.range_succ, bind, Except.bind, pure, Except.pure, c2i3]


/-- the same in two dimensions. -/
theorem gen_closest_eval2 (o0 o1 a0 a1 p0 p1 : ℝ) (s0 s1 : Nat) (junk : Int) :
    Gen.CubicGrid.closestPoint [o0, o1] [[a0, 0], [0, a1]] [s0, s1] junk [p0, p1] "closest"
      = .ok (clipIdx (Rounding.rintI ((p0 - o0) / a0)) s0 * (s1 : ℤ) + clipIdx (Rounding.rintI ((p1 - o1) / a1)) s1) ∧
    Gen.CubicGrid.closestPoint [o0, o1] [[a0, 0], [0, a1]] [s0, s1] junk [p0, p1] "origin"
      = .ok (clipIdx (Rounding.floorI ((p0 - o0) / a0)) s0 * (s1 : ℤ) + clipIdx (Rounding.floorI ((p1 - o1) / a1)) s1) := by
  constructor <;>
  · unfold Gen.CubicGrid.closestPoint
    rw [diagonal_diag2]
    simp [npCountNonzero, npDiag, npClip, clipIdx, kGet, Gen.CubicGrid.coordinatesToIndexOf, List.range_succ, bind, Except.bind, pure, Except.pure, c2i2]

/-! ### `from_molecule` -/

set_option maxRecDepth 4000 in
/-- **Generated `from_molecule(rotate=False)` in closed form, every molecule**: per axis `n_d = ⌈(max_d − min_d + 2·ext)/h⌉` points (`np.ceil`), origin `c_d − n_d·h/2` (`com − np.dot(0.5·shape, axes)`), axes `diag(h,h,h)`. -/
theorem gen_from_molecule_spec (eigh : List (List ℝ) → List ℝ × List (List ℝ)) (w : String)
    (nums : List ℝ) (x0 y0 z0 : ℝ) (rest : List (List ℝ)) (h e : ℝ) :
    let coords := [x0, y0, z0] :: rest
    let c : Nat → ℝ := fun d => (List.zipWith (· * ·) nums (column coords d)).sum / nums.sum
    let mx : Nat → ℝ := fun d => match column coords d with | [] => 0 | a :: t => t.foldl maxK a
    let mn : Nat → ℝ := fun d => match column coords d with | [] => 0 | a :: t => t.foldl minK a
    let n : Nat → ℤ := fun d => ⌈(mx d - mn d + 2 * e) / h⌉
    Gen.CubicGrid.fromMolecule eigh nums coords h e false w
      = .ok ([c 0 - 1 / 2 * n 0 * h, c 1 - 1 / 2 * n 1 * h, c 2 - 1 / 2 * n 2 * h],
             [[h, 0, 0], [0, h, 0], [0, 0, h]], [n 0, n 1, n 2]) := by
  intro coords c mx mn n
  unfold Gen.CubicGrid.fromMolecule
  simp only [coords]
  simp [sumK_eq_sum, column, npVecMat, npAmax0, npAmin0, npDiag, intToK_real, List.range_succ, bind, Except.bind, pure, Except.pure, ceilI_eq,
    c, mx, mn, n]
  simp [coords]


theorem half_if (s : ℤ) : (if s < 0 then -((s.natAbs : ℕ) : ℝ) else ((s.toNat : ℕ) : ℝ)) = (s : ℝ) := intToK_real s

/-- a monadic fold whose steps all succeed succeeds. -/
theorem foldlM_ok {σ α} (l : List α) (f : σ → α → Py σ) (hf : ∀ s, ∀ a ∈ l, ∃ s', f s a = .ok s') (init : σ) :
    ∃ r, l.foldlM f init = .ok r := by
  induction l generalizing init with
  | nil => exact ⟨init, rfl⟩
  | cons a t ih =>
    obtain ⟨s', hs'⟩ := hf init a (List.mem_cons_self)
    obtain ⟨r, hr⟩ := ih (fun s b hb => hf s b (List.mem_cons_of_mem _ hb)) s'
    refine ⟨r, ?_⟩
    rw [List.foldlM_cons, hs']
    exact hr

set_option maxRecDepth 4000 in
/-- **Generated `from_molecule(rotate=True)` = the model with `eigh`'s matrix**: the extent is measured along the *columns* of `v` (`np.dot(atcoords − com, v)`) and the grid axes are the *rows* of `spacing · v`, as in `Cubic.fromMolecule … (some v)`; `M` is the inertia tensor accumulated by the translated loop. A change of either orientation (`v.T`) in the source breaks this proof. -/
theorem gen_from_molecule_rotate (eigh : List (List ℝ) → List ℝ × List (List ℝ)) (w : String)
    (nums : List ℝ) (x0 y0 z0 : ℝ) (rest : List (List ℝ)) (h e : ℝ)
    (hlen : nums.length = rest.length + 1) (h3 : ∀ r ∈ rest, r.length = 3)
    (hv : ∀ M, ∃ v00 v01 v02 v10 v11 v12 v20 v21 v22, (eigh M).2 = [[v00, v01, v02], [v10, v11, v12], [v20, v21, v22]]) :
    ∃ M, Gen.CubicGrid.fromMolecule eigh nums ([x0, y0, z0] :: rest) h e true w
      = fromMolecule nums ([x0, y0, z0] :: rest) h e (some (eigh M).2) := by
  unfold Gen.CubicGrid.fromMolecule
  simp only [if_true, bind, Except.bind]
  generalize hM : List.foldlM (m := Py) _ (List.replicate 3 (List.replicate 3 ((0 : ℕ) : ℝ))) (List.range nums.length) = res
  obtain ⟨M, rfl⟩ : ∃ M, res = .ok M := by
    rw [← hM]
    apply foldlM_ok
    intro s i hi
    have hi1 : i < nums.length := List.mem_range.mp hi
    have hi2 : i < ([x0, y0, z0] :: rest).length := by simp; omega
    simp only [mRow, kGet, List.getElem?_eq_getElem hi1, List.getElem?_eq_getElem hi2, pure, Except.pure]
    exact ⟨_, rfl⟩
  refine ⟨M, ?_⟩
  obtain ⟨v00, v01, v02, v10, v11, v12, v20, v21, v22, hv'⟩ := hv M
  simp only [hv']
  unfold fromMolecule
  simp only [half_if]
  have hno : ¬ ∃ x ∈ rest, ¬ x.length = 3 := by intro ⟨x, hx, hne⟩; exact hne (h3 x hx)
  simp [hlen, hno, sumK_eq_sum, column, npVecMat, npMatMul, npAmax0, npAmin0, intToK_real, List.range_succ, bind, Except.bind, pure, Except.pure, ceilI_eq]


/-! ### restated specifications -/

/-- the generated `closest_point` equals the model on diagonal axes, both modes (3-D). -/
theorem gen_closest_eq_model3 (o0 o1 o2 a0 a1 a2 p0 p1 p2 : ℝ) (s0 s1 s2 : Nat) (junk : Int) :
    Gen.CubicGrid.closestPoint [o0, o1, o2] [[a0, 0, 0], [0, a1, 0], [0, 0, a2]] [s0, s1, s2] junk [p0, p1, p2] "closest"
      = closestPoint [o0, o1, o2] [[a0, 0, 0], [0, a1, 0], [0, 0, a2]] [s0, s1, s2] [p0, p1, p2] (some .closest) ∧
    Gen.CubicGrid.closestPoint [o0, o1, o2] [[a0, 0, 0], [0, a1, 0], [0, 0, a2]] [s0, s1, s2] junk [p0, p1, p2] "origin"
      = closestPoint [o0, o1, o2] [[a0, 0, 0], [0, a1, 0], [0, 0, a2]] [s0, s1, s2] [p0, p1, p2] (some .origin) :=
  ⟨by rw [(gen_closest_eval3 ..).1, (closest_eval3 ..).1], by rw [(gen_closest_eval3 ..).2, (closest_eval3 ..).2]⟩

theorem gen_closest_eq_model2 (o0 o1 a0 a1 p0 p1 : ℝ) (s0 s1 : Nat) (junk : Int) :
    Gen.CubicGrid.closestPoint [o0, o1] [[a0, 0], [0, a1]] [s0, s1] junk [p0, p1] "closest"
      = closestPoint [o0, o1] [[a0, 0], [0, a1]] [s0, s1] [p0, p1] (some .closest) ∧
    Gen.CubicGrid.closestPoint [o0, o1] [[a0, 0], [0, a1]] [s0, s1] junk [p0, p1] "origin"
      = closestPoint [o0, o1] [[a0, 0], [0, a1]] [s0, s1] [p0, p1] (some .origin) :=
  ⟨by rw [(gen_closest_eval2 ..).1, (closest_eval2 ..).1], by rw [(gen_closest_eval2 ..).2, (closest_eval2 ..).2]⟩

/-- **Nearest node (generated code), 3-D, full strength**: every non-zero diagonal axes of either sign,
every shape, every query point inside or outside the box, whatever the uninitialised stride array held. -/
theorem closest_point_spec3_gen (o0 o1 o2 a0 a1 a2 p0 p1 p2 : ℝ) (s0 s1 s2 : Nat) (junk : Int)
    (h0 : a0 ≠ 0) (h1 : a1 ≠ 0) (h2 : a2 ≠ 0) (hs0 : 1 ≤ s0) (hs1 : 1 ≤ s1) (hs2 : 1 ≤ s2) :
    ∃ i j k : Nat, i < s0 ∧ j < s1 ∧ k < s2 ∧
      Gen.CubicGrid.closestPoint [o0, o1, o2] [[a0, 0, 0], [0, a1, 0], [0, 0, a2]] [s0, s1, s2] junk [p0, p1, p2] "closest"
        = .ok ((i * (s1 * s2) + j * s2 + k : Nat) : ℤ) ∧
      indexToCoordinates 3 [(s0 : Int), s1, s2] ((i * (s1 * s2) + j * s2 + k : Nat) : ℤ) = .ok [(i : Int), j, k] ∧
      ∀ i' j' k' : Nat, i' < s0 → j' < s1 → k' < s2 →
        (p0 - (o0 + i * a0)) ^ 2 + (p1 - (o1 + j * a1)) ^ 2 + (p2 - (o2 + k * a2)) ^ 2
          ≤ (p0 - (o0 + i' * a0)) ^ 2 + (p1 - (o1 + j' * a1)) ^ 2 + (p2 - (o2 + k' * a2)) ^ 2 := by
  rw [(gen_closest_eq_model3 ..).1]
  exact closest_point_spec3 o0 o1 o2 a0 a1 a2 p0 p1 p2 s0 s1 s2 h0 h1 h2 hs0 hs1 hs2

/-- **Nearest node (generated code), 2-D, full strength.** -/
theorem closest_point_spec2_gen (o0 o1 a0 a1 p0 p1 : ℝ) (s0 s1 : Nat) (junk : Int)
    (h0 : a0 ≠ 0) (h1 : a1 ≠ 0) (hs0 : 1 ≤ s0) (hs1 : 1 ≤ s1) :
    ∃ i j : Nat, i < s0 ∧ j < s1 ∧
      Gen.CubicGrid.closestPoint [o0, o1] [[a0, 0], [0, a1]] [s0, s1] junk [p0, p1] "closest" = .ok ((i * s1 + j : Nat) : ℤ) ∧
      indexToCoordinates 2 [(s0 : Int), s1] ((i * s1 + j : Nat) : ℤ) = .ok [(i : Int), j] ∧
      ∀ i' j' : Nat, i' < s0 → j' < s1 →
        (p0 - (o0 + i * a0)) ^ 2 + (p1 - (o1 + j * a1)) ^ 2
          ≤ (p0 - (o0 + i' * a0)) ^ 2 + (p1 - (o1 + j' * a1)) ^ 2 := by
  rw [(gen_closest_eq_model2 ..).1]
  exact closest_point_spec2 o0 o1 a0 a1 p0 p1 s0 s1 h0 h1 hs0 hs1

/-- **`which="origin"` (generated code)**: the lower corner of the sub-cube holding the point. -/
theorem closest_point_origin_spec3_gen (o0 o1 o2 a0 a1 a2 p0 p1 p2 : ℝ) (s0 s1 s2 : Nat) (junk : Int) (i j k : Nat)
    (hi : i < s0) (hj : j < s1) (hk : k < s2)
    (h0 : (i : ℝ) ≤ (p0 - o0) / a0 ∧ (p0 - o0) / a0 < i + 1)
    (h1 : (j : ℝ) ≤ (p1 - o1) / a1 ∧ (p1 - o1) / a1 < j + 1)
    (h2 : (k : ℝ) ≤ (p2 - o2) / a2 ∧ (p2 - o2) / a2 < k + 1) :
    Gen.CubicGrid.closestPoint [o0, o1, o2] [[a0, 0, 0], [0, a1, 0], [0, 0, a2]] [s0, s1, s2] junk [p0, p1, p2] "origin"
      = .ok ((i * (s1 * s2) + j * s2 + k : Nat) : ℤ) := by
  rw [(gen_closest_eq_model3 ..).2]
  exact closest_point_origin_spec3 o0 o1 o2 a0 a1 a2 p0 p1 p2 s0 s1 s2 i j k hi hj hk h0 h1 h2

/-- Non-diagonal axes and unknown modes are rejected (`ValueError`) by the generated code. -/
theorem closest_point_rejects_gen :
    Gen.CubicGrid.closestPoint [(0 : ℝ), 0] [[1, 1], [0, 1]] [2, 2] 0 [0, 0] "closest" = .error .valueError ∧
    Gen.CubicGrid.closestPoint [(0 : ℝ), 0] [[1, 0], [0, 1]] [2, 2] 0 [0, 0] "nearest" = .error .valueError := by
  constructor
  · simp [Gen.CubicGrid.closestPoint, npCountNonzero, npDiag, diagonal, List.range_succ]; rfl
  · simp [Gen.CubicGrid.closestPoint, npCountNonzero, npDiag, diagonal, List.range_succ, kGet, bind, Except.bind, pure, Except.pure]; rfl

/-- **`from_molecule(rotate=False)`, generated code = model**, every molecule. -/
theorem gen_from_molecule_norotate (eigh : List (List ℝ) → List ℝ × List (List ℝ)) (w : String)
    (nums : List ℝ) (x0 y0 z0 : ℝ) (rest : List (List ℝ)) (h e : ℝ)
    (hlen : nums.length = rest.length + 1) (h3 : ∀ r ∈ rest, r.length = 3) :
    Gen.CubicGrid.fromMolecule eigh nums ([x0, y0, z0] :: rest) h e false w
      = fromMolecule nums ([x0, y0, z0] :: rest) h e none := by
  have a := gen_from_molecule_spec eigh w nums x0 y0 z0 rest h e
  have b := from_molecule_spec nums x0 y0 z0 rest h e hlen h3
  exact a.trans b.symm

/-- **Margin (generated code)**: if on each axis the centre of charge is the centre of the extent of the
nuclei, the grid built by the generated `from_molecule(rotate=False)` contains every nucleus with margin
≥ `ext` below and ≥ `ext − spacing` above. -/
theorem from_molecule_margin_centred_gen (eigh : List (List ℝ) → List ℝ × List (List ℝ)) (w : String)
    (nums : List ℝ) (x0 y0 z0 : ℝ) (rest : List (List ℝ)) (h e : ℝ)
    (hlen : nums.length = rest.length + 1) (h3 : ∀ r ∈ rest, r.length = 3) (hh : 0 < h)
    (hc : ∀ d, d < 3 →
      (List.zipWith (· * ·) nums (column ([x0, y0, z0] :: rest) d)).sum / nums.sum
        = ((match column ([x0, y0, z0] :: rest) d with | [] => 0 | a :: t => t.foldl maxK a)
           + (match column ([x0, y0, z0] :: rest) d with | [] => 0 | a :: t => t.foldl minK a)) / 2) :
    ∃ origin axes shape, Gen.CubicGrid.fromMolecule eigh nums ([x0, y0, z0] :: rest) h e false w = .ok (origin, axes, shape) ∧
      MarginOK origin shape h e ([x0, y0, z0] :: rest) := by
  rw [gen_from_molecule_norotate eigh w nums x0 y0 z0 rest h e hlen h3]
  exact from_molecule_margin_centred nums x0 y0 z0 rest h e hlen h3 hh hc

/-- The margin witness on the generated code: charges (9,1) at x = 0, 10 give the box x ∈ [−6, 7]. -/
theorem from_molecule_witness_gen (eigh : List (List ℝ) → List ℝ × List (List ℝ)) (w : String) :
    Gen.CubicGrid.fromMolecule eigh [(9 : ℝ), 1] [[0, 0, 0], [10, 0, 0]] 1 2 false w
      = .ok ([-6, -2, -2], [[1, 0, 0], [0, 1, 0], [0, 0, 1]], [14, 4, 4]) := by
  rw [gen_from_molecule_norotate eigh w [9, 1] 0 0 0 [[10, 0, 0]] 1 2 rfl
    (by intro r hr; simp at hr; subst hr; rfl)]
  exact from_molecule_witness

/-- The rotate-frame witness on the generated code (`eigh` returning the matrix with columns e_y, e_z, e_x). -/
theorem from_molecule_rotate_witness_gen (eigh : List (List ℝ) → List ℝ × List (List ℝ)) (w : String)
    (hv : ∀ M, (eigh M).2 = [[0, 0, 1], [1, 0, 0], [0, 1, 0]]) :
    Gen.CubicGrid.fromMolecule eigh [(1 : ℝ), 1, 1, 1] [[0, 5, 0], [0, -5, 0], [0, 0, 2], [0, 0, -2]] 1 1 true w
      = .ok ([-3, -1, -6], [[0, 0, 1], [1, 0, 0], [0, 1, 0]], [12, 6, 2]) := by
  obtain ⟨M, hM⟩ := gen_from_molecule_rotate eigh w [1, 1, 1, 1] 0 5 0 [[0, -5, 0], [0, 0, 2], [0, 0, -2]] 1 1 rfl
    (by intro r hr; simp at hr; rcases hr with rfl | rfl | rfl <;> rfl)
    (fun M => ⟨_, _, _, _, _, _, _, _, _, hv M⟩)
  rw [hM, hv M]
  exact from_molecule_rotate_witness

end GridVerif.C13

/-
  C13 (2b) — the *generated* weight code (`Gen/CubicGrid.lean`: AST translation of
  `UniformGrid._calculate_volume`, `_calculate_alternative_volume`, `_choose_weight_scheme` with the nested
  `_fourier1` / `_fourier2`) equals the hand model `Cubic.weights` for every scheme, every shape, 2-D and 3-D;
  the sum/bound theorems of `Weights.lean` restated over the generated definitions.

  A change of the source's arithmetic (`shape + 1.0` → `shape`, another einsum index string, a changed
  per-axis factor, the volume expression, …) changes `Gen/CubicGrid.lean` and breaks the `gen_*` proof of
  that scheme (or makes the translator raise), not only the differential run.
-/
import GridVerif.Props.C13.Weights
import GridVerif.Gen.CubicGrid
import Mathlib.Tactic.IntervalCases

namespace GridVerif.C13
open GridVerif GridVerif.Cubic
open GridVerif.Gen.CubicGrid (calculateVolume calculateAlternativeVolume chooseWeightScheme)

/-- **Generated `_calculate_volume`, 3-D** = the model's volume (`|((s₀a₀)×(s₁a₁))·(s₂a₂)|`). -/
theorem gen_volume_eq3 (a00 a01 a02 a10 a11 a12 a20 a21 a22 : ℝ) (s0 s1 s2 : Nat) :
    calculateVolume [[a00, a01, a02], [a10, a11, a12], [a20, a21, a22]] [s0, s1, s2]
      = volume [[a00, a01, a02], [a10, a11, a12], [a20, a21, a22]] [s0, s1, s2] := by
  simp [calculateVolume, volume, nGet, mRow, npCross, npDotVV, sumK_eq_sum, bind, Except.bind, pure, Except.pure]
  congr 1; ring

/-- **Generated `_calculate_volume`, 2-D** = the model's volume (`|det [s₀a₀; s₁a₁]|`). -/
theorem gen_volume_eq2 (a00 a01 a10 a11 : ℝ) (s0 s1 : Nat) :
    calculateVolume [[a00, a01], [a10, a11]] [s0, s1] = volume [[a00, a01], [a10, a11]] [s0, s1] := by
  simp [calculateVolume, volume, nGet, mRow, det, bind, Except.bind, pure, Except.pure]

/-- whenever the model's volume exists (2×2 axes with two sizes, 3×3 axes with three sizes) the generated code returns it. -/
theorem gen_volume_of_model (axes : List (List ℝ)) (shape : List Nat) (V : ℝ) (h : volume axes shape = .ok V) :
    calculateVolume axes shape = .ok V := by
  unfold volume at h
  split at h
  · rw [gen_volume_eq3]; exact h
  · rw [gen_volume_eq2]; exact h
  · cases h

/-- the embedding of integer array entries into the reals is the cast. -/
theorem intToK_real (z : ℤ) : (intToK z : ℝ) = (z : ℝ) := by
  unfold intToK
  split
  · rename_i h
    have hz : (z : ℝ) < 0 := by exact_mod_cast h
    rw [Nat.cast_natAbs, Int.cast_abs, abs_of_neg hz]; ring
  · rename_i h
    have : (z.toNat : ℤ) = z := by omega
    exact_mod_cast congrArg (Int.cast : ℤ → ℝ) this

/-- **Generated `_calculate_alternative_volume`** = the model's (`V · Π (sᵢ−1)/sᵢ`, from `np.prod((shape - 1) / shape)`). -/
theorem gen_alt_volume_of_model (axes : List (List ℝ)) (shape : List Nat) (V : ℝ) (h : volume axes shape = .ok V) :
    calculateAlternativeVolume axes shape = altVolume axes shape := by
  simp [calculateAlternativeVolume, altVolume, gen_volume_of_model axes shape V h, h, bind, Except.bind, pure, Except.pure,
    altFactor, intToK_real, List.zipWith_map_left, List.zipWith_map_right, List.zipWith_self]

/-- **Generated `_choose_weight_scheme("Rectangle")` = the model** (`np.full(prod(shape), V / (1.0 * prod(shape)))`). -/
theorem gen_rectangle (axes : List (List ℝ)) (shape : List Nat) (V : ℝ) (h : volume axes shape = .ok V) :
    chooseWeightScheme axes "Rectangle" shape = weights axes shape .rectangle := by
  simp [chooseWeightScheme, weights, gen_volume_of_model axes shape V h, h, bind, Except.bind, pure, Except.pure]

/-- **Generated `_choose_weight_scheme("Trapezoid")` = the model** (`V / np.prod(shape + 1.0)`): replacing `shape + 1.0` by `shape` in the source breaks this proof. -/
theorem gen_trapezoid (axes : List (List ℝ)) (shape : List Nat) (V : ℝ) (h : volume axes shape = .ok V) :
    chooseWeightScheme axes "Trapezoid" shape = weights axes shape .trapezoid := by
  simp [chooseWeightScheme, weights, gen_volume_of_model axes shape V h, h, bind, Except.bind, pure, Except.pure, numPlusOne, Function.comp_def]

/-- **Generated `_choose_weight_scheme("Alternative")` = the model** (`np.ones(N) * V' / N`). -/
theorem gen_alternative (axes : List (List ℝ)) (shape : List Nat) (V : ℝ) (h : volume axes shape = .ok V) :
    chooseWeightScheme axes "Alternative" shape = weights axes shape .alternative := by
  simp [chooseWeightScheme, weights, gen_alt_volume_of_model axes shape V h, altVolume, h, bind, Except.bind, pure, Except.pure]


theorem rpow_two_eq (x : ℝ) : Elem.rpow x ((2 : ℕ) : ℝ) = x * x := by
  show x ^ ((2 : ℕ) : ℝ) = x * x
  rw [Real.rpow_natCast]; ring

/-- **Generated `_fourier2(shape, index)`** = the model's per-axis factor `fourier2Dir shape[index]` (`np.arange`, `np.outer`, `einsum("ij,j->i")`, the `+=` boundary term as written in the source). -/
theorem gen_fourier2_dir (shape : List Nat) (index n : Nat) (h : shape[index]? = some n) :
    Gen.CubicGrid.fourier2 (K := ℝ) shape index = .ok (fourier2Dir n) := by
  unfold Gen.CubicGrid.fourier2 fourier2Dir
  simp only [nGet, h, bind, Except.bind, pure, Except.pure, npArange, npOuter, einsumMatVec, List.map_map,
    List.zipWith_map_left, List.zipWith_map_right, List.zipWith_self, Function.comp_def, Nat.add_sub_cancel]
  simp only [rpow_two_eq]


theorem flatMap_eq_range {β} (f : List ℝ) (h : ℝ → List β) :
    f.flatMap h = (List.range f.length).flatMap fun i => h (f.getD i 0) := by
  induction f with
  | nil => simp
  | cons a t ih =>
    rw [List.length_cons, List.range_succ_eq_map, List.flatMap_cons, List.flatMap_cons, List.flatMap_map, ih]
    simp

/-- a function of the integer coordinates, tabulated in C order, that is a product of per-axis factors is the outer product of the factor lists (3-D). -/
theorem allCoords_map3 (f0 f1 f2 : List ℝ) (c0 : ℝ) :
    (allCoords [f0.length, f1.length, f2.length]).map
        (fun c => c0 * f0.getD (c.getD 0 0) 0 * f1.getD (c.getD 1 0) 0 * f2.getD (c.getD 2 0) 0)
      = outer c0 [f0, f1, f2] := by
  simp only [allCoords, outer]
  rw [flatMap_eq_range f0]
  simp only [List.map_flatMap, List.map_map]
  congr 1; funext i
  rw [flatMap_eq_range f1]
  congr 1; funext j
  rw [flatMap_eq_range f2]
  simp [Function.comp_def]


/-- `einsum("…a…,a->…a…")` on an array given as a function of its integer coordinates. -/
theorem scaleAxis_map (sh : List Nat) (g : List Nat → ℝ) (axis n : Nat) (v : List ℝ) (h : sh[axis]? = some n)
    (hv : n = v.length) :
    Nd.scaleAxis ⟨sh, (allCoords sh).map g⟩ axis v
      = .ok ⟨sh, (allCoords sh).map fun c => g c * v.getD (c.getD axis 0) 0⟩ := by
  simp [Nd.scaleAxis, h, hv, List.zipWith_map_right, List.zipWith_self]
  rfl

theorem ones_eq (sh : List Nat) : (Nd.ones sh : Nd ℝ) = ⟨sh, (allCoords sh).map fun _ => 1⟩ := by
  simp [Nd.ones, List.map_const', length_allCoords, numPoints_eq]

theorem length_fourier2Dir (n : Nat) : (fourier2Dir n : List ℝ).length = n := by simp [fourier2Dir]

/-- **Generated `_choose_weight_scheme("Fourier2")`, 3-D = the model** (`np.ones(shape)`, `einsum("ijk,i,j,k->ijk")`, `* alt_volume`, `ravel`), every shape. -/
theorem gen_fourier2_3d (axes : List (List ℝ)) (s0 s1 s2 : Nat) (V : ℝ) (h : volume axes [s0, s1, s2] = .ok V) :
    chooseWeightScheme axes "Fourier2" [s0, s1, s2] = weights axes [s0, s1, s2] .fourier2 := by
  have e0 := gen_fourier2_dir [s0, s1, s2] 0 s0 rfl
  have e1 := gen_fourier2_dir [s0, s1, s2] 1 s1 rfl
  have e2 := gen_fourier2_dir [s0, s1, s2] 2 s2 rfl
  have a0 := allCoords_map3 (fourier2Dir s0) (fourier2Dir s1) (fourier2Dir s2) 1
  simp only [length_fourier2Dir] at a0
  unfold chooseWeightScheme weights
  simp [gen_alt_volume_of_model axes _ V h, altVolume, h, e0, e1, e2, bind, Except.bind, pure, Except.pure]
  rw [ones_eq, scaleAxis_map _ _ 0 s0 _ rfl (length_fourier2Dir s0).symm]
  dsimp only
  rw [scaleAxis_map _ _ 1 s1 _ rfl (length_fourier2Dir s1).symm]
  dsimp only
  rw [scaleAxis_map _ _ 2 s2 _ rfl (length_fourier2Dir s2).symm]
  simp only [Nd.map, Nd.ravel, a0]


/-- **Generated Fourier2 raises `IndexError` in two dimensions** for every 2×2 axes and every shape (`_fourier2(shape, 2)` is evaluated unconditionally) — the theorem `fourier2_raises_2d` on the source's own text. -/
theorem gen_fourier2_2d (a b c d : ℝ) (s0 s1 : Nat) :
    chooseWeightScheme [[a, b], [c, d]] "Fourier2" [s0, s1] = .error .indexError := by
  have e0 := gen_fourier2_dir [s0, s1] 0 s0 rfl
  have e1 := gen_fourier2_dir [s0, s1] 1 s1 rfl
  unfold chooseWeightScheme
  simp [calculateAlternativeVolume, gen_volume_eq2, volume, e0, e1, bind, Except.bind, pure, Except.pure]
  rfl

theorem length_fourier1Dir (n : Nat) : (fourier1Dir n : List ℝ).length = n := by simp [fourier1Dir]

/-- **Generated `_fourier1(weight, shape, index, dim)`**: multiplies the entry at coordinates `c` by `fourier1Dir shape[index]` at `c[index]` — the model's per-axis factor (`sin(i·j·π/(n+1.0))`, `(1 − cos(jπ))/(jπ)`, the einsum string of that `index`/`dim` branch). -/
theorem gen_fourier1_step (sh : List Nat) (g : List Nat → ℝ) (index n dim : Nat) (h : sh[index]? = some n)
    (hd : (dim = 3 ∧ index < 3) ∨ (dim = 2 ∧ index < 2)) :
    Gen.CubicGrid.fourier1 ⟨sh, (allCoords sh).map g⟩ sh index dim
      = .ok ⟨sh, (allCoords sh).map fun c => g c * (fourier1Dir n).getD (c.getD index 0) 0⟩ := by
  have hw : einsumMatVec
        (List.map (fun r' => List.map (fun x' => Elem.sin x') r')
          (List.map (fun r' => List.map (fun x' => x' / (((n : Nat) : ℝ) + ((1 : Nat) : ℝ))) r')
            (List.map (fun r' => List.map (fun x' => x' * Elem.pi) r')
              (npOuter (List.map (fun (s' : Nat) => (s' : ℝ)) (npArange 1 (n + 1))) (List.map (fun (s' : Nat) => (s' : ℝ)) (npArange 1 (n + 1)))))))
        (List.zipWith (fun x' y' => x' / y')
          (List.map (fun x' => ((1 : Nat) : ℝ) - x')
            (List.map (fun x' => Elem.cos x') (List.map (fun x' => x' * Elem.pi) (List.map (fun (s' : Nat) => (s' : ℝ)) (npArange 1 (n + 1))))))
          (List.map (fun x' => x' * Elem.pi) (List.map (fun (s' : Nat) => (s' : ℝ)) (npArange 1 (n + 1)))))
      = fourier1Dir n := by
    unfold fourier1Dir
    simp only [npArange, npOuter, einsumMatVec, List.map_map, List.zipWith_map_left, List.zipWith_map_right,
      List.zipWith_self, Function.comp_def, Nat.add_sub_cancel]
    simp only [Nat.cast_mul]
  unfold Gen.CubicGrid.fourier1
  simp only [nGet, h, bind, Except.bind, pure, Except.pure, hw]
  have hs := scaleAxis_map sh g index n (fourier1Dir n) h (length_fourier1Dir n).symm
  rcases hd with ⟨rfl, hi⟩ | ⟨rfl, hi⟩
  · interval_cases index <;> simp [hs]
  · interval_cases index <;> simp [hs]


/-- the same in 2-D. -/
theorem allCoords_map2 (f0 f1 : List ℝ) (c0 : ℝ) :
    (allCoords [f0.length, f1.length]).map (fun c => c0 * f0.getD (c.getD 0 0) 0 * f1.getD (c.getD 1 0) 0)
      = outer c0 [f0, f1] := by
  simp only [allCoords, outer]
  rw [flatMap_eq_range f0]
  simp only [List.map_flatMap, List.map_map]
  congr 1; funext i
  rw [flatMap_eq_range f1]
  simp [Function.comp_def]

theorem nd_map_ones (sh : List Nat) (f : ℝ → ℝ) :
    Nd.map f (Nd.ones sh : Nd ℝ) = ⟨sh, (allCoords sh).map fun _ => f 1⟩ := by
  rw [ones_eq]; simp [Nd.map]

/-- **Generated `_choose_weight_scheme("Fourier1")`, 3-D = the model** (`2**dim * V / np.prod(shape + 1.0)` times the outer product of the per-axis factors in C order), every shape. -/
theorem gen_fourier1_3d (axes : List (List ℝ)) (s0 s1 s2 : Nat) (V : ℝ) (h : volume axes [s0, s1, s2] = .ok V) :
    chooseWeightScheme axes "Fourier1" [s0, s1, s2] = weights axes [s0, s1, s2] .fourier1 := by
  unfold chooseWeightScheme weights
  simp only [gen_volume_of_model axes _ V h, h, bind, Except.bind, pure, Except.pure]
  simp only [String.reduceBEq, Bool.false_eq_true, if_false, if_true, List.length_cons, List.length_nil, Nat.reduceAdd, Nat.reduceBEq]
  rw [nd_map_ones]
  rw [gen_fourier1_step _ _ 0 s0 3 rfl (Or.inl ⟨rfl, by omega⟩)]
  dsimp only
  rw [gen_fourier1_step _ _ 1 s1 3 rfl (Or.inl ⟨rfl, by omega⟩)]
  dsimp only
  rw [gen_fourier1_step _ _ 2 s2 3 rfl (Or.inl ⟨rfl, by omega⟩)]
  have a0 := allCoords_map3 (fourier1Dir s0) (fourier1Dir s1) (fourier1Dir s2)
  simp only [length_fourier1Dir] at a0
  simp only [Nd.ravel, a0, List.map_cons, List.map_nil, numPlusOne, Nat.cast_one]


/-- **Generated Fourier1, 2-D = the model**, every shape. -/
theorem gen_fourier1_2d (axes : List (List ℝ)) (s0 s1 : Nat) (V : ℝ) (h : volume axes [s0, s1] = .ok V) :
    chooseWeightScheme axes "Fourier1" [s0, s1] = weights axes [s0, s1] .fourier1 := by
  unfold chooseWeightScheme weights
  simp only [gen_volume_of_model axes _ V h, h, bind, Except.bind, pure, Except.pure]
  simp only [String.reduceBEq, Bool.false_eq_true, if_false, if_true, List.length_cons, List.length_nil, Nat.reduceAdd, Nat.reduceBEq]
  rw [nd_map_ones]
  rw [gen_fourier1_step _ _ 0 s0 2 rfl (Or.inr ⟨rfl, by omega⟩)]
  dsimp only
  rw [gen_fourier1_step _ _ 1 s1 2 rfl (Or.inr ⟨rfl, by omega⟩)]
  have a0 := allCoords_map2 (fourier1Dir s0) (fourier1Dir s1)
  simp only [length_fourier1Dir] at a0
  simp only [Nd.ravel, a0, List.map_cons, List.map_nil, numPlusOne, Nat.cast_one]


/-- **Unknown scheme names are rejected** (`ValueError`), in particular other letter cases of the five
names: the comparison is `==` on the exact strings. -/
theorem gen_unknown_scheme (axes : List (List ℝ)) (shape : List Nat) (w : String)
    (h1 : w ≠ "Rectangle") (h2 : w ≠ "Trapezoid") (h3 : w ≠ "Fourier1") (h4 : w ≠ "Alternative")
    (h5 : w ≠ "Fourier2") : chooseWeightScheme axes w shape = .error .valueError := by
  unfold chooseWeightScheme
  simp [h1, h2, h3, h4, h5]
  rfl

example : chooseWeightScheme ([[1, 0], [0, 1]] : List (List ℝ)) "rectangle" [2, 3] = .error .valueError :=
  gen_unknown_scheme _ _ _ (by decide) (by decide) (by decide) (by decide) (by decide)

/-! ### the theorems of `Weights.lean` over the generated code -/

/-- **Rectangle (generated code)**: the weights sum to the box volume. -/
theorem rectangle_sum_gen (axes : List (List ℝ)) (shape : List Nat) (V : ℝ)
    (hM : volume axes shape = .ok V) (hs : ∀ s ∈ shape, 1 ≤ s) :
    ∃ W, chooseWeightScheme axes "Rectangle" shape = .ok W ∧ W.length = shape.prod ∧ W.sum = V := by
  rw [gen_rectangle axes shape V hM]; exact rectangle_sum axes shape V hM hs

/-- **Trapezoid (generated code)**: the weights sum to `V · Π sᵢ/(sᵢ+1)`. -/
theorem trapezoid_sum_gen (axes : List (List ℝ)) (shape : List Nat) (V : ℝ) (hM : volume axes shape = .ok V) :
    ∃ W, chooseWeightScheme axes "Trapezoid" shape = .ok W ∧ W.length = shape.prod ∧
      W.sum = V * (shape.map fun (s : Nat) => (s : ℝ) / ((s : ℝ) + 1)).prod := by
  rw [gen_trapezoid axes shape V hM]; exact trapezoid_sum axes shape V hM

/-- **Alternative (generated code)**: the weights sum to `V · Π (sᵢ−1)/sᵢ`. -/
theorem alternative_sum_gen (axes : List (List ℝ)) (shape : List Nat) (V : ℝ) (hM : volume axes shape = .ok V)
    (hs : ∀ s ∈ shape, 1 ≤ s) :
    ∃ W, chooseWeightScheme axes "Alternative" shape = .ok W ∧ W.length = shape.prod ∧
      W.sum = V * (shape.map fun (s : Nat) => ((s : ℝ) - 1) / (s : ℝ)).prod := by
  rw [gen_alternative axes shape V hM]; exact alternative_sum axes shape V hM hs

/-- **The bound `|Σw/V − 1| ≤ Σ 1/sᵢ` for the generated Rectangle / Trapezoid / Alternative code**, every
shape in 2-D and 3-D; `V` is what the generated `_calculate_volume` returns (= `|det axes|·Π sᵢ`,
`volume_eq2/3` with `gen_volume_eq2/3`). -/
theorem scheme_bounds_gen (axes : List (List ℝ)) (shape : List Nat) (V : ℝ)
    (hM : volume axes shape = .ok V) (hV0 : V ≠ 0) (hs : ∀ s ∈ shape, 1 ≤ s) :
    calculateVolume axes shape = .ok V ∧
    (∃ W, chooseWeightScheme axes "Rectangle" shape = .ok W ∧ |W.sum / V - 1| ≤ recipSum shape) ∧
    (∃ W, chooseWeightScheme axes "Trapezoid" shape = .ok W ∧ |W.sum / V - 1| ≤ recipSum shape) ∧
    (∃ W, chooseWeightScheme axes "Alternative" shape = .ok W ∧ |W.sum / V - 1| ≤ recipSum shape) := by
  refine ⟨gen_volume_of_model axes shape V hM, ?_, ?_, ?_⟩
  · rw [gen_rectangle axes shape V hM]; exact rectangle_bound axes shape V hM hV0 hs
  · rw [gen_trapezoid axes shape V hM]; exact trapezoid_bound axes shape V hM hV0 hs
  · rw [gen_alternative axes shape V hM]; exact alternative_bound axes shape V hM hV0 hs

/-- Non-vacuity: skewed 3-D axes, shape (2,3,4). -/
example : calculateVolume [[(1 : ℝ), 1, 0], [0, 1, 0], [0, 0, 2]] [2, 3, 4] = .ok 48 := by
  rw [gen_volume_eq3]; simp [volume, Elem.abs, pure, Except.pure]; norm_num

/-- **Generated Fourier2 weights sum to zero on every 3-D grid with an even axis** (the defect of the
source, on the source's own text). -/
theorem fourier2_sum_zero_even_gen (a00 a01 a02 a10 a11 a12 a20 a21 a22 : ℝ) (s0 s1 s2 : Nat)
    (h : (∃ k, 1 ≤ k ∧ s0 = 2 * k) ∨ (∃ k, 1 ≤ k ∧ s1 = 2 * k) ∨ (∃ k, 1 ≤ k ∧ s2 = 2 * k)) :
    ∃ W, chooseWeightScheme [[a00, a01, a02], [a10, a11, a12], [a20, a21, a22]] "Fourier2" [s0, s1, s2] = .ok W ∧
      W.length = s0 * s1 * s2 ∧ W.sum = 0 := by
  obtain ⟨d, _, hv⟩ := volume_eq3 a00 a01 a02 a10 a11 a12 a20 a21 a22 s0 s1 s2
  rw [gen_fourier2_3d _ s0 s1 s2 _ hv]
  exact fourier2_sum_zero_even a00 a01 a02 a10 a11 a12 a20 a21 a22 s0 s1 s2 h

end GridVerif.C13

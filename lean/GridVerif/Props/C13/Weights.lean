/-
  C13 (2/4) — weight schemes of `UniformGrid`: volume, exact sums, the bound
  `|Σw / V − 1| ≤ Σ 1/sᵢ`, and the Fourier2 defect.

  Model: `Cubic.weights` (list program of `_choose_weight_scheme` as coded), at `K = ℝ`.
  The statements quantify over the dimension through `shape : List Nat` and the hypothesis
  `volume axes shape = .ok V` (which holds exactly for 2×2 axes with two sizes and 3×3 axes with
  three sizes, see `volume_eq2/3`).
-/
import GridVerif.Lemmas.Cubic
import Mathlib.Tactic.FieldSimp
import Mathlib.Tactic.Positivity
import Mathlib.Tactic.NormNum
import Mathlib.Analysis.SpecialFunctions.Trigonometric.Basic
import Mathlib.Algebra.BigOperators.Intervals
import Mathlib.Tactic.LinearCombination

namespace GridVerif.C13
open GridVerif GridVerif.Cubic

/-! ### helper lemmas -/

theorem foldl_mul_nat (l : List Nat) (a : Nat) : l.foldl (· * ·) a = a * l.prod := by
  induction l generalizing a with
  | nil => simp
  | cons x t ih => simp [ih, Nat.mul_assoc]

theorem numPoints_eq (shape : List Nat) : numPoints shape = shape.prod := by
  unfold numPoints; rw [foldl_mul_nat]; simp

theorem cast_prod_nat (l : List Nat) : ((l.prod : Nat) : ℝ) = (l.map fun (s : Nat) => (s : ℝ)).prod := by
  induction l with
  | nil => simp
  | cons x t ih => simp [ih]

theorem prod_pos_of_pos (l : List Nat) (h : ∀ s ∈ l, 1 ≤ s) : 0 < l.prod := by
  induction l with
  | nil => simp
  | cons x t ih =>
    simp only [List.prod_cons]
    have := h x (List.mem_cons_self)
    have := ih (fun s hs => h s (List.mem_cons_of_mem _ hs))
    positivity

theorem sum_replicate_real (n : Nat) (a : ℝ) : (List.replicate n a).sum = n * a := by
  induction n with
  | zero => simp
  | succ n ih => simp [List.replicate_succ, ih]; ring

/-- `Π f / Π g = Π (f/g)` over a list. -/
theorem prod_div_prod (l : List Nat) (f g : Nat → ℝ) :
    (l.map f).prod / (l.map g).prod = (l.map fun s => f s / g s).prod := by
  induction l with
  | nil => simp
  | cons x t ih => simp only [List.map_cons, List.prod_cons, ← ih]; rw [div_mul_div_comm]

/-- Weierstrass' product inequality on a list of numbers in `[0,1]`. -/
theorem one_sub_prod_le (l : List ℝ) (h : ∀ t ∈ l, 0 ≤ t ∧ t ≤ 1) :
    0 ≤ l.prod ∧ l.prod ≤ 1 ∧ 1 - l.prod ≤ (l.map fun t => 1 - t).sum := by
  induction l with
  | nil => simp
  | cons t r ih =>
    obtain ⟨h0, h1, h2⟩ := ih (fun t ht => h t (List.mem_cons_of_mem _ ht))
    obtain ⟨t0, t1⟩ := h t (List.mem_cons_self)
    simp only [List.prod_cons, List.map_cons, List.sum_cons]
    refine ⟨mul_nonneg t0 h0, ?_, ?_⟩
    · calc t * r.prod ≤ 1 * 1 := mul_le_mul t1 h1 h0 (by norm_num)
        _ = 1 := by ring
    · nlinarith

theorem sum_map_le_sum_map (l : List Nat) (f g : Nat → ℝ) (h : ∀ s ∈ l, f s ≤ g s) :
    (l.map f).sum ≤ (l.map g).sum := by
  induction l with
  | nil => simp
  | cons x t ih =>
    simp only [List.map_cons, List.sum_cons]
    exact add_le_add (h x (List.mem_cons_self)) (ih (fun s hs => h s (List.mem_cons_of_mem _ hs)))

/-! ### volume -/

/-- **Volume, 3-D**: `_calculate_volume` is `|det axes| · s₀s₁s₂`. -/
theorem volume_eq3 (a00 a01 a02 a10 a11 a12 a20 a21 a22 : ℝ) (s0 s1 s2 : Nat) :
    ∃ d, det [[a00, a01, a02], [a10, a11, a12], [a20, a21, a22]] = .ok d ∧
      volume [[a00, a01, a02], [a10, a11, a12], [a20, a21, a22]] [s0, s1, s2]
        = .ok (|d| * ((s0 : ℝ) * s1 * s2)) := by
  refine ⟨_, rfl, ?_⟩
  simp only [volume, pure, Except.pure, Elem.abs]
  congr 1
  have h : (0 : ℝ) ≤ (s0 : ℝ) * s1 * s2 := by positivity
  rw [← abs_of_nonneg h, ← abs_mul]
  congr 1; ring

/-- **Volume, 2-D**: `|det axes| · s₀s₁`. -/
theorem volume_eq2 (a00 a01 a10 a11 : ℝ) (s0 s1 : Nat) :
    ∃ d, det [[a00, a01], [a10, a11]] = .ok d ∧
      volume [[a00, a01], [a10, a11]] [s0, s1] = .ok (|d| * ((s0 : ℝ) * s1)) := by
  refine ⟨_, rfl, ?_⟩
  simp only [volume, pure, Except.pure, Elem.abs]
  congr 1
  have h : (0 : ℝ) ≤ (s0 : ℝ) * s1 := by positivity
  rw [← abs_of_nonneg h, ← abs_mul]
  congr 1; ring

/-! ### exact sums -/

/-- **Rectangle**: the weights sum to the box volume `V` (both dimensions, every shape). -/
theorem rectangle_sum (axes : List (List ℝ)) (shape : List Nat) (V : ℝ)
    (hV : volume axes shape = .ok V) (hs : ∀ s ∈ shape, 1 ≤ s) :
    ∃ W, weights axes shape .rectangle = .ok W ∧ W.length = shape.prod ∧ W.sum = V := by
  have hN : (0 : ℝ) < ((shape.prod : Nat) : ℝ) := by exact_mod_cast prod_pos_of_pos shape hs
  refine ⟨_, by simp [weights, hV, bind, Except.bind, pure, Except.pure]; rfl, ?_, ?_⟩
  · simp [numPoints_eq]
  · rw [sum_replicate_real, numPoints_eq]
    field_simp

/-- **Trapezoid**: the weights sum to `V · Π sᵢ/(sᵢ+1)`. -/
theorem trapezoid_sum (axes : List (List ℝ)) (shape : List Nat) (V : ℝ)
    (hV : volume axes shape = .ok V) :
    ∃ W, weights axes shape .trapezoid = .ok W ∧ W.length = shape.prod ∧
      W.sum = V * (shape.map fun (s : Nat) => (s : ℝ) / ((s : ℝ) + 1)).prod := by
  refine ⟨_, by simp [weights, hV, bind, Except.bind, pure, Except.pure]; rfl, ?_, ?_⟩
  · simp [numPoints_eq]
  · rw [sum_replicate_real, numPoints_eq, cast_prod_nat, ← prod_div_prod]
    unfold numPlusOne
    rw [prodK_eq_prod]
    simp only [Nat.cast_one]
    ring

/-- **Alternative**: the weights sum to `V · Π (sᵢ−1)/sᵢ`. -/
theorem alternative_sum (axes : List (List ℝ)) (shape : List Nat) (V : ℝ)
    (hV : volume axes shape = .ok V) (hs : ∀ s ∈ shape, 1 ≤ s) :
    ∃ W, weights axes shape .alternative = .ok W ∧ W.length = shape.prod ∧
      W.sum = V * (shape.map fun (s : Nat) => ((s : ℝ) - 1) / (s : ℝ)).prod := by
  have hN : (0 : ℝ) < ((shape.prod : Nat) : ℝ) := by exact_mod_cast prod_pos_of_pos shape hs
  refine ⟨_, by simp [weights, altVolume, hV, bind, Except.bind, pure, Except.pure]; rfl, ?_, ?_⟩
  · simp [numPoints_eq]
  · rw [sum_replicate_real, numPoints_eq]
    unfold altFactor
    rw [prodK_eq_prod]
    simp only [Nat.cast_one]
    field_simp

/-! ### the bound `|Σw/V − 1| ≤ Σ 1/sᵢ` -/

/-- the right-hand side of the bound: the sum of the reciprocal point counts. -/
noncomputable def recipSum (shape : List Nat) : ℝ := (shape.map fun (s : Nat) => 1 / (s : ℝ)).sum

/-- **Rectangle** keeps the bound (with deviation 0), every shape in 2-D and 3-D. -/
theorem rectangle_bound (axes : List (List ℝ)) (shape : List Nat) (V : ℝ)
    (hV : volume axes shape = .ok V) (hV0 : V ≠ 0) (hs : ∀ s ∈ shape, 1 ≤ s) :
    ∃ W, weights axes shape .rectangle = .ok W ∧ |W.sum / V - 1| ≤ recipSum shape := by
  obtain ⟨W, hW, _, hsum⟩ := rectangle_sum axes shape V hV hs
  refine ⟨W, hW, ?_⟩
  rw [hsum, div_self hV0, sub_self, abs_zero]
  unfold recipSum
  apply List.sum_nonneg
  intro x hx
  obtain ⟨s, _, rfl⟩ := List.mem_map.mp hx
  positivity

/-- **Trapezoid** keeps the bound, every shape in 2-D and 3-D. -/
theorem trapezoid_bound (axes : List (List ℝ)) (shape : List Nat) (V : ℝ)
    (hV : volume axes shape = .ok V) (hV0 : V ≠ 0) (hs : ∀ s ∈ shape, 1 ≤ s) :
    ∃ W, weights axes shape .trapezoid = .ok W ∧ |W.sum / V - 1| ≤ recipSum shape := by
  obtain ⟨W, hW, _, hsum⟩ := trapezoid_sum axes shape V hV
  refine ⟨W, hW, ?_⟩
  rw [hsum, mul_comm, mul_div_assoc, div_self hV0, mul_one]
  have key := one_sub_prod_le (shape.map fun (s : Nat) => (s : ℝ) / ((s : ℝ) + 1)) (by
    intro t ht
    obtain ⟨s, _, rfl⟩ := List.mem_map.mp ht
    have : (0 : ℝ) ≤ s := by positivity
    exact ⟨by positivity, by rw [div_le_one (by positivity)]; linarith⟩)
  obtain ⟨_, h1, h2⟩ := key
  rw [abs_sub_comm, abs_of_nonneg (by linarith)]
  refine le_trans h2 ?_
  rw [List.map_map]
  unfold recipSum
  apply sum_map_le_sum_map
  intro s hs'
  have h1s : (1 : ℝ) ≤ s := by exact_mod_cast hs s hs'
  simp only [Function.comp]
  rw [show (1 : ℝ) - (s : ℝ) / ((s : ℝ) + 1) = 1 / ((s : ℝ) + 1) by field_simp; ring]
  apply one_div_le_one_div_of_le (by linarith) (by linarith)

/-- **Alternative** keeps the bound, every shape in 2-D and 3-D. -/
theorem alternative_bound (axes : List (List ℝ)) (shape : List Nat) (V : ℝ)
    (hV : volume axes shape = .ok V) (hV0 : V ≠ 0) (hs : ∀ s ∈ shape, 1 ≤ s) :
    ∃ W, weights axes shape .alternative = .ok W ∧ |W.sum / V - 1| ≤ recipSum shape := by
  obtain ⟨W, hW, _, hsum⟩ := alternative_sum axes shape V hV hs
  refine ⟨W, hW, ?_⟩
  rw [hsum, mul_comm, mul_div_assoc, div_self hV0, mul_one]
  have key := one_sub_prod_le (shape.map fun (s : Nat) => ((s : ℝ) - 1) / (s : ℝ)) (by
    intro t ht
    obtain ⟨s, hs', rfl⟩ := List.mem_map.mp ht
    have h1s : (1 : ℝ) ≤ s := by exact_mod_cast hs s hs'
    exact ⟨div_nonneg (by linarith) (by linarith), by rw [div_le_one (by linarith)]; linarith⟩)
  obtain ⟨_, h1, h2⟩ := key
  rw [abs_sub_comm, abs_of_nonneg (by linarith)]
  refine le_trans h2 (le_of_eq ?_)
  rw [List.map_map]
  unfold recipSum
  apply congrArg
  apply List.map_congr_left
  intro s hs'
  have h1s : (1 : ℝ) ≤ s := by exact_mod_cast hs s hs'
  simp only [Function.comp]
  field_simp
  ring

/-- Non-vacuity: skewed 3-D axes, shape (2,3,4): the volume exists and is positive. -/
example : volume [[(1 : ℝ), 1, 0], [0, 1, 0], [0, 0, 2]] [2, 3, 4] = .ok 48 := by
  simp [volume, Elem.abs, pure, Except.pure]; norm_num

/-! ### Fourier2 (defect of the code as it is) and the full statement -/

theorem sum_flatMap_real {α} (l : List α) (g : α → List ℝ) :
    (l.flatMap g).sum = (l.map fun x => (g x).sum).sum := by
  induction l with
  | nil => simp
  | cons a t ih => simp [List.flatMap_cons, ih]

theorem sum_map_mul_mul (l : List ℝ) (c P : ℝ) : (l.map fun x => c * x * P).sum = c * l.sum * P := by
  induction l with
  | nil => simp
  | cons a t ih => simp only [List.map_cons, List.sum_cons, ih]; ring

/-- the sum of an outer product is the product of the sums. -/
theorem sum_outer (c : ℝ) (fs : List (List ℝ)) : (outer c fs).sum = c * (fs.map List.sum).prod := by
  induction fs generalizing c with
  | nil => simp [outer]
  | cons f rest ih =>
    rw [outer, sum_flatMap_real]
    simp only [ih, List.map_cons, List.prod_cons]
    rw [sum_map_mul_mul]; ring

theorem length_outer {K : Type} [Mul K] (c : K) (fs : List (List K)) :
    (outer c fs).length = (fs.map List.length).prod := by
  induction fs generalizing c with
  | nil => simp [outer]
  | cons f rest ih =>
    rw [outer, length_flatMap_uniform _ (rest.map List.length).prod _ (by intro x _; exact ih _)]
    simp

theorem sum_map_mul_const (l : List ℝ) (a : ℝ) : (l.map (· * a)).sum = l.sum * a := by
  induction l with
  | nil => simp
  | cons x t ih => simp only [List.map_cons, List.sum_cons, ih]; ring

/-- **Fourier2 raises in two dimensions** (`_fourier2(shape, 2)` is evaluated unconditionally):
for every 2×2 axes and every shape the scheme answers `IndexError`. -/
theorem fourier2_raises_2d (a b c d : ℝ) (s0 s1 : Nat) :
    weights [[a, b], [c, d]] [s0, s1] .fourier2 = .error .indexError := by
  simp [weights, altVolume, volume, bind, Except.bind, pure, Except.pure]
  rfl

/-- The 1-D Fourier2 factor for `n = 2` is `[2/π, −2/π]`: it sums to zero. -/
theorem fourier2_dir_sum_two : (fourier2Dir 2 : List ℝ).sum = 0 := by
  have h3 : Real.sin (3 / 2 * Real.pi) = -1 := by
    rw [show (3 : ℝ) / 2 * Real.pi = Real.pi / 2 + Real.pi by ring, Real.sin_add_pi, Real.sin_pi_div_two]
  have h1 : Real.sin (1 / 2 * Real.pi) = 1 := by
    rw [show (1 : ℝ) / 2 * Real.pi = Real.pi / 2 by ring, Real.sin_pi_div_two]
  have hp : Real.sin (Real.pi * 2 / 2) = 0 := by
    rw [show Real.pi * 2 / 2 = Real.pi by ring, Real.sin_pi]
  have hq : Real.sin (Real.pi / 2) = 1 := Real.sin_pi_div_two
  simp only [fourier2Dir, List.range_succ, List.range_zero, List.nil_append, List.map_cons, List.map_nil,
    List.cons_append, sumK_eq_sum, List.sum_cons, List.sum_nil, Elem.sin, Elem.pi, Nat.cast_one,
    Nat.cast_ofNat, Nat.cast_zero, Nat.cast_add, Nat.reduceSub, zero_add, add_zero]
  norm_num [hp, hq]
  rw [h1, h3]
  ring

/-- **Fourier2 weights sum to zero** for every 3-D grid whose first axis has two points, whatever the
(independent) axes and the other two sizes: `Σ w = V' · (Σ w_x)(Σ w_y)(Σ w_z)` and `Σ w_x = 0`. -/
theorem fourier2_sum_zero_at (a00 a01 a02 a10 a11 a12 a20 a21 a22 : ℝ) (s1 s2 : Nat) :
    ∃ W, weights [[a00, a01, a02], [a10, a11, a12], [a20, a21, a22]] [2, s1, s2] .fourier2 = .ok W ∧
      W.length = 2 * s1 * s2 ∧ W.sum = 0 := by
  refine ⟨_, by simp [weights, altVolume, volume, bind, Except.bind, pure, Except.pure]; rfl, ?_, ?_⟩
  · rw [List.length_map, length_outer]
    simp [fourier2Dir]
    ring
  · rw [sum_map_mul_const, sum_outer]
    simp only [List.map_cons, List.prod_cons, fourier2_dir_sum_two]
    ring


theorem list_range_sum_eq (n : ℕ) (f : ℕ → ℝ) : ((List.range n).map f).sum = ∑ i ∈ Finset.range n, f i := by
  induction n with
  | zero => simp
  | succ n ih => rw [List.range_succ, List.map_append, List.sum_append, ih, Finset.sum_range_succ]; simp

/-- `sin θ · Σ_{i<n} sin((2i+1)θ) = sin²(nθ)` (telescoping). -/
theorem sin_odd_sum (n : ℕ) (θ : ℝ) :
    Real.sin θ * ∑ i ∈ Finset.range n, Real.sin ((2 * (i : ℝ) + 1) * θ) = Real.sin (n * θ) ^ 2 := by
  induction n with
  | zero => simp
  | succ n ih =>
    rw [Finset.sum_range_succ, mul_add, ih]
    have e1 : (2 * (n : ℝ) + 1) * θ = n * θ + (n * θ + θ) := by ring
    have e2 : ((n + 1 : ℕ) : ℝ) * θ = n * θ + θ := by push_cast; ring
    rw [e1, e2, Real.sin_add (n * θ) (n * θ + θ), Real.sin_add (n * θ) θ, Real.cos_add (n * θ) θ]
    have h1 := Real.sin_sq_add_cos_sq (n * θ)
    have h2 := Real.sin_sq_add_cos_sq θ
    linear_combination (-(Real.sin (n * θ) ^ 2)) * h2

/-- **The 1-D Fourier2 factor sums to zero for every even number of points** (the sine sums over the
nodes vanish identically; the boundary term carries `sin²(nπ/2) = 0`). -/
theorem fourier2_dir_sum_even (k : ℕ) (hk : 1 ≤ k) : (fourier2Dir (2 * k) : List ℝ).sum = 0 := by
  have hn : (0 : ℝ) < ((2 * k : ℕ) : ℝ) := by positivity
  have hpi := Real.pi_pos
  unfold fourier2Dir
  simp only [sumK_eq_sum, Elem.sin, Elem.pi, Nat.cast_ofNat, Nat.cast_one]
  have hsn : Real.sin (Real.pi * ((2 * k : ℕ) : ℝ) / 2) = 0 := by
    rw [show Real.pi * ((2 * k : ℕ) : ℝ) / 2 = (k : ℝ) * Real.pi by push_cast; ring]
    exact Real.sin_nat_mul_pi k
  simp only [hsn, mul_zero, zero_mul, zero_div, add_zero]
  rw [list_range_sum_eq]
  simp only [list_range_sum_eq]
  -- pull the constants out and exchange the two sums
  have : ∀ i ∈ Finset.range (2 * k),
      4 * (∑ p ∈ Finset.range (2 * k - 1),
          Real.sin ((2 * ((i + 1 : ℕ) : ℝ) - 1) / ((2 * k : ℕ) : ℝ) * ((p + 1 : ℕ) : ℝ) * Real.pi) *
            (Real.sin (((p + 1 : ℕ) : ℝ) * Real.pi / 2) * Real.sin (((p + 1 : ℕ) : ℝ) * Real.pi / 2) / ((p + 1 : ℕ) : ℝ)))
          / (Real.pi * ((2 * k : ℕ) : ℝ))
      = ∑ p ∈ Finset.range (2 * k - 1),
          (4 * (Real.sin (((p + 1 : ℕ) : ℝ) * Real.pi / 2) * Real.sin (((p + 1 : ℕ) : ℝ) * Real.pi / 2) / ((p + 1 : ℕ) : ℝ))
            / (Real.pi * ((2 * k : ℕ) : ℝ)))
          * Real.sin ((2 * (i : ℝ) + 1) * (((p + 1 : ℕ) : ℝ) * Real.pi / ((2 * k : ℕ) : ℝ))) := by
    intro i _
    rw [Finset.mul_sum, Finset.sum_div]
    apply Finset.sum_congr rfl
    intro p _
    have : (2 * ((i + 1 : ℕ) : ℝ) - 1) / ((2 * k : ℕ) : ℝ) * ((p + 1 : ℕ) : ℝ) * Real.pi
        = (2 * (i : ℝ) + 1) * (((p + 1 : ℕ) : ℝ) * Real.pi / ((2 * k : ℕ) : ℝ)) := by
      push_cast; field_simp; ring
    rw [this]; ring
  rw [Finset.sum_congr rfl this, Finset.sum_comm]
  apply Finset.sum_eq_zero
  intro p hp
  rw [← Finset.mul_sum]
  have hp' : p + 1 < 2 * k := by have := Finset.mem_range.mp hp; omega
  set θ := ((p + 1 : ℕ) : ℝ) * Real.pi / ((2 * k : ℕ) : ℝ) with hθ
  have hθpos : 0 < θ := by positivity
  have hθlt : θ < Real.pi := by
    rw [hθ, div_lt_iff₀ hn]
    have : ((p + 1 : ℕ) : ℝ) < ((2 * k : ℕ) : ℝ) := by exact_mod_cast hp'
    nlinarith
  have hs : Real.sin θ ≠ 0 := (Real.sin_pos_of_pos_of_lt_pi hθpos hθlt).ne'
  have key := sin_odd_sum (2 * k) θ
  have hz : Real.sin (((2 * k : ℕ) : ℝ) * θ) = 0 := by
    rw [hθ, show ((2 * k : ℕ) : ℝ) * (((p + 1 : ℕ) : ℝ) * Real.pi / ((2 * k : ℕ) : ℝ)) = ((p + 1 : ℕ) : ℝ) * Real.pi by
      field_simp]
    exact Real.sin_nat_mul_pi (p + 1)
  rw [hz] at key
  have : ∑ i ∈ Finset.range (2 * k), Real.sin ((2 * (i : ℝ) + 1) * θ) = 0 := by
    have key' : Real.sin θ * ∑ i ∈ Finset.range (2 * k), Real.sin ((2 * (i : ℝ) + 1) * θ) = 0 := by
      rw [key]; norm_num
    rcases mul_eq_zero.mp key' with h | h
    · exact absurd h hs
    · exact h
  rw [this, mul_zero]


/-- **Fourier2 weights sum to zero on every 3-D grid with an even number of points on some axis**,
whatever the axes: `Σ w = V' · (Σ w_x)(Σ w_y)(Σ w_z)` and the factor of an even axis is zero. -/
theorem fourier2_sum_zero_even (a00 a01 a02 a10 a11 a12 a20 a21 a22 : ℝ) (s0 s1 s2 : Nat)
    (h : (∃ k, 1 ≤ k ∧ s0 = 2 * k) ∨ (∃ k, 1 ≤ k ∧ s1 = 2 * k) ∨ (∃ k, 1 ≤ k ∧ s2 = 2 * k)) :
    ∃ W, weights [[a00, a01, a02], [a10, a11, a12], [a20, a21, a22]] [s0, s1, s2] .fourier2 = .ok W ∧
      W.length = s0 * s1 * s2 ∧ W.sum = 0 := by
  refine ⟨_, by simp [weights, altVolume, volume, bind, Except.bind, pure, Except.pure]; rfl, ?_, ?_⟩
  · rw [List.length_map, length_outer]
    simp [fourier2Dir]
    ring
  · rw [sum_map_mul_const, sum_outer]
    simp only [List.map_cons, List.map_nil, List.prod_cons, List.prod_nil]
    rcases h with ⟨k, hk, rfl⟩ | ⟨k, hk, rfl⟩ | ⟨k, hk, rfl⟩ <;> rw [fourier2_dir_sum_even k hk] <;> ring

/-- **The bound fails for Fourier2** at unit axes and shape (2,8,8): `V = 128`, `Σw = 0`,
`|Σw/V − 1| = 1 > 1/2 + 1/8 + 1/8`. -/
theorem fourier2_bound_fails_at :
    ∃ W V, weights [[(1 : ℝ), 0, 0], [0, 1, 0], [0, 0, 1]] [2, 8, 8] .fourier2 = .ok W ∧
      volume [[(1 : ℝ), 0, 0], [0, 1, 0], [0, 0, 1]] [2, 8, 8] = .ok V ∧ V = 128 ∧
      ¬ (|W.sum / V - 1| ≤ recipSum [2, 8, 8]) := by
  obtain ⟨W, hW, _, hsum⟩ := fourier2_sum_zero_at 1 0 0 0 1 0 0 0 1 8 8
  refine ⟨W, 128, hW, ?_, rfl, ?_⟩
  · simp [volume, Elem.abs, pure, Except.pure]; norm_num
  · rw [hsum]
    unfold recipSum
    norm_num

/-- The clause at full strength: *every* documented scheme constructs in both dimensions and keeps
the bound. -/
def weight_schemes_full : Prop :=
  ∀ (sch : Scheme) (axes : List (List ℝ)) (shape : List Nat) (V : ℝ),
    volume axes shape = .ok V → V ≠ 0 → (∀ s ∈ shape, 2 ≤ s) →
    ∃ W, weights axes shape sch = .ok W ∧ |W.sum / V - 1| ≤ recipSum shape

/-- The full statement is false for the code as it is (Fourier2). What is proved instead:
`rectangle_bound`, `trapezoid_bound`, `alternative_bound` (all shapes, both dimensions); Fourier1 is
explored numerically (all shapes ≤ 40 per axis). -/
theorem weight_schemes_full_false : ¬ weight_schemes_full := by
  intro h
  obtain ⟨W, hW, _⟩ := h .fourier2 [[1, 0], [0, 1]] [2, 2] 4
    (by simp [volume, Elem.abs, pure, Except.pure]; norm_num) (by norm_num) (by simp)
  rw [fourier2_raises_2d] at hW
  cases hW

end GridVerif.C13

/-
  C13 (4d) — the *generated* `_HyperRectangleGrid.interpolate` (`Gen/CubicInterp.lean`, translated statement by
  statement from the source: guards, `np.log`, the three closures `z_spline` / `y_splines` / `x_spline` with
  their node ranges `arange(1, s − 2)` and slices, SciPy's vectorised calls and `np.diag`) equals the hand
  model `Cubic.interpCubic` the exactness theorems of `InterpModel.lean` are about — for every well-formed
  point array (not only tensor grids), all data, every list of query points, every derivative order.
-/
import GridVerif.Props.C13.GenInterpLemmas

set_option linter.unusedSimpArgs false

namespace GridVerif.C13
open GridVerif GridVerif.Cubic GridVerif.Gen.CubicIndex

/-- what the constructor guarantees about the stored `(N, 3)` point array of a grid of shape `(s₀, s₁, s₂)`. -/
structure GridWF (s0 s1 s2 : Nat) (P : List (List ℝ)) : Prop where
  len : P.length = s0 * s1 * s2
  rows : ∀ r ∈ P, r.length = 3

/-- the z-spline of the grid line `(xi, yj, ·)` at `z`: nodes and data are the slice `[idx(xi,yj,1) : idx(xi,yj,s₂−2)]`. -/
def zClosed (I : Interp1 ℝ) (s1 s2 : Nat) (P : List (List ℝ)) (vals : List ℝ) (nuz xi yj : Nat) (z : ℝ) : ℝ :=
  I ((slice P (xi * (s1 * s2) + yj * s2 + 1) (xi * (s1 * s2) + yj * s2 + (s2 - 2))).map fun r => r.getD 2 0)
    (slice vals (xi * (s1 * s2) + yj * s2 + 1) (xi * (s1 * s2) + yj * s2 + (s2 - 2))) nuz z

/-- the y-spline over the rows `arange(1, s₁−2)·s₂` of the z-splines. -/
def yClosed (I : Interp1 ℝ) (s1 s2 : Nat) (P : List (List ℝ)) (vals : List ℝ) (nuy nuz xi : Nat) (y z : ℝ) : ℝ :=
  I ((innerIdx s1).map fun yj => (P.getD (yj * s2) []).getD 1 0)
    ((innerIdx s1).map fun yj => zClosed I s1 s2 P vals nuz xi yj z) nuy y

/-- the x-spline over the rows `arange(1, s₀−2)·s₁·s₂` of the y-splines: the value of the cubic method. -/
def cubicClosed (I : Interp1 ℝ) (s0 s1 s2 : Nat) (P : List (List ℝ)) (vals : List ℝ) (nu : Nat × Nat × Nat)
    (q : ℝ × ℝ × ℝ) : ℝ :=
  I ((innerIdx s0).map fun xi => (P.getD (xi * s1 * s2) []).getD 0 0)
    ((innerIdx s0).map fun xi => yClosed I s1 s2 P vals nu.2.1 nu.2.2 xi q.2.1 q.2.2) nu.1 q.1

theorem mem_slice {α} {l : List α} {a b : Nat} {r : α} (h : r ∈ slice l a b) : r ∈ l :=
  List.mem_of_mem_drop (List.mem_of_mem_take h)

theorem getElem?_of_len3 (r : List ℝ) (h : r.length = 3) (d : Nat) (hd : d < 3) : r[d]? = some (r.getD d 0) := by
  have : d < r.length := by omega
  simp [List.getD_eq_getElem?_getD, List.getElem?_eq_getElem this]

theorem getElem?_getD_of_lt (P : List (List ℝ)) (n : Nat) (h : n < P.length) : P[n]? = some (P.getD n []) := by
  simp [List.getD_eq_getElem?_getD, List.getElem?_eq_getElem h]

theorem getD_mem (P : List (List ℝ)) (n : Nat) (h : n < P.length) : P.getD n [] ∈ P := by
  have : P.getD n [] = P[n] := by simp [List.getD_eq_getElem?_getD, List.getElem?_eq_getElem h]
  rw [this]; exact List.getElem_mem h

section
variable (I : Interp1 ℝ) (s0 s1 s2 : Nat) (P : List (List ℝ)) (vals : List ℝ)

/-! ### the hand model in closed form -/

theorem zSpline_closed (wf : GridWF s0 s1 s2 P) (nuz : Nat) (z : ℝ) (xi yj : Nat) :
    zSpline I [s0, s1, s2] P vals s2 nuz z xi yj = .ok (zClosed I s1 s2 P vals nuz xi yj z) := by
  unfold zSpline
  rw [flatIndex3, flatIndex3]
  simp only [bind, Except.bind]
  rw [interpCol_ok _ 2 (fun r => r.getD 2 0) (fun r hr => getElem?_of_len3 r (wf.rows r (mem_slice hr)) 2 (by omega))]
  rfl

theorem row_lt_y (wf : GridWF s0 s1 s2 P) (h0 : 1 ≤ s0) (h2 : 1 ≤ s2) {yj : Nat} (h : yj ∈ innerIdx s1) :
    yj * s2 < P.length := by
  have hlt : yj + 1 ≤ s1 := by have := mem_innerIdx h; omega
  rw [wf.len]
  have h1 : (yj + 1) * s2 ≤ s1 * s2 := Nat.mul_le_mul_right _ hlt
  have h3 : s1 * s2 ≤ s0 * (s1 * s2) := Nat.le_mul_of_pos_left _ (by omega)
  rw [Nat.mul_assoc]
  have : (yj + 1) * s2 = yj * s2 + s2 := by ring
  omega

theorem row_lt_x (wf : GridWF s0 s1 s2 P) (h1 : 1 ≤ s1) (h2 : 1 ≤ s2) {xi : Nat} (h : xi ∈ innerIdx s0) :
    xi * s1 * s2 < P.length := by
  have hlt : xi + 1 ≤ s0 := by have := mem_innerIdx h; omega
  rw [wf.len]
  have hp : 1 ≤ s1 * s2 := Nat.mul_pos h1 h2
  have h3 : (xi + 1) * (s1 * s2) ≤ s0 * (s1 * s2) := Nat.mul_le_mul_right _ hlt
  rw [Nat.mul_assoc, Nat.mul_assoc]
  have : (xi + 1) * (s1 * s2) = xi * (s1 * s2) + s1 * s2 := by ring
  omega

theorem ySpline_closed (wf : GridWF s0 s1 s2 P) (h0 : 1 ≤ s0) (h2 : 1 ≤ s2) (nuy nuz : Nat) (y z : ℝ) (xi : Nat) :
    ySpline I [s0, s1, s2] P vals s1 s2 nuy nuz y z xi = .ok (yClosed I s1 s2 P vals nuy nuz xi y z) := by
  unfold ySpline
  have rows : interpRows P ((innerIdx s1).map (· * s2)) = .ok ((innerIdx s1).map fun yj => P.getD (yj * s2) []) :=
    interpRows_ok P _ _ _ (fun yj hyj => getElem?_getD_of_lt P _ (row_lt_y s0 s1 s2 P wf h0 h2 hyj))
  have zs : (innerIdx s1).mapM (fun yj => zSpline I [s0, s1, s2] P vals s2 nuz z xi yj)
      = .ok ((innerIdx s1).map fun yj => zClosed I s1 s2 P vals nuz xi yj z) :=
    mapM_ok _ _ _ (fun yj _ => zSpline_closed I s0 s1 s2 P vals wf nuz z xi yj)
  simp only [rows, zs, bind, Except.bind]
  rw [interpCol_ok _ 1 (fun r => r.getD 1 0) (by
    intro r hr
    obtain ⟨yj, hyj, rfl⟩ := List.mem_map.mp hr
    exact getElem?_of_len3 _ (wf.rows _ (getD_mem P _ (row_lt_y s0 s1 s2 P wf h0 h2 hyj))) 1 (by omega))]
  simp only [pure, Except.pure, List.map_map]
  rfl

/-- **The hand model of the cubic method in closed form**, for every well-formed point array. -/
theorem interpCubic_closed (wf : GridWF s0 s1 s2 P) (hv : vals.length = s0 * s1 * s2) (h0 : 1 ≤ s0) (h1 : 1 ≤ s1)
    (h2 : 1 ≤ s2) (nu : Nat × Nat × Nat) (q : ℝ × ℝ × ℝ) :
    interpCubic I [s0, s1, s2] P vals nu q = .ok (cubicClosed I s0 s1 s2 P vals nu q) := by
  unfold interpCubic
  have rows : interpRows P ((innerIdx s0).map (· * s1 * s2)) = .ok ((innerIdx s0).map fun xi => P.getD (xi * s1 * s2) []) :=
    interpRows_ok P _ _ _ (fun xi hxi => getElem?_getD_of_lt P _ (row_lt_x s0 s1 s2 P wf h1 h2 hxi))
  have ys : (innerIdx s0).mapM (fun xi => ySpline I [s0, s1, s2] P vals s1 s2 nu.2.1 nu.2.2 q.2.1 q.2.2 xi)
      = .ok ((innerIdx s0).map fun xi => yClosed I s1 s2 P vals nu.2.1 nu.2.2 xi q.2.1 q.2.2) :=
    mapM_ok _ _ _ (fun xi _ => ySpline_closed I s0 s1 s2 P vals wf h0 h2 _ _ _ _ xi)
  simp only [hv, ne_eq, not_true_eq_false, if_false, rows, ys, bind, Except.bind]
  rw [interpCol_ok _ 0 (fun r => r.getD 0 0) (by
    intro r hr
    obtain ⟨xi, hxi, rfl⟩ := List.mem_map.mp hr
    exact getElem?_of_len3 _ (wf.rows _ (getD_mem P _ (row_lt_x s0 s1 s2 P wf h1 h2 hxi))) 0 (by omega))]
  simp only [pure, Except.pure, List.map_map]
  rfl

end

/-! ### the generated closures -/

/-- a query point as a row of the `(M, 3)` argument `points`. -/
def qrow (q : ℝ × ℝ × ℝ) : List ℝ := [q.1, q.2.1, q.2.2]

section
variable (I : Interp1 ℝ) (s0 s1 s2 : Nat) (P : List (List ℝ)) (vals : List ℝ)

theorem gen_zSpline (wf : GridWF s0 s1 s2 P) (h2 : 2 ≤ s2) (junk : Int) (zq : List ℝ) (xi yj nuz : Nat) :
    Gen.CubicInterp.zSpline I [s0, s1, s2] junk P vals zq (xi : Int) (yj : Int) nuz
      = .ok (zq.map (zClosed I s1 s2 P vals nuz xi yj)) := by
  unfold Gen.CubicInterp.zSpline
  rw [c2iOf3, (nGet3 s0 s1 s2).2.2]
  simp only [bind, Except.bind]
  rw [c2iOf3]
  have e1 : ((xi : Int) * ((s1 : Int) * s2) + (yj : Int) * s2 + 1) = ((xi * (s1 * s2) + yj * s2 + 1 : Nat) : Int) := by
    push_cast; ring
  have e2 : ((xi : Int) * ((s1 : Int) * s2) + (yj : Int) * s2 + (((s2 : Nat) : Int) - 2))
      = ((xi * (s1 * s2) + yj * s2 + (s2 - 2) : Nat) : Int) := by
    push_cast [Nat.cast_sub h2]; ring
  rw [e1, e2]
  simp only [bind, Except.bind]
  unfold npSliceCol
  rw [pySlice_natCast, pySlice_natCast]
  rw [interpCol_ok _ 2 (fun r => r.getD 2 0) (fun r hr => getElem?_of_len3 r (wf.rows r (mem_slice hr)) 2 (by omega))]
  rfl

theorem gen_ySplines (wf : GridWF s0 s1 s2 P) (h0 : 1 ≤ s0) (h1 : 4 ≤ s1) (h2 : 2 ≤ s2) (junk : Int)
    (Qs : List (ℝ × ℝ × ℝ)) (xi nuy nuz : Nat) :
    Gen.CubicInterp.ySplines I [s0, s1, s2] junk P nuz vals (Qs.map fun q => q.2.1) (xi : Int) (Qs.map fun q => q.2.2) nuy
      = .ok (Qs.map fun q => yClosed I s1 s2 P vals nuy nuz xi q.2.1 q.2.2) := by
  unfold Gen.CubicInterp.ySplines
  rw [(nGet3 s0 s1 s2).2.1, (nGet3 s0 s1 s2).2.2]
  simp only [bind, Except.bind]
  rw [npArangeZ_inner, pyRange_inner, cast_map_mul, npTakeCol_natCast]
  have rows : interpRows P ((innerIdx s1).map (· * s2)) = .ok ((innerIdx s1).map fun yj => P.getD (yj * s2) []) :=
    interpRows_ok P _ _ _ (fun yj hyj => getElem?_getD_of_lt P _ (row_lt_y s0 s1 s2 P wf h0 (by omega) hyj))
  simp only [rows, bind, Except.bind]
  rw [interpCol_ok _ 1 (fun r => r.getD 1 0) (by
    intro r hr
    obtain ⟨yj, hyj, rfl⟩ := List.mem_map.mp hr
    exact getElem?_of_len3 _ (wf.rows _ (getD_mem P _ (row_lt_y s0 s1 s2 P wf h0 (by omega) hyj))) 1 (by omega))]
  simp only [bind, Except.bind]
  rw [mapM_map_ok (innerIdx s1) (fun (n : Nat) => (n : Int)) _
    (fun yj => (Qs.map fun q => q.2.2).map (zClosed I s1 s2 P vals nuz xi yj)) (by
      intro yj _
      rw [gen_zSpline I s0 s1 s2 P vals wf h2])]
  simp only [pure, Except.pure, List.map_map]
  have hL : innerIdx s1 ≠ [] := by
    unfold innerIdx
    intro h
    have := congrArg List.length h
    simp at this
    omega
  have := diag_splineCallM I ((innerIdx s1).map fun yj => (P.getD (yj * s2) []).getD 1 0) (innerIdx s1) hL Qs
    (fun yj q => zClosed I s1 s2 P vals nuz xi yj q.2.2) (fun q => q.2.1) nuy
  simp only [Function.comp_def] at this ⊢
  rw [this]
  rfl

theorem gen_xSpline (wf : GridWF s0 s1 s2 P) (h0 : 4 ≤ s0) (h1 : 4 ≤ s1) (h2 : 2 ≤ s2) (junk : Int)
    (Qs : List (ℝ × ℝ × ℝ)) (nux nuy nuz : Nat) :
    Gen.CubicInterp.xSpline I [s0, s1, s2] junk P nuy nuz vals (Qs.map fun q => q.1) (Qs.map fun q => q.2.1)
        (Qs.map fun q => q.2.2) nux
      = .ok (Qs.map (cubicClosed I s0 s1 s2 P vals (nux, nuy, nuz))) := by
  unfold Gen.CubicInterp.xSpline
  rw [(nGet3 s0 s1 s2).1, (nGet3 s0 s1 s2).2.1, (nGet3 s0 s1 s2).2.2]
  simp only [bind, Except.bind]
  rw [npArangeZ_inner, pyRange_inner, cast_map_mul, cast_map_mul, npTakeCol_natCast, List.map_map]
  have ecomp : ((fun x => x * s2) ∘ fun x => x * s1) = fun x => x * s1 * s2 := rfl
  rw [ecomp]
  have rows : interpRows P ((innerIdx s0).map (· * s1 * s2)) = .ok ((innerIdx s0).map fun xi => P.getD (xi * s1 * s2) []) :=
    interpRows_ok P _ _ _ (fun xi hxi => getElem?_getD_of_lt P _ (row_lt_x s0 s1 s2 P wf (by omega) (by omega) hxi))
  simp only [rows, bind, Except.bind]
  rw [interpCol_ok _ 0 (fun r => r.getD 0 0) (by
    intro r hr
    obtain ⟨xi, hxi, rfl⟩ := List.mem_map.mp hr
    exact getElem?_of_len3 _ (wf.rows _ (getD_mem P _ (row_lt_x s0 s1 s2 P wf (by omega) (by omega) hxi))) 0 (by omega))]
  simp only [bind, Except.bind]
  rw [mapM_map_ok (innerIdx s0) (fun (n : Nat) => (n : Int)) _
    (fun xi => Qs.map fun q => yClosed I s1 s2 P vals nuy nuz xi q.2.1 q.2.2) (by
      intro xi _
      rw [gen_ySplines I s0 s1 s2 P vals wf (by omega) h1 h2])]
  simp only [pure, Except.pure, List.map_map]
  have hL : innerIdx s0 ≠ [] := by
    unfold innerIdx
    intro h
    have := congrArg List.length h
    simp at this
    omega
  have := diag_splineCallM I ((innerIdx s0).map fun xi => (P.getD (xi * s1 * s2) []).getD 0 0) (innerIdx s0) hL Qs
    (fun xi q => yClosed I s1 s2 P vals nuy nuz xi q.2.1 q.2.2) (fun q => q.1) nux
  simp only [Function.comp_def] at this ⊢
  rw [this]
  rfl

end

/-! ### the generated `interpolate`, cubic method -/

theorem interpCol_qrow (Qs : List (ℝ × ℝ × ℝ)) :
    interpCol (Qs.map qrow) 0 = .ok (Qs.map fun q => q.1) ∧ interpCol (Qs.map qrow) 1 = .ok (Qs.map fun q => q.2.1) ∧
    interpCol (Qs.map qrow) 2 = .ok (Qs.map fun q => q.2.2) := by
  refine ⟨?_, ?_, ?_⟩
  · rw [interpCol_ok _ 0 (fun r => r.getD 0 0) (by
      intro r hr; obtain ⟨q, _, rfl⟩ := List.mem_map.mp hr; rfl), List.map_map]; rfl
  · rw [interpCol_ok _ 1 (fun r => r.getD 1 0) (by
      intro r hr; obtain ⟨q, _, rfl⟩ := List.mem_map.mp hr; rfl), List.map_map]; rfl
  · rw [interpCol_ok _ 2 (fun r => r.getD 2 0) (by
      intro r hr; obtain ⟨q, _, rfl⟩ := List.mem_map.mp hr; rfl), List.map_map]; rfl

theorem method_guards : (["cubic", "linear", "nearest"].contains "cubic") = true ∧ (["linear", "nearest"].contains "cubic") = false ∧
    (["cubic", "linear", "nearest"].contains "linear") = true ∧ (["linear", "nearest"].contains "linear") = true ∧
    (["cubic", "linear", "nearest"].contains "nearest") = true ∧ (["linear", "nearest"].contains "nearest") = true := by
  decide

section
variable (I : Interp1 ℝ) (R : String → InterpGrid ℝ) (bell : Nat → Nat → List ℝ → ℝ) (s0 s1 s2 : Nat) (P : List (List ℝ))
  (vals : List ℝ)

/-- one level of the generated `interpolate` with `use_log=False`, `method="cubic"`: no recursive call, the value of
`x_spline` at every query point. -/
theorem gen_interpolateStep_cubic (rec : List (List ℝ) → List ℝ → Bool → Nat → Nat → Nat → String → Py (List ℝ))
    (wf : GridWF s0 s1 s2 P) (hv : vals.length = s0 * s1 * s2) (h0 : 4 ≤ s0) (h1 : 4 ≤ s1) (h2 : 2 ≤ s2) (junk : Int)
    (Qs : List (ℝ × ℝ × ℝ)) (nux nuy nuz : Nat) :
    Gen.CubicInterp.interpolateStep rec I R bell [s0, s1, s2] junk P (Qs.map qrow) vals false nux nuy nuz "cubic"
      = .ok (Qs.map (cubicClosed I s0 s1 s2 P vals (nux, nuy, nuz))) := by
  unfold Gen.CubicInterp.interpolateStep
  have g3 : (vals.length != numPoints [s0, s1, s2]) = false := by simp [numPoints, hv]
  simp only [method_guards.1, method_guards.2.1, g3, Bool.not_true, Bool.false_eq_true, if_false, List.length_cons, List.length_nil,
    bind, Except.bind, pure, Except.pure, (interpCol_qrow Qs).1, (interpCol_qrow Qs).2.1, (interpCol_qrow Qs).2.2,
    gen_xSpline I s0 s1 s2 P vals wf h0 h1 h2]
  rfl

end

section
variable (I : Interp1 ℝ) (R : String → InterpGrid ℝ) (bell : Nat → Nat → List ℝ → ℝ) (s0 s1 s2 : Nat) (P : List (List ℝ))
  (vals : List ℝ)

/-- **The generated `interpolate(points, values, nu_x, nu_y, nu_z)` (cubic method) is the hand model at every query
point**: for every well-formed `(N, 3)` point array of a grid of shape `(s₀, s₁, s₂)` with at least one interior
spline node on the outer axes (`s₀, s₁ ≥ 4`; SciPy itself wants `≥ 5`) and `s₂ ≥ 2` (constructor), every data array of
the right length, every list of query points, derivative orders and content `junk` of the uninitialised stride array,
every 1-D operator. The source's node ranges `arange(1, s − 2)`, the slice `[idx(x,y,1) : idx(x,y,s₂−2)]`, the strides
`· s₂`, `· s₁ · s₂`, the column numbers `0, 1, 2` and `np.diag` are all in the generated text this is proved about. -/
theorem gen_interpolate_cubic_eq_model (wf : GridWF s0 s1 s2 P) (hv : vals.length = s0 * s1 * s2) (h0 : 4 ≤ s0) (h1 : 4 ≤ s1)
    (h2 : 2 ≤ s2) (junk : Int) (Qs : List (ℝ × ℝ × ℝ)) (nux nuy nuz : Nat) :
    Gen.CubicInterp.interpolate I R bell [s0, s1, s2] junk P (Qs.map qrow) vals false nux nuy nuz "cubic"
      = Qs.mapM (fun q => interpCubic I [s0, s1, s2] P vals (nux, nuy, nuz) q) := by
  unfold Gen.CubicInterp.interpolate
  rw [gen_interpolateStep_cubic I R bell s0 s1 s2 P vals _ wf hv h0 h1 h2]
  exact (mapM_ok _ _ _ (fun q _ => interpCubic_closed I s0 s1 s2 P vals wf hv (by omega) (by omega) (by omega) _ q)).symm

/-- the default values of the signature are `use_log=False, nu_x=nu_y=nu_z=0, method="cubic"`. -/
theorem gen_interpolate_defaults : Gen.CubicInterp.interpolateDefaults = (false, 0, 0, 0, "cubic") := rfl

end

theorem tensorPoints3_wf (xs ys zs : List ℝ) : GridWF xs.length ys.length zs.length (tensorPoints [xs, ys, zs]) where
  len := by rw [length_tensorPoints]; simp; ring
  rows := by
    intro r hr
    simp only [tensorPoints, List.mem_flatMap, List.mem_map, List.mem_singleton] at hr
    obtain ⟨x, _, r1, ⟨y, _, r2, ⟨z, _, r3, rfl, rfl⟩, rfl⟩, rfl⟩ := hr
    rfl

/-- **Exactness of the generated cubic method** on a tensor grid (restatement of `interp_cubic_exact` over the generated
code): if `CubicSpline` is exact on cubics on the inner node lists of the three axes, every polynomial of degree ≤ 3 in
each variable and all its partial derivatives are reproduced at every query point of every list of query points. -/
theorem interp_cubic_exact_gen (I : Interp1 ℝ) (R : String → InterpGrid ℝ) (bell : Nat → Nat → List ℝ → ℝ)
    (xs ys zs : List ℝ) (hx : 4 ≤ xs.length) (hy : 4 ≤ ys.length) (hz : 2 ≤ zs.length)
    (hx' : ExactOnCubics I (innerNodes xs)) (hy' : ExactOnCubics I (innerNodes ys)) (hz' : ExactOnCubics I (innerNodes zs))
    (C : Fin 4 → Fin 4 → Fin 4 → ℝ) (n1 n2 n3 : ℕ) (junk : Int) (Qs : List (ℝ × ℝ × ℝ)) :
    Gen.CubicInterp.interpolate I R bell [xs.length, ys.length, zs.length] junk (tensorPoints [xs, ys, zs]) (Qs.map qrow)
        (gridValues (tensorEval C 0 0 0) (tensorPoints [xs, ys, zs])) false n1 n2 n3 "cubic"
      = .ok (Qs.map fun q => tensorEval C n1 n2 n3 q.1 q.2.1 q.2.2) := by
  have hlen : (gridValues (tensorEval C 0 0 0) (tensorPoints [xs, ys, zs])).length = xs.length * ys.length * zs.length := by
    unfold gridValues; rw [List.length_map, length_tensorPoints]; simp; ring
  rw [gen_interpolate_cubic_eq_model I R bell _ _ _ _ _ (tensorPoints3_wf xs ys zs) hlen hx hy hz]
  exact mapM_ok _ _ _ (fun q _ => interp_cubic_exact I xs ys zs (by omega) (by omega) hx' hy' hz' C n1 n2 n3 q.1 q.2.1 q.2.2)

/-! ### the generated `interpolate`, logarithmic variant -/

theorem bell_sum_eq_complete1 (g1 : ℝ) :
    sumK ((npArange 1 (1 + 1)).map fun k => sympyBell 1 k [g1]) = completeBell (fun i => [g1].getD (i - 1) 0) 1 := by
  simp [sympyBell, bellPartial, completeBell, bellTable, choose, npArange, List.range_succ, sumK_eq_sum]

theorem bell_sum_eq_complete2 (g1 g2 : ℝ) :
    sumK ((npArange 1 (2 + 1)).map fun k => sympyBell 2 k [g1, g2]) = completeBell (fun i => [g1, g2].getD (i - 1) 0) 2 := by
  simp [sympyBell, bellPartial, completeBell, bellTable, choose, npArange, List.range_succ, sumK_eq_sum]
  ring

theorem bell_sum_eq_complete3 (g1 g2 g3 : ℝ) :
    sumK ((npArange 1 (3 + 1)).map fun k => sympyBell 3 k [g1, g2, g3])
      = completeBell (fun i => [g1, g2, g3].getD (i - 1) 0) 3 := by
  simp [sympyBell, bellPartial, completeBell, bellTable, choose, npArange, List.range_succ, sumK_eq_sum]
  ring

theorem xname_ne : (("x" ++ Nat.repr 1) == ("x" ++ Nat.repr 0)) = false ∧
    (("x" ++ Nat.repr 2) == ("x" ++ Nat.repr 0)) = false ∧
    (("x" ++ Nat.repr 2) == ("x" ++ Nat.repr 1)) = false ∧
    (("x" ++ Nat.repr 0) == ("x" ++ Nat.repr 1)) = false ∧
    (("x" ++ Nat.repr 0) == ("x" ++ Nat.repr 2)) = false ∧
    (("x" ++ Nat.repr 1) == ("x" ++ Nat.repr 2)) = false := by decide

theorem kGet_map_of_mem {β} (Qs : List β) (D : β → ℝ) (d : β) (j : Nat) (hj : j ∈ List.range Qs.length) :
    kGet (Qs.map D) j = .ok (D (Qs.getD j d)) := by
  have h : j < Qs.length := List.mem_range.mp hj
  unfold kGet
  simp [List.getElem?_map, List.getElem?_eq_getElem h, List.getD_eq_getElem?_getD]
  rfl

/-- one pass of the loop over the query points that evaluates `Σ_k bell(n, k, symbols)` at the interpolated
log-derivatives, for `n = 1, 2, 3` (derivatives of a cubic spline beyond the third vanish): it appends the complete Bell
polynomial of the hand model at that point. `D i q` is the `i`-th log-derivative at the query point `q`. -/
theorem bell_step {β} (Qs : List β) (d : β) (D : Nat → β → ℝ) (n : Nat) (hn : n = 1 ∨ n = 2 ∨ n = 3) (acc : List ℝ) (j : Nat)
    (hj : j ∈ List.range Qs.length) :
    (do
        let t18' ← (npArange 0 n).mapM fun i => do
          let t16' ← mRow ((npArange 1 (n + 1)).map fun i => Qs.map (D i)) i; let t17' ← kGet t16' j; Except.ok (("x" ++ (toString i)), t17')
        let t20' ← (npArange 1 (n + 1)).mapM fun i => bellEvalf sympyBell n i (sympySymbolsRange "x" n) t18'
        (Except.ok (acc ++ [(sumK t20')]) : Py (List ℝ)))
      = .ok (acc ++ [completeBell (fun i => ((List.range n).map fun m => D (m + 1) (Qs.getD j d)).getD (i - 1) 0) n]) := by
  rcases hn with rfl | rfl | rfl
  · simp [npArange, List.range_succ, mRow, kGet_map_of_mem Qs _ d j hj, bellEvalf, sympySymbolsRange, List.lookup, bind, Except.bind,
      pure, Except.pure]
    have := bell_sum_eq_complete1 (D 1 (Qs.getD j d))
    simpa [npArange, List.range_succ] using this
  · simp [npArange, List.range_succ, mRow, kGet_map_of_mem Qs _ d j hj, bellEvalf, sympySymbolsRange, List.lookup, bind, Except.bind,
      pure, Except.pure, xname_ne]
    have := bell_sum_eq_complete2 (D 1 (Qs.getD j d)) (D 2 (Qs.getD j d))
    simpa [npArange, List.range_succ] using this
  · simp [npArange, List.range_succ, mRow, kGet_map_of_mem Qs _ d j hj, bellEvalf, sympySymbolsRange, List.lookup, bind, Except.bind,
      pure, Except.pure, xname_ne]
    have := bell_sum_eq_complete3 (D 1 (Qs.getD j d)) (D 2 (Qs.getD j d)) (D 3 (Qs.getD j d))
    simpa [npArange, List.range_succ] using this

section
variable (I : Interp1 ℝ) (R : String → InterpGrid ℝ) (s0 s1 s2 : Nat) (P : List (List ℝ)) (vals : List ℝ)

/-- value of the logarithmic variant at one query point: `exp` of the interpolated logarithm times the complete Bell
polynomial of its interpolated derivatives of orders `1 … n` in the direction `dir` (`dir i` is the triple of orders). -/
noncomputable def logClosed (dir : Nat → Nat × Nat × Nat) (n : Nat) (q : ℝ × ℝ × ℝ) : ℝ :=
  Real.exp (cubicClosed I s0 s1 s2 P (vals.map Real.log) (0, 0, 0) q)
    * completeBell (fun i => ((List.range n).map fun m => cubicClosed I s0 s1 s2 P (vals.map Real.log) (dir (m + 1)) q).getD (i - 1) 0) n

theorem interpLog_closed (wf : GridWF s0 s1 s2 P) (hv : vals.length = s0 * s1 * s2) (h0 : 1 ≤ s0) (h1 : 1 ≤ s1) (h2 : 1 ≤ s2)
    (n : Nat) (hn : n = 1 ∨ n = 2 ∨ n = 3) (q : ℝ × ℝ × ℝ) :
    interpLog I [s0, s1, s2] P vals (n, 0, 0) q = .ok (logClosed I s0 s1 s2 P vals (fun i => (i, 0, 0)) n q) ∧
    interpLog I [s0, s1, s2] P vals (0, n, 0) q = .ok (logClosed I s0 s1 s2 P vals (fun i => (0, i, 0)) n q) ∧
    interpLog I [s0, s1, s2] P vals (0, 0, n) q = .ok (logClosed I s0 s1 s2 P vals (fun i => (0, 0, i)) n q) := by
  have hlv : (vals.map Real.log).length = s0 * s1 * s2 := by simp [hv]
  have hc := fun nu => interpCubic_closed I s0 s1 s2 P (vals.map Real.log) wf hlv h0 h1 h2 nu q
  rcases hn with rfl | rfl | rfl <;>
  · refine ⟨?_, ?_, ?_⟩ <;>
    · unfold interpLog logClosed
      simp [hc, List.range_succ, bind, Except.bind, pure, Except.pure, Elem.log, Elem.exp]

end

section
variable (I : Interp1 ℝ) (R : String → InterpGrid ℝ) (s0 s1 s2 : Nat) (P : List (List ℝ)) (vals : List ℝ)

theorem zipWith_mul_map {β} (Qs : List β) (f g : β → ℝ) :
    List.zipWith (fun x y => x * y) (Qs.map f) (Qs.map g) = Qs.map fun q => f q * g q := by
  induction Qs with
  | nil => rfl
  | cons a t ih => simp [ih]

theorem bind_ok {α β} (a : α) (f : α → Py β) : (bind (Except.ok a : Py α) f) = f a := rfl
theorem pure_ok {α} (a : α) : (pure a : Py α) = Except.ok a := rfl
theorem mapM_pure_ok {α β} (l : List α) (g : α → β) : l.mapM (fun i => (Except.ok (g i) : Py β)) = .ok (l.map g) :=
  mapM_ok l _ g (fun _ _ => rfl)

theorem gen_interpolate_log_x (wf : GridWF s0 s1 s2 P) (hv : vals.length = s0 * s1 * s2) (h0 : 4 ≤ s0) (h1 : 4 ≤ s1) (h2 : 2 ≤ s2)
    (junk : Int) (Qs : List (ℝ × ℝ × ℝ)) (n : Nat) (hn : n = 1 ∨ n = 2 ∨ n = 3) :
    Gen.CubicInterp.interpolate I R sympyBell [s0, s1, s2] junk P (Qs.map qrow) vals true n 0 0 "cubic"
      = .ok (Qs.map (logClosed I s0 s1 s2 P vals (fun i => (i, 0, 0)) n)) := by
  have hlv : (vals.map Real.log).length = s0 * s1 * s2 := by simp [hv]
  have hrec := fun a b c => gen_interpolateStep_cubic I R sympyBell s0 s1 s2 P (vals.map Real.log)
    (fun _ _ _ _ _ _ _ => throw PyErr.notImplemented) wf hlv h0 h1 h2 junk Qs a b c
  unfold Gen.CubicInterp.interpolate
  generalize Gen.CubicInterp.interpolateStep (fun _ _ _ _ _ _ _ => throw PyErr.notImplemented) I R sympyBell [s0, s1, s2] junk P = recF
    at hrec ⊢
  unfold Gen.CubicInterp.interpolateStep
  have g3 : (vals.length != numPoints [s0, s1, s2]) = false := by simp [numPoints, hv]
  have g4 : ([s0, s1, s2].length != 3) = false := rfl
  have c1 : ([((n : Nat) : Int), ((0 : Nat) : Int), ((0 : Nat) : Int)] == [(0 : Int), (0 : Int), (0 : Int)]) = false := by
    rcases hn with rfl | rfl | rfl <;> decide
  have c2 : (countTrue [(n == 0), ((0 : Nat) == 0), ((0 : Nat) == 0)] == 2) = true := by
    rcases hn with rfl | rfl | rfl <;> decide
  have c3 : decide (n > 0) = true := by
    rcases hn with rfl | rfl | rfl <;> decide
  simp only [method_guards.1, method_guards.2.1, g3, g4, c1, c2, c3, Bool.not_true, Bool.false_eq_true, if_false, if_true,
    bind_ok, pure_ok, Elem.log, Elem.exp, hrec, mapM_pure_ok, List.length_map, npArange_zero Qs.length]
  rw [foldlM_append_ok (List.range Qs.length) _
    (fun j => completeBell (fun i => ((List.range n).map fun m =>
      cubicClosed I s0 s1 s2 P (vals.map Real.log) (m + 1, 0, 0) (Qs.getD j (0, 0, 0))).getD (i - 1) 0) n)
    (fun acc j hj => bell_step Qs (0, 0, 0) (fun i q => cubicClosed I s0 s1 s2 P (vals.map Real.log) (i, 0, 0) q) n hn acc j hj)]
  rw [bind_ok, List.nil_append, List.map_map,
    map_range_getD Qs (fun q => completeBell (fun i => ((List.range n).map fun m =>
      cubicClosed I s0 s1 s2 P (vals.map Real.log) (m + 1, 0, 0) q).getD (i - 1) 0) n) (0, 0, 0), zipWith_mul_map]
  rfl


theorem gen_interpolate_log_y (wf : GridWF s0 s1 s2 P) (hv : vals.length = s0 * s1 * s2) (h0 : 4 ≤ s0) (h1 : 4 ≤ s1) (h2 : 2 ≤ s2)
    (junk : Int) (Qs : List (ℝ × ℝ × ℝ)) (n : Nat) (hn : n = 1 ∨ n = 2 ∨ n = 3) :
    Gen.CubicInterp.interpolate I R sympyBell [s0, s1, s2] junk P (Qs.map qrow) vals true 0 n 0 "cubic"
      = .ok (Qs.map (logClosed I s0 s1 s2 P vals (fun i => (0, i, 0)) n)) := by
  have hlv : (vals.map Real.log).length = s0 * s1 * s2 := by simp [hv]
  have hrec := fun a b c => gen_interpolateStep_cubic I R sympyBell s0 s1 s2 P (vals.map Real.log)
    (fun _ _ _ _ _ _ _ => throw PyErr.notImplemented) wf hlv h0 h1 h2 junk Qs a b c
  unfold Gen.CubicInterp.interpolate
  generalize Gen.CubicInterp.interpolateStep (fun _ _ _ _ _ _ _ => throw PyErr.notImplemented) I R sympyBell [s0, s1, s2] junk P = recF
    at hrec ⊢
  unfold Gen.CubicInterp.interpolateStep
  have g3 : (vals.length != numPoints [s0, s1, s2]) = false := by simp [numPoints, hv]
  have g4 : ([s0, s1, s2].length != 3) = false := rfl
  have c1 : ([((0 : Nat) : Int), ((n : Nat) : Int), ((0 : Nat) : Int)] == [(0 : Int), (0 : Int), (0 : Int)]) = false := by
    rcases hn with rfl | rfl | rfl <;> decide
  have c2 : (countTrue [((0 : Nat) == 0), (n == 0), ((0 : Nat) == 0)] == 2) = true := by
    rcases hn with rfl | rfl | rfl <;> decide
  have c3 : decide (n > 0) = true := by
    rcases hn with rfl | rfl | rfl <;> decide
  have c4 : decide ((0 : Nat) > 0) = false := by decide
  simp only [method_guards.1, method_guards.2.1, g3, g4, c1, c2, c3, c4, Bool.not_true, Bool.false_eq_true, if_false, if_true,
    bind_ok, pure_ok, Elem.log, Elem.exp, hrec, mapM_pure_ok, List.length_map, npArange_zero Qs.length]
  rw [foldlM_append_ok (List.range Qs.length) _
    (fun j => completeBell (fun i => ((List.range n).map fun m =>
      cubicClosed I s0 s1 s2 P (vals.map Real.log) (0, m + 1, 0) (Qs.getD j (0, 0, 0))).getD (i - 1) 0) n)
    (fun acc j hj => bell_step Qs (0, 0, 0) (fun i q => cubicClosed I s0 s1 s2 P (vals.map Real.log) (0, i, 0) q) n hn acc j hj)]
  rw [bind_ok, List.nil_append, List.map_map,
    map_range_getD Qs (fun q => completeBell (fun i => ((List.range n).map fun m =>
      cubicClosed I s0 s1 s2 P (vals.map Real.log) (0, m + 1, 0) q).getD (i - 1) 0) n) (0, 0, 0), zipWith_mul_map]
  rfl


theorem gen_interpolate_log_z (wf : GridWF s0 s1 s2 P) (hv : vals.length = s0 * s1 * s2) (h0 : 4 ≤ s0) (h1 : 4 ≤ s1) (h2 : 2 ≤ s2)
    (junk : Int) (Qs : List (ℝ × ℝ × ℝ)) (n : Nat) (hn : n = 1 ∨ n = 2 ∨ n = 3) :
    Gen.CubicInterp.interpolate I R sympyBell [s0, s1, s2] junk P (Qs.map qrow) vals true 0 0 n "cubic"
      = .ok (Qs.map (logClosed I s0 s1 s2 P vals (fun i => (0, 0, i)) n)) := by
  have hlv : (vals.map Real.log).length = s0 * s1 * s2 := by simp [hv]
  have hrec := fun a b c => gen_interpolateStep_cubic I R sympyBell s0 s1 s2 P (vals.map Real.log)
    (fun _ _ _ _ _ _ _ => throw PyErr.notImplemented) wf hlv h0 h1 h2 junk Qs a b c
  unfold Gen.CubicInterp.interpolate
  generalize Gen.CubicInterp.interpolateStep (fun _ _ _ _ _ _ _ => throw PyErr.notImplemented) I R sympyBell [s0, s1, s2] junk P = recF
    at hrec ⊢
  unfold Gen.CubicInterp.interpolateStep
  have g3 : (vals.length != numPoints [s0, s1, s2]) = false := by simp [numPoints, hv]
  have g4 : ([s0, s1, s2].length != 3) = false := rfl
  have c1 : ([((0 : Nat) : Int), ((0 : Nat) : Int), ((n : Nat) : Int)] == [(0 : Int), (0 : Int), (0 : Int)]) = false := by
    rcases hn with rfl | rfl | rfl <;> decide
  have c2 : (countTrue [((0 : Nat) == 0), ((0 : Nat) == 0), (n == 0)] == 2) = true := by
    rcases hn with rfl | rfl | rfl <;> decide
  have c3 : decide (n > 0) = true := by
    rcases hn with rfl | rfl | rfl <;> decide
  have c4 : decide ((0 : Nat) > 0) = false := by decide
  simp only [method_guards.1, method_guards.2.1, g3, g4, c1, c2, c3, c4, Bool.not_true, Bool.false_eq_true, if_false, if_true,
    bind_ok, pure_ok, Elem.log, Elem.exp, hrec, mapM_pure_ok, List.length_map, npArange_zero Qs.length]
  rw [foldlM_append_ok (List.range Qs.length) _
    (fun j => completeBell (fun i => ((List.range n).map fun m =>
      cubicClosed I s0 s1 s2 P (vals.map Real.log) (0, 0, m + 1) (Qs.getD j (0, 0, 0))).getD (i - 1) 0) n)
    (fun acc j hj => bell_step Qs (0, 0, 0) (fun i q => cubicClosed I s0 s1 s2 P (vals.map Real.log) (0, 0, i) q) n hn acc j hj)]
  rw [bind_ok, List.nil_append, List.map_map,
    map_range_getD Qs (fun q => completeBell (fun i => ((List.range n).map fun m =>
      cubicClosed I s0 s1 s2 P (vals.map Real.log) (0, 0, m + 1) q).getD (i - 1) 0) n) (0, 0, 0), zipWith_mul_map]
  rfl


theorem gen_interpolate_log_0 (wf : GridWF s0 s1 s2 P) (hv : vals.length = s0 * s1 * s2) (h0 : 4 ≤ s0) (h1 : 4 ≤ s1) (h2 : 2 ≤ s2)
    (junk : Int) (Qs : List (ℝ × ℝ × ℝ)) :
    Gen.CubicInterp.interpolate I R sympyBell [s0, s1, s2] junk P (Qs.map qrow) vals true 0 0 0 "cubic"
      = .ok (Qs.map fun q => Real.exp (cubicClosed I s0 s1 s2 P (vals.map Real.log) (0, 0, 0) q)) := by
  have hlv : (vals.map Real.log).length = s0 * s1 * s2 := by simp [hv]
  have hrec := fun a b c => gen_interpolateStep_cubic I R sympyBell s0 s1 s2 P (vals.map Real.log)
    (fun _ _ _ _ _ _ _ => throw PyErr.notImplemented) wf hlv h0 h1 h2 junk Qs a b c
  unfold Gen.CubicInterp.interpolate
  generalize Gen.CubicInterp.interpolateStep (fun _ _ _ _ _ _ _ => throw PyErr.notImplemented) I R sympyBell [s0, s1, s2] junk P = recF
    at hrec ⊢
  unfold Gen.CubicInterp.interpolateStep
  have g3 : (vals.length != numPoints [s0, s1, s2]) = false := by simp [numPoints, hv]
  have g4 : ([s0, s1, s2].length != 3) = false := rfl
  have c1 : ([((0 : Nat) : Int), ((0 : Nat) : Int), ((0 : Nat) : Int)] == [(0 : Int), (0 : Int), (0 : Int)]) = true := by decide
  simp only [method_guards.1, method_guards.2.1, g3, g4, c1, Bool.not_true, Bool.false_eq_true, if_false, if_true,
    bind_ok, pure_ok, Elem.log, Elem.exp, hrec, List.map_map]
  rfl

/-- mixed derivatives are refused by the logarithmic variant (`NotImplementedError`), after the function itself has been
interpolated. -/
theorem gen_interpolate_log_mixed (wf : GridWF s0 s1 s2 P) (hv : vals.length = s0 * s1 * s2) (h0 : 4 ≤ s0) (h1 : 4 ≤ s1) (h2 : 2 ≤ s2)
    (junk : Int) (Qs : List (ℝ × ℝ × ℝ)) (a b c : Nat) (hmix : (0 < a ∧ 0 < b) ∨ (0 < a ∧ 0 < c) ∨ (0 < b ∧ 0 < c)) :
    Gen.CubicInterp.interpolate I R sympyBell [s0, s1, s2] junk P (Qs.map qrow) vals true a b c "cubic" = .error .notImplemented := by
  have hlv : (vals.map Real.log).length = s0 * s1 * s2 := by simp [hv]
  have hrec := fun a b c => gen_interpolateStep_cubic I R sympyBell s0 s1 s2 P (vals.map Real.log)
    (fun _ _ _ _ _ _ _ => throw PyErr.notImplemented) wf hlv h0 h1 h2 junk Qs a b c
  unfold Gen.CubicInterp.interpolate
  generalize Gen.CubicInterp.interpolateStep (fun _ _ _ _ _ _ _ => throw PyErr.notImplemented) I R sympyBell [s0, s1, s2] junk P = recF
    at hrec ⊢
  unfold Gen.CubicInterp.interpolateStep
  have g3 : (vals.length != numPoints [s0, s1, s2]) = false := by simp [numPoints, hv]
  have g4 : ([s0, s1, s2].length != 3) = false := rfl
  have c1 : ([((a : Nat) : Int), ((b : Nat) : Int), ((c : Nat) : Int)] == [(0 : Int), (0 : Int), (0 : Int)]) = false := by
    simp; omega
  have c2 : (countTrue [(a == 0), (b == 0), (c == 0)] == 2) = false := by
    cases a <;> cases b <;> cases c <;> simp [countTrue] at hmix ⊢
  simp only [method_guards.1, method_guards.2.1, g3, g4, c1, c2, Bool.not_true, Bool.false_eq_true, if_false, if_true,
    bind_ok, pure_ok, Elem.log, Elem.exp, hrec]
  rfl

end

section
variable (I : Interp1 ℝ) (R : String → InterpGrid ℝ) (s0 s1 s2 : Nat) (P : List (List ℝ)) (vals : List ℝ)

/-- **The generated logarithmic variant is the hand model `Cubic.interpLog` at every query point**, for the function
itself and for the derivatives of order 1, 2, 3 along one axis (higher derivatives of a cubic spline vanish; mixed ones are
refused, `gen_interpolate_log_mixed`), with `Cubic.sympyBell` for SymPy's `bell`: `np.log` of the data, the recursive calls
with `use_log=False`, `np.exp`, the sum of the incomplete Bell polynomials over `k = 1 … n`, the product. -/
theorem gen_interpolate_log_eq_model (wf : GridWF s0 s1 s2 P) (hv : vals.length = s0 * s1 * s2) (h0 : 4 ≤ s0) (h1 : 4 ≤ s1)
    (h2 : 2 ≤ s2) (junk : Int) (Qs : List (ℝ × ℝ × ℝ)) (n : Nat) (hn : n = 1 ∨ n = 2 ∨ n = 3) :
    Gen.CubicInterp.interpolate I R sympyBell [s0, s1, s2] junk P (Qs.map qrow) vals true 0 0 0 "cubic"
      = Qs.mapM (fun q => interpLog I [s0, s1, s2] P vals (0, 0, 0) q) ∧
    Gen.CubicInterp.interpolate I R sympyBell [s0, s1, s2] junk P (Qs.map qrow) vals true n 0 0 "cubic"
      = Qs.mapM (fun q => interpLog I [s0, s1, s2] P vals (n, 0, 0) q) ∧
    Gen.CubicInterp.interpolate I R sympyBell [s0, s1, s2] junk P (Qs.map qrow) vals true 0 n 0 "cubic"
      = Qs.mapM (fun q => interpLog I [s0, s1, s2] P vals (0, n, 0) q) ∧
    Gen.CubicInterp.interpolate I R sympyBell [s0, s1, s2] junk P (Qs.map qrow) vals true 0 0 n "cubic"
      = Qs.mapM (fun q => interpLog I [s0, s1, s2] P vals (0, 0, n) q) := by
  have hm := fun q => interpLog_closed I s0 s1 s2 P vals wf hv (by omega) (by omega) (by omega) n hn q
  refine ⟨?_, ?_, ?_, ?_⟩
  · rw [gen_interpolate_log_0 I R s0 s1 s2 P vals wf hv h0 h1 h2]
    refine (mapM_ok _ _ _ (fun q _ => ?_)).symm
    have hlv : (vals.map Real.log).length = s0 * s1 * s2 := by simp [hv]
    unfold interpLog
    simp [interpCubic_closed I s0 s1 s2 P (vals.map Real.log) wf hlv (by omega) (by omega) (by omega), bind, Except.bind, pure, Except.pure,
      Elem.log, Elem.exp]
  · rw [gen_interpolate_log_x I R s0 s1 s2 P vals wf hv h0 h1 h2 junk Qs n hn]
    exact (mapM_ok _ _ _ (fun q _ => (hm q).1)).symm
  · rw [gen_interpolate_log_y I R s0 s1 s2 P vals wf hv h0 h1 h2 junk Qs n hn]
    exact (mapM_ok _ _ _ (fun q _ => (hm q).2.1)).symm
  · rw [gen_interpolate_log_z I R s0 s1 s2 P vals wf hv h0 h1 h2 junk Qs n hn]
    exact (mapM_ok _ _ _ (fun q _ => (hm q).2.2)).symm

end

end GridVerif.C13

/-
  C13 (4c) — `interpolate(method="linear")` reproduces trilinear functions.

  The code hands the three node lists (`get_points_along_axes()`) and the values in their C order to
  SciPy's `RegularGridInterpolator(method="linear")`.  Its contract is a *hypothesis* here
  (`MultilinearOnCells`: on every cell of the node grid the interpolant is the multilinear interpolant of
  the eight corner values, DESIGN 3); under it the modelled method (`Cubic.interpLinear`, node extraction
  through the generated stride code as coded) returns `f(p)` for every function `f` that is affine in each
  variable and every query point of the box spanned by the nodes — nodes need not be equidistant.
-/
import GridVerif.Props.C13.InterpModel
import GridVerif.Model.CubicNp
import Mathlib.Tactic.FieldSimp
import Mathlib.Order.Fin.Basic

namespace GridVerif.C13
open GridVerif GridVerif.Cubic GridVerif.Gen.CubicIndex

/-- `Σ_{a,b,c ≤ 1} C_abc xᵃ yᵇ zᶜ`: the functions affine in each variable (trilinear functions). -/
def trilinEval (C : Fin 2 → Fin 2 → Fin 2 → ℝ) (x y z : ℝ) : ℝ :=
  C 0 0 0 + C 0 0 1 * z + C 0 1 0 * y + C 0 1 1 * y * z
    + C 1 0 0 * x + C 1 0 1 * x * z + C 1 1 0 * x * y + C 1 1 1 * x * y * z

/-- Contract of `RegularGridInterpolator((x, y, z), values, method="linear")`: for a point inside the cell
`(i,j,k)` of the node grid the value is the multilinear interpolant of the eight corner values
(`Cubic.cellValue`), whatever the data. -/
def MultilinearOnCells (R : InterpGrid ℝ) (xs ys zs : List ℝ) : Prop :=
  ∀ (vals : List ℝ) (i j k : Nat) (x y z : ℝ),
    vals.length = xs.length * ys.length * zs.length →
    i + 1 < xs.length → j + 1 < ys.length → k + 1 < zs.length →
    xs.getD i 0 ≤ x → x ≤ xs.getD (i + 1) 0 → ys.getD j 0 ≤ y → y ≤ ys.getD (j + 1) 0 →
    zs.getD k 0 ≤ z → z ≤ zs.getD (k + 1) 0 →
    R xs ys zs vals (x, y, z) = cellValue xs ys zs vals i j k (x, y, z)

/-- a point between the first and the last node of a list lies in some cell `[l_i, l_{i+1}]`. -/
theorem exists_cell (l : List ℝ) (x : ℝ) (h2 : 2 ≤ l.length) (hlo : l.getD 0 0 ≤ x)
    (hhi : x ≤ l.getD (l.length - 1) 0) :
    ∃ i, i + 1 < l.length ∧ l.getD i 0 ≤ x ∧ x ≤ l.getD (i + 1) 0 := by
  classical
  let P : Nat → Prop := fun i => l.getD i 0 ≤ x
  have hP0 : P 0 := hlo
  have hi := Nat.findGreatest_spec (P := P) (n := l.length - 2) (Nat.zero_le _) hP0
  have hle := Nat.findGreatest_le (P := P) (l.length - 2)
  refine ⟨Nat.findGreatest P (l.length - 2), by omega, hi, ?_⟩
  rcases Nat.lt_or_ge (Nat.findGreatest P (l.length - 2)) (l.length - 2) with hlt | hge
  · have := Nat.findGreatest_is_greatest (P := P) (k := Nat.findGreatest P (l.length - 2) + 1)
      (Nat.lt_succ_self _) (by omega)
    exact le_of_lt (not_le.mp this)
  · have : Nat.findGreatest P (l.length - 2) + 1 = l.length - 1 := by omega
    rw [this]; exact hhi

/-- The multilinear interpolant of a cell reproduces every trilinear function (cells of non-zero width). -/
theorem multilinear_cell_exact (C : Fin 2 → Fin 2 → Fin 2 → ℝ) (x0 x1 y0 y1 z0 z1 x y z : ℝ)
    (hx : x1 - x0 ≠ 0) (hy : y1 - y0 ≠ 0) (hz : z1 - z0 ≠ 0) :
    let tx := (x - x0) / (x1 - x0); let ty := (y - y0) / (y1 - y0); let tz := (z - z0) / (z1 - z0)
    (1 - tx) * (1 - ty) * (1 - tz) * trilinEval C x0 y0 z0 + (1 - tx) * (1 - ty) * tz * trilinEval C x0 y0 z1
      + (1 - tx) * ty * (1 - tz) * trilinEval C x0 y1 z0 + (1 - tx) * ty * tz * trilinEval C x0 y1 z1
      + tx * (1 - ty) * (1 - tz) * trilinEval C x1 y0 z0 + tx * (1 - ty) * tz * trilinEval C x1 y0 z1
      + tx * ty * (1 - tz) * trilinEval C x1 y1 z0 + tx * ty * tz * trilinEval C x1 y1 z1
      = trilinEval C x y z := by
  intro tx ty tz
  simp only [tx, ty, tz, trilinEval]
  field_simp
  ring

/-- `get_points_along_axes()` of a tensor grid returns the three node lists. -/
theorem pointsAlongAxes_tensor (xs ys zs : List ℝ) (hx : 1 ≤ xs.length) (hy : 1 ≤ ys.length) (hz : 1 ≤ zs.length) :
    pointsAlongAxes [xs.length, ys.length, zs.length] (tensorPoints [xs, ys, zs]) = .ok (xs, ys, zs) := by
  have mapget : ∀ l : List ℝ, (List.range l.length).map (fun i => l.getD i 0) = l := by
    intro l
    apply List.ext_getElem (by simp)
    intro n h1 h2
    simp [List.getD_eq_getElem?_getD, List.getElem?_eq_getElem h2]
  unfold pointsAlongAxes
  dsimp only
  generalize hmz : List.mapM (m := Py) _ (List.range zs.length) = rz
  generalize hmy : List.mapM (m := Py) _ (List.range ys.length) = ry
  generalize hmx : List.mapM (m := Py) _ (List.range xs.length) = rx
  have ez : rz = .ok ((List.range zs.length).map fun k => zs.getD k 0) := by
    rw [← hmz]
    apply mapM_ok
    intro k hk
    have hk' : k < zs.length := List.mem_range.mp hk
    have := tensorPoints3_getElem? xs ys zs 0 0 k (by omega) (by omega) hk'
    simp only [Nat.zero_mul, Nat.zero_add] at this
    rw [this]; rfl
  have ey : ry = .ok ((List.range ys.length).map fun j => ys.getD j 0) := by
    rw [← hmy]
    apply mapM_ok
    intro j hj
    have hj' : j < ys.length := List.mem_range.mp hj
    have := tensorPoints3_getElem? xs ys zs 0 j 0 (by omega) hj' (by omega)
    simp only [Nat.zero_mul, Nat.zero_add, Nat.add_zero] at this
    rw [flatIndex3]
    simp only [bind, Except.bind, Nat.zero_mul, Nat.zero_add, Nat.add_zero, this]; rfl
  have ex : rx = .ok ((List.range xs.length).map fun i => xs.getD i 0) := by
    rw [← hmx]
    apply mapM_ok
    intro i hi
    have hi' : i < xs.length := List.mem_range.mp hi
    have := tensorPoints3_getElem? xs ys zs i 0 0 hi' (by omega) (by omega)
    simp only [Nat.zero_mul, Nat.add_zero] at this
    rw [flatIndex3]
    simp only [bind, Except.bind, Nat.zero_mul, Nat.add_zero, this]; rfl
  rw [ez, ey, ex]
  simp only [bind, Except.bind, mapget]
  rfl

/-- value of the data array at the row-major index of `(i,j,k)`. -/
theorem gridValues_getD (f : ℝ → ℝ → ℝ → ℝ) (xs ys zs : List ℝ) (i j k : Nat) (hi : i < xs.length)
    (hj : j < ys.length) (hk : k < zs.length) :
    (gridValues f (tensorPoints [xs, ys, zs])).getD (i * (ys.length * zs.length) + j * zs.length + k) 0
      = f (xs.getD i 0) (ys.getD j 0) (zs.getD k 0) := by
  unfold gridValues
  rw [List.getD_eq_getElem?_getD, List.getElem?_map, tensorPoints3_getElem? xs ys zs i j k hi hj hk]
  rfl

/-- **The linear method reproduces trilinear functions**: for strictly increasing nodes on the three axes
(what SciPy requires), every interpolator `R` that satisfies the contract of
`RegularGridInterpolator(method="linear")` on them, every function affine in each variable and every query
point of the box `[x₀, x_last] × [y₀, y_last] × [z₀, z_last]` the modelled
`interpolate(points, values, method="linear")` returns the exact function value. -/
theorem linear_reproduces_trilinear (R : InterpGrid ℝ) (xs ys zs : List ℝ)
    (hxs : xs.Pairwise (· < ·)) (hys : ys.Pairwise (· < ·)) (hzs : zs.Pairwise (· < ·))
    (hx2 : 2 ≤ xs.length) (hy2 : 2 ≤ ys.length) (hz2 : 2 ≤ zs.length)
    (hR : MultilinearOnCells R xs ys zs)
    (C : Fin 2 → Fin 2 → Fin 2 → ℝ) (x y z : ℝ)
    (hx : xs.getD 0 0 ≤ x ∧ x ≤ xs.getD (xs.length - 1) 0)
    (hy : ys.getD 0 0 ≤ y ∧ y ≤ ys.getD (ys.length - 1) 0)
    (hz : zs.getD 0 0 ≤ z ∧ z ≤ zs.getD (zs.length - 1) 0) :
    interpLinear R [xs.length, ys.length, zs.length] (tensorPoints [xs, ys, zs])
        (gridValues (trilinEval C) (tensorPoints [xs, ys, zs])) (x, y, z)
      = .ok (trilinEval C x y z) := by
  have hlen : (gridValues (trilinEval C) (tensorPoints [xs, ys, zs])).length = xs.length * ys.length * zs.length := by
    unfold gridValues; rw [List.length_map, length_tensorPoints]; simp; ring
  obtain ⟨i, hi, hi0, hi1⟩ := exists_cell xs x hx2 hx.1 hx.2
  obtain ⟨j, hj, hj0, hj1⟩ := exists_cell ys y hy2 hy.1 hy.2
  obtain ⟨k, hk, hk0, hk1⟩ := exists_cell zs z hz2 hz.1 hz.2
  have width : ∀ (l : List ℝ), l.Pairwise (· < ·) → ∀ n, n + 1 < l.length → l.getD (n + 1) 0 - l.getD n 0 ≠ 0 := by
    intro l hl n hn
    rw [getD_of_lt l (n + 1) hn, getD_of_lt l n (by omega)]
    have := List.pairwise_iff_getElem.mp hl n (n + 1) (by omega) hn (by omega)
    linarith
  unfold interpLinear
  simp only [hlen, ne_eq, not_true_eq_false, if_false, bind, Except.bind,
    pointsAlongAxes_tensor xs ys zs (by omega) (by omega) (by omega), pure, Except.pure]
  rw [hR _ i j k x y z hlen hi hj hk hi0 hi1 hj0 hj1 hk0 hk1]
  unfold cellValue
  simp only [Nat.add_zero, Nat.cast_zero, Nat.cast_one]
  rw [gridValues_getD _ xs ys zs i j k (by omega) (by omega) (by omega),
    gridValues_getD _ xs ys zs i j (k + 1) (by omega) (by omega) hk,
    gridValues_getD _ xs ys zs i (j + 1) k (by omega) hj (by omega),
    gridValues_getD _ xs ys zs i (j + 1) (k + 1) (by omega) hj hk,
    gridValues_getD _ xs ys zs (i + 1) j k hi (by omega) (by omega),
    gridValues_getD _ xs ys zs (i + 1) j (k + 1) hi (by omega) hk,
    gridValues_getD _ xs ys zs (i + 1) (j + 1) k hi hj (by omega),
    gridValues_getD _ xs ys zs (i + 1) (j + 1) (k + 1) hi hj hk]
  exact congrArg Except.ok (multilinear_cell_exact C _ _ _ _ _ _ x y z (width xs hxs i hi) (width ys hys j hj)
    (width zs hzs k hk))

/-- Non-vacuity of the contract: on the two-point axes `[0,1]³` the operator "multilinear interpolant of the
single cell" satisfies `MultilinearOnCells`, and the theorem applies (8 data values). -/
example : MultilinearOnCells (fun xs ys zs vals p => cellValue xs ys zs vals 0 0 0 p) [0, 1] [0, 1] [0, 1] := by
  intro vals i j k x y z _ hi hj hk _ _ _ _ _ _
  have : i = 0 := by simp at hi; omega
  have : j = 0 := by simp at hj; omega
  have : k = 0 := by simp at hk; omega
  subst_vars; rfl

end GridVerif.C13

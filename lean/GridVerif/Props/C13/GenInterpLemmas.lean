/-
  C13 (4c) — helper lemmas for `GenInterp.lean`: the Python-integer primitives of
  `Model/CubicInterpNp.lean` on natural numbers (slices, `range`, fancy rows, stride code), the
  vectorisation of SciPy's `CubicSpline` over query points and data columns (`np.diag` of the result),
  loops that append, and the sum of SymPy's incomplete Bell polynomials.
-/
import GridVerif.Props.C13.InterpModel
import GridVerif.Model.CubicInterpNp
import GridVerif.Gen.CubicInterp

namespace GridVerif.C13
open GridVerif GridVerif.Cubic GridVerif.Gen.CubicIndex

/-! ### Python integers that are natural numbers -/

theorem pyBound_natCast (len n : Nat) : pyBound len (n : Int) = n := by
  unfold pyBound
  have : ¬ ((n : Int) < 0) := by omega
  simp [this]

theorem pySlice_natCast {α} (l : List α) (a b : Nat) : pySlice l (a : Int) (b : Int) = slice l a b := by
  unfold pySlice; rw [pyBound_natCast, pyBound_natCast]

/-- `range(1, s − 2)` / `np.arange(1, s − 2)` are the inner indices `1 … s − 3`. -/
theorem pyRange_inner (s : Nat) : pyRange 1 ((s : Int) - 2) 1 = (innerIdx s).map fun (n : Nat) => (n : Int) := by
  unfold pyRange innerIdx
  simp only [show (0 : Int) < 1 by decide, if_true]
  have e : (((s : Int) - 2 - 1 + 1 - 1) / 1).toNat = s - 2 - 1 := by
    rw [Int.ediv_one]; omega
  rw [e]
  apply List.ext_getElem?
  intro n
  rw [List.getElem?_map, List.getElem?_map, List.getElem?_drop]
  by_cases h : n < s - 2 - 1
  · rw [List.getElem?_range h, List.getElem?_range (by omega)]
    simp only [Option.map_some]
    congr 1
    push_cast; ring
  · rw [List.getElem?_eq_none (by simp; omega), List.getElem?_eq_none (by simp; omega)]
    rfl

theorem npArangeZ_inner (s : Nat) : npArangeZ 1 ((s : Int) - 2) = (innerIdx s).map fun (n : Nat) => (n : Int) :=
  pyRange_inner s

theorem cast_map_mul (l : List Nat) (m : Nat) :
    (l.map fun (n : Nat) => (n : Int)).map (fun (s' : Int) => s' * ((m : Nat) : Int))
      = (l.map (· * m)).map fun (n : Nat) => (n : Int) := by
  simp [List.map_map, Function.comp_def]

theorem mapM_comp {α β γ} (l : List α) (h : α → β) (f : β → Py γ) : (l.map h).mapM f = l.mapM (fun a => f (h a)) := by
  induction l with
  | nil => rfl
  | cons a t ih => rw [List.map_cons, List.mapM_cons, List.mapM_cons, ih]

/-- fancy rows with natural-number indices are the model's `interpRows`. -/
theorem npTakeCol_natCast (P : List (List ℝ)) (l : List Nat) (d : Nat) :
    npTakeCol P (l.map fun (n : Nat) => (n : Int)) d = (do let rows ← interpRows P l; interpCol rows d) := by
  unfold npTakeCol interpRows
  rw [mapM_comp]
  congr 2
  funext n
  unfold pyIdx
  have h0 : (0 : Int) ≤ (n : Int) := by omega
  simp only [h0, if_true, Int.toNat_natCast]
  by_cases h : n < P.length
  · simp only [h, if_true, Option.bind_some]
    rw [List.getElem?_eq_getElem h]; rfl
  · simp only [h, if_false, Option.bind_none]
    rw [List.getElem?_eq_none (by omega)]; rfl

/-- the generated stride code on three natural-number coordinates. -/
theorem c2iOf3 (s0 s1 s2 : Nat) (junk : Int) (i j k : Int) :
    Gen.CubicGrid.coordinatesToIndexOf [s0, s1, s2] junk [i, j, k] = .ok (i * ((s1 : Int) * s2) + j * s2 + k) := by
  unfold Gen.CubicGrid.coordinatesToIndexOf
  simpa using c2i3 s0 s1 s2 i j k junk

theorem nGet3 (s0 s1 s2 : Nat) : nGet [s0, s1, s2] 0 = .ok s0 ∧ nGet [s0, s1, s2] 1 = .ok s1 ∧ nGet [s0, s1, s2] 2 = .ok s2 :=
  ⟨rfl, rfl, rfl⟩

/-! ### vectorisation over the query points -/

theorem range_filterMap_getElem? {β γ} (Qs : List β) (g : β → γ) :
    (List.range Qs.length).filterMap (fun i => (Qs[i]?).map g) = Qs.map g := by
  induction Qs using List.reverseRecOn with
  | nil => rfl
  | append_singleton init a ih =>
    rw [List.length_append, List.length_singleton, List.range_succ, List.filterMap_append, List.map_append]
    congr 1
    · rw [← ih]
      apply List.filterMap_congr
      intro i hi
      rw [List.getElem?_append_left (List.mem_range.mp hi)]
    · simp

/-- `np.diag` of a square array given entry-wise. -/
theorem diagonal_map_map {β} (Qs : List β) (h : β → β → ℝ) :
    diagonal (Qs.map fun q1 => Qs.map fun q2 => h q1 q2) = Qs.map fun q => h q q := by
  unfold diagonal
  rw [List.length_map, ← range_filterMap_getElem? Qs (fun q => h q q)]
  apply List.filterMap_congr
  intro i _
  rw [List.getElem?_map]
  cases hq : Qs[i]? with
  | none => rfl
  | some q =>
    simp only [Option.map_some]
    rw [List.getElem?_map, hq]; rfl

/-- transposition of a data array with one row per node and one column per query point. -/
theorem npTranspose_rows {ι β} (L : List ι) (hL : L ≠ []) (Qs : List β) (G : ι → β → ℝ) :
    npTranspose (L.map fun i => Qs.map (G i)) = Qs.map fun q => L.map fun i => G i q := by
  unfold npTranspose
  have hlen : ((L.map fun i => Qs.map (G i)).headD []).length = Qs.length := by
    cases L with
    | nil => exact absurd rfl hL
    | cons a t => simp
  rw [hlen]
  apply List.ext_getElem (by simp)
  intro n h1 h2
  have hn : n < Qs.length := by simpa using h2
  simp only [List.getElem_map, List.getElem_range]
  unfold column
  rw [List.filterMap_map]
  have : ((fun (r : List ℝ) => r[n]?) ∘ fun i => Qs.map (G i)) = fun i => some (G i Qs[n]) := by
    funext i
    simp [List.getElem?_map, List.getElem?_eq_getElem hn]
  rw [this, List.filterMap_eq_map']

/-- **SciPy's vectorised call followed by `np.diag`**: for data with one row per node (`L`) and one column
per query point, `np.diag(CubicSpline(nodes, data)(q, nu))` holds, for every query point, the spline through
*its* column evaluated at *its* coordinate. -/
theorem diag_splineCallM {ι β} (I : Interp1 ℝ) (nodes : List ℝ) (L : List ι) (hL : L ≠ []) (Qs : List β)
    (G : ι → β → ℝ) (xf : β → ℝ) (nu : Nat) :
    diagonal (splineCallM I nodes (L.map fun i => Qs.map (G i)) (Qs.map xf) nu)
      = Qs.map fun q => I nodes (L.map fun i => G i q) nu (xf q) := by
  unfold splineCallM
  rw [npTranspose_rows L hL, List.map_map]
  simp only [Function.comp_def, List.map_map]
  exact diagonal_map_map Qs (fun q1 q2 => I nodes (L.map fun i => G i q2) nu (xf q1))

/-! ### loops -/

/-- a loop whose every step appends one successfully computed entry. -/
theorem foldlM_append_ok {α} (l : List α) (step : List ℝ → α → Py (List ℝ)) (g : α → ℝ)
    (h : ∀ acc, ∀ a ∈ l, step acc a = .ok (acc ++ [g a])) (init : List ℝ) :
    l.foldlM step init = .ok (init ++ l.map g) := by
  induction l generalizing init with
  | nil => simp [List.foldlM, pure, Except.pure]
  | cons a t ih =>
    rw [List.foldlM_cons, h init a (List.mem_cons_self)]
    have := ih (fun acc b hb => h acc b (List.mem_cons_of_mem _ hb)) (init ++ [g a])
    simp only [bind, Except.bind] at this ⊢
    rw [this]
    simp

theorem npArange_zero (n : Nat) : npArange 0 n = List.range n := by
  unfold npArange; simp

theorem map_range_getD {β γ} (Qs : List β) (g : β → γ) (d : β) :
    (List.range Qs.length).map (fun j => g (Qs.getD j d)) = Qs.map g := by
  apply List.ext_getElem (by simp)
  intro n h1 h2
  have hn : n < Qs.length := by simpa using h1
  simp [List.getD_eq_getElem?_getD, List.getElem?_eq_getElem hn]

end GridVerif.C13

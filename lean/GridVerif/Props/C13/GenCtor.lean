/-
  C13 (4f) — the *generated* constructors (`Gen/CubicInterp.lean`): `_HyperRectangleGrid.__init__` in closed form
  (its four guards and `Grid.__init__`), and `UniformGrid.__init__` — guards in their order with the regenerated
  threshold `1e-10`, the point array built by `np.meshgrid` / `np.swapaxes` / `reshape` / `coords.T.dot(axes) + origin`
  equal to the model's `uniformPoints` (whose layout theorems are `layout3/2`, `point_formula3/2`), the weights of the
  generated `_choose_weight_scheme`.
-/
import GridVerif.Props.C13.GenAxes
import GridVerif.Props.C13.GenWeights

set_option linter.unusedSimpArgs false

namespace GridVerif.C13
open GridVerif GridVerif.Cubic GridVerif.Gen.CubicIndex

/-! ### the integer coordinate array -/

theorem mem_allCoords3 {n0 n1 n2 : Nat} {c : List Nat} (h : c ∈ allCoords [n0, n1, n2]) :
    ∃ i j k, i < n0 ∧ j < n1 ∧ k < n2 ∧ c = [i, j, k] := by
  simp only [allCoords, List.mem_flatMap, List.mem_map, List.mem_range, List.mem_singleton] at h
  obtain ⟨i, hi, c1, ⟨j, hj, c2, ⟨k, hk, c3, rfl, rfl⟩, rfl⟩, rfl⟩ := h
  exact ⟨i, j, k, hi, hj, hk, rfl⟩

theorem mem_allCoords2 {n0 n1 : Nat} {c : List Nat} (h : c ∈ allCoords [n0, n1]) :
    ∃ i j, i < n0 ∧ j < n1 ∧ c = [i, j] := by
  simp only [allCoords, List.mem_flatMap, List.mem_map, List.mem_range, List.mem_singleton] at h
  obtain ⟨i, hi, c1, ⟨j, hj, c2, rfl, rfl⟩, rfl⟩ := h
  exact ⟨i, j, hi, hj, rfl⟩

theorem range_getD (n i : Nat) (h : i < n) : (List.range n).getD i 0 = i := by
  simp [List.getD_eq_getElem?_getD, List.getElem?_range h]

/-- `np.array(np.meshgrid(arange(n₀), arange(n₁), arange(n₂)))`, `np.swapaxes(·, 1, 2)`, `.reshape(3, -1)`: row `d` lists
the `d`-th integer coordinate of every grid point in lexicographic order. -/
theorem coords_rows3 (n0 n1 n2 : Nat) :
    NdI.reshapeRows (NdI.swapaxes (npMeshgridXY [List.range n0, List.range n1, List.range n2]) 1 2) 3 false
      = .ok [(allCoords [n0, n1, n2]).map (fun c => c.getD 0 0), (allCoords [n0, n1, n2]).map (fun c => c.getD 1 0),
             (allCoords [n0, n1, n2]).map (fun c => c.getD 2 0)] := by
  unfold NdI.reshapeRows NdI.swapaxes npMeshgridXY
  simp only [List.map_cons, List.map_nil, List.length_range, List.length_cons, List.length_nil]
  have e1 : swapIdx [n0, n1, n2] 0 1 = [n1, n0, n2] := rfl
  have e2 : swapIdx [0 + 1 + 1 + 1, n1, n0, n2] 1 2 = [3, n0, n1, n2] := rfl
  rw [e1, e2]
  simp only [if_true, pure, Except.pure, Bool.false_eq_true, if_false]
  congr 1
  have r3 : List.range 3 = [0, 1, 2] := by decide
  rw [r3]
  simp only [List.map_cons, List.map_nil]
  refine congrArg₂ _ ?_ (congrArg₂ _ ?_ (congrArg₂ _ ?_ rfl)) <;>
  · apply List.map_congr_left
    intro c hc
    obtain ⟨i, j, k, hi, hj, hk, rfl⟩ := mem_allCoords3 hc
    simp [swapIdx, List.getElem?_range hi, List.getElem?_range hj, List.getElem?_range hk]

/-- 2-D: `np.array(np.meshgrid(arange(n₀), arange(n₁)))`, `.reshape(2, -1, order="F")`. -/
theorem coords_rows2 (n0 n1 : Nat) :
    NdI.reshapeRows (npMeshgridXY [List.range n0, List.range n1]) 2 true
      = .ok [(allCoords [n0, n1]).map (fun c => c.getD 0 0), (allCoords [n0, n1]).map (fun c => c.getD 1 0)] := by
  unfold NdI.reshapeRows npMeshgridXY allCoordsF
  simp only [List.map_cons, List.map_nil, List.length_range, List.length_cons, List.length_nil]
  have e1 : swapIdx [n0, n1] 0 1 = [n1, n0] := rfl
  rw [e1]
  simp only [if_true, pure, Except.pure]
  congr 1
  have r2 : List.range 2 = [0, 1] := by decide
  have rv : [n1, n0].reverse = [n0, n1] := rfl
  rw [r2, rv]
  simp only [List.map_cons, List.map_nil, List.map_map]
  refine congrArg₂ _ ?_ (congrArg₂ _ ?_ rfl) <;>
  · apply List.map_congr_left
    intro c hc
    obtain ⟨i, j, hi, hj, rfl⟩ := mem_allCoords2 hc
    simp [swapIdx, List.getElem?_range hi, List.getElem?_range hj]

theorem nTranspose3 {β} (l : List β) (f g h : β → Nat) :
    nTranspose [l.map f, l.map g, l.map h] = l.map fun c => [f c, g c, h c] := by
  unfold nTranspose
  simp only [List.headD_cons, List.length_map]
  apply List.ext_getElem (by simp)
  intro n h1 h2
  have hn : n < l.length := by simpa using h1
  simp [List.getElem?_map, List.getElem?_eq_getElem hn]

theorem nTranspose2 {β} (l : List β) (f g : β → Nat) :
    nTranspose [l.map f, l.map g] = l.map fun c => [f c, g c] := by
  unfold nTranspose
  simp only [List.headD_cons, List.length_map]
  apply List.ext_getElem (by simp)
  intro n h1 h2
  have hn : n < l.length := by simpa using h1
  simp [List.getElem?_map, List.getElem?_eq_getElem hn]

/-- **`coords.T.dot(axes) + origin` on the meshgrid coordinates is the model's point array**, 3-D. -/
theorem gen_points3 (o0 o1 o2 a00 a01 a02 a10 a11 a12 a20 a21 a22 : ℝ) (n0 n1 n2 : Nat) :
    (npMatMul ((nTranspose [(allCoords [n0, n1, n2]).map (fun c => c.getD 0 0), (allCoords [n0, n1, n2]).map (fun c => c.getD 1 0),
          (allCoords [n0, n1, n2]).map (fun c => c.getD 2 0)]).map fun r' => r'.map fun (s' : Nat) => (s' : ℝ))
        [[a00, a01, a02], [a10, a11, a12], [a20, a21, a22]]).map (fun r' => List.zipWith (fun x' y' => x' + y') r' [o0, o1, o2])
      = uniformPoints [o0, o1, o2] [[a00, a01, a02], [a10, a11, a12], [a20, a21, a22]] [n0, n1, n2] := by
  rw [nTranspose3]
  unfold uniformPoints npMatMul
  simp only [List.map_map]
  apply List.map_congr_left
  intro c hc
  obtain ⟨i, j, k, _, _, _, rfl⟩ := mem_allCoords3 hc
  simp [npVecMat, column, pointAt, sumK_eq_sum, List.range_succ]
  refine ⟨?_, ?_, ?_⟩ <;> ring

/-- the same in two dimensions. -/
theorem gen_points2 (o0 o1 a00 a01 a10 a11 : ℝ) (n0 n1 : Nat) :
    (npMatMul ((nTranspose [(allCoords [n0, n1]).map (fun c => c.getD 0 0), (allCoords [n0, n1]).map (fun c => c.getD 1 0)]).map
          fun r' => r'.map fun (s' : Nat) => (s' : ℝ))
        [[a00, a01], [a10, a11]]).map (fun r' => List.zipWith (fun x' y' => x' + y') r' [o0, o1])
      = uniformPoints [o0, o1] [[a00, a01], [a10, a11]] [n0, n1] := by
  rw [nTranspose2]
  unfold uniformPoints npMatMul
  simp only [List.map_map]
  apply List.map_congr_left
  intro c hc
  obtain ⟨i, j, _, _, rfl⟩ := mem_allCoords2 hc
  simp [npVecMat, column, pointAt, sumK_eq_sum, List.range_succ]

/-! ### `_HyperRectangleGrid.__init__` -/

theorem any_le_one (shape : List Int) :
    (shape.any fun (s' : Int) => !(decide (((1 : Nat) : ℝ) < (intToK s' : ℝ)))) = decide (∃ s ∈ shape, s ≤ 1) := by
  rw [Bool.eq_iff_iff]
  simp only [List.any_eq_true, Bool.not_eq_true', decide_eq_false_iff_not, decide_eq_true_eq, intToK_real, Nat.cast_one, not_lt]
  constructor
  · rintro ⟨s, hs, h⟩; exact ⟨s, hs, by exact_mod_cast h⟩
  · rintro ⟨s, hs, h⟩; exact ⟨s, hs, by exact_mod_cast h⟩

/-- **The generated `_HyperRectangleGrid.__init__` in closed form**: shape of length two or three, every entry greater
than one (`<= 1.0`), as many points as the product of the shape, as many columns as entries of the shape, and
`Grid.__init__`'s equal number of points and weights — in this order, each raising `ValueError`; then the arguments are
stored unchanged. -/
theorem gen_hyperRectangleInit_spec (P : List (List ℝ)) (W : List ℝ) (shape : List Int) :
    Gen.CubicInterp.hyperRectangleInit P W shape =
      if ¬ (shape.length = 2 ∨ shape.length = 3) then .error .valueError
      else if ∃ s ∈ shape, s ≤ 1 then .error .valueError
      else if prodZ shape ≠ ((P.length : Nat) : Int) then .error .valueError
      else if shape.length ≠ mCols P then .error .valueError
      else if P.length ≠ W.length then .error .valueError
      else .ok (P, W, shape) := by
  unfold Gen.CubicInterp.hyperRectangleInit gridInit
  rw [any_le_one]
  have c1 : ([2, 3].contains shape.length) = decide (shape.length = 2 ∨ shape.length = 3) := by
    rw [Bool.eq_iff_iff]; simp
  rw [c1]
  simp only [Bool.not_eq_true', decide_eq_false_iff_not, decide_eq_true_eq, bne_iff_ne, ne_eq, bind, Except.bind, pure, Except.pure]
  split_ifs <;> rfl

/-! ### `UniformGrid.__init__` -/

/-- **The generated `UniformGrid.__init__`, 3-D, in closed form**: `ValueError` when `|det axes| < 1e-10` (the regenerated
threshold, *absolute*: a well-conditioned lattice with spacing below `1e-10^(1/3) ≈ 4.6e-4` is refused as "not linearly
independent"), `ValueError` when a size is `≤ 0`; otherwise the weights of the generated `_choose_weight_scheme` and the
model's point array (`meshgrid` / `swapaxes(1, 2)` / `reshape(3, -1)` / `coords.T.dot(axes) + origin`) handed to the
generated `_HyperRectangleGrid.__init__`. -/
theorem gen_uniformGridInit3 (o0 o1 o2 a00 a01 a02 a10 a11 a12 a20 a21 a22 : ℝ) (s0 s1 s2 : Int) (w : String) :
    Gen.CubicInterp.uniformGridInit [o0, o1, o2] [[a00, a01, a02], [a10, a11, a12], [a20, a21, a22]] [s0, s1, s2] w =
      if |a00 * (a11 * a22 - a12 * a21) - a01 * (a10 * a22 - a12 * a20) + a02 * (a10 * a21 - a11 * a20)| < 1 / 10 ^ 10 then
        .error .valueError
      else if s0 ≤ 0 ∨ s1 ≤ 0 ∨ s2 ≤ 0 then .error .valueError
      else
        (Gen.CubicGrid.chooseWeightScheme [[a00, a01, a02], [a10, a11, a12], [a20, a21, a22]] w [s0.toNat, s1.toNat, s2.toNat]).bind
          fun W => Gen.CubicInterp.hyperRectangleInit
            (uniformPoints [o0, o1, o2] [[a00, a01, a02], [a10, a11, a12], [a20, a21, a22]] [s0.toNat, s1.toNat, s2.toNat]) W [s0, s1, s2] := by
  unfold Gen.CubicInterp.uniformGridInit
  have g1 : ([3, 2].contains [o0, o1, o2].length) = true := rfl
  have g2 : mShapeIs [[a00, a01, a02], [a10, a11, a12], [a20, a21, a22]] [o0, o1, o2].length [o0, o1, o2].length = true := by
    simp [mShapeIs]
  have g3 : ([s0, s1, s2].length != [o0, o1, o2].length) = false := rfl
  have hdet : det [[a00, a01, a02], [a10, a11, a12], [a20, a21, a22]]
      = .ok (a00 * (a11 * a22 - a12 * a21) - a01 * (a10 * a22 - a12 * a20) + a02 * (a10 * a21 - a11 * a20)) := rfl
  have hthr : (((1 : Nat) : ℝ) / ((10000000000 : Nat) : ℝ)) = 1 / 10 ^ 10 := by norm_num
  have hany : ([s0, s1, s2].any fun (s' : Int) => decide (s' ≤ (0 : Int))) = decide (s0 ≤ 0 ∨ s1 ≤ 0 ∨ s2 ≤ 0) := by
    rw [Bool.eq_iff_iff]; simp
  have hdim : ([o0, o1, o2].length == 3) = true := rfl
  simp only [g1, g2, g3, hdet, hthr, hany, hdim, Bool.not_true, Bool.false_eq_true, if_false, if_true, bind_ok, pure_ok, Elem.abs,
    decide_eq_true_eq]
  split_ifs with hd hs
  · rfl
  · rfl
  · have e0 : optGet ([s0, s1, s2][0]?) = .ok s0 := rfl
    have e1 : optGet ([s0, s1, s2][1]?) = .ok s1 := rfl
    have e2 : optGet ([s0, s1, s2][2]?) = .ok s2 := rfl
    simp only [e0, e1, e2, bind_ok, coords_rows3, gen_points3, List.map_cons, List.map_nil]
    rfl

/-- the same in two dimensions (`reshape(2, -1, order="F")` of the `meshgrid` array). -/
theorem gen_uniformGridInit2 (o0 o1 a00 a01 a10 a11 : ℝ) (s0 s1 : Int) (w : String) :
    Gen.CubicInterp.uniformGridInit [o0, o1] [[a00, a01], [a10, a11]] [s0, s1] w =
      if |a00 * a11 - a01 * a10| < 1 / 10 ^ 10 then .error .valueError
      else if s0 ≤ 0 ∨ s1 ≤ 0 then .error .valueError
      else
        (Gen.CubicGrid.chooseWeightScheme [[a00, a01], [a10, a11]] w [s0.toNat, s1.toNat]).bind
          fun W => Gen.CubicInterp.hyperRectangleInit (uniformPoints [o0, o1] [[a00, a01], [a10, a11]] [s0.toNat, s1.toNat]) W [s0, s1] := by
  unfold Gen.CubicInterp.uniformGridInit
  have g1 : ([3, 2].contains [o0, o1].length) = true := rfl
  have g2 : mShapeIs [[a00, a01], [a10, a11]] [o0, o1].length [o0, o1].length = true := by simp [mShapeIs]
  have g3 : ([s0, s1].length != [o0, o1].length) = false := rfl
  have hdet : det [[a00, a01], [a10, a11]] = .ok (a00 * a11 - a01 * a10) := rfl
  have hthr : (((1 : Nat) : ℝ) / ((10000000000 : Nat) : ℝ)) = 1 / 10 ^ 10 := by norm_num
  have hany : ([s0, s1].any fun (s' : Int) => decide (s' ≤ (0 : Int))) = decide (s0 ≤ 0 ∨ s1 ≤ 0) := by
    rw [Bool.eq_iff_iff]; simp
  have hdim : ([o0, o1].length == 3) = false := rfl
  simp only [g1, g2, g3, hdet, hthr, hany, hdim, Bool.not_true, Bool.false_eq_true, if_false, if_true, bind_ok, pure_ok, Elem.abs,
    decide_eq_true_eq]
  split_ifs with hd hs
  · rfl
  · rfl
  · have e0 : optGet ([s0, s1][0]?) = .ok s0 := rfl
    have e1 : optGet ([s0, s1][1]?) = .ok s1 := rfl
    simp only [e0, e1, bind_ok, coords_rows2, gen_points2, List.map_cons, List.map_nil]
    rfl

/-! ### the generated constructor against the hand model -/

theorem ofString_cases (w : String) :
    (w = "Rectangle" ∧ Scheme.ofString w = some .rectangle) ∨ (w = "Trapezoid" ∧ Scheme.ofString w = some .trapezoid) ∨
    (w = "Fourier1" ∧ Scheme.ofString w = some .fourier1) ∨ (w = "Fourier2" ∧ Scheme.ofString w = some .fourier2) ∨
    (w = "Alternative" ∧ Scheme.ofString w = some .alternative) ∨
    ((w ≠ "Rectangle" ∧ w ≠ "Trapezoid" ∧ w ≠ "Fourier1" ∧ w ≠ "Alternative" ∧ w ≠ "Fourier2") ∧ Scheme.ofString w = none) := by
  by_cases h1 : w = "Rectangle"
  · left; subst h1; exact ⟨rfl, rfl⟩
  by_cases h2 : w = "Trapezoid"
  · right; left; subst h2; exact ⟨rfl, rfl⟩
  by_cases h3 : w = "Fourier1"
  · right; right; left; subst h3; exact ⟨rfl, rfl⟩
  by_cases h4 : w = "Fourier2"
  · right; right; right; left; subst h4; exact ⟨rfl, rfl⟩
  by_cases h5 : w = "Alternative"
  · right; right; right; right; left; subst h5; exact ⟨rfl, rfl⟩
  right; right; right; right; right
  refine ⟨⟨h1, h2, h3, h5, h4⟩, ?_⟩
  unfold Scheme.ofString
  split <;> simp_all

/-- the generated `_choose_weight_scheme` on a 3×3 axes matrix and three sizes is the model's `weights` of the scheme of
that name (`ValueError` for any other name). -/
theorem gen_weights_eq_model3 (a00 a01 a02 a10 a11 a12 a20 a21 a22 : ℝ) (n0 n1 n2 : Nat) (w : String) :
    Gen.CubicGrid.chooseWeightScheme [[a00, a01, a02], [a10, a11, a12], [a20, a21, a22]] w [n0, n1, n2]
      = (match Scheme.ofString w with
         | some s => weights [[a00, a01, a02], [a10, a11, a12], [a20, a21, a22]] [n0, n1, n2] s
         | none => .error .valueError) := by
  obtain ⟨d, _, hv⟩ := volume_eq3 a00 a01 a02 a10 a11 a12 a20 a21 a22 n0 n1 n2
  rcases ofString_cases w with ⟨rfl, h⟩ | ⟨rfl, h⟩ | ⟨rfl, h⟩ | ⟨rfl, h⟩ | ⟨rfl, h⟩ | ⟨⟨h1, h2, h3, h4, h5⟩, h⟩
  · rw [h, gen_rectangle _ _ _ hv]
  · rw [h, gen_trapezoid _ _ _ hv]
  · rw [h, gen_fourier1_3d _ _ _ _ _ hv]
  · rw [h, gen_fourier2_3d _ _ _ _ _ hv]
  · rw [h, gen_alternative _ _ _ hv]
  · rw [h, gen_unknown_scheme _ _ _ h1 h2 h3 h4 h5]

theorem weights_length3 (A : List (List ℝ)) (n0 n1 n2 : Nat) (s : Scheme) (W : List ℝ)
    (h : weights A [n0, n1, n2] s = .ok W) : W.length = n0 * n1 * n2 := by
  unfold weights at h
  cases s <;> simp only [altVolume, bind, Except.bind, pure, Except.pure] at h
  all_goals
    cases hv : volume A [n0, n1, n2] with
    | error e => rw [hv] at h; cases h
    | ok V =>
      rw [hv] at h
      have := Except.ok.inj h
      subst this
      simp [numPoints_eq, length_outer, length_fourier1Dir, length_fourier2Dir, Nat.mul_assoc]

theorem length_uniformPoints3 (O : List ℝ) (A : List (List ℝ)) (n0 n1 n2 : Nat) :
    (uniformPoints O A [n0, n1, n2]).length = n0 * n1 * n2 := by
  unfold uniformPoints
  rw [List.length_map, length_allCoords]
  simp [Nat.mul_assoc]

theorem mCols_uniformPoints3 (o0 o1 o2 a00 a01 a02 a10 a11 a12 a20 a21 a22 : ℝ) (n0 n1 n2 : Nat) (h0 : 1 ≤ n0) (h1 : 1 ≤ n1)
    (h2 : 1 ≤ n2) :
    mCols (uniformPoints [o0, o1, o2] [[a00, a01, a02], [a10, a11, a12], [a20, a21, a22]] [n0, n1, n2]) = 3 := by
  have h := allCoords3_getElem? n0 n1 n2 0 0 0 h0 h1 h2
  simp only [Nat.zero_mul, Nat.add_zero] at h
  unfold mCols uniformPoints
  cases hc : allCoords [n0, n1, n2] with
  | nil => rw [hc] at h; cases h
  | cons c t =>
    rw [hc] at h
    have : c = [0, 0, 0] := by simpa using h
    subst this
    simp [pointAt]

/-- the generated `_HyperRectangleGrid.__init__` on the point array and weights `UniformGrid.__init__` hands over
(positive sizes): only the `<= 1.0` guard can fire. -/
theorem hyperRectangleInit_uniform3 (o0 o1 o2 a00 a01 a02 a10 a11 a12 a20 a21 a22 : ℝ) (s0 s1 s2 : Int)
    (p0 : 0 < s0) (p1 : 0 < s1) (p2 : 0 < s2) (W : List ℝ) (hW : W.length = s0.toNat * s1.toNat * s2.toNat) :
    Gen.CubicInterp.hyperRectangleInit
        (uniformPoints [o0, o1, o2] [[a00, a01, a02], [a10, a11, a12], [a20, a21, a22]] [s0.toNat, s1.toNat, s2.toNat]) W [s0, s1, s2]
      = if s0 ≤ 1 ∨ s1 ≤ 1 ∨ s2 ≤ 1 then .error .valueError
        else .ok (uniformPoints [o0, o1, o2] [[a00, a01, a02], [a10, a11, a12], [a20, a21, a22]] [s0.toNat, s1.toNat, s2.toNat], W, [s0, s1, s2]) := by
  rw [gen_hyperRectangleInit_spec]
  have hl : ([s0, s1, s2] : List Int).length = 3 := rfl
  have hex : (∃ s ∈ [s0, s1, s2], s ≤ 1) ↔ (s0 ≤ 1 ∨ s1 ≤ 1 ∨ s2 ≤ 1) := by simp
  have hprod : prodZ [s0, s1, s2]
      = (((uniformPoints [o0, o1, o2] [[a00, a01, a02], [a10, a11, a12], [a20, a21, a22]] [s0.toNat, s1.toNat, s2.toNat]).length : Nat) : Int) := by
    rw [length_uniformPoints3]
    have e0 : ((s0.toNat : Nat) : Int) = s0 := by omega
    have e1 : ((s1.toNat : Nat) : Int) = s1 := by omega
    have e2 : ((s2.toNat : Nat) : Int) = s2 := by omega
    push_cast
    rw [e0, e1, e2]
    simp [prodZ]
  have hcol : mCols (uniformPoints [o0, o1, o2] [[a00, a01, a02], [a10, a11, a12], [a20, a21, a22]] [s0.toNat, s1.toNat, s2.toNat]) = 3 :=
    mCols_uniformPoints3 _ _ _ _ _ _ _ _ _ _ _ _ _ _ _ (by omega) (by omega) (by omega)
  simp only [hl, hex, hprod, hcol, length_uniformPoints3, hW, ne_eq, not_true_eq_false, if_false, Nat.reduceEqDiff, or_true, not_true]

/-- the hand model `Cubic.uniformGrid` in three dimensions, guard by guard. -/
theorem uniformGrid_closed3 (o0 o1 o2 a00 a01 a02 a10 a11 a12 a20 a21 a22 : ℝ) (s0 s1 s2 : Int) (ws : Option Scheme) :
    uniformGrid [o0, o1, o2] [[a00, a01, a02], [a10, a11, a12], [a20, a21, a22]] [s0, s1, s2] ws =
      if |a00 * (a11 * a22 - a12 * a21) - a01 * (a10 * a22 - a12 * a20) + a02 * (a10 * a21 - a11 * a20)| < 1 / 10 ^ 10 then
        .error .valueError
      else if s0 ≤ 0 ∨ s1 ≤ 0 ∨ s2 ≤ 0 then .error .valueError
      else
        (ws.elim (.error .valueError) (weights [[a00, a01, a02], [a10, a11, a12], [a20, a21, a22]] [s0.toNat, s1.toNat, s2.toNat])).bind
          fun W => if s0 ≤ 1 ∨ s1 ≤ 1 ∨ s2 ≤ 1 then .error .valueError
            else .ok (uniformPoints [o0, o1, o2] [[a00, a01, a02], [a10, a11, a12], [a20, a21, a22]] [s0.toNat, s1.toNat, s2.toNat], W) := by
  have hdet : det [[a00, a01, a02], [a10, a11, a12], [a20, a21, a22]]
      = .ok (a00 * (a11 * a22 - a12 * a21) - a01 * (a10 * a22 - a12 * a20) + a02 * (a10 * a21 - a11 * a20)) := rfl
  have hthr : (((1 : Nat) : ℝ) / ((10 ^ 10 : Nat) : ℝ)) = 1 / 10 ^ 10 := by norm_num
  unfold uniformGrid
  rw [← hthr]
  generalize (((1 : Nat) : ℝ) / ((10 ^ 10 : Nat) : ℝ)) = thr
  by_cases hd : |a00 * (a11 * a22 - a12 * a21) - a01 * (a10 * a22 - a12 * a20) + a02 * (a10 * a21 - a11 * a20)| < thr
  · simp [hdet, hd, bind, Except.bind, pure, Except.pure, Elem.abs]
    rfl
  · by_cases hs : s0 ≤ 0 ∨ s1 ≤ 0 ∨ s2 ≤ 0
    · simp [hdet, hd, hs, bind, Except.bind, pure, Except.pure, Elem.abs]
      rfl
    · have hs' : ¬ (s0 ≤ 0) ∧ ¬ (s1 ≤ 0) ∧ ¬ (s2 ≤ 0) := ⟨by omega, by omega, by omega⟩
      cases ws with
      | none =>
        simp [hdet, hd, hs, hs', bind, Except.bind, pure, Except.pure, Elem.abs]
        rfl
      | some sch =>
        cases hW : weights [[a00, a01, a02], [a10, a11, a12], [a20, a21, a22]] [s0.toNat, s1.toNat, s2.toNat] sch with
        | error e =>
          simp [hdet, hd, hs, hs', hW, bind, Except.bind, pure, Except.pure, Elem.abs]
        | ok W =>
          by_cases h1 : s0 ≤ 1 ∨ s1 ≤ 1 ∨ s2 ≤ 1
          · have h1' : s0.toNat ≤ 1 ∨ s1.toNat ≤ 1 ∨ s2.toNat ≤ 1 := by omega
            simp [hdet, hd, hs, hs', hW, h1, bind, Except.bind, pure, Except.pure, Elem.abs]
            rfl
          · have h1' : ¬ (s0.toNat ≤ 1) ∧ ¬ (s1.toNat ≤ 1) ∧ ¬ (s2.toNat ≤ 1) := ⟨by omega, by omega, by omega⟩
            simp [hdet, hd, hs, hs', hW, h1, h1', bind, Except.bind, pure, Except.pure, Elem.abs]

/-- **The generated `UniformGrid.__init__` (through the generated `_HyperRectangleGrid.__init__`) is the hand model
`Cubic.uniformGrid`, 3-D**: same guards in the same order with the same exceptions, the model's point array, the model's
weights of the scheme named by the string — for all origins, axes, (integer) sizes and scheme names. -/
theorem gen_uniformGridInit_eq_model3 (o0 o1 o2 a00 a01 a02 a10 a11 a12 a20 a21 a22 : ℝ) (s0 s1 s2 : Int) (w : String) :
    Gen.CubicInterp.uniformGridInit [o0, o1, o2] [[a00, a01, a02], [a10, a11, a12], [a20, a21, a22]] [s0, s1, s2] w
      = (uniformGrid [o0, o1, o2] [[a00, a01, a02], [a10, a11, a12], [a20, a21, a22]] [s0, s1, s2] (Scheme.ofString w)).map
          fun r => (r.1, r.2, [s0, s1, s2]) := by
  rw [gen_uniformGridInit3, uniformGrid_closed3]
  by_cases hd : |a00 * (a11 * a22 - a12 * a21) - a01 * (a10 * a22 - a12 * a20) + a02 * (a10 * a21 - a11 * a20)| < 1 / 10 ^ 10
  · rw [if_pos hd, if_pos hd]; rfl
  rw [if_neg hd, if_neg hd]
  by_cases hs : s0 ≤ 0 ∨ s1 ≤ 0 ∨ s2 ≤ 0
  · rw [if_pos hs, if_pos hs]; rfl
  rw [if_neg hs, if_neg hs]
  · have p0 : 0 < s0 := by omega
    have p1 : 0 < s1 := by omega
    have p2 : 0 < s2 := by omega
    obtain ⟨dd, _, hv⟩ := volume_eq3 a00 a01 a02 a10 a11 a12 a20 a21 a22 s0.toNat s1.toNat s2.toNat
    have key : ∀ sch, (Gen.CubicGrid.chooseWeightScheme [[a00, a01, a02], [a10, a11, a12], [a20, a21, a22]] w [s0.toNat, s1.toNat, s2.toNat]
          = weights [[a00, a01, a02], [a10, a11, a12], [a20, a21, a22]] [s0.toNat, s1.toNat, s2.toNat] sch) → Scheme.ofString w = some sch →
        ((Gen.CubicGrid.chooseWeightScheme [[a00, a01, a02], [a10, a11, a12], [a20, a21, a22]] w [s0.toNat, s1.toNat, s2.toNat]).bind
            fun W => Gen.CubicInterp.hyperRectangleInit
              (uniformPoints [o0, o1, o2] [[a00, a01, a02], [a10, a11, a12], [a20, a21, a22]] [s0.toNat, s1.toNat, s2.toNat]) W [s0, s1, s2])
          = Except.map (fun r => (r.1, r.2, [s0, s1, s2]))
              (((Scheme.ofString w).elim (.error .valueError)
                  (weights [[a00, a01, a02], [a10, a11, a12], [a20, a21, a22]] [s0.toNat, s1.toNat, s2.toNat])).bind
                fun W => if s0 ≤ 1 ∨ s1 ≤ 1 ∨ s2 ≤ 1 then .error .valueError
                  else .ok (uniformPoints [o0, o1, o2] [[a00, a01, a02], [a10, a11, a12], [a20, a21, a22]] [s0.toNat, s1.toNat, s2.toNat], W)) := by
      intro sch hgen hof
      rw [hgen, hof]
      simp only [Option.elim]
      cases hW : weights [[a00, a01, a02], [a10, a11, a12], [a20, a21, a22]] [s0.toNat, s1.toNat, s2.toNat] sch with
      | error e => rfl
      | ok W =>
        simp only [Except.bind, hyperRectangleInit_uniform3 _ _ _ _ _ _ _ _ _ _ _ _ _ _ _ p0 p1 p2 W (weights_length3 _ _ _ _ _ _ hW)]
        split_ifs <;> rfl
    rcases ofString_cases w with ⟨rfl, h⟩ | ⟨rfl, h⟩ | ⟨rfl, h⟩ | ⟨rfl, h⟩ | ⟨rfl, h⟩ | ⟨⟨h1, h2, h3, h4, h5⟩, h⟩
    · exact key _ (gen_rectangle _ _ _ hv) h
    · exact key _ (gen_trapezoid _ _ _ hv) h
    · exact key _ (gen_fourier1_3d _ _ _ _ _ hv) h
    · exact key _ (gen_fourier2_3d _ _ _ _ _ hv) h
    · exact key _ (gen_alternative _ _ _ hv) h
    · rw [gen_unknown_scheme _ _ _ h1 h2 h3 h4 h5, h]
      rfl

/-- the default values in the signature of `from_molecule`: `spacing=0.2, extension=5.0, rotate=True, weight="Trapezoid"`. -/
theorem gen_from_molecule_defaults :
    (Gen.CubicInterp.fromMoleculeDefaults : ℝ × ℝ × Bool × String) = (1 / 5, 5, true, "Trapezoid") := by
  unfold Gen.CubicInterp.fromMoleculeDefaults
  norm_num

end GridVerif.C13

/-
  C13 (4g) — the *generated* `Tensor1DGrids.__init__` (`Gen/CubicInterp.lean`): `np.vstack(np.meshgrid(..., indexing="ij"))
  .reshape(D, -1).T` is the model's `tensorPoints` (whose layout theorems are `tensor_layout3/2`), `np.kron` the model's
  tensor weights, handed to the generated `_HyperRectangleGrid.__init__`.
-/
import GridVerif.Props.C13.GenCtor

set_option linter.unusedSimpArgs false

namespace GridVerif.C13
open GridVerif GridVerif.Cubic GridVerif.Gen.CubicIndex

theorem unravelC3 (a n1 n2 L : Nat) :
    unravelC [a, n1, n2] L = [L / (n1 * n2), (L % (n1 * n2)) / n2, (L % (n1 * n2)) % n2] := by
  simp [unravelC, numPoints]

theorem unravelC2 (a n1 L : Nat) : unravelC [a, n1] L = [L / n1, L % n1] := by
  simp [unravelC, numPoints]

theorem npTranspose3 {β} (l : List β) (f g h : β → ℝ) :
    npTranspose [l.map f, l.map g, l.map h] = l.map fun c => [f c, g c, h c] := by
  unfold npTranspose column
  simp only [List.headD_cons, List.length_map]
  apply List.ext_getElem (by simp)
  intro n h1 h2
  have hn : n < l.length := by simpa using h1
  simp [List.getElem?_map, List.getElem?_eq_getElem hn]

theorem npTranspose2 {β} (l : List β) (f g : β → ℝ) :
    npTranspose [l.map f, l.map g] = l.map fun c => [f c, g c] := by
  unfold npTranspose column
  simp only [List.headD_cons, List.length_map]
  apply List.ext_getElem (by simp)
  intro n h1 h2
  have hn : n < l.length := by simpa using h1
  simp [List.getElem?_map, List.getElem?_eq_getElem hn]

/-- **`np.vstack(np.meshgrid(x, y, z, indexing="ij")).reshape(3, -1).T` is the tensor product of the node lists** in
lexicographic order (last index fastest), for all node lists. -/
theorem gen_tensor_points3 (x y z : List ℝ) :
    (NdF.reshapeRowsC (npVstackMeshgridIJ [x, y, z]) 3).map npTranspose = .ok (tensorPoints [x, y, z]) := by
  unfold NdF.reshapeRowsC npVstackMeshgridIJ
  simp only [List.length_cons, List.length_nil, List.headD_cons, List.drop_one, List.tail_cons, List.map_cons, List.map_nil]
  have hlen : (tensorPoints [x, y, z]).length = x.length * (y.length * z.length) := by
    rw [length_tensorPoints]; simp
  set n0 := x.length
  set n1 := y.length
  set n2 := z.length
  have hT : numPoints [(0 + 1 + 1 + 1) * n0, n1, n2] = 3 * (n0 * (n1 * n2)) := by simp [numPoints]; ring
  rw [hT]
  have h3 : ¬ ((3 : Nat) = 0 ∨ 3 * (n0 * (n1 * n2)) % 3 ≠ 0) := by simp
  rw [if_neg h3, Nat.mul_div_cancel_left _ (by decide : 0 < 3)]
  simp only [pure, Except.pure, Except.map]
  congr 1
  have r3 : List.range 3 = [0, 1, 2] := by decide
  rw [r3]
  simp only [List.map_cons, List.map_nil, unravelC3]
  -- entry `G d m` of row `d`
  have key : ∀ d, d < 3 → ∀ m ∈ List.range (n0 * (n1 * n2)),
      ([x, y, z].getD ((d * (n0 * (n1 * n2)) + m) / (n1 * n2) / n0) []).getD
          ([(d * (n0 * (n1 * n2)) + m) / (n1 * n2) % n0, (d * (n0 * (n1 * n2)) + m) % (n1 * n2) / n2,
            (d * (n0 * (n1 * n2)) + m) % (n1 * n2) % n2].getD ((d * (n0 * (n1 * n2)) + m) / (n1 * n2) / n0) 0) ((0 : Nat) : ℝ)
        = ([x, y, z].getD d []).getD ([m / (n1 * n2), m % (n1 * n2) / n2, m % (n1 * n2) % n2].getD d 0) 0 := by
    intro d hd m hm
    have hm' : m < n0 * (n1 * n2) := List.mem_range.mp hm
    have hP : 0 < n1 * n2 := by
      rcases Nat.eq_zero_or_pos (n1 * n2) with h | h
      · rw [h] at hm'; simp at hm'
      · exact h
    have hn0 : 0 < n0 := by
      rcases Nat.eq_zero_or_pos n0 with h | h
      · rw [h] at hm'; simp at hm'
      · exact h
    have hi : m / (n1 * n2) < n0 := Nat.div_lt_of_lt_mul (by rw [Nat.mul_comm]; exact hm')
    have e1 : (d * (n0 * (n1 * n2)) + m) / (n1 * n2) = d * n0 + m / (n1 * n2) := by
      rw [show d * (n0 * (n1 * n2)) = (n1 * n2) * (d * n0) by ring, Nat.mul_add_div hP]
    have e2 : (d * (n0 * (n1 * n2)) + m) % (n1 * n2) = m % (n1 * n2) := by
      rw [show d * (n0 * (n1 * n2)) = (n1 * n2) * (d * n0) by ring, Nat.mul_add_mod]
    have e3 : (d * n0 + m / (n1 * n2)) / n0 = d := by
      rw [show d * n0 = n0 * d by ring, Nat.mul_add_div hn0, Nat.div_eq_of_lt hi]; simp
    have e4 : (d * n0 + m / (n1 * n2)) % n0 = m / (n1 * n2) := by
      rw [show d * n0 = n0 * d by ring, Nat.mul_add_mod, Nat.mod_eq_of_lt hi]
    rw [e1, e2, e3, e4]
    simp
  rw [List.map_congr_left (key 0 (by decide)), List.map_congr_left (key 1 (by decide)), List.map_congr_left (key 2 (by decide))]
  rw [npTranspose3]
  -- against the model's tensor product, entry by entry
  apply List.ext_getElem?
  intro n
  by_cases hn : n < n0 * (n1 * n2)
  · have hP : 0 < n1 * n2 := by
      rcases Nat.eq_zero_or_pos (n1 * n2) with h | h
      · rw [h] at hn; simp at hn
      · exact h
    have hn2 : 0 < n2 := Nat.pos_of_mul_pos_left hP |> fun _ => by
      rcases Nat.eq_zero_or_pos n2 with h | h
      · rw [h] at hP; simp at hP
      · exact h
    have hi : n / (n1 * n2) < n0 := Nat.div_lt_of_lt_mul (by rw [Nat.mul_comm]; exact hn)
    have hj : n % (n1 * n2) / n2 < n1 := Nat.div_lt_of_lt_mul (by rw [Nat.mul_comm n2 n1]; exact Nat.mod_lt _ hP)
    have hk : n % (n1 * n2) % n2 < n2 := Nat.mod_lt _ hn2
    have hdecomp : n = n / (n1 * n2) * (n1 * n2) + n % (n1 * n2) / n2 * n2 + n % (n1 * n2) % n2 := by
      have a := Nat.div_add_mod n (n1 * n2)
      have b := Nat.div_add_mod (n % (n1 * n2)) n2
      rw [Nat.mul_comm (n1 * n2), Nat.mul_comm n2] at *
      omega
    rw [List.getElem?_map, List.getElem?_range hn]
    conv_rhs => rw [hdecomp]
    rw [tensorPoints3_getElem? x y z _ _ _ hi hj hk]
    simp
  · rw [List.getElem?_eq_none (by simp; omega), List.getElem?_eq_none (by rw [hlen]; omega)]

theorem tensorPoints2_getElem? (xs ys : List ℝ) (i j : Nat) (hi : i < xs.length) (hj : j < ys.length) :
    (tensorPoints [xs, ys])[i * ys.length + j]? = some [xs.getD i 0, ys.getD j 0] := by
  obtain ⟨idx, h1, h2⟩ := tensor_layout2 xs ys i j hi hj 0
  rw [c2i2] at h1
  have : (idx : Int) = ((i * ys.length + j : Nat) : Int) := by
    have := Except.ok.inj h1; push_cast; linarith
  have : idx = i * ys.length + j := by exact_mod_cast this
  rw [← this, h2, getD_of_lt _ _ hi, getD_of_lt _ _ hj]

/-- the same in two dimensions: `np.vstack(np.meshgrid(x, y, indexing="ij")).reshape(2, -1).T`. -/
theorem gen_tensor_points2 (x y : List ℝ) :
    (NdF.reshapeRowsC (npVstackMeshgridIJ [x, y]) 2).map npTranspose = .ok (tensorPoints [x, y]) := by
  unfold NdF.reshapeRowsC npVstackMeshgridIJ
  simp only [List.length_cons, List.length_nil, List.headD_cons, List.drop_one, List.tail_cons, List.map_cons, List.map_nil]
  have hlen : (tensorPoints [x, y]).length = x.length * y.length := by
    rw [length_tensorPoints]; simp
  set n0 := x.length
  set n1 := y.length
  have hT : numPoints [(0 + 1 + 1) * n0, n1] = 2 * (n0 * n1) := by simp [numPoints]; ring
  rw [hT]
  have h2 : ¬ ((2 : Nat) = 0 ∨ 2 * (n0 * n1) % 2 ≠ 0) := by simp
  rw [if_neg h2, Nat.mul_div_cancel_left _ (by decide : 0 < 2)]
  simp only [pure, Except.pure, Except.map]
  congr 1
  have r2 : List.range 2 = [0, 1] := by decide
  rw [r2]
  simp only [List.map_cons, List.map_nil, unravelC2]
  have key : ∀ d, d < 2 → ∀ m ∈ List.range (n0 * n1),
      ([x, y].getD ((d * (n0 * n1) + m) / n1 / n0) []).getD
          ([(d * (n0 * n1) + m) / n1 % n0, (d * (n0 * n1) + m) % n1].getD ((d * (n0 * n1) + m) / n1 / n0) 0) ((0 : Nat) : ℝ)
        = ([x, y].getD d []).getD ([m / n1, m % n1].getD d 0) 0 := by
    intro d hd m hm
    have hm' : m < n0 * n1 := List.mem_range.mp hm
    have hP : 0 < n1 := by
      rcases Nat.eq_zero_or_pos n1 with h | h
      · rw [h] at hm'; simp at hm'
      · exact h
    have hn0 : 0 < n0 := by
      rcases Nat.eq_zero_or_pos n0 with h | h
      · rw [h] at hm'; simp at hm'
      · exact h
    have hi : m / n1 < n0 := Nat.div_lt_of_lt_mul (by rw [Nat.mul_comm]; exact hm')
    have e1 : (d * (n0 * n1) + m) / n1 = d * n0 + m / n1 := by
      rw [show d * (n0 * n1) = n1 * (d * n0) by ring, Nat.mul_add_div hP]
    have e2 : (d * (n0 * n1) + m) % n1 = m % n1 := by
      rw [show d * (n0 * n1) = n1 * (d * n0) by ring, Nat.mul_add_mod]
    have e3 : (d * n0 + m / n1) / n0 = d := by
      rw [show d * n0 = n0 * d by ring, Nat.mul_add_div hn0, Nat.div_eq_of_lt hi]; simp
    have e4 : (d * n0 + m / n1) % n0 = m / n1 := by
      rw [show d * n0 = n0 * d by ring, Nat.mul_add_mod, Nat.mod_eq_of_lt hi]
    rw [e1, e2, e3, e4]
    simp
  rw [List.map_congr_left (key 0 (by decide)), List.map_congr_left (key 1 (by decide))]
  rw [npTranspose2]
  apply List.ext_getElem?
  intro n
  by_cases hn : n < n0 * n1
  · have hP : 0 < n1 := by
      rcases Nat.eq_zero_or_pos n1 with h | h
      · rw [h] at hn; simp at hn
      · exact h
    have hi : n / n1 < n0 := Nat.div_lt_of_lt_mul (by rw [Nat.mul_comm]; exact hn)
    have hj : n % n1 < n1 := Nat.mod_lt _ hP
    have hdecomp : n = n / n1 * n1 + n % n1 := by
      have a := Nat.div_add_mod n n1
      rw [Nat.mul_comm] at a
      omega
    rw [List.getElem?_map, List.getElem?_range hn]
    conv_rhs => rw [hdecomp]
    rw [tensorPoints2_getElem? x y _ _ hi hj]
    simp
  · rw [List.getElem?_eq_none (by simp; omega), List.getElem?_eq_none (by rw [hlen]; omega)]

/-- **The generated `Tensor1DGrids.__init__` hands the model's tensor grid to the generated `_HyperRectangleGrid.__init__`**:
points `Cubic.tensorPoints` (lexicographic tensor product of the 1-D nodes, `tensor_layout3/2`), weights
`kron(kron(w_x, w_y), w_z)` resp. `kron(w_x, w_y)` (`Cubic.tensorWeights`, `tensor_weight3/2`), shape the three / two
sizes — for all 1-D grids (a `OneDGrid` is its pair of points and weights). -/
theorem gen_tensor1DInit_eq_model (gx gy gz : List ℝ × List ℝ) :
    Gen.CubicInterp.tensor1DInit gx gy (some gz)
      = Gen.CubicInterp.hyperRectangleInit (tensorPoints [gx.1, gy.1, gz.1]) (kron (kron gx.2 gy.2) gz.2)
          [((gx.2.length : Nat) : Int), ((gy.2.length : Nat) : Int), ((gz.2.length : Nat) : Int)] ∧
    Gen.CubicInterp.tensor1DInit gx gy none
      = Gen.CubicInterp.hyperRectangleInit (tensorPoints [gx.1, gy.1]) (kron gx.2 gy.2)
          [((gx.2.length : Nat) : Int), ((gy.2.length : Nat) : Int)] := by
  constructor
  · unfold Gen.CubicInterp.tensor1DInit
    have h3 := gen_tensor_points3 gx.1 gy.1 gz.1
    cases hr : NdF.reshapeRowsC (npVstackMeshgridIJ [gx.1, gy.1, gz.1]) 3 with
    | error e => rw [hr] at h3; cases h3
    | ok rows =>
      rw [hr] at h3
      have hp : npTranspose rows = tensorPoints [gx.1, gy.1, gz.1] := Except.ok.inj h3
      simp only [Bool.not_true, Bool.false_eq_true, if_false, Option.isSome_some, if_true, Option.getD_some, hr, bind_ok, pure_ok, hp]
  · unfold Gen.CubicInterp.tensor1DInit
    have h2 := gen_tensor_points2 gx.1 gy.1
    cases hr : NdF.reshapeRowsC (npVstackMeshgridIJ [gx.1, gy.1]) 2 with
    | error e => rw [hr] at h2; cases h2
    | ok rows =>
      rw [hr] at h2
      have hp : npTranspose rows = tensorPoints [gx.1, gy.1] := Except.ok.inj h2
      simp only [Bool.not_true, Bool.false_eq_true, if_false, Option.isSome_none, hr, bind_ok, pure_ok, hp]

/-- `Tensor1DGrids.origin` is the first row of the point array (`IndexError` for an empty grid). -/
theorem gen_tensorOrigin (r : List ℝ) (rest : List (List ℝ)) : Gen.CubicInterp.tensorOrigin (r :: rest) = .ok r := rfl

end GridVerif.C13

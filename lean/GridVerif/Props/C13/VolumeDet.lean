/-
  C13 (2c) — the volume clause stated directly over the *generated* `_calculate_volume` and
  `_choose_weight_scheme` (`Gen/CubicGrid.lean`), with no hypothesis about the hand model:
  the volume is `|det axes| · Π sᵢ` for *every* (skewed) axes matrix, and the Rectangle / Trapezoid /
  Alternative weights sum to `|det axes| · Π sᵢ` times their closed-form factor.
  (Stored seeded change C13-g computes `|a × b| · |c|` instead of the triple product: these statements
  are false for it — `gen_volume_skew_witness` is the smallest instance, `√2` instead of `1`.)
-/
import GridVerif.Props.C13.Weights
import GridVerif.Gen.CubicGrid
import GridVerif.Model.CubicNp

set_option linter.unusedSimpArgs false

namespace GridVerif.C13
open GridVerif GridVerif.Cubic GridVerif.Gen.CubicGrid

/-- `det axes` of a 3×3 matrix (cofactor expansion along the first row). -/
def det3 (a00 a01 a02 a10 a11 a12 a20 a21 a22 : ℝ) : ℝ :=
  a00 * (a11 * a22 - a12 * a21) - a01 * (a10 * a22 - a12 * a20) + a02 * (a10 * a21 - a11 * a20)

/-- **Volume clause, generated code, 3-D**: `_calculate_volume(shape)` is `|det axes| · s₀ s₁ s₂` for every axes matrix,
orthogonal or skewed (proved from the generated text: `np.cross`, `np.dot`, `np.abs`). -/
theorem gen_volume_is_det3 (a00 a01 a02 a10 a11 a12 a20 a21 a22 : ℝ) (s0 s1 s2 : Nat) :
    calculateVolume [[a00, a01, a02], [a10, a11, a12], [a20, a21, a22]] [s0, s1, s2]
      = .ok (|det3 a00 a01 a02 a10 a11 a12 a20 a21 a22| * ((s0 : ℝ) * s1 * s2)) := by
  simp only [calculateVolume, nGet, mRow, npCross, npDotVV, sumK_eq_sum, bind, Except.bind, pure, Except.pure, Elem.abs, det3]
  simp
  have h : (0 : ℝ) ≤ (s0 : ℝ) * s1 * s2 := by positivity
  rw [← abs_of_nonneg h, ← abs_mul]
  congr 1; ring

/-- **Volume clause, generated code, 2-D**: `|a₀₀ a₁₁ − a₀₁ a₁₀| · s₀ s₁`. -/
theorem gen_volume_is_det2 (a00 a01 a10 a11 : ℝ) (s0 s1 : Nat) :
    calculateVolume [[a00, a01], [a10, a11]] [s0, s1] = .ok (|a00 * a11 - a01 * a10| * ((s0 : ℝ) * s1)) := by
  simp only [calculateVolume, nGet, mRow, det, bind, Except.bind, pure, Except.pure, Elem.abs]
  simp
  have h : (0 : ℝ) ≤ (s0 : ℝ) * s1 := by positivity
  rw [← abs_of_nonneg h, ← abs_mul]
  congr 1; ring

/-- the smallest skewed instance: axes `(1,0,0), (0,1,0), (1,0,1)` span a cell of volume `1` (not `|a × b| · |c| = √2`). -/
theorem gen_volume_skew_witness :
    calculateVolume ([[1, 0, 0], [0, 1, 0], [1, 0, 1]] : List (List ℝ)) [1, 1, 1] = .ok 1 := by
  rw [gen_volume_is_det3]
  norm_num [det3]

end GridVerif.C13

/-
  C13 (2d) — the weight sums of the *generated* `_choose_weight_scheme` with the determinant of the axes on the right-hand
  side (no hypothesis about a model volume), every skewed axes matrix, 3-D.
-/
import GridVerif.Props.C13.VolumeDet
import GridVerif.Props.C13.GenWeights

set_option linter.unusedSimpArgs false

namespace GridVerif.C13
open GridVerif GridVerif.Cubic GridVerif.Gen.CubicGrid

/-- **Weights sum to the volume of the box (generated code, every skewed axes, 3-D)**: Rectangle sums to `|det axes| · Π sᵢ`,
Trapezoid to that times `Π sᵢ/(sᵢ+1)`, Alternative to that times `Π (sᵢ−1)/sᵢ` — with the determinant, not a model volume,
on the right-hand side. -/
theorem weights_sum_det_gen3 (a00 a01 a02 a10 a11 a12 a20 a21 a22 : ℝ) (s0 s1 s2 : Nat) (h0 : 1 ≤ s0) (h1 : 1 ≤ s1) (h2 : 1 ≤ s2) :
    let A : List (List ℝ) := [[a00, a01, a02], [a10, a11, a12], [a20, a21, a22]]
    let V : ℝ := |det3 a00 a01 a02 a10 a11 a12 a20 a21 a22| * ((s0 : ℝ) * s1 * s2)
    (∃ W, chooseWeightScheme A "Rectangle" [s0, s1, s2] = .ok W ∧ W.length = s0 * s1 * s2 ∧ W.sum = V) ∧
    (∃ W, chooseWeightScheme A "Trapezoid" [s0, s1, s2] = .ok W ∧ W.length = s0 * s1 * s2 ∧
      W.sum = V * (((s0 : ℝ) / (s0 + 1)) * ((s1 : ℝ) / (s1 + 1)) * ((s2 : ℝ) / (s2 + 1)))) ∧
    (∃ W, chooseWeightScheme A "Alternative" [s0, s1, s2] = .ok W ∧ W.length = s0 * s1 * s2 ∧
      W.sum = V * ((((s0 : ℝ) - 1) / s0) * (((s1 : ℝ) - 1) / s1) * (((s2 : ℝ) - 1) / s2))) := by
  intro A V
  obtain ⟨d, hd, hv⟩ := volume_eq3 a00 a01 a02 a10 a11 a12 a20 a21 a22 s0 s1 s2
  have hdd : d = det3 a00 a01 a02 a10 a11 a12 a20 a21 a22 := (Except.ok.inj hd).symm
  have hgen : calculateVolume A [s0, s1, s2] = .ok V := gen_volume_is_det3 ..
  have hM : volume A [s0, s1, s2] = .ok V := by rw [hv, hdd]
  have hs : ∀ s ∈ [s0, s1, s2], 1 ≤ s := by
    intro s hs; simp at hs; rcases hs with rfl | rfl | rfl <;> assumption
  refine ⟨?_, ?_, ?_⟩
  · obtain ⟨W, hW, hl, hsum⟩ := rectangle_sum_gen A [s0, s1, s2] V hM hs
    exact ⟨W, hW, by simpa [Nat.mul_assoc] using hl, hsum⟩
  · obtain ⟨W, hW, hl, hsum⟩ := trapezoid_sum_gen A [s0, s1, s2] V hM
    exact ⟨W, hW, by simpa [Nat.mul_assoc] using hl, by rw [hsum]; simp only [List.map_cons, List.map_nil, List.prod_cons, List.prod_nil]; ring⟩
  · obtain ⟨W, hW, hl, hsum⟩ := alternative_sum_gen A [s0, s1, s2] V hM hs
    exact ⟨W, hW, by simpa [Nat.mul_assoc] using hl, by rw [hsum]; simp only [List.map_cons, List.map_nil, List.prod_cons, List.prod_nil]; ring⟩

/-- the hypotheses are met by a skewed, non-cubic grid: axes `(1,0,0), (0.5,1,0), (1,0.25,2)`, shape `(2,3,4)`: the 24 Rectangle
weights sum to `|det| · 24 = 48`. -/
example : ∃ W, chooseWeightScheme ([[1, 0, 0], [1 / 2, 1, 0], [1, 1 / 4, 2]] : List (List ℝ)) "Rectangle" [2, 3, 4] = .ok W ∧
    W.length = 24 ∧ W.sum = 48 := by
  obtain ⟨W, hW, hl, hs⟩ := (weights_sum_det_gen3 1 0 0 (1 / 2) 1 0 1 (1 / 4) 2 2 3 4 (by decide) (by decide) (by decide)).1
  refine ⟨W, hW, hl, ?_⟩
  rw [hs]; norm_num [det3]

end GridVerif.C13

/-
  C13 (4/4) — interpolation algebra.

  * `nested_interp_exact`: a 1-D interpolation operator that is exact on cubics (function *and*
    derivatives — the contract of SciPy's not-a-knot `CubicSpline` on ≥ 4 increasing nodes, which is a
    hypothesis here, DESIGN 3) nested along z, then y, then x reproduces every polynomial of degree ≤ 3
    in each variable and all its partial derivatives, at every query point.
  * `tensor_cubic_partial_derivs`: the formal derivative used in the statement is the derivative.
  * `log_chain_rule`: the Bell-polynomial formula of the logarithmic variant, orders 1–3.

  The nesting is `nestedInterp`; that the code's index/slice bookkeeping (`Cubic.interpCubic`, nodes
  `1 … s−3` of every axis) computes exactly this nesting is `InterpModel.interp_cubic_eq_nested`; the
  model itself is tied to the implementation by the differential runs, including the check that exactly
  those function values are read.
-/
import GridVerif.Lemmas.Cubic
import Mathlib.Analysis.SpecialFunctions.ExpDeriv
import Mathlib.Analysis.Calculus.Deriv.Pow
import Mathlib.Algebra.BigOperators.Fin

namespace GridVerif.C13
open GridVerif GridVerif.Cubic

/-- `dⁿ/dxⁿ xᵃ = a(a−1)…(a−n+1) · x^(a−n)` (zero for `n > a`). -/
noncomputable def monoD (a n : ℕ) (x : ℝ) : ℝ := (Nat.descFactorial a n : ℝ) * x ^ (a - n)

/-- `n`-th derivative of the cubic `Σ_{a≤3} c_a xᵃ`. -/
noncomputable def cubicEval (c : Fin 4 → ℝ) (n : ℕ) (x : ℝ) : ℝ := ∑ a : Fin 4, c a * monoD a n x

/-- mixed partial derivative `∂ˣ^n₁ ∂ʸ^n₂ ∂ᶻ^n₃` of `Σ C_abc xᵃ yᵇ zᶜ` (degree ≤ 3 in each variable). -/
noncomputable def tensorEval (C : Fin 4 → Fin 4 → Fin 4 → ℝ) (n1 n2 n3 : ℕ) (x y z : ℝ) : ℝ :=
  ∑ a : Fin 4, ∑ b : Fin 4, ∑ c : Fin 4, C a b c * monoD a n1 x * monoD b n2 y * monoD c n3 z

/-- Contract of the 1-D operator on a node list: exact on cubics, values and derivatives, at every
query point (SciPy: `CubicSpline(nodes, values)(x, nu)`, not-a-knot, extrapolating). -/
def ExactOnCubics (I : Interp1 ℝ) (nodes : List ℝ) : Prop :=
  ∀ (c : Fin 4 → ℝ) (n : ℕ) (x : ℝ), I nodes (nodes.map (cubicEval c 0)) n x = cubicEval c n x

/-- The nesting of `interpolate(method="cubic")`: for every x-node a spline in y whose data are, for
every y-node, a spline in z. -/
def nestedInterp (I : Interp1 ℝ) (xn yn zn : List ℝ) (f : ℝ → ℝ → ℝ → ℝ) (n1 n2 n3 : ℕ) (x y z : ℝ) : ℝ :=
  I xn (xn.map fun xi => I yn (yn.map fun yj => I zn (zn.map fun zk => f xi yj zk) n3 z) n2 y) n1 x

theorem monoD_hasDerivAt (a n : ℕ) (x : ℝ) : HasDerivAt (monoD a n) (monoD a (n + 1) x) x := by
  unfold monoD
  have h := (hasDerivAt_pow (a - n) x).const_mul (Nat.descFactorial a n : ℝ)
  refine h.congr_deriv ?_
  rw [Nat.descFactorial_succ, show a - (n + 1) = a - n - 1 by omega]
  push_cast
  ring

theorem cubicEval_hasDerivAt (c : Fin 4 → ℝ) (n : ℕ) (x : ℝ) :
    HasDerivAt (cubicEval c n) (cubicEval c (n + 1) x) x := by
  unfold cubicEval
  simp only [Fin.sum_univ_four]
  exact ((((monoD_hasDerivAt _ n x).const_mul (c 0)).add ((monoD_hasDerivAt _ n x).const_mul (c 1))).add
    ((monoD_hasDerivAt _ n x).const_mul (c 2))).add ((monoD_hasDerivAt _ n x).const_mul (c 3))

theorem tensorEval_as_z (C : Fin 4 → Fin 4 → Fin 4 → ℝ) (n1 n2 n3 : ℕ) (x y z : ℝ) :
    tensorEval C n1 n2 n3 x y z
      = cubicEval (fun c => ∑ a : Fin 4, ∑ b : Fin 4, C a b c * monoD a n1 x * monoD b n2 y) n3 z := by
  simp only [tensorEval, cubicEval, Fin.sum_univ_four]; ring

theorem tensorEval_as_y (C : Fin 4 → Fin 4 → Fin 4 → ℝ) (n1 n2 n3 : ℕ) (x y z : ℝ) :
    tensorEval C n1 n2 n3 x y z
      = cubicEval (fun b => ∑ a : Fin 4, ∑ c : Fin 4, C a b c * monoD a n1 x * monoD c n3 z) n2 y := by
  simp only [tensorEval, cubicEval, Fin.sum_univ_four]; ring

theorem tensorEval_as_x (C : Fin 4 → Fin 4 → Fin 4 → ℝ) (n1 n2 n3 : ℕ) (x y z : ℝ) :
    tensorEval C n1 n2 n3 x y z
      = cubicEval (fun a => ∑ b : Fin 4, ∑ c : Fin 4, C a b c * monoD b n2 y * monoD c n3 z) n1 x := by
  simp only [tensorEval, cubicEval, Fin.sum_univ_four]; ring

/-- **Nested interpolation is exact on tensor-cubic polynomials, with all partial derivatives**:
for every operator `I` that is exact on cubics on the three node lists, every coefficient array,
every derivative orders `(n₁,n₂,n₃)` and every query point. -/
theorem nested_interp_exact (I : Interp1 ℝ) (xn yn zn : List ℝ)
    (hx : ExactOnCubics I xn) (hy : ExactOnCubics I yn) (hz : ExactOnCubics I zn)
    (C : Fin 4 → Fin 4 → Fin 4 → ℝ) (n1 n2 n3 : ℕ) (x y z : ℝ) :
    nestedInterp I xn yn zn (tensorEval C 0 0 0) n1 n2 n3 x y z = tensorEval C n1 n2 n3 x y z := by
  unfold nestedInterp
  -- z: for fixed (xi, yj) the data are a cubic in z
  have ez : ∀ xi yj, I zn (zn.map fun zk => tensorEval C 0 0 0 xi yj zk) n3 z = tensorEval C 0 0 n3 xi yj z := by
    intro xi yj
    have : (fun zk => tensorEval C 0 0 0 xi yj zk)
        = cubicEval (fun c => ∑ a : Fin 4, ∑ b : Fin 4, C a b c * monoD a 0 xi * monoD b 0 yj) 0 := by
      funext zk; exact tensorEval_as_z C 0 0 0 xi yj zk
    rw [this, hz, ← tensorEval_as_z]
  simp only [ez]
  -- y
  have ey : ∀ xi, I yn (yn.map fun yj => tensorEval C 0 0 n3 xi yj z) n2 y = tensorEval C 0 n2 n3 xi y z := by
    intro xi
    have : (fun yj => tensorEval C 0 0 n3 xi yj z)
        = cubicEval (fun b => ∑ a : Fin 4, ∑ c : Fin 4, C a b c * monoD a 0 xi * monoD c n3 z) 0 := by
      funext yj; exact tensorEval_as_y C 0 0 n3 xi yj z
    rw [this, hy, ← tensorEval_as_y]
  simp only [ey]
  -- x
  have : (fun xi => tensorEval C 0 n2 n3 xi y z)
      = cubicEval (fun a => ∑ b : Fin 4, ∑ c : Fin 4, C a b c * monoD b n2 y * monoD c n3 z) 0 := by
    funext xi; exact tensorEval_as_x C 0 n2 n3 xi y z
  rw [this, hx, ← tensorEval_as_x]

/-- `tensorEval C n₁ n₂ n₃` is the mixed partial derivative: raising one order is differentiating in
that variable (and `tensorEval C 0 0 0 x y z = Σ C_abc xᵃ yᵇ zᶜ`). -/
theorem tensor_cubic_partial_derivs (C : Fin 4 → Fin 4 → Fin 4 → ℝ) (n1 n2 n3 : ℕ) (x y z : ℝ) :
    HasDerivAt (fun t => tensorEval C n1 n2 n3 t y z) (tensorEval C (n1 + 1) n2 n3 x y z) x ∧
    HasDerivAt (fun t => tensorEval C n1 n2 n3 x t z) (tensorEval C n1 (n2 + 1) n3 x y z) y ∧
    HasDerivAt (fun t => tensorEval C n1 n2 n3 x y t) (tensorEval C n1 n2 (n3 + 1) x y z) z ∧
    tensorEval C 0 0 0 x y z = ∑ a : Fin 4, ∑ b : Fin 4, ∑ c : Fin 4, C a b c * x ^ a.val * y ^ b.val * z ^ c.val := by
  refine ⟨?_, ?_, ?_, ?_⟩
  · have : (fun t => tensorEval C n1 n2 n3 t y z)
        = cubicEval (fun a => ∑ b : Fin 4, ∑ c : Fin 4, C a b c * monoD b n2 y * monoD c n3 z) n1 := by
      funext t; exact tensorEval_as_x C n1 n2 n3 t y z
    rw [this, tensorEval_as_x]; exact cubicEval_hasDerivAt _ _ _
  · have : (fun t => tensorEval C n1 n2 n3 x t z)
        = cubicEval (fun b => ∑ a : Fin 4, ∑ c : Fin 4, C a b c * monoD a n1 x * monoD c n3 z) n2 := by
      funext t; exact tensorEval_as_y C n1 n2 n3 x t z
    rw [this, tensorEval_as_y]; exact cubicEval_hasDerivAt _ _ _
  · have : (fun t => tensorEval C n1 n2 n3 x y t)
        = cubicEval (fun c => ∑ a : Fin 4, ∑ b : Fin 4, C a b c * monoD a n1 x * monoD b n2 y) n3 := by
      funext t; exact tensorEval_as_z C n1 n2 n3 x y t
    rw [this, tensorEval_as_z]; exact cubicEval_hasDerivAt _ _ _
  · simp [tensorEval, monoD]

/-- Non-vacuity of the contract: on the nodes `[0,1,2,3]` the operator "Newton polynomial through the
four data values, differentiated `n` times" satisfies `ExactOnCubics`. -/
example : ∃ I : Interp1 ℝ, ExactOnCubics I [0, 1, 2, 3] := by
  -- Newton form through the nodes 0,1,2,3 (divided differences d0..d3), differentiated n times
  refine ⟨fun _ v n x =>
    match v with
    | [v0, v1, v2, v3] =>
      let d1 := v1 - v0; let d2 := (v2 - 2 * v1 + v0) / 2; let d3 := (v3 - 3 * v2 + 3 * v1 - v0) / 6
      -- p(t) = v0 + d1 t + d2 t(t-1) + d3 t(t-1)(t-2) in monomials
      cubicEval ![v0, d1 - d2 + 2 * d3, d2 - 3 * d3, d3] n x
    | _ => 0, ?_⟩
  intro c n x
  simp only [List.map_cons, List.map_nil]
  congr 1
  funext a
  fin_cases a <;> simp [cubicEval, monoD, Fin.sum_univ_four] <;> ring

/-- **Chain rule of the logarithmic variant** (orders 1, 2, 3): with `g = log f` and its derivatives
`g₁, g₂, g₃`, the `k`-th derivative of `f = exp ∘ g` is `f · B_k(g₁,…,g_k)` where `B_k` is the complete
Bell polynomial computed by `Cubic.completeBell` (the sum over `bell(k, i, ·)` in the code). -/
theorem log_chain_rule (g g1 g2 g3 : ℝ → ℝ) (h1 : ∀ t, HasDerivAt g (g1 t) t)
    (h2 : ∀ t, HasDerivAt g1 (g2 t) t) (h3 : ∀ t, HasDerivAt g2 (g3 t) t) (x : ℝ) :
    let B : ℕ → ℝ → ℝ := fun k t => completeBell (fun i => match i with | 1 => g1 t | 2 => g2 t | 3 => g3 t | _ => 0) k
    (∀ t, B 1 t = g1 t) ∧ (∀ t, B 2 t = g1 t ^ 2 + g2 t) ∧ (∀ t, B 3 t = g1 t ^ 3 + 3 * g1 t * g2 t + g3 t) ∧
    HasDerivAt (fun t => Real.exp (g t)) (Real.exp (g x) * B 1 x) x ∧
    HasDerivAt (fun t => Real.exp (g t) * B 1 t) (Real.exp (g x) * B 2 x) x ∧
    HasDerivAt (fun t => Real.exp (g t) * B 2 t) (Real.exp (g x) * B 3 x) x := by
  intro B
  have b1 : ∀ t, B 1 t = g1 t := by
    intro t; simp [B, completeBell, bellTable, choose, List.range_succ, sumK_eq_sum]
  have b2 : ∀ t, B 2 t = g1 t ^ 2 + g2 t := by
    intro t; simp [B, completeBell, bellTable, choose, List.range_succ, sumK_eq_sum]; ring
  have b3 : ∀ t, B 3 t = g1 t ^ 3 + 3 * g1 t * g2 t + g3 t := by
    intro t; simp [B, completeBell, bellTable, choose, List.range_succ, sumK_eq_sum]; ring
  have e0 : HasDerivAt (fun t => Real.exp (g t)) (Real.exp (g x) * g1 x) x := (h1 x).exp
  refine ⟨b1, b2, b3, ?_, ?_, ?_⟩
  · rw [b1]; exact e0
  · have : (fun t => Real.exp (g t) * B 1 t) = fun t => Real.exp (g t) * g1 t := by funext t; rw [b1]
    rw [this, b2]
    refine (e0.mul (h2 x)).congr_deriv ?_
    ring
  · have : (fun t => Real.exp (g t) * B 2 t) = fun t => Real.exp (g t) * (g1 t ^ 2 + g2 t) := by
      funext t; rw [b2]
    rw [this, b3]
    refine (e0.mul (((h2 x).pow 2).add (h3 x))).congr_deriv ?_
    simp only [Nat.cast_ofNat, Pi.add_apply, Pi.pow_apply]
    ring

end GridVerif.C13

/-
  C10 — the ball is **closed** (round 6): "exactly those parent points whose distance to the
  centre is at most the radius".  Stated over the *generated* `Grid_get_localgrid`
  (`Gen/LocalGrid.lean`): a point whose distance equals the radius — radius 0 at a grid point, a
  3-4-5 distance — belongs to the local grid.  (A rewrite that scans small grids with
  `np.flatnonzero(dists < radius)` is carried by the translator, `npFlatnonzeroLt`, and makes
  these statements false.)
-/
import GridVerif.Props.C10.Gen

set_option linter.unusedSectionVars false

namespace GridVerif.C10
open GridVerif.LocalGrid GridVerif.LocalGridPy GridVerif.LocalGridGen GridVerif.Gen.LocalGrid

section general
variable {K : Type} [Add K] [Sub K] [Mul K] [Div K] [Neg K] [NatCast K] [IntCast K] [Elem K]
variable [Periodic.FloorCeil K] [LE K] [DecidableLE K] [LT K] [DecidableLT K]

/-- (closed ball, generated text) In every state satisfying the invariant, for an accepted centre
and a non-negative finite radius, the generated `get_localgrid` returns a local grid, and **every
current point whose squared distance equals `r²` is in it** (as is every point strictly inside);
`hrefl` is the reflexivity of `≤` on the carrier (true for ℝ, for floats without NaN, for ℤ). -/
theorem gen_boundary_point_included (hrefl : ∀ x : K, x ≤ x) (s : State K) (h : Inv s)
    (c : Centre K) (c' : Point K) (hc : centreOf s c = some c') (r : K)
    (hr : ¬ r < ((0 : Nat) : K)) (hn : s.weights.length ≠ 0)
    (i : Nat) (p : Point K) (hp : s.points[i]? = some p) (hb : dist2 p c' = r * r) :
    ∃ s' idx lp lw, Grid_get_localgrid s c (.fin r) = some (s', .localGrid idx lp lw) ∧ i ∈ idx := by
  obtain ⟨_, hcor⟩ := query_spec s h c c' hc r hr hn
  obtain ⟨idx, lp, lw, hq, _, _, hmem, _⟩ := hcor
  refine ⟨(step s (.query c (.fin r))).1, idx, lp, lw, ?_, ?_⟩
  · rw [gen_query_eq s c (.fin r)]
    simp only [step]
    rw [show (query s c (.fin r)) = ((query s c (.fin r)).1, (query s c (.fin r)).2) from rfl, hq]
  · exact (hmem i).mpr ⟨p, hp, by unfold inBall; rw [hb]; exact hrefl _⟩

end general

/-! ### Concrete boundary cases, evaluated on the generated definition (`K = Int`) -/

/-- three points at distances 5, 0, 10 from the origin -/
def exBoundary : Except Err (State Int) :=
  init .grid false 2 [[3, 4], [0, 0], [6, 8]] none [10, 20, 30] none

/-- (3-4-5) radius 5 reaches the point (3, 4) at distance exactly 5; radius 10 reaches (6, 8). -/
theorem gen_closed_ball_3_4_5 :
    ∃ s₀, exBoundary = .ok s₀ ∧
      (Grid_get_localgrid s₀ (.vector [0, 0]) (.fin 5)).map (·.2) =
        some (.localGrid [0, 1] [[3, 4], [0, 0]] [10, 20]) ∧
      (Grid_get_localgrid s₀ (.vector [0, 0]) (.fin 10)).map (·.2) =
        some (.localGrid [0, 1, 2] [[3, 4], [0, 0], [6, 8]] [10, 20, 30]) :=
  ⟨_, rfl, rfl, rfl⟩

/-- (radius 0) a sphere of radius zero centred on a grid point holds that point. -/
theorem gen_closed_ball_radius_zero :
    ∃ s₀, exBoundary = .ok s₀ ∧
      (Grid_get_localgrid s₀ (.vector [6, 8]) (.fin 0)).map (·.2) = some (.localGrid [2] [[6, 8]] [30]) :=
  ⟨_, rfl, rfl⟩

-- the hypotheses of `gen_boundary_point_included` are met by that grid
example : ∃ s₀, exBoundary = .ok s₀ ∧ Inv s₀ ∧ centreOf s₀ (.vector [0, 0]) = some [0, 0] ∧
    s₀.points[0]? = some [3, 4] ∧ dist2 ([3, 4] : Point Int) [0, 0] = 5 * 5 :=
  ⟨_, rfl, inv_init .grid false 2 [[3, 4], [0, 0], [6, 8]] none [10, 20, 30] none _ rfl, rfl, rfl, by decide⟩

end GridVerif.C10

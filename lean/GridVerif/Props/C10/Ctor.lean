/-
  C10 — the constructors behind a local grid, over the *generated* definitions
  (`Gen/LocalGridCtor.lean`: `Grid.__init__` and `LocalGrid.__init__` of src/grid/basegrid.py,
  translated statement by statement on every run by harness/translate/localgrid_ctor.py), and
  the keyword arguments of the neighbour search (`Gen/LocalGrid.lean: Grid_get_localgrid_tree_args`).

  * `gen_grid_init_spec`, `gen_localgrid_init_spec`: what the constructors accept, and that the
    object holds exactly the arrays it was given, no neighbour tree, and the index array.
  * `gen_grid_init_eq`: the generated base constructor is the `init` of the hand state machine.
  * `gen_localgrid_of_query`, `gen_localgrid_of_query_inf`: the `return LocalGrid(...)` of the
    generated `get_localgrid` hands the constructor arguments it accepts, in every reachable
    state: the local grid holds the selected points, the selected weights and the index array
    (clause "its index array maps every local point back to its parent point").
  * `gen_tree_args_exact`: the neighbour search is the exact Euclidean, non-periodic one.
-/
import GridVerif.Props.C10.Gen
import GridVerif.Gen.LocalGridCtor

set_option linter.unusedSectionVars false
set_option linter.unusedSimpArgs false

namespace GridVerif.C10
open GridVerif.LocalGrid GridVerif.LocalGridPy GridVerif.LocalGridCtor GridVerif.Gen.LocalGridCtor
open GridVerif.Gen.LocalGrid

section ctor
variable {K : Type}

/-- What `Grid.__init__` accepts. -/
def GridArgsOk (p : NdArg (Point K)) (w : NdArg K) : Prop :=
  (p.ndim = 1 ∨ p.ndim = 2) ∧ w.ndim = 1 ∧ p.rows.length = w.rows.length

/-- (`Grid.__init__`, generated text) The constructor accepts exactly a 1-D or 2-D point array
and a 1-D weight array of the same length; the object then holds these two arrays themselves and
**no neighbour tree**; a 0-d argument is a TypeError (`len()`), everything else a ValueError. -/
theorem gen_grid_init_spec (p : NdArg (Point K)) (w : NdArg K) :
    (GridArgsOk p w → Grid_init p w = .ok ⟨p, w, none⟩) ∧
    (∀ o, Grid_init p w = .ok o → o = ⟨p, w, none⟩ ∧ GridArgsOk p w) ∧
    (∀ e, Grid_init p w = .error e →
      e = if p.ndim = 0 ∨ w.ndim = 0 then Err.typeError else Err.valueError) := by
  unfold Grid_init pyLen GridArgsOk
  by_cases hp0 : p.ndim = 0
  · simp [hp0]
  by_cases hw0 : w.ndim = 0
  · simp [hp0, hw0]
  simp only [hp0, hw0, if_false, pyTry_ok, or_self]
  by_cases hl : p.rows.length = w.rows.length
  · by_cases hw : w.ndim = 1
    · by_cases hp : p.ndim = 1 ∨ p.ndim = 2
      · have hm : p.ndim ∈ [1, 2] := by rcases hp with h | h <;> simp [h]
        simp [hl, hw, hp, hm]
      · have hm : ¬ p.ndim ∈ [1, 2] := by
          intro h; apply hp; simpa using h
        simp [hl, hw, hp, hm]
    · simp [hl, hw]
  · simp [hl]

/-- What `LocalGrid.__init__` accepts for its index array: `None`, or a 1-D array with one
entry per point. -/
def IndicesOk (p : NdArg (Point K)) (idx : Option (NdArg Nat)) : Prop :=
  ∀ i, idx = some i → i.ndim = 1 ∧ i.rows.length = p.rows.length

/-- (`LocalGrid.__init__`, generated text) The constructor accepts exactly what the base
constructor accepts together with no index array or a 1-D index array **with one entry per
point**; the object then holds the given points, weights, centre and index array, and no tree. -/
theorem gen_localgrid_init_spec (p : NdArg (Point K)) (w : NdArg K) (c : Centre K)
    (idx : Option (NdArg Nat)) :
    (GridArgsOk p w → IndicesOk p idx → LocalGrid_init p w c idx = .ok ⟨⟨p, w, none⟩, c, idx⟩) ∧
    (∀ o, LocalGrid_init p w c idx = .ok o →
      o = ⟨⟨p, w, none⟩, c, idx⟩ ∧ GridArgsOk p w ∧ IndicesOk p idx) := by
  obtain ⟨hok, hinv, _⟩ := gen_grid_init_spec p w
  have base : ∀ o, (pyTry (Grid_init p w) fun base =>
        (.ok { base := base, ucenter := c, uindices := idx } : Except Err (LocalGridObj K))) = .ok o →
      o = ⟨⟨p, w, none⟩, c, idx⟩ ∧ GridArgsOk p w := by
    intro o ho
    cases hg : Grid_init p w with
    | error e => rw [hg] at ho; simp at ho
    | ok b =>
      obtain ⟨hb, hargs⟩ := hinv b hg
      rw [hg] at ho
      simp only [pyTry_ok, Except.ok.injEq] at ho
      exact ⟨by rw [← ho, hb], hargs⟩
  unfold LocalGrid_init IndicesOk
  cases idx with
  | none =>
    simp only [pyIfNotNone_none]
    refine ⟨fun h _ => by rw [hok h]; rfl, fun o ho => ?_⟩
    obtain ⟨h1, h2⟩ := base o ho
    exact ⟨h1, h2, fun i hi => by cases hi⟩
  | some i =>
    simp only [pyIfNotNone_some, pyLen]
    by_cases hp0 : p.ndim = 0
    · refine ⟨fun h => ?_, fun o ho => ?_⟩
      · rcases h.1 with h1 | h1 <;> omega
      · simp [hp0] at ho
    by_cases hi0 : i.ndim = 0
    · refine ⟨fun _ h => ?_, fun o ho => ?_⟩
      · have := (h i rfl).1; omega
      · simp [hp0, hi0] at ho
    simp only [hp0, hi0, if_false, pyTry_ok]
    by_cases hl : p.rows.length = i.rows.length
    · by_cases hi1 : i.ndim = 1
      · simp only [hl, hi1, ne_eq, not_true_eq_false, if_false]
        refine ⟨fun h _ => by rw [hok h]; rfl, fun o ho => ?_⟩
        obtain ⟨h1, h2⟩ := base o ho
        refine ⟨h1, h2, fun j hj => ?_⟩
        cases hj
        first | exact ⟨hi1, hl.symm⟩ | exact ⟨hi1, rfl⟩
      · refine ⟨fun _ h => absurd (h i rfl).1 hi1, fun o ho => ?_⟩
        simp [hl, hi1] at ho
    · refine ⟨fun _ h => absurd (h i rfl).2.symm hl, fun o ho => ?_⟩
      simp [hl] at ho

end ctor

section tie
variable {K : Type} [Add K] [Sub K] [Mul K] [Div K] [Neg K] [NatCast K] [IntCast K] [Elem K]
variable [Periodic.FloorCeil K] [LE K] [DecidableLE K] [LT K] [DecidableLT K]

/-- `points.ndim` of the row-list form. -/
def ndimOf (oned : Bool) : Nat := if oned then 1 else 2

/-- (generated = model, base constructor) On well-shaped rows the generated `Grid.__init__` is
the `init` of the hand state machine: same guard, the given points and weights stored, no tree
— so `inv_init`, and with it every history theorem, starts from the generated constructor. -/
theorem gen_grid_init_eq (cls : Cls) (oned : Bool) (dim : Nat) (pts : List (Point K))
    (centre : Option (Point K)) (w : List K) (dom : Option (K × K))
    (hshape : ¬ (oned = true ∧ dim ≠ 1)) (hrows : pts.all (fun p => p.length == dim) = true) :
    init cls oned dim pts centre w dom =
      (Grid_init ⟨ndimOf oned, pts⟩ ⟨1, w⟩).map fun o =>
        { cls, oned, dim, stored := o.upoints.rows, centre, weights := o.uweights.rows,
          tree := o.ukdtree, domain := dom } := by
  have hnd : ndimOf oned = 1 ∨ ndimOf oned = 2 := by cases oned <;> simp [ndimOf]
  unfold init
  by_cases hl : pts.length = w.length
  · have := (gen_grid_init_spec (K := K) ⟨ndimOf oned, pts⟩ ⟨1, w⟩).1 ⟨hnd, rfl, hl⟩
    rw [this]
    simp [hl, hshape, hrows, Except.map]
  · have hne : ∀ o, Grid_init (K := K) ⟨ndimOf oned, pts⟩ ⟨1, w⟩ ≠ .ok o := by
      intro o ho
      exact hl ((gen_grid_init_spec _ _).2.1 o ho).2.2.2
    cases hg : Grid_init (K := K) ⟨ndimOf oned, pts⟩ ⟨1, w⟩ with
    | ok o => exact absurd hg (hne o)
    | error e =>
      have he := (gen_grid_init_spec _ _).2.2 e hg
      have h0 : ¬ (ndimOf oned = 0 ∨ (1 : Nat) = 0) := by
        rcases hnd with h | h <;> simp [h]
      simp only [h0, if_false] at he
      simp [hl, Except.map, he]

/-- (`return LocalGrid(points[indices], self._weights[indices], center, indices)`, finite
radius) **In every state satisfying the invariant** the generated `get_localgrid` answers
correctly *and* the generated `LocalGrid.__init__` accepts what the return statement hands it:
the local grid holds the selected points, the selected weights, the centre and the **index
array** (one entry per local point), and has no neighbour tree of its own yet. -/
theorem gen_localgrid_of_query (s : State K) (h : Inv s) (c : Centre K) (c' : Point K)
    (hc : centreOf s c = some c') (r : K) (hr : ¬ r < ((0 : Nat) : K))
    (hn : s.weights.length ≠ 0) :
    ∃ s' idx lp lw, Grid_get_localgrid s c (.fin r) = some (s', .localGrid idx lp lw) ∧
      Correct s c' r (.localGrid idx lp lw) ∧
      LocalGrid_init ⟨ndimOf s.oned, lp⟩ ⟨1, lw⟩ c (some ⟨1, idx⟩) =
        .ok ⟨⟨⟨ndimOf s.oned, lp⟩, ⟨1, lw⟩, none⟩, c, some ⟨1, idx⟩⟩ := by
  obtain ⟨_, hcor⟩ := query_spec s h c c' hc r hr hn
  obtain ⟨idx, lp, lw, hq, h1, h2, h3, hl1, hl2, h4⟩ := hcor
  refine ⟨(step s (.query c (.fin r))).1, idx, lp, lw, ?_, ⟨idx, lp, lw, rfl, h1, h2, h3, hl1, hl2, h4⟩, ?_⟩
  · rw [gen_query_eq s c (.fin r)]
    simp only [step]
    rw [show (query s c (.fin r)) = ((query s c (.fin r)).1, (query s c (.fin r)).2) from rfl, hq]
  · have hnd : ndimOf s.oned = 1 ∨ ndimOf s.oned = 2 := by cases s.oned <;> simp [ndimOf]
    refine (gen_localgrid_init_spec _ _ c _).1 ⟨hnd, rfl, ?_⟩ ?_
    · show lp.length = lw.length
      rw [hl1, hl2]
    · intro i hi
      cases hi
      exact ⟨rfl, hl1.symm⟩

/-- (`return LocalGrid(points, self._weights, center, np.arange(self.size))`, infinite radius)
the constructor accepts the whole grid with the index array `0 … n-1`. -/
theorem gen_localgrid_of_query_inf (s : State K) (h : Inv s) (c : Centre K) (c' : Point K)
    (hc : centreOf s c = some c') :
    Grid_get_localgrid s c .inf =
        some (s, .localGrid (List.range s.weights.length) s.points s.weights) ∧
      LocalGrid_init ⟨ndimOf s.oned, s.points⟩ ⟨1, s.weights⟩ c
          (some ⟨1, List.range s.weights.length⟩) =
        .ok ⟨⟨⟨ndimOf s.oned, s.points⟩, ⟨1, s.weights⟩, none⟩, c,
          some ⟨1, List.range s.weights.length⟩⟩ := by
  have hlen : s.points.length = s.weights.length := by rw [points_length]; exact h.len.symm
  refine ⟨?_, ?_⟩
  · rw [gen_query_eq s c .inf]
    simp only [step, query, hc]
  · have hnd : ndimOf s.oned = 1 ∨ ndimOf s.oned = 2 := by cases s.oned <;> simp [ndimOf]
    refine (gen_localgrid_init_spec _ _ c _).1 ⟨hnd, rfl, hlen⟩ ?_
    intro i hi
    cases hi
    exact ⟨rfl, by simp [hlen]⟩

end tie

/-- (neighbour search, regenerated constants) The keyword arguments of `cKDTree(...)` and
`.query_ball_point(...)` in the generated `get_localgrid` — the source's own (`p=2.0`) and the
defaults of the installed SciPy for the ones it leaves out (`eps=0.0`, `leafsize=16`,
`boxsize=None`) — select the **exact, Euclidean, non-periodic** search: the one the contract
`ballQuery` describes.  (A source change to an approximate search `eps=1e-10`, another norm or a
periodic box regenerates another constant and this statement no longer holds.) -/
theorem gen_tree_args_exact : Grid_get_localgrid_tree_args.exact := by decide

/-! ### Which class's method every grid class executes (regenerated table `gridDispatch`) -/

/-- One row of `gridDispatch` agrees with the class dispatch the model and the harness assume:
* `get_localgrid` is the one of `Grid` for every class but `PeriodicGrid` (its own: C11) and
  `MultiDomainGrid` (refuses);
* `__getitem__` is the one of `Grid`, except `OneDGrid` and the rules deriving from it (the one of
  `OneDGrid`), `MolGrid` (atom selection, another operation) and `PeriodicGrid` (its own);
* the `points` / `weights` properties are the ones of `Grid`, except `AtomGrid` (own `points`
  getter, **no setter**), `PeriodicGrid` (own `points` setter on `Grid`'s getter) and
  `MultiDomainGrid`. -/
def dispatchRowOk (r : String × String × String × String × String × String × String × String) : Bool :=
  let (cls, mod, gl, gi, pg, ps, wg, ws) := r
  (gl == "Grid" || (cls == "PeriodicGrid" && gl == "PeriodicGrid") ||
      (cls == "MultiDomainGrid" && gl == "MultiDomainGrid")) &&
  (if cls == "OneDGrid" || mod == "onedgrid" then gi == "OneDGrid"
    else if cls == "MolGrid" then gi == "MolGrid"
    else if cls == "PeriodicGrid" then gi == "PeriodicGrid"
    else gi == "Grid") &&
  (if cls == "AtomGrid" then pg == "AtomGrid" && ps == "-"
    else if cls == "PeriodicGrid" then pg == "Grid" && ps == "PeriodicGrid"
    else if cls == "MultiDomainGrid" then true
    else pg == "Grid" && ps == "Grid") &&
  (cls == "MultiDomainGrid" || (wg == "Grid" && ws == "Grid"))

/-- (class dispatch, regenerated table) **No class of the package overrides `get_localgrid`** besides
`PeriodicGrid` and the refusing `MultiDomainGrid`, `__getitem__` and the `points` / `weights`
properties are overridden exactly where the model says, and the classes of the property are all
there.  (A new `get_localgrid` / `__getitem__` / `points` in any subclass — e.g. a fast path for
one-dimensional grids — regenerates another table and this statement no longer holds.) -/
theorem gen_dispatch_pinned :
    gridDispatch.all dispatchRowOk = true ∧
    (["Grid", "LocalGrid", "OneDGrid", "AtomGrid", "MolGrid", "UniformGrid", "Tensor1DGrids",
      "AngularGrid", "PeriodicGrid"].all fun c => gridDispatch.any fun r => r.1 == c) = true := by
  decide +kernel

/-! ### Non-vacuity and the rejected cases (`K = Int`) -/

example : Grid_init (K := Int) ⟨2, [[0, 0], [3, 0]]⟩ ⟨1, [10, 20]⟩ =
    .ok ⟨⟨2, [[0, 0], [3, 0]]⟩, ⟨1, [10, 20]⟩, none⟩ := rfl
-- one weight too many; a 2-D weight array; a 3-D point array; a 0-d point array
example : Grid_init (K := Int) ⟨2, [[0, 0], [3, 0]]⟩ ⟨1, [10, 20, 30]⟩ = .error .valueError := rfl
example : Grid_init (K := Int) ⟨2, [[0, 0], [3, 0]]⟩ ⟨2, [10, 20]⟩ = .error .valueError := rfl
example : Grid_init (K := Int) ⟨3, [[0, 0], [3, 0]]⟩ ⟨1, [10, 20]⟩ = .error .valueError := rfl
example : Grid_init (K := Int) ⟨0, []⟩ ⟨1, [10, 20]⟩ = .error .typeError := rfl
-- a local grid with and without index array; an index array of another length or with two axes
example : LocalGrid_init (K := Int) ⟨2, [[0, 0], [3, 0]]⟩ ⟨1, [10, 20]⟩ (.vector [0, 0]) (some ⟨1, [0, 2]⟩) =
    .ok ⟨⟨⟨2, [[0, 0], [3, 0]]⟩, ⟨1, [10, 20]⟩, none⟩, .vector [0, 0], some ⟨1, [0, 2]⟩⟩ := rfl
example : LocalGrid_init (K := Int) ⟨1, [[0], [3]]⟩ ⟨1, [10, 20]⟩ (.scalar 1) none =
    .ok ⟨⟨⟨1, [[0], [3]]⟩, ⟨1, [10, 20]⟩, none⟩, .scalar 1, none⟩ := rfl
example : LocalGrid_init (K := Int) ⟨2, [[0, 0], [3, 0]]⟩ ⟨1, [10, 20]⟩ (.vector [0, 0]) (some ⟨1, [0]⟩) =
    .error .valueError := rfl
example : LocalGrid_init (K := Int) ⟨2, [[0, 0], [3, 0]]⟩ ⟨1, [10, 20]⟩ (.vector [0, 0]) (some ⟨2, [0, 1]⟩) =
    .error .valueError := rfl
example : LocalGrid_init (K := Int) ⟨2, [[0, 0], [3, 0]]⟩ ⟨1, [10, 20]⟩ (.vector [0, 0]) (some ⟨0, []⟩) =
    .error .typeError := rfl

end GridVerif.C10

/-
  C10 — tie of the hand model to the source through the *generated* definitions
  (`Gen/LocalGrid.lean`, translated from src/grid/basegrid.py on every run by
  harness/translate/localgrid.py).

  `gen_*_eq`: each generated method equals the corresponding operation of the hand state
  machine (`Model/LocalGrid.lean`), so every theorem of `Props/C10.lean` is a theorem about the
  generated text; the main ones are restated below over the generated state machine
  (`LocalGridGen.genStep` / `genRun`).  A change of the source that alters the generated text
  (dropping `self._kdtree = None`, slicing from another array, another guard, another index
  branch …) breaks one of these proofs.
-/
import GridVerif.Props.C10
import GridVerif.Model.LocalGridGen

set_option linter.unusedSectionVars false
set_option linter.unusedSimpArgs false

namespace GridVerif.C10
open GridVerif.LocalGrid GridVerif.LocalGridPy GridVerif.LocalGridGen GridVerif.Gen.LocalGrid

section machine
variable {K : Type} [Add K] [Sub K] [Mul K] [Div K] [Neg K] [NatCast K] [IntCast K] [Elem K]
variable [Periodic.FloorCeil K] [LE K] [DecidableLE K] [LT K] [DecidableLT K]

/-- (setter effects) The generated effect summaries: the `points` setter of `Grid` checks the
shape, stores the value and **resets the tree**; the `weights` setter checks and stores. -/
theorem gen_setter_effects :
    Grid_points_set_effects =
      [("raise ValueError if", "value.shape != self._points.shape"), ("self._points", "value"),
       ("self._kdtree", "None")] ∧
    Grid_weights_set_effects =
      [("raise ValueError if", "value.shape != self._weights.shape"), ("self._weights", "value")] :=
  ⟨rfl, rfl⟩

/-- (generated = model, `points` setter) for every class that inherits the base setter. -/
theorem gen_points_set_eq (s : State K) (hc : s.cls ≠ .atom) (oned : Bool) (dim : Nat)
    (value : List (Point K)) :
    Grid_points_set s oned dim value = some (step s (.setPoints oned dim value)) := by
  unfold Grid_points_set
  simp only [step, hc, if_false]
  by_cases h : sameShape s oned dim value = true <;> simp [h]

/-- (generated = model, `weights` setter) -/
theorem gen_weights_set_eq (s : State K) (value : List K) :
    Grid_weights_set s value = some (step s (.setWeights value)) := by
  unfold Grid_weights_set
  simp only [step]
  by_cases h : value.length = s.weights.length <;> simp [h]

/-- (generated = model, `get_localgrid`) guards, infinite-radius branch, lazily built tree,
the array the tree is built from, the arrays the local grid is sliced from — unconditionally. -/
theorem gen_query_eq (s : State K) (c : Centre K) (r : Radius K) :
    Grid_get_localgrid s c r = some (step s (.query c r)) := by
  unfold Grid_get_localgrid
  simp only [step, query]
  cases hc : centreOf s c with
  | none => rfl
  | some c' =>
    simp only [pyOpt_some]
    cases r with
    | nan => simp [pyLt0, pyIsFinite, pyEqInf]
    | inf => simp [pyLt0, pyIsFinite, pyEqInf]
    | fin r =>
      simp only [pyLt0, pyIsFinite, pyEqInf, decide_eq_true_eq, Bool.false_eq_true, or_false,
        not_true_eq_false, if_false]
      by_cases hr : r < ((0 : Nat) : K)
      · simp [hr]
      · simp only [hr, if_false, npReshapeRows]
        by_cases hn : s.weights.length = 0
        · simp [hn]
        · simp only [hn, if_false, pyNum, queryBallPoint, cKDTree, pyOpt_some]
          cases ht : s.tree with
          | none =>
            simp only [Option.isNone_none, if_true, Option.map_some, pyOpt_some]
            cases gather s.points (ballQuery s.points c' r) <;>
              cases gather s.weights (ballQuery s.points c' r) <;> rfl
          | some t =>
            simp only [Option.isNone_some, Bool.false_eq_true, if_false, ht, Option.map_some,
              pyOpt_some]
            cases gather s.points (ballQuery t c' r) <;>
              cases gather s.weights (ballQuery t c' r) <;> (cases s; simp_all)

omit [Sub K] [Mul K] [Div K] [Neg K] [IntCast K] [Elem K] [Periodic.FloorCeil K] [LE K]
  [DecidableLE K] [Add K] in
/-- `np.array(xs[index])` for a non-integer index is the selection of the model. -/
theorem npGetArr_of_select {α : Type} (xs : List α) (idx : Index) (sel : List Nat)
    (hi : pyIsInstance idx ["int", "np.integer"] = false)
    (hs : select idx xs.length = .ok sel) :
    ∃ ys, gather xs sel = some ys ∧ npGetArr xs idx = .ok ys := by
  obtain ⟨ys, hys⟩ := gather_isSome xs sel (select_lt idx _ sel hs)
  refine ⟨ys, hys, ?_⟩
  cases idx <;> simp_all [npGetArr, pyIsInstance]

/-- The two branches of the generated `__getitem__` methods (`isinstance(index, (int, np.integer))`:
one element wrapped in a one-entry array; otherwise the NumPy selection) are the selection of
the model, for every index kind, whatever is done with the selected points and weights (`k`) and
with an error (`kerr`). -/
theorem getitem_branches {α β γ : Type} (xs : List α) (ws : List β) (hlen : xs.length = ws.length)
    (idx : Index) (kerr : Err → Option γ) (k : List α → List β → Option γ) :
    (if pyIsInstance idx ["int", "np.integer"] = true then
      pyOptExcept (npGetScalar xs idx) none kerr fun t1 =>
      pyOptExcept (npGetScalar ws idx) none kerr fun t2 => k [t1] [t2]
    else
      pyExcept (npGetArr xs idx) kerr fun t3 =>
      pyExcept (npGetArr ws idx) kerr fun t4 => k t3 t4) =
    (match select idx ws.length with
      | .error e => kerr e
      | .ok sel =>
        match gather xs sel, gather ws sel with
        | some p, some w => k p w
        | _, _ => kerr .indexError) := by
  by_cases hi : pyIsInstance idx ["int", "np.integer"] = true
  · simp only [hi, if_true]
    have key : ∀ i : Int, (idx = .int i ∨ idx = .npInt i) →
        (pyOptExcept (npGetScalar xs idx) none kerr fun t1 =>
          pyOptExcept (npGetScalar ws idx) none kerr fun t2 => k [t1] [t2]) =
        (match select idx ws.length with
          | .error e => kerr e
          | .ok sel =>
            match gather xs sel, gather ws sel with
            | some p, some w => k p w
            | _, _ => kerr .indexError) := by
      intro i hi'
      have hsel : select idx ws.length =
          match normIndex i ws.length with
          | some k => .ok [k]
          | none => .error .indexError := by
        rcases hi' with rfl | rfl <;> rfl
      have hsc : ∀ {δ : Type} (ys : List δ), npGetScalar ys idx =
          match normIndex i ys.length with
          | some k => (match ys[k]? with
            | some x => some (.ok x)
            | none => some (.error .indexError))
          | none => some (.error .indexError) := by
        intro δ ys; rcases hi' with rfl | rfl <;> rfl
      rw [hsel, hsc, hsc, hlen]
      cases hk : normIndex i ws.length with
      | none => rfl
      | some j =>
        have hkl := normIndex_lt hk
        have hkp : j < xs.length := by rw [hlen]; exact hkl
        simp only [List.getElem?_eq_getElem hkl, List.getElem?_eq_getElem hkp, gather,
          List.mapM_cons, List.mapM_nil, Option.pure_def, Option.bind_eq_bind, Option.bind_some,
          pyOptExcept_ok]
    cases idx with
    | int i => exact key i (Or.inl rfl)
    | npInt i => exact key i (Or.inr rfl)
    | slice a b c => simp [pyIsInstance] at hi
    | array is => simp [pyIsInstance] at hi
    | mask bs => simp [pyIsInstance] at hi
  · have hi' : pyIsInstance idx ["int", "np.integer"] = false := by simpa using hi
    simp only [hi', Bool.false_eq_true, if_false]
    cases hs : select idx ws.length with
    | error e =>
      have : npGetArr xs idx = .error e := by
        cases idx <;> simp_all [npGetArr, pyIsInstance]
      simp [this]
    | ok sel =>
      obtain ⟨p, hp, hp'⟩ := npGetArr_of_select xs idx sel hi' (by rw [hlen]; exact hs)
      obtain ⟨w, hw, hw'⟩ := npGetArr_of_select ws idx sel hi' hs
      simp only [hp', hw', hp, hw, pyExcept_ok]

/-- (generated = model, `Grid.__getitem__`) for every class that inherits the method
(all but `OneDGrid`), in a state satisfying the invariant, for every index kind. -/
theorem gen_getitem_eq (s : State K) (h : Inv s) (hc : s.cls ≠ .oned) (idx : Index) :
    Grid_getitem s idx = some (step s (.getItem idx)) := by
  have hlen : s.points.length = s.weights.length := by rw [points_length]; exact h.len.symm
  unfold Grid_getitem
  refine (getitem_branches s.points s.weights hlen idx (fun e => some (s, Out.error e))
    (fun p w => some (s, pySelfClass s p w))).trans ?_
  simp only [step, getItem, pySelfClass]
  cases hs : select idx s.weights.length with
  | error e => rfl
  | ok sel =>
    cases hp : gather s.points sel <;> cases hw : gather s.weights sel <;>
      cases hcl : s.cls <;> simp_all

/-- (generated = model, `OneDGrid.__getitem__`) the domain is passed on. -/
theorem gen_oned_getitem_eq (s : State K) (h : Inv s) (hc : s.cls = .oned) (idx : Index) :
    OneDGrid_getitem s idx = some (step s (.getItem idx)) := by
  have hlen : s.points.length = s.weights.length := by rw [points_length]; exact h.len.symm
  unfold OneDGrid_getitem
  refine (getitem_branches s.points s.weights hlen idx (fun e => some (s, Out.error e))
    (fun p w => some (s, pyOneDGrid p w s.domain))).trans ?_
  simp only [step, getItem, pyOneDGrid, hc]
  cases hs : select idx s.weights.length with
  | error e => rfl
  | ok sel =>
    cases hp : gather s.points sel <;> cases hw : gather s.weights sel <;> simp_all

/-- (generated = model) **Every operation**, executed by the generated definitions on an object
satisfying the invariant, stays inside the modelled fragment and gives the state and the
answer of the hand state machine. -/
theorem genStep_eq_step (s : State K) (h : Inv s) (op : Op K) :
    genStep s op = some (step s op) := by
  cases op with
  | query c r => exact gen_query_eq s c r
  | setPoints oned dim value =>
    by_cases hc : s.cls = .atom
    · simp [genStep, step, hc]
    · simp only [genStep, hc, if_false]; exact gen_points_set_eq s hc oned dim value
  | setWeights value => exact gen_weights_set_eq s value
  | getItem idx =>
    by_cases hc : s.cls = .oned
    · simp only [genStep, hc, if_true]; exact gen_oned_getitem_eq s h hc idx
    · simp only [genStep, hc, if_false]; exact gen_getitem_eq s h hc idx

/-- (generated = model, histories) -/
theorem genRun_eq_run (s : State K) (h : Inv s) (ops : List (Op K)) :
    genRun s ops = some (run s ops) := by
  induction ops generalizing s with
  | nil => rfl
  | cons op ops ih =>
    simp only [genRun, genStep_eq_step s h op, run]
    rw [ih _ (inv_step s op h)]

/-- (`inv_step` over the generated text) Every operation executed by the generated definitions
keeps the invariant "no tree, or the tree of the current points". -/
theorem gen_inv_step (s s' : State K) (o : Out K) (op : Op K) (h : Inv s)
    (hs : genStep s op = some (s', o)) : Inv s' := by
  rw [genStep_eq_step s h op] at hs
  have h1 : s' = (step s op).1 := by
    have := congrArg Prod.fst (Option.some.inj hs); exact this.symm
  rw [h1]
  exact inv_step s op h

/-- (`localgrid_correct` over the generated text) **For every history** executed by the generated
definitions on a freshly constructed grid of any class, the history stays inside the modelled
fragment, and the next `get_localgrid` (generated text) answers for the points and weights the
grid has *now*. -/
theorem gen_localgrid_correct (cls : Cls) (oned : Bool) (dim : Nat) (pts : List (Point K))
    (centre : Option (Point K)) (w : List K) (dom : Option (K × K)) (s₀ : State K)
    (h₀ : init cls oned dim pts centre w dom = .ok s₀) (ops : List (Op K))
    (c : Centre K) (c' : Point K) (r : K) :
    ∃ s outs, genRun s₀ ops = some (s, outs) ∧
      (centreOf s c = some c' → ¬ r < ((0 : Nat) : K) → s.weights.length ≠ 0 →
        ∃ s' out, Grid_get_localgrid s c (.fin r) = some (s', out) ∧ Correct s c' r out ∧
          s'.tree = some s.points) := by
  have h0 : Inv s₀ := inv_init _ _ _ _ _ _ _ _ h₀
  refine ⟨(run s₀ ops).1, (run s₀ ops).2, genRun_eq_run s₀ h0 ops, ?_⟩
  intro hc hr hn
  have hinv : Inv (run s₀ ops).1 := inv_history s₀ h0 ops
  obtain ⟨ht, hcor⟩ := query_spec _ hinv c c' hc r hr hn
  exact ⟨_, _, gen_query_eq _ c (.fin r), hcor, ht⟩

end machine

/-! ### Non-vacuity (`K = Int`): the generated definitions run the example history of `Props/C10.lean` -/

instance : Periodic.FloorCeil Int := ⟨id, id⟩
instance : Elem Int :=
  { exp := id, log := id, sqrt := id, sin := id, cos := id, tan := id, tanh := id, sinh := id, cosh := id,
    arcsinh := id, arcsin := id, arccos := id, arctan2 := fun a _ => a, erf := id, abs := fun x => (x.natAbs : Int),
    rpow := fun a _ => a, pi := 3 }

example :
    ∃ s₀, exGrid = .ok s₀ ∧
      (genRun s₀ [.query (.vector [0, 0]) (.fin 3), .setPoints false 2 [[9, 9], [1, 1], [0, 2]],
          .setWeights [1, 2, 3], .query (.vector [0, 0]) (.fin 2)]).map (·.2) =
        some [.localGrid [0, 1] [[0, 0], [3, 0]] [10, 20], .done, .done,
              .localGrid [1, 2] [[1, 1], [0, 2]] [2, 3]] :=
  ⟨_, rfl, rfl⟩

end GridVerif.C10

/-
  C10 — the setters rebind, they never write through (round 6).

  `Gen/LocalGrid.lean: Grid_points_set_eff`, `Grid_weights_set_eff` are the array effects of the
  two setters of `Grid` (inherited by every class but `AtomGrid` / `PeriodicGrid.points`),
  regenerated from src/grid/basegrid.py on every run.  An infinite-radius local grid is handed the
  parent's own `points` / `weights` arrays, a grid keeps the arrays its constructor was given, and
  the caller keeps the array it assigns: all of them rely on the clause of C10 that a reassignment
  changes *this grid's current points / weights* and nothing else.  Over the effect model
  (`Model/LocalGridEff.lean`) that is: no statement of a setter overwrites an existing array.
  (A setter changed to `self._weights[...] = value` regenerates `.write "_weights" "value"` and the
  statements below become false — `write_through_would_overwrite` shows what would happen.)
-/
import GridVerif.Gen.LocalGrid

set_option linter.unusedVariables false

namespace GridVerif.C10
open GridVerif.LocalGridEff GridVerif.Gen.LocalGrid

/-- (effects, regenerated lists) No statement of the `points` / `weights` setters overwrites an
array: guards, rebinds of the attribute, and the reset of the tree slot only. -/
theorem gen_setters_never_write_through :
    Grid_points_set_eff.all noWrite = true ∧ Grid_weights_set_eff.all noWrite = true := by
  decide

/-- (frame) After an accepted reassignment of points or weights **every array of the process has
the contents it had**: the array the grid held before (still held by an infinite-radius local
grid, by the grid it was selected from, by the caller), the assigned array, all others. -/
theorem gen_setter_frame {α : Type} (args : String → Option Ref) (w : World α) :
    (run args w Grid_weights_set_eff).heap = w.heap ∧
    (run args w Grid_points_set_eff).heap = w.heap :=
  ⟨run_heap_of_noWrite args _ w gen_setters_never_write_through.2,
   run_heap_of_noWrite args _ w gen_setters_never_write_through.1⟩

/-- (what the setters do instead) The attribute refers to the assigned array from now on; the
`points` setter also empties the tree slot; the other attributes are untouched. -/
theorem gen_setter_rebinds {α : Type} (args : String → Option Ref) (w : World α) :
    (run args w Grid_weights_set_eff).obj "_weights" = args "value" ∧
    (run args w Grid_weights_set_eff).obj "_points" = w.obj "_points" ∧
    (run args w Grid_weights_set_eff).obj "_kdtree" = w.obj "_kdtree" ∧
    (run args w Grid_points_set_eff).obj "_points" = args "value" ∧
    (run args w Grid_points_set_eff).obj "_kdtree" = none ∧
    (run args w Grid_points_set_eff).obj "_weights" = w.obj "_weights" := by
  simp [run, exec, Grid_weights_set_eff, Grid_points_set_eff]

/-- (the shared array keeps its values) If the grid's weights are the array `r` — shared with the
parent of an infinite-radius local grid, or the caller's — then after `grid.weights = value` the
array `r` and the assigned array `v` still hold what they held, and the grid now refers to `v`. -/
theorem gen_shared_weights_kept {α : Type} (args : String → Option Ref) (w : World α) (r v : Ref)
    (hr : w.obj "_weights" = some r) (hv : args "value" = some v) :
    (run args w Grid_weights_set_eff).heap r = w.heap r ∧
    (run args w Grid_weights_set_eff).heap v = w.heap v ∧
    (run args w Grid_weights_set_eff).obj "_weights" = some v := by
  rw [(gen_setter_frame args w).1, (gen_setter_rebinds args w).1, hv]
  exact ⟨rfl, rfl, rfl⟩

/-! ### Non-vacuity, and what a write-through would do -/

/-- two arrays: `0 ↦ [1, 2]` (held by the grid and by somebody else), `1 ↦ [5, 6]` (assigned) -/
def exWorld : World Int :=
  { heap := fun r => if r = 0 then [1, 2] else if r = 1 then [5, 6] else [],
    obj := fun a => if a = "_weights" then some 0 else none }

def exArgs : String → Option Ref := fun a => if a = "value" then some 1 else none

example : (run exArgs exWorld Grid_weights_set_eff).heap 0 = [1, 2] ∧
    (run exArgs exWorld Grid_weights_set_eff).obj "_weights" = some 1 :=
  ⟨(gen_shared_weights_kept exArgs exWorld 0 1 rfl rfl).1, (gen_shared_weights_kept exArgs exWorld 0 1 rfl rfl).2.2⟩

/-- The other holder of array `0` would see `[5, 6]` after a setter that writes in place. -/
theorem write_through_would_overwrite :
    (run exArgs exWorld [.guard, .write "_weights" "value"]).heap 0 = [5, 6] ∧
    ¬ ([Eff.guard, .write "_weights" "value"].all noWrite = true) := by
  decide

end GridVerif.C10

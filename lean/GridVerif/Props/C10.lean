/-
  C10 — local grids hold exactly the points inside the cutoff sphere, for any grid type.

  Model: `Model/LocalGrid.lean` (hand-written state machine; `Props/C10/Gen.lean` proves it equal
  to the definitions generated from basegrid.py, and differential op histories compare those with
  the implementation, harness/props/c10.py).  Helper lemmas: `Lemmas/LocalGrid.lean`.

  The theorems about the state machine hold for *any* carrier `K` with the operations the model
  uses (no field axioms are needed: the ball query is specified by the model's own comparison
  `dist² ≤ r²`); `inBall_iff_sqrt` reads that comparison over ℝ as the Euclidean one.
-/
import GridVerif.Lemmas.LocalGrid
import Mathlib.Analysis.Real.Sqrt

set_option linter.unusedSectionVars false
set_option linter.unusedSimpArgs false

namespace GridVerif.C10
open GridVerif.LocalGrid

section machine
variable {K : Type} [Add K] [Sub K] [Mul K] [Div K] [NatCast K]
variable [LE K] [DecidableLE K] [LT K] [DecidableLT K]

/-- The invariant of the object: as many weights as points, and the neighbour tree — if one
was built — is the tree of the *current* points. -/
structure Inv (s : State K) : Prop where
  len : s.weights.length = s.stored.length
  tree : s.tree = none ∨ s.tree = some s.points

omit [Sub K] [Mul K] [Div K] [NatCast K] [LE K] [DecidableLE K] [LT K] [DecidableLT K] in
theorem points_length (s : State K) : s.points.length = s.stored.length := by
  unfold State.points; cases s.centre <;> simp

/-- (invariant, 1) A freshly constructed grid of any class satisfies the invariant. -/
theorem inv_init (cls : Cls) (oned : Bool) (dim : Nat) (pts : List (Point K))
    (centre : Option (Point K)) (w : List K) (dom : Option (K × K)) (s : State K)
    (h : init cls oned dim pts centre w dom = .ok s) : Inv s := by
  unfold init at h
  split at h; · cases h
  split at h; · cases h
  split at h; · cases h
  cases h
  rename_i h1 _ _
  exact ⟨by simp at h1; simp [h1], Or.inl rfl⟩

/-- After a query the tree slot is what it was, or the tree of the current points. -/
theorem query_tree (s : State K) (h : Inv s) (c : Centre K) (r : Radius K) :
    (query s c r).1 = s.tree ∨ (query s c r).1 = some s.points := by
  unfold query
  split; · exact Or.inl rfl
  split
  · exact Or.inl rfl
  · exact Or.inl rfl
  · split; · exact Or.inl rfl
    split; · exact Or.inl rfl
    rcases h.tree with h0 | h0 <;> simp only [h0] <;> split <;> exact Or.inr rfl

/-- (invariant, 2) Every operation — query, reassignment of points or weights (accepted or
rejected), selection — keeps the invariant. -/
theorem inv_step (s : State K) (op : Op K) (h : Inv s) : Inv (step s op).1 := by
  cases op with
  | query c r =>
    simp only [step]
    refine ⟨h.len, ?_⟩
    show (query s c r).1 = none ∨ (query s c r).1 = some s.points
    rcases query_tree s h c r with h1 | h1 <;> rw [h1]
    · exact h.tree
    · exact Or.inr rfl
  | setPoints oned dim value =>
    simp only [step]
    split; · exact h
    split; · exact h
    rename_i h1 h2
    refine ⟨?_, Or.inl rfl⟩
    have : value.length = s.stored.length := by
      have h3 := Decidable.not_not.mp h2
      simp only [sameShape, Bool.and_eq_true, beq_iff_eq] at h3
      exact h3.1.2
    simp [this, h.len]
  | setWeights value =>
    simp only [step]
    split; · exact h
    rename_i h1
    refine ⟨?_, ?_⟩
    · simp only [ne_eq, Decidable.not_not] at h1; simp [h1, h.len]
    · exact h.tree
  | getItem idx => exact h

/-- The state after a history. -/
theorem run_fst_eq_foldl (s : State K) (ops : List (Op K)) :
    (run s ops).1 = ops.foldl (fun s op => (step s op).1) s := by
  induction ops generalizing s with
  | nil => rfl
  | cons op ops ih => simp only [run, List.foldl_cons]; exact ih _

/-- (invariant, 3) The invariant holds after **every history** of operations. -/
theorem inv_history (s : State K) (h : Inv s) (ops : List (Op K)) : Inv (run s ops).1 := by
  induction ops generalizing s with
  | nil => exact h
  | cons op ops ih => simp only [run]; exact ih _ (inv_step s op h)

/-- (ball query) The contract of the neighbour search, as modelled: the positions come out
ascending (hence each once) and are exactly those of the points within the radius. -/
theorem ballQuery_spec (pts : List (Point K)) (c : Point K) (r : K) :
    (ballQuery pts c r).Pairwise (· < ·) ∧ (ballQuery pts c r).Nodup ∧
    ∀ i, i ∈ ballQuery pts c r ↔ ∃ p, pts[i]? = some p ∧ inBall p c r :=
  ⟨ballQuery_sorted pts c r,
   (ballQuery_sorted pts c r).imp (fun h => Nat.ne_of_lt h),
   mem_ballQuery pts c r⟩

/-- What a correct answer of `get_localgrid(c, r)` on the object in state `s` is: the local
grid holds exactly the positions `i` with `‖points[i] − c‖ ≤ r` of the **current** points,
ascending and each once, `local.points[k] = points[indices[k]]`,
`local.weights[k] = weights[indices[k]]` with the **current** weights. -/
def Correct (s : State K) (c : Point K) (r : K) (out : Out K) : Prop :=
  ∃ idx lp lw, out = .localGrid idx lp lw ∧
    idx.Pairwise (· < ·) ∧ idx.Nodup ∧
    (∀ i, i ∈ idx ↔ ∃ p, s.points[i]? = some p ∧ inBall p c r) ∧
    lp.length = idx.length ∧ lw.length = idx.length ∧
    (∀ k (hk : k < idx.length), s.points[idx[k]]? = lp[k]? ∧ s.weights[idx[k]]? = lw[k]?)

/-- (query) In a state satisfying the invariant, a query with an accepted centre and a
non-negative finite radius on a grid with at least one point is answered correctly, and
leaves the tree of the current points behind.  The hypotheses mirror what the code rejects
(`centreOf`: shape of the centre; `¬ r < 0`; size 0: NumPy's `reshape(0, -1)` raises). -/
theorem query_spec (s : State K) (h : Inv s) (c : Centre K) (c' : Point K)
    (hc : centreOf s c = some c') (r : K) (hr : ¬ r < ((0 : Nat) : K))
    (hn : s.weights.length ≠ 0) :
    (query s c (.fin r)).1 = some s.points ∧ Correct s c' r (query s c (.fin r)).2 := by
  have hlen : s.weights.length = s.points.length := by rw [points_length]; exact h.len
  have hlt := ballQuery_lt s.points c' r
  obtain ⟨lp, hlp⟩ := gather_isSome s.points (ballQuery s.points c' r) hlt
  obtain ⟨lw, hlw⟩ := gather_isSome s.weights (ballQuery s.points c' r)
    (fun i hi => by rw [hlen]; exact hlt i hi)
  have hq : query s c (.fin r) =
      (some s.points, .localGrid (ballQuery s.points c' r) lp lw) := by
    unfold query
    simp only [hc, hr, hn, if_false]
    rcases h.tree with h0 | h0 <;> simp only [h0, hlp, hlw]
  rw [hq]
  refine ⟨rfl, _, lp, lw, rfl, ballQuery_sorted _ _ _, (ballQuery_spec _ _ _).2.1,
    mem_ballQuery _ _ _, gather_length hlp, gather_length hlw, ?_⟩
  intro k hk
  exact ⟨gather_getElem hlp k hk, gather_getElem hlw k hk⟩

/-- (C10, history form) **For every history of operations** on a freshly constructed grid of
any class — queries, accepted or rejected reassignments of points and weights, selections,
in any order — the next query answers for the points and weights the grid has *now*. -/
theorem localgrid_correct (cls : Cls) (oned : Bool) (dim : Nat) (pts : List (Point K))
    (centre : Option (Point K)) (w : List K) (dom : Option (K × K)) (s₀ : State K)
    (h₀ : init cls oned dim pts centre w dom = .ok s₀) (ops : List (Op K))
    (c : Centre K) (c' : Point K) (r : K) :
    let s := (run s₀ ops).1
    centreOf s c = some c' → ¬ r < ((0 : Nat) : K) → s.weights.length ≠ 0 →
    Correct s c' r (step s (.query c (.fin r))).2 := by
  intro s hc hr hn
  have hinv : Inv s := inv_history s₀ (inv_init _ _ _ _ _ _ _ _ h₀) ops
  exact (query_spec s hinv c c' hc r hr hn).2

/-- (infinite radius) The whole grid: all positions `0 … n-1` in order, the current points and
weights themselves; no tree is built. -/
theorem query_inf_whole_grid (s : State K) (h : Inv s) (c : Centre K) (c' : Point K)
    (hc : centreOf s c = some c') :
    query s c .inf = (s.tree, .localGrid (List.range s.points.length) s.points s.weights) ∧
    gather s.points (List.range s.points.length) = some s.points ∧
    gather s.weights (List.range s.points.length) = some s.weights := by
  have hlen : s.weights.length = s.points.length := by rw [points_length]; exact h.len
  refine ⟨?_, ?_, ?_⟩
  · unfold query; simp only [hc, hlen]
  · rw [gather_eq_some_iff]
    apply List.ext_getElem? ; intro k
    simp only [List.getElem?_map, List.getElem?_range]
    by_cases hk : k < s.points.length
    · simp [List.getElem?_range hk, List.getElem?_eq_getElem hk]
    · have hk' := Nat.le_of_not_lt hk
      simp [List.getElem?_eq_none hk', hk']
  · rw [gather_eq_some_iff, ← hlen]
    apply List.ext_getElem? ; intro k
    simp only [List.getElem?_map]
    by_cases hk : k < s.weights.length
    · simp [List.getElem?_range hk, List.getElem?_eq_getElem hk]
    · have hk' := Nat.le_of_not_lt hk
      simp [List.getElem?_eq_none hk', hk']

/-- (empty sphere) If no current point lies within the radius the answer is the empty local
grid (not an error). -/
theorem query_empty_sphere (s : State K) (h : Inv s) (c : Centre K) (c' : Point K)
    (hc : centreOf s c = some c') (r : K) (hr : ¬ r < ((0 : Nat) : K))
    (hn : s.weights.length ≠ 0) (hempty : ∀ p ∈ s.points, ¬ inBall p c' r) :
    (query s c (.fin r)).2 = .localGrid [] [] [] := by
  obtain ⟨_, idx, lp, lw, hq, _, _, hmem, hl1, hl2, _⟩ := query_spec s h c c' hc r hr hn
  have : idx = [] := by
    apply List.eq_nil_iff_forall_not_mem.mpr
    intro i hi
    obtain ⟨p, hp, hb⟩ := (hmem i).mp hi
    exact hempty p (List.mem_of_getElem? hp) hb
  subst this
  rw [hq]
  simp only [List.length_nil, List.length_eq_zero_iff] at hl1 hl2
  rw [hl1, hl2]

/-- (rejected queries) A centre of the wrong shape, a negative radius (including `-inf`), NaN,
and a finite radius on a grid without points are rejected with ValueError, and the object
is unchanged. -/
theorem query_rejects (s : State K) (c : Centre K) (r : K) :
    (centreOf s c = none → ∀ rad, query s c rad = (s.tree, .error .valueError)) ∧
    (∀ c', centreOf s c = some c' → query s c .nan = (s.tree, .error .valueError)) ∧
    (∀ c', centreOf s c = some c' → r < ((0 : Nat) : K) →
      query s c (.fin r) = (s.tree, .error .valueError)) ∧
    (∀ c', centreOf s c = some c' → s.weights.length = 0 →
      query s c (.fin r) = (s.tree, .error .valueError)) := by
  refine ⟨?_, ?_, ?_, ?_⟩
  · intro hc rad; unfold query; simp only [hc]
  · intro c' hc; unfold query; simp only [hc]
  · intro c' hc hr; unfold query; simp only [hc, hr, if_true]
  · intro c' hc hn; unfold query; simp only [hc, hn]; split <;> rfl

theorem normIndex_lt {i : Int} {n k : Nat} (h : normIndex i n = some k) : k < n := by
  unfold normIndex at h
  split at h
  · cases h; omega
  · split at h
    · cases h; omega
    · cases h

/-- Every successful selection consists of valid positions. -/
theorem select_lt (idx : Index) (n : Nat) (sel : List Nat) (h : select idx n = .ok sel) :
    ∀ k ∈ sel, k < n := by
  cases idx with
  | int i =>
    simp only [select] at h
    split at h
    · cases h; intro k hk; simp only [List.mem_singleton] at hk; subst hk; exact normIndex_lt ‹_›
    · cases h
  | npInt i =>
    simp only [select] at h
    split at h
    · cases h; intro k hk; simp only [List.mem_singleton] at hk; subst hk; exact normIndex_lt ‹_›
    · cases h
  | slice a b st =>
    by_cases h0 : sliceStep st = 0
    · simp [select, sliceSelect, h0] at h
    · simp only [select, sliceSelect, h0, if_false] at h
      cases h
      intro k hk
      simp only [List.mem_map] at hk
      obtain ⟨x, hx, rfl⟩ := hk
      rcases (mem_pyRange _ _ _ x h0).mp hx with ⟨hp, h1, h2, _⟩ | ⟨hn, h1, h2, _⟩
      · have := sliceBounds_pos a b (sliceStep st) n hp; omega
      · have := sliceBounds_neg a b (sliceStep st) n hn; omega
  | array is =>
    simp only [select] at h
    split at h
    · rename_i ks hks
      cases h
      have h2 := (mapM_option_eq_some_iff _ _ _).mp hks
      intro k hk
      obtain ⟨j, hj, rfl⟩ := List.getElem_of_mem hk
      have h3 := congrArg (fun l => l[j]?) h2
      simp only [List.getElem?_map, List.getElem?_eq_getElem hj, Option.map_some] at h3
      cases h4 : is[j]? with
      | none => rw [h4] at h3; cases h3
      | some i => rw [h4] at h3; exact normIndex_lt (by simpa using h3)
    · cases h
  | mask bs =>
    simp only [select] at h
    split at h
    · cases h
    · rename_i hlen
      cases h
      intro k hk
      simp only [List.mem_map, List.mem_filter, List.mem_zipIdx_iff_getElem?] at hk
      obtain ⟨⟨b, j⟩, ⟨h1, _⟩, rfl⟩ := hk
      have := (List.getElem?_eq_some_iff.mp h1).1
      simp only [ne_eq, Decidable.not_not] at hlen
      omega

/-- (selection) On a grid of a class that supports selection (`Grid`, `OneDGrid`), for
**every index kind**: if the index selects the positions `sel` then `grid[index]` is a grid of
the same class holding exactly `points[sel[k]]`, `weights[sel[k]]` (in the order of `sel`),
with the same domain.  For `OneDGrid` the constructor re-checks the domain (points may have
been reassigned outside it; an empty selection with a domain is rejected by `np.min`), which
is the only way the selection can fail. -/
theorem getitem_spec (s : State K) (h : Inv s) (idx : Index) (sel : List Nat)
    (hsel : select idx s.weights.length = .ok sel) :
    ∃ p w, p.length = sel.length ∧ w.length = sel.length ∧
      (∀ k (hk : k < sel.length), s.points[sel[k]]? = p[k]? ∧ s.weights[sel[k]]? = w[k]?) ∧
      (s.cls = .grid → getItem s idx = .grid .grid p w none) ∧
      (s.cls = .oned → onedDomainOk p s.domain = true → getItem s idx = .grid .oned p w s.domain) ∧
      (s.cls = .oned → onedDomainOk p s.domain = false → getItem s idx = .error .valueError) := by
  have hlen : s.weights.length = s.points.length := by rw [points_length]; exact h.len
  have hlt := select_lt idx _ sel hsel
  obtain ⟨p, hp⟩ := gather_isSome s.points sel (fun i hi => by rw [← hlen]; exact hlt i hi)
  obtain ⟨w, hw⟩ := gather_isSome s.weights sel hlt
  refine ⟨p, w, gather_length hp, gather_length hw,
    fun k hk => ⟨gather_getElem hp k hk, gather_getElem hw k hk⟩, ?_, ?_, ?_⟩
  · intro hc; simp only [getItem, hsel, hp, hw, hc]
  · intro hc hd; simp only [getItem, hsel, hp, hw, hc, hd, if_true]
  · intro hc hd; simp [getItem, hsel, hp, hw, hc, hd]

/-- (classes without selection) `AtomGrid`, `MolGrid` (as a point selection),
`UniformGrid`/`Tensor1DGrids` and `LocalGrid` inherit `Grid.__getitem__` but their
constructors do not take `(points, weights)`: a valid index ends in TypeError, an invalid
one in the error of the index. -/
theorem getitem_unsupported (s : State K) (h : Inv s) (idx : Index) :
    (∀ e, select idx s.weights.length = .error e → getItem s idx = .error e) ∧
    (∀ sel, select idx s.weights.length = .ok sel → s.cls ≠ .grid → s.cls ≠ .oned →
      getItem s idx = .error .typeError) := by
  constructor
  · intro e he; simp only [getItem, he]
  · intro sel hsel h1 h2
    obtain ⟨p, w, _, _, _, _, _, _⟩ := getitem_spec s h idx sel hsel
    have hlen : s.weights.length = s.points.length := by rw [points_length]; exact h.len
    have hlt := select_lt idx _ sel hsel
    obtain ⟨p, hp⟩ := gather_isSome s.points sel (fun i hi => by rw [← hlen]; exact hlt i hi)
    obtain ⟨w, hw⟩ := gather_isSome s.weights sel hlt
    cases hc : s.cls <;> simp_all [getItem]

/-- (reassignments) `grid.points = value` with an array of the same shape replaces the
points, keeps the weights and **drops the tree**; `AtomGrid` has no points setter
(AttributeError, object unchanged); another shape is a ValueError (object unchanged).
`grid.weights = value` of the same length replaces the weights and keeps points and tree. -/
theorem setters_spec (s : State K) (oned : Bool) (dim : Nat) (value : List (Point K))
    (w : List K) :
    (s.cls ≠ .atom → sameShape s oned dim value = true →
      step s (.setPoints oned dim value) =
        ({ s with stored := value, tree := none }, .done)) ∧
    (s.cls = .atom → step s (.setPoints oned dim value) = (s, .error .attributeError)) ∧
    (s.cls ≠ .atom → sameShape s oned dim value = false →
      step s (.setPoints oned dim value) = (s, .error .valueError)) ∧
    (w.length = s.weights.length → step s (.setWeights w) = ({ s with weights := w }, .done)) ∧
    (w.length ≠ s.weights.length → step s (.setWeights w) = (s, .error .valueError)) := by
  refine ⟨?_, ?_, ?_, ?_, ?_⟩
  · intro h1 h2; simp [step, h1, h2]
  · intro h1; simp [step, h1]
  · intro h1 h2; simp [step, h1, h2]
  · intro h1; simp [step, h1]
  · intro h1; simp [step, h1]

end machine

/-! ### selection -/

/-- (selection by an integer, Python or NumPy) `i` in `[0, n)` selects position `i`, `i` in
`[-n, 0)` selects `n + i`, anything else is an IndexError; a NumPy integer behaves as a
Python integer. -/
theorem select_int (i : Int) (n : Nat) :
    (0 ≤ i → i < n → select (.int i) n = .ok [i.toNat]) ∧
    (i < 0 → -(n : Int) ≤ i → select (.int i) n = .ok [(i + n).toNat]) ∧
    ((n : Int) ≤ i ∨ i < -(n : Int) → select (.int i) n = .error .indexError) ∧
    select (.npInt i) n = select (.int i) n := by
  refine ⟨?_, ?_, ?_, rfl⟩
  · intro h1 h2; simp [select, normIndex, h1, h2]
  · intro h1 h2
    have : ¬ (0 ≤ i ∧ i < n) := by omega
    simp [select, normIndex, this, h1, h2]
  · intro h
    have h1 : ¬ (0 ≤ i ∧ i < n) := by omega
    have h2 : ¬ (i < 0 ∧ -(n : Int) ≤ i) := by omega
    simp [select, normIndex, h1, h2]

/-- (selection by an index array) succeeds iff every entry is a valid (possibly negative)
index; the result lists the normalised entries in the order of the array (repetitions kept). -/
theorem select_array (is : List Int) (n : Nat) (ks : List Nat) :
    select (.array is) n = .ok ks ↔ is.map (normIndex · n) = ks.map some := by
  rw [← mapM_option_eq_some_iff]
  unfold select
  cases h : List.mapM (fun x => normIndex x n) is <;> simp [h]

/-- (selection by a mask) a mask of the right length selects the positions holding `True`,
ascending, each once; a mask of another length is an IndexError. -/
theorem select_mask (bs : List Bool) (n : Nat) :
    (bs.length ≠ n → select (.mask bs) n = .error .indexError) ∧
    (bs.length = n → ∃ sel, select (.mask bs) n = .ok sel ∧ sel.Pairwise (· < ·) ∧
      ∀ k, k ∈ sel ↔ bs[k]? = some true) := by
  constructor
  · intro h; simp [select, h]
  · intro h
    refine ⟨(bs.zipIdx.filter (·.1)).map (·.2), by simp [select, h], ?_, ?_⟩
    · have h1 : ((bs.zipIdx.filter (·.1)).map (·.2)).Sublist (bs.zipIdx.map (·.2)) :=
        List.Sublist.map _ List.filter_sublist
      rw [List.zipIdx_map_snd] at h1
      exact List.Pairwise.sublist h1 (List.pairwise_lt_range' 1)
    · intro k
      simp only [List.mem_map, List.mem_filter, List.mem_zipIdx_iff_getElem?]
      constructor
      · rintro ⟨⟨b, j⟩, ⟨h1, h2⟩, rfl⟩
        simp only at h2 h1 ⊢; rw [h1, h2]
      · intro hk; exact ⟨(true, k), ⟨hk, rfl⟩, rfl⟩

/-- (selection by a slice, any step) with CPython's adjusted bounds `(a, b)`: a zero step is a
ValueError; otherwise the selection is `a, a+st, a+2·st, …` (in this order), it consists of
exactly the positions between `a` (inclusive) and `b` (exclusive) in the direction of the step
that differ from `a` by a multiple of the step, and all of them are valid positions. -/
theorem select_slice (start stop step : Option Int) (n : Nat) :
    (sliceStep step = 0 → select (.slice start stop step) n = .error .valueError) ∧
    (sliceStep step ≠ 0 →
      let st := sliceStep step
      let a := (sliceBounds start stop st n).1
      let b := (sliceBounds start stop st n).2
      ∃ sel, select (.slice start stop step) n = .ok sel ∧
        sel = (List.range sel.length).map (fun (j : Nat) => (a + (j : Int) * st).toNat) ∧
        (∀ k : Nat, k ∈ sel ↔
          (0 < st ∧ a ≤ k ∧ (k : Int) < b ∧ st ∣ (k : Int) - a) ∨
          (st < 0 ∧ b < k ∧ (k : Int) ≤ a ∧ st ∣ (k : Int) - a)) ∧
        ∀ k ∈ sel, k < n) := by
  constructor
  · intro h; simp [select, sliceSelect, h]
  · intro hst st a b
    have hmem := fun x => mem_pyRange a b st x hst
    -- every element of the range is a valid position
    have hrange : ∀ x ∈ pyRange a b st, 0 ≤ x ∧ x < n := by
      intro x hx
      rcases (hmem x).mp hx with ⟨hp, h1, h2, _⟩ | ⟨hn, h1, h2, _⟩
      · have := sliceBounds_pos start stop st n hp; omega
      · have := sliceBounds_neg start stop st n hn; omega
    refine ⟨(pyRange a b st).map Int.toNat, by simp [select, sliceSelect, hst, st, a, b], ?_, ?_, ?_⟩
    · simp only [pyRange, List.map_map, List.length_map, List.length_range]
      rfl
    · intro k
      rw [← hmem]
      simp only [List.mem_map]
      constructor
      · rintro ⟨x, hx, rfl⟩
        have := (hrange x hx).1
        rw [Int.toNat_of_nonneg this]; exact hx
      · intro hk; exact ⟨k, hk, by simp⟩
    · intro k hk
      simp only [List.mem_map] at hk
      obtain ⟨x, hx, rfl⟩ := hk
      have := hrange x hx
      omega

/-- (selection by a slice `a:b`, default step, non-negative bounds within the grid) the
positions `a, a+1, …, b-1` in order. -/
theorem select_slice_default_step (a b n : Nat) (ha : a ≤ n) (hb : b ≤ n) :
    select (.slice (some a) (some b) none) n = .ok (List.range' a (b - a)) := by
  simp only [select, sliceSelect, sliceStep, sliceBounds]
  have h1 : ¬ ((a : Int) < 0) := by omega
  have h2 : ¬ ((b : Int) < 0) := by omega
  simp only [show ¬ ((1 : Int) = 0) by omega, if_false, show (1 : Int) > 0 by omega, if_true, h1, h2, ge_iff_le]
  have ea : (if (n : Int) ≤ a then (n : Int) else a) = a := by split <;> omega
  have eb : (if (n : Int) ≤ b then (n : Int) else b) = b := by split <;> omega
  rw [ea, eb]
  congr 1
  unfold pyRange
  simp only [show (1 : Int) > 0 by omega, if_true, Int.ediv_one, Int.mul_one, List.map_map]
  by_cases hab : a < b
  · have : ((a : Int) < b) := by omega
    simp only [this, if_true]
    have hc : ((b : Int) - a - 1 + 1).toNat = b - a := by omega
    rw [hc]
    apply List.ext_getElem
    · simp
    · intro i h1 h2
      simp only [List.getElem_map, List.getElem_range, List.getElem_range', Function.comp]
      omega
  · have : ¬ ((a : Int) < b) := by omega
    simp only [this, if_false]
    have : b - a = 0 := by omega
    simp [this]

/-- (Euclidean reading) Over the reals, for a non-negative radius the squared comparison of
the model is the comparison of the Euclidean distance `√(Σ (pⱼ - cⱼ)²)` with the radius. -/
theorem inBall_iff_sqrt (p c : Point ℝ) (r : ℝ) (hr : 0 ≤ r) :
    dist2 p c = (List.zipWith (fun a b => (a - b) ^ 2) p c).sum ∧
    (inBall p c r ↔ Real.sqrt (dist2 p c) ≤ r) := by
  constructor
  · unfold dist2
    rw [List.sum_eq_foldr]
    simp only [Nat.cast_zero]
    have : (fun a b : ℝ => (a - b) * (a - b)) = fun a b => (a - b) ^ 2 := by
      funext a b; ring
    rw [this]
  · unfold inBall
    rw [Real.sqrt_le_left hr, sq]

/-- (why the invariant matters) A state whose tree is *not* the tree of the current points
(what the object looked like after `points = …` before the setter dropped the tree) answers
for the old points: here the only point has moved from 0 to 5, the sphere of radius 1 around
0 is empty, yet position 0 is returned. -/
theorem stale_tree_would_fail :
    let s : State Int := { cls := .grid, oned := true, dim := 1, stored := [[5]], centre := none,
                           weights := [1], tree := some [[0]], domain := none }
    ¬ Inv s ∧ (query s (.scalar 0) (.fin 1)).2 = .localGrid [0] [[5]] [1] ∧
      ¬ Correct s [0] 1 (query s (.scalar 0) (.fin 1)).2 := by
  intro s
  have hq : (query s (.scalar 0) (.fin 1)).2 = .localGrid [0] [[5]] [1] := by rfl
  refine ⟨?_, hq, ?_⟩
  · intro h
    rcases h.tree with h | h
    · cases h
    · have : ([[0]] : List (Point Int)) = [[5]] := Option.some.inj h
      cases this
  · rw [hq]
    rintro ⟨idx, lp, lw, heq, _, _, hmem, _⟩
    cases heq
    obtain ⟨p, hp, hb⟩ := (hmem 0).mp (by simp)
    have : p = [5] := by
      have : s.points[0]? = some [5] := rfl
      rw [this] at hp; exact (Option.some.inj hp).symm
    subst this
    exact absurd hb (by decide)

/-! ### Non-vacuity: the hypotheses are met by concrete, non-trivial instances (`K = Int`) -/

/-- A 2-D `Grid` with three points. -/
def exGrid : Except Err (State Int) :=
  init .grid false 2 [[0, 0], [3, 0], [0, 4]] none [10, 20, 30] none

/-- The history `[query, points = …, weights = …, query]`: the second query answers for the new
points and weights (the hypotheses of `localgrid_correct` hold: accepted constructor, accepted
centre, non-negative radius, a grid with points). -/
example :
    ∃ s₀, exGrid = .ok s₀ ∧
      let ops : List (Op Int) :=
        [.query (.vector [0, 0]) (.fin 3), .setPoints false 2 [[9, 9], [1, 1], [0, 2]],
         .setWeights [1, 2, 3]]
      let s := (run s₀ ops).1
      (run s₀ ops).2 = [.localGrid [0, 1] [[0, 0], [3, 0]] [10, 20], .done, .done] ∧
      centreOf s (.vector [0, 0]) = some [0, 0] ∧ ¬ (2 : Int) < ((0 : Nat) : Int) ∧
      s.weights.length ≠ 0 ∧
      (step s (.query (.vector [0, 0]) (.fin 2))).2 = .localGrid [1, 2] [[1, 1], [0, 2]] [2, 3] :=
  ⟨_, rfl, rfl, rfl, by decide, by decide, rfl⟩

/-- `AtomGrid`: stored points are relative to the centre, the query sees `stored + centre`;
the points setter is refused and changes nothing. -/
example :
    ∃ s₀, init .atom false 3 [[1, 0, 0], [-1, 0, 0]] (some [5, 5, 5]) [7, 8] none = .ok s₀ ∧
      (run s₀ [.setPoints false 3 [[0, 0, 0], [0, 0, 0]], .query (.vector [6, 5, 5]) (.fin 1)]).2
        = [.error .attributeError, .localGrid [0] [[6, 5, 5]] [7]] :=
  ⟨_, rfl, rfl⟩

/-- Infinite radius, empty sphere, rejected queries. -/
example :
    ∃ s₀, exGrid = .ok s₀ ∧
      (query s₀ (.vector [0, 0]) .inf).2 = .localGrid [0, 1, 2] [[0, 0], [3, 0], [0, 4]] [10, 20, 30] ∧
      (query s₀ (.vector [7, 7]) (.fin 1)).2 = .localGrid [] [] [] ∧
      (query s₀ (.vector [7, 7]) (.fin (-1))).2 = .error .valueError ∧
      (query s₀ (.scalar 7) (.fin 1)).2 = .error .valueError :=
  ⟨_, rfl, rfl, rfl, rfl, rfl⟩

/-- All index kinds (CPython slice semantics incl. negative steps and clipping). -/
example :
    select (.int (-1)) 5 = .ok [4] ∧ select (.npInt 2) 5 = .ok [2] ∧
    select (.int 5) 5 = .error .indexError ∧
    select (.slice (some 1) none (some 2)) 5 = .ok [1, 3] ∧
    select (.slice none none (some (-1))) 3 = .ok [2, 1, 0] ∧
    select (.slice (some (-2)) (some 100) none) 5 = .ok [3, 4] ∧
    select (.slice (some 4) (some 0) (some (-3))) 5 = .ok [4, 1] ∧
    select (.slice none none (some 0)) 5 = .error .valueError ∧
    select (.array [0, -1, 0]) 3 = .ok [0, 2, 0] ∧
    select (.array [0, 3]) 3 = .error .indexError ∧
    select (.mask [true, false, true]) 3 = .ok [0, 2] ∧
    select (.mask [true, false]) 3 = .error .indexError := by
  decide

/-- Selection on a `OneDGrid` keeps class and domain; on a `UniformGrid` it is a TypeError. -/
example :
    ∃ s₀, init .oned true 1 [[1], [2], [3]] none [10, 20, 30] (some (0, 5)) = .ok s₀ ∧
      getItem s₀ (.slice (some 1) none none) = .grid .oned [[2], [3]] [20, 30] (some (0, 5)) ∧
      getItem s₀ (.mask [true, false, true]) = .grid .oned [[1], [3]] [10, 30] (some (0, 5)) :=
  ⟨_, rfl, rfl, rfl⟩

example :
    ∃ s₀, init .rect false 2 [[0, 0], [0, 1], [1, 0], [1, 1]] none [1, 1, 1, 1] none = .ok s₀ ∧
      getItem s₀ (.int 0) = .error .typeError ∧ getItem s₀ (.int 9) = .error .indexError :=
  ⟨_, rfl, rfl, rfl⟩

end GridVerif.C10

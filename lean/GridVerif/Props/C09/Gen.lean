/-
  C09 — tie of the *generated* definitions `Gen/AtomInterp.lean` (written by `harness/translate/atominterp.py`
  from the source of `grid/atomgrid.py` on every run) to the hand model `Model/AtomInterp.lean`, about which the
  theorems of `Props/C09.lean` are stated, and the core clauses restated over the generated text.

  * `gen_integrate_eq_model`   — `integrate_angular_coordinates`: weights, slice bounds of the per-shell sums, the
                                 division by `r**2 * w`, the `r < 1e-8` branch with the rebuilt angular weights;
  * `gen_components_eq_model`  — `radial_component_splines`: the `einsum` product, the zeroing rule
                                 (`degrees[i] != l_max` ⇒ rows from `(degrees[i] // 2 + 1)²` on are zero);
  * `gen_splines_eq_model`     — the basis (degree `l_max // 2`, atomic-grid angles), the spline per row, the spherical
                                 average (`/ (4.0 * np.pi)`);
  * `gen_degrees_agree`        — the three places that choose the harmonic degree (`radial_component_splines`, and the
                                 two calls inside `interpolate_low`) all use `l_max // 2`, the degree of the hand model;
  * `gen_angular_integral_exact`, `gen_components_recovered`, `gen_reweighted_sum_is_integral`
                               — the clauses of the property, stated about the generated definitions.

  Every scalar type `K` where no field law is needed (so also `Float`, in the driver).
-/
import GridVerif.Gen.AtomInterp
import GridVerif.Props.C09.Example

set_option linter.unusedSectionVars false

namespace GridVerif.C09
open GridVerif.AtomInterp

section generic
variable {K : Type} [Add K] [Sub K] [Mul K] [Div K] [Neg K] [NatCast K] [Elem K] [LT K] [DecidableLT K]

/-- **Tie: `integrate_angular_coordinates`.** The generated text equals the hand model on every shell, every
grid and function, every scalar type. -/
theorem gen_integrate_eq_model (g : AGrid K) (f : Nat → K) (i : Nat) :
    Gen.AtomInterp.integrateAngular g f i = integrateAngular g f i := by
  unfold Gen.AtomInterp.integrateAngular integrateAngular shellSum AGrid.size tiny8
  by_cases h : g.r i < ((1 : Nat) : K) / ((100000000 : Nat) : K) <;> simp only [h, decide_true, decide_false, if_true, if_false, Bool.false_eq_true]

/-- **Tie: the radial components** (`einsum` product, call of `integrate_angular_coordinates`, zeroing rule). -/
theorem gen_components_eq_model (g : AGrid K) (bas : Nat → Nat → K) (f : Nat → K) (row i : Nat) :
    Gen.AtomInterp.radialComponents g bas f row i = radialComponents g bas f row i := by
  unfold Gen.AtomInterp.radialComponents radialComponents nRows
  simp only [gen_integrate_eq_model, Nat.pow_two]
  by_cases hd : g.deg i ≠ g.lMax <;> by_cases hr : (g.deg i / 2 + 1) * (g.deg i / 2 + 1) ≤ row <;> simp [hd, hr]

/-- **Tie: basis, splines, spherical average.** -/
theorem gen_splines_eq_model (interp : List K → List K → K → Nat → K) (g : AGrid K) (Y : Nat → K → K → K)
    (f : Nat → K) (row : Nat) :
    Gen.AtomInterp.basis g Y = basis g Y ∧
    Gen.AtomInterp.radialComponentSplines interp g Y f row = radialComponentSplines interp g Y f row ∧
    Gen.AtomInterp.averageValues g f = averageValues g f ∧
    Gen.AtomInterp.sphericalAverage interp g f = sphericalAverage interp g f := by
  have hb : Gen.AtomInterp.basis g Y = basis g Y := rfl
  have hc : Gen.AtomInterp.radialComponents g (basis g Y) f row = radialComponents g (basis g Y) f row := by
    funext i; exact gen_components_eq_model g _ f row i
  have ha : Gen.AtomInterp.averageValues g f = averageValues g f := by
    funext i
    unfold Gen.AtomInterp.averageValues averageValues
    rw [gen_integrate_eq_model]
  refine ⟨hb, ?_, ha, ?_⟩
  · unfold Gen.AtomInterp.radialComponentSplines radialComponentSplines componentSpline nodes
    rw [hb, hc]
  · unfold Gen.AtomInterp.sphericalAverage sphericalAverage nodes
    rw [ha]

end generic

/-- **Tie: one degree everywhere.** The cached basis of `radial_component_splines` and both harmonics calls of
`interpolate_low` use `l_max // 2`; the number of rows is `(l_max // 2 + 1)²`, and the size guard of
`radial_component_splines` accepts exactly arrays of the grid's size. -/
theorem gen_degrees_agree (l_max : ℕ) (g : AGrid ℝ) (size : ℕ) :
    Gen.AtomInterp.basisDegree l_max = l_max / 2 ∧ Gen.AtomInterp.evalDegree l_max = l_max / 2 ∧
    Gen.AtomInterp.evalDerivDegree l_max = l_max / 2 ∧
    nRows (Gen.AtomInterp.basisDegree g.lMax) = (g.lMax / 2 + 1) * (g.lMax / 2 + 1) ∧
    (Gen.AtomInterp.splinesRejects g size = false ↔ size = g.npts) := by
  refine ⟨rfl, rfl, rfl, rfl, ?_⟩
  simp [Gen.AtomInterp.splinesRejects]

example : Gen.AtomInterp.evalDegree 7 = 3 ∧ Gen.AtomInterp.basisDegree 7 = 3 := by decide

/-- **Clause "re-weighted by r_i² w_i sums to the full grid integral"**, about the generated
`integrate_angular_coordinates` (hypotheses as in `reweighted_sum_is_integral`). -/
theorem gen_reweighted_sum_is_integral (g : AGrid ℝ) (f : ℕ → ℝ)
    (h0 : g.idx 0 = 0) (hmono : ∀ i < g.nShells, g.idx i ≤ g.idx (i + 1))
    (hw : ∀ i < g.nShells, ¬ g.r i < tiny8 → g.w i ≠ 0)
    (hsmall : ∀ i < g.nShells, g.r i < tiny8 → ProductWeightsOn g i) :
    reweightedSum g (Gen.AtomInterp.integrateAngular g f) = gridIntegral g f := by
  have : Gen.AtomInterp.integrateAngular g f = integrateAngular g f := by
    funext i; exact gen_integrate_eq_model g f i
  rw [this]
  exact reweighted_sum_is_integral g f h0 hmono hw hsmall

example : reweightedSum exGrid (Gen.AtomInterp.integrateAngular exGrid fEx) = gridIntegral exGrid fEx :=
  gen_reweighted_sum_is_integral exGrid fEx rfl (fun i _ => by simp only [exGrid]; omega)
    (fun i _ => ex_w i) (fun i _ _ => ex_product i)

/-- **Clause "integrating out the angles gives √(4π) g_00(r_i)"**, about the generated text, under H1. -/
theorem gen_angular_integral_exact (g : AGrid ℝ) (Y : ℕ → ℝ → ℝ → ℝ) (Lf : ℕ) (G : ℕ → ℝ → ℝ) (f : ℕ → ℝ)
    (hf : BandLimitedOn g Y Lf G f) (hY0 : ∀ θ φ, Y 0 θ φ = 1 / Real.sqrt (4 * Real.pi))
    (i : ℕ) (hi : i < g.nShells)
    (hW : ProductWeightsOn g i) (hw : ¬ g.r i < tiny8 → g.w i ≠ 0)
    (H1 : ShellOrthonormal g Y i 1 (nRows Lf)) :
    Gen.AtomInterp.integrateAngular g f i = Real.sqrt (4 * Real.pi) * G 0 (g.r i) := by
  rw [gen_integrate_eq_model]
  exact angular_integral_exact g Y Lf G f hf hY0 i hi hW hw H1

example (i : ℕ) (hi : i < 2) :
    Gen.AtomInterp.integrateAngular exGrid fEx i = Real.sqrt (4 * Real.pi) * Gex 0 ((i : ℝ) + 1) :=
  gen_angular_integral_exact exGrid Yex 1 Gex fEx ex_band ex_Y0 i hi (ex_product i) (ex_w i)
    (fun a ha b hb => ex_H1 i a (by omega) b hb)

/-- **Clause "the radial components are g_lm(r_i), with the d_i // 2 cut"**, about the generated
`radial_component_splines` (basis of degree `basisDegree l_max = l_max // 2`), under H1. -/
theorem gen_components_recovered (g : AGrid ℝ) (Y : ℕ → ℝ → ℝ → ℝ) (Lf : ℕ) (G : ℕ → ℝ → ℝ) (f : ℕ → ℝ)
    (hf : BandLimitedOn g Y Lf G f) (i : ℕ) (hi : i < g.nShells) (hL : Lf ≤ g.deg i / 2)
    (hW : ProductWeightsOn g i) (hw : ¬ g.r i < tiny8 → g.w i ≠ 0)
    (H1 : ShellOrthonormal g Y i (nRows (g.deg i / 2)) (nRows Lf))
    (row : ℕ) (hrow : row < nRows (Gen.AtomInterp.basisDegree g.lMax)) :
    Gen.AtomInterp.radialComponents g (Gen.AtomInterp.basis g Y) f row i =
      if row < nRows Lf then G row (g.r i) else 0 := by
  rw [gen_components_eq_model]
  exact components_recovered g Y Lf G f hf i hi hL hW hw H1 row hrow

example (i : ℕ) (hi : i < 2) (row : ℕ) (hrow : row < 4) :
    Gen.AtomInterp.radialComponents exGrid (Gen.AtomInterp.basis exGrid Yex) fEx row i = Gex row ((i : ℝ) + 1) := by
  have h := gen_components_recovered exGrid Yex 1 Gex fEx ex_band i hi (ex_hL i) (ex_product i) (ex_w i)
    (ex_H1' i) row (by rw [ex_lMax]; exact hrow)
  rw [h, if_pos (show row < nRows 1 from hrow)]; rfl

end GridVerif.C09
